(* The outcome of Lexer.Run depends on the line only: whatever the fields of the reused Lexer
   struct and of the pooled Metric hold beforehand, [run_line] returns what the stateless
   [Lexer.lex] says (Model/LexState.v).  The proof is the case analysis of which field is read
   where:

     cleared by reset()      read before written otherwise?
       start                 yes: lexKey compares/slices with l.start           (ResetNoStart refuted)
       pos                   yes: next()                                         (ResetNoPos refuted)
       m                     yes: Run's `if l.m != nil` on the event path        (ResetNoM refuted)
       e                     yes: returned as is on the metric path              (ResetNoE refuted at
                             the level of Run's result; handleDatagram tests the metric first)
       tags                  yes: appended to on the event path                  (ResetNoTags refuted)
       err                   yes: Run's `if l.err != nil`                        (ResetNoErr refuted)
     not cleared by reset()
       input, len            assigned by Run before the first state function
       namespace, sampling   assigned by Run before the first state function
       eventTitleLen,        written by the two lexUint32 steps of lexDatadogSpecial, which lie on
       eventTextLen          the only path to lexEventBody, their only reader
     pooled Metric           Name, StringValue, Type, Rate, Tags, Value (not a set) are assigned on
                             every accepted path; Value of a set, TagsKey, Source, Timestamp are
                             NOT assigned by the lexer: they are what Metric.Reset left
                             (pool Get without Reset refuted). *)
From Coq Require Import Lia.
From GS Require Import Base.Bytes Model.Lexer Model.LexState.
Local Open Scope N_scope.

(* ---------------------------------------------------------------------------------------- *)
(* every scanner returns a suffix of what it was given *)

Lemma lex_value_sep_split l v r : lex_value_sep l = Ok (v, r) -> l = v ++ c_pipe :: r.
Proof.
  revert v; induction l as [|b l IH]; intros v; cbn [lex_value_sep]; [discriminate|].
  destruct (N.eqb_spec b c_pipe) as [->|Hp]; [intros H; injection H as <- <-; reflexivity|].
  destruct (b =? c_nul); [discriminate|].
  destruct (lex_value_sep l) as [[v' r']| |]; [|discriminate|discriminate].
  intros H; injection H as <- <-. cbn [app]. f_equal. apply IH. reflexivity.
Qed.

Lemma lex_type_suffix l ty r : lex_type l = Ok (ty, r) -> exists p, l = p ++ r.
Proof.
  unfold lex_type. destruct l as [|b l]; [discriminate|].
  destruct (b =? c_c); [intros H; injection H as <- <-; exists [b]; reflexivity|].
  destruct (b =? c_g); [intros H; injection H as <- <-; exists [b]; reflexivity|].
  destruct (b =? c_m).
  - destruct l as [|b2 l2]; [discriminate|]. destruct (b2 =? c_s); [|discriminate].
    intros H; injection H as <- <-. exists [b; b2]. reflexivity.
  - destruct (b =? c_h); [intros H; injection H as <- <-; exists [b]; reflexivity|].
    destruct (b =? c_s); [intros H; injection H as <- <-; exists [b]; reflexivity|discriminate].
Qed.

Lemma lex_assert_suffix c l r : lex_assert c l = Ok r -> exists p, l = p ++ r.
Proof.
  unfold lex_assert. destruct l as [|b l]; [discriminate|]. destruct (b =? c); [|discriminate].
  intros H; injection H as <-. exists [b]. reflexivity.
Qed.

Lemma lex_uint_suffix l : forall v cons n r, lex_uint v cons l = Ok (n, r) -> exists p, l = p ++ r.
Proof.
  induction l as [|b l IH]; intros v cons n r; cbn [lex_uint].
  - destruct cons; [|discriminate]. intros H; injection H as <- <-. exists []. reflexivity.
  - destruct (is_digit b).
    + destruct (_ <? v); [discriminate|].
      intros H. destruct (IH _ _ _ _ H) as [p ->]. exists (b :: p). reflexivity.
    + destruct (b =? c_nul); [intros H; injection H as <- <-; exists [b]; reflexivity|].
      destruct cons; [|discriminate]. intros H; injection H as <- <-. exists []. reflexivity.
Qed.

Lemma lex_uint32_suffix l n r : lex_uint32 l = Ok (n, r) -> exists p, l = p ++ r.
Proof.
  unfold lex_uint32. destruct (lex_uint 0 false l) as [[v r']| |] eqn:E; [|discriminate|discriminate].
  destruct (max_uint32 <? v); [discriminate|]. intros H; injection H as <- <-.
  exact (lex_uint_suffix _ _ _ _ _ E).
Qed.

Lemma event_body_suffix w tl xl l title text r :
  event_body w tl xl l = Ok (title, text, r) -> exists p, l = p ++ r.
Proof.
  unfold event_body. destruct (N.of_nat (length l) <? _); [discriminate|].
  destruct (index_checked l tl); [|discriminate]. destruct (negb _); [discriminate|].
  destruct (slice_checked l 0 tl); [|discriminate]. destruct (slice_checked l (tl + 1) (tl + 1 + xl)); [|discriminate].
  intros H; injection H as <- <- <-. exists (firstn (N.to_nat (tl + 1 + xl)) l). symmetry. apply firstn_skipn.
Qed.

(* ---------------------------------------------------------------------------------------- *)
(* positions *)

Lemma skipn_plus {A} (a b : nat) (l : list A) : skipn (a + b) l = skipn b (skipn a l).
Proof.
  revert l; induction a as [|a IH]; intros l; [reflexivity|].
  destruct l as [|x l]; [rewrite !skipn_nil; reflexivity|]. cbn [skipn Nat.add]. apply IH.
Qed.

(* the lexer has read [pre], [u] is still unread *)
Definition At (s : lexstate) (pre u : str) : Prop :=
  ls_input s = pre ++ u /\ ls_len s = length (pre ++ u) /\ ls_pos s = length pre.

Lemma At_unread s pre u : At s pre u -> unread s = u.
Proof.
  intros (Hi & Hl & Hp). unfold unread. rewrite Hi, Hl, Hp, firstn_all.
  rewrite skipn_app, skipn_all, Nat.sub_diag. reflexivity.
Qed.

Lemma At_advance s pre p r : At s pre (p ++ r) -> At (advance s r) (pre ++ p) r.
Proof.
  intros H. pose proof (At_unread _ _ _ H) as Hu. destruct H as (Hi & Hl & Hp).
  unfold advance, At. cbn [set_pos ls_input ls_len ls_pos]. rewrite Hu, Hi, Hl, Hp.
  rewrite <- !app_assoc. repeat split. rewrite !app_length. lia.
Qed.

Lemma slice_mid (a b c : str) :
  slice_checked (a ++ b ++ c) (N.of_nat (length a)) (N.of_nat (length a + length b)) = Some b.
Proof.
  unfold slice_checked. rewrite !app_length.
  replace (N.of_nat (length a) <=? N.of_nat (length a + length b)) with true by (symmetry; apply N.leb_le; lia).
  replace (N.of_nat (length a + length b) <=? N.of_nat (length a + (length b + length c))) with true
    by (symmetry; apply N.leb_le; lia).
  cbn [andb]. f_equal.
  replace (N.to_nat (N.of_nat (length a + length b) - N.of_nat (length a))) with (length b) by lia.
  rewrite Nat2N.id, skipn_app, skipn_all, Nat.sub_diag. cbn [app skipn].
  rewrite firstn_app, Nat.sub_diag, firstn_all. cbn [firstn]. apply app_nil_r.
Qed.

(* ---------------------------------------------------------------------------------------- *)
(* the pool *)

Definition clean : pmetric := PM [] 0 f64_one [] [] [] [] 0 None.

Lemma pool_get_clean p : pool_get_gen true p = clean.
Proof. destruct p; reflexivity. Qed.

(* ---------------------------------------------------------------------------------------- *)
(* Run's result of a finished machine *)

Definition finish_res (pf : str -> pfres) (r : mres) : run_result :=
  match r with Done s => snd (run_end pf s) | Crash => RPanic end.

Lemma finish_fail pf s e : finish_res pf (fail s e) = RR None None (Some e).
Proof. reflexivity. Qed.

(* ---------------------------------------------------------------------------------------- *)
(* the event path *)

Section Event.
  Variable pf : str -> pfres.

  (* invariant along lexDatadogSpecial's chain of assertions and numbers *)
  Definition EvInv (s : lexstate) (pre u : str) : Prop :=
    At s pre u /\ ls_err s = None /\ ls_m s = None /\ ls_tags s = [] /\ ls_e s = Some zero_event.

  Lemma EvInv_advance s pre p r : EvInv s pre (p ++ r) -> EvInv (advance s r) (pre ++ p) r.
  Proof. intros (H & He & Hm & Ht & Hev). split; [apply At_advance; exact H|]. repeat split; assumption. Qed.

  Lemma event_body_step s pre u :
    EvInv s pre u ->
    finish_res pf (lexEventBody s) =
    raw_of (match bind (event_body false (ls_etl s) (ls_exl s) u)
                       (fun '(title, text, r7) => lex_eattrs EAttrs (empty_event title text) [] r7) with
            | Ok (e, tags) => OEvent (with_tags e (rev tags))
            | Rej x => OReject x
            | Pan => OPanic
            end).
  Proof.
    intros HI. pose proof HI as (HA & He & Hm & Ht & Hev).
    unfold lexEventBody. rewrite (At_unread _ _ _ HA).
    destruct (event_body false (ls_etl s) (ls_exl s) u) as [[[title text] r]|x|] eqn:EB; cbn [bind]; [|reflexivity|reflexivity].
    destruct (event_body_suffix _ _ _ _ _ _ _ EB) as [p ->].
    pose proof (EvInv_advance _ _ _ _ HI) as (HA' & He' & Hm' & Ht' & Hev').
    unfold upd_e. rewrite Hev'. unfold lexEventAttributes. cbn [set_e ls_e].
    change (unread (set_e (advance s r) (Some (e_set_title_text title text zero_event)))) with (unread (advance s r)).
    rewrite (At_unread _ _ _ HA').
    change (ls_tags (set_e (advance s r) (Some (e_set_title_text title text zero_event)))) with (ls_tags (advance s r)).
    rewrite Ht'. cbn [rev].
    change (e_set_title_text title text zero_event) with (empty_event title text).
    destruct (lex_eattrs EAttrs (empty_event title text) [] r) as [[e' tags]|x|]; [|reflexivity|reflexivity].
    unfold finish_res, run_end. cbn [set_tags set_e ls_err ls_m ls_e ls_tags advance set_pos snd].
    rewrite He, Hm. reflexivity.
  Qed.

  Lemma event_path s pre u :
    At s pre u -> ls_err s = None -> ls_m s = None -> ls_tags s = [] ->
    finish_res pf (lexDatadogSpecial s) = raw_of (lex_event u).
  Proof.
    intros HA He Hm Ht. unfold lexDatadogSpecial, lex_event, lex_event_gen. rewrite (At_unread _ _ _ HA).
    destruct u as [|b r0]; [reflexivity|].
    destruct (b =? c_e); cbn [negb]; [|reflexivity].
    assert (H0 : EvInv (set_e (advance s r0) (Some zero_event)) (pre ++ [b]) r0).
    { split; [exact (At_advance s pre [b] r0 HA)|]. repeat split; assumption. }
    revert H0. generalize (set_e (advance s r0) (Some zero_event)) (pre ++ [b]). clear s pre HA He Hm Ht.
    intros s pre HI.
    (* '{' *)
    unfold lexAssert at 1. rewrite (At_unread _ _ _ (proj1 HI)).
    destruct (lex_assert c_lbrace r0) as [r1|x|] eqn:E1; cbn [bind]; [|reflexivity|reflexivity].
    destruct (lex_assert_suffix _ _ _ E1) as [p1 ->]. apply EvInv_advance in HI.
    revert HI. generalize (advance s r1) (pre ++ p1). clear s pre E1 p1. intros s pre HI.
    (* title length *)
    unfold lexUint32 at 1. rewrite (At_unread _ _ _ (proj1 HI)).
    destruct (lex_uint32 r1) as [[tl r2]|x|] eqn:E2; cbn [bind]; [|reflexivity|reflexivity].
    destruct (lex_uint32_suffix _ _ _ E2) as [p2 ->]. apply EvInv_advance in HI.
    assert (HI2 : EvInv (set_etl (advance s r2) tl) (pre ++ p2) r2) by exact HI.
    assert (Htl : ls_etl (set_etl (advance s r2) tl) = tl) by reflexivity.
    revert HI2 Htl. generalize (set_etl (advance s r2) tl) (pre ++ p2). clear s pre E2 p2 HI. intros s pre HI Htl.
    (* ',' *)
    unfold lexAssert at 1. rewrite (At_unread _ _ _ (proj1 HI)).
    destruct (lex_assert c_comma r2) as [r3|x|] eqn:E3; cbn [bind]; [|reflexivity|reflexivity].
    destruct (lex_assert_suffix _ _ _ E3) as [p3 ->]. apply EvInv_advance in HI.
    assert (Htl' : ls_etl (advance s r3) = tl) by exact Htl.
    revert HI Htl'. generalize (advance s r3) (pre ++ p3). clear s pre E3 p3 Htl. intros s pre HI Htl.
    (* text length *)
    unfold lexUint32 at 1. rewrite (At_unread _ _ _ (proj1 HI)).
    destruct (lex_uint32 r3) as [[xl r4]|x|] eqn:E4; cbn [bind]; [|reflexivity|reflexivity].
    destruct (lex_uint32_suffix _ _ _ E4) as [p4 ->]. apply EvInv_advance in HI.
    assert (HI2 : EvInv (set_exl (advance s r4) xl) (pre ++ p4) r4) by exact HI.
    assert (Htl' : ls_etl (set_exl (advance s r4) xl) = tl) by exact Htl.
    assert (Hxl : ls_exl (set_exl (advance s r4) xl) = xl) by reflexivity.
    revert HI2 Htl' Hxl. generalize (set_exl (advance s r4) xl) (pre ++ p4). clear s pre E4 p4 HI Htl. intros s pre HI Htl Hxl.
    (* '}' *)
    unfold lexAssert at 1. rewrite (At_unread _ _ _ (proj1 HI)).
    destruct (lex_assert c_rbrace r4) as [r5|x|] eqn:E5; cbn [bind]; [|reflexivity|reflexivity].
    destruct (lex_assert_suffix _ _ _ E5) as [p5 ->]. apply EvInv_advance in HI.
    assert (Htl' : ls_etl (advance s r5) = tl) by exact Htl.
    assert (Hxl' : ls_exl (advance s r5) = xl) by exact Hxl.
    revert HI Htl' Hxl'. generalize (advance s r5) (pre ++ p5). clear s pre E5 p5 Htl Hxl. intros s pre HI Htl Hxl.
    (* ':' *)
    unfold lexAssert at 1. rewrite (At_unread _ _ _ (proj1 HI)).
    destruct (lex_assert c_colon r5) as [r6|x|] eqn:E6; cbn [bind]; [|reflexivity|reflexivity].
    destruct (lex_assert_suffix _ _ _ E6) as [p6 ->]. apply EvInv_advance in HI.
    assert (Htl' : ls_etl (advance s r6) = tl) by exact Htl.
    assert (Hxl' : ls_exl (advance s r6) = xl) by exact Hxl.
    revert HI Htl' Hxl'. generalize (advance s r6) (pre ++ p6). clear s pre E6 p6 Htl Hxl. intros s pre HI Htl Hxl.
    (* body: reads the two length fields *)
    rewrite (event_body_step s pre r6 HI), Htl, Hxl. reflexivity.
  Qed.
End Event.

(* ---------------------------------------------------------------------------------------- *)
(* the metric path *)

Ltac simpl_ls :=
  cbn [ls_input ls_len ls_start ls_pos ls_etl ls_exl ls_m ls_e ls_tags ls_ns ls_err ls_sampling
       set_input set_start set_pos set_etl set_exl set_m set_e set_tags set_ns set_err set_sampling
       upd_m upd_e].

Section Metric.
  Variable pf : str -> pfres.

  Lemma metric_path ns line etl exl e0 :
    let s := LS line (length line) 0 0 etl exl (Some clean) e0 [] ns None f64_one in
    finish_res pf (lexKeySep pf s) =
    match lex_metric pf ns line with
    | OMetric m => RR (Some (clean_metric m)) e0 None
    | o => raw_of o
    end.
  Proof.
    intros s. unfold lexKeySep, lex_metric.
    assert (Hu : unread s = line) by (unfold unread, s; cbn [ls_pos ls_len ls_input]; rewrite firstn_all; reflexivity).
    rewrite Hu. destruct (lex_key_sep line) as [[k r1]|x|]; [|reflexivity|reflexivity].
    clear Hu. subst s. cbn [ls_pos ls_len ls_input firstn app Nat.add].
    set (i := k ++ c_colon :: r1).
    unfold lexKey. simpl_ls.
    replace (length k + 1 - 1)%nat with (length k) by lia.
    destruct k as [|kb k']; [reflexivity|]. cbn [Nat.eqb length].
    set (k := kb :: k') in *.
    unfold input_slice. simpl_ls.
    change (N.of_nat 0) with (N.of_nat (@length N [])).
    replace (slice_checked i (N.of_nat (@length N [])) (N.of_nat (S (length k')))) with (Some k).
    2:{ symmetry. unfold i. change (k ++ c_colon :: r1) with ([] ++ k ++ c_colon :: r1).
        replace (S (length k')) with (@length N [] + length k)%nat by reflexivity. apply slice_mid. }
    simpl_ls.
    (* lexValueSep *)
    set (s1 := LS i (length i) (S (length k') + 1) (S (length k') + 1) etl exl
                  (Some (m_set_name (with_ns ns k) clean)) e0 [] ns None f64_one).
    assert (HA1 : At s1 (k ++ [c_colon]) r1).
    { unfold At, s1, i. cbn [ls_input ls_len ls_pos]. rewrite <- !app_assoc. repeat split.
      rewrite app_length. cbn [length]. unfold k. cbn [length]. lia. }
    match goal with |- finish_res pf (lexValueSep pf ?x) = _ => change x with s1 end.
    change (lexValueSep pf s1) with
      (match lex_value_sep (unread s1) with
       | Ok (_, r) => lexValue pf (advance s1 r) | Rej e => fail s1 e | Pan => Crash end).
    rewrite (At_unread _ _ _ HA1).
    destruct (lex_value_sep r1) as [[v r2]|x|] eqn:EV; [|reflexivity|reflexivity].
    apply lex_value_sep_split in EV. subst r1.
    replace (v ++ c_pipe :: r2) with ((v ++ [c_pipe]) ++ r2) in HA1 by (rewrite <- app_assoc; reflexivity).
    pose proof (At_advance _ _ _ _ HA1) as HA2.
    (* lexValue: slices l.input[l.start:l.pos-1] *)
    unfold lexValue, input_slice.
    destruct HA2 as (Hi2 & Hl2 & Hp2).
    assert (Hst2 : ls_start (advance s1 r2) = length (k ++ [c_colon])).
    { cbn [advance set_pos ls_start s1]. rewrite app_length. unfold k. cbn [length]. lia. }
    rewrite Hst2, Hp2, Hi2.
    replace (slice_checked (((k ++ [c_colon]) ++ v ++ [c_pipe]) ++ r2) (N.of_nat (length (k ++ [c_colon])))
               (N.of_nat (length ((k ++ [c_colon]) ++ v ++ [c_pipe]) - 1))) with (Some v).
    2:{ symmetry. rewrite <- !app_assoc.
        replace (k ++ [c_colon] ++ v ++ [c_pipe] ++ r2) with ((k ++ [c_colon]) ++ v ++ ([c_pipe] ++ r2))
          by (rewrite <- !app_assoc; reflexivity).
        replace (length (k ++ [c_colon] ++ v ++ [c_pipe]) - 1)%nat with (length (k ++ [c_colon]) + length v)%nat
          by (rewrite !app_length; cbn [length]; lia).
        apply slice_mid. }
    unfold upd_m. change (ls_m (advance s1 r2)) with (Some (m_set_name (with_ns ns k) clean)). cbv beta iota.
    (* lexType *)
    match goal with |- finish_res pf (lexType pf ?x) = _ => set (s2 := x) end.
    assert (Hm2 : ls_m s2 = Some (m_set_strval v (m_set_name (with_ns ns k) clean))) by reflexivity.
    assert (HA3 : At s2 ((k ++ [c_colon]) ++ v ++ [c_pipe]) r2) by exact (conj Hi2 (conj Hl2 Hp2)).
    change (lexType pf s2) with
      (match lex_type (unread s2) with
       | Ok (ty, r) =>
           match upd_m (advance s2 r) (m_set_type ty) with
           | Some s' => lexMetricAttributes pf (set_start s' (ls_pos s'))
           | None => Crash
           end
       | Rej e => fail s2 e | Pan => Crash end).
    rewrite (At_unread _ _ _ HA3).
    destruct (lex_type r2) as [[ty r3]|x|] eqn:ET; [|reflexivity|reflexivity].
    destruct (lex_type_suffix _ _ _ ET) as [p3 ->].
    pose proof (At_advance _ _ _ _ HA3) as HA4.
    unfold upd_m. change (ls_m (advance s2 r3)) with (ls_m s2). rewrite Hm2. cbv beta iota.
    (* lexMetricAttributes: reads l.sampling and l.tags *)
    match goal with |- finish_res pf (lexMetricAttributes pf ?x) = _ => set (s3 := x) end.
    assert (HA5 : At s3 (((k ++ [c_colon]) ++ v ++ [c_pipe]) ++ p3) r3) by exact HA4.
    unfold lexMetricAttributes. rewrite (At_unread _ _ _ HA5).
    change (ls_sampling s3) with f64_one. change (ls_tags s3) with (@nil str). cbn [rev].
    destruct (lex_mattrs pf MAttrs f64_one [] r3) as [[rate tags]|x|]; [|reflexivity|reflexivity].
    (* the end of Run *)
    unfold finish_res, run_end, finish_metric.
    change (ls_err (set_tags (set_sampling (advance s3 []) rate) (rev tags))) with (@None reject).
    change (ls_m (set_tags (set_sampling (advance s3 []) rate) (rev tags)))
      with (Some (m_set_type ty (m_set_strval v (m_set_name (with_ns ns k) clean)))).
    change (ls_sampling (set_tags (set_sampling (advance s3 []) rate) (rev tags))) with rate.
    change (ls_tags (set_tags (set_sampling (advance s3 []) rate) (rev tags))) with (rev tags).
    change (ls_e (set_tags (set_sampling (advance s3 []) rate) (rev tags))) with e0.
    cbv beta iota.
    destruct (negb (f64_finite_pos rate)); [reflexivity|].
    destruct ty; cbn [m_set_rate m_set_type m_set_strval m_set_name pm_type pm_strval clean]; try reflexivity;
      destruct (pf v) as [|bits|]; try reflexivity; destruct (f64_is_nan bits); reflexivity.
  Qed.
End Metric.

(* ---------------------------------------------------------------------------------------- *)
(* the theorem *)

Lemma lex_event_not_metric r m : lex_event r <> OMetric m.
Proof.
  unfold lex_event, lex_event_gen. destruct r as [|b r0]; [discriminate|].
  destruct (negb (b =? c_e)); [discriminate|].
  match goal with |- match ?x with _ => _ end <> _ => destruct x as [[e t]| |] end; discriminate.
Qed.

(* the machine started as Run starts it, with an arbitrary value [e0] left in l.e *)
Lemma machine_from pf ns line etl exl e0 :
  finish_res pf (lexSpecial pf clean (LS line (length line) 0 0 etl exl None e0 [] ns None f64_one)) =
  match lex pf ns line with
  | OMetric m => RR (Some (clean_metric m)) e0 None
  | o => raw_of o
  end.
Proof.
  set (s2 := LS line (length line) 0 0 etl exl None e0 [] ns None f64_one).
  assert (HA : At s2 [] line) by (repeat split).
  unfold lexSpecial, lex, lex_gen. rewrite (At_unread _ _ _ HA).
  destruct line as [|b r]; [reflexivity|].
  destruct (b =? c_us).
  - fold lex_event.
    rewrite (event_path pf (advance s2 r) ([] ++ [b]) r (At_advance s2 [] [b] r HA) eq_refl eq_refl eq_refl).
    pose proof (lex_event_not_metric r) as Hne.
    destruct (lex_event r) as [m| | |]; [exfalso; exact (Hne m eq_refl)|reflexivity..].
  - destruct (b =? c_nul); [reflexivity|].
    match goal with |- finish_res pf (lexKeySep pf ?x) = _ =>
      change x with (LS (b :: r) (length (b :: r)) 0 0 etl exl (Some clean) e0 [] ns None f64_one) end.
    rewrite (metric_path pf ns (b :: r) etl exl e0).
    destruct (lex_metric pf ns (b :: r)); reflexivity.
Qed.

Lemma run_line_gen_finish pf v ns pool st line :
  snd (run_line_gen pf v true ns pool st line) =
  finish_res pf (lexSpecial pf clean
    (set_sampling (set_ns (set_input (reset_gen v st) line (length line) (ls_pos (reset_gen v st))) ns) f64_one)).
Proof.
  unfold run_line_gen. rewrite pool_get_clean.
  destruct (lexSpecial pf clean _); reflexivity.
Qed.

Lemma run_line_independent pf ns pool st line :
  snd (run_line pf ns pool st line) = raw_of (lex pf ns line).
Proof.
  unfold run_line. rewrite run_line_gen_finish.
  change (set_sampling _ f64_one) with (LS line (length line) 0 0 (ls_etl st) (ls_exl st) None None [] ns None f64_one).
  rewrite machine_from. destruct (lex pf ns line); reflexivity.
Qed.

(* `l.e = nil` is the one assignment of reset() the parser does not need: without it Run may
   return a stale event next to a metric, which handleDatagram never looks at *)
Lemma run_line_no_e_harmless pf ns pool st line :
  parser_view (snd (run_line_gen pf ResetNoE true ns pool st line)) = raw_of (lex pf ns line).
Proof.
  rewrite run_line_gen_finish.
  change (set_sampling _ f64_one) with (LS line (length line) 0 0 (ls_etl st) (ls_exl st) None (ls_e st) [] ns None f64_one).
  rewrite machine_from. destruct (lex pf ns line); reflexivity.
Qed.

(* one lexer over any sequence of lines, namespaces and pool contents, from any state *)
Lemma run_lines_cons pf st ns pool line steps :
  run_lines pf st ((ns, pool, line) :: steps) =
  snd (run_line pf ns pool st line) :: run_lines pf (fst (run_line pf ns pool st line)) steps.
Proof.
  unfold run_lines, run_line. cbn [run_lines_gen].
  generalize (run_line_gen pf ResetCurrent true ns pool st line). intros [s' res]. reflexivity.
Qed.

Lemma run_lines_independent pf steps : forall st,
  run_lines pf st steps = map (fun '(ns, _, line) => raw_of (lex pf ns line)) steps.
Proof.
  induction steps as [|[[ns pool] line] steps IH]; intros st; [reflexivity|].
  rewrite run_lines_cons, run_line_independent, IH. reflexivity.
Qed.

(* ---------------------------------------------------------------------------------------- *)
(* every assignment of reset() is needed, and so is Metric.Reset: witnesses.
   Lines: L1 = "a:1|c|#x"   L2 = "_e{1,1}:t|x"   L3 = "bad"   L4 = "s:m|s" *)
Definition pf1 (s : str) : pfres := PFVal f64_one.
Definition L1 : str := [97;58;49;124;99;124;35;120].
Definition L2 : str := [95;101;123;49;44;49;125;58;116;124;120].
Definition L3 : str := [98;97;100].
Definition L4 : str := [115;58;109;124;115].
Definition ev (tags : list str) : event :=
  {| e_title := [116]; e_text := [120]; e_date := 0; e_host := []; e_key := []; e_pri := 0;
     e_stype := []; e_alert := 0; e_tags := tags |}.

(* the seeded change: `l.tags = nil` dropped from reset().  The datagram "a:1|c|#x\n_e{1,1}:t|x":
   the event inherits the metric's tag. *)
Lemma reset_no_tags_refuted :
  lex pf1 [] L2 = OEvent (ev []) /\
  run_lines_gen pf1 ResetNoTags true zero_state [([], None, L1); ([], None, L2)]
  = [raw_of (lex pf1 [] L1); RR None (Some (ev [[120]])) None].
Proof. split; vm_compute; reflexivity. Qed.

Lemma reset_no_err_refuted :   (* a rejected line makes every later line fail *)
  run_lines_gen pf1 ResetNoErr true zero_state [([], None, L3); ([], None, L1)]
  = [raw_of (lex pf1 [] L3); RR None None (Some EMissingKeySep)] /\
  exists m, lex pf1 [] L1 = OMetric m.
Proof. split; [vm_compute; reflexivity|eexists; vm_compute; reflexivity]. Qed.

Lemma reset_no_m_refuted :     (* an event after a metric comes back together with the old metric *)
  exists m, nth 1 (run_lines_gen pf1 ResetNoM true zero_state [([], None, L1); ([], None, L2)]) RPanic
            = RR (Some m) (Some (ev [])) None.
Proof. eexists. vm_compute. reflexivity. Qed.

Lemma reset_no_e_refuted :     (* a metric after an event comes back together with the old event *)
  exists m, nth 1 (run_lines_gen pf1 ResetNoE true zero_state [([], None, L2); ([], None, L1)]) RPanic
            = RR (Some m) (Some (ev [])) None.
Proof. eexists. vm_compute. reflexivity. Qed.

Lemma reset_no_pos_refuted :   (* the second line is read from where the first one ended *)
  nth 1 (run_lines_gen pf1 ResetNoPos true zero_state [([], None, L1); ([], None, L1)]) RPanic
  = RR None None (Some EInvalidType).
Proof. vm_compute. reflexivity. Qed.

Lemma reset_no_start_refuted : (* the name is cut from the previous line's last field start *)
  nth 1 (run_lines_gen pf1 ResetNoStart true zero_state [([], None, L1); ([], None, L1)]) RPanic
  <> raw_of (lex pf1 [] L1).
Proof. vm_compute. discriminate. Qed.

(* MetricPool.Get without Metric.Reset: a set keeps the stale Value, and TagsKey / Source /
   Timestamp leak into the next metric *)
Lemma pool_no_reset_refuted :
  let stale := PM [120] 77 f64_one [[116]] [107] [] [9] 5 (Some Counter) in
  exists m, snd (run_line_gen pf1 ResetCurrent false [] (Some stale) zero_state L4) = RR (Some m) None None /\
            pm_value m = 77%Z /\ pm_tagskey m = [107] /\ pm_src m = [9] /\ pm_ts m = 5%Z /\ pm_tags m = [[116]].
Proof. eexists. split; [vm_compute; reflexivity|]. repeat split. Qed.
