(* C08 over whole histories of Model/Aggregator.v: after ANY history of ReceiveMap | Flush | Reset
   from the empty aggregator, a Flush reports for every timer series the statistics [timer_spec]
   of exactly the values received for it since the last Reset. *)
From stdpp Require Import gmap.
From Coq Require Import QArith Qcanon.
From GS Require Import Base.Bytes Base.GoFloat Model.Lexer Model.Series Model.MetricMap.
From GS Require Import Model.GoPartial Model.Histogram Model.Stats Model.Aggregator.
From GS Require Proofs.Histogram Proofs.StatsSort Proofs.StatsRefine Proofs.Stats Proofs.StatsGeneral.
From GS Require Proofs.FlushSafetyMain.
From GS Require Import Proofs.FlushSafety Proofs.AggregatorRefine Proofs.AggregatorProj.
Local Open Scope Z_scope.

(* ---- Stats.flush_timer, every field, in the two cases where it writes almost nothing ---- *)

Lemma flush_timer_hist_eq pf rank c (t t' : Stats.timer Qc) :
  has_histogram_tag (Stats.t_tags t) = true ->
  Stats.flush_timer qc_ops pf rank false c t = Ok t' ->
  exists h, latency_histogram pf qc_le_bound (Stats.t_tags t) (c_limit c) (t_values t) = Ok h /\
    t' = {| t_count := t_count t; t_sampled := t_sampled t; t_persec := t_persec t; t_mean := t_mean t;
            t_median := t_median t; t_min := t_min t; t_max := t_max t; t_var := t_var t; t_sum := t_sum t;
            t_sumsq := t_sumsq t; t_values := t_values t; t_pcts := t_pcts t; t_tags := Stats.t_tags t; t_hist := h |}.
Proof.
  unfold Stats.flush_timer. intros ->. intros H. apply bind_inv in H as (h & Hh & H). injection H as <-. eauto.
Qed.

Lemma flush_timer_empty_eq pf rank c (t t' : Stats.timer Qc) :
  has_histogram_tag (Stats.t_tags t) = false -> t_values t = [] ->
  Stats.flush_timer qc_ops pf rank false c t = Ok t' ->
  t' = {| t_count := 0; t_sampled := 0%Qc; t_persec := 0%Qc; t_mean := t_mean t;
          t_median := t_median t; t_min := t_min t; t_max := t_max t; t_var := t_var t; t_sum := t_sum t;
          t_sumsq := t_sumsq t; t_values := []; t_pcts := t_pcts t; t_tags := Stats.t_tags t; t_hist := t_hist t |}.
Proof.
  unfold Stats.flush_timer. intros -> Ev. rewrite Ev. cbn. intros [= <-]. reflexivity.
Qed.

Lemma flush_lookup_Some pf rank cfg dt a a' k t :
  flush pf rank cfg dt a = Ok a' -> a_timers a !! k = Some t ->
  exists t', a_timers a' !! k = Some t' /\
             Stats.flush_timer qc_ops pf rank false (stats_config cfg dt) (at_t t) = Ok (at_t t').
Proof.
  intros H Ht.
  destruct (Stats.flush_timer qc_ops pf rank false (stats_config cfg dt) (at_t t)) as [s|] eqn:Ef.
  - exists (MkAT s (at_bits t) (at_ts t) (at_src t)). split; [|reflexivity].
    apply (flush_timer_part pf rank cfg dt a a' k _ H). exists t. cbn. auto.
  - assert (flush pf rank cfg dt a = Panic) as Hp; [|congruence]. apply flush_panic_iff. eauto.
Qed.

Lemma flush_lookup_None pf rank cfg dt a a' k :
  flush pf rank cfg dt a = Ok a' -> a_timers a !! k = None -> a_timers a' !! k = None.
Proof.
  intros H Hk. destruct (a_timers a' !! k) as [t'|] eqn:E; [|reflexivity].
  apply (flush_timer_part pf rank cfg dt a a' k t' H) in E as (t & Ht & _). congruence.
Qed.

(* ---- the invariant: every timer is "what has been received for it since the last Reset" ---- *)

Definition zero_stats (t : Stats.timer Qc) : Prop :=
  t_count t = 0 /\ t_persec t = 0%Qc /\ t_mean t = 0%Qc /\ t_median t = 0%Qc /\ t_min t = 0%Qc /\
  t_max t = 0%Qc /\ t_var t = 0%Qc /\ t_sum t = 0%Qc /\ t_sumsq t = 0%Qc.

Definition tinv (vs : list Qc) (s : Qc) (fl : bool) (t : Stats.timer Qc) : Prop :=
  t_sampled t = s /\ (vs = [] -> s = 0%Qc) /\ (forall tag, In tag (Stats.t_tags t) -> len tag < 2^32) /\
  if has_histogram_tag (Stats.t_tags t)
  then t_values t = vs /\ zero_stats t /\ t_pcts t = []
  else Permutation (t_values t) vs /\ t_hist t = HNil /\ (vs = [] -> zero_stats t) /\ (fl = false -> t_pcts t = []).

Definition Inv (P : skey -> list Qc * Qc) (fl : bool) (a : agg) : Prop :=
  forall k, match a_timers a !! k with
            | Some t => tinv (P k).1 (P k).2 fl (at_t t)
            | None => P k = ([], 0%Qc)
            end.

Lemma zero_stats_fresh xs s tags h : zero_stats (Stats.fresh qc_ops xs s tags h).
Proof. repeat split. Qed.

Lemma qvals_nil l : qvals l = [] -> l = [].
Proof. destruct l; [reflexivity | discriminate]. Qed.

Lemma inv_receive P fl a m :
  sane_map m -> Inv P fl a -> Inv (fun k => pend_step k (P k) (ARecv m)) fl (receive_map a m).
Proof.
  intros Hm Ha k. specialize (Ha k). rewrite merge_atimer_lookup. cbn [pend_step].
  destruct (a_timers a !! k) as [x|] eqn:Ex, (timers m !! k) as [y|] eqn:Ey; cbn [merge_atimer]; [| exact Ha | | exact Ha].
  - destruct (Hm k y Ey) as [Hs _]. destruct Ha as (H1 & H2 & H3 & H4). cbn [at_t fst snd].
    unfold tinv. cbn [merge_stats t_sampled Stats.t_tags t_values t_pcts t_hist]. rewrite H1.
    split; [reflexivity|]. split.
    { intros E. apply app_eq_nil in E as [E1 E2]. rewrite (H2 E1), (Hs (qvals_nil _ E2)). ring. }
    split; [exact H3|].
    destruct (has_histogram_tag (Stats.t_tags (at_t x))).
    + destruct H4 as (-> & Hz & Hp). split; [reflexivity|]. split; [exact Hz | exact Hp].
    + destruct H4 as (Hperm & Hh & Hz & Hp). split; [apply Permutation_app_tail, Hperm|]. split; [exact Hh|].
      split; [|exact Hp]. intros E. apply app_eq_nil in E as [E1 _]. exact (Hz E1).
  - destruct (Hm k y Ey) as [Hs Htags]. rewrite Ha. cbn [at_t fst snd app].
    unfold tinv. cbn [Stats.fresh t_sampled Stats.t_tags t_values t_pcts t_hist].
    split; [ring|]. split; [intros E; rewrite (Hs (qvals_nil _ E)); ring|]. split; [exact Htags|].
    destruct (has_histogram_tag (MetricMap.t_tags y)).
    + split; [reflexivity|]. split; [apply zero_stats_fresh | reflexivity].
    + split; [reflexivity|]. split; [reflexivity|]. split; [intros _; apply zero_stats_fresh | reflexivity].
Qed.

Lemma inv_flush pf rank cfg dt P fl a a' :
  flush pf rank cfg dt a = Ok a' -> Inv P fl a -> Inv P true a'.
Proof.
  intros H Ha k. specialize (Ha k). destruct (a_timers a !! k) as [t|] eqn:Et.
  2:{ rewrite (flush_lookup_None pf rank cfg dt a a' k H Et). exact Ha. }
  destruct (flush_lookup_Some pf rank cfg dt a a' k t H Et) as (t' & -> & Hf).
  destruct Ha as (H1 & H2 & H3 & H4). unfold tinv.
  destruct (has_histogram_tag (Stats.t_tags (at_t t))) eqn:Eh.
  - destruct (flush_timer_hist_eq _ _ _ _ _ Eh Hf) as (h & _ & Ht'). rewrite Ht'. cbn [Stats.t_tags t_sampled t_values t_pcts t_hist]. rewrite Eh.
    destruct H4 as (Hv & Hz & Hp).
    split; [exact H1|]. split; [exact H2|]. split; [exact H3|]. split; [exact Hv|]. split; [exact Hz | exact Hp].
  - destruct (t_values (at_t t)) as [|x r] eqn:Ev.
    + rewrite (flush_timer_empty_eq _ _ _ _ _ Eh Ev Hf). cbn. rewrite Eh.
      destruct H4 as (Hperm & Hh & Hz & Hp). apply Permutation_nil in Hperm.
      split; [symmetry; exact (H2 Hperm)|]. split; [exact H2|]. split; [exact H3|].
      split; [rewrite Hperm; reflexivity|]. split; [exact Hh|]. split; [|discriminate].
      intros _. destruct (Hz Hperm) as (_ & _ & Hrest). split; [reflexivity|]. split; [reflexivity | exact Hrest].
    + apply flush_timer_inv in Hf as [Htags Hf]. rewrite Htags, Eh. rewrite Eh, Ev in Hf.
      destruct Hf as (Hv & Hs & _ & _ & Hh). destruct H4 as (Hperm & Hh0 & _ & _).
      split; [rewrite Hs; exact H1|]. split; [exact H2|]. split; [exact H3|].
      split; [rewrite Hv; etransitivity; [apply StatsSort.qsort_perm | exact Hperm]|].
      split; [rewrite Hh; exact Hh0|]. split; [|discriminate].
      intros E. rewrite E in Hperm. apply Permutation_sym, Permutation_nil in Hperm. discriminate.
Qed.

Lemma inv_reset pf cfg now P fl a a' :
  reset pf cfg now a = Ok a' -> Inv P fl a -> Inv (fun _ => ([], 0%Qc)) false a'.
Proof.
  intros H Ha k. destruct (a_timers a' !! k) as [t'|] eqn:E; [|reflexivity].
  apply (reset_timer_part pf cfg now a a' k t' H) in E as (t & Ht & _ & Hr).
  specialize (Ha k). rewrite Ht in Ha. destruct Ha as (_ & _ & H3 & _).
  rewrite reset_atimer_shape in Hr. apply bind_inv in Hr as (h & Hh & Hr). injection Hr as <-.
  unfold tinv. cbn. split; [reflexivity|]. split; [reflexivity|]. split; [exact H3|].
  destruct (has_histogram_tag (Stats.t_tags (at_t t))).
  - split; [reflexivity|]. split; [apply zero_stats_fresh | reflexivity].
  - injection Hh as <-. split; [reflexivity|]. split; [reflexivity|]. split; [intros _; apply zero_stats_fresh | reflexivity].
Qed.

Lemma inv_run pf rank cfg ops : forall a a' P fl,
  sane_ops ops -> Inv P fl a -> foldM (astep pf rank cfg) a ops = Ok a' ->
  Inv (fun k => fold_left (pend_step k) ops (P k)) (fold_left flush_step ops fl) a'.
Proof.
  induction ops as [|o r IH]; intros a a' P fl Hs Ha H; cbn [foldM fold_left] in *.
  - injection H as <-. exact Ha.
  - apply bind_inv in H as (a1 & H1 & H).
    assert (sane_ops r) as Hs' by (intros m Hm; apply Hs; right; exact Hm).
    apply (IH a1 a' (fun k => pend_step k (P k) o) (flush_step fl o) Hs'); [|exact H].
    destruct o as [m|dt|now]; cbn [astep flush_step] in *.
    + injection H1 as <-. apply inv_receive; [apply Hs; left; reflexivity | exact Ha].
    + exact (inv_flush pf rank cfg dt P fl a a1 H1 Ha).
    + exact (inv_reset pf cfg now P fl a a1 H1 Ha).
Qed.

(* ---- the theorem ---- *)

Section Full.
  Variable pf : str -> option bound.
  Variable rank : Z -> Z -> Z.
  Variable cfg : aconfig.

  Lemma arun_safe bound ops a :
    rank_ok rank bound -> acfg_ok cfg -> ops_values ops < bound ->
    arun pf rank cfg ops = Ok a -> safe (ops_values ops) a.
  Proof.
    intros Hr Hc Hb Ha. pose proof (ops_values_nonneg ops) as Hn.
    assert (safe 0 agg_empty) as H0 by (intros k t Hk; cbn in Hk; rewrite lookup_empty in Hk; discriminate).
    assert (0 + ops_values ops < bound) as Hb' by lia.
    destruct (arun_from_safe pf rank cfg bound ops 0 agg_empty Hr Hc (Z.le_refl 0) Hb' H0) as (a0 & Ha0 & Hs).
    unfold arun in Ha. rewrite Ha in Ha0. injection Ha0 as <-. exact Hs.
  Qed.

  Theorem full_flush_spec bound ops dt :
    rank_ok rank bound -> acfg_ok cfg -> ops_values ops < bound -> sane_ops ops ->
    exists a a', arun pf rank cfg ops = Ok a /\ flush pf rank cfg dt a = Ok a' /\
      forall k t', a_timers a' !! k = Some t' ->
        let vs := (received_since_reset ops k).1 in
        let s := (received_since_reset ops k).2 in
        let spec := timer_spec rank pf (stats_config cfg dt) vs s (Stats.t_tags (at_t t')) HNil in
        with_pcts (at_t t') [] = with_pcts spec [] /\
        exists earlier, t_pcts (at_t t') = earlier ++ t_pcts spec /\
                        (flushed_since_reset ops = false -> earlier = []).
  Proof.
    intros Hr Hc Hb Hs.
    destruct (aggregator_never_panics pf rank cfg bound ops dt Hr Hc Hb) as (a & Ha & a' & Ha').
    exists a, a'. split; [exact Ha|]. split; [exact Ha'|].
    intros k t' Hk.
    assert (Inv (fun k => ([], 0%Qc)) false agg_empty) as H0 by (intros k0; cbn; rewrite lookup_empty; reflexivity).
    pose proof (inv_run pf rank cfg ops agg_empty a _ _ Hs H0 Ha) as HI.
    pose proof (arun_safe bound ops a Hr Hc Hb Ha) as Hsafe.
    apply (flush_timer_part pf rank cfg dt a a' k t' Ha') in Hk as (t & Ht & Hf & _).
    specialize (HI k). rewrite Ht in HI. fold (received_since_reset ops k) in HI. fold (flushed_since_reset ops) in HI.
    destruct (Hsafe k t Ht) as [Hlen _]. destruct Hc as [Hpc Hlim].
    destruct HI as (H1 & H2 & H3 & H4).
    set (vs := (received_since_reset ops k).1) in *. set (s := (received_since_reset ops k).2) in *.
    destruct (has_histogram_tag (Stats.t_tags (at_t t))) eqn:Eh.
    - (* histogram timer *)
      destruct (flush_timer_hist_eq _ _ _ _ _ Eh Hf) as (h & Hh & ->). cbn [Stats.t_tags].
      destruct H4 as (Hv & Hz & Hp).
      rewrite Proofs.Histogram.latency_histogram_spec in Hh; [|exact Hlim|].
      2:{ intros tag Hft. apply H3. apply (Proofs.Histogram.find_tag_Some _ _ Hft). }
      injection Hh as <-. unfold timer_spec. rewrite Eh. cbn [t_pcts].
      split; [|exists []; split; [exact Hp | reflexivity]].
      destruct Hz as (Z1 & Z2 & Z3 & Z4 & Z5 & Z6 & Z7 & Z8 & Z9). unfold with_pcts. cbn.
      rewrite Z1, Z2, Z3, Z4, Z5, Z6, Z7, Z8, Z9, H1, Hv. reflexivity.
    - destruct H4 as (Hperm & Hh0 & Hz & Hp).
      destruct (t_values (at_t t)) as [|x r] eqn:Ev.
      + (* no values since the last Reset *)
        rewrite (flush_timer_empty_eq _ _ _ _ _ Eh Ev Hf). cbn [Stats.t_tags t_pcts].
        apply Permutation_nil in Hperm. unfold timer_spec. rewrite Eh, Hperm. cbn [t_pcts].
        split; [|exists (t_pcts (at_t t)); split; [rewrite app_nil_r; reflexivity | exact Hp]].
        destruct (Hz Hperm) as (_ & _ & Z3 & Z4 & Z5 & Z6 & Z7 & Z8 & Z9). unfold with_pcts. cbn.
        rewrite Z3, Z4, Z5, Z6, Z7, Z8, Z9, Hh0. reflexivity.
      + (* values: every statistic is recomputed from them *)
        assert (Stats.flush_timer qc_ops pf rank false (stats_config cfg dt)
                  (Stats.fresh qc_ops (t_values (at_t t)) (t_sampled (at_t t)) (Stats.t_tags (at_t t)) (t_hist (at_t t)))
                = Ok (timer_spec rank pf (stats_config cfg dt) (t_values (at_t t)) (t_sampled (at_t t))
                        (Stats.t_tags (at_t t)) (t_hist (at_t t)))) as Hfresh.
        { apply StatsRefine.flush_timer_refines_spec; [|exact Hlim|exact H3].
          intros p Hp'. apply Hr. 2:{ rewrite Ev. pose proof (len_nonneg (x :: r)). lia. }
          cbn in Hp'. rewrite Forall_forall in Hpc. apply Hpc. first [exact Hp' | apply (proj2 (elem_of_list_In _ _)); exact Hp']. }
        pose proof (StatsGeneral.flush_timer_any pf rank _ (at_t t) _ x r Eh Ev Hfresh) as Hany.
        rewrite Hany in Hf. injection Hf as <-. cbn [with_pcts Stats.t_tags t_pcts].
        assert (Stats.t_tags (timer_spec rank pf (stats_config cfg dt) (t_values (at_t t)) (t_sampled (at_t t))
                  (Stats.t_tags (at_t t)) (t_hist (at_t t))) = Stats.t_tags (at_t t)) as Htg.
        { unfold timer_spec. rewrite Eh, Ev. reflexivity. }
        rewrite Htg, H1, Hh0.
        rewrite <- Ev in Hperm.
        destruct (Proofs.Stats.timer_spec_perm rank pf (stats_config cfg dt) (t_values (at_t t)) vs s
                    (Stats.t_tags (at_t t)) HNil Hperm) as [_ Heq].
        rewrite (Heq Eh). split; [reflexivity|]. exists (t_pcts (at_t t)). split; [reflexivity | exact Hp].
  Qed.
End Full.

(* ... for Go's float64 rank, with C04's unbounded range lemma: no hypothesis on the rank *)
Corollary full_flush_spec_go_rank pf cfg ops dt :
  acfg_ok cfg -> ops_values ops < 2^52 -> sane_ops ops ->
  exists a a', arun pf go_rank cfg ops = Ok a /\ flush pf go_rank cfg dt a = Ok a' /\
    forall k t', a_timers a' !! k = Some t' ->
      let vs := (received_since_reset ops k).1 in
      let s := (received_since_reset ops k).2 in
      let spec := timer_spec go_rank pf (stats_config cfg dt) vs s (Stats.t_tags (at_t t')) HNil in
      with_pcts (at_t t') [] = with_pcts spec [] /\
      exists earlier, t_pcts (at_t t') = earlier ++ t_pcts spec /\
                      (flushed_since_reset ops = false -> earlier = []).
Proof. intros Hc Hb Hs. apply (full_flush_spec pf go_rank cfg (2^52)); try assumption. exact FlushSafetyMain.rank_ok_float. Qed.

(* ---- the hypotheses are satisfiable on a non-trivial history ---- *)

Definition ex_key : skey := ([116%N], []).
Definition ex_map (vals : list Z) (s : Qc) : mmap :=
  MkMap ∅ {[ ex_key := MkTimer vals s 5 [] [[97%N; 58%N; 98%N]] ]} ∅ ∅.
(* 4.0, 2.0, 12.0 then 7.0 *)
Definition ex_ops : list aop :=
  [ARecv (ex_map [4616189618054758400; 4611686018427387904] (Q2Qc 2)); ARecv (ex_map [4622945017495814144] (Q2Qc 1));
   AFlush 1000000000; AReset 10; ARecv (ex_map [4619567317775286272] (Q2Qc 1))].
Definition ex_acfg : aconfig :=
  MkACfg [90; -50] (Build_pmask false false false false false false) 2 0 0 0 100.

Example ex_full_hypotheses :
  acfg_ok ex_acfg /\ ops_values ex_ops < 2^52 /\ sane_ops ex_ops /\
  received_since_reset ex_ops ex_key = ([Qc_of_Z 7], (0 + Q2Qc 1)%Qc) /\
  received_since_reset (take 2 ex_ops) ex_key = ([Qc_of_Z 4; Qc_of_Z 2; Qc_of_Z 12], (0 + Q2Qc 2 + Q2Qc 1)%Qc) /\
  flushed_since_reset ex_ops = false.
Proof.
  split; [split; [repeat constructor; lia | cbn; lia]|].
  split; [vm_compute; reflexivity|]. split.
  - intros m Hm. cbn in Hm.
    assert (exists vals s, vals <> [] /\ m = ex_map vals s) as (vals & s & Hv & ->).
    { destruct Hm as [H|[H|[H|[H|[H|[]]]]]]; try discriminate; injection H as <-; eexists _, _; (split; [|reflexivity]); discriminate. }
    intros k t Hk. cbn in Hk. apply lookup_singleton_Some in Hk as [_ <-]. cbn.
    split; [intros E; contradiction | intros tag [<-|[]]; reflexivity].
  - split; [|split]; [| |reflexivity].
    + unfold received_since_reset, ex_ops. cbn [fold_left pend_step ex_map timers].
      rewrite !lookup_singleton. cbn [fst snd t_vals t_samp app]. f_equal. unfold qvals. cbn [fmap list_fmap].
      f_equal. apply Qc_is_canon. vm_compute. reflexivity.
    + unfold received_since_reset, ex_ops. cbn [take fold_left pend_step ex_map timers].
      rewrite !lookup_singleton. cbn [fst snd t_vals t_samp app]. f_equal. unfold qvals. cbn [fmap list_fmap app].
      repeat (f_equal; try (apply Qc_is_canon; vm_compute; reflexivity)).
Qed.
