(* Lemmas about Model/Tags.v, part 1: patterns, the de-duplication loop, the filter loop and
   uniqueFilterAndAddTags.  (Part 2, DispatchMetricMap: Proofs/TagsDispatch.v.) *)
From GS Require Import Base.Bytes Model.Lexer Model.Series Model.MetricMap Model.Tags.
From stdpp Require Import gmap.   (* last, so that NoDup / ∈ / filter are std++'s *)

(* ---------------------------------------------------------------------------------------- *)
(* strings *)

Lemma str_eqb_true a b : str_eqb a b = true ↔ a = b.
Proof. apply str_eqb_eq. Qed.

Lemma mem_str_spec t l : mem_str t l = true ↔ t ∈ l.
Proof.
  unfold mem_str. rewrite existsb_exists. split.
  - intros (x & Hin & Heq). apply str_eqb_eq in Heq as ->. by apply elem_of_list_In.
  - intros Hin. exists t. split; [by apply elem_of_list_In | apply str_eqb_refl].
Qed.

Lemma mem_str_false t l : mem_str t l = false ↔ t ∉ l.
Proof. rewrite <- mem_str_spec. destruct (mem_str t l); split; congruence. Qed.

Lemma str_has_prefix_spec p s : str_has_prefix p s = true ↔ ∃ r, s = p ++ r.
Proof.
  revert s; induction p as [|a p IH]; intros s; cbn.
  - split; [intros _; by exists s | done].
  - destruct s as [|b s]; [split; [done | intros (r & Hr); discriminate]|].
    rewrite andb_true_iff, N.eqb_eq, IH. split.
    + intros (-> & r & ->). by exists r.
    + intros (r & Hr). injection Hr as -> ->. split; [done | by exists r].
Qed.

(* small propositional goals about list membership (set_solver is far too slow on [∉ _ :: _]);
   clear induction hypotheses before using it *)
Ltac lsimp := rewrite ?elem_of_app, ?elem_of_cons, ?not_elem_of_cons, ?not_elem_of_app, ?elem_of_nil in *.
Ltac lsolve := lsimp; naive_solver.

Lemma fresh_cons_iff (a x : str) (l seen : list str) :
  a ∉ seen → (x = a ∨ (x ∈ l ∧ x ∉ a :: seen)) ↔ (x ∈ a :: l ∧ x ∉ seen).
Proof.
  intros Ha. rewrite !elem_of_cons. split.
  - intros [->|[Hl Hn]]; [split; [by left | done]|]. split; [by right|]. intros Hs. apply Hn. by right.
  - intros [[->|Hl] Hn]; [by left|]. destruct (decide (x = a)) as [->|Hne]; [by left | right].
    split; [done|]. by intros [?|?].
Qed.

Lemma swap_last_iff (x y z : str) (mid seen : list str) :
  x ∈ seen →
  (z ∈ y :: mid ∧ z ∉ seen ↔ z ∈ x :: mid ++ [y] ∧ z ∉ seen)
  ∧ (z ∈ seen ∨ z ∈ y :: mid ↔ z ∈ seen ∨ z ∈ x :: mid ++ [y]).
Proof.
  intros Hx. rewrite !elem_of_cons, elem_of_app, elem_of_list_singleton.
  split; (split; [tauto|]).
  - intros [[->|?] ?]; [done | tauto].
  - intros [?|[->|?]]; tauto.
Qed.

Lemma ends_with_star_snoc q : ends_with_star (q ++ [c_star]) = true.
Proof. unfold ends_with_star. by rewrite last_snoc. Qed.

(* ---------------------------------------------------------------------------------------- *)
(* C10_pattern_semantics *)
Section Patterns.
  Variable re_ok : str → bool.
  Variable re_match : str → str → bool.
  Notation new_string_match := (new_string_match re_ok).
  Notation sm_match := (sm_match re_match).

  (* a pattern without '!' prefix, "regex:" prefix or '*' suffix matches itself only *)
  Lemma pattern_exact p :
    str_has_prefix [c_bang] p = false → str_has_prefix regex_marker p = false →
    ends_with_star p = false →
    ∃ sm, new_string_match p = Done sm ∧ ∀ s, sm_match sm s = true ↔ s = p.
  Proof.
    intros Hb Hr Hs. unfold Tags.new_string_match. rewrite Hb, Hr, Hs.
    eexists; split; [done|]. intros s. unfold Tags.sm_match; cbn.
    rewrite xorb_false_r. apply str_eqb_eq.
  Qed.

  (* q* matches exactly the strings that begin with q *)
  Lemma pattern_prefix q :
    str_has_prefix [c_bang] (q ++ [c_star]) = false →
    str_has_prefix regex_marker (q ++ [c_star]) = false →
    ∃ sm, new_string_match (q ++ [c_star]) = Done sm ∧ ∀ s, sm_match sm s = true ↔ ∃ r, s = q ++ r.
  Proof.
    intros Hb Hr. unfold Tags.new_string_match. rewrite Hb, Hr, ends_with_star_snoc.
    eexists; split; [done|]. intros s. unfold Tags.sm_match; cbn.
    rewrite xorb_false_r, removelast_last. apply str_has_prefix_spec.
  Qed.

  (* regex:q is whatever Go's regexp says about q (a substring match, by MatchString); the
     trailing '*' of q is part of the expression; a q that does not compile panics *)
  Lemma pattern_regex q :
    (re_ok q = true → ∃ sm, new_string_match (regex_marker ++ q) = Done sm ∧ ∀ s, sm_match sm s = re_match q s)
    ∧ (re_ok q = false → new_string_match (regex_marker ++ q) = GoPanic).
  Proof.
    unfold Tags.new_string_match. cbn. rewrite drop_0. split; intros ->.
    - eexists; split; [done|]. intros s. unfold Tags.sm_match; cbn. apply xorb_false_r.
    - done.
  Qed.

  (* a leading '!' negates whatever the rest of the pattern means *)
  Lemma pattern_inverted p sm :
    str_has_prefix [c_bang] p = false → new_string_match p = Done sm →
    ∃ sm', new_string_match (c_bang :: p) = Done sm' ∧ ∀ s, sm_match sm' s = negb (sm_match sm s).
  Proof.
    unfold Tags.new_string_match. intros Hb. rewrite Hb. cbn [str_has_prefix drop].
    rewrite N.eqb_refl. cbn [andb]. rewrite !drop_0.
    destruct (str_has_prefix regex_marker p).
    - destruct (re_ok _); [|done]. intros [= <-]. eexists; split; [done|].
      intros s. unfold Tags.sm_match; cbn [sm_regex sm_prefix sm_invert sm_test].
      by rewrite xorb_true_r, xorb_false_r.
    - destruct (ends_with_star p); intros [= <-]; (eexists; split; [done|]);
        intros s; unfold Tags.sm_match; cbn [sm_regex sm_prefix sm_invert sm_test];
        by rewrite xorb_true_r, xorb_false_r.
  Qed.

  Lemma pattern_inverted_panic p :
    str_has_prefix [c_bang] p = false → new_string_match p = GoPanic → new_string_match (c_bang :: p) = GoPanic.
  Proof.
    unfold Tags.new_string_match. intros Hb. rewrite Hb. cbn [str_has_prefix drop].
    rewrite N.eqb_refl. cbn [andb]. rewrite !drop_0.
    destruct (str_has_prefix regex_marker p); [destruct (re_ok _); done|].
    destruct (ends_with_star p); done.
  Qed.
End Patterns.

(* the four kinds are inhabited: "abc", "abc*", "!abc*", "regex:b" under an oracle *)
Example pattern_examples :
  let re_ok := λ _, true in
  let re_match := λ p s, bool_decide (p = [98%N] ∧ 98%N ∈ s) in
  let abc := [97; 98; 99]%N in
  (∃ sm, new_string_match re_ok abc = Done sm ∧ sm_match re_match sm abc = true ∧ sm_match re_match sm (abc ++ [100%N]) = false)
  ∧ (∃ sm, new_string_match re_ok (abc ++ [c_star]) = Done sm ∧ sm_match re_match sm (abc ++ [100%N]) = true)
  ∧ (∃ sm, new_string_match re_ok (c_bang :: abc ++ [c_star]) = Done sm ∧ sm_match re_match sm (abc ++ [100%N]) = false
            ∧ sm_match re_match sm [120%N] = true)
  ∧ (∃ sm, new_string_match re_ok (regex_marker ++ [98%N]) = Done sm ∧ sm_match re_match sm abc = true).
Proof. cbn. repeat split; eexists; repeat split; vm_compute; done. Qed.

(* ---------------------------------------------------------------------------------------- *)
(* C10_unique_loop_spec: the swap-with-last loop *)

Lemma uniq_loop_unfold fuel t1 idx seen :
  uniq_loop fuel t1 idx seen =
  if negb (idx <? length t1)%nat then Done (t1, seen)
  else match fuel with
       | O => OutOfFuel
       | S fuel' =>
           match t1 !! idx with
           | None => GoPanic
           | Some tag =>
               if mem_str tag seen then
                 match t1 !! pred (length t1) with
                 | None => GoPanic
                 | Some x => uniq_loop fuel' (take (pred (length t1)) (<[idx := x]> t1)) idx seen
                 end
               else uniq_loop fuel' t1 (S idx) (tag :: seen)
           end
       end.
Proof. by destruct fuel. Qed.

(* Invariant: the slice is [pre ++ rest] with idx = len pre; [pre] is final.  With enough fuel
   the loop finishes without an index error; what it leaves behind [pre] has no duplicates and
   holds exactly the tags of [rest] that were not seen; [seen] grows by the tags of [rest]. *)
Lemma uniq_loop_spec fuel : ∀ pre rest seen, length rest ≤ fuel →
  ∃ r seen', uniq_loop fuel (pre ++ rest) (length pre) seen = Done (pre ++ r, seen')
    ∧ NoDup r ∧ (∀ x, x ∈ r ↔ x ∈ rest ∧ x ∉ seen) ∧ (∀ x, x ∈ seen' ↔ x ∈ seen ∨ x ∈ rest).
Proof.
  assert (Hnil : ∀ fuel pre seen, ∃ r seen', uniq_loop fuel (pre ++ []) (length pre) seen = Done (pre ++ r, seen')
    ∧ NoDup r ∧ (∀ x, x ∈ r ↔ x ∈ [] ∧ x ∉ seen) ∧ (∀ x, x ∈ seen' ↔ x ∈ seen ∨ x ∈ @nil str)).
  { intros f pre seen. exists [], seen. rewrite uniq_loop_unfold, app_nil_r.
    rewrite (proj2 (Nat.ltb_ge _ _)) by lia. cbn. split; [done|]. split; [constructor|]. split; intros x; lsolve. }
  induction fuel as [|fuel IH]; intros pre rest seen Hlen.
  - destruct rest; [apply Hnil | cbn in Hlen; lia].
  - destruct rest as [|x rest']; [apply Hnil|].
    rewrite uniq_loop_unfold.
    assert (Hlt : (length pre <? length (pre ++ x :: rest'))%nat = true).
    { apply Nat.ltb_lt. rewrite app_length. cbn. lia. }
    rewrite Hlt. cbn [negb]. rewrite list_lookup_middle by done.
    destruct (mem_str x seen) eqn:Hm.
    + apply mem_str_spec in Hm.
      destruct rest' as [|y mid _] using rev_ind.
      * (* the seen tag is the last one: t1[idx] = t1[idx]; t1 = t1[:idx] *)
        assert (Hp : pred (length (pre ++ [x])) = length pre) by (rewrite app_length; cbn; lia).
        rewrite Hp, list_lookup_middle by done.
        rewrite list_insert_id by (by apply list_lookup_middle). rewrite take_app.
        destruct (IH pre [] seen) as (r & seen' & Heq & Hnd & Hr & Hs); [cbn; lia|].
        clear IH Hnil. rewrite app_nil_r in Heq. exists r, seen'. split; [done|]. split; [done|].
        split; intros z; [rewrite Hr | rewrite Hs]; lsolve.
      * (* the last tag y is moved to idx and examined next *)
        assert (Hp : pred (length (pre ++ x :: mid ++ [y])) = length (pre ++ x :: mid)).
        { rewrite !app_length. cbn. rewrite app_length. cbn. lia. }
        rewrite Hp.
        assert (Ht1 : pre ++ x :: mid ++ [y] = (pre ++ x :: mid) ++ [y]) by (by rewrite <- app_assoc).
        assert (Hlk : (pre ++ x :: mid ++ [y]) !! length (pre ++ x :: mid) = Some y)
          by (rewrite Ht1; by apply list_lookup_middle).
        rewrite Hlk.
        rewrite insert_app_r_alt by done. rewrite Nat.sub_diag. cbn [insert list_insert].
        assert (Ht2 : pre ++ y :: mid ++ [y] = (pre ++ y :: mid) ++ [y]) by (by rewrite <- app_assoc).
        rewrite Ht2, take_app_alt by (rewrite !app_length; done).
        destruct (IH pre (y :: mid) seen) as (r & seen' & Heq & Hnd & Hr & Hs).
        { cbn in Hlen. rewrite app_length in Hlen. cbn in *. lia. }
        clear IH Hnil. exists r, seen'. split; [done|]. split; [done|].
        split; intros z; [rewrite Hr | rewrite Hs]; by apply swap_last_iff.
    + apply mem_str_false in Hm.
      assert (Ht1 : pre ++ x :: rest' = (pre ++ [x]) ++ rest') by (by rewrite <- app_assoc).
      assert (Hl : S (length pre) = length (pre ++ [x])) by (rewrite app_length; cbn; lia).
      rewrite Ht1, Hl.
      destruct (IH (pre ++ [x]) rest' (x :: seen)) as (r & seen' & Heq & Hnd & Hr & Hs); [cbn in Hlen; lia|].
      clear IH Hnil. exists (x :: r), seen'. split; [rewrite Heq, <- app_assoc; reflexivity|].
      split; [apply NoDup_cons_2; [rewrite Hr; lsolve | done]|].
      split; intros z; [rewrite elem_of_cons, Hr; by apply fresh_cons_iff | rewrite Hs, !elem_of_cons; tauto].
Qed.

Lemma append_unseen_spec seen t2 : ∀ t1,
  append_unseen seen t1 t2 = t1 ++ filter (λ t, t ∉ seen) t2.
Proof.
  induction t2 as [|t t2 IH]; intros t1; cbn [append_unseen]; [by rewrite filter_nil, app_nil_r|].
  destruct (mem_str t seen) eqn:Hm.
  - apply mem_str_spec in Hm. rewrite filter_cons_False by (by intros ?). apply IH.
  - apply mem_str_false in Hm. rewrite filter_cons_True by done. rewrite IH, <- app_assoc. done.
Qed.

Lemma first_occ_spec l : ∀ seen, NoDup (first_occ seen l) ∧ ∀ x, x ∈ first_occ seen l ↔ x ∈ l ∧ x ∉ seen.
Proof.
  induction l as [|a l IH]; intros seen; cbn.
  - split; [apply NoDup_nil_2 | intros x; lsolve].
  - destruct (mem_str a seen) eqn:Hm.
    + apply mem_str_spec in Hm. destruct (IH seen) as [Hnd Hx]. clear IH. split; [done|].
      intros x. rewrite Hx, elem_of_cons. split; [tauto|]. intros [[->|?] ?]; [done | tauto].
    + apply mem_str_false in Hm. destruct (IH (a :: seen)) as [Hnd Hx]. clear IH. split.
      * apply NoDup_cons_2; [|done]. rewrite Hx, not_elem_of_cons. tauto.
      * intros x. rewrite elem_of_cons, Hx. by apply fresh_cons_iff.
Qed.

(* uniqueTagsWithSeen never panics and never runs out of fuel; its result is, up to order, the
   first occurrences of the tags of t1 that were not seen, followed by the tags of t2 that are
   neither in t1 nor seen; it has no duplicates when t2 has none *)
Lemma unique_tags_with_seen_spec seen t1 t2 :
  ∃ r, unique_tags_with_seen seen t1 t2 = Done r
    ∧ r ≡ₚ first_occ seen t1 ++ filter (λ t, t ∉ t1 ++ seen) t2
    ∧ (NoDup t2 → NoDup r).
Proof.
  unfold unique_tags_with_seen.
  destruct (uniq_loop_spec (length t1) [] t1 seen) as (r & seen' & Heq & Hnd & Hr & Hs); [done|].
  cbn in Heq. rewrite Heq. cbn. rewrite append_unseen_spec. eexists; split; [done|].
  assert (Hf : filter (λ t, t ∉ seen') t2 = filter (λ t, t ∉ t1 ++ seen) t2).
  { apply list_filter_iff. intros t. rewrite Hs, elem_of_app. tauto. }
  rewrite Hf. destruct (first_occ_spec t1 seen) as [Hnd' Hr']. split.
  - apply Permutation_app_tail, NoDup_Permutation; [done..|]. intros x. by rewrite Hr, Hr'.
  - intros Hnd2. apply NoDup_app. split; [done|]. split; [|by apply NoDup_filter].
    intros x Hx Hx'. apply elem_of_list_filter in Hx' as [Hx' _]. apply Hr in Hx.
    apply Hx'. rewrite elem_of_app. tauto.
Qed.

(* as a set: (t1 ∪ t2) \ seen *)
Lemma unique_tags_with_seen_elem seen t1 t2 r :
  unique_tags_with_seen seen t1 t2 = Done r → ∀ x, x ∈ r ↔ (x ∈ t1 ∨ x ∈ t2) ∧ x ∉ seen.
Proof.
  destruct (unique_tags_with_seen_spec seen t1 t2) as (r' & -> & Hp & _). intros [= <-] x.
  rewrite Hp, elem_of_app. destruct (first_occ_spec t1 seen) as [_ ->].
  rewrite elem_of_list_filter, elem_of_app. destruct (decide (x ∈ t1)); tauto.
Qed.

(* NewTagHandler: the static tags of a constructed handler have no duplicates *)
Lemma new_tag_handler_spec tags filters :
  ∃ th, new_tag_handler tags filters = Done th ∧ th_filters th = filters
        ∧ NoDup (th_tags th) ∧ ∀ x, x ∈ th_tags th ↔ x ∈ tags.
Proof.
  unfold new_tag_handler, unique_tags.
  destruct (unique_tags_with_seen_spec [] tags []) as (r & Hr & Hp & Hnd). rewrite Hr. cbn.
  eexists; split; [done|]. cbn. split; [done|]. split; [apply Hnd; constructor|].
  intros x. rewrite (unique_tags_with_seen_elem _ _ _ _ Hr). lsolve.
Qed.

(* the loop really permutes: ["a";"a";"b";"c"] gives ["a";"c";"b"] *)
Example uniq_loop_reorders :
  unique_tags_with_seen [] [[97]; [97]; [98]; [99]]%N [[99]; [100]]%N = Done [[97]; [99]; [98]; [100]]%N.
Proof. reflexivity. Qed.

(* ---------------------------------------------------------------------------------------- *)
(* the filter loop *)
Section Filters.
  Variable re_match : str → str → bool.
  Notation sm_match := (sm_match re_match).
  Notation match_any := (match_any re_match).
  Notation match_any_multiple := (match_any_multiple re_match).
  Notation run_filters := (run_filters re_match).
  Notation satisfied := (satisfied re_match).
  Notation removed := (removed re_match).
  Notation add_drops := (add_drops re_match).
  Notation unique_filter_add := (unique_filter_add re_match).

  Lemma match_any_spec sml s : match_any sml s = true ↔ ∃ p, p ∈ sml ∧ sm_match p s = true.
  Proof.
    induction sml as [|sm sml IH]; cbn [Tags.match_any].
    { split; [done | intros (p & Hp & _); by apply elem_of_nil in Hp]. }
    destruct (sm_match sm s) eqn:Hm.
    { split; [intros _|done]. exists sm. split; [by left | done]. }
    rewrite IH. clear IH. split.
    - intros (p & Hp & Hmp). exists p. split; [by right | done].
    - intros (p & Hp & Hmp). apply elem_of_cons in Hp as [->|Hp]; [congruence|]. by exists p.
  Qed.

  Lemma match_any_false sml s : match_any sml s = false ↔ ∀ p, p ∈ sml → sm_match p s = false.
  Proof.
    rewrite <- not_true_iff_false, match_any_spec. split.
    - intros Hn p Hp. apply not_true_iff_false. intros Hm. apply Hn. by exists p.
    - intros Hall (p & Hp & Hm). rewrite (Hall p Hp) in Hm. done.
  Qed.

  Lemma match_any_multiple_spec sml ts :
    match_any_multiple sml ts = true ↔ ∃ p t, p ∈ sml ∧ t ∈ ts ∧ sm_match p t = true.
  Proof.
    induction ts as [|t ts IH]; cbn [Tags.match_any_multiple].
    { split; [done | intros (p & t & _ & Ht & _); by apply elem_of_nil in Ht]. }
    destruct (match_any sml t) eqn:Hm.
    - apply match_any_spec in Hm as (p & Hp & Hm). split; [intros _|done]. exists p, t.
      split; [done|]. split; [by left | done].
    - rewrite IH. clear IH. split.
      + intros (p & t' & Hp & Ht & Hmp). exists p, t'. split; [done|]. split; [by right | done].
      + intros (p & t' & Hp & Ht & Hmp). apply elem_of_cons in Ht as [->|Ht].
        * rewrite match_any_false in Hm. rewrite (Hm p Hp) in Hmp. done.
        * by exists p, t'.
  Qed.

  (* the three `continue` tests of the loop body *)
  Definition sat_b (f : Tags.filter) (name : str) (tags : list str) : bool :=
    negb ((0 <? length (f_match_metrics f))%nat && negb (match_any (f_match_metrics f) name))
    && negb (match_any (f_exclude_metrics f) name)
    && negb ((0 <? length (f_match_tags f))%nat && negb (match_any_multiple (f_match_tags f) tags)).

  Lemma sat_b_spec f name tags : sat_b f name tags = true ↔ satisfied f name tags.
  Proof.
    unfold sat_b, Tags.satisfied.
    rewrite !andb_true_iff, !negb_true_iff, match_any_false.
    assert (H1 : ∀ (l : list smatch) b, (0 <? length l)%nat && negb b = false ↔ l = [] ∨ b = true).
    { intros [|a l] [|]; cbn; split; try done; try tauto; intros [|]; done. }
    rewrite !H1, match_any_spec, match_any_multiple_spec. tauto.
  Qed.

  Lemma run_filters_cons f r name tags d src :
    run_filters (f :: r) name tags d src =
    if sat_b f name tags then
      if f_drop_metric f then None
      else run_filters r name tags (add_drops (f_drop_tags f) tags d) (if f_drop_host f then [] else src)
    else run_filters r name tags d src.
  Proof.
    cbn [Tags.run_filters]. unfold sat_b.
    destruct ((0 <? length (f_match_metrics f))%nat && negb (match_any (f_match_metrics f) name)); [done|].
    destruct (match_any (f_exclude_metrics f) name); [done|].
    by destruct ((0 <? length (f_match_tags f))%nat && negb (match_any_multiple (f_match_tags f) tags)).
  Qed.

  Lemma add_drops_spec drops tags : ∀ acc x,
    x ∈ add_drops drops tags acc ↔ x ∈ acc ∨ (x ∈ tags ∧ ∃ p, p ∈ drops ∧ sm_match p x = true).
  Proof.
    assert (Hin : ∀ df ts acc x, x ∈ fold_left (λ acc tag, if sm_match df tag then tag :: acc else acc) ts acc
                               ↔ x ∈ acc ∨ (x ∈ ts ∧ sm_match df x = true)).
    { intros df ts. induction ts as [|t ts IH]; intros acc x; cbn [fold_left].
      { split; [by left | intros [?|[H _]]; [done | by apply elem_of_nil in H]]. }
      rewrite IH. clear IH. destruct (sm_match df t) eqn:Hm; rewrite !elem_of_cons; split.
      - intros [[->|?]|[? ?]]; [right; split; [by left | done] | by left | right; split; [by right | done]].
      - intros [?|[[->|?] ?]]; [left; by right | left; by left | right; done].
      - intros [?|[? ?]]; [by left | right; split; [by right | done]].
      - intros [?|[[->|?] ?]]; [by left | congruence | right; done]. }
    unfold Tags.add_drops. induction drops as [|df drops IH]; intros acc x; cbn [fold_left].
    { split; [by left | intros [?|(_ & p & Hp & _)]; [done | by apply elem_of_nil in Hp]]. }
    rewrite IH, Hin. clear IH Hin. split.
    - intros [[?|[? ?]]|(? & p & ? & ?)]; [by left | right; split; [done|]; exists df; split; [by left | done]
                                          | right; split; [done|]; exists p; split; [by right | done]].
    - intros [?|(Ht & p & Hp & Hm)]; [by left; left|]. apply elem_of_cons in Hp as [->|Hp]; [left; right; done|].
      right. split; [done|]. by exists p.
  Qed.

  Definition dropped_b fs name tags : bool := existsb (λ f, sat_b f name tags && f_drop_metric f) fs.
  Definition host_dropped_b fs name tags : bool := existsb (λ f, sat_b f name tags && f_drop_host f) fs.

  Lemma existsb_filters (g : Tags.filter → bool) fs name tags :
    existsb (λ f, sat_b f name tags && g f) fs = true ↔ ∃ f, f ∈ fs ∧ satisfied f name tags ∧ g f = true.
  Proof.
    rewrite existsb_exists. split; intros (f & Hf & Hs).
    - apply andb_true_iff in Hs as [Hs Hg]. exists f. rewrite <- sat_b_spec, elem_of_list_In. done.
    - exists f. rewrite andb_true_iff, sat_b_spec, <- elem_of_list_In. done.
  Qed.

  Lemma run_filters_none fs name tags : ∀ d src,
    run_filters fs name tags d src = None ↔ dropped_b fs name tags = true.
  Proof.
    induction fs as [|f fs IH]; intros d src; [done|].
    rewrite run_filters_cons. unfold dropped_b. cbn [existsb]. fold (dropped_b fs name tags).
    destruct (sat_b f name tags); cbn [andb orb]; [|apply IH].
    destruct (f_drop_metric f); cbn [orb]; [done | apply IH].
  Qed.

  Lemma run_filters_some fs name tags : ∀ d src d' src',
    run_filters fs name tags d src = Some (d', src') →
    (∀ x, x ∈ d' ↔ x ∈ d ∨ removed fs name tags x)
    ∧ src' = if host_dropped_b fs name tags then [] else src.
  Proof.
    unfold Tags.removed.
    induction fs as [|f fs IH]; intros d src d' src'.
    - cbn. intros [= <- <-]. split; [|done]. intros x. split; [by left|]. intros [?|(_ & f & p & Hf & _)]; [done|]. by apply elem_of_nil in Hf.
    - rewrite run_filters_cons. unfold host_dropped_b. cbn [existsb]. fold (host_dropped_b fs name tags).
      destruct (sat_b f name tags) eqn:Hs; cbn [andb orb].
      + destruct (f_drop_metric f); [done|]. intros Hrun. apply IH in Hrun as [Hd Hsrc]. split.
        * intros x. rewrite Hd, add_drops_spec. apply sat_b_spec in Hs. split.
          -- intros [[?|(Ht & p & Hp & Hm)]|(Ht & f' & p & Hf & Hrest)]; [by left|right..].
             ++ split; [done|]. exists f, p. lsolve.
             ++ split; [done|]. exists f', p. lsolve.
          -- intros [?|(Ht & f' & p & Hf & Hsat & Hp & Hm)]; [by left; left|].
             apply elem_of_cons in Hf as [->|Hf]; [left; right; split; [done|]; by exists p|].
             right. split; [done|]. by exists f', p.
        * rewrite Hsrc. destruct (f_drop_host f); cbn [orb]; [by destruct (host_dropped_b _ _ _) | done].
      + intros Hrun. apply IH in Hrun as [Hd Hsrc]. split; [|done].
        intros x. rewrite Hd. split; (intros [?|(Ht & f' & p & Hf & Hsat & Hrest)]; [by left|right; split; [done|]]).
        * exists f', p. lsolve.
        * apply elem_of_cons in Hf as [->|Hf]; [|by exists f', p].
          apply sat_b_spec in Hsat. congruence.
  Qed.

  (* uniqueFilterAndAddTags: never panics; drops iff a satisfied filter has drop-metric;
     otherwise the tags are (own ∪ static) minus the removed own tags, without duplicates when
     the static tags have none, and the source is cleared iff a satisfied filter has drop-host.
     The no-filter fast path is the same statement with nothing satisfied. *)
  Lemma unique_filter_add_spec th name src tags :
    let fs := th_filters th in
    if dropped_b fs name tags then unique_filter_add th name src tags = Done None
    else ∃ r, unique_filter_add th name src tags
              = Done (Some (if host_dropped_b fs name tags then [] else src, r))
         ∧ (∀ x, x ∈ r ↔ (x ∈ tags ∨ x ∈ th_tags th) ∧ ¬ removed fs name tags x)
         ∧ (NoDup (th_tags th) → NoDup r).
  Proof.
    cbn. unfold Tags.unique_filter_add.
    destruct (th_filters th) as [|f fs] eqn:Hfs.
    - cbn. unfold unique_tags.
      destruct (unique_tags_with_seen_spec [] tags (th_tags th)) as (r & Hr & _ & Hnd).
      rewrite Hr. cbn. exists r. split; [done|]. split; [|done].
      intros x. rewrite (unique_tags_with_seen_elem _ _ _ _ Hr). unfold Tags.removed. split.
      + intros [? _]. split; [done|]. intros (_ & f & p & Hf & _). by apply elem_of_nil in Hf.
      + intros [? _]. split; [done|]. apply not_elem_of_nil.
    - cbn [length Nat.eqb].
      destruct (dropped_b (f :: fs) name tags) eqn:Hdrop.
      + apply (run_filters_none _ _ _ [] src) in Hdrop. by rewrite Hdrop.
      + destruct (run_filters (f :: fs) name tags [] src) as [[d' src']|] eqn:Hrun.
        2:{ apply run_filters_none in Hrun. congruence. }
        apply run_filters_some in Hrun as [Hd ->].
        destruct (unique_tags_with_seen_spec d' tags (th_tags th)) as (r & Hr & _ & Hnd).
        rewrite Hr. cbn. exists r. split; [done|]. split; [|done].
        intros x. rewrite (unique_tags_with_seen_elem _ _ _ _ Hr), Hd. lsolve.
  Qed.
End Filters.

(* ---------------------------------------------------------------------------------------- *)
(* the statements of Props/C10.v about one metric *)
Section PerMetric.
  Variable re_match : str → str → bool.
  Notation satisfied := (satisfied re_match).
  Notation removed := (removed re_match).
  Notation unique_filter_add := (unique_filter_add re_match).

  Lemma ufa_total th name src tags :
    unique_filter_add th name src tags = Done None
    ∨ ∃ src' r, unique_filter_add th name src tags = Done (Some (src', r)).
  Proof.
    pose proof (unique_filter_add_spec re_match th name src tags) as H. cbn in H.
    destruct (dropped_b _ _ _ _); [by left|]. destruct H as (r & -> & _). right. by eexists _, _.
  Qed.

  Lemma ufa_dropped_iff th name src tags :
    unique_filter_add th name src tags = Done None
    ↔ ∃ f, f ∈ th_filters th ∧ satisfied f name tags ∧ f_drop_metric f = true.
  Proof.
    pose proof (unique_filter_add_spec re_match th name src tags) as H. cbn in H.
    unfold dropped_b in H. rewrite <- existsb_filters.
    destruct (existsb _ _); [done|]. destruct H as (r & -> & _). done.
  Qed.

  Lemma ufa_kept th name src tags src' r :
    unique_filter_add th name src tags = Done (Some (src', r)) →
    (∀ x, x ∈ r ↔ (x ∈ tags ∨ x ∈ th_tags th) ∧ ¬ removed (th_filters th) name tags x)
    ∧ (NoDup (th_tags th) → NoDup r)
    ∧ ((∃ f, f ∈ th_filters th ∧ satisfied f name tags ∧ f_drop_host f = true) → src' = [])
    ∧ ((∀ f, f ∈ th_filters th → satisfied f name tags → f_drop_host f = false) → src' = src).
  Proof.
    pose proof (unique_filter_add_spec re_match th name src tags) as H. cbn in H.
    destruct (dropped_b _ _ _ _); [congruence|]. destruct H as (r' & -> & Hx & Hnd).
    intros [= <- <-]. split; [done|]. split; [done|].
    unfold host_dropped_b. split.
    - intros Hex. apply existsb_filters in Hex. by rewrite Hex.
    - intros Hall. destruct (existsb _ _) eqn:Hex; [|done].
      apply existsb_filters in Hex as (f & Hf & Hs & Hh). rewrite (Hall f Hf Hs) in Hh. done.
  Qed.

  Lemma ufa_tags_removed th name src tags src' r :
    unique_filter_add th name src tags = Done (Some (src', r)) →
    ∀ t, t ∈ tags → (t ∈ r ↔ ¬ removed (th_filters th) name tags t).
  Proof. intros H t Ht. apply ufa_kept in H as [H _]. rewrite H. tauto. Qed.

  Lemma ufa_static_tags th name src tags src' r :
    unique_filter_add th name src tags = Done (Some (src', r)) →
    ∀ s, s ∈ th_tags th → (s ∈ r ↔ ¬ removed (th_filters th) name tags s).
  Proof. intros H t Ht. apply ufa_kept in H as [H _]. rewrite H. tauto. Qed.

  Lemma ufa_nothing_else th name src tags src' r :
    unique_filter_add th name src tags = Done (Some (src', r)) →
    ∀ t, t ∈ r → t ∈ tags ∨ t ∈ th_tags th.
  Proof. intros H t Ht. apply ufa_kept in H as [H _]. apply H in Ht. tauto. Qed.

  Lemma ufa_nodup th name src tags src' r :
    unique_filter_add th name src tags = Done (Some (src', r)) → NoDup (th_tags th) → NoDup r.
  Proof. intros H. by apply ufa_kept in H as (_ & H & _). Qed.

  Lemma ufa_drop_host th name src tags src' r :
    unique_filter_add th name src tags = Done (Some (src', r)) →
    ((∃ f, f ∈ th_filters th ∧ satisfied f name tags ∧ f_drop_host f = true) → src' = [])
    ∧ ((∀ f, f ∈ th_filters th → satisfied f name tags → f_drop_host f = false) → src' = src).
  Proof. intros H. by apply ufa_kept in H as (_ & _ & H). Qed.
End PerMetric.

(* DispatchEvent: static tags added, no duplicates, filters do not apply *)
Lemma dispatch_event_spec th tags :
  ∃ r, dispatch_event th tags = Done r ∧ (∀ x, x ∈ r ↔ x ∈ tags ∨ x ∈ th_tags th)
       ∧ (NoDup (th_tags th) → NoDup r).
Proof.
  unfold dispatch_event, unique_tags.
  destruct (unique_tags_with_seen_spec [] tags (th_tags th)) as (r & Hr & _ & Hnd).
  exists r. split; [done|]. split; [|done]. intros x. rewrite (unique_tags_with_seen_elem _ _ _ _ Hr). lsolve.
Qed.

(* Non-vacuity: the filter of FILTERING.md (match-metrics 'global.*', drop-host, drop-tags
   'host:*') with static tags [host:b; env:prod] on a metric global.x with tags
   [host:a; host:b; host:a; x] from source h: host:a and host:b are removed, the static host:b
   is therefore not added, env:prod is, the source is cleared. *)
Example filtering_md_example :
  let re_ok := λ _ : str, true in
  let re_match := λ _ _ : str, false in
  let glob := [103;108;111;98;97;108;46]%N in
  let host := [104;111;115;116;58]%N in
  let env := [101;110;118]%N in
  ∃ th, build_handler re_ok [host ++ [98%N]; env] [MkRaw [glob ++ [c_star]] [] [] [host ++ [c_star]] false true] = Done th
        ∧ unique_filter_add re_match th (glob ++ [120%N]) [104%N] [host ++ [97%N]; host ++ [98%N]; host ++ [97%N]; [120%N]]
          = Done (Some ([], [[120%N]; env])).
Proof. cbn. eexists. split; vm_compute; reflexivity. Qed.
