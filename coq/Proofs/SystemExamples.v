(* Non-vacuity of C01_system_end_to_end: a concrete run of Model/System.v - a read error, a read of
   two datagrams (one of them empty) with an accepted counter line, an accepted timer line and a
   rejected line, a second read, parsing interleaved with a flush, then quiescence and a final
   flush - on which every hypothesis of the theorem holds. *)
From stdpp Require Import gmap.
From Coq Require Import QArith Qcanon Lia.
From GS Require Import Base.Bytes Base.LTS Model.Lexer Model.Series Model.MetricMap Model.Content.
From GS Require Import Model.GoPartial Model.Histogram Model.Stats Model.Aggregator.
From GS Require Import Model.Pipeline Model.PipelineBounded Model.System.
From GS Require Model.Receiver Model.Datagram.
Local Open Scope nat_scope.

(* ---- the hypotheses of C08_full_flush_spec, decided ---- *)
Definition sane_timerb (t : MetricMap.timer) : bool :=
  match t_vals t with [] => Qeq_bool (this (t_samp t)) 0 | _ => true end
  && forallb (λ tag : str, (len tag <? 2^32)%Z) (MetricMap.t_tags t).
Definition sane_mapb (m : mmap) : bool := forallb (λ kv, sane_timerb kv.2) (map_to_list (timers m)).
Definition sane_opb (o : aop) : bool := match o with ARecv m => sane_mapb m | _ => true end.

Lemma sane_mapb_spec m : sane_mapb m = true → sane_map m.
Proof.
  unfold sane_mapb. rewrite forallb_forall. intros H k t Hk.
  apply elem_of_map_to_list in Hk. apply elem_of_list_In in Hk. specialize (H _ Hk). cbn in H.
  unfold sane_timerb in H. apply andb_true_iff in H as [H1 H2]. split.
  - intros Hv. rewrite Hv in H1. apply Qc_is_canon. apply Qeq_bool_iff in H1. exact H1.
  - rewrite forallb_forall in H2. intros tag Ht. specialize (H2 tag Ht). by apply Z.ltb_lt in H2.
Qed.
Lemma sane_opsb_spec ops : forallb sane_opb ops = true → sane_ops ops.
Proof.
  rewrite forallb_forall. intros H m Hm. specialize (H _ Hm). by apply sane_mapb_spec.
Qed.

(* ---- the run ---- *)
Definition ex_pf (s : str) : pfres :=
  match s with
  | [49%N] => PFVal 4607182418800017408     (* "1" *)
  | [50%N] => PFVal 4611686018427387904     (* "2" *)
  | [51%N] => PFVal 4613937818241073152     (* "3" *)
  | _ => PFErr
  end.
Definition ex_hpf (_ : str) : option bound := None.
Definition ex_acfg : aconfig := MkACfg [90%Z] (Build_pmask false false false false false false) 0 0 0 0 0.
Definition ex_sc : sysconfig := MkSys 1 1 1 ex_acfg [] false false 2.

(* "a:2|c\nb:3|ms\nbad"   ""   "a:1|c\n" *)
Definition msg1 : str := [97;58;50;124;99;10; 98;58;51;124;109;115;10; 98;97;100]%N.
Definition msg3 : str := [97;58;49;124;99;10]%N.
Definition peer : Receiver.addr := Receiver.RaUdp [49;46;50]%N.

Definition ex_sls : list slabel :=
  [ SRead Receiver.RdErr;
    SRead (Receiver.RdOk 5 [Receiver.RMsg msg1 peer; Receiver.RMsg [] peer]);   (* a zero-length datagram *)
    SParse 0; SEnq 0; SMerge 0;
    SRead (Receiver.RdOk 9 [Receiver.RMsg msg3 Receiver.RaNil]);
    STick 0; SCmd 0;
    SParse 0; SEnq 0;              (* parsed and queued while the worker is in its flush *)
    SExec 0 1000000000 100;
    SMerge 0 ].
Definition ex_sfinal : list slabel := [ STick 1; SCmd 0; SExec 0 1000000000 200 ].

Definition ex_step := sstep ex_pf ex_hpf go_rank ex_sc.
Definition ex_st : option sstatus := run ex_step (SRun (sinit ex_sc)) ex_sls.
Definition ex_st' : option sstatus := ex_st ≫= λ st, run ex_step st ex_sfinal.
Local Strategy expand [ex_st ex_st'].

Definition on_run {A} (f : sstate → A) (o : option sstatus) : option A :=
  match o with Some (SRun s) => Some (f s) | _ => None end.

Example ex_sys_quiet :
  on_run (λ s, (ss_taken s, length (Receiver.r_handed (ss_recv s)), ss_pending s, ss_queue s)) ex_st
  = Some (2, 2, [[]], [[]]).
Proof. vm_compute. reflexivity. Qed.
Example ex_sys_complete : on_run (λ s, (ss_flush s, ss_busy s)) ex_st' = Some (Some (1, 1), [false]).
Proof. vm_compute. reflexivity. Qed.
(* the counter a (source 1.2): 2 in flush 0; the line of the second read (no sender address) is another series *)
Example ex_sys_reported :
  on_run (λ s, ((λ x, (fl_id x, (λ c, ac_val c) <$> (map_to_list (a_counters (fl_agg x))).*2)) <$> ss_out s, ss_bad s)) ex_st'
  = Some ([(0, [2%Z]); (1, [1%Z; 0%Z])], 1%N).
Proof. vm_compute. reflexivity. Qed.
Example ex_sys_histories :
  on_run (λ s, forallb (λ x, (ops_values (fl_ops x) <? 100)%Z && forallb sane_opb (fl_ops x)) (ss_out s)) ex_st' = Some true.
Proof. vm_compute. reflexivity. Qed.

Example C01_system_example :
  ∃ s s',
    run ex_step (SRun (sinit ex_sc)) ex_sls = Some (SRun s)
    ∧ Forall (Receiver.wf_label (sy_batch ex_sc)) (recv_labels ex_sls)
    ∧ squiescent s
    ∧ run ex_step (SRun s) ex_sfinal = Some (SRun s')
    ∧ (∃ pre post, ex_sfinal = pre ++ STick 1 :: post ∧ Forall is_sflush_label pre ∧ Forall is_sshard_label post)
    ∧ sflush_complete ex_sc 1 s'
    ∧ histories_within 100 s'.
Proof.
  pose proof ex_sys_quiet as Hq. pose proof ex_sys_complete as Hc. pose proof ex_sys_histories as Hh.
  unfold ex_st' in Hc, Hh. destruct ex_st as [[s|]|] eqn:Es; try discriminate Hq.
  cbn [mbind option_bind] in Hc, Hh.
  destruct (run ex_step (SRun s) ex_sfinal) as [[s'|]|] eqn:Er; try discriminate Hc.
  cbn [on_run] in Hq, Hc, Hh. injection Hq as Hq1 Hq2 Hq3 Hq4. injection Hc as Hc1 Hc2. injection Hh as Hh.
  unfold ex_st in Es. exists s, s'. split; [exact Es|]. split; [|split; [|split; [exact Er|]]]; clear Es Er.
  - change (recv_labels ex_sls) with
      [Receiver.LRead Receiver.RdErr;
       Receiver.LRead (Receiver.RdOk 5 [Receiver.RMsg msg1 peer; Receiver.RMsg [] peer]);
       Receiver.LRead (Receiver.RdOk 9 [Receiver.RMsg msg3 Receiver.RaNil])].
    constructor; [exact I|].
    constructor; [split; [cbn; lia|]; constructor; [vm_compute; discriminate|]; constructor; [vm_compute; discriminate|constructor]|].
    constructor; [split; [cbn; lia|]; constructor; [vm_compute; discriminate|constructor]|constructor].
  - split; [by rewrite Hq1, Hq2|]. split.
    + rewrite Hq3. intros l Hl. apply elem_of_list_singleton in Hl. exact Hl.
    + rewrite Hq4. intros l Hl. apply elem_of_list_singleton in Hl. exact Hl.
  - split; [exists [], [SCmd 0; SExec 0 1000000000 200]; split; [reflexivity|]; split; repeat constructor|].
    split.
    + exists 1. split; [exact Hc1|]. split; [cbn; lia|]. rewrite Hc2. intros x Hx. apply elem_of_list_singleton in Hx. exact Hx.
    + intros x Hx. rewrite forallb_forall in Hh. apply elem_of_list_In in Hx. specialize (Hh x Hx).
      apply andb_true_iff in Hh as [H1 H2]. split; [by apply Z.ltb_lt|by apply sane_opsb_spec].
Qed.
