(* C16: the flusher's WaitGroup accounting (Model/Collector.v part 3), for every label sequence. *)
From Coq Require Import List Arith Bool ZArith Lia.
From GS Require Import Base.LTS Model.Collector.
Import ListNotations.
Local Open Scope Z_scope.

Record finv (s : fstate) : Prop := {
  fi_wg : wg s = Z.of_nat (issued s) - Z.of_nat (length (cbs s));
  fi_ok : fph s <> FPanicked -> 0 <= wg s;
  fi_panic : fph s = FPanicked -> wg s < 0;
  fi_ret : fph s = FReturned -> wg s = 0
}.

Lemma finv_init : finv finit.
Proof. constructor; cbn; try discriminate; lia. Qed.

Lemma fstep_inv s l s' : finv s -> fstep s l = Some s' -> finv s'.
Proof.
  intros [W O P R] H. unfold fstep in H.
  destruct (fph s) eqn:Hp; destruct l; try discriminate;
    repeat match type of H with
           | context [if ?b then _ else _] => destruct b eqn:?; try discriminate
           end;
    injection H as <-; constructor; cbn; intros; try discriminate; try congruence; try lia.
  all: try (specialize (O ltac:(discriminate))); try lia.
  specialize (R eq_refl). lia.
Qed.

Lemma freach_inv ls s : run fstep finit ls = Some s -> finv s.
Proof. apply invariant_run; [intros; eapply fstep_inv; eauto|apply finv_init]. Qed.

Lemma at_most_once_length s : at_most_once s -> (length (cbs s) <= issued s)%nat.
Proof.
  intros [N L]. rewrite <- (seq_length (issued s) 0).
  apply NoDup_incl_length; [exact N|]. intros r Hr. apply in_seq. specialize (L r Hr). lia.
Qed.

Lemma all_called_length s : at_most_once s -> (all_called s <-> length (cbs s) = issued s).
Proof.
  intros A. pose proof (at_most_once_length s A) as Le. destruct A as [N L]. split.
  - intros AC. apply Nat.le_antisymm; [exact Le|].
    rewrite <- (seq_length (issued s) 0) at 1.
    apply NoDup_incl_length; [apply seq_NoDup|]. intros r Hr. apply in_seq in Hr. apply AC. lia.
  - intros E r Hr.
    assert (I : incl (seq 0 (issued s)) (cbs s)).
    { apply NoDup_length_incl; [exact N|rewrite seq_length; lia|].
      intros x Hx. apply in_seq. specialize (L x Hx). lia. }
    apply I, in_seq. lia.
Qed.

(* C16_flusher_returns *)
Theorem flusher_returns ls s :
  run fstep finit ls = Some s ->
  at_most_once s ->
  fph s <> FPanicked /\ 0 <= wg s /\
  wg s = Z.of_nat (issued s) - Z.of_nat (length (cbs s)) /\
  (wg s = 0 <-> all_called s) /\
  (fph s = FWaiting -> ((exists s', fstep s FWaitReturns = Some s') <-> all_called s)) /\
  (fph s = FReturned -> all_called s /\
     fstep s FNextFlush = Some (FS FProcessing 0 0 [] (S (flushes s)))).
Proof.
  intros R A. destruct (freach_inv _ _ R) as [W O P Rt].
  pose proof (at_most_once_length s A) as Le. pose proof (all_called_length s A) as AC.
  assert (NP : fph s <> FPanicked) by (intros E; specialize (P E); lia).
  assert (Z0 : wg s = 0 <-> all_called s) by (rewrite AC; lia).
  split; [exact NP|]. split; [apply O, NP|]. split; [exact W|]. split; [exact Z0|]. split.
  - intros H. split.
    + intros (s' & E). unfold fstep in E. rewrite H in E. destruct (wg s =? 0) eqn:Q; [|discriminate].
      apply Z0. lia.
    + intros C. apply Z0 in C. unfold fstep. rewrite H, C. cbn. eauto.
  - intros H. split.
    + apply Z0, Rt, H.
    + unfold fstep. rewrite H. reflexivity.
Qed.

(* a request that never calls back keeps the flusher in sendWg.Wait() *)
Corollary flusher_missing_callback_blocks ls s :
  run fstep finit ls = Some s -> at_most_once s -> ~ all_called s -> fstep s FWaitReturns = None.
Proof.
  intros R A N. destruct (fstep s FWaitReturns) eqn:E; [|reflexivity].
  exfalso. apply N.
  assert (Hp : fph s = FWaiting) by (unfold fstep in E; destruct (fph s); try discriminate; reflexivity).
  destruct (flusher_returns _ _ R A) as (_ & _ & _ & _ & HW & _). apply (HW Hp). eauto.
Qed.

(* hypotheses satisfiable: two aggregators, three backends, callbacks in any order, two flushes *)
Definition flusher_sample_script : list flabel :=
  [FSendAll 3; FCallback 1; FSendAll 3; FCallback 0; FProcessDone; FCallback 5; FCallback 2; FCallback 4;
   FCallback 3; FWaitReturns; FNextFlush; FSendAll 3; FCallback 2].
Example flusher_sample :
  run fstep finit flusher_sample_script = Some (FS FProcessing 2 3 [2%nat] 1) /\
  at_most_once (FS FProcessing 2 3 [2%nat] 1).
Proof.
  split; [vm_compute; reflexivity|]. split; cbn [cbs issued].
  - constructor; [intros []|constructor].
  - intros r [<-|[]]. repeat constructor.
Qed.

(* a second callback for one request panics the flusher (negative WaitGroup counter) ... *)
Example flusher_double_callback_panics :
  run fstep finit [FSendAll 1; FProcessDone; FCallback 0; FCallback 0] = Some (FS FPanicked (-1) 1 [0%nat; 0%nat] 0).
Proof. vm_compute. reflexivity. Qed.
(* ... also when it arrives after the flush returned *)
Example flusher_late_callback_panics :
  run fstep finit [FSendAll 1; FProcessDone; FCallback 0; FWaitReturns; FCallback 0]
  = Some (FS FPanicked (-1) 1 [0%nat; 0%nat] 0).
Proof. vm_compute. reflexivity. Qed.
