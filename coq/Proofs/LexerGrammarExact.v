(* C02, the converse inclusion for metrics: every accepted NUL-free line is a rendering of the
   generalised grammar ([render_metric'] under [wf_attrs']), computed by [parse_to_spec]. *)
From Coq Require Import Lia.
From GS Require Import Base.Bytes Model.Lexer Model.LexGrammar Proofs.LexerGrammar.
Local Open Scope N_scope.

(* ---------------------------------------------------------------------------------------- *)
(* splitting *)

Lemma split_first_spec c l : forall u r, split_first c l = Some (u, r) -> l = u ++ c :: r /\ ~ In c u.
Proof.
  induction l as [|b l IH]; intros u r; cbn [split_first]; [discriminate|].
  destruct (N.eqb_spec b c) as [->|Hb].
  - intros [= <- <-]. split; [reflexivity|intros []].
  - destruct (split_first c l) as [[u' r']|]; [|discriminate].
    intros [= <- <-]. destruct (IH u' r' eq_refl) as [-> Hn]. split; [reflexivity|].
    intros [?|?]; [congruence|contradiction].
Qed.

Lemma split_first_app c u r : ~ In c u -> split_first c (u ++ c :: r) = Some (u, r).
Proof.
  induction u as [|b u IH]; intros H; cbn [app split_first].
  - rewrite N.eqb_refl. reflexivity.
  - apply not_in_cons_inv in H as [Hb H]. destruct (N.eqb_spec b c); [contradiction|].
    rewrite (IH H). reflexivity.
Qed.

Lemma split_all_nonempty c l : split_all c l <> [].
Proof.
  destruct l as [|b l]; cbn [split_all]; [discriminate|].
  destruct (b =? c); [discriminate|]. destruct (split_all c l); discriminate.
Qed.

Lemma join_split_all c l : join c (split_all c l) = l.
Proof.
  induction l as [|b l IH]; [reflexivity|]. cbn [split_all].
  pose proof (split_all_nonempty c l) as Hne.
  destruct (N.eqb_spec b c) as [->|Hb]; destruct (split_all c l) as [|f fs]; try contradiction.
  - rewrite join_cons2, IH. reflexivity.
  - rewrite <- IH. destruct fs; reflexivity.
Qed.

Lemma split_all_parts c l : Forall (fun f => ~ In c f /\ forall x, In x f -> In x l) (split_all c l).
Proof.
  induction l as [|b l IH]; cbn [split_all].
  - constructor; [split; [intros []|intros x []]|constructor].
  - assert (IH' : Forall (fun f => ~ In c f /\ forall x, In x f -> In x (b :: l)) (split_all c l)).
    { eapply Forall_impl; [|exact IH]. intros f [H1 H2]. split; [exact H1|intros x Hx; right; auto]. }
    destruct (N.eqb_spec b c) as [->|Hb].
    + constructor; [split; [intros []|intros x []]|exact IH'].
    + destruct (split_all c l) as [|f fs]; [constructor; [|constructor]|].
      * split; [intros [?|[]]; congruence|intros x [<-|[]]; left; reflexivity].
      * inversion IH' as [|? ? [H1 H2] Hfs]; subst. constructor; [|exact Hfs].
        split; [intros [?|?]; [congruence|contradiction]|].
        intros x [<-|Hx]; [left; reflexivity|auto].
Qed.

Lemma cons_join c fs : fs <> [] -> c :: join c fs = concat (map (cons c) fs).
Proof.
  induction fs as [|x fs IH]; intros H; [contradiction|].
  destruct fs as [|y fs].
  - cbn. rewrite app_nil_r. reflexivity.
  - rewrite join_cons2.
    change (concat (map (cons c) (x :: y :: fs))) with ((c :: x) ++ concat (map (cons c) (y :: fs))).
    rewrite <- IH by discriminate. reflexivity.
Qed.

(* induction following the recursion of [fields_to_attrs] / [fields_to_eattrs] *)
Lemma fields_ind (P : list str -> Prop) :
  P [] -> P [[]] -> (forall g rest, P rest -> P ([] :: g :: rest)) ->
  (forall b r rest, P rest -> P ((b :: r) :: rest)) -> forall fs, P fs.
Proof.
  intros H0 H1 H2 H3.
  assert (H : forall n fs, (length fs <= n)%nat -> P fs).
  { induction n as [|n IH]; intros fs Hn.
    - destruct fs; [exact H0|cbn in Hn; lia].
    - destruct fs as [|f rest]; [exact H0|]. cbn [length] in Hn.
      destruct f as [|b r]; [|apply H3, IH; lia].
      destruct rest as [|g rest']; [exact H1|]. cbn [length] in Hn. apply H2, IH. lia. }
  intros fs. apply (H (length fs)). lia.
Qed.

(* ---------------------------------------------------------------------------------------- *)
(* fields -> attributes: always a rendering of the same text, always well formed *)

Lemma fields_attrs_render fs : render_attrs (fields_to_attrs fs) = concat (map (cons c_pipe) fs).
Proof.
  induction fs as [| |g rest IH|b r rest IH] using fields_ind; try reflexivity.
  - cbn [fields_to_attrs render_attrs render_attr map concat app]. rewrite IH. reflexivity.
  - cbn [fields_to_attrs render_attrs map concat]. rewrite IH. f_equal. f_equal.
    destruct (N.eqb_spec b c_at) as [->|_]; [reflexivity|].
    destruct (N.eqb_spec b c_hash) as [->|_]; [|reflexivity].
    cbn [render_attr]. rewrite join_split_all. reflexivity.
Qed.

Definition clean_field (f : str) : Prop := ~ In c_pipe f /\ ~ In c_nul f.

Lemma fields_attrs_wf fs : Forall clean_field fs -> wf_attrs' (fields_to_attrs fs).
Proof.
  induction fs as [| |g rest IH|b r rest IH] using fields_ind; intros H.
  - exact I.
  - cbn. auto.
  - inversion H as [|? ? _ H']; subst. inversion H' as [|? ? [Hg _] H'']; subst.
    cbn [fields_to_attrs wf_attrs' wf_attr']. split; [|apply IH, H''].
    repeat split; [discriminate|discriminate|exact Hg].
  - inversion H as [|? ? [Hp Hn] H']; subst. cbn [fields_to_attrs wf_attrs']. split; [|apply IH, H'].
    apply not_in_cons_inv in Hp as [_ Hp]. apply not_in_cons_inv in Hn as [_ Hn].
    destruct (N.eqb_spec b c_at) as [->|Hat]; [exact Hp|].
    destruct (N.eqb_spec b c_hash) as [->|Hh]; [|cbn; auto].
    cbn [wf_attr']. pose proof (split_all_parts c_comma r) as Hs.
    eapply Forall_impl; [|exact Hs]. intros t [H1 H2]. repeat split; [exact H1|intro; apply Hp|intro; apply Hn]; auto.
Qed.

Lemma wf_attrs_sub attrs : Forall wf_attr attrs -> wf_attrs' attrs.
Proof.
  induction 1 as [|a attrs Ha _ IH]; [exact I|]. split; [|exact IH].
  destruct a as [s|ts|s]; cbn in *; try assumption.
  destruct Ha as (Hp & b & r & -> & Hat & Hh). apply not_in_cons_inv in Hp as [_ Hp]. auto.
Qed.

(* ---------------------------------------------------------------------------------------- *)
(* inversion of the lexer's key / value / type functions *)

Lemma lex_value_sep_inv l : forall v r, lex_value_sep l = Ok (v, r) ->
  l = v ++ c_pipe :: r /\ ~ In c_pipe v /\ ~ In c_nul v.
Proof.
  induction l as [|b l IH]; intros v r; cbn [lex_value_sep]; [discriminate|].
  destruct (N.eqb_spec b c_pipe) as [->|Hp].
  - intros [= <- <-]. repeat split; intros [].
  - destruct (N.eqb_spec b c_nul) as [->|Hn]; [discriminate|].
    destruct (lex_value_sep l) as [[v' r']| |]; [|discriminate..].
    intros [= <- <-]. destruct (IH v' r' eq_refl) as (-> & H1 & H2).
    repeat split; (intros [?|?]; [congruence|contradiction]).
Qed.

Lemma lex_type_parse l ty' r : lex_type l = Ok (ty', r) ->
  exists ty, parse_type l = Some (ty, r) /\ tytok_type ty = ty'.
Proof.
  unfold lex_type, parse_type. destruct l as [|b l]; [discriminate|].
  destruct (b =? c_c); [intros [= <- <-]; exists TokC; auto|].
  destruct (b =? c_g); [intros [= <- <-]; exists TokG; auto|].
  destruct (b =? c_m).
  { destruct l as [|b2 l2]; [discriminate|]. destruct (b2 =? c_s); [|discriminate].
    intros [= <- <-]; exists TokMs; auto. }
  destruct (b =? c_h); [intros [= <- <-]; exists TokH; auto|].
  destruct (b =? c_s); [intros [= <- <-]; exists TokS; auto|discriminate].
Qed.

Lemma parse_type_spec l ty r : parse_type l = Some (ty, r) -> l = tytok_str ty ++ r.
Proof.
  unfold parse_type. destruct l as [|b l]; [discriminate|].
  destruct (N.eqb_spec b c_c) as [->|_]; [intros [= <- <-]; reflexivity|].
  destruct (N.eqb_spec b c_g) as [->|_]; [intros [= <- <-]; reflexivity|].
  destruct (N.eqb_spec b c_m) as [->|_].
  { destruct l as [|b2 l2]; [discriminate|]. destruct (N.eqb_spec b2 c_s) as [->|_]; [|discriminate].
    intros [= <- <-]; reflexivity. }
  destruct (N.eqb_spec b c_h) as [->|_]; [intros [= <- <-]; reflexivity|].
  destruct (N.eqb_spec b c_s) as [->|_]; [intros [= <- <-]; reflexivity|discriminate].
Qed.

Section WithOracle.
  Variable pf : str -> pfres.

  (* ------------------------------------------------------------------------------------ *)
  (* grammar' is accepted with the expected fields (generalises [grammar_metric]) *)

  Lemma mattrs_render' attrs : wf_attrs' attrs -> forall rate tags,
    lex_mattrs pf MAttrs rate tags (render_attrs attrs) =
    match attrs_rate pf rate attrs with
    | RateOk v => Ok (v, rev (attrs_tags attrs) ++ tags)
    | RateBad e => Rej e
    end.
  Proof.
    induction attrs as [|a attrs IH]; intros Hwf rate tags; [reflexivity|].
    destruct Hwf as [Ha Hwf]. specialize (IH Hwf). cbn [render_attrs].
    change (lex_mattrs pf MAttrs rate tags (c_pipe :: render_attr a ++ render_attrs attrs))
      with (lex_mattrs pf MAttr rate tags (render_attr a ++ render_attrs attrs)).
    pose proof (render_attrs_poe attrs) as Hk.
    destruct a as [s|ts|s]; cbn [render_attr wf_attr' attrs_rate attrs_tags app] in *.
    - change (lex_mattrs pf MAttr rate tags (c_at :: s ++ render_attrs attrs))
        with (lex_mattrs pf (MRate []) rate tags (s ++ render_attrs attrs)).
      rewrite (mattrs_rate pf s _ [] rate tags Ha Hk). cbn [rev app]. unfold parse_rate.
      destruct (pf s); [reflexivity|apply IH|reflexivity].
    - change (lex_mattrs pf MAttr rate tags (c_hash :: join c_comma ts ++ render_attrs attrs))
        with (lex_mattrs pf (MTags []) rate tags (join c_comma ts ++ render_attrs attrs)).
      rewrite (mattrs_tags pf ts Ha _ rate tags Hk), IH.
      destruct (attrs_rate pf rate attrs); [|reflexivity].
      rewrite rev_app_distr, app_assoc. reflexivity.
    - destruct s as [|b r].
      + destruct attrs; [reflexivity|discriminate Ha].
      + destruct Ha as (Hat & Hh & Hp). cbn [app lex_mattrs].
        destruct (N.eqb_spec b c_at); [contradiction|]. destruct (N.eqb_spec b c_hash); [contradiction|].
        rewrite (mattrs_other pf r _ rate tags Hp Hk). apply IH.
  Qed.

  Theorem grammar_metric' ns raw val ty attrs :
    wf_raw_name raw -> wf_value val -> wf_attrs' attrs ->
    lex pf ns (render_metric' raw val ty attrs) = expected_metric pf ns raw val ty attrs.
  Proof.
    intros Hraw [Hv1 Hv2] Hattrs. unfold render_metric', render_metric.
    rewrite (lex_metric_dispatch pf ns raw _ Hraw). destruct Hraw as (Hc & Hn & _).
    unfold lex_metric, expected_metric. rewrite (lex_key_sep_spec raw _ Hc Hn).
    destruct (normalise raw) as [|kb key]; [reflexivity|].
    rewrite (lex_value_sep_spec val _ Hv1 Hv2), lex_type_spec, (mattrs_render' attrs Hattrs).
    destruct (attrs_rate pf f64_one attrs); [|reflexivity].
    rewrite app_nil_r, rev_involutive. reflexivity.
  Qed.

  (* ------------------------------------------------------------------------------------ *)
  (* parse_metric: sound (purely syntactic) and complete for accepted lines *)

  Lemma parse_metric_sound l raw val ty attrs :
    parse_metric l = Some (SMetric raw val ty attrs) ->
    l = render_metric' raw val ty attrs /\ ~ In c_colon raw /\ ~ In c_pipe val /\
    (~ In c_nul l -> wf_attrs' attrs).
  Proof.
    unfold parse_metric.
    destruct (split_first c_colon l) as [[raw' r1]|] eqn:E1; [|discriminate].
    destruct (split_first c_pipe r1) as [[val' r2]|] eqn:E2; [|discriminate].
    destruct (parse_type r2) as [[ty' r3]|] eqn:E3; [|discriminate].
    apply split_first_spec in E1 as [-> Hc]. apply split_first_spec in E2 as [-> Hp].
    apply parse_type_spec in E3 as ->.
    destruct r3 as [|b x].
    - intros [= <- <- <- <-]. repeat split; auto.
    - destruct (N.eqb_spec b c_pipe) as [->|]; [|discriminate].
      intros [= <- <- <- <-]. unfold render_metric', render_metric.
      rewrite fields_attrs_render, <- cons_join, join_split_all by apply split_all_nonempty.
      repeat split; auto. intros Hn. apply fields_attrs_wf.
      pose proof (split_all_parts c_pipe x) as Hs. eapply Forall_impl; [|exact Hs].
      intros f [H1 H2]. split; [exact H1|]. intros Hf. apply Hn.
      apply in_or_app; right; right. apply in_or_app; right; right. apply in_or_app; right. right. auto.
  Qed.

  Lemma parse_metric_complete ns l m : ~ In c_nul l -> lex_metric pf ns l = OMetric m ->
    exists raw val ty attrs, parse_metric l = Some (SMetric raw val ty attrs).
  Proof.
    intros Hnul. unfold lex_metric, parse_metric.
    destruct (lex_key_sep l) as [[key r1]| |] eqn:Ek; [|discriminate..].
    destruct key as [|kb key]; [discriminate|].
    destruct (lex_value_sep r1) as [[val r2]| |] eqn:Ev; [|discriminate..].
    destruct (lex_type r2) as [[ty' r3]| |] eqn:Et; [|discriminate..].
    destruct (lex_mattrs pf MAttrs f64_one [] r3) as [[rate tags]| |] eqn:Ea; [|discriminate..].
    intros _.
    apply lex_key_sep_inv in Ek as (raw & -> & Hc & _ & _).
    apply lex_value_sep_inv in Ev as (-> & Hp & _).
    apply lex_type_parse in Et as (ty & Et & _).
    rewrite (split_first_app c_colon raw _ Hc), (split_first_app c_pipe val _ Hp), Et.
    destruct r3 as [|b x]; [repeat eexists|].
    cbn [lex_mattrs] in Ea. destruct (N.eqb_spec b c_pipe) as [->|]; [repeat eexists|].
    destruct (N.eqb_spec b c_nul) as [->|]; [|discriminate].
    exfalso. apply Hnul. apply parse_type_spec in Et. rewrite Et.
    apply in_or_app; right; right. apply in_or_app; right; right. apply in_or_app; right. left. reflexivity.
  Qed.

  (* every accepted NUL-free line is a rendering of the generalised grammar, and what the lexer
     returns is what the grammar promises for that derivation *)
  Theorem accepted_only_grammar ns l m : ~ In c_nul l -> lex pf ns l = OMetric m ->
    exists raw val ty attrs,
      parse_to_spec l = Some (SMetric raw val ty attrs) /\
      wf_raw_name raw /\ wf_value val /\ wf_attrs' attrs /\
      l = render_metric' raw val ty attrs /\
      expected_metric pf ns raw val ty attrs = OMetric m.
  Proof.
    intros Hnul Hlex.
    assert (Hd : exists b r, l = b :: r /\ b <> c_us /\ lex_metric pf ns l = OMetric m /\ parse_to_spec l = parse_metric l).
    { unfold lex, lex_gen in Hlex. destruct l as [|b r]; [discriminate|]. exists b, r.
      unfold parse_to_spec.
      destruct (N.eqb_spec b c_us) as [->|Hu].
      - exfalso. revert Hlex. unfold lex_event_gen. destruct r as [|b2 r0]; [discriminate|].
        destruct (negb (b2 =? c_e)); [discriminate|].
        match goal with |- context [match ?x with _ => _ end] => destruct x as [[? ?]| |] end; discriminate.
      - destruct (b =? c_nul); [discriminate|]. auto. }
    destruct Hd as (b & r & Hl & Hu & Hm & Hp).
    destruct (parse_metric_complete ns l m Hnul Hm) as (raw & val & ty & attrs & Hparse).
    exists raw, val, ty, attrs. rewrite Hp.
    destruct (parse_metric_sound l raw val ty attrs Hparse) as (Hrender & Hc & Hv & Hwf).
    assert (Hraw : wf_raw_name raw).
    { repeat split; [exact Hc| |].
      - intros H. apply Hnul. rewrite Hrender. unfold render_metric', render_metric. apply in_or_app; left; exact H.
      - intros r' ->. rewrite Hrender in Hl. unfold render_metric', render_metric in Hl.
        cbn [app] in Hl. congruence. }
    assert (Hval : wf_value val).
    { split; [exact Hv|]. intros H. apply Hnul. rewrite Hrender. unfold render_metric', render_metric.
      apply in_or_app; right; right. apply in_or_app; left; exact H. }
    specialize (Hwf Hnul).
    split; [exact Hparse|]. split; [exact Hraw|]. split; [exact Hval|]. split; [exact Hwf|].
    split; [exact Hrender|].
    rewrite <- (grammar_metric' ns raw val ty attrs Hraw Hval Hwf), <- Hrender. exact Hlex.
  Qed.

End WithOracle.

(* ---------------------------------------------------------------------------------------- *)
(* the quirks, as statements about single lines (documentation of what "exactly" means) *)

Section Quirks.
  Variable pf : str -> pfres.
  Variable ns : str.

  (* 1. An empty field swallows the next one, whatever it is (a rate, tags, garbage). *)
  Lemma quirk_empty_field_swallows_next raw val ty g attrs :
    wf_raw_name raw -> wf_value val -> ~ In c_pipe g -> wf_attrs' attrs ->
    lex pf ns (render_metric' raw val ty (AOther (c_pipe :: g) :: attrs)) =
    lex pf ns (render_metric' raw val ty attrs).
  Proof.
    intros Hraw Hval Hg Hattrs.
    rewrite !grammar_metric'; try assumption; [reflexivity|].
    split; [|exact Hattrs]. repeat split; [discriminate|discriminate|exact Hg].
  Qed.

  (* 2. A trailing '|' changes nothing. *)
  Lemma quirk_trailing_pipe raw val ty attrs :
    wf_raw_name raw -> wf_value val -> Forall wf_attr attrs ->
    lex pf ns (render_metric raw val ty attrs ++ [c_pipe]) = lex pf ns (render_metric raw val ty attrs).
  Proof.
    intros Hraw Hval Hattrs.
    assert (E : render_metric raw val ty attrs ++ [c_pipe] = render_metric' raw val ty (attrs ++ [AOther []])).
    { unfold render_metric', render_metric. rewrite <- !app_assoc. cbn [app]. do 2 f_equal.
      rewrite <- !app_assoc. cbn [app]. do 2 f_equal. rewrite <- app_assoc. f_equal.
      induction attrs as [|a attrs IH]; [reflexivity|]. cbn [render_attrs app].
      rewrite <- app_assoc. inversion Hattrs; subst. rewrite IH by assumption. reflexivity. }
    rewrite E, grammar_metric', (grammar_metric pf ns raw val ty attrs Hraw Hval Hattrs); try assumption.
    - unfold expected_metric. destruct (normalise raw); [reflexivity|].
      assert (Hr : forall cur, attrs_rate pf cur (attrs ++ [AOther []]) = attrs_rate pf cur attrs).
      { clear. induction attrs as [|a attrs IH]; intros cur; [reflexivity|].
        destruct a; cbn [app attrs_rate]; [destruct (pf s); auto|auto..]. }
      assert (Ht : attrs_tags (attrs ++ [AOther []]) = attrs_tags attrs).
      { clear. induction attrs as [|a attrs IH]; [reflexivity|].
        destruct a; cbn [app attrs_tags]; rewrite ?IH; reflexivity. }
      rewrite Hr, Ht. reflexivity.
    - clear E. induction Hattrs as [|a attrs Ha _ IH]; [cbn; auto|].
      cbn [app wf_attrs']. split; [|exact IH].
      destruct a as [s|ts|s]; cbn in *; try assumption.
      destruct Ha as (Hp & b & r & -> & Hat & Hh). apply not_in_cons_inv in Hp as [_ Hp]. auto.
  Qed.
End Quirks.
