(* C03, HTTP part: properties of the decision function Model/WireStatus.handle. *)
From Coq Require Import Lia.
From GS Require Import Base.Bytes Model.WireStatus.
Local Open Scope N_scope.

Lemma classify_deflate h : classify h = EncDeflate <-> h = str_deflate.
Proof.
  unfold classify. destruct (str_eqb_spec h str_deflate) as [->|Hn]; [tauto|].
  destruct (str_eqb h str_lz4); [split; [discriminate|tauto]|].
  destruct (str_eqb h str_identity); [split; [discriminate|tauto]|].
  destruct h; split; try discriminate; tauto.
Qed.

Lemma classify_lz4 h : classify h = EncLz4 <-> h = str_lz4.
Proof.
  unfold classify. destruct (str_eqb_spec h str_deflate) as [->|Hn].
  { split; discriminate. }
  destruct (str_eqb_spec h str_lz4) as [->|Hn2]; [tauto|].
  destruct (str_eqb h str_identity); [split; [discriminate|tauto]|].
  destruct h; split; try discriminate; tauto.
Qed.

Lemma classify_plain h :
  (classify h = EncIdentity \/ classify h = EncEmpty) <-> (h = str_identity \/ h = []).
Proof.
  unfold classify. destruct (str_eqb_spec h str_deflate) as [->|Hn].
  { split; intros [H|H]; discriminate. }
  destruct (str_eqb_spec h str_lz4) as [->|Hn2].
  { split; intros [H|H]; discriminate. }
  destruct (str_eqb_spec h str_identity) as [->|Hn3]; [tauto|].
  destruct h; [tauto|]. split; intros [H|H]; try discriminate; tauto.
Qed.

(* the path predicate as a boolean, for case analysis *)
Definition path_ok (h : str) (o : wire_oracle) : bool :=
  w_read o &&
  match classify h with
  | EncDeflate => match w_zlib o with Some true => true | _ => false end
  | EncLz4 => match w_lz4 o with Some true => true | _ => false end
  | EncIdentity | EncEmpty => w_plain o
  | EncOther => false
  end.

Lemma path_ok_spec h o : path_ok h o = true <-> all_stages_ok h o.
Proof.
  unfold path_ok, all_stages_ok.
  pose proof (classify_deflate h) as Hd. pose proof (classify_lz4 h) as Hl.
  pose proof (classify_plain h) as Hp.
  destruct (w_read o); cbn [andb]; [|split; [discriminate|intros [H _]; discriminate]].
  destruct (classify h) eqn:Ec.
  - (* identity *)
    split.
    + intros H. split; [reflexivity|]. right; right. split; [apply Hp; auto|exact H].
    + intros [_ [[Hh _]|[[Hh _]|[_ Hw]]]]; [apply Hd in Hh; discriminate|apply Hl in Hh; discriminate|exact Hw].
  - (* empty *)
    split.
    + intros H. split; [reflexivity|]. right; right. split; [apply Hp; auto|exact H].
    + intros [_ [[Hh _]|[[Hh _]|[_ Hw]]]]; [apply Hd in Hh; discriminate|apply Hl in Hh; discriminate|exact Hw].
  - (* deflate *)
    assert (Hh : h = str_deflate) by (apply Hd; reflexivity).
    split.
    + intros H. split; [reflexivity|]. left. split; [exact Hh|].
      destruct (w_zlib o) as [[|]|]; congruence.
    + intros [_ [[_ Hz]|[[Hh2 _]|[Hh2 _]]]].
      * rewrite Hz; reflexivity.
      * apply Hl in Hh2; discriminate.
      * apply Hp in Hh2. destruct Hh2; discriminate.
  - (* lz4 *)
    assert (Hh : h = str_lz4) by (apply Hl; reflexivity).
    split.
    + intros H. split; [reflexivity|]. right; left. split; [exact Hh|].
      destruct (w_lz4 o) as [[|]|]; congruence.
    + intros [_ [[Hh2 _]|[[_ Hz]|[Hh2 _]]]].
      * apply Hd in Hh2; discriminate.
      * rewrite Hz; reflexivity.
      * apply Hp in Hh2. destruct Hh2; discriminate.
  - (* other *)
    split; [discriminate|].
    intros [_ [[Hh _]|[[Hh _]|[Hh _]]]].
    + apply Hd in Hh; discriminate.
    + apply Hl in Hh; discriminate.
    + apply Hp in Hh. destruct Hh; discriminate.
Qed.

(* the whole behaviour of the handler in terms of [path_ok] *)
Lemma handle_cases ep h o :
  (path_ok h o = true /\ handle ep h o = [Dispatch; WriteHeader status_accepted])
  \/ (path_ok h o = false /\
      (handle ep h o = [WriteHeader status_bad_request]
       \/ handle ep h o = [WriteHeader status_internal_error])).
Proof.
  unfold handle, read_body, path_ok.
  destruct (w_read o); cbn [negb andb]; [|right; auto].
  destruct (classify h).
  - destruct (w_plain o); [left|right]; auto.
  - destruct (w_plain o); [left|right]; auto.
  - destruct (w_zlib o) as [[|]|]; [left|right|right]; auto.
  - destruct (w_lz4 o) as [[|]|]; [left|right|right]; auto.
  - right; auto.
Qed.

Theorem http_status ep h o :
  exists code,
    statuses (handle ep h o) = [code]
    /\ (all_stages_ok h o -> code = status_accepted /\ dispatches (handle ep h o) = 1)
    /\ (~ all_stages_ok h o -> is_4xx_5xx code /\ dispatches (handle ep h o) = 0).
Proof.
  destruct (handle_cases ep h o) as [[Hp ->]|[Hp [-> | ->]]].
  - exists status_accepted. split; [reflexivity|]. split; [auto|].
    intros Hn. exfalso. apply Hn, path_ok_spec, Hp.
  - exists status_bad_request. split; [reflexivity|]. split.
    + intros Ha. apply path_ok_spec in Ha. congruence.
    + intros _. split; [unfold is_4xx_5xx, status_bad_request; lia|reflexivity].
  - exists status_internal_error. split; [reflexivity|]. split.
    + intros Ha. apply path_ok_spec in Ha. congruence.
    + intros _. split; [unfold is_4xx_5xx, status_internal_error; lia|reflexivity].
Qed.

(* 202 is answered only when every stage succeeded, and the dispatch precedes the answer *)
Theorem http_accepted_iff ep h o :
  In (WriteHeader status_accepted) (handle ep h o) <-> all_stages_ok h o.
Proof.
  rewrite <- path_ok_spec.
  destruct (handle_cases ep h o) as [[Hp ->]|[Hp [-> | ->]]]; rewrite Hp; cbn.
  - split; auto.
  - split; [intros [H|[]]; discriminate|discriminate].
  - split; [intros [H|[]]; discriminate|discriminate].
Qed.

Theorem http_dispatch_iff ep h o :
  In Dispatch (handle ep h o) <-> all_stages_ok h o.
Proof.
  rewrite <- path_ok_spec.
  destruct (handle_cases ep h o) as [[Hp ->]|[Hp [-> | ->]]]; rewrite Hp; cbn.
  - split; auto.
  - split; [intros [H|[]]; discriminate|discriminate].
  - split; [intros [H|[]]; discriminate|discriminate].
Qed.

(* the failure classes: 500 exactly when reading the body failed *)
Theorem http_500_iff_read_failed ep h o :
  statuses (handle ep h o) = [status_internal_error] <-> w_read o = false.
Proof.
  unfold handle, read_body. destruct (w_read o); cbn [negb].
  - split; [|discriminate]. intros H. exfalso. revert H.
    destruct (classify h).
    + destruct (w_plain o); cbn; discriminate.
    + destruct (w_plain o); cbn; discriminate.
    + destruct (w_zlib o) as [[|]|]; cbn; discriminate.
    + destruct (w_lz4 o) as [[|]|]; cbn; discriminate.
    + cbn; discriminate.
  - split; reflexivity.
Qed.

(* non-vacuity: both sides of the case distinction occur *)
Example all_ok_example : all_stages_ok str_lz4 (WO true None (Some true) false).
Proof. split; [reflexivity|]. right; left. split; reflexivity. Qed.
Example not_ok_example : ~ all_stages_ok str_deflate (WO true None (Some true) true).
Proof. intros H. apply path_ok_spec in H. discriminate. Qed.
