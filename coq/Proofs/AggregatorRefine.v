(* Model/Aggregator.v against the partial models, part 1: outcomes over a map, the shape of
   flush / reset per series, the timer part of flush is Stats.flush_timer, and C04 transferred:
   no history of ReceiveMap | Flush | Reset panics. *)
From stdpp Require Import gmap.
From Coq Require Import QArith Qcanon.
From GS Require Import Base.Bytes Base.GoFloat Model.Lexer Model.Series Model.MetricMap.
From GS Require Import Model.GoPartial Model.Histogram Model.Stats Model.Aggregator.
From GS Require Import Proofs.FlushSafety.
From GS Require Proofs.StatsSort.
Local Open Scope Z_scope.

(* ---- outcomes over a map ---- *)

Lemma all_ok_spec {A} (m : gmap skey (outcome A)) :
  all_ok m = true <-> forall k o, m !! k = Some o -> o <> Panic.
Proof.
  unfold all_ok. rewrite forallb_forall. split.
  - intros H k o Hk ->. apply elem_of_map_to_list, elem_of_list_In in Hk. specialize (H _ Hk). discriminate.
  - intros H [k o] Hin. apply elem_of_list_In, elem_of_map_to_list in Hin. cbn.
    destruct o; [reflexivity|]. exfalso. exact (H k _ Hin eq_refl).
Qed.

Lemma seq_map_Ok {A} (m : gmap skey (outcome A)) m' :
  seq_map m = Ok m' <-> (forall k o, m !! k = Some o -> o <> Panic) /\ m' = omap ok_val m.
Proof.
  unfold seq_map. destruct (all_ok m) eqn:E.
  - pose proof (proj1 (all_ok_spec m) E) as E'. split; [intros [= <-]; auto | intros [_ ->]; reflexivity].
  - split; [discriminate|]. intros [H _]. pose proof (proj2 (all_ok_spec m) H). congruence.
Qed.

Lemma seq_map_Panic {A} (m : gmap skey (outcome A)) :
  seq_map m = Panic <-> exists k, m !! k = Some Panic.
Proof.
  unfold seq_map. destruct (all_ok m) eqn:E.
  - pose proof (proj1 (all_ok_spec m) E) as E'. split; [discriminate|]. intros [k Hk]. exfalso. exact (E' k _ Hk eq_refl).
  - split; [intros _|reflexivity].
    destruct (decide (map_Exists (λ _ o, is_panic o = true) m)) as [H|H].
    + destruct H as (k & o & Hk & Ho). destruct o; [discriminate|]. eauto.
    + exfalso. apply map_not_Exists in H. apply not_true_iff_false in E. apply E, (proj2 (all_ok_spec m)).
      intros k o Hk ->. exact (H k _ Hk eq_refl).
Qed.

(* lookup in the result of a successful pass over a map *)
Lemma seq_map_fmap_lookup {A B} (f : A -> outcome B) (m : gmap skey A) m' k :
  seq_map (f <$> m) = Ok m' ->
  m' !! k = match m !! k with Some x => ok_val (f x) | None => None end.
Proof.
  intros H. apply seq_map_Ok in H as [_ ->]. rewrite lookup_omap, lookup_fmap.
  destruct (m !! k); reflexivity.
Qed.

Lemma seq_map_fmap_Some {A B} (f : A -> outcome B) (m : gmap skey A) m' k y :
  seq_map (f <$> m) = Ok m' ->
  m' !! k = Some y <-> exists x, m !! k = Some x /\ f x = Ok y.
Proof.
  intros H. pose proof H as H'. apply seq_map_Ok in H' as [Hok _].
  rewrite (seq_map_fmap_lookup f m m' k H). destruct (m !! k) as [x|] eqn:E.
  - split.
    + intros Hy. exists x. split; [reflexivity|]. destruct (f x) eqn:Ef; [cbn in Hy; congruence | discriminate].
    + intros (x' & [= <-] & ->). reflexivity.
  - split; [discriminate | intros (x & Hx & _); discriminate].
Qed.

Lemma seq_map_fmap_all_ok {A B} (f : A -> outcome B) (m : gmap skey A) :
  (forall k x, m !! k = Some x -> exists y, f x = Ok y) -> exists m', seq_map (f <$> m) = Ok m'.
Proof.
  intros H. eexists. apply seq_map_Ok. split; [|reflexivity].
  intros k o Hk ->. rewrite lookup_fmap in Hk. destruct (m !! k) as [x|] eqn:E; [|discriminate].
  destruct (H k x E) as [y Hy]. cbn in Hk. congruence.
Qed.

(* ---- per-series shape of the three operations ---- *)

Lemma merge_acounter_lookup a m k :
  a_counters (receive_map a m) !! k = merge_acounter (a_counters a !! k) (counters m !! k).
Proof. cbn. rewrite lookup_merge. destruct (a_counters a !! k), (counters m !! k); reflexivity. Qed.

Lemma merge_atimer_lookup a m k :
  a_timers (receive_map a m) !! k = merge_atimer (a_timers a !! k) (timers m !! k).
Proof. cbn. rewrite lookup_merge. destruct (a_timers a !! k), (timers m !! k); reflexivity. Qed.

Section Shape.
  Variable pf : str -> option bound.
  Variable rank : Z -> Z -> Z.
  Variable cfg : aconfig.

  (* THE TIMER PART OF FLUSH IS Stats.flush_timer: a timer is in the flushed aggregate iff it was
     in the aggregate, and it is the (successful) outcome of [Stats.flush_timer] on it *)
  Lemma flush_timer_part dt a a' k t' :
    flush pf rank cfg dt a = Ok a' ->
    a_timers a' !! k = Some t' <->
    exists t, a_timers a !! k = Some t /\
      Stats.flush_timer qc_ops pf rank false (stats_config cfg dt) (at_t t) = Ok (at_t t') /\
      at_bits t' = at_bits t /\ at_ts t' = at_ts t /\ at_src t' = at_src t.
  Proof.
    unfold flush. intros H. destruct (seq_map (flush_atimer pf rank cfg dt <$> a_timers a)) as [ts|] eqn:E; [|discriminate].
    cbn in H. injection H as <-. cbn [a_timers].
    rewrite (seq_map_fmap_Some _ _ _ k t' E). unfold flush_atimer. split.
    - intros (t & Ht & Hf). exists t. split; [exact Ht|].
      destruct (Stats.flush_timer qc_ops pf rank false (stats_config cfg dt) (at_t t)) as [s|]; [|discriminate].
      cbn in Hf. injection Hf as <-. cbn. auto.
    - intros (t & Ht & Hf & Hb & Hts & Hs). exists t. split; [exact Ht|]. rewrite Hf. cbn.
      destruct t'; cbn in *; subst; reflexivity.
  Qed.

  Lemma flush_panic_iff dt a :
    flush pf rank cfg dt a = Panic <->
    exists k t, a_timers a !! k = Some t /\
      Stats.flush_timer qc_ops pf rank false (stats_config cfg dt) (at_t t) = Panic.
  Proof.
    unfold flush. destruct (seq_map (flush_atimer pf rank cfg dt <$> a_timers a)) as [ts|] eqn:E.
    - split; [discriminate|]. intros (k & t & Ht & Hp). exfalso.
      apply seq_map_Ok in E as [Hok _]. apply (Hok k Panic); [|reflexivity].
      rewrite lookup_fmap, Ht. cbn. unfold flush_atimer. rewrite Hp. reflexivity.
    - split; [intros _|reflexivity]. apply seq_map_Panic in E as [k Hk]. rewrite lookup_fmap in Hk.
      destruct (a_timers a !! k) as [t|] eqn:Ht; [|discriminate]. exists k, t. split; [exact Ht|].
      cbn in Hk. unfold flush_atimer in Hk.
      destruct (Stats.flush_timer qc_ops pf rank false (stats_config cfg dt) (at_t t)); [discriminate | reflexivity].
  Qed.

  Lemma flush_counter_part dt a a' k :
    flush pf rank cfg dt a = Ok a' -> a_counters a' !! k = flush_acounter dt <$> a_counters a !! k.
  Proof.
    unfold flush. destruct (seq_map _); [|discriminate]. intros [= <-]. cbn. apply lookup_fmap.
  Qed.

  Lemma flush_rest dt a a' : flush pf rank cfg dt a = Ok a' -> a_gauges a' = a_gauges a /\ a_sets a' = a_sets a.
  Proof. unfold flush. destruct (seq_map _); [|discriminate]. intros [= <-]. auto. Qed.

  Lemma slice_to_0 {A} (l : list A) : slice_to l 0 = Ok [].
  Proof. unfold slice_to. pose proof (Nat2Z.is_nonneg (length l)). unfold len. destruct (_ || _) eqn:E; [lia | reflexivity]. Qed.

  (* Reset of a kept timer: Values[:0], the tags, and an empty histogram for a histogram timer *)
  Lemma reset_atimer_shape t :
    reset_atimer pf cfg t =
    let! h := (if has_histogram_tag (Stats.t_tags (at_t t))
               then empty_histogram pf (Stats.t_tags (at_t t)) (ak_limit cfg) else Ok HNil) in
    Ok (MkAT (Stats.fresh qc_ops [] 0%Qc (Stats.t_tags (at_t t)) h) [] (at_ts t) (at_src t)).
  Proof.
    unfold reset_atimer. rewrite !slice_to_0. cbn [bind].
    destruct (if has_histogram_tag _ then _ else _); reflexivity.
  Qed.

  Lemma reset_timer_part now a a' k t' :
    reset pf cfg now a = Ok a' ->
    a_timers a' !! k = Some t' <->
    exists t, a_timers a !! k = Some t /\ is_expired (ak_exp_timer cfg) now (at_ts t) = false /\
              reset_atimer pf cfg t = Ok t'.
  Proof.
    unfold reset. intros H.
    destruct (seq_map (reset_atimer pf cfg <$> omap (live_timer cfg now) (a_timers a))) as [ts|] eqn:E; [|discriminate].
    cbn in H. injection H as <-. cbn [a_timers].
    rewrite (seq_map_fmap_Some _ _ _ k t' E). rewrite lookup_omap. unfold live_timer. split.
    - intros (t & Ht & Hr). destruct (a_timers a !! k) as [t0|]; [|discriminate]. cbn in Ht.
      destruct (is_expired _ _ _) eqn:Ee; [discriminate|]. injection Ht as ->. eauto.
    - intros (t & Ht & He & Hr). exists t. rewrite Ht. cbn. rewrite He. auto.
  Qed.

  Lemma reset_other_parts now a a' :
    reset pf cfg now a = Ok a' ->
    a_counters a' = omap (reset_acounter cfg now) (a_counters a) /\
    a_gauges a' = omap (reset_gauge cfg now) (a_gauges a) /\
    a_sets a' = omap (reset_set cfg now) (a_sets a).
  Proof. unfold reset. destruct (seq_map _); [|discriminate]. intros [= <-]. auto. Qed.
End Shape.

(* ---- C04 transferred: no history of the whole aggregator panics ---- *)

Lemma qsort_len l : length (vsort qc_ops l) = length l.
Proof. exact (StatsSort.qsort_length l). Qed.


Lemma mm_values_bound m : 0 <= mm_values m /\ forall k t, timers m !! k = Some t -> len (t_vals t) <= mm_values m.
Proof.
  unfold mm_values.
  assert (forall l : list (skey * MetricMap.timer),
            0 <= foldr (λ kv acc, len (t_vals kv.2) + acc) 0 l /\
            forall kv, kv ∈ l -> len (t_vals kv.2) <= foldr (λ kv acc, len (t_vals kv.2) + acc) 0 l) as H.
  { induction l as [|x l [IH0 IH]]; cbn [foldr]; [split; [lia | intros kv Hkv; inversion Hkv]|].
    pose proof (len_nonneg (t_vals x.2)). split; [lia|].
    intros kv Hkv. apply elem_of_cons in Hkv as [->|Hkv]; [lia | specialize (IH kv Hkv); lia]. }
  destruct (H (map_to_list (timers m))) as [H0 H1]. split; [exact H0|].
  intros k t Hk. apply elem_of_map_to_list in Hk. exact (H1 (k, t) Hk).
Qed.

Lemma op_values_nonneg o : 0 <= op_values o.
Proof. destruct o; cbn; [apply mm_values_bound | lia | lia]. Qed.
Lemma ops_values_nonneg ops : 0 <= ops_values ops.
Proof. induction ops as [|o r IH]; cbn; [lia | pose proof (op_values_nonneg o); unfold ops_values in IH; lia]. Qed.

Section Safety.
  Variable pf : str -> option bound.
  Variable rank : Z -> Z -> Z.
  Variable cfg : aconfig.

  (* configurations the server accepts *)
  Definition acfg_ok : Prop := Forall (fun p => -100 <= p <= 100) (ak_pcts cfg) /\ 0 <= ak_limit cfg.

  Definition safe (b : Z) (a : agg) : Prop :=
    forall k t, a_timers a !! k = Some t -> len (t_values (at_t t)) <= b /\ timer_ok (at_t t).

  Lemma safe_mono b b' a : b <= b' -> safe b a -> safe b' a.
  Proof. intros Hb H k t Hk. destruct (H k t Hk). split; [lia | assumption]. Qed.

  Lemma len_qvals l : len (qvals l) = len l.
  Proof. unfold len, qvals. rewrite fmap_length. reflexivity. Qed.

  Lemma receive_safe b a m : 0 <= b -> safe b a -> safe (b + mm_values m) (receive_map a m).
  Proof.
    intros Hb Ha k t Hk. rewrite merge_atimer_lookup in Hk.
    destruct (mm_values_bound m) as [Hm0 Hm].
    destruct (a_timers a !! k) as [x|] eqn:Ex, (timers m !! k) as [y|] eqn:Ey; cbn in Hk; try discriminate; injection Hk as <-.
    - destruct (Ha k x Ex) as [H1 H2]. specialize (Hm k y Ey). cbn [at_t merge_stats t_values t_pcts t_hist].
      split; [rewrite len_app, len_qvals; lia|]. destruct H2. split; assumption.
    - destruct (Ha k x Ex). split; [lia | assumption].
    - specialize (Hm k y Ey). cbn [at_t Stats.fresh t_values]. split; [rewrite len_qvals; lia|].
      split; [constructor | exact I].
  Qed.

  Lemma flush_safe bound b dt a :
    rank_ok rank bound -> acfg_ok -> b < bound -> safe b a ->
    exists a', flush pf rank cfg dt a = Ok a' /\ safe b a'.
  Proof.
    intros Hr Hc Hb Ha.
    assert (forall k t, a_timers a !! k = Some t ->
              exists t', Stats.flush_timer qc_ops pf rank false (stats_config cfg dt) (at_t t) = Ok t'
                         /\ len (t_values t') = len (t_values (at_t t)) /\ timer_ok t') as Hall.
    { intros k t Hk. destruct (Ha k t Hk) as [H1 H2].
      destruct (flush_timer_ok qc_ops pf rank qsort_len bound (stats_config cfg dt) (at_t t) Hr Hc ltac:(lia) H2)
        as (t' & Ht' & _ & Hlen & Hok). eauto. }
    destruct (flush pf rank cfg dt a) as [a'|] eqn:E.
    - exists a'. split; [reflexivity|]. intros k t' Hk.
      apply (flush_timer_part pf rank cfg dt a a' k t' E) in Hk as (t & Ht & Hf & _).
      destruct (Hall k t Ht) as (s & Hs & Hlen & Hok). rewrite Hs in Hf. injection Hf as <-.
      destruct (Ha k t Ht). split; [lia | exact Hok].
    - exfalso. apply flush_panic_iff in E as (k & t & Ht & Hp).
      destruct (Hall k t Ht) as (s & Hs & _). congruence.
  Qed.

  Lemma reset_safe now a : acfg_ok -> exists a', reset pf cfg now a = Ok a' /\ safe 0 a'.
  Proof.
    intros [_ Hl].
    assert (forall t, exists t', reset_atimer pf cfg t = Ok t' /\ len (t_values (at_t t')) = 0 /\ timer_ok (at_t t')) as Hall.
    { intros t. rewrite reset_atimer_shape.
      destruct (has_histogram_tag (Stats.t_tags (at_t t))).
      - destruct (empty_histogram_ok pf (Stats.t_tags (at_t t)) (ak_limit cfg) Hl) as [h Hh]. rewrite Hh. cbn [bind].
        eexists. split; [reflexivity|]. cbn. split; [reflexivity|]. split; [constructor|].
        eapply empty_histogram_hist_ok; exact Hh.
      - cbn [bind]. eexists. split; [reflexivity|]. cbn. split; [reflexivity|]. split; [constructor | exact I]. }
    unfold reset.
    destruct (seq_map_fmap_all_ok (reset_atimer pf cfg) (omap (live_timer cfg now) (a_timers a))) as [ts Hts].
    { intros k x _. destruct (Hall x) as (t' & Ht' & _). eauto. }
    rewrite Hts. cbn [bind]. eexists. split; [reflexivity|]. intros k t' Hk. cbn [a_timers] in Hk.
    apply (seq_map_fmap_Some _ _ _ k t' Hts) in Hk as (t & _ & Hr).
    destruct (Hall t) as (s & Hs & Hlen & Hok). rewrite Hs in Hr. injection Hr as <-. split; [lia | exact Hok].
  Qed.

  Lemma astep_safe bound b a o :
    rank_ok rank bound -> acfg_ok -> 0 <= b -> b + op_values o < bound -> safe b a ->
    exists a', astep pf rank cfg a o = Ok a' /\ safe (b + op_values o) a'.
  Proof.
    intros Hr Hc Hb0 Hb Ha. destruct o as [m|dt|now]; cbn [astep op_values] in *.
    - eexists. split; [reflexivity|]. apply receive_safe; assumption.
    - rewrite Z.add_0_r in *. apply (flush_safe bound); assumption.
    - rewrite Z.add_0_r. destruct (reset_safe now a Hc) as (a' & -> & H). eexists. split; [reflexivity|].
      apply (safe_mono 0); [lia | exact H].
  Qed.

  Lemma arun_from_safe bound ops : forall b a,
    rank_ok rank bound -> acfg_ok -> 0 <= b -> b + ops_values ops < bound -> safe b a ->
    exists a', foldM (astep pf rank cfg) a ops = Ok a' /\ safe (b + ops_values ops) a'.
  Proof.
    induction ops as [|o r IH]; intros b a Hr Hc Hb0 Hb Ha; cbn [foldM ops_values foldr] in *.
    - rewrite Z.add_0_r. eauto.
    - pose proof (op_values_nonneg o). pose proof (ops_values_nonneg r) as Hn. unfold ops_values in Hn.
      destruct (astep_safe bound b a o Hr Hc Hb0 ltac:(lia) Ha) as (a1 & -> & Ha1). cbn [bind].
      destruct (IH (b + op_values o) a1 Hr Hc ltac:(lia)) as (a' & Ha' & Hok); [unfold ops_values; lia | exact Ha1|].
      exists a'. split; [exact Ha'|]. unfold ops_values in Hok. rewrite Z.add_assoc. exact Hok.
  Qed.

  (* every history from the empty aggregator runs without Panic, and a Flush of the state it
     reaches does not panic either *)
  Theorem aggregator_never_panics bound ops dt :
    rank_ok rank bound -> acfg_ok -> ops_values ops < bound ->
    exists a, arun pf rank cfg ops = Ok a /\ exists a', flush pf rank cfg dt a = Ok a'.
  Proof.
    intros Hr Hc Hb. pose proof (ops_values_nonneg ops).
    assert (safe 0 agg_empty) as H0 by (intros k t Hk; cbn in Hk; rewrite lookup_empty in Hk; discriminate).
    assert (0 + ops_values ops < bound) as Hb' by lia.
    destruct (arun_from_safe bound ops 0 agg_empty Hr Hc (Z.le_refl 0) Hb' H0) as (a & Ha & Hs).
    exists a. split; [exact Ha|]. destruct (flush_safe bound (0 + ops_values ops) dt a Hr Hc Hb' Hs) as (a' & Ha' & _). eauto.
  Qed.
End Safety.
