(* The reference line-protocol reader (Model/InfluxLine.v) reads every line the InfluxDB backend
   model prints back to the series it was printed from -- exactly under [ipre_ok]. *)
From Coq Require Import Lia ZifyBool ZifyNat ZifyN.
From GS Require Import Base.Bytes Model.Batching Model.InfluxEsc Model.InfluxLine.
From GS Require Import Proofs.InfluxEsc Proofs.RelayEvent.
Local Open Scope N_scope.
Arguments N.mul : simpl never.
Arguments N.add : simpl never.
Arguments N.sub : simpl never.

(* ---------------------------------------------------------------------------------------- *)
(* escapers *)

Lemma escape_with_app sp a b : escape_with sp (a ++ b) = escape_with sp a ++ escape_with sp b.
Proof.
  induction a as [|ch a IH]; [reflexivity|]. cbn [app escape_with]. rewrite IH.
  destruct (ch =? c_nl); [reflexivity|]. destruct (ch =? c_cr); [reflexivity|].
  destruct (ch =? c_tab); [reflexivity|]. destruct (sp ch); reflexivity.
Qed.
Lemma escape_with_nonempty sp s : s <> [] -> escape_with sp s <> [].
Proof.
  destruct s as [|ch s]; [congruence|]. intros _. cbn [escape_with].
  destruct (ch =? c_nl); [discriminate|]. destruct (ch =? c_cr); [discriminate|].
  destruct (ch =? c_tab); [discriminate|]. destruct (sp ch); discriminate.
Qed.
Lemma escape_tag_uu : escape_tag s_uu = s_uu.
Proof. reflexivity. Qed.
Lemma escape_tag_join vs : escape_tag (join_str s_uu vs) = join_str s_uu (map escape_tag vs).
Proof.
  induction vs as [|v vs IH]; [reflexivity|]. destruct vs as [|v2 vs]; [reflexivity|].
  change (join_str s_uu (v :: v2 :: vs)) with (v ++ s_uu ++ join_str s_uu (v2 :: vs)).
  unfold escape_tag in *. rewrite !escape_with_app, IH. reflexivity.
Qed.
(* the first byte of an escaped text is a backslash or the first byte of the text *)
Lemma escape_with_head sp ch s : exists r, escape_with sp (ch :: s) = c_bslash :: r \/ escape_with sp (ch :: s) = ch :: r.
Proof.
  cbn [escape_with]. destruct (ch =? c_nl); [eexists; left; reflexivity|].
  destruct (ch =? c_cr); [eexists; left; reflexivity|]. destruct (ch =? c_tab); [eexists; left; reflexivity|].
  destruct (sp ch); eexists; [left | right]; reflexivity.
Qed.

(* ---------------------------------------------------------------------------------------- *)
(* scanning *)

Lemma scan_escape sp stop :
  sp c_bslash = true -> (forall ch, stop ch = true -> sp ch = true) ->
  forall s c rest, stop c = true -> c <> c_bslash ->
  scan stop (escape_with sp s ++ c :: rest) = (escape_with sp s, c :: rest).
Proof.
  intros Hb Hst s c rest Hc Hcb. induction s as [|ch s IH].
  - cbn [escape_with app scan]. destruct (N.eqb_spec c c_bslash); [contradiction|]. now rewrite Hc.
  - cbn [escape_with].
    destruct (ch =? c_nl); [cbn [app scan]; change (c_bslash =? c_bslash) with true; cbn iota; now rewrite IH|].
    destruct (ch =? c_cr); [cbn [app scan]; change (c_bslash =? c_bslash) with true; cbn iota; now rewrite IH|].
    destruct (ch =? c_tab); [cbn [app scan]; change (c_bslash =? c_bslash) with true; cbn iota; now rewrite IH|].
    destruct (sp ch) eqn:E.
    + cbn [app scan]. change (c_bslash =? c_bslash) with true. cbn iota. now rewrite IH.
    + cbn [app scan]. destruct (N.eqb_spec ch c_bslash) as [->|_]; [congruence|].
      destruct (stop ch) eqn:S; [rewrite (Hst _ S) in E; discriminate|]. now rewrite IH.
Qed.

Lemma scan_plain_ok stop v c r : forallb (fun b => negb (stop b)) v = true -> stop c = true ->
  scan_plain stop (v ++ c :: r) = (v, c :: r).
Proof.
  intros Hv Hc. induction v as [|b v IH]; cbn [app scan_plain]; [now rewrite Hc|].
  cbn [forallb] in Hv. apply andb_prop in Hv. destruct Hv as [Hb Hv].
  destruct (stop b); [discriminate|]. now rewrite (IH Hv).
Qed.

(* a field key without separators and backslashes is scanned whole and decodes to itself *)
Lemma scan_key k c r : forallb (fun b => negb (stop_tag b) && negb (b =? c_bslash)) k = true ->
  stop_tag c = true -> c <> c_bslash ->
  scan stop_tag (k ++ c :: r) = (k, c :: r) /\ unescape_tag k = k.
Proof.
  intros Hk Hc Hcb. induction k as [|b k IH].
  - cbn [app scan]. destruct (N.eqb_spec c c_bslash); [contradiction|]. rewrite Hc. now split.
  - cbn [forallb] in Hk. apply andb_prop in Hk. destruct Hk as [Hb Hk]. destruct (IH Hk) as [I1 I2].
    apply andb_prop in Hb. destruct Hb as [Hb1 Hb2]. apply negb_true_iff in Hb1, Hb2.
    cbn [app scan]. unfold unescape_tag in *. cbn [unescape_nt]. rewrite Hb2, Hb1, I1, I2. now split.
Qed.

(* ---------------------------------------------------------------------------------------- *)
(* numbers *)

Lemma num_step_no_stop st b st' : num_step st b = Some st' -> stop_meas b = false /\ (b =? c_nl) = false.
Proof.
  intros H. destruct (stop_meas b || (b =? c_nl)) eqn:E.
  - exfalso. assert (Hb : b = 44 \/ b = 32 \/ b = 10) by (unfold stop_meas, c_comma, c_space, c_nl in E; lia).
    destruct Hb as [->|[->| ->]]; destruct st; discriminate H.
  - apply orb_false_elim in E. exact E.
Qed.
Lemma num_run_no_stop v : forall st, num_run st v = true -> forallb (fun b => negb (stop_meas b)) v = true.
Proof.
  induction v as [|b v IH]; intros st H; [reflexivity|]. cbn [num_run] in H.
  destruct (num_step st b) as [st'|] eqn:E; [|discriminate].
  cbn [forallb]. rewrite (proj1 (num_step_no_stop _ _ _ E)). cbn. exact (IH _ H).
Qed.

Lemma digits_num_run ds : Forall (fun k => k < 10) ds -> num_run NInt (map (N.add 48) ds) = true.
Proof.
  induction 1 as [|k ds Hk _ IH]; [reflexivity|]. cbn [map num_run num_step].
  assert (is_digit (48 + k) = true) as -> by (unfold is_digit, c_0, c_9; lia). exact IH.
Qed.
Lemma dec_N_number n : num_run NInt (dec_N n) = true /\ exists k ds, dec_N n = (48 + k) :: map (N.add 48) ds /\ k < 10
                                                     /\ Forall (fun k => k < 10) ds.
Proof.
  unfold dec_N. rewrite uint_bytes_digits. pose proof (uint_digits_lt (N.to_uint n)) as H.
  pose proof (dec_N_nonempty n) as Hne. destruct (uint_digits (N.to_uint n)) as [|k ds]; [congruence|].
  split; [apply digits_num_run; exact H|]. inversion H; subst. exists k, ds. repeat split; assumption.
Qed.
Lemma dec_Z_number z : is_number_lit (dec_Z z) = true.
Proof.
  unfold is_number_lit. destruct z as [|p|p]; cbn [dec_Z].
  - reflexivity.
  - destruct (dec_N_number (Z.to_N (Z.pos p))) as [_ (k & ds & E & Hk & Hds)]. rewrite E.
    cbn [num_run num_step]. replace (is_sign (48 + k)) with false by (unfold is_sign, c_dash; lia).
    assert (is_digit (48 + k) = true) as -> by (unfold is_digit, c_0, c_9; lia).
    apply digits_num_run. exact Hds.
  - cbn [num_run num_step]. change (is_sign c_dash) with true. cbn iota.
    destruct (dec_N_number (N.pos p)) as [_ (k & ds & E & Hk & Hds)]. rewrite E.
    cbn [num_run num_step]. assert (is_digit (48 + k) = true) as -> by (unfold is_digit, c_0, c_9; lia).
    apply digits_num_run. exact Hds.
Qed.

Lemma read_digits_horner ds : Forall (fun k => k < 10) ds -> forall acc,
  read_digits acc (map (N.add 48) ds) = Some (horner ds acc).
Proof.
  induction 1 as [|k ds Hk _ IH]; intros acc; [reflexivity|]. cbn [map read_digits].
  assert (is_digit (48 + k) = true) as -> by (unfold is_digit, c_0, c_9; lia).
  replace (48 + k - c_0) with k by (unfold c_0; lia). rewrite IH. reflexivity.
Qed.
Lemma read_nat_dec n : read_nat (dec_N n) = Some n.
Proof.
  destruct (dec_N_number n) as [_ (k & ds & E & Hk & Hds)]. unfold read_nat. rewrite E.
  change ((48 + k) :: map (N.add 48) ds) with (map (N.add 48) (k :: ds)).
  rewrite read_digits_horner by (constructor; assumption).
  f_equal. pose proof (horner_dec n) as H. unfold dec_N in E. rewrite uint_bytes_digits in E.
  change ((48 + k) :: map (N.add 48) ds) with (map (N.add 48) (k :: ds)) in E.
  assert (Hinj : forall a b : list N, map (N.add 48) a = map (N.add 48) b -> a = b).
  { induction a as [|x a IHa]; intros [|y b] Hm; try discriminate; [reflexivity|].
    cbn in Hm. injection Hm as H1 H2. f_equal; [lia | auto]. }
  rewrite (Hinj _ _ E) in H. exact H.
Qed.
Lemma read_int_dec z : read_int (dec_Z z) = Some z.
Proof.
  destruct z as [|p|p]; cbn [dec_Z].
  - reflexivity.
  - destruct (dec_N_number (Z.to_N (Z.pos p))) as [_ (k & ds & E & Hk & _)].
    unfold read_int. pose proof (read_nat_dec (Z.to_N (Z.pos p))) as R. rewrite E in *.
    replace (48 + k =? c_dash) with false by (unfold c_dash; lia). rewrite R. f_equal.
  - unfold read_int. change (c_dash =? c_dash) with true. cbn iota. rewrite read_nat_dec. reflexivity.
Qed.
Lemma digits_no_nl ds : Forall (fun k => k < 10) ds ->
  forallb (fun b => negb (c_nl =? b)) (map (N.add 48) ds) = true.
Proof.
  induction 1 as [|x l Hx _ IH]; [reflexivity|]. cbn [map forallb].
  assert ((c_nl =? 48 + x) = false) as -> by (unfold c_nl; lia). exact IH.
Qed.
Lemma dec_Z_no_nl z : forallb (fun b => negb (c_nl =? b)) (dec_Z z) = true.
Proof.
  assert (H : forall n, forallb (fun b => negb (c_nl =? b)) (dec_N n) = true).
  { intros n. destruct (dec_N_number n) as [_ (k & ds & E & Hk & Hds)]. rewrite E.
    change ((48 + k) :: map (N.add 48) ds) with (map (N.add 48) (k :: ds)).
    apply digits_no_nl. constructor; assumption. }
  destruct z; cbn [dec_Z]; [reflexivity | apply H |].
  cbn [forallb]. rewrite H. reflexivity.
Qed.

(* ---------------------------------------------------------------------------------------- *)
(* tag set *)

Definition render_group (kv : str * list str) : str :=
  c_comma :: escape_tag (fst kv) ++ c_eq :: escape_tag (join_str s_uu (snd kv)).
Definition group_ok (kv : str * list str) : Prop := fst kv <> [] /\ join_str s_uu (snd kv) <> [].
Definition dec_group (kv : str * list str) : str * str := (fst kv, join_str s_uu (snd kv)).

Lemma tag_special_stop ch : stop_tag ch = true -> tag_special ch = true.
Proof. unfold stop_tag, tag_special. intros H. apply orb_true_iff in H. destruct H as [H|H].
  - apply orb_true_iff in H. destruct H as [H|H]; rewrite H; now rewrite ?orb_true_r.
  - rewrite H. now rewrite ?orb_true_r.
Qed.

Lemma parse_tags_groups groups : Forall group_ok groups -> forall fuel rest, (length groups <= fuel)%nat ->
  parse_tags true fuel (concat (map render_group groups) ++ c_space :: rest) = Some (map dec_group groups, rest).
Proof.
  induction groups as [|[k vs] gs IH]; intros Hok fuel rest Hf.
  - cbn [map concat app]. destruct fuel; reflexivity.
  - inversion Hok as [|? ? [Hk Hv] Hgs]; subst. cbn [fst snd] in Hk, Hv.
    destruct fuel as [|f]; [cbn in Hf; lia|].
    cbn [map concat]. unfold render_group at 1. cbn [fst snd]. rewrite <- !app_assoc. cbn [app parse_tags].
    change (c_comma =? c_space) with false. change (c_comma =? c_comma) with true. cbn iota.
    rewrite <- app_assoc. cbn [app].
    unfold escape_tag at 1. rewrite (scan_escape tag_special stop_tag eq_refl tag_special_stop k c_eq _ eq_refl ltac:(discriminate)).
    change (c_eq =? c_eq) with true. cbn iota.
    assert (Hnext : exists c r', concat (map render_group gs) ++ c_space :: rest = c :: r' /\ stop_tag c = true /\ c <> c_bslash).
    { destruct gs as [|g gs']; [exists c_space, rest | exists c_comma; eexists]; repeat split; try reflexivity; discriminate. }
    destruct Hnext as (c & r' & E & Hc & Hcb). rewrite E.
    unfold escape_tag at 1. rewrite (scan_escape tag_special stop_tag eq_refl tag_special_stop _ c r' Hc Hcb).
    fold escape_tag.
    assert (is_nil (escape_tag k) = false) as -> by (pose proof (escape_with_nonempty tag_special k Hk); unfold escape_tag; destruct (escape_with tag_special k); [congruence | reflexivity]).
    assert (is_nil (escape_tag (join_str s_uu vs)) = false) as ->
      by (pose proof (escape_with_nonempty tag_special _ Hv); unfold escape_tag; destruct (escape_with tag_special (join_str s_uu vs)); [congruence | reflexivity]).
    cbn [orb andb]. rewrite <- E. rewrite (IH Hgs f rest) by (cbn in Hf; lia).
    rewrite !unescape_escape_tag. reflexivity.
Qed.

(* ---------------------------------------------------------------------------------------- *)
(* field set *)

Definition render_field (f : str * str) : str := fst f ++ c_eq :: snd f.
Definition field_ok (f : str * str) : Prop := field_key_ok (fst f) = true /\ is_number_lit (snd f) = true.

Lemma parse_fields_ok fields : fields <> [] -> Forall field_ok fields -> forall fuel rest, (length fields <= fuel)%nat ->
  parse_fields true fuel (join c_comma (map render_field fields) ++ c_space :: rest) = Some (fields, rest).
Proof.
  induction fields as [|[k v] fs IH]; intros Hne Hok fuel rest Hf; [congruence|].
  inversion Hok as [|? ? [Hk Hv] Hfs]; subst. cbn [fst snd] in Hk, Hv.
  destruct fuel as [|f]; [cbn in Hf; lia|].
  unfold field_key_ok in Hk. apply andb_prop in Hk. destruct Hk as [Hknil Hkb].
  pose proof (num_run_no_stop _ _ Hv) as Hvs.
  assert (Hshape : exists c tail, join c_comma (map render_field ((k, v) :: fs)) ++ c_space :: rest
                                  = k ++ c_eq :: (v ++ c :: tail)
                                  /\ ((c = c_space /\ fs = [] /\ tail = rest)
                                      \/ (c = c_comma /\ fs <> [] /\ tail = join c_comma (map render_field fs) ++ c_space :: rest))).
  { destruct fs as [|f2 fs'].
    - exists c_space, rest. split; [|left; repeat split].
      cbn [map join]. unfold render_field. cbn [fst snd]. rewrite <- app_assoc. reflexivity.
    - exists c_comma. eexists. split; [|right; split; [reflexivity | split; [discriminate | reflexivity]]].
      change (join c_comma (map render_field ((k, v) :: f2 :: fs')))
        with (render_field (k, v) ++ c_comma :: join c_comma (map render_field (f2 :: fs'))).
      unfold render_field at 1. cbn [fst snd]. rewrite <- !app_assoc. reflexivity. }
  destruct Hshape as (c & tail & E & Hcase). rewrite E. cbn [parse_fields].
  destruct (scan_key k c_eq (v ++ c :: tail) Hkb eq_refl ltac:(discriminate)) as [S1 U1]. rewrite S1.
  change (c_eq =? c_eq) with true. cbn iota.
  assert (Hc : stop_meas c = true) by (destruct Hcase as [[-> _]|[-> _]]; reflexivity).
  rewrite (scan_plain_ok stop_meas v c tail Hvs Hc).
  assert (is_nil k = false) as -> by (destruct k; [discriminate | reflexivity]).
  rewrite Hv. cbn [negb andb]. rewrite U1.
  destruct Hcase as [(-> & -> & ->)|(-> & Hfs' & ->)].
  - reflexivity.
  - change (c_comma =? c_comma) with true. cbn iota.
    rewrite (IH Hfs' Hfs f rest) by (cbn in Hf; lia). reflexivity.
Qed.

(* ---------------------------------------------------------------------------------------- *)
(* the whole line *)

Lemma concat_length_ge {A B} (f : A -> list B) l : (forall x, f x <> []) -> (length l <= length (concat (map f l)))%nat.
Proof.
  intros Hf. induction l as [|x l IH]; [cbn; lia|]. cbn [map concat length]. rewrite app_length.
  specialize (Hf x). destruct (f x); [congruence | cbn [length]; lia].
Qed.
Lemma join_length_ge sep (l : list str) : (forall x, In x l -> x <> []) -> (length l <= length (join sep l))%nat.
Proof.
  induction l as [|x l IH]; intros H; [cbn; lia|].
  assert (Hx : (1 <= length x)%nat) by (specialize (H x (or_introl eq_refl)); destruct x; [congruence | cbn; lia]).
  destruct l as [|y l]; [cbn [join length]; lia|].
  change (join sep (x :: y :: l)) with (x ++ sep :: join sep (y :: l)). rewrite app_length. cbn [length].
  specialize (IH (fun z Hz => H z (or_intror Hz))). cbn [length] in *. lia.
Qed.

Lemma le_mid (a b c x : nat) : (x <= b -> x <= a + (b + c))%nat.
Proof. lia. Qed.

Lemma le_mid2 (a b d e x : nat) : (x <= d -> x <= a + (b + S (d + e)))%nat.
Proof. lia. Qed.

Lemma format_name_tags_groups name tags :
  format_name_tags name tags = escape_name name ++ concat (map render_group (influx_groups tags)) ++ [c_space].
Proof.
  unfold format_name_tags. f_equal. f_equal. f_equal. apply map_ext. intros [k vs]. unfold render_group. cbn [fst snd].
  now rewrite escape_tag_join.
Qed.

Lemma influx_line_roundtrip now p : ipre_ok p -> influx_parse (influx_print now p) = Some (lp_of now p).
Proof.
  destruct p as [[name tags] fields]. intros (Hname & Hgroups & Hfne & Hfields).
  destruct name as [|b name']; [contradiction|].
  set (groups := influx_groups tags) in *.
  set (tail := join c_comma (map render_field fields) ++ c_space :: dec_Z now ++ [c_nl]).
  set (line := escape_name (b :: name') ++ (concat (map render_group groups) ++ c_space :: tail)).
  assert (Eprint : influx_print now (b :: name', tags, fields) = line).
  { unfold influx_print, line, tail, groups. rewrite format_name_tags_groups. rewrite <- !app_assoc. reflexivity. }
  match goal with |- influx_parse ?x = _ => replace x with line by (symmetry; exact Eprint) end.
  unfold lp_of. fold groups.
  assert (Hhead : exists h r, line = h :: r /\ h <> c_hash).
  { unfold line, escape_name. destruct (escape_with_head name_special b name') as [r [E|E]]; rewrite E;
      eexists; eexists; (split; [reflexivity|]); [discriminate | exact Hname]. }
  destruct Hhead as (h & hr & Eline & Hh).
  unfold influx_parse, influx_parse_gen. rewrite Eline at 1. destruct (N.eqb_spec h c_hash); [contradiction|].
  (* measurement *)
  assert (Hnext : exists c r', concat (map render_group groups) ++ c_space :: tail = c :: r' /\ stop_meas c = true /\ c <> c_bslash).
  { destruct groups as [|g gs]; [exists c_space, tail | exists c_comma; eexists]; repeat split; try reflexivity; discriminate. }
  destruct Hnext as (c & r' & E & Hc & Hcb).
  assert (Hsm : forall ch, stop_meas ch = true -> name_special ch = true).
  { intros ch H. unfold stop_meas, name_special in *. apply orb_true_iff in H. destruct H as [H|H]; rewrite H; now rewrite ?orb_true_r. }
  unfold line at 1. rewrite E. unfold escape_name at 1.
  rewrite (scan_escape name_special stop_meas eq_refl Hsm (b :: name') c r' Hc Hcb). fold escape_name.
  assert (is_nil (escape_name (b :: name')) = false) as ->.
  { pose proof (escape_with_nonempty name_special (b :: name') ltac:(discriminate)) as H.
    unfold escape_name. destruct (escape_with name_special (b :: name')); [congruence | reflexivity]. }
  rewrite <- E.
  (* tags *)
  assert (Hlen1 : (length groups <= length line)%nat).
  { unfold line. rewrite !app_length. apply le_mid. apply concat_length_ge. intros x; discriminate. }
  rewrite (parse_tags_groups groups Hgroups (length line) tail Hlen1).
  (* fields *)
  assert (Hlen2 : (length fields <= length line)%nat).
  { unfold line, tail. rewrite !app_length. cbn [length]. rewrite !app_length.
    assert (length fields <= length (join c_comma (map render_field fields)))%nat.
    { rewrite <- (map_length render_field fields) at 1.
      apply join_length_ge. intros x Hx. apply in_map_iff in Hx. destruct Hx as (f & <- & _).
      unfold render_field. destruct (fst f); discriminate. }
    apply le_mid2. exact H. }
  unfold tail at 1.
  rewrite (parse_fields_ok fields Hfne Hfields (length line) (dec_Z now ++ [c_nl]) Hlen2).
  (* timestamp *)
  rewrite (scan_plain_ok (N.eqb c_nl) (dec_Z now) c_nl [] (dec_Z_no_nl now) eq_refl).
  rewrite read_int_dec. unfold escape_name. rewrite unescape_escape_name. reflexivity.
Qed.

(* ---------------------------------------------------------------------------------------- *)
(* the side conditions in terms of the tags; C17's alphabets *)

(* every group of influx_groups comes from a tag: a non-empty key and non-empty values suffice *)
Lemma join_uu_nonempty vs : vs <> [] -> Forall (fun v => v <> []) vs -> join_str s_uu vs <> [].
Proof.
  intros Hne H. destruct vs as [|v vs]; [congruence|]. inversion H; subst.
  destruct vs; cbn [join_str]; [assumption|]. destruct v; [congruence | discriminate].
Qed.
Lemma grp_insert_ok k v m : k <> [] -> v <> [] ->
  Forall (fun kv => fst kv <> [] /\ snd kv <> [] /\ Forall (fun x => x <> []) (snd kv)) m ->
  Forall (fun kv => fst kv <> [] /\ snd kv <> [] /\ Forall (fun x => x <> []) (snd kv)) (grp_insert k v m).
Proof.
  intros Hk Hv. induction m as [|[k' vs] m IH]; intros H; cbn [grp_insert].
  - repeat constructor; cbn; try assumption; discriminate.
  - inversion H as [|? ? (H1 & H2 & H3) Hm]; subst. cbn [fst snd] in *.
    destruct (str_eqb k k').
    + constructor; [|assumption]. cbn [fst snd]. repeat split; [assumption | |].
      * destruct vs; cbn; [discriminate|]. destruct (Series.str_leb v l); discriminate.
      * clear -Hv H3. induction vs as [|x vs IHv]; cbn; [repeat constructor; assumption|].
        inversion H3; subst. destruct (Series.str_leb v x); constructor; auto.
    + destruct (Series.str_leb k k').
      * constructor; [cbn; repeat split; [assumption | discriminate | repeat constructor; assumption]|]. exact H.
      * constructor; [cbn; repeat split; assumption | apply IH; assumption].
Qed.
Lemma influx_groups_ok tags :
  Forall (fun t => fst (influx_split t) <> [] /\ snd (influx_split t) <> []) tags ->
  Forall (fun kv => fst kv <> [] /\ join_str s_uu (snd kv) <> []) (influx_groups tags).
Proof.
  intros H.
  assert (G : forall m, Forall (fun kv => fst kv <> [] /\ snd kv <> [] /\ Forall (fun x => x <> []) (snd kv)) m ->
              Forall (fun kv => fst kv <> [] /\ snd kv <> [] /\ Forall (fun x => x <> []) (snd kv))
                     (fold_left (fun m t => let kv := influx_split t in grp_insert (fst kv) (snd kv) m) tags m)).
  { induction H as [|t tags [H1 H2] _ IH]; intros m Hm; [exact Hm|]. cbn [fold_left]. apply IH. apply grp_insert_ok; assumption. }
  unfold influx_groups. eapply Forall_impl; [|apply (G [] ltac:(constructor))].
  intros [k vs] (A & B & C). cbn [fst snd] in *. split; [exact A | apply join_uu_nonempty; assumption].
Qed.

(* F5: without the side condition the line does not parse *)
Example influx_empty_tag_value_rejected :
  influx_parse (influx_print 1 ([97], [[107; 58]], [([99], [53])])) = None      (* a:5|c|#k:  ->  "a,k= c=5 1\n" *)
  /\ influx_parse (influx_print 1 ([97], [[58; 118]], [([99], [53])])) = None   (* #:v  ->  "a,=v c=5 1\n" *)
  /\ influx_parse (influx_print 1 ([97], [[107; 58; 118]], [([99], [53])]))
     = Some (MkLP [97] [([107], [118])] [([99], [53])] 1).
Proof. repeat split; vm_compute; reflexivity. Qed.
(* F4: nor when a value is not a number literal *)
Example influx_nonfinite_rejected :
  influx_parse (influx_print 1 ([97], [], [([118], [43; 73; 110; 102])])) = None.   (* "a v=+Inf 1\n" *)
Proof. vm_compute. reflexivity. Qed.
(* non-vacuity: names and tags full of separators *)
Example influx_roundtrip_sample :
  let p : ipre := ([97; 32; 44; 92; 10; 61], [[107; 32; 58; 118; 44; 61]; [122]; [107; 32; 58; 97]],
                   [(n_count, dec_Z (-5)); (n_rate, [49; 101; 43; 50; 49])]) in
  ipre_ok p /\ influx_parse (influx_print 1700000000 p) = Some (lp_of 1700000000 p).
Proof.
  cbn zeta. split; [|vm_compute; reflexivity].
  split; [discriminate|]. split; [|split; [discriminate|]].
  - vm_compute. repeat constructor; discriminate.
  - repeat constructor.
Qed.
