(* C03: the lexer model never reaches a Go panic.  Lemmas about Model/Lexer.v (frozen) and the
   refutation of the pre-fix event-body test (Model/LexerLegacy.v, Lexer.lex_legacy). *)
From Coq Require Import Lia.
From GS Require Import Base.Bytes Model.Lexer Model.LexerLegacy.
Local Open Scope N_scope.

(* ---------------------------------------------------------------------------------------- *)
(* metric lines: no partial operation at all *)

Lemma lex_key_sep_no_pan l : lex_key_sep l <> Pan.
Proof.
  induction l as [|b r IH]; cbn [lex_key_sep]; [discriminate|].
  destruct (b =? c_colon); [discriminate|].
  destruct (b =? c_nul); [discriminate|].
  destruct (lex_key_sep r) as [[k r']| |]; congruence.
Qed.

Lemma lex_value_sep_no_pan l : lex_value_sep l <> Pan.
Proof.
  induction l as [|b r IH]; cbn [lex_value_sep]; [discriminate|].
  destruct (b =? c_pipe); [discriminate|].
  destruct (b =? c_nul); [discriminate|].
  destruct (lex_value_sep r) as [[k r']| |]; congruence.
Qed.

Lemma lex_type_no_pan l : lex_type l <> Pan.
Proof.
  unfold lex_type. destruct l as [|b r]; [discriminate|].
  destruct (b =? c_c); [discriminate|].
  destruct (b =? c_g); [discriminate|].
  destruct (b =? c_m).
  - destruct r as [|b2 r2]; [discriminate|]. destruct (b2 =? c_s); discriminate.
  - destruct (b =? c_h); [discriminate|]. destruct (b =? c_s); discriminate.
Qed.

Lemma parse_rate_no_pan pf s : parse_rate pf s <> Pan.
Proof. unfold parse_rate. destruct (pf s); discriminate. Qed.

Lemma lex_mattrs_no_pan pf l : forall st rate tags, lex_mattrs pf st rate tags l <> Pan.
Proof.
  induction l as [|b r IH]; intros st rate tags; cbn [lex_mattrs].
  - destruct st; try discriminate.
    pose proof (parse_rate_no_pan pf (rev acc)) as Hp.
    destruct (parse_rate pf (rev acc)); congruence.
  - destruct st.
    + destruct (b =? c_pipe); [apply IH|]. destruct (b =? c_nul); discriminate.
    + destruct (b =? c_at); [apply IH|]. destruct (b =? c_hash); apply IH.
    + destruct (b =? c_pipe); [|apply IH].
      pose proof (parse_rate_no_pan pf (rev acc)) as Hp.
      destruct (parse_rate pf (rev acc)); [apply IH|discriminate|congruence].
    + destruct (b =? c_comma); [apply IH|]. destruct (b =? c_pipe); [apply IH|].
      destruct (b =? c_nul); apply IH.
    + destruct (b =? c_pipe); apply IH.
Qed.

Lemma finish_metric_no_panic pf name ty val rate tags :
  finish_metric pf name ty val rate tags <> OPanic.
Proof.
  unfold finish_metric. destruct (negb (f64_finite_pos rate)); [discriminate|].
  destruct ty; try discriminate; destruct (pf val); try discriminate;
    destruct (f64_is_nan bits); discriminate.
Qed.

Lemma lex_metric_no_panic pf ns l : lex_metric pf ns l <> OPanic.
Proof.
  unfold lex_metric.
  pose proof (lex_key_sep_no_pan l) as H1.
  destruct (lex_key_sep l) as [[key r1]| |]; try congruence; try discriminate.
  destruct key as [|k0 key]; [discriminate|].
  pose proof (lex_value_sep_no_pan r1) as H2.
  destruct (lex_value_sep r1) as [[val r2]| |]; try congruence; try discriminate.
  pose proof (lex_type_no_pan r2) as H3.
  destruct (lex_type r2) as [[ty r3]| |]; try congruence; try discriminate.
  pose proof (lex_mattrs_no_pan pf r3 MAttrs f64_one []) as H4.
  destruct (lex_mattrs pf MAttrs f64_one [] r3) as [[rate tags]| |]; try congruence; try discriminate.
  apply finish_metric_no_panic.
Qed.

(* ---------------------------------------------------------------------------------------- *)
(* events *)

Lemma bind_no_pan {A B} (x : result A) (f : A -> result B) :
  x <> Pan -> (forall a, f a <> Pan) -> bind x f <> Pan.
Proof. destruct x; cbn; intros Hx Hf; [apply Hf|discriminate|congruence]. Qed.

Lemma lex_assert_no_pan c l : lex_assert c l <> Pan.
Proof. unfold lex_assert. destruct l as [|b r]; [discriminate|]. destruct (b =? c); discriminate. Qed.

Lemma lex_uint_no_pan l : forall v consumed, lex_uint v consumed l <> Pan.
Proof.
  induction l as [|b r IH]; intros v consumed; cbn [lex_uint].
  - destruct consumed; discriminate.
  - destruct (is_digit b).
    + destruct (_ <? v); [discriminate|apply IH].
    + destruct (b =? c_nul); [discriminate|]. destruct consumed; discriminate.
Qed.

Lemma lex_uint32_no_pan l : lex_uint32 l <> Pan.
Proof.
  unfold lex_uint32. pose proof (lex_uint_no_pan l 0 false) as H.
  destruct (lex_uint 0 false l) as [[v r]| |]; try congruence; try discriminate.
  destruct (max_uint32 <? v); discriminate.
Qed.

Lemma set_field_no_pan k data e : set_field k data e <> Pan.
Proof.
  unfold set_field.
  repeat match goal with
         | |- (if ?c then _ else _) <> _ => destruct c
         end; discriminate.
Qed.

Lemma set_date_no_pan v e : set_date v e <> Pan.
Proof. unfold set_date. destruct (max_int64 <? v); discriminate. Qed.

Lemma lex_eattrs_no_pan l : forall st e tags, lex_eattrs st e tags l <> Pan.
Proof.
  induction l as [|b r IH]; intros st e tags; cbn [lex_eattrs].
  - destruct st; try discriminate.
    + destruct consumed; [|discriminate].
      pose proof (set_date_no_pan v e) as H. destruct (set_date v e); congruence.
    + pose proof (set_field_no_pan k (rev acc) e) as H.
      destruct (set_field k (rev acc) e); congruence.
  - destruct st.
    + destruct (b =? c_pipe); [apply IH|]. destruct (b =? c_nul); discriminate.
    + destruct ((b =? c_d) || is_field_key b); [apply IH|]. destruct (b =? c_hash); apply IH.
    + destruct (b =? c_colon); [|discriminate]. destruct (k =? c_d); apply IH.
    + pose proof (set_date_no_pan v e) as H.
      destruct (is_digit b).
      * destruct (_ <? v); [discriminate|apply IH].
      * destruct (b =? c_nul).
        -- destruct (set_date v e); [apply IH|discriminate|congruence].
        -- destruct consumed; [|discriminate].
           destruct (set_date v e); [|discriminate|congruence].
           destruct (b =? c_pipe); [apply IH|discriminate].
    + destruct (b =? c_pipe); [|apply IH].
      pose proof (set_field_no_pan k (rev acc) e) as H.
      destruct (set_field k (rev acc) e); [apply IH|discriminate|congruence].
    + destruct (b =? c_comma); [apply IH|]. destruct (b =? c_pipe); [apply IH|].
      destruct (b =? c_nul); apply IH.
    + destruct (b =? c_pipe); apply IH.
Qed.

(* the two checked operations succeed when their arguments are in range *)
Lemma index_checked_in_range (l : str) i :
  i < N.of_nat (length l) -> exists b, index_checked l i = Some b.
Proof.
  intros H. unfold index_checked.
  destruct (nth_error l (N.to_nat i)) as [b|] eqn:E; [eauto|].
  apply nth_error_None in E. lia.
Qed.

Lemma slice_checked_in_range (l : str) lo hi :
  lo <= hi -> hi <= N.of_nat (length l) -> exists s, slice_checked l lo hi = Some s.
Proof.
  intros H1 H2. unfold slice_checked.
  apply N.leb_le in H1. apply N.leb_le in H2. rewrite H1, H2. cbn. eauto.
Qed.

(* the heart of C03: with the 64-bit comparison every index and slice bound of lexEventBody is
   in range, for all declared lengths (not only those below 2^32) and every unread suffix *)
Lemma event_body_no_pan tl xl r : event_body false tl xl r <> Pan.
Proof.
  unfold event_body.
  destruct (N.ltb_spec (N.of_nat (length r)) (tl + 1 + xl)) as [Hlt|Hge]; [discriminate|].
  destruct (index_checked_in_range r tl) as [b ->]; [lia|].
  destruct (negb (b =? c_pipe)); [discriminate|].
  destruct (slice_checked_in_range r 0 tl) as [s1 ->]; [lia|lia|].
  destruct (slice_checked_in_range r (tl + 1) (tl + 1 + xl)) as [s2 ->]; [lia|lia|].
  discriminate.
Qed.

Lemma lex_event_no_panic l : lex_event l <> OPanic.
Proof.
  unfold lex_event, lex_event_gen.
  destruct l as [|b r0]; [discriminate|].
  destruct (negb (b =? c_e)); [discriminate|].
  match goal with |- match ?x with _ => _ end <> _ => assert (Hx : x <> Pan) end.
  { apply bind_no_pan; [apply lex_assert_no_pan|intros r1].
    apply bind_no_pan; [apply lex_uint32_no_pan|intros [tl r2]].
    apply bind_no_pan; [apply lex_assert_no_pan|intros r3].
    apply bind_no_pan; [apply lex_uint32_no_pan|intros [xl r4]].
    apply bind_no_pan; [apply lex_assert_no_pan|intros r5].
    apply bind_no_pan; [apply lex_assert_no_pan|intros r6].
    apply bind_no_pan; [apply event_body_no_pan|intros [[title text] r7]].
    apply lex_eattrs_no_pan. }
  match goal with |- match ?x with _ => _ end <> _ => destruct x as [[e tags]| |] end;
    try discriminate; congruence.
Qed.

(* ---------------------------------------------------------------------------------------- *)
(* the entry point *)

Theorem lex_never_panics (pf : str -> pfres) (ns l : str) : lex pf ns l <> OPanic.
Proof.
  unfold lex, lex_gen. destruct l as [|b r]; [discriminate|].
  destruct (b =? c_us); [apply lex_event_no_panic|].
  destruct (b =? c_nul); [discriminate|].
  apply lex_metric_no_panic.
Qed.

(* every line is either parsed or rejected: the positive form *)
Corollary lex_parsed_or_bad pf ns l :
  (exists m, lex pf ns l = OMetric m) \/ (exists e, lex pf ns l = OEvent e)
  \/ (exists k, lex pf ns l = OReject k).
Proof.
  pose proof (lex_never_panics pf ns l) as H.
  destruct (lex pf ns l); eauto; congruence.
Qed.

(* ---------------------------------------------------------------------------------------- *)
(* the defect repaired by /repo commit 409dd76 (D1): with the length test performed in uint32
   the sum titleLen + 1 + textLen wraps, the test passes and the slice expression panics *)

(* the whole class of panicking event bodies of the pre-fix test, on the frozen model's
   [event_body true]: the separator is where the header says, the wrapped sum fits, the real
   sum does not *)
Lemma legacy_event_body_panics tl xl r :
  index_checked r tl = Some c_pipe ->
  (tl + 1 + xl) mod two32 <= N.of_nat (length r) < tl + 1 + xl ->
  event_body true tl xl r = Pan.
Proof.
  intros Hi [Hlo Hhi]. unfold event_body.
  destruct (N.ltb_spec (N.of_nat (length r)) ((tl + 1 + xl) mod two32)) as [Hlt|_]; [lia|].
  rewrite Hi. cbn [negb N.eqb]. rewrite N.eqb_refl. cbn [negb].
  assert (Htl : tl < N.of_nat (length r)).
  { unfold index_checked in Hi. assert (Hn : nth_error r (N.to_nat tl) <> None) by congruence.
    apply nth_error_Some in Hn. lia. }
  destruct (slice_checked_in_range r 0 tl) as [s1 ->]; [lia|lia|].
  unfold slice_checked.
  destruct (N.leb_spec (tl + 1 + xl) (N.of_nat (length r))) as [Hle|_]; [lia|].
  rewrite andb_false_r. reflexivity.
Qed.

Example legacy_event_body_panics_inhabited :
  event_body true 5 4294967290 [97;98;99;100;101;124;120;121;122] = Pan.
Proof. apply legacy_event_body_panics; [reflexivity|vm_compute; split; [discriminate|reflexivity]]. Qed.

(* the recorded witness, on the frozen model's legacy variant, on the position-exact uint32
   model of Model/LexerLegacy.v, and on the current lexer *)
Lemma d1_witness_outcomes (pf : str -> pfres) (ns : str) :
  lex_legacy pf ns d1_witness = OPanic
  /\ lex_legacy_u32 pf ns d1_witness = OPanic
  /\ lex pf ns d1_witness = OReject ENotEnoughData.
Proof. repeat split; vm_compute; reflexivity. Qed.

Theorem legacy_refuted :
  exists l : str, forall (pf : str -> pfres) (ns : str),
    lex_legacy_u32 pf ns l = OPanic /\ lex_legacy pf ns l = OPanic
    /\ lex pf ns l = OReject ENotEnoughData.
Proof.
  exists d1_witness. intros pf ns.
  destruct (d1_witness_outcomes pf ns) as (H1 & H2 & H3). auto.
Qed.

(* Model/LexerLegacy.v evaluates indices with the range test first; it is the same function *)
Lemma index_checked_fast_eq (l : str) (i : N) : index_checked_fast l i = index_checked l i.
Proof.
  unfold index_checked_fast, index_checked.
  destruct (N.ltb_spec i (N.of_nat (length l))) as [Hlt|Hge]; [reflexivity|].
  symmetry. apply nth_error_None. lia.
Qed.
