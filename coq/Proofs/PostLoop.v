(* C16: the post loops (Model/PostLoop.v), for every answer script, every back-off oracle and every
   cancellation script. *)
From Coq Require Import List ZArith Bool Arith Lia.
From GS Require Import Model.PostLoop.
Import ListNotations.

Lemma adjust_stop b ra : as_written b -> adjust b None ra = None.
Proof. destruct b as [| |g w|m], ra; cbn; auto. intros ->. reflexivity. Qed.

Lemma waits_not_stop b srv bo i : as_written b -> bo i = None -> waits b srv bo i = false.
Proof.
  intros W H. unfold waits. destruct (classify b (srv i)); auto. rewrite H, adjust_stop; auto.
Qed.

Lemma waits_retry b srv bo i : waits b srv bo i = true -> is_retry b (srv i) = true /\ is_success b (srv i) = false.
Proof. unfold waits, is_retry, is_success. destruct (classify b (srv i)); try discriminate; auto. Qed.

(* ---------------------------------------------------------------------------------------- *)
(* one specification of every finished run *)
Lemma loop_spec b srv bo cx : forall fuel i sl r a sl',
  loop b srv bo cx fuel i sl = Done r a sl' ->
  (i < a)%nat /\
  (forall j, (i <= j < a - 1)%nat -> waits b srv bo j = true /\ cx j = false) /\
  (r = RNil <-> is_success b (srv (a - 1)%nat) = true) /\
  (r = RCtx <-> waits b srv bo (a - 1)%nat = true /\ cx (a - 1)%nat = true) /\
  (waits b srv bo (a - 1)%nat = true -> cx (a - 1)%nat = true) /\
  length sl' = (length sl + (a - 1 - i) + (if waits b srv bo (a - 1)%nat then 1 else 0))%nat.
Proof.
  induction fuel as [|f IH]; intros i sl r a sl' H; [discriminate|].
  cbn [loop] in H.
  assert (L : forall r0, Done r0 (S i) sl = Done r a sl' ->
              waits b srv bo i = false -> (r0 = RNil <-> is_success b (srv i) = true) -> r0 <> RCtx ->
              (i < a)%nat /\
              (forall j, (i <= j < a - 1)%nat -> waits b srv bo j = true /\ cx j = false) /\
              (r = RNil <-> is_success b (srv (a - 1)%nat) = true) /\
              (r = RCtx <-> waits b srv bo (a - 1)%nat = true /\ cx (a - 1)%nat = true) /\
              (waits b srv bo (a - 1)%nat = true -> cx (a - 1)%nat = true) /\
              length sl' = (length sl + (a - 1 - i) + (if waits b srv bo (a - 1)%nat then 1 else 0))%nat).
  { intros r0 E Wf Rn Rc. injection E as <- <- <-. replace (S i - 1)%nat with i by lia. rewrite Wf.
    repeat split; try tauto; try lia; try congruence.
    all: try (intros [? ?]; congruence). }
  unfold waits, is_success in L.
  destruct (classify b (srv i)) as [| |ra] eqn:C.
  - apply (L RNil H); auto; try tauto; discriminate.
  - apply (L RErr H); auto; try discriminate. split; discriminate.
  - destruct (adjust b (bo i) ra) as [d|] eqn:A.
    + destruct (exhausted b i) eqn:X.
      * apply (L RErr H); auto; try discriminate. split; discriminate.
      * assert (Wi : waits b srv bo i = true) by (unfold waits; rewrite C, A, X; reflexivity).
        destruct (cx i) eqn:Cx.
        -- injection H as <- <- <-. replace (S i - 1)%nat with i by lia. rewrite Wi.
           repeat split; try tauto; try lia; try discriminate.
           ++ unfold is_success. rewrite C. discriminate.
           ++ rewrite app_length. cbn. lia.
        -- destruct (IH _ _ _ _ _ H) as (Hlt & Hj & Hn & Hc & Hw & Hl).
           repeat split; try tauto; try lia.
           ++ destruct (Nat.eq_dec j i) as [->|]; [auto|apply Hj; lia].
           ++ destruct (Nat.eq_dec j i) as [->|]; [auto|apply Hj; lia].
           ++ rewrite Hl, app_length. cbn. lia.
    + apply (L RErr H); auto; try discriminate. split; discriminate.
Qed.

(* ---------------------------------------------------------------------------------------- *)
(* C16_post_terminates: if the oracle says Stop at its n-th call, the loop as written ends after at
   most n + 1 attempts, whatever the server answers and whatever the context does *)
Lemma loop_terminates b srv bo cx n :
  as_written b -> bo n = None ->
  forall fuel i sl, (i <= n)%nat -> (n - i < fuel)%nat ->
  exists r a sl', loop b srv bo cx fuel i sl = Done r a sl' /\ (a <= n + 1)%nat.
Proof.
  intros W Hn. induction fuel as [|f IH]; intros i sl Hi Hf; [lia|].
  cbn [loop]. destruct (classify b (srv i)) as [| |ra] eqn:C.
  - eexists _, _, _. split; [reflexivity|lia].
  - eexists _, _, _. split; [reflexivity|lia].
  - destruct (adjust b (bo i) ra) as [d|] eqn:A.
    + destruct (exhausted b i); [eexists _, _, _; split; [reflexivity|lia]|].
      destruct (cx i); [eexists _, _, _; split; [reflexivity|lia]|].
      assert (i <> n) by (intros ->; rewrite Hn, adjust_stop in A; [discriminate|exact W]).
      apply IH; lia.
    + eexists _, _, _. split; [reflexivity|lia].
Qed.

Theorem post_terminates b srv bo cx n fuel :
  as_written b -> bo n = None -> (n < fuel)%nat ->
  exists r a sl, post b srv bo cx fuel = Done r a sl /\ (a <= n + 1)%nat.
Proof. intros W H F. apply loop_terminates; auto; lia. Qed.

(* otlp needs no Stop at all: max_retries bounds it *)
Theorem post_terminates_otlp m srv bo cx fuel :
  (m < fuel)%nat -> exists r a sl, post (Otlp m) srv bo cx fuel = Done r a sl /\ (a <= m + 1)%nat.
Proof.
  intros F. unfold post.
  assert (G : forall fuel i sl, (i <= m)%nat -> (m - i < fuel)%nat ->
              exists r a sl', loop (Otlp m) srv bo cx fuel i sl = Done r a sl' /\ (a <= m + 1)%nat).
  { induction fuel0 as [|f IH]; intros i sl Hi Hf; [lia|].
    cbn [loop]. destruct (classify (Otlp m) (srv i)) as [| |ra] eqn:C.
    - eexists _, _, _. split; [reflexivity|lia].
    - eexists _, _, _. split; [reflexivity|lia].
    - destruct (adjust (Otlp m) (bo i) ra) as [d|] eqn:A.
      + destruct (exhausted (Otlp m) i) eqn:X; [eexists _, _, _; split; [reflexivity|lia]|].
        destruct (cx i); [eexists _, _, _; split; [reflexivity|lia]|].
        cbn in X. apply Nat.leb_gt in X. apply IH; lia.
      + eexists _, _, _. split; [reflexivity|lia]. }
  apply G; lia.
Qed.

(* C16_post_legacy_refuted_retry_after: without the guard, against a server that keeps answering 429
   with a positive Retry-After, the loop never ends - even if the oracle says Stop at every call and
   whatever the window is: for every fuel it is still running *)
Theorem post_legacy_refuted_retry_after window k fuel :
  (0 < k)%Z ->
  post (Newrelic false window) (fun _ => A429 (Some k)) (fun _ => None) (fun _ => false) fuel = OutOfFuel.
Proof.
  intros K. unfold post. generalize 0%nat, (@nil Z).
  induction fuel as [|f IH]; intros i sl; [reflexivity|].
  cbn. assert (E : (0 <? k)%Z = true) by (apply Z.ltb_lt; exact K). rewrite E. apply IH.
Qed.

(* ... while the loop as written stops there after one attempt *)
Example post_guard_stops window k :
  post (Newrelic true window) (fun _ => A429 (Some k)) (fun _ => None) (fun _ => false) 1 = Done RErr 1 [].
Proof. unfold post. cbn. destruct (0 <? k)%Z; reflexivity. Qed.

(* C16_post_result *)
Theorem post_result b srv bo cx fuel r a sl :
  post b srv bo cx fuel = Done r a sl ->
  (1 <= a)%nat /\
  (r = RNil <-> is_success b (srv (a - 1)%nat) = true) /\
  (forall j, (j < a - 1)%nat -> is_retry b (srv j) = true /\ is_success b (srv j) = false) /\
  length sl = (a - 1 + (if waits b srv bo (a - 1)%nat then 1 else 0))%nat.
Proof.
  intros H. destruct (loop_spec _ _ _ _ _ _ _ _ _ _ H) as (Hlt & Hj & Hn & Hc & Hw & Hl).
  repeat split; try tauto; try lia.
  - eapply waits_retry, Hj. lia.
  - eapply waits_retry, Hj. lia.
  - rewrite Hl. cbn. lia.
Qed.

(* C16_post_ctx: the run ends with ctx.Err() exactly when the last attempt reached its wait and the
   Done arm was taken there; no earlier wait took it; and a wait whose Done arm is taken is the last *)
Theorem post_ctx b srv bo cx fuel r a sl :
  post b srv bo cx fuel = Done r a sl ->
  (r = RCtx <-> waits b srv bo (a - 1)%nat = true /\ cx (a - 1)%nat = true) /\
  (forall j, (j < a - 1)%nat -> waits b srv bo j = true /\ cx j = false) /\
  (waits b srv bo (a - 1)%nat = true -> r = RCtx).
Proof.
  intros H. destruct (loop_spec _ _ _ _ _ _ _ _ _ _ H) as (Hlt & Hj & Hn & Hc & Hw & Hl).
  repeat split; try tauto.
  - apply Hj. lia.
  - apply Hj. lia.
Qed.

(* cancellation bounds the run like Stop does: if the Done arm would be taken at wait n, at most
   n + 1 attempts are made, whatever the oracle says (no Stop needed) *)
Theorem post_ctx_terminates b srv bo cx n fuel :
  cx n = true -> (n < fuel)%nat ->
  exists r a sl, post b srv bo cx fuel = Done r a sl /\ (a <= n + 1)%nat.
Proof.
  intros Hn F. unfold post.
  assert (G : forall fuel i sl, (i <= n)%nat -> (n - i < fuel)%nat ->
              exists r a sl', loop b srv bo cx fuel i sl = Done r a sl' /\ (a <= n + 1)%nat).
  { induction fuel0 as [|f IH]; intros i sl Hi Hf; [lia|].
    cbn [loop]. destruct (classify b (srv i)); try (eexists _, _, _; split; [reflexivity|lia]).
    destruct (adjust b (bo i) ra); try (eexists _, _, _; split; [reflexivity|lia]).
    destruct (exhausted b i); try (eexists _, _, _; split; [reflexivity|lia]).
    destruct (cx i) eqn:Cx; try (eexists _, _, _; split; [reflexivity|lia]).
    assert (i <> n) by congruence. apply IH; lia. }
  apply G; lia.
Qed.

Local Open Scope Z_scope.
(* hypotheses satisfiable / the loops on concrete scripts *)
Example post_sample_newrelic :
  post (Newrelic true 4000) (fun i => nth i [ABad; A429 (Some 2000); A429 None] A2xx)
       (fun i => nth i [Some 500; Some 700; Some 900] None) (fun _ => false) 10%nat
  = Done RNil 4%nat [500; 2000; 900].
Proof. reflexivity. Qed.
Example post_sample_window_cap :
  post (Newrelic true 1000) (fun _ => A429 (Some 5000)) (fun i => nth i [Some 500; Some 700] None) (fun _ => false) 10%nat
  = Done RErr 3%nat [1000; 1000].
Proof. reflexivity. Qed.
Example post_sample_otlp :
  post (Otlp 3) (fun _ => ABad) (fun _ => Some 1) (fun _ => false) 10%nat = Done RErr 4%nat [1; 1; 1] /\
  post (Otlp 3) (fun i => nth i [ABad] APartial) (fun _ => Some 1) (fun _ => false) 10%nat = Done RErr 2%nat [1].
Proof. split; reflexivity. Qed.
Example post_sample_ctx :
  post Datadog (fun _ => ABad) (fun _ => Some 1) (fun i => Nat.eqb i 2) 10%nat = Done RCtx 3%nat [1; 1; 1].
Proof. reflexivity. Qed.
