(* Lemmas about Model/InstanceCache.v (property C12) *)
From GS Require Import Base.Bytes Base.LTS Model.InstanceCache.
From stdpp Require Import gmap.
Local Open Scope Z_scope.

Lemma answers_length ips res : length (answers ips res) = length ips.
Proof. unfold answers; apply map_length. Qed.
