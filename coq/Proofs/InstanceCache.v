(* Lemmas about Model/InstanceCache.v (property C12) *)
From GS Require Import Base.Bytes Base.LTS Model.InstanceCache.
From stdpp Require Import gmap.
Local Open Scope Z_scope.

Global Arguments handle_info : simpl never.
Global Arguments do_refresh : simpl never.
Global Arguments touch : simpl never.
Global Arguments answers : simpl never.

(* ---- doLookup ---------------------------------------------------------------------------------- *)

Lemma answers_length ips res : length (answers ips res) = length ips.
Proof. unfold answers; apply map_length. Qed.

Lemma answers_lookup ips res (n : nat) ip :
  ips !! n = Some ip -> answers ips res !! n = Some (ip, res_get res ip).
Proof. intros H; unfold answers; rewrite list_lookup_fmap, H; reflexivity. Qed.

Lemma answers_positions ips res :
  length (answers ips res) = length ips /\
  (forall (n : nat) ip, ips !! n = Some ip -> answers ips res !! n = Some (ip, res_get res ip)) /\
  (answers ips res).*1 = ips.
Proof.
  split; [apply answers_length|]; split; [intros; by apply answers_lookup|].
  unfold answers; induction ips as [|x r IH]; cbn; [done|by rewrite IH].
Qed.

(* ---- uint64 counters ---------------------------------------------------------------------------- *)

Lemma inc64_u64 x : inc64 (u64 x) = u64 (x + 1).
Proof. unfold inc64, u64; apply Z.add_mod_idemp_l; by vm_compute. Qed.
Lemma dec64_u64 x : dec64 (u64 x) = u64 (x - 1).
Proof. unfold dec64, u64; apply Zminus_mod_idemp_l. Qed.
Lemma iter_dec64_u64 (n : nat) x : Nat.iter n dec64 (u64 x) = u64 (x - Z.of_nat n).
Proof.
  induction n as [|n IH]; [apply (f_equal u64); lia|].
  change (Nat.iter (S n) dec64 (u64 x)) with (dec64 (Nat.iter n dec64 (u64 x))).
  rewrite IH, dec64_u64; apply (f_equal u64); lia.
Qed.
Lemma u64_small x : 0 <= x < 2 ^ 64 -> u64 x = x.
Proof. intros; unfold u64; by apply Z.mod_small. Qed.

(* ---- counting entries --------------------------------------------------------------------------- *)

Section cnt.
  Context (P : source * holder -> Prop) `{!forall x, Decision (P x)}.
  Definition cnt (m : gmap source holder) : nat := size (filter P m).
  Definition ind (x : source * holder) : nat := if decide (P x) then 1%nat else 0%nat.

  Lemma cnt_empty : cnt ∅ = 0%nat.
  Proof. unfold cnt; by rewrite map_filter_empty, map_size_empty. Qed.

  Lemma cnt_insert m k v : cnt (<[k:=v]> m) = (cnt (delete k m) + ind (k, v))%nat.
  Proof.
    unfold cnt, ind. rewrite <- insert_delete_insert, map_filter_insert.
    destruct (decide (P (k, v))).
    - rewrite map_size_insert_None; [lia|].
      apply map_filter_lookup_None; left; apply lookup_delete.
    - rewrite delete_idemp; lia.
  Qed.

  Lemma cnt_lookup m k :
    cnt m = (cnt (delete k m) + match m !! k with Some v => ind (k, v) | None => 0 end)%nat.
  Proof.
    destruct (m !! k) as [v|] eqn:E.
    - rewrite <- (insert_id m k v E) at 1. apply cnt_insert.
    - rewrite delete_notin by done; lia.
  Qed.

  Lemma cnt_split (Q : source * holder -> Prop) `{!forall x, Decision (Q x)} m :
    cnt m = (cnt (filter Q m) + cnt (filter (λ x, ¬ Q x) m))%nat.
  Proof.
    unfold cnt. rewrite <- (map_filter_union_complement Q m) at 1.
    rewrite map_filter_union by apply map_disjoint_filter_complement.
    apply map_size_disj_union, map_disjoint_filter, map_disjoint_filter_complement.
  Qed.

  Lemma cnt_le_size m : (cnt m <= size m)%nat.
  Proof.
    unfold cnt. rewrite <- (map_filter_union_complement P m) at 2.
    rewrite map_size_disj_union by apply map_disjoint_filter_complement. lia.
  Qed.
End cnt.
Global Arguments cnt : simpl never.
Global Arguments ind : simpl never.
Global Arguments u64 : simpl never.
Global Arguments inc64 : simpl never.
Global Arguments dec64 : simpl never.

Ltac ind_tac E :=
  unfold ind; repeat case_decide; try reflexivity; exfalso;
  unfold positive_entry, negative_entry in *; cbn [snd] in *; rewrite ?E in *;
  repeat match goal with H : is_Some None |- _ => by destruct H | H : ¬ is_Some (Some _) |- _ => by apply H end;
  try congruence; try tauto.
Lemma ind_pos_inst k h k' h' :
  h_inst h = h_inst h' -> ind positive_entry (k, h) = ind positive_entry (k', h').
Proof. intros E; ind_tac E. Qed.
Lemma ind_neg_inst k h k' h' :
  h_inst h = h_inst h' -> ind negative_entry (k, h) = ind negative_entry (k', h').
Proof. intros E; ind_tac E. Qed.
Lemma ind_pos_Some k h i : h_inst h = Some i -> ind positive_entry (k, h) = 1%nat.
Proof. intros E; ind_tac E. Qed.
Lemma ind_pos_None k h : h_inst h = None -> ind positive_entry (k, h) = 0%nat.
Proof. intros E; ind_tac E. Qed.
Lemma ind_neg_Some k h i : h_inst h = Some i -> ind negative_entry (k, h) = 0%nat.
Proof. intros E; ind_tac E. Qed.
Lemma ind_neg_None k h : h_inst h = None -> ind negative_entry (k, h) = 1%nat.
Proof. intros E; ind_tac E. Qed.

Lemma elem_of_keys {V} (m : gmap source V) s : s ∈ keys m <-> is_Some (m !! s).
Proof.
  unfold keys. rewrite elem_of_list_fmap. split.
  - intros [[k v] [-> H]]. apply elem_of_map_to_list in H. eauto.
  - intros [v H]. exists (s, v). split; [done|]. by apply elem_of_map_to_list.
Qed.
Lemma NoDup_keys {V} (m : gmap source V) : NoDup (keys m).
Proof. apply NoDup_fst_map_to_list. Qed.

(* ---- handleInstanceInfo -------------------------------------------------------------------------- *)

(* the holder handleInstanceInfo stores *)
Definition new_holder (c : config) (now : Z) (io : option instance) (cur : option holder) : holder :=
  Holder (match io with Some _ => io | None => cur ≫= h_inst end)
         (now + match io with None => c_negttl c | Some _ => c_ttl c end)
         (match cur with Some h => h_access h | None => now end).

Lemma handle_info_cache c now ip io k :
  k_cache (handle_info c now (ip, io) k) = <[ip := new_holder c now io (k_cache k !! ip)]> (k_cache k).
Proof.
  unfold handle_info, new_holder.
  destruct (k_cache k !! ip) as [cur|]; destruct io as [i|]; cbn; try reflexivity.
  destruct (h_inst cur); reflexivity.
Qed.

Lemma handle_info_gauges c now i k :
  k_pos k = u64 (Z.of_nat (cnt positive_entry (k_cache k))) ->
  k_neg k = u64 (Z.of_nat (cnt negative_entry (k_cache k))) ->
  k_pos (handle_info c now i k) = u64 (Z.of_nat (cnt positive_entry (k_cache (handle_info c now i k)))) /\
  k_neg (handle_info c now i k) = u64 (Z.of_nat (cnt negative_entry (k_cache (handle_info c now i k)))).
Proof.
  destruct i as [ip io]. intros Hp Hn. rewrite handle_info_cache, !cnt_insert.
  rewrite (cnt_lookup positive_entry (k_cache k) ip) in Hp.
  rewrite (cnt_lookup negative_entry (k_cache k) ip) in Hn.
  unfold handle_info, new_holder.
  destruct (k_cache k !! ip) as [cur|] eqn:E; destruct io as [i|]; cbn [mbind option_bind].
  - destruct (h_inst cur) as [i0|] eqn:Ec; cbn [k_pos k_neg].
    + rewrite (ind_pos_Some ip cur i0 Ec) in Hp. rewrite (ind_neg_Some ip cur i0 Ec) in Hn.
      rewrite (ind_pos_Some _ _ i), (ind_neg_Some _ _ i) by reflexivity. auto.
    + rewrite (ind_pos_None ip cur Ec) in Hp. rewrite (ind_neg_None ip cur Ec) in Hn.
      rewrite (ind_pos_Some _ _ i), (ind_neg_Some _ _ i) by reflexivity.
      rewrite Hp, Hn, inc64_u64, dec64_u64. split; apply (f_equal u64); lia.
  - cbn [k_pos k_neg].
    rewrite (ind_pos_inst ip _ ip cur), (ind_neg_inst ip _ ip cur) by reflexivity. auto.
  - cbn [k_pos k_neg]. rewrite (ind_pos_Some _ _ i), (ind_neg_Some _ _ i) by reflexivity.
    rewrite Hp, Hn, inc64_u64. split; apply (f_equal u64); lia.
  - cbn [k_pos k_neg]. rewrite ind_pos_None, ind_neg_None by reflexivity.
    rewrite Hp, Hn, inc64_u64. split; apply (f_equal u64); lia.
Qed.

(* ---- doRefresh ----------------------------------------------------------------------------------- *)

Lemma do_refresh_gauges c t k :
  k_pos k = u64 (Z.of_nat (cnt positive_entry (k_cache k))) ->
  k_neg k = u64 (Z.of_nat (cnt negative_entry (k_cache k))) ->
  let k' := (do_refresh c t k).1.1 in
  k_pos k' = u64 (Z.of_nat (cnt positive_entry (k_cache k'))) /\
  k_neg k' = u64 (Z.of_nat (cnt negative_entry (k_cache k'))).
Proof.
  intros Hp Hn. unfold do_refresh; cbn [fst k_pos k_neg k_cache].
  rewrite Hp, Hn, !iter_dec64_u64.
  rewrite (cnt_split positive_entry (idle_entry c t) (k_cache k)).
  rewrite (cnt_split negative_entry (idle_entry c t) (k_cache k)).
  unfold cnt. split; apply (f_equal u64); lia.
Qed.

(* ---- Peek ---------------------------------------------------------------------------------------- *)

Lemma touch_cnt now s m :
  cnt positive_entry (touch now s m) = cnt positive_entry m /\
  cnt negative_entry (touch now s m) = cnt negative_entry m.
Proof.
  unfold touch. destruct (m !! s) as [h|] eqn:E; [|done].
  rewrite !cnt_insert, (cnt_lookup positive_entry m s), (cnt_lookup negative_entry m s), E.
  rewrite (ind_pos_inst s _ s h), (ind_neg_inst s _ s h) by reflexivity. done.
Qed.

Lemma touch_peek now s m s' : peek_result (touch now s m) s' = peek_result m s'.
Proof.
  unfold touch, peek_result. destruct (m !! s) as [h|] eqn:E; [|done].
  destruct (decide (s = s')) as [<-|Hne].
  - by rewrite lookup_insert, E.
  - by rewrite lookup_insert_ne.
Qed.

(* ---- the end of Run's loop body ------------------------------------------------------------------- *)

Lemma refill_keeps {A} (stack : list A) reg :
  opt_list (refill stack reg).2 ++ (refill stack reg).1 = opt_list reg ++ stack.
Proof. destruct reg, stack; reflexivity. Qed.

Lemma loop_tail_eq st :
  loop_tail st =
  State (st_core st) (refill (to_lookup st) (lookup_reg st)).1 (refill (to_lookup st) (lookup_reg st)).2
        (refill (to_return st) (return_reg st)).1 (refill (to_return st) (return_reg st)).2
        (pending st) (inflight st) (submitted st) (requeued st) (batches st) (handled st) (evicted st)
        (delivered st) (peeked st).
Proof.
  destruct st as [k tl lr tr rr pe inf sub req bat han evi del pk]; unfold loop_tail; cbn.
  destruct (refill tl lr), (refill tr rr); reflexivity.
Qed.

Global Arguments loop_tail : simpl never.

Lemma loop_tail_waiting st : waiting (loop_tail st) = waiting st.
Proof. rewrite loop_tail_eq; unfold waiting; cbn. by rewrite refill_keeps. Qed.

Lemma loop_tail_returning st :
  to_return (loop_tail st) ++ opt_list (return_reg (loop_tail st)) ≡ₚ to_return st ++ opt_list (return_reg st).
Proof.
  rewrite loop_tail_eq; cbn. rewrite Permutation_app_comm, refill_keeps. apply Permutation_app_comm.
Qed.

Lemma loop_tail_in_transit st : in_transit (loop_tail st) ≡ₚ in_transit st.
Proof.
  unfold in_transit. rewrite loop_tail_returning. by rewrite loop_tail_eq.
Qed.

(* ---- the inductive invariant ---------------------------------------------------------------------- *)

Definition batch_bound (c : config) (n : nat) : Prop := (1 <= Z.of_nat n <= Z.max 1 (c_limit c)).

Record Inv (c : config) (st : state) : Prop := {
  (* every answer doLookup owes has been handled by the cache or is still in doLookup's hands *)
  inv_answers : due_answers st ≡ₚ handled st ++ inflight st;
  (* every handled answer has been delivered or sits in Run's return stack / register *)
  inv_returns : handled st ≡ₚ delivered st ++ to_return st ++ opt_list (return_reg st);
  (* every accepted source is waiting or has been a position of a provider call *)
  inv_queries : submitted st ++ requeued st ≡ₚ waiting st ++ queried st;
  inv_pos : gauge_pos st = u64 (Z.of_nat (cnt positive_entry (cache st)));
  inv_neg : gauge_neg st = u64 (Z.of_nat (cnt negative_entry (cache st)));
  inv_pending : Z.of_nat (length (pending st)) <= Z.max 1 (c_limit c);
  inv_batches : Forall (λ b, batch_bound c (length b.1.1)) (batches st)
}.

Lemma inv_init c : Inv c init.
Proof.
  split; cbn; try done. lia.
Qed.

Lemma inv_loop_tail c st : Inv c st -> Inv c (loop_tail st).
Proof.
  intros [Ha Hr Hq Hp Hn Hpe Hb]. split.
  - by rewrite loop_tail_eq.
  - rewrite loop_tail_returning. by rewrite loop_tail_eq.
  - rewrite loop_tail_waiting. by rewrite loop_tail_eq.
  - by rewrite loop_tail_eq.
  - by rewrite loop_tail_eq.
  - by rewrite loop_tail_eq.
  - by rewrite loop_tail_eq.
Qed.

Lemma can_receive_bound c pe inf (s : source) :
  can_receive c pe inf = true -> Z.of_nat (length pe) <= Z.max 1 (c_limit c) ->
  inf = [] /\ Z.of_nat (length (pe ++ [s])) <= Z.max 1 (c_limit c).
Proof.
  unfold can_receive. destruct inf; [|done]. destruct pe as [|p pe].
  - intros _ _; split; [done|]. cbn; lia.
  - intros H _. apply bool_decide_eq_true in H. split; [done|]. rewrite app_length; cbn [length] in *; lia.
Qed.

Section labels.
  Context (c : config).
  Implicit Types st : state.

  Lemma inv_submit st s st' : Inv c st -> step c st (Submit s) = Some st' -> Inv c st'.
  Proof.
    destruct st as [k tl lr tr rr pe inf sub req bat han evi del pk]. intros [Ha Hr Hq Hp Hn Hpe Hb]; cbn in *.
    destruct (can_receive c pe inf) eqn:E; [|done]. intros [= <-].
    destruct (can_receive_bound c pe inf s E Hpe) as [-> Hpe'].
    split; cbn; try done.
    unfold waiting in *; cbn in *. rewrite Hq. solve_Permutation.
  Qed.

  Lemma inv_send st st' : Inv c st -> step c st SendLookup = Some st' -> Inv c st'.
  Proof.
    destruct st as [k tl lr tr rr pe inf sub req bat han evi del pk]. intros [Ha Hr Hq Hp Hn Hpe Hb]; cbn in *.
    destruct lr as [s|]; [|done]. destruct (can_receive c pe inf) eqn:E; [|done]. intros [= <-].
    destruct (can_receive_bound c pe inf s E Hpe) as [-> Hpe'].
    apply inv_loop_tail. split; cbn; try done.
    unfold waiting in *; cbn in *. rewrite Hq. solve_Permutation.
  Qed.

  Lemma inv_batch st res err st' : Inv c st -> step c st (Batch res err) = Some st' -> Inv c st'.
  Proof.
    destruct st as [k tl lr tr rr pe inf sub req bat han evi del pk]. intros [Ha Hr Hq Hp Hn Hpe Hb]; cbn in *.
    destruct inf; [|done]. destruct pe as [|p pe]; [done|]. intros [= <-].
    split; cbn -[answers]; try done.
    - unfold due_answers in *; cbn -[answers] in *. rewrite Ha. solve_Permutation.
    - unfold waiting, queried in *; cbn in *. rewrite Hq. solve_Permutation.
    - lia.
    - constructor; [|done]. unfold batch_bound; cbn [fst length] in *. lia.
  Qed.

  Lemma inv_handle st now st' : Inv c st -> step c st (HandleInfo now) = Some st' -> Inv c st'.
  Proof.
    destruct st as [k tl lr tr rr pe inf sub req bat han evi del pk]. intros [Ha Hr Hq Hp Hn Hpe Hb]; cbn in *.
    destruct inf as [|i inf]; [done|]. intros [= <-].
    apply inv_loop_tail.
    destruct (handle_info_gauges c now i k Hp Hn) as [Hp' Hn'].
    split; cbn; try done.
    - rewrite Ha. solve_Permutation.
    - rewrite Hr. solve_Permutation.
  Qed.

  Lemma inv_return st st' : Inv c st -> step c st Return = Some st' -> Inv c st'.
  Proof.
    destruct st as [k tl lr tr rr pe inf sub req bat han evi del pk]. intros [Ha Hr Hq Hp Hn Hpe Hb]; cbn in *.
    destruct rr as [i|]; [|done]. intros [= <-].
    apply inv_loop_tail. split; cbn; try done.
    rewrite Hr. solve_Permutation.
  Qed.

  Lemma inv_refresh st t order st' : Inv c st -> step c st (Refresh t order) = Some st' -> Inv c st'.
  Proof.
    destruct st as [k tl lr tr rr pe inf sub req bat han evi del pk]. intros [Ha Hr Hq Hp Hn Hpe Hb].
    cbn [step]. pose proof (do_refresh_gauges c t k Hp Hn) as Hg.
    destruct (do_refresh c t k) as [[k' ev] rq]. cbn in Hg. destruct Hg as [Hp' Hn'].
    case_decide as Ho; [|done]. intros [= <-].
    apply inv_loop_tail. split; cbn in *; try done.
    unfold waiting in *; cbn in *.
    trans (rev order ++ sub ++ req); [solve_Permutation|]. rewrite Hq. solve_Permutation.
  Qed.

  Lemma inv_peek st s now st' : Inv c st -> step c st (Peek s now) = Some st' -> Inv c st'.
  Proof.
    destruct st as [k tl lr tr rr pe inf sub req bat han evi del pk]. intros [Ha Hr Hq Hp Hn Hpe Hb]; cbn in *.
    intros [= <-]. destruct (touch_cnt now s (k_cache k)) as [E1 E2].
    split; cbn; try done.
    - unfold gauge_pos, cache in *; cbn in *. by rewrite E1.
    - unfold gauge_neg, cache in *; cbn in *. by rewrite E2.
  Qed.

  Lemma inv_step st l st' : Inv c st -> step c st l = Some st' -> Inv c st'.
  Proof.
    intros HI Hs. destruct l.
    - exact (inv_submit _ _ _ HI Hs).
    - exact (inv_send _ _ HI Hs).
    - exact (inv_batch _ _ _ _ HI Hs).
    - exact (inv_handle _ _ _ HI Hs).
    - exact (inv_return _ _ HI Hs).
    - exact (inv_refresh _ _ _ _ HI Hs).
    - exact (inv_peek _ _ _ _ HI Hs).
  Qed.

  Lemma inv_reachable ls st : run (step c) init ls = Some st -> Inv c st.
  Proof. apply (invariant_run (step c) (Inv c) inv_step), inv_init. Qed.
End labels.

(* ---- C12_one_answer_per_query, C12_all_queried, C12_gauges ------------------------------------------ *)

Lemma one_answer_per_query :
  (forall ips res,
     length (answers ips res) = length ips /\
     forall (n : nat) ip, ips !! n = Some ip -> answers ips res !! n = Some (ip, res_get res ip)) /\
  forall c ls st, run (step c) init ls = Some st ->
    due_answers st ≡ₚ handled st ++ inflight st /\
    due_answers st ≡ₚ delivered st ++ in_transit st /\
    (in_transit st = [] -> delivered st ≡ₚ due_answers st).
Proof.
  split; [intros; split; [apply answers_length|by apply answers_lookup]|].
  intros c ls st Hrun. destruct (inv_reachable c ls st Hrun) as [Ha Hr _ _ _ _ _].
  assert (due_answers st ≡ₚ delivered st ++ in_transit st) as Hd.
  { unfold in_transit. rewrite Ha, Hr. solve_Permutation. }
  split; [done|]. split; [done|]. intros E. by rewrite Hd, E, app_nil_r.
Qed.

Lemma all_queried c ls st :
  run (step c) init ls = Some st ->
  submitted st ++ requeued st ≡ₚ waiting st ++ queried st /\
  (waiting st = [] -> queried st ≡ₚ submitted st ++ requeued st) /\
  (1 <= c_limit c -> Forall (λ b, 1 <= Z.of_nat (length b.1.1) <= c_limit c) (batches st)).
Proof.
  intros Hrun. destruct (inv_reachable c ls st Hrun) as [_ _ Hq _ _ _ Hb].
  split; [done|]. split; [intros E; by rewrite Hq, E|].
  intros Hl. eapply Forall_impl; [exact Hb|]. unfold batch_bound; cbn. intros; lia.
Qed.

Lemma gauges c ls st :
  run (step c) init ls = Some st ->
  gauge_pos st = Z.of_nat (size (filter positive_entry (cache st))) `mod` 2 ^ 64 /\
  gauge_neg st = Z.of_nat (size (filter negative_entry (cache st))) `mod` 2 ^ 64 /\
  (Z.of_nat (size (cache st)) < 2 ^ 64 ->
   gauge_pos st = Z.of_nat (size (filter positive_entry (cache st))) /\
   gauge_neg st = Z.of_nat (size (filter negative_entry (cache st)))).
Proof.
  intros Hrun. destruct (inv_reachable c ls st Hrun) as [_ _ _ Hp Hn _ _].
  split; [exact Hp|]. split; [exact Hn|]. intros Hs.
  pose proof (cnt_le_size positive_entry (cache st)). pose proof (cnt_le_size negative_entry (cache st)).
  rewrite Hp, Hn. unfold cnt in *. split; apply u64_small; lia.
Qed.

(* ---- C12_keeps_good_data ------------------------------------------------------------------------ *)

Lemma serves_iff st s i : serves st s i <-> exists h, cache st !! s = Some h /\ h_inst h = Some i.
Proof.
  unfold serves, peek_result. destruct (cache st !! s) as [h|]; cbn; split.
  - intros [= E]. eauto.
  - intros [h' [[= <-] E]]. by rewrite E.
  - done.
  - by intros [h' [? _]].
Qed.

Lemma serves_intro st s i h : k_cache (st_core st) !! s = Some h -> h_inst h = Some i -> serves st s i.
Proof. intros; apply serves_iff; eauto. Qed.

Lemma latest_positive_app s a b i : latest_positive s (a ++ b) i = latest_positive s a (latest_positive s b i).
Proof.
  induction a as [|[s' [i'|]] a IH]; cbn; [done| |done]. by case_decide.
Qed.

Lemma loop_tail_core st : st_core (loop_tail st) = st_core st.
Proof. by rewrite loop_tail_eq. Qed.
Lemma loop_tail_handled st : handled (loop_tail st) = handled st.
Proof. by rewrite loop_tail_eq. Qed.
Lemma loop_tail_evicted st : evicted (loop_tail st) = evicted st.
Proof. by rewrite loop_tail_eq. Qed.
Lemma loop_tail_serves st s i : serves (loop_tail st) s i <-> serves st s i.
Proof. unfold serves, cache. by rewrite loop_tail_core. Qed.

Definition history_grows (st st' : state) (ev : list source) (han : list info) : Prop :=
  evicted st' = ev ++ evicted st /\ handled st' = han ++ handled st /\
  forall s i, serves st s i -> s ∉ ev -> serves st' s (latest_positive s han i).

Lemma history_grows_nil st st' :
  evicted st' = evicted st -> handled st' = handled st -> (forall s i, serves st s i -> serves st' s i) ->
  exists ev han, history_grows st st' ev han.
Proof. intros He Hh Hs. exists [], []. repeat split; auto. Qed.

Lemma keeps_step c st l st' :
  step c st l = Some st' -> exists ev han, history_grows st st' ev han.
Proof.
  destruct st as [k tl lr tr rr pe inf sub req bat han evi del pk]. intros Hstep.
  destruct l as [s0| |res err|now| |t order|s0 now]; cbn [step] in Hstep.
  - destruct (can_receive c pe inf); [|done]. injection Hstep as <-. by apply history_grows_nil.
  - destruct lr as [s1|]; [|done]. destruct (can_receive c pe inf); [|done]. injection Hstep as <-.
    apply history_grows_nil; [by rewrite loop_tail_evicted|by rewrite loop_tail_handled|].
    intros s i. by rewrite loop_tail_serves.
  - destruct inf as [|i1 inf]; [|done]. destruct pe as [|p1 pe]; [done|]. injection Hstep as <-. by apply history_grows_nil.
  - destruct inf as [|[ip io] inf]; [done|]. injection Hstep as <-.
    exists [], [(ip, io)]. unfold history_grows. rewrite loop_tail_evicted, loop_tail_handled.
    split; [done|]. split; [done|]. intros s i Hs _. rewrite loop_tail_serves.
    apply serves_iff in Hs as [h [Hc Hi]]. unfold cache in Hc; cbn [st_core] in Hc.
    destruct (decide (ip = s)) as [->|Hne].
    + eapply serves_intro; cbn [st_core]; [rewrite handle_info_cache; apply lookup_insert|].
      rewrite Hc. unfold new_holder; cbn.
      destruct io as [i'|]; cbn; [by rewrite decide_True|done].
    + eapply serves_intro; cbn [st_core]; [rewrite handle_info_cache, lookup_insert_ne by done; exact Hc|].
      destruct io as [i'|]; cbn; [by rewrite decide_False|done].
  - destruct rr as [i1|]; [|done]. injection Hstep as <-.
    apply history_grows_nil; [by rewrite loop_tail_evicted|by rewrite loop_tail_handled|].
    intros s i. by rewrite loop_tail_serves.
  - unfold do_refresh in Hstep. case_decide; [|done]. injection Hstep as <-.
    eexists _, []. unfold history_grows. rewrite loop_tail_evicted, loop_tail_handled.
    split; [done|]. split; [done|]. intros s i Hs Hev. rewrite loop_tail_serves. cbn.
    apply serves_iff in Hs as [h [Hc Hi]]. unfold cache in Hc; cbn [st_core] in Hc.
    eapply serves_intro; [|exact Hi]. cbn [st_core k_cache].
    apply map_filter_lookup_Some. split; [done|]. intros Hidle.
    apply Hev, elem_of_keys. exists h. by apply map_filter_lookup_Some.
  - injection Hstep as <-. apply history_grows_nil; [done|done|]. intros s i.
    unfold serves, cache; cbn. by rewrite touch_peek.
Qed.

Lemma keeps_run c ls st st' :
  run (step c) st ls = Some st' -> exists ev han, history_grows st st' ev han.
Proof.
  revert st. induction ls as [|l ls IH]; intros st Hrun; cbn in Hrun.
  - injection Hrun as <-. by apply history_grows_nil.
  - destruct (step c st l) as [st1|] eqn:E; [|done].
    destruct (keeps_step c st l st1 E) as (ev1 & han1 & He1 & Hh1 & Hk1).
    destruct (IH st1 Hrun) as (ev & han & He & Hh & Hk).
    exists (ev ++ ev1), (han ++ han1). unfold history_grows. rewrite He, Hh, He1, Hh1, <- !app_assoc.
    split; [done|]. split; [done|]. intros s i Hs Hn. rewrite latest_positive_app.
    apply Hk; [apply Hk1; [done|]|]; intros Hin; apply Hn, elem_of_app; auto.
Qed.

(* the failed / empty answers for s: every handled info for s carries no instance *)
Lemma latest_positive_failed s han i :
  (forall i', (s, Some i') ∉ han) -> latest_positive s han i = i.
Proof.
  induction han as [|[s' [i'|]] han IH]; intros H; cbn; [done| |].
  - case_decide as E; [subst; exfalso; eapply H; left|]. apply IH. intros i0 Hin. eapply H. right. exact Hin.
  - apply IH. intros i0 Hin. eapply H. right. exact Hin.
Qed.

Lemma keeps_good_data c st ls st' :
  run (step c) st ls = Some st' ->
  exists ev han,
    evicted st' = ev ++ evicted st /\ handled st' = han ++ handled st /\
    forall s i, serves st s i -> s ∉ ev ->
      serves st' s (latest_positive s han i) /\
      ((forall i', (s, Some i') ∉ han) -> serves st' s i).
Proof.
  intros Hrun. destruct (keeps_run c ls st st' Hrun) as (ev & han & He & Hh & Hk).
  exists ev, han. split; [done|]. split; [done|]. intros s i Hs Hn. split; [by apply Hk|].
  intros Hf. rewrite <- (latest_positive_failed s han i Hf). by apply Hk.
Qed.

(* ---- C12_evict_idle, C12_requery_expired ----------------------------------------------------------- *)

Lemma refresh_step c st t order st' :
  step c st (Refresh t order) = Some st' ->
  order ≡ₚ keys (filter (expired_entry c t) (cache st)) /\
  cache st' = filter (λ kh, ¬ idle_entry c t kh) (cache st) /\
  evicted st' = keys (filter (idle_entry c t) (cache st)) ++ evicted st /\
  requeued st' = rev order ++ requeued st /\
  waiting st' ≡ₚ order ++ waiting st.
Proof.
  destruct st as [k tl lr tr rr pe inf sub req bat han evi del pk]. cbn [step]. unfold do_refresh.
  case_decide as Ho; [|done]. intros [= <-].
  split; [exact Ho|]. rewrite loop_tail_waiting. rewrite !loop_tail_eq; cbn.
  split; [done|]. split; [done|]. split; [done|].
  unfold waiting; cbn. rewrite <- Permutation_rev. solve_Permutation.
Qed.

Lemma evict_idle c st t order st' :
  step c st (Refresh t order) = Some st' ->
  (forall s h, cache st' !! s = Some h <-> cache st !! s = Some h /\ ¬ (c_idle c < t - h_access h)) /\
  exists ev, evicted st' = ev ++ evicted st /\ NoDup ev /\
    forall s, s ∈ ev <-> exists h, cache st !! s = Some h /\ c_idle c < t - h_access h.
Proof.
  intros Hstep. destruct (refresh_step c st t order st' Hstep) as (_ & Hc & He & _ & _).
  split.
  - intros s h. rewrite Hc, map_filter_lookup_Some. done.
  - eexists. split; [exact He|]. split; [apply NoDup_keys|].
    intros s. rewrite elem_of_keys. unfold is_Some. setoid_rewrite map_filter_lookup_Some. done.
Qed.

Lemma requery_expired c st t order st' :
  step c st (Refresh t order) = Some st' ->
  requeued st' = rev order ++ requeued st /\
  waiting st' ≡ₚ order ++ waiting st /\
  NoDup order /\
  forall s, s ∈ order <->
    exists h, cache st !! s = Some h /\ ¬ (c_idle c < t - h_access h) /\ h_expires h < t.
Proof.
  intros Hstep. destruct (refresh_step c st t order st' Hstep) as (Ho & _ & _ & Hr & Hw).
  split; [done|]. split; [done|]. split; [rewrite Ho; apply NoDup_keys|].
  intros s. rewrite Ho, elem_of_keys. unfold is_Some. setoid_rewrite map_filter_lookup_Some. done.
Qed.

(* nothing but a refresh tick removes an entry *)
Lemma evict_only_on_refresh c st l st' :
  step c st l = Some st' -> (forall t order, l <> Refresh t order) ->
  evicted st' = evicted st /\ forall s, is_Some (cache st !! s) -> is_Some (cache st' !! s).
Proof.
  destruct st as [k tl lr tr rr pe inf sub req bat han evi del pk]. intros Hstep Hl.
  destruct l as [s0| |res err|now| |t order|s0 now]; cbn [step] in Hstep.
  - destruct (can_receive c pe inf); [|done]. by injection Hstep as <-.
  - destruct lr as [s1|]; [|done]. destruct (can_receive c pe inf); [|done]. injection Hstep as <-.
    unfold cache. by rewrite loop_tail_evicted, loop_tail_core.
  - destruct inf as [|i1 inf]; [|done]. destruct pe as [|p1 pe]; [done|]. by injection Hstep as <-.
  - destruct inf as [|[ip io] inf]; [done|]. injection Hstep as <-.
    unfold cache. rewrite loop_tail_evicted, loop_tail_core. split; [done|]. cbn [st_core]. intros s Hs.
    rewrite handle_info_cache. apply lookup_insert_is_Some. destruct (decide (ip = s)); auto.
  - destruct rr as [i1|]; [|done]. injection Hstep as <-.
    unfold cache. by rewrite loop_tail_evicted, loop_tail_core.
  - by destruct (Hl t order).
  - injection Hstep as <-. split; [done|]. unfold cache; cbn. intros s Hs. unfold touch.
    destruct (k_cache k !! s0) eqn:E; [|done]. apply lookup_insert_is_Some. destruct (decide (s0 = s)); auto.
Qed.

(* ---- non-vacuity: concrete histories on which the hypotheses of the theorems hold -------------------- *)

Definition x_cfg := Config 10 5 30 2.   (* TTL 10, negative TTL 5, idle 30, batch limit 2 *)
Definition x_a : source := [97%N].
Definition x_b : source := [98%N].
Definition x_i1 := Inst [105%N; 49%N] [[116%N]].
Definition x_i2 := Inst [105%N; 50%N] [].
(* a resolves to i1, b to nothing; both answers are delivered *)
Definition x_fill : list label :=
  [Submit x_a; Submit x_b; Batch [(x_a, Some x_i1)] false; HandleInfo 100; HandleInfo 100; Return; Return].
(* tick at 111: both are past their TTL, none idle; the provider fails with an empty map *)
Definition x_fail : list label :=
  [Refresh 111 [x_a; x_b]; SendLookup; SendLookup; Batch [] true; HandleInfo 112; HandleInfo 112].
(* tick at 123: both expired again (the failed refresh renewed them with the negative TTL); a now resolves to i2 *)
Definition x_renew : list label :=
  [Refresh 123 [x_b; x_a]; SendLookup; SendLookup; Batch [(x_a, Some x_i2); (x_b, None)] false;
   HandleInfo 124; HandleInfo 124].

Example ex_fill :
  exists st, run (step x_cfg) init x_fill = Some st /\
    serves st x_a x_i1 /\ peek_result (cache st) x_b = Some None /\
    (gauge_pos st, gauge_neg st) = (1, 1) /\
    delivered st = [(x_b, None); (x_a, Some x_i1)] /\ in_transit st = [] /\ waiting st = [] /\
    queried st = [x_a; x_b] /\ due_answers st = [(x_a, Some x_i1); (x_b, None)].
Proof. eexists; split; [vm_compute; reflexivity|]. vm_compute. repeat split; reflexivity. Qed.

Example ex_keeps :
  exists st1 st2,
    run (step x_cfg) init x_fill = Some st1 /\ run (step x_cfg) st1 x_fail = Some st2 /\
    serves st1 x_a x_i1 /\
    handled st2 = [(x_a, None); (x_b, None)] ++ handled st1 /\ evicted st2 = [] ++ evicted st1 /\
    serves st2 x_a x_i1 /\ (gauge_pos st2, gauge_neg st2, k_rneg (st_core st2)) = (1, 1, 2).
Proof.
  eexists _, _. split; [vm_compute; reflexivity|]. split; [vm_compute; reflexivity|].
  vm_compute. repeat split; reflexivity.
Qed.

Example ex_replaces :
  exists st1 st3,
    run (step x_cfg) init x_fill = Some st1 /\ run (step x_cfg) st1 (x_fail ++ x_renew) = Some st3 /\
    serves st1 x_a x_i1 /\ x_a ∉ firstn (length (evicted st3) - length (evicted st1)) (evicted st3) /\
    serves st3 x_a x_i2 /\ (gauge_pos st3, gauge_neg st3, k_rpos (st_core st3), k_rneg (st_core st3)) = (1, 1, 1, 3).
Proof.
  eexists _, _. split; [vm_compute; reflexivity|]. split; [vm_compute; reflexivity|].
  vm_compute. repeat split; try reflexivity. apply not_elem_of_nil.
Qed.

(* refresh ticks at the boundaries: idle for exactly the idle period is kept, one more is evicted; at
   exactly the expiry time an entry is not queried again, one later it is *)
Example ex_refresh_boundaries :
  exists st1, run (step x_cfg) init (x_fill ++ [Peek x_b 120]) = Some st1 /\
    (exists h, cache st1 !! x_a = Some h /\ h_access h = 100 /\ h_expires h = 110) /\
    (exists st', step x_cfg st1 (Refresh 130 [x_a; x_b]) = Some st' /\
       evicted st' = [] /\ requeued st' = [x_b; x_a] /\ serves st' x_a x_i1 /\ (gauge_pos st', gauge_neg st') = (1, 1)) /\
    (exists st', step x_cfg st1 (Refresh 131 [x_b]) = Some st' /\
       evicted st' = [x_a] /\ requeued st' = [x_b] /\ peek_result (cache st') x_a = None /\
       peek_result (cache st') x_b = Some None /\ (gauge_pos st', gauge_neg st') = (0, 1)) /\
    (exists st', step x_cfg st1 (Refresh 110 [x_b]) = Some st' /\ evicted st' = [] /\ requeued st' = [x_b]) /\
    (exists st', step x_cfg st1 (Refresh 111 [x_b; x_a]) = Some st' /\ evicted st' = [] /\ requeued st' = [x_a; x_b]) /\
    step x_cfg st1 (Refresh 111 [x_b]) = None.
Proof.
  eexists. split; [vm_compute; reflexivity|].
  split; [eexists; split; [vm_compute; reflexivity|]; split; reflexivity|].
  repeat (split; [eexists; split; [vm_compute; reflexivity|]; vm_compute; repeat split; reflexivity|]).
  vm_compute; reflexivity.
Qed.

(* an evicted source that is looked up again starts from scratch: a failed answer is then served as a miss *)
Example ex_evicted_forgets :
  exists st, run (step x_cfg) init (x_fill ++ [Refresh 131 []; Submit x_a; Batch [] true; HandleInfo 132]) = Some st /\
    evicted st = [x_a; x_b] /\ peek_result (cache st) x_a = Some None /\ peek_result (cache st) x_b = None /\
    (gauge_pos st, gauge_neg st) = (0, 1).
Proof. eexists; split; [vm_compute; reflexivity|]. vm_compute. repeat split; reflexivity. Qed.

(* batches never exceed the limit: a third submission is refused until the batch of two has been looked up *)
Example ex_batch_limit :
  exists st, run (step x_cfg) init [Submit x_a; Submit x_b] = Some st /\ step x_cfg st (Submit x_a) = None /\
    exists st', step x_cfg st (Batch [] false) = Some st' /\ inflight st' = [(x_a, None); (x_b, None)].
Proof.
  eexists; split; [vm_compute; reflexivity|]. split; [vm_compute; reflexivity|].
  eexists; split; [vm_compute; reflexivity|]. vm_compute; reflexivity.
Qed.
