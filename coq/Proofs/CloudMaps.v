(* Proofs about the MetricMaps the cloud stage builds (Model/CloudMaps.v): whatever order Go's map
   iteration merges the re-keyed series of a dispatch in - including series that collide after the
   update - the dispatched map holds, per series key, exactly the sum of the contents of the delivered
   series (counter totals, timer value multisets, sampled counts, set members) and the newest gauge;
   summed over a whole run, the dispatched maps hold exactly the contents of the downstream log.
   Built on C07's homomorphism abs (merge a b) = abs a + abs b (Proofs/MetricMapMerge.v). *)
From stdpp Require Import gmap gmultiset.
From GS Require Import Base.Bytes Base.LTS Model.Series Model.MetricMap Model.Content Model.Cloud
  Model.CloudMaps Proofs.MetricMapMerge Proofs.MetricMapMergeTree Proofs.Cloud Proofs.CloudInv
  Proofs.CloudSteps.

Lemma fold_left_fmap' {A B C} (f : A → B → A) (g : C → B) (l : list C) (a : A) :
  fold_left (λ m e, f m (g e)) l a = fold_left f (g <$> l) a.
Proof. revert a; induction l as [|x r IH]; intros a; cbn; [done|apply IH]. Qed.

(* merging series one by one into a fresh map is MergeMaps of the one-series maps *)
Lemma abs_entries_merge_maps es : abs_entries es = merge_maps (entry_map <$> es).
Proof. unfold abs_entries, merge_maps, entry_map. apply fold_left_fmap'. Qed.

Lemma abs_abs_entries es : abs (abs_entries es) = cmap_sum (entry_cmap <$> es).
Proof.
  rewrite abs_entries_merge_maps, abs_merge_maps. unfold entry_cmap. by rewrite <- list_fmap_compose.
Qed.

(* C11_merge_contents: the order of merging does not matter for the contents *)
Lemma merge_contents es ord : ord ≡ₚ es → abs (abs_entries ord) = cmap_sum (entry_cmap <$> es).
Proof. intros H. rewrite abs_abs_entries. apply cmap_sum_perm. by rewrite H. Qed.

Lemma dispatch_contents b m : dispatch_of b m → abs m = cmap_sum (entry_cmap <$> delivered_metrics b).
Proof. intros (ord & Hp & ->). by apply merge_contents. Qed.

(* C11_merge_gauges: the merged gauge is a newest one among the delivered gauges of that key *)
Lemma merge_gauges es ord k :
  ord ≡ₚ es → gauge_newest (entry_map <$> es) k (gauges (abs_entries ord) !! k).
Proof.
  intros Hp. rewrite abs_entries_merge_maps.
  destruct (merge_maps_is_tree (entry_map <$> ord)) as [He Hl].
  pose proof (tree_gauges (merge_maps_tree (entry_map <$> ord)) k) as Hg.
  rewrite He, Hl in Hg. revert Hg.
  assert (Hin : ∀ m, In m (entry_map <$> ord) ↔ In m (entry_map <$> es)).
  { intros m. rewrite <- !elem_of_list_In. by rewrite Hp. }
  unfold gauge_newest. destruct (gauges (merge_maps (entry_map <$> ord)) !! k) as [g|].
  - intros [(m & g' & Hm & Hlk & Hts) Hmax]. split.
    + exists m, g'. split; [|done]. destruct Hm as [<-|Hm]; [cbn in Hlk; by rewrite lookup_empty in Hlk|by apply Hin].
    + intros m' g'' Hm'. apply Hmax. right. by apply Hin.
  - intros Hnone m Hm. apply Hnone. right. by apply Hin.
Qed.

(* ---- along a run ------------------------------------------------------------------------------------ *)

Lemma metrics_of_app xs ys : metrics_of (xs ++ ys) = metrics_of xs ++ metrics_of ys.
Proof. unfold metrics_of. apply omap_app. Qed.
Lemma delivered_metrics_app b1 b2 : delivered_metrics (b1 ++ b2) = delivered_metrics b1 ++ delivered_metrics b2.
Proof. unfold delivered_metrics. by rewrite fmap_app, metrics_of_app. Qed.

Lemma run_batches ls : ∀ s0 st,
  run step s0 ls = Some st → down st = down s0 ++ mjoin (batches s0 ls).
Proof.
  induction ls as [|l r IH]; intros s0 st H; cbn in *.
  - injection H as <-. by rewrite app_nil_r.
  - destruct (step s0 l) as [s1|] eqn:E; [|done]. cbn.
    rewrite (IH _ _ H), (step_down _ _ _ E), list.drop_app. by rewrite <- app_assoc.
Qed.

Lemma dispatches_contents bs maps :
  Forall2 dispatch_of bs maps → cmap_sum (abs <$> maps) = cmap_sum (entry_cmap <$> delivered_metrics (mjoin bs)).
Proof.
  induction 1 as [|b m bs maps Hd _ IH]; [done|].
  change (mjoin (b :: bs)) with (b ++ mjoin bs).
  rewrite delivered_metrics_app, fmap_app, cmap_sum_app, <- IH, <- (dispatch_contents _ _ Hd). done.
Qed.

(* C11_exactly_once_contents *)
Lemma exactly_once_contents ls st maps :
  run step init ls = Some st → Forall2 dispatch_of (batches init ls) maps →
  items_in ls ≡ₚ (d_orig <$> down st) ++ parked st
  ∧ cmap_sum (abs <$> maps) = cmap_sum (entry_cmap <$> delivered_metrics (down st)).
Proof.
  intros H Hm. split; [by apply exactly_once|].
  rewrite (run_batches _ _ _ H). cbn. by apply dispatches_contents.
Qed.

(* what is parked for a source, as the map awaitingMetrics[s] holds it *)
Lemma parked_contents q ord : ord ≡ₚ q → abs (abs_entries ord) = cmap_sum (entry_cmap <$> q).
Proof. apply merge_contents. Qed.
