(* The relay's event line (constructEventMessage) parses back, under the lexer model, to the
   event it was printed from. *)
From Coq Require Import Lia ZifyBool ZifyNat ZifyN DecimalN DecimalPos.
From GS Require Import Base.Bytes Model.Lexer Model.Batching Model.Relay Proofs.Relay.
Local Open Scope N_scope.
Arguments N.mul : simpl never.
Arguments N.add : simpl never.
Arguments N.modulo : simpl never.
Arguments N.sub : simpl never.

(* ---------------------------------------------------------------------------------------- *)
(* decimal printing and the lexer's number reader *)

Fixpoint uint_digits (d : Decimal.uint) : list N :=
  match d with
  | Decimal.Nil => []
  | Decimal.D0 r => 0 :: uint_digits r | Decimal.D1 r => 1 :: uint_digits r
  | Decimal.D2 r => 2 :: uint_digits r | Decimal.D3 r => 3 :: uint_digits r
  | Decimal.D4 r => 4 :: uint_digits r | Decimal.D5 r => 5 :: uint_digits r
  | Decimal.D6 r => 6 :: uint_digits r | Decimal.D7 r => 7 :: uint_digits r
  | Decimal.D8 r => 8 :: uint_digits r | Decimal.D9 r => 9 :: uint_digits r
  end.
Definition step (v k : N) : N := v * 10 + k.
Definition horner (ds : list N) (v : N) : N := fold_left step ds v.

Lemma uint_bytes_digits d : uint_bytes d = map (N.add 48) (uint_digits d).
Proof. induction d; cbn [uint_bytes uint_digits map]; try rewrite IHd; reflexivity. Qed.
Lemma uint_digits_lt d : Forall (fun k => k < 10) (uint_digits d).
Proof. induction d; cbn [uint_digits]; constructor; try assumption; lia. Qed.

Lemma horner_acc d : forall acc, horner (uint_digits d) (Npos acc) = Npos (Pos.of_uint_acc d acc).
Proof.
  unfold horner. induction d; intros acc; cbn [uint_digits fold_left Pos.of_uint_acc]; [reflexivity|..];
    rewrite <- IHd; f_equal; unfold step; lia.
Qed.
Lemma horner_of_uint d : horner (uint_digits d) 0 = Pos.of_uint d.
Proof.
  unfold horner. induction d; cbn [uint_digits fold_left Pos.of_uint]; [reflexivity | exact IHd |..];
    match goal with |- fold_left step _ (step 0 ?k) = _ => change (step 0 k) with k end;
    apply horner_acc.
Qed.
Lemma horner_dec n : horner (uint_digits (N.to_uint n)) 0 = n.
Proof. rewrite horner_of_uint. exact (DecimalN.Unsigned.of_to n). Qed.

Lemma horner_ge ds : forall v, v <= horner ds v.
Proof.
  unfold horner. induction ds as [|k ds IH]; intros v; cbn [fold_left]; [lia|].
  specialize (IH (step v k)). unfold step in *. lia.
Qed.

Definition not_digit_head (l : str) : Prop := match l with [] => True | b :: _ => is_digit b = false end.

Lemma lex_uint_digits ds : Forall (fun k => k < 10) ds -> forall v consumed rest,
  horner ds v < two64 ->
  lex_uint v consumed (map (N.add 48) ds ++ rest)
  = lex_uint (horner ds v) (consumed || match ds with [] => false | _ => true end) rest.
Proof.
  induction ds as [|k ds IH]; intros Hd v consumed rest Hlt.
  - cbn. now rewrite orb_false_r.
  - inversion Hd; subst. cbn [map app lex_uint].
    assert (Hdig : is_digit (48 + k) = true) by (unfold is_digit, c_0, c_9; lia).
    rewrite Hdig. replace (48 + k - c_0) with k by (unfold c_0; lia).
    pose proof (horner_ge ds (step v k)) as Hge. unfold horner in *. cbn [fold_left] in Hlt.
    unfold step in *.
    assert (Hov : ((max_uint64 - k) / 10 <? v) = false).
    { apply N.ltb_ge, N.div_le_lower_bound; [discriminate|]. unfold max_uint64, two64 in *. lia. }
    rewrite Hov.
    rewrite IH by assumption. rewrite orb_true_r. cbn [fold_left]. unfold step.
    destruct ds; reflexivity.
Qed.

Lemma dec_N_nonempty n : uint_digits (N.to_uint n) <> [].
Proof.
  destruct n as [|p]; [discriminate|]. cbn [N.to_uint].
  intros H. pose proof (horner_dec (Npos p)) as E. cbn [N.to_uint] in E. rewrite H in E. discriminate.
Qed.

(* the number, then a byte that is neither a digit nor NUL *)
Lemma lex_uint_dec n c r : n < two64 -> is_digit c = false -> c <> c_nul ->
  lex_uint 0 false (dec_N n ++ c :: r) = Ok (n, c :: r).
Proof.
  intros Hn Hc Hnul. unfold dec_N. rewrite uint_bytes_digits.
  rewrite lex_uint_digits; [|apply uint_digits_lt | rewrite horner_dec; exact Hn].
  rewrite horner_dec. pose proof (dec_N_nonempty n).
  destruct (uint_digits (N.to_uint n)); [congruence|].
  cbn [orb lex_uint]. rewrite Hc. destruct (N.eqb_spec c c_nul); [contradiction | reflexivity].
Qed.

Lemma lex_uint32_dec n c r : n <= max_uint32 -> is_digit c = false -> c <> c_nul ->
  lex_uint32 (dec_N n ++ c :: r) = Ok (n, c :: r).
Proof.
  intros Hn Hc Hnul. unfold lex_uint32. rewrite lex_uint_dec; try assumption.
  - destruct (N.ltb_spec max_uint32 n); [lia | reflexivity].
  - unfold max_uint32, two64 in *. lia.
Qed.

(* ---------------------------------------------------------------------------------------- *)
(* text escaping *)

Lemma escape_nl_head b r : b <> c_nl -> escape_nl (b :: r) = b :: escape_nl r.
Proof. intros H. cbn. destruct (N.eqb_spec b c_nl); [contradiction | reflexivity]. Qed.

Lemma unescape_escape_nl s : no_bsn s = true -> unescape (escape_nl s) = s.
Proof.
  induction s as [|b r IH]; intros H; [reflexivity|].
  assert (Hr : no_bsn r = true).
  { cbn [no_bsn] in H. destruct r; [reflexivity|]. apply andb_prop in H. tauto. }
  specialize (IH Hr).
  destruct (N.eqb_spec b c_nl) as [->|Hnl].
  - cbn [escape_nl]. change (c_nl =? c_nl) with true. cbn iota.
    cbn [unescape]. change ((c_bslash =? c_bslash) && (c_n =? c_n)) with true. cbn iota. now rewrite IH.
  - rewrite escape_nl_head by assumption.
    destruct r as [|b2 r'].
    + reflexivity.
    + destruct (N.eqb_spec b2 c_nl) as [->|Hnl2].
      * (* the next source byte is a newline: it was printed as backslash n *)
        cbn [escape_nl] in *. change (c_nl =? c_nl) with true in *. cbn iota in *.
        cbn [unescape]. cbn [unescape] in IH.
        change ((c_bslash =? c_bslash) && (c_n =? c_n)) with true in IH. cbn iota in IH.
        replace ((b =? c_bslash) && (c_bslash =? c_n)) with false by (unfold c_bslash, c_n; lia).
        change ((c_bslash =? c_bslash) && (c_n =? c_n)) with true. cbn iota.
        congruence.
      * rewrite escape_nl_head in * by assumption.
        cbn [no_bsn] in H. apply andb_prop in H. destruct H as [Hpair _].
        apply negb_true_iff in Hpair. cbn [unescape]. rewrite Hpair. f_equal. exact IH.
Qed.

(* ---------------------------------------------------------------------------------------- *)
(* the attribute machine *)

Definition rest_ok (rest : str) : Prop := rest = [] \/ exists r, rest = c_pipe :: r.
Lemma efield_bytes k data : no_pipe data = true -> forall acc e tags rest,
  lex_eattrs (EField k acc) e tags (data ++ rest) = lex_eattrs (EField k (rev data ++ acc)) e tags rest.
Proof.
  induction data as [|b data IH]; intros H acc e tags rest; [reflexivity|].
  cbn [no_pipe forallb] in H. apply andb_prop in H. destruct H as [Hb Hd].
  cbn [app lex_eattrs]. destruct (b =? c_pipe); [discriminate|].
  rewrite (IH Hd). cbn [rev]. now rewrite <- app_assoc.
Qed.

Lemma eattrs_rest e tags rest k data : rest_ok rest ->
  lex_eattrs (EField k (rev data)) e tags rest
  = match set_field k data e with
    | Ok e' => lex_eattrs EAttrs e' tags rest | Rej x => Rej x | Pan => Pan end.
Proof.
  intros [->|[r ->]]; cbn [lex_eattrs]; rewrite rev_involutive.
  - destruct (set_field k data e); reflexivity.
  - change (c_pipe =? c_pipe) with true. cbn iota. destruct (set_field k data e); reflexivity.
Qed.

Lemma eattr_field k data e tags rest :
  is_field_key k = true -> no_pipe data = true -> rest_ok rest ->
  lex_eattrs EAttrs e tags (c_pipe :: k :: c_colon :: data ++ rest)
  = match set_field k data e with
    | Ok e' => lex_eattrs EAttrs e' tags rest | Rej x => Rej x | Pan => Pan end.
Proof.
  intros Hk Hd Hr. cbn [lex_eattrs]. change (c_pipe =? c_pipe) with true. cbn iota.
  rewrite Hk, orb_true_r. change (c_colon =? c_colon) with true. cbn iota.
  assert ((k =? c_d) = false) as -> by (unfold is_field_key, c_d, c_h, c_k, c_p, c_s, c_t in *; lia).
  rewrite (efield_bytes k data Hd), app_nil_r. apply eattrs_rest. exact Hr.
Qed.

Lemma edate_digits ds : Forall (fun k => k < 10) ds -> forall v consumed e tags rest,
  horner ds v < two64 ->
  lex_eattrs (EDate v consumed) e tags (map (N.add 48) ds ++ rest)
  = lex_eattrs (EDate (horner ds v) (consumed || match ds with [] => false | _ => true end)) e tags rest.
Proof.
  induction ds as [|k ds IH]; intros Hd v consumed e tags rest Hlt.
  - cbn. now rewrite orb_false_r.
  - inversion Hd; subst. cbn [map app lex_eattrs].
    assert (Hdig : is_digit (48 + k) = true) by (unfold is_digit, c_0, c_9; lia).
    rewrite Hdig. replace (48 + k - c_0) with k by (unfold c_0; lia).
    pose proof (horner_ge ds (step v k)) as Hge. unfold horner in *. cbn [fold_left] in Hlt.
    unfold step in *.
    assert (Hov : ((max_uint64 - k) / 10 <? v) = false).
    { apply N.ltb_ge, N.div_le_lower_bound; [discriminate|]. unfold max_uint64, two64 in *. lia. }
    rewrite Hov.
    rewrite IH by assumption. rewrite orb_true_r. cbn [fold_left]. unfold step.
    destruct ds; reflexivity.
Qed.

Lemma eattr_date n e tags rest : n <= max_int64 -> rest_ok rest ->
  lex_eattrs EAttrs e tags (c_pipe :: c_d :: c_colon :: dec_N n ++ rest)
  = match set_date n e with
    | Ok e' => lex_eattrs EAttrs e' tags rest | Rej x => Rej x | Pan => Pan end.
Proof.
  intros Hn Hr. cbn [lex_eattrs]. change (c_pipe =? c_pipe) with true. cbn iota.
  change ((c_d =? c_d) || is_field_key c_d) with true. cbn iota.
  change (c_colon =? c_colon) with true. cbn iota. change (c_d =? c_d) with true. cbn iota.
  unfold dec_N. rewrite uint_bytes_digits.
  rewrite edate_digits; [|apply uint_digits_lt | rewrite horner_dec; unfold max_int64, two64 in *; lia].
  rewrite horner_dec. pose proof (dec_N_nonempty n).
  destruct (uint_digits (N.to_uint n)); [congruence|]. cbn [orb].
  destruct Hr as [->|[r ->]]; cbn [lex_eattrs].
  - destruct (set_date n e); reflexivity.
  - change (is_digit c_pipe) with false. change (c_pipe =? c_nul) with false.
    change (c_pipe =? c_pipe) with true. cbn iota. destruct (set_date n e); reflexivity.
Qed.

Lemma etags_bytes t : forallb sep_free t = true -> forall cur e acc r,
  lex_eattrs (ETags cur) e acc (t ++ r) = lex_eattrs (ETags (rev t ++ cur)) e acc r.
Proof.
  induction t as [|b t IH]; intros H cur e acc r; [reflexivity|].
  cbn [forallb] in H. apply andb_prop in H. destruct H as [Hb Ht]. unfold sep_free in Hb.
  cbn [app lex_eattrs].
  destruct (b =? c_comma) eqn:E1; [discriminate|]. destruct (b =? c_pipe) eqn:E2; [discriminate|].
  destruct (b =? c_nul) eqn:E3; [discriminate|].
  rewrite (IH Ht). cbn [rev]. now rewrite <- app_assoc.
Qed.

Lemma etags_join ts : Forall tag_good ts -> forall e acc,
  lex_eattrs (ETags []) e acc (join c_comma ts) = Ok (e, rev ts ++ acc).
Proof.
  induction ts as [|t ts IH]; intros H e acc; [reflexivity|].
  inversion H as [|? ? [Hne Ht] Hts]; subst.
  destruct ts as [|t1 ts].
  - cbn [join]. replace t with (t ++ []) at 1 by apply app_nil_r.
    rewrite (etags_bytes t Ht). cbn [lex_eattrs]. rewrite app_nil_r, add_tag_rev by assumption. reflexivity.
  - change (join c_comma (t :: t1 :: ts)) with (t ++ c_comma :: join c_comma (t1 :: ts)).
    rewrite (etags_bytes t Ht). cbn [lex_eattrs]. change (c_comma =? c_comma) with true. cbn iota.
    rewrite app_nil_r, add_tag_rev by assumption.
    refine (eq_trans (IH Hts e (t :: acc)) _). cbn [rev]. now rewrite <- !app_assoc.
Qed.

Lemma eattr_tags ts e acc : Forall tag_good ts ->
  lex_eattrs EAttrs e acc (c_pipe :: c_hash :: join c_comma ts) = Ok (e, rev ts ++ acc).
Proof.
  intros H. cbn [lex_eattrs]. change (c_pipe =? c_pipe) with true. cbn iota.
  change ((c_hash =? c_d) || is_field_key c_hash) with false. change (c_hash =? c_hash) with true. cbn iota.
  apply etags_join. exact H.
Qed.

(* ---------------------------------------------------------------------------------------- *)
(* the body *)

Lemma nth_error_app_len {A} (a : list A) x b : nth_error (a ++ x :: b) (length a) = Some x.
Proof. induction a; cbn; auto. Qed.
Lemma firstn_app_len {A} (a b : list A) : firstn (length a) (a ++ b) = a.
Proof. induction a; cbn; [now destruct b | now f_equal]. Qed.
Lemma skipn_app_len {A} (a b : list A) : skipn (length a) (a ++ b) = b.
Proof. induction a; cbn; auto. Qed.

Lemma event_body_ok title text rest :
  event_body false (N.of_nat (length title)) (N.of_nat (length text)) (title ++ c_pipe :: text ++ rest)
  = Ok (title, unescape text, rest).
Proof.
  unfold event_body.
  set (tl := N.of_nat (length title)). set (xl := N.of_nat (length text)).
  assert (Hlen : N.of_nat (length (title ++ c_pipe :: text ++ rest)) = tl + 1 + xl + N.of_nat (length rest)).
  { rewrite app_length. cbn [length]. rewrite app_length. lia. }
  rewrite Hlen. destruct (N.ltb_spec (tl + 1 + xl + N.of_nat (length rest)) (tl + 1 + xl)); [lia|].
  unfold index_checked. replace (N.to_nat tl) with (length title) by lia.
  rewrite nth_error_app_len. change (negb (c_pipe =? c_pipe)) with false. cbn iota.
  unfold slice_checked. rewrite Hlen.
  destruct (N.leb_spec 0 tl); [|lia]. destruct (N.leb_spec tl (tl + 1 + xl + N.of_nat (length rest))); [|lia].
  destruct (N.leb_spec (tl + 1) (tl + 1 + xl)); [|lia].
  destruct (N.leb_spec (tl + 1 + xl) (tl + 1 + xl + N.of_nat (length rest))); [|lia].
  cbn [andb].
  replace (N.to_nat (tl - 0)) with (length title) by lia.
  cbn [N.to_nat skipn]. rewrite firstn_app_len.
  replace (N.to_nat (tl + 1)) with (length (title ++ [c_pipe])) by (rewrite app_length; cbn; lia).
  replace (title ++ c_pipe :: text ++ rest) with ((title ++ [c_pipe]) ++ text ++ rest) by (rewrite <- app_assoc; reflexivity).
  rewrite skipn_app_len.
  replace (N.to_nat (tl + 1 + xl - (tl + 1))) with (length text) by lia.
  rewrite firstn_app_len.
  replace (N.to_nat (tl + 1 + xl)) with (length ((title ++ [c_pipe]) ++ text)) by (rewrite !app_length; cbn; lia).
  rewrite app_assoc, skipn_app_len. reflexivity.
Qed.

(* ---------------------------------------------------------------------------------------- *)
(* the whole message *)

Lemma opt_field_rest k v rest : rest_ok rest -> rest_ok (opt_field k v ++ rest).
Proof. intros H. unfold opt_field. destruct v; [exact H | right; eexists; reflexivity]. Qed.

(* one optional h / k / s field *)
Lemma opt_field_step k v e tags rest :
  is_field_key k = true -> no_pipe v = true -> rest_ok rest ->
  lex_eattrs EAttrs e tags (opt_field k v ++ rest)
  = match v with
    | [] => lex_eattrs EAttrs e tags rest
    | _ => match set_field k v e with
           | Ok e' => lex_eattrs EAttrs e' tags rest | Rej x => Rej x | Pan => Pan end
    end.
Proof.
  intros Hk Hv Hr. unfold opt_field. destruct v as [|b v]; [reflexivity|].
  change ((c_pipe :: k :: c_colon :: b :: v) ++ rest) with (c_pipe :: k :: c_colon :: (b :: v) ++ rest).
  apply eattr_field; assumption.
Qed.

(* the end of the message: alert type and tags *)
Lemma alert_tags_tail title text date host key pri stype alert tags :
  alert <= 3 -> Forall tag_good tags ->
  lex_eattrs EAttrs {| e_title := title; e_text := text; e_date := date; e_host := host; e_key := key;
                       e_pri := pri; e_stype := stype; e_alert := 0; e_tags := [] |} []
    ((if alert =? 0 then [] else c_pipe :: c_t :: c_colon :: alert_string alert)
     ++ match tags with [] => [] | _ :: _ => c_pipe :: c_hash :: join c_comma tags end)
  = Ok ({| e_title := title; e_text := text; e_date := date; e_host := host; e_key := key;
           e_pri := pri; e_stype := stype; e_alert := alert; e_tags := [] |}, rev tags).
Proof.
  intros Halert Htags.
  set (tagpart := match tags with [] => [] | _ :: _ => c_pipe :: c_hash :: join c_comma tags end).
  assert (Htp : rest_ok tagpart) by (unfold tagpart; destruct tags; [left; reflexivity | right; eexists; reflexivity]).
  assert (Htail : forall e0, lex_eattrs EAttrs e0 [] tagpart = Ok (e0, rev tags)).
  { intros e0. unfold tagpart. destruct tags; [reflexivity|]. rewrite eattr_tags by assumption. now rewrite app_nil_r. }
  assert (Ha : alert = 0 \/ alert = 1 \/ alert = 2 \/ alert = 3) by lia.
  destruct Ha as [->|[->|[->| ->]]].
  - cbn [N.eqb app]. apply Htail.
  - change ((if 1 =? 0 then [] else c_pipe :: c_t :: c_colon :: alert_string 1) ++ tagpart)
      with (c_pipe :: c_t :: c_colon :: str_warning ++ tagpart).
    rewrite eattr_field by (try reflexivity; assumption). apply Htail.
  - change ((if 2 =? 0 then [] else c_pipe :: c_t :: c_colon :: alert_string 2) ++ tagpart)
      with (c_pipe :: c_t :: c_colon :: str_error ++ tagpart).
    rewrite eattr_field by (try reflexivity; assumption). apply Htail.
  - change ((if 3 =? 0 then [] else c_pipe :: c_t :: c_colon :: alert_string 3) ++ tagpart)
      with (c_pipe :: c_t :: c_colon :: str_success ++ tagpart).
    rewrite eattr_field by (try reflexivity; assumption). apply Htail.
Qed.

Lemma relay_event_lex pf e : event_ok e -> lex pf [] (relay_event e) = OEvent e.
Proof.
  intros [Htl Hxl Htext Hdate Hh Hk Hs Hpri Halert Htags].
  destruct e as [title text date host key pri stype alert tags]. cbn [e_title e_text e_date e_host e_key e_pri e_stype e_alert e_tags] in *.
  unfold relay_event. cbn [e_title e_text e_date e_host e_key e_pri e_stype e_alert e_tags].
  unfold lex, lex_gen. change (c_us =? c_us) with true. cbn iota.
  unfold lex_event_gen. change (negb (c_e =? c_e)) with false. cbn iota.
  cbn [lex_assert bind]. change (c_lbrace =? c_lbrace) with true. cbn iota. cbn [bind].
  rewrite lex_uint32_dec; [|assumption | reflexivity | discriminate].
  cbn [bind lex_assert]. change (c_comma =? c_comma) with true. cbn iota. cbn [bind].
  rewrite lex_uint32_dec; [|assumption | reflexivity | discriminate].
  cbn [bind lex_assert]. change (c_rbrace =? c_rbrace) with true. cbn iota. cbn [bind lex_assert].
  change (c_colon =? c_colon) with true. cbn iota. cbn [bind].
  rewrite event_body_ok. cbn [bind]. rewrite (unescape_escape_nl text Htext).
  (* date *)
  set (tagpart := match tags with [] => [] | _ :: _ => c_pipe :: c_hash :: join c_comma tags end).
  assert (Htp : rest_ok tagpart) by (unfold tagpart; destruct tags; [left; reflexivity | right; eexists; reflexivity]).
  set (r_t := (if alert =? 0 then [] else c_pipe :: c_t :: c_colon :: alert_string alert) ++ tagpart).
  assert (Hrt : rest_ok r_t) by (unfold r_t; destruct (alert =? 0); [exact Htp | right; eexists; reflexivity]).
  set (r_p := (if pri =? 0 then [] else c_pipe :: c_p :: c_colon :: pri_string pri) ++ r_t).
  assert (Hrp : rest_ok r_p) by (unfold r_p; destruct (pri =? 0); [exact Hrt | right; eexists; reflexivity]).
  set (r_s := opt_field c_s stype ++ r_p).
  assert (Hrs : rest_ok r_s) by (apply opt_field_rest; exact Hrp).
  set (r_k := opt_field c_k key ++ r_s).
  assert (Hrk : rest_ok r_k) by (apply opt_field_rest; exact Hrs).
  set (r_h := opt_field c_h host ++ r_k).
  assert (Hrh : rest_ok r_h) by (apply opt_field_rest; exact Hrk).
  assert (Estart :
    lex_eattrs EAttrs (empty_event title text) []
      ((if (date =? 0)%Z then [] else c_pipe :: c_d :: c_colon :: dec_Z date) ++ r_h)
    = lex_eattrs EAttrs {| e_title := title; e_text := text; e_date := date; e_host := []; e_key := [];
                           e_pri := 0; e_stype := []; e_alert := 0; e_tags := [] |} [] r_h).
  { destruct (Z.eqb_spec date 0) as [->|Hnz].
    - reflexivity.
    - destruct date as [|p|p]; [congruence | | lia].
      change (dec_Z (Z.pos p)) with (dec_N (Npos p)).
      change ((c_pipe :: c_d :: c_colon :: dec_N (N.pos p)) ++ r_h) with (c_pipe :: c_d :: c_colon :: dec_N (N.pos p) ++ r_h).
      rewrite eattr_date; [|lia | exact Hrh]. unfold set_date.
      destruct (N.ltb_spec max_int64 (N.pos p)); [lia|]. reflexivity. }
  match goal with |- match ?X with _ => _ end = _ =>
    assert (EX : X = Ok ({| e_title := title; e_text := text; e_date := date; e_host := host; e_key := key;
                            e_pri := pri; e_stype := stype; e_alert := alert; e_tags := [] |}, rev tags)) end.
  2: { rewrite EX. unfold with_tags. cbn. now rewrite rev_involutive. }
  rewrite Estart. clear Estart. cbn [e_title e_text e_date e_host e_key e_pri e_stype e_alert e_tags].
  (* host, key, source type *)
  unfold r_h. rewrite (opt_field_step c_h host) by (try reflexivity; assumption).
  assert (E1 : forall e0 : event, e_host e0 = [] ->
     match host with [] => lex_eattrs EAttrs e0 [] r_k
     | _ :: _ => match set_field c_h host e0 with Ok e' => lex_eattrs EAttrs e' [] r_k | Rej x => Rej x | Pan => Pan end end
     = lex_eattrs EAttrs {| e_title := e_title e0; e_text := e_text e0; e_date := e_date e0; e_host := host;
                            e_key := e_key e0; e_pri := e_pri e0; e_stype := e_stype e0; e_alert := e_alert e0;
                            e_tags := e_tags e0 |} [] r_k).
  { intros e0 H0. destruct host; [destruct e0; cbn in *; subst; reflexivity | reflexivity]. }
  rewrite E1 by reflexivity. clear E1. cbn [e_title e_text e_date e_host e_key e_pri e_stype e_alert e_tags].
  unfold r_k. rewrite (opt_field_step c_k key) by (try reflexivity; assumption).
  assert (E2 : forall e0 : event, e_key e0 = [] ->
     match key with [] => lex_eattrs EAttrs e0 [] r_s
     | _ :: _ => match set_field c_k key e0 with Ok e' => lex_eattrs EAttrs e' [] r_s | Rej x => Rej x | Pan => Pan end end
     = lex_eattrs EAttrs {| e_title := e_title e0; e_text := e_text e0; e_date := e_date e0; e_host := e_host e0;
                            e_key := key; e_pri := e_pri e0; e_stype := e_stype e0; e_alert := e_alert e0;
                            e_tags := e_tags e0 |} [] r_s).
  { intros e0 H0. destruct key; [destruct e0; cbn in *; subst; reflexivity | reflexivity]. }
  rewrite E2 by reflexivity. clear E2. cbn [e_title e_text e_date e_host e_key e_pri e_stype e_alert e_tags].
  unfold r_s. rewrite (opt_field_step c_s stype) by (try reflexivity; assumption).
  assert (E3 : forall e0 : event, e_stype e0 = [] ->
     match stype with [] => lex_eattrs EAttrs e0 [] r_p
     | _ :: _ => match set_field c_s stype e0 with Ok e' => lex_eattrs EAttrs e' [] r_p | Rej x => Rej x | Pan => Pan end end
     = lex_eattrs EAttrs {| e_title := e_title e0; e_text := e_text e0; e_date := e_date e0; e_host := e_host e0;
                            e_key := e_key e0; e_pri := e_pri e0; e_stype := stype; e_alert := e_alert e0;
                            e_tags := e_tags e0 |} [] r_p).
  { intros e0 H0. destruct stype; [destruct e0; cbn in *; subst; reflexivity | reflexivity]. }
  rewrite E3 by reflexivity. clear E3. cbn [e_title e_text e_date e_host e_key e_pri e_stype e_alert e_tags].
  (* priority, alert type, tags *)
  unfold r_p. assert (Hp : pri = 0 \/ pri = 1) by lia. destruct Hp as [->| ->].
  - cbn [N.eqb app]. apply alert_tags_tail; assumption.
  - change (if 1 =? 0 then [] else c_pipe :: c_p :: c_colon :: pri_string 1)
      with (c_pipe :: c_p :: c_colon :: str_low).
    change ((c_pipe :: c_p :: c_colon :: str_low) ++ r_t) with (c_pipe :: c_p :: c_colon :: str_low ++ r_t).
    rewrite eattr_field by (try reflexivity; assumption).
    change (set_field c_p str_low ?e) with
      (Ok {| e_title := e_title e; e_text := e_text e; e_date := e_date e; e_host := e_host e; e_key := e_key e;
             e_pri := 1; e_stype := e_stype e; e_alert := e_alert e; e_tags := e_tags e |}).
    cbn [e_title e_text e_date e_host e_key e_pri e_stype e_alert e_tags].
    apply alert_tags_tail; assumption.
Qed.

(* non-vacuity: an event with every optional field, a newline and a backslash in the text *)
Definition sample_event : event :=
  {| e_title := [116; 124; 49]; e_text := [97; 10; 92; 98; 124]; e_date := 1700000000; e_host := [104; 49];
     e_key := [107]; e_pri := 1; e_stype := [115; 58; 116]; e_alert := 2; e_tags := [[97; 58; 98]; [99]] |}.
Example sample_event_ok : event_ok sample_event.
Proof.
  constructor; cbn; try reflexivity; try (unfold max_uint32, max_int64; lia).
  repeat constructor; discriminate.
Qed.
Example sample_event_wire :
  relay_event sample_event
  = [95;101;123;51;44;54;125;58;116;124;49;124;97;92;110;92;98;124;124;100;58;49;55;48;48;48;48;48;48;48;48;
     124;104;58;104;49;124;107;58;107;124;115;58;115;58;116;124;112;58;108;111;119;124;116;58;101;114;114;111;114;
     124;35;97;58;98;44;99].
Proof. vm_compute. reflexivity. Qed.
