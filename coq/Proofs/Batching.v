(* Lemmas about the batching state machines of Model/Batching.v: conservation (the concatenation
   of the emitted batches is the input, in order), non-emptiness and the hard size limits. *)
From Coq Require Import Lia ZifyBool ZifyNat ZifyN.
From GS Require Import Base.Bytes Model.Batching.
Local Open Scope N_scope.
Arguments N.mul : simpl never.
Arguments N.add : simpl never.

Lemma len_app {A} (a b : list A) : len (a ++ b) = len a + len b.
Proof. unfold len. rewrite app_length. lia. Qed.
Lemma len_nil {A} : len (@nil A) = 0.
Proof. reflexivity. Qed.
Lemma len_one {A} (x : A) : len [x] = 1.
Proof. reflexivity. Qed.

(* ---------------------------------------------------------------------------------------- *)
(* Datadog / New Relic *)

Lemma dd_run_concat {A} (pb : N) (groups : list (list A)) : forall open,
  concat (dd_run pb open groups) = open ++ concat groups.
Proof.
  induction groups as [|g r IH]; intros open; cbn [dd_run concat].
  - destruct open; cbn; [reflexivity | now rewrite app_nil_r].
  - destruct (pb <=? len (open ++ g) + 20) eqn:E; cbn [concat].
    + rewrite IH. cbn. now rewrite app_assoc.
    + rewrite IH. now rewrite app_assoc.
Qed.

Lemma dd_run_nonempty {A} (pb : N) (groups : list (list A)) : forall open,
  Forall (fun g => g <> []) groups -> Forall (fun b => b <> []) (dd_run pb open groups).
Proof.
  induction groups as [|g r IH]; intros open Hg; cbn [dd_run].
  - destruct open; [constructor | constructor; [discriminate | constructor]].
  - inversion Hg as [|? ? Hne Hr]; subst.
    assert (open ++ g <> []) by (destruct open; [exact Hne | discriminate]).
    destruct (pb <=? len (open ++ g) + 20); [constructor; [assumption | now apply IH] | now apply IH].
Qed.

(* every emitted batch but the last one had reached the threshold; the open batch never does *)
Lemma dd_run_threshold {A} (pb : N) (groups : list (list A)) : forall open,
  len open + 20 < pb ->
  forall pre last, dd_run pb open groups = pre ++ [last] -> Forall (fun b => pb <= len b + 20) pre.
Proof.
  induction groups as [|g r IH]; intros open Ho pre last E; cbn [dd_run] in E.
  - destruct open; [destruct pre; discriminate|].
    destruct pre as [|p pre]; [constructor|]. destruct pre; discriminate.
  - destruct (pb <=? len (open ++ g) + 20) eqn:T.
    + destruct pre as [|p pre].
      * constructor.
      * cbn in E. injection E as <- E. constructor; [lia|].
        apply (IH [] ltac:(rewrite len_nil; lia) pre last E).
    + apply (IH (open ++ g) ltac:(lia) pre last E).
Qed.

(* ---------------------------------------------------------------------------------------- *)
(* InfluxDB *)

Lemma cnt_run_concat {A} (pb : N) (items : list A) : forall open,
  concat (cnt_run pb open (len open) items) = open ++ items.
Proof.
  induction items as [|x r IH]; intros open; cbn [cnt_run].
  - destruct open; cbn; [reflexivity | now rewrite app_nil_r].
  - destruct (pb <=? len open + 1) eqn:E; cbn [concat].
    + change 0 with (len (@nil A)). rewrite IH. cbn. now rewrite <- app_assoc.
    + replace (len open + 1) with (len (open ++ [x])) by (rewrite len_app, len_one; reflexivity).
      rewrite IH. now rewrite <- app_assoc.
Qed.

Lemma cnt_run_nonempty {A} (pb : N) (items : list A) : forall open,
  Forall (fun b => b <> []) (cnt_run pb open (len open) items).
Proof.
  induction items as [|x r IH]; intros open; cbn [cnt_run].
  - destruct open; cbn; [constructor | constructor; [discriminate | constructor]].
  - destruct (pb <=? len open + 1).
    + constructor; [destruct open; discriminate | apply (IH [])].
    + replace (len open + 1) with (len (open ++ [x])) by (rewrite len_app, len_one; reflexivity). apply IH.
Qed.

Lemma cnt_run_limit {A} (pb : N) (items : list A) : forall open,
  1 <= pb -> len open < pb -> Forall (fun b => len b <= pb) (cnt_run pb open (len open) items).
Proof.
  induction items as [|x r IH]; intros open Hpb Ho; cbn [cnt_run].
  - destruct (0 <? len open); [constructor; [lia | constructor] | constructor].
  - destruct (pb <=? len open + 1) eqn:E.
    + constructor; [rewrite len_app, len_one; lia | apply (IH []); [assumption | rewrite len_nil; lia]].
    + replace (len open + 1) with (len (open ++ [x])) by (rewrite len_app, len_one; reflexivity).
      apply IH; [assumption | rewrite len_app, len_one; lia].
Qed.

(* all batches but the last are exactly full *)
Lemma cnt_run_full {A} (pb : N) (items : list A) : forall open,
  1 <= pb -> len open < pb ->
  forall pre last, cnt_run pb open (len open) items = pre ++ [last] -> Forall (fun b => len b = pb) pre.
Proof.
  induction items as [|x r IH]; intros open Hpb Ho pre last E; cbn [cnt_run] in E.
  - destruct (0 <? len open); [|destruct pre; discriminate].
    destruct pre as [|p pre]; [constructor | destruct pre; discriminate].
  - destruct (pb <=? len open + 1) eqn:T.
    + destruct pre as [|p pre]; [constructor|].
      cbn in E. injection E as <- E. constructor; [rewrite len_app, len_one; lia|].
      apply (IH [] Hpb ltac:(rewrite len_nil; lia) pre last E).
    + replace (len open + 1) with (len (open ++ [x])) in E by (rewrite len_app, len_one; reflexivity).
      apply (IH (open ++ [x]) Hpb ltac:(rewrite len_app, len_one; lia) pre last E).
Qed.

(* ---------------------------------------------------------------------------------------- *)
(* OTLP *)

Definition otlp_inv {A} (bs : N) (st : otlp_state (A := A)) : Prop :=
  Forall (fun b => b <> [] /\ len b <= bs) (fst st) /\ len (snd st) < bs.

Lemma otlp_fold {A} (bs : N) (items : list A) : forall st,
  1 <= bs -> otlp_inv bs st ->
  let st' := fold_left (otlp_insert bs) items st in
  concat (fst st') ++ snd st' = (concat (fst st) ++ snd st) ++ items /\ otlp_inv bs st'.
Proof.
  induction items as [|x r IH]; intros [closed cur] Hbs [Hc Hcur]; cbn [fold_left].
  - cbn. rewrite app_nil_r. repeat split; assumption.
  - cbn [fst snd] in *.
    assert (Hstep : otlp_insert bs (closed, cur) x =
                    if bs <=? len (cur ++ [x]) then (closed ++ [cur ++ [x]], []) else (closed, cur ++ [x]))
      by reflexivity.
    rewrite Hstep. clear Hstep.
    destruct (bs <=? len (cur ++ [x])) eqn:E.
    + edestruct (IH (closed ++ [cur ++ [x]], [])) as [H1 H2]; [assumption | |].
      * split; cbn [fst snd]; [|rewrite len_nil; lia].
        apply Forall_app; split; [assumption|]. constructor; [|constructor].
        split; [destruct cur; discriminate | rewrite len_app, len_one in *; lia].
      * cbn zeta. split; [|exact H2]. rewrite H1. cbn [fst snd].
        rewrite concat_app. cbn [concat]. rewrite !app_nil_r, <- !app_assoc. reflexivity.
    + edestruct (IH (closed, cur ++ [x])) as [H1 H2]; [assumption | |].
      * split; cbn [fst snd]; [assumption | lia].
      * cbn zeta. split; [|exact H2]. rewrite H1. cbn [fst snd]. rewrite <- !app_assoc. reflexivity.
Qed.

Lemma otlp_batches_spec {A} (bs : N) (items : list A) :
  1 <= bs ->
  concat (otlp_batches bs items) = items
  /\ exists closed cur, otlp_batches bs items = closed ++ [cur]
       /\ Forall (fun b => b <> [] /\ len b <= bs) closed /\ len cur < bs.
Proof.
  intros Hbs. unfold otlp_batches.
  destruct (otlp_fold bs items otlp_new Hbs) as [H1 [H2 H3]].
  { split; cbn; [constructor | lia]. }
  cbn zeta in *. split.
  - rewrite concat_app. cbn [concat]. rewrite app_nil_r. exact H1.
  - eexists _, _. split; [reflexivity | split; assumption].
Qed.

(* ---------------------------------------------------------------------------------------- *)
(* CloudWatch *)

Lemma go_slice_ok {A} (l : list A) lo hi :
  (lo <= hi)%nat -> (hi <= length l)%nat -> go_slice l lo hi = Some (firstn (hi - lo) (skipn lo l)).
Proof.
  intros H1 H2. unfold go_slice.
  destruct (Nat.leb_spec lo hi); [|lia]. destruct (Nat.leb_spec hi (length l)); [|lia]. reflexivity.
Qed.

Lemma skipn_add {A} (a k : nat) : forall l : list A, skipn (a + k) l = skipn k (skipn a l).
Proof.
  induction a as [|a IH]; intros l; [reflexivity|].
  destruct l; cbn [Nat.add skipn]; [now destruct k | apply IH].
Qed.

Lemma skipn_split {A} (l : list A) (a b : nat) :
  (a <= b)%nat -> skipn a l = firstn (b - a) (skipn a l) ++ skipn b l.
Proof.
  intros H. replace b with (a + (b - a))%nat at 2 by lia.
  rewrite skipn_add. now rewrite firstn_skipn.
Qed.

Lemma cw_loop_spec {A} (chunk : nat) (data : list A) : (1 <= chunk)%nat ->
  forall fuel start, (start <= length data)%nat -> (length data - start <= fuel)%nat ->
  exists bs, cw_loop fuel chunk data start = Some bs
             /\ concat bs = skipn start data
             /\ Forall (fun b => b <> [] /\ (length b <= chunk)%nat) bs.
Proof.
  intros Hc. induction fuel as [|f IH]; intros start Hs Hf.
  - exists []. assert (start = length data) by lia. subst. cbn [cw_loop].
    destruct (Nat.ltb_spec (length data) (length data)); [lia|].
    rewrite skipn_all. repeat split; constructor.
  - cbn [cw_loop]. destruct (Nat.ltb_spec start (length data)) as [Hlt|Hge].
    + set (e := Nat.min (start + chunk) (length data)).
      assert (He : (start < e /\ e <= length data /\ e <= start + chunk)%nat) by (unfold e; lia).
      destruct (Nat.leb_spec e start); [lia|].
      rewrite go_slice_ok by lia.
      destruct (IH e ltac:(lia) ltac:(lia)) as (bs & E & Hcat & Hall). rewrite E.
      eexists. split; [reflexivity|]. split.
      * cbn [concat]. rewrite Hcat. symmetry. apply skipn_split. lia.
      * constructor; [|exact Hall].
        assert (length (firstn (e - start) (skipn start data)) = (e - start)%nat) as L.
        { rewrite firstn_length, skipn_length. lia. }
        split; [intros Hn; rewrite Hn in L; cbn in L; lia | lia].
    + exists []. assert (start = length data) by lia. subst.
      rewrite skipn_all. repeat split; constructor.
Qed.

Lemma cw_batches_spec {A} (chunk : nat) (data : list A) : (1 <= chunk)%nat ->
  exists bs, cw_batches chunk data = Some bs /\ concat bs = data
             /\ Forall (fun b => b <> [] /\ (length b <= chunk)%nat) bs.
Proof.
  intros Hc. unfold cw_batches. destruct (Nat.ltb_spec (length data) 1) as [H|H].
  - exists []. destruct data; [repeat split; constructor | cbn in H; lia].
  - destruct (cw_loop_spec chunk data Hc (length data) 0%nat ltac:(lia) ltac:(lia)) as (bs & E & H1 & H2).
    exists bs. repeat split; assumption.
Qed.

(* ---------------------------------------------------------------------------------------- *)
(* statsd relay *)

Lemma blen_cons x a : blen (x :: a) = N.of_nat (length x) + blen a.
Proof. reflexivity. Qed.
Lemma blen_app a b : blen (a ++ b) = blen a + blen b.
Proof.
  induction a as [|x a IH]; [cbn [app]; change (blen []) with 0; lia|].
  cbn [app]. rewrite !blen_cons, IH. lia.
Qed.
Lemma blen_one l : blen [l] = N.of_nat (length l).
Proof. rewrite blen_cons. change (blen []) with 0. lia. Qed.
Lemma blen_pos buf : Forall (fun l => l <> []) buf -> buf <> [] -> 0 < blen buf.
Proof.
  intros H Hne. destruct buf as [|l r]; [congruence|]. inversion H; subst.
  rewrite blen_cons. destruct l; [congruence | cbn [length]; lia].
Qed.

Lemma relay_run_concat (ps : N) (lines : list str) : forall buf,
  Forall (fun l => l <> []) buf -> Forall (fun l => l <> []) lines ->
  concat (relay_run ps buf lines) = buf ++ lines.
Proof.
  induction lines as [|l r IH]; intros buf Hb Hl; cbn [relay_run].
  - destruct buf as [|b0 buf]; [reflexivity|].
    pose proof (blen_pos (b0 :: buf) Hb ltac:(discriminate)).
    destruct (N.ltb_spec 0 (blen (b0 :: buf))); [|lia]. cbn. now rewrite !app_nil_r.
  - inversion Hl; subst.
    destruct (ps <? blen buf + N.of_nat (length l)); cbn [concat].
    + rewrite IH; [reflexivity | repeat constructor; assumption | assumption].
    + rewrite IH; [now rewrite <- app_assoc | apply Forall_app; split; [assumption | repeat constructor; assumption] | assumption].
Qed.

(* the bytes are conserved whatever the lines are *)
Lemma blen_zero_concat buf : blen buf = 0 -> concat buf = [].
Proof.
  induction buf as [|x buf IH]; [reflexivity|]. rewrite blen_cons. intros H.
  destruct x; [cbn; apply IH; cbn [length] in H; lia | cbn [length] in H; lia].
Qed.

Lemma relay_run_bytes (ps : N) (lines : list str) : forall buf,
  concat (concat (relay_run ps buf lines)) = concat buf ++ concat lines.
Proof.
  induction lines as [|l r IH]; intros buf; cbn [relay_run].
  - destruct (N.ltb_spec 0 (blen buf)); cbn [concat]; [now rewrite !app_nil_r|].
    rewrite app_nil_r. symmetry. apply blen_zero_concat. lia.
  - destruct (ps <? blen buf + N.of_nat (length l)); cbn [concat].
    + rewrite concat_app, IH. cbn [concat]. now rewrite app_nil_r.
    + rewrite IH, concat_app. cbn [concat]. now rewrite app_nil_r, <- app_assoc.
Qed.

Definition dgram_ok (ps : N) (d : list str) : Prop := blen d <= ps \/ exists l, d = [l].

Lemma relay_run_limit (ps : N) (lines : list str) : forall buf,
  dgram_ok ps buf -> Forall (dgram_ok ps) (relay_run ps buf lines).
Proof.
  induction lines as [|l r IH]; intros buf Hb; cbn [relay_run].
  - destruct (0 <? blen buf); [constructor; [assumption | constructor] | constructor].
  - destruct (N.ltb_spec ps (blen buf + N.of_nat (length l))).
    + constructor; [assumption|]. apply IH. right. now exists l.
    + apply IH. left. rewrite blen_app, blen_one. lia.
Qed.

Lemma relay_run_nonempty (ps : N) (lines : list str) : forall buf,
  Forall (fun l => N.of_nat (length l) <= ps) lines ->
  Forall (fun d => d <> []) (relay_run ps buf lines).
Proof.
  induction lines as [|l r IH]; intros buf Hl; cbn [relay_run].
  - destruct (N.ltb_spec 0 (blen buf)); [|constructor].
    constructor; [|constructor]. intros ->. cbn in *. lia.
  - inversion Hl; subst. destruct (N.ltb_spec ps (blen buf + N.of_nat (length l))).
    + constructor; [|now apply IH]. intros ->. cbn in *. lia.
    + now apply IH.
Qed.

(* ---------------------------------------------------------------------------------------- *)
(* the statements of Props/C17.v *)
From GS Require Import Model.Lexer Model.Relay Model.InfluxEsc.

Lemma conserve_dd {A} (pb : N) (groups : list (list A)) :
  concat (dd_batches pb groups) = concat groups
  /\ (Forall (fun g => g <> []) groups -> Forall (fun b => b <> []) (dd_batches pb groups)).
Proof.
  split; [apply (dd_run_concat pb groups []) | apply dd_run_nonempty].
Qed.

Lemma conserve_datadog fmt_s pb mk m :
  concat (datadog_payloads fmt_s pb mk m) = concat (dd_groups fmt_s mk m)
  /\ (Forall (fun g => g <> []) (dd_groups fmt_s mk m) ->
      Forall (fun b => b <> []) (datadog_payloads fmt_s pb mk m)).
Proof. apply conserve_dd. Qed.

Lemma conserve_influx fmt_g fmt_s pb mk now m :
  concat (influx_payloads fmt_g fmt_s pb mk now m) = influx_items fmt_g fmt_s mk now m
  /\ Forall (fun b => b <> []) (influx_payloads fmt_g fmt_s pb mk now m).
Proof.
  split; [apply (cnt_run_concat pb _ []) | apply (cnt_run_nonempty pb _ [])].
Qed.

Lemma conserve_otlp fmt_s bs mk m : 1 <= bs ->
  concat (otlp_payloads fmt_s bs mk m) = otlp_items fmt_s mk m
  /\ exists closed last, otlp_payloads fmt_s bs mk m = closed ++ [last]
                         /\ Forall (fun b => b <> []) closed.
Proof.
  intros H. destruct (otlp_batches_spec bs (otlp_items fmt_s mk m) H) as [H1 (closed & cur & E & Hc & _)].
  split; [exact H1|]. exists closed, cur. split; [exact E|].
  eapply Forall_impl; [|exact Hc]. cbn. tauto.
Qed.

Lemma conserve_cloudwatch fmt_s mk m :
  exists bs, cloudwatch_payloads fmt_s mk m = Some bs
             /\ concat bs = concat (cw_groups fmt_s mk m) /\ Forall (fun b => b <> []) bs.
Proof.
  destruct (cw_batches_spec 20 (concat (cw_groups fmt_s mk m)) ltac:(lia)) as (bs & E & H1 & H2).
  exists bs. repeat split; [exact E | exact H1 |]. eapply Forall_impl; [|exact H2]. cbn. tauto.
Qed.

Lemma relay_line_nonempty dt name tags v ty : nl (relay_line dt name tags v ty) <> [].
Proof. unfold nl. destruct (relay_line dt name tags v ty); discriminate. Qed.

Lemma relay_lines_nonempty fmt_f dt m : Forall (fun l => l <> []) (relay_lines fmt_f dt m).
Proof.
  unfold relay_lines. repeat (apply Forall_app; split);
    apply Forall_concat; apply Forall_forall; intros ls Hin; apply in_map_iff in Hin; destruct Hin as (x & <- & _).
  - unfold relay_counter. destruct (has_prefix _ _); repeat constructor. apply relay_line_nonempty.
  - unfold relay_timer. apply Forall_forall. intros l Hl. apply in_map_iff in Hl. destruct Hl as (? & <- & _).
    apply relay_line_nonempty.
  - unfold relay_gauge. repeat constructor. apply relay_line_nonempty.
  - unfold relay_set. apply Forall_forall. intros l Hl. apply in_map_iff in Hl. destruct Hl as (? & <- & _).
    apply relay_line_nonempty.
Qed.

Lemma conserve_relay fmt_f ps dt m :
  concat (relay_payloads fmt_f ps dt m) = relay_lines fmt_f dt m
  /\ (Forall (fun l => N.of_nat (length l) <= ps) (relay_lines fmt_f dt m) ->
      Forall (fun d => d <> []) (relay_payloads fmt_f ps dt m)).
Proof.
  split.
  - apply (relay_run_concat ps _ []); [constructor | apply relay_lines_nonempty].
  - apply relay_run_nonempty.
Qed.

Lemma hard_limits fmt_f fmt_g fmt_s mk m :
  (forall pb now, 1 <= pb -> Forall (fun b => len b <= pb) (influx_payloads fmt_g fmt_s pb mk now m))
  /\ (forall bs, 1 <= bs -> Forall (fun b => len b <= bs) (otlp_payloads fmt_s bs mk m))
  /\ (forall bs, cloudwatch_payloads fmt_s mk m = Some bs -> Forall (fun b => (length b <= 20)%nat) bs)
  /\ (forall ps dt, Forall (fun d => blen d <= ps \/ exists l, d = [l]) (relay_payloads fmt_f ps dt m)).
Proof.
  repeat split.
  - intros pb now H. apply (cnt_run_limit pb _ []); [assumption | rewrite len_nil; lia].
  - intros bs H. destruct (otlp_batches_spec bs (otlp_items fmt_s mk m) H) as [_ (closed & cur & E & Hc & Hcur)].
    unfold otlp_payloads. rewrite E. apply Forall_app. split.
    + eapply Forall_impl; [|exact Hc]. cbn. tauto.
    + constructor; [lia | constructor].
  - intros bs E. destruct (cw_batches_spec 20 (concat (cw_groups fmt_s mk m)) ltac:(lia)) as (bs' & E' & _ & H2).
    unfold cloudwatch_payloads in E. rewrite E' in E. injection E as <-.
    eapply Forall_impl; [|exact H2]. cbn. tauto.
  - intros ps dt. apply (relay_run_limit ps _ []). left. cbn. lia.
Qed.

(* ---------------------------------------------------------------------------------------- *)
(* non-vacuity and the necessity of the side conditions *)
Definition sample_map : fmap :=
  MkFM [MkFC [99] [] [] [] 5 0; MkFC [100] [] [] [] 7 0]
       [MkFT [116] [] [] [] 2 0 0 0 0 0 0 0 0 [0%Z; 0%Z] [] None]
       [MkFG [103] [] [] [] 0] [].
Definition all_on : mask := MkMask false false false false false false false false false.
Definition all_off : mask := MkMask true true true true true true true true true.

(* hypotheses of the conservation theorems hold on a map with three kinds of series, and the
   batches really split: 2 + 2 + 9 + 1 items, perBatch 25 -> flush after the timer *)
Example sample_groups_nonempty : Forall (fun g => g <> []) (dd_groups (fun _ => []) all_on sample_map).
Proof. repeat constructor; discriminate. Qed.
Example sample_datadog_sizes :
  map (@length item) (datadog_payloads (fun _ => []) 25 all_on sample_map) = [13; 1]%nat.
Proof. vm_compute. reflexivity. Qed.

(* without the side condition the claim fails: a timer with every sub-metric disabled and
   perBatch <= 20 makes maybeFlush emit an empty batch *)
Example datadog_empty_batch :
  In [] (datadog_payloads (fun _ => []) 20 all_off (MkFM [] (fm_timers sample_map) [] [])).
Proof. vm_compute. left. reflexivity. Qed.
(* and a line longer than the packet size makes the relay hand over an empty buffer first *)
Example relay_empty_datagram : relay_batches 3 [[97; 98; 99; 10]] = [[]; [[97; 98; 99; 10]]].
Proof. reflexivity. Qed.
(* OTLP: a count that is a multiple of the batch size leaves an empty trailing batch *)
Example otlp_trailing_empty : otlp_batches 2 [1; 2; 3; 4] = [[1; 2]; [3; 4]; []].
Proof. reflexivity. Qed.
Example cloudwatch_chunks : option_map (map (@length nat)) (cw_batches 20 (seq 0 45)) = Some [20; 20; 5]%nat.
Proof. vm_compute. reflexivity. Qed.

(* when is a Datadog group empty?  only a timer's: an empty (non-nil) histogram map, or every
   sub-metric disabled and no percentile *)
Lemma enabled_subs_nonempty mk t : some_enabled mk = true -> enabled_subs mk t <> [].
Proof.
  unfold some_enabled, enabled_subs, timer_subs. intros H.
  destruct mk as [a b c d e f g h i]; cbn [d_lower d_upper d_count d_count_ps d_mean d_median d_stddev d_sum d_sumsq] in *.
  destruct a, b, c, d, e, f, g, h, i; try discriminate H; cbn; discriminate.
Qed.
Lemma datadog_no_empty_batch fmt_s pb mk m :
  some_enabled mk = true -> Forall (fun t => ft_hist t <> Some []) (fm_timers m) ->
  Forall (fun b => b <> []) (datadog_payloads fmt_s pb mk m).
Proof.
  intros Hm Ht. apply conserve_datadog. unfold dd_groups.
  repeat (apply Forall_app; split); apply Forall_forall; intros g Hg; apply in_map_iff in Hg;
    destruct Hg as (x & <- & Hin); try discriminate.
  unfold dd_timer. rewrite Forall_forall in Ht. specialize (Ht x Hin).
  destruct (ft_hist x) as [[|b h]|]; [congruence | discriminate |].
  pose proof (enabled_subs_nonempty mk x Hm). destruct (enabled_subs mk x); [congruence | discriminate].
Qed.
