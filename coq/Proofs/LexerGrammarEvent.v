(* C02, event half: the lexer model on rendered event lines  _e{n,m}:title|text|attrs... *)
From Coq Require Import Lia.
From GS Require Import Base.Bytes Model.Lexer Model.LexGrammar Proofs.LexerGrammar.
Local Open Scope N_scope.

(* ---------------------------------------------------------------------------------------- *)
(* decimal numerals *)

Lemma digit_step_ge v b : v <= digit_step v b.
Proof. unfold digit_step; lia. Qed.

Lemma fold_digit_ge ds : forall v, v <= fold_left digit_step ds v.
Proof.
  induction ds as [|d ds IH]; intros v; cbn [fold_left]; [lia|].
  etransitivity; [apply (digit_step_ge v d)|apply IH].
Qed.

(* lexUint's overflow test *)
Lemma uint_test_ok v d : v * 10 + d <= max_uint64 -> ((max_uint64 - d) / 10 <? v) = false.
Proof.
  intros H. apply N.ltb_ge. apply N.div_le_lower_bound; [discriminate|]. unfold max_uint64 in *. lia.
Qed.

Lemma uint_test_inv v d : ((max_uint64 - d) / 10 <? v) = false -> d <= 9 -> v * 10 + d <= max_uint64.
Proof.
  intros H Hd. apply N.ltb_ge in H. pose proof (N.mul_div_le (max_uint64 - d) 10).
  unfold max_uint64 in *. lia.
Qed.

(* what may follow a numeral: a byte that is neither a digit nor NUL *)
Definition stop_byte (k : str) : Prop := exists b k', k = b :: k' /\ is_digit b = false /\ b <> c_nul.

Lemma lex_uint_digits ds : Forall (fun b => is_digit b = true) ds -> forall v c k,
  (ds <> [] \/ c = true) -> stop_byte k -> fold_left digit_step ds v < two64 ->
  lex_uint v c (ds ++ k) = Ok (fold_left digit_step ds v, k).
Proof.
  induction 1 as [|d ds Hd _ IH]; intros v c k Hc (b & k' & -> & Hb & Hn) Hlt.
  - destruct Hc as [Hc| ->]; [contradiction|]. cbn [app fold_left lex_uint]. rewrite Hb.
    destruct (N.eqb_spec b c_nul); [contradiction|]. reflexivity.
  - cbn [app fold_left lex_uint] in *. rewrite Hd.
    pose proof (fold_digit_ge ds (digit_step v d)) as Hge.
    rewrite uint_test_ok by (unfold digit_step, two64, max_uint64 in *; lia).
    fold (digit_step v d).
    apply IH; [right; reflexivity|exists b, k'; repeat split; assumption|assumption].
Qed.

Lemma lex_uint32_digits ds k : is_number ds -> stop_byte k -> digit_value ds <= max_uint32 ->
  lex_uint32 (ds ++ k) = Ok (digit_value ds, k).
Proof.
  intros [Hne Hd] Hk Hle. unfold lex_uint32.
  rewrite (lex_uint_digits ds Hd 0 false k (or_introl Hne) Hk)
    by (fold (digit_value ds); unfold max_uint32, two64 in *; lia).
  fold (digit_value ds). destruct (N.ltb_spec max_uint32 (digit_value ds)); [lia|reflexivity].
Qed.

(* the usual decimal rendering denotes its number *)
Lemma dec_fuel_value fuel : forall n acc, n < 2 ^ N.of_nat fuel ->
  fold_left digit_step (dec_fuel fuel n acc) 0 = fold_left digit_step acc n.
Proof.
  induction fuel as [|f IH]; intros n acc Hn.
  - cbn in Hn. assert (n = 0) as -> by lia. reflexivity.
  - cbn [dec_fuel]. destruct (N.ltb_spec n 10) as [Hlt|Hge].
    + cbn [fold_left]. f_equal. unfold digit_step, c_0. lia.
    + rewrite IH.
      * cbn [fold_left]. f_equal. unfold digit_step, c_0.
        pose proof (N.div_mod' n 10) as Hdm.
        set (q := n / 10) in *. set (m := n mod 10) in *. clearbody q m. lia.
      * rewrite Nat2N.inj_succ, N.pow_succ_r' in Hn.
        apply N.div_lt_upper_bound; lia.
Qed.

Lemma digit_value_dec n : digit_value (dec n) = n.
Proof.
  unfold digit_value, dec. rewrite dec_fuel_value; [reflexivity|].
  rewrite Nat2N.inj_succ, N2Nat.id, N.pow_succ_r'. pose proof (N.size_gt n). lia.
Qed.

Lemma dec_fuel_digits fuel : forall n acc, Forall (fun b => is_digit b = true) acc ->
  Forall (fun b => is_digit b = true) (dec_fuel fuel n acc).
Proof.
  assert (Hd : forall m, m < 10 -> is_digit (c_0 + m) = true).
  { intros m Hm. unfold is_digit, c_0, c_9. apply andb_true_intro; split; apply N.leb_le; lia. }
  induction fuel as [|f IH]; intros n acc Hacc; [exact Hacc|].
  cbn [dec_fuel]. destruct (N.ltb_spec n 10).
  - constructor; [apply Hd; assumption|assumption].
  - apply IH. constructor; [apply Hd, N.mod_lt; lia|assumption].
Qed.

Lemma dec_fuel_nonempty fuel : forall n acc, acc <> [] -> dec_fuel fuel n acc <> [].
Proof.
  induction fuel as [|f IH]; intros n acc Hacc; [exact Hacc|].
  cbn [dec_fuel]. destruct (n <? 10); [discriminate|apply IH; discriminate].
Qed.

Lemma is_number_dec n : is_number (dec n).
Proof.
  unfold dec. split.
  - cbn [dec_fuel]. destruct (n <? 10); [discriminate|apply dec_fuel_nonempty; discriminate].
  - apply dec_fuel_digits. constructor.
Qed.

(* ---------------------------------------------------------------------------------------- *)
(* event body *)

Lemma firstn_len_app {A} (a b : list A) : firstn (length a) (a ++ b) = a.
Proof. induction a as [|x a IH]; cbn; [reflexivity|f_equal; exact IH]. Qed.

Lemma skipn_len_app {A} (a b : list A) : skipn (length a) (a ++ b) = b.
Proof. induction a as [|x a IH]; cbn; [reflexivity|exact IH]. Qed.

Lemma nth_error_len_app {A} (a : list A) x b : nth_error (a ++ x :: b) (length a) = Some x.
Proof. induction a as [|y a IH]; cbn; [reflexivity|exact IH]. Qed.

Lemma slice_app (a m b : str) lo hi :
  lo = N.of_nat (length a) -> hi = lo + N.of_nat (length m) ->
  slice_checked (a ++ m ++ b) lo hi = Some m.
Proof.
  intros -> ->. unfold slice_checked. rewrite !app_length.
  assert (E : (N.of_nat (length a) <=? N.of_nat (length a) + N.of_nat (length m))
              && (N.of_nat (length a) + N.of_nat (length m) <=? N.of_nat (length a + (length m + length b)))
              = true).
  { apply andb_true_intro; split; apply N.leb_le; lia. }
  rewrite E.
  replace (N.to_nat (N.of_nat (length a) + N.of_nat (length m) - N.of_nat (length a))) with (length m) by lia.
  rewrite Nat2N.id, skipn_len_app, firstn_len_app. reflexivity.
Qed.

Lemma event_body_spec title text rest :
  event_body false (N.of_nat (length title)) (N.of_nat (length text)) (title ++ c_pipe :: text ++ rest)
  = Ok (title, unescape text, rest).
Proof.
  unfold event_body, index_checked.
  assert (S1 : slice_checked (title ++ c_pipe :: text ++ rest) 0 (N.of_nat (length title)) = Some title).
  { apply (slice_app [] title (c_pipe :: text ++ rest)); reflexivity. }
  assert (S2 : slice_checked (title ++ c_pipe :: text ++ rest) (N.of_nat (length title) + 1)
                 (N.of_nat (length title) + 1 + N.of_nat (length text)) = Some text).
  { replace (title ++ c_pipe :: text ++ rest) with ((title ++ [c_pipe]) ++ text ++ rest)
      by (rewrite <- app_assoc; reflexivity).
    apply slice_app; [rewrite app_length; cbn [length]; lia|reflexivity]. }
  rewrite S1, S2, Nat2N.id, nth_error_len_app.
  assert (Hlen : N.of_nat (length (title ++ c_pipe :: text ++ rest))
                 = N.of_nat (length title) + 1 + N.of_nat (length text) + N.of_nat (length rest)).
  { rewrite app_length. cbn [length]. rewrite app_length. lia. }
  rewrite Hlen.
  destruct (N.ltb_spec (N.of_nat (length title) + 1 + N.of_nat (length text) + N.of_nat (length rest))
              (N.of_nat (length title) + 1 + N.of_nat (length text))); [lia|].
  change (negb (c_pipe =? c_pipe)) with false. cbv iota.
  replace (N.to_nat (N.of_nat (length title) + 1 + N.of_nat (length text)))
    with (length ((title ++ [c_pipe]) ++ text)) by (rewrite !app_length; cbn [length]; lia).
  replace (title ++ c_pipe :: text ++ rest) with (((title ++ [c_pipe]) ++ text) ++ rest)
    by (rewrite <- !app_assoc; reflexivity).
  rewrite skipn_len_app. reflexivity.
Qed.

(* ---------------------------------------------------------------------------------------- *)
(* event attributes *)

Lemma eattrs_other s k e tags : ~ In c_pipe s -> pipe_or_end k ->
  lex_eattrs EOther e tags (s ++ k) = lex_eattrs EAttrs e tags k.
Proof.
  intros Hs Hk. induction s as [|b s IH]; cbn [app].
  - destruct Hk as [->|[k' ->]]; reflexivity.
  - apply not_in_cons_inv in Hs as [Hb Hs]. cbn [lex_eattrs].
    destruct (N.eqb_spec b c_pipe); [contradiction|]. apply IH, Hs.
Qed.

Lemma eattrs_field fk s k acc e tags : ~ In c_pipe s -> pipe_or_end k ->
  lex_eattrs (EField fk acc) e tags (s ++ k) =
  match set_field fk (rev acc ++ s) e with
  | Ok e' => lex_eattrs EAttrs e' tags k | Rej x => Rej x | Pan => Pan
  end.
Proof.
  intros Hs Hk. revert acc. induction s as [|b s IH]; intros acc; cbn [app].
  - rewrite app_nil_r. destruct Hk as [->|[k' ->]]; cbn [lex_eattrs].
    + destruct (set_field fk (rev acc) e); reflexivity.
    + change (c_pipe =? c_pipe) with true. cbv iota.
      destruct (set_field fk (rev acc) e); reflexivity.
  - apply not_in_cons_inv in Hs as [Hb Hs]. cbn [lex_eattrs].
    destruct (N.eqb_spec b c_pipe); [contradiction|].
    rewrite (IH Hs). cbn [rev]. rewrite <- app_assoc. reflexivity.
Qed.

Lemma eattrs_tag t cur e tags k : wf_tag t ->
  lex_eattrs (ETags cur) e tags (t ++ k) = lex_eattrs (ETags (rev t ++ cur)) e tags k.
Proof.
  intros (H1 & H2 & H3). revert cur. induction t as [|b t IH]; intros cur; [reflexivity|].
  apply not_in_cons_inv in H1 as [B1 H1]. apply not_in_cons_inv in H2 as [B2 H2].
  apply not_in_cons_inv in H3 as [B3 H3]. cbn [app lex_eattrs].
  destruct (N.eqb_spec b c_comma); [contradiction|].
  destruct (N.eqb_spec b c_pipe); [contradiction|].
  destruct (N.eqb_spec b c_nul); [contradiction|].
  rewrite (IH H1 H2 H3). cbn [rev]. rewrite <- app_assoc. reflexivity.
Qed.

Lemma eattrs_tags_end cur k e tags : pipe_or_end k ->
  lex_eattrs (ETags cur) e tags k = lex_eattrs EAttrs e (add_tag cur tags) k.
Proof. intros [->|[k' ->]]; reflexivity. Qed.

Lemma eattrs_tags_scan ts : Forall wf_tag ts -> forall k e tags, pipe_or_end k ->
  lex_eattrs (ETags []) e tags (join c_comma ts ++ k) =
  lex_eattrs EAttrs e (rev (filter nonempty ts) ++ tags) k.
Proof.
  induction 1 as [|x ts Hx Hts IH]; intros k e tags Hk.
  - cbn [join filter rev app]. apply (eattrs_tags_end [] k e tags Hk).
  - destruct ts as [|y ts].
    + cbn [join filter]. rewrite (eattrs_tag x [] e tags k Hx), app_nil_r.
      rewrite (eattrs_tags_end _ k e tags Hk), add_tag_rev.
      destruct (nonempty x); reflexivity.
    + rewrite join_cons2, <- app_assoc. cbn [app].
      rewrite (eattrs_tag x [] e tags _ Hx), app_nil_r. cbn [lex_eattrs].
      change (c_comma =? c_comma) with true. cbv iota.
      rewrite (IH k e _ Hk), add_tag_rev.
      change (filter nonempty (x :: y :: ts)) with
        (if nonempty x then x :: filter nonempty (y :: ts) else filter nonempty (y :: ts)).
      destruct (nonempty x); [|reflexivity].
      cbn [rev]. rewrite <- app_assoc. reflexivity.
Qed.

Lemma eattrs_date ds : Forall (fun b => is_digit b = true) ds -> forall v c k e tags,
  (ds <> [] \/ c = true) -> pipe_or_end k -> fold_left digit_step ds v < two64 ->
  lex_eattrs (EDate v c) e tags (ds ++ k) =
  match set_date (fold_left digit_step ds v) e with
  | Ok e' => lex_eattrs EAttrs e' tags k | Rej x => Rej x | Pan => Pan
  end.
Proof.
  induction 1 as [|d ds Hd _ IH]; intros v c k e tags Hc Hk Hlt.
  - destruct Hc as [Hc| ->]; [contradiction|]. cbn [app fold_left].
    destruct Hk as [->|[k' ->]]; cbn [lex_eattrs].
    + destruct (set_date v e); reflexivity.
    + change (is_digit c_pipe) with false. change (c_pipe =? c_nul) with false.
      change (c_pipe =? c_pipe) with true. cbv iota.
      destruct (set_date v e); reflexivity.
  - cbn [app fold_left lex_eattrs] in *. rewrite Hd.
    pose proof (fold_digit_ge ds (digit_step v d)) as Hge.
    rewrite uint_test_ok by (unfold digit_step, two64, max_uint64 in *; lia).
    fold (digit_step v d).
    apply IH; [right; reflexivity|assumption|assumption].
Qed.

Lemma not_in_closed_low : ~ In c_pipe str_low. Proof. cbv; intuition discriminate. Qed.
Lemma not_in_closed_normal : ~ In c_pipe str_normal. Proof. cbv; intuition discriminate. Qed.
Lemma not_in_alert a : ~ In c_pipe (alert_str a). Proof. destruct a; cbv; intuition discriminate. Qed.

Lemma render_eattrs_poe l : pipe_or_end (render_eattrs l).
Proof. destruct l; [left|right; eexists]; reflexivity. Qed.

Lemma eattrs_render attrs : Forall wf_eattr attrs -> forall e tags,
  lex_eattrs EAttrs e tags (render_eattrs attrs) =
  Ok (fold_left apply_eattr attrs e, rev (eattrs_tags attrs) ++ tags).
Proof.
  induction 1 as [|a attrs Ha _ IH]; intros e tags; [reflexivity|].
  cbn [render_eattrs].
  change (lex_eattrs EAttrs e tags (c_pipe :: render_eattr a ++ render_eattrs attrs))
    with (lex_eattrs EAttr e tags (render_eattr a ++ render_eattrs attrs)).
  pose proof (render_eattrs_poe attrs) as Hk.
  destruct a as [ds|s|s|low|s|al|ts|s]; cbn [render_eattr wf_eattr eattrs_tags fold_left apply_eattr app] in *.
  - change (lex_eattrs EAttr e tags (c_d :: c_colon :: ds ++ render_eattrs attrs))
      with (lex_eattrs (EDate 0 false) e tags (ds ++ render_eattrs attrs)).
    destruct Ha as [[Hne Hd] Hle].
    rewrite (eattrs_date ds Hd 0 false _ e tags (or_introl Hne) Hk)
      by (fold (digit_value ds); unfold max_int64, two64 in *; lia).
    fold (digit_value ds). unfold set_date.
    destruct (N.ltb_spec max_int64 (digit_value ds)); [lia|]. apply IH.
  - change (lex_eattrs EAttr e tags (c_h :: c_colon :: s ++ render_eattrs attrs))
      with (lex_eattrs (EField c_h []) e tags (s ++ render_eattrs attrs)).
    rewrite (eattrs_field c_h s _ [] e tags Ha Hk). apply IH.
  - change (lex_eattrs EAttr e tags (c_k :: c_colon :: s ++ render_eattrs attrs))
      with (lex_eattrs (EField c_k []) e tags (s ++ render_eattrs attrs)).
    rewrite (eattrs_field c_k s _ [] e tags Ha Hk). apply IH.
  - change (lex_eattrs EAttr e tags (c_p :: c_colon :: (if low then str_low else str_normal) ++ render_eattrs attrs))
      with (lex_eattrs (EField c_p []) e tags ((if low then str_low else str_normal) ++ render_eattrs attrs)).
    destruct low.
    + rewrite (eattrs_field c_p str_low _ [] e tags not_in_closed_low Hk). apply IH.
    + rewrite (eattrs_field c_p str_normal _ [] e tags not_in_closed_normal Hk). apply IH.
  - change (lex_eattrs EAttr e tags (c_s :: c_colon :: s ++ render_eattrs attrs))
      with (lex_eattrs (EField c_s []) e tags (s ++ render_eattrs attrs)).
    rewrite (eattrs_field c_s s _ [] e tags Ha Hk). apply IH.
  - change (lex_eattrs EAttr e tags (c_t :: c_colon :: alert_str al ++ render_eattrs attrs))
      with (lex_eattrs (EField c_t []) e tags (alert_str al ++ render_eattrs attrs)).
    rewrite (eattrs_field c_t (alert_str al) _ [] e tags (not_in_alert al) Hk).
    destruct al; apply IH.
  - change (lex_eattrs EAttr e tags (c_hash :: join c_comma ts ++ render_eattrs attrs))
      with (lex_eattrs (ETags []) e tags (join c_comma ts ++ render_eattrs attrs)).
    rewrite (eattrs_tags_scan ts Ha _ e tags Hk), IH, rev_app_distr, app_assoc. reflexivity.
  - destruct Ha as (Hp & b & r & -> & Hh & Hd & Hf). apply not_in_cons_inv in Hp as [_ Hp].
    cbn [app lex_eattrs]. rewrite Hf.
    destruct (N.eqb_spec b c_d); [contradiction|]. destruct (N.eqb_spec b c_hash); [contradiction|].
    cbn [orb]. rewrite (eattrs_other r _ e tags Hp Hk). apply IH.
Qed.

(* ---------------------------------------------------------------------------------------- *)
(* the event grammar theorem *)

(* the parser of everything after "_e" (the body of [lex_event_gen false]) *)
Definition event_res (r0 : str) : result (event * list str) :=
  bind (lex_assert c_lbrace r0) (fun r1 =>
  bind (lex_uint32 r1) (fun '(tl, r2) =>
  bind (lex_assert c_comma r2) (fun r3 =>
  bind (lex_uint32 r3) (fun '(xl, r4) =>
  bind (lex_assert c_rbrace r4) (fun r5 =>
  bind (lex_assert c_colon r5) (fun r6 =>
  bind (event_body false tl xl r6) (fun '(title, text, r7) =>
  lex_eattrs EAttrs (empty_event title text) [] r7))))))).

Lemma lex_event_unfold pf ns r0 :
  lex pf ns (c_us :: c_e :: r0) =
  match event_res r0 with
  | Ok (e, tags) => OEvent (with_tags e (rev tags)) | Rej x => OReject x | Pan => OPanic
  end.
Proof. reflexivity. Qed.

Lemma lex_assert_hit c r : lex_assert c (c :: r) = Ok r.
Proof. unfold lex_assert. rewrite N.eqb_refl. reflexivity. Qed.

Theorem grammar_event_digits pf ns dt dx title text attrs :
  is_number dt -> digit_value dt = N.of_nat (length title) -> N.of_nat (length title) <= max_uint32 ->
  is_number dx -> digit_value dx = N.of_nat (length text) -> N.of_nat (length text) <= max_uint32 ->
  Forall wf_eattr attrs ->
  lex pf ns (render_event_digits dt dx title text attrs) = OEvent (expected_event title text attrs).
Proof.
  intros Ht Hvt Hlt Hx Hvx Hlx Hattrs. unfold render_event_digits.
  rewrite lex_event_unfold. unfold event_res.
  rewrite lex_assert_hit. cbn [bind].
  rewrite (lex_uint32_digits dt _ Ht) by
    (first [exists c_comma; eexists; repeat split; discriminate | rewrite Hvt; exact Hlt]).
  cbn [bind]. rewrite lex_assert_hit. cbn [bind].
  rewrite (lex_uint32_digits dx _ Hx) by
    (first [exists c_rbrace; eexists; repeat split; discriminate | rewrite Hvx; exact Hlx]).
  cbn [bind]. rewrite lex_assert_hit. cbn [bind]. rewrite lex_assert_hit. cbn [bind].
  rewrite Hvt, Hvx, event_body_spec. cbn [bind].
  rewrite (eattrs_render attrs Hattrs), app_nil_r, rev_involutive. reflexivity.
Qed.

Theorem grammar_event pf ns title text attrs :
  N.of_nat (length title) <= max_uint32 -> N.of_nat (length text) <= max_uint32 ->
  Forall wf_eattr attrs ->
  lex pf ns (render_event title text attrs) = OEvent (expected_event title text attrs).
Proof.
  intros Hlt Hlx Hattrs. unfold render_event.
  apply grammar_event_digits; auto using is_number_dec, digit_value_dec.
Qed.

(* writing a text with "\n" for every newline gives the text back, when it has no backslash *)
Lemma unescape_escape_nl t : ~ In c_bslash t -> unescape (escape_nl t) = t.
Proof.
  induction t as [|b t IH]; intros H; [reflexivity|].
  apply not_in_cons_inv in H as [Hb H]. cbn [escape_nl].
  destruct (N.eqb_spec b c_nl) as [->|Hnl].
  - change (unescape (c_bslash :: c_n :: escape_nl t)) with (c_nl :: unescape (escape_nl t)).
    rewrite (IH H). reflexivity.
  - cbn [unescape]. destruct (escape_nl t) as [|b2 r2] eqn:E.
    + rewrite <- (IH H). reflexivity.
    + destruct (N.eqb_spec b c_bslash); [contradiction|]. cbn [andb].
      rewrite <- (IH H). reflexivity.
Qed.
