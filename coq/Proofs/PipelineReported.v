(* No series is lost (C01, presence level, gauges included): every datapoint parsed so far has
   its series held somewhere in the system, and after quiescence and a complete flush it has
   been reported by some flush.  Also: the model never blocks a step the implementation can
   take (enabledness of Enq / Merge / Tick / FlushShard). *)
From stdpp Require Import gmap gmultiset.
From Coq Require Import QArith Qcanon Lia.
From GS Require Import Base.Bytes Base.LTS Model.Lexer Model.Series Model.MetricMap Model.Content Model.Pipeline.
From GS Require Import Proofs.MetricMapMerge Proofs.MetricMapSplit Proofs.PipelineAlgebra Proofs.Pipeline.

Arguments Z.add : simpl never.
Arguments Z.max : simpl never.
Local Open Scope nat_scope.

(* ---- a series, once held, stays held through the operations ---- *)

Lemma holds_receive_old m d ty k : holds m ty k → holds (receive m d) ty k.
Proof.
  unfold receive. destruct (dp_type d), ty; cbn; try done;
    (destruct (decide (dp_key d = k)) as [<-|Hne];
     [rewrite lookup_insert; eauto|by rewrite lookup_insert_ne]).
Qed.
Lemma holds_receive_new m d : holds (receive m d) (dp_type d) (dp_key d).
Proof. unfold receive. destruct (dp_type d); cbn; rewrite lookup_insert; eauto. Qed.
Lemma holds_receive_all_old m ds ty k : holds m ty k → holds (receive_all m ds) ty k.
Proof.
  unfold receive_all. revert m; induction ds as [|d ds IH]; intros m H; cbn; [done|].
  by apply IH, holds_receive_old.
Qed.
Lemma holds_receive_all_new m ds d : d ∈ ds → holds (receive_all m ds) (dp_type d) (dp_key d).
Proof.
  unfold receive_all. revert m; induction ds as [|x ds IH]; intros m H; [by apply elem_of_nil in H|].
  cbn. apply elem_of_cons in H as [->|H]; [|by apply IH].
  apply (holds_receive_all_old _ ds). apply holds_receive_new.
Qed.

Lemma holds_merge_l a b ty k : holds a ty k → holds (merge a b) ty k.
Proof.
  destruct ty; unfold holds;
    rewrite ?counters_merge_lookup, ?timers_merge_lookup, ?gauges_merge_lookup, ?sets_merge_lookup;
    intros [x ->]; match goal with |- context [oplus _ _ ?y] => destruct y end; cbn; eauto.
Qed.
Lemma holds_merge_r a b ty k : holds b ty k → holds (merge a b) ty k.
Proof.
  destruct ty; unfold holds;
    rewrite ?counters_merge_lookup, ?timers_merge_lookup, ?gauges_merge_lookup, ?sets_merge_lookup;
    intros [x ->]; match goal with |- context [oplus _ ?y _] => destruct y end; cbn; eauto.
Qed.

Lemma holds_not_empty m ty k : holds m ty k → mm_is_empty m = false.
Proof.
  intros H. destruct (mm_is_empty m) eqn:E; [|done]. exfalso.
  unfold mm_is_empty in E. rewrite !andb_true_iff, !bool_decide_eq_true in E. destruct E as [[[Hc Ht] Hg] Hs].
  destruct ty; cbn in H; rewrite ?Hc, ?Ht, ?Hg, ?Hs, lookup_empty in H; by destruct H.
Qed.

Lemma holds_split_intro n m ty k :
  n ≠ 0 → holds m ty k → ∃ s, (shard_index n k, s) ∈ nonempty_splits n m ∧ holds s ty k.
Proof.
  intros Hn Hh. pose proof (shard_index_lt n k Hn) as Hlt.
  destruct (split_lookup n m _ k Hlt) as (s & Hs & Hc).
  rewrite bool_decide_eq_true_2 in Hc by done. unfold cells in Hc.
  assert (Hhs : holds s ty k) by (destruct ty; cbn in *; congruence).
  exists s. split; [|done]. unfold nonempty_splits. apply elem_of_list_filter. split.
  - cbn. by eapply holds_not_empty.
  - apply elem_of_lookup_imap. eauto.
Qed.

(* ---- every parsed series is somewhere ---- *)

Definition somewhere (s : state) (ty : mtype) (k : skey) : Prop :=
  (∃ i m, (i, m) ∈ st_inflight s ∧ holds m ty k)
  ∨ (∃ i q m, st_queue s !! i = Some q ∧ m ∈ q ∧ holds m ty k)
  ∨ (∃ i a, st_aggr s !! i = Some a ∧ holds a ty k)
  ∨ (∃ f i m, (f, i, m) ∈ st_out s ∧ holds m ty k).

Definition kept (s : state) : Prop := ∀ d, d ∈ st_input s → somewhere s (dp_type d) (dp_key d).

Lemma kept_init c : kept (init c).
Proof. intros d H. by apply elem_of_nil in H. Qed.

Lemma elem_of_delete_other {A} (l : list A) j x y : l !! j = Some y → x ∈ l → x = y ∨ x ∈ delete j l.
Proof.
  intros Hj Hx. apply elem_of_list_lookup in Hx as [i Hi]. destruct (decide (i = j)) as [->|Hne].
  - left. congruence.
  - right. apply elem_of_list_lookup. destruct (decide (i < j)).
    + exists i. by rewrite lookup_delete_lt.
    + exists (i - 1). rewrite lookup_delete_ge by lia. by replace (S (i - 1)) with i by lia.
Qed.

Lemma kept_step c s l s' : cfg_shards c ≠ 0 → inv c s → kept s → step c s l = Some s' → kept s'.
Proof.
  intros Hn Hinv Hk Hstep. destruct Hinv as [_ _ _ _ Ha _].
  destruct s as [inp infl qs ags nf fl out]; unfold kept, somewhere in *; cbn [st_input st_inflight st_queue st_aggr st_out] in *.
  destruct l as [ds|j|i|f|i now]; cbn [step st_input st_inflight st_queue st_aggr st_nflush st_flushing st_out] in Hstep.
  - (* Parse *)
    injection Hstep as <-; cbn [st_input st_inflight st_queue st_aggr st_out]. intros d Hd.
    apply elem_of_app in Hd as [Hd|Hd].
    + destruct (Hk d Hd) as [(i & m & Hin & Hh)|H]; [|by right].
      left. exists i, m. split; [apply elem_of_app; by left|done].
    + left. destruct (holds_split_intro (cfg_shards c) (receive_all empty_map ds) (dp_type d) (dp_key d) Hn) as (s & Hin & Hh).
      { by apply holds_receive_all_new. }
      eexists _, s. split; [apply elem_of_app; right; exact Hin|done].
  - (* Enq *)
    destruct (infl !! j) as [[i m]|] eqn:Ej; [|done].
    destruct (qs !! i) as [q|] eqn:Eq; [|done]. injection Hstep as <-; cbn [st_input st_inflight st_queue st_aggr st_out].
    intros d Hd. destruct (Hk d Hd) as [(i' & m' & Hin & Hh)|[(i' & q' & m' & Hq & Hm & Hh)|H]]; [| |by right; right].
    + destruct (elem_of_delete_other _ j _ _ Ej Hin) as [[= -> ->]|Hin'].
      * right; left. exists i, (q ++ [m]), m. split; [by apply list_lookup_insert; eapply lookup_lt_Some|].
        split; [apply elem_of_app; right; by apply elem_of_list_singleton|done].
      * left. eauto.
    + right; left. destruct (decide (i' = i)) as [->|Hne].
      * exists i, (q ++ [m]), m'. split; [by apply list_lookup_insert; eapply lookup_lt_Some|].
        split; [apply elem_of_app; left; congruence|done].
      * exists i', q', m'. by rewrite list_lookup_insert_ne.
  - (* Merge *)
    destruct (qs !! i) as [[|m q]|] eqn:Eq; try done.
    destruct (ags !! i) as [a|] eqn:Ea; [|done]. injection Hstep as <-; cbn [st_input st_inflight st_queue st_aggr st_out].
    intros d Hd. destruct (Hk d Hd) as [H|[(i' & q' & m' & Hq & Hm & Hh)|[(i' & a' & Hi & Hh)|H]]]; [by left| | |by right; right; right].
    + destruct (decide (i' = i)) as [->|Hne].
      * rewrite Eq in Hq. injection Hq as <-. apply elem_of_cons in Hm as [->|Hm].
        -- right; right; left. exists i, (merge a m). split; [by apply list_lookup_insert; eapply lookup_lt_Some|by apply holds_merge_r].
        -- right; left. exists i, q, m'. split; [by apply list_lookup_insert; eapply lookup_lt_Some|done].
      * right; left. exists i', q', m'. by rewrite list_lookup_insert_ne.
    + right; right; left. destruct (decide (i' = i)) as [->|Hne].
      * exists i, (merge a m). split; [by apply list_lookup_insert; eapply lookup_lt_Some|].
        apply holds_merge_l. congruence.
      * exists i', a'. by rewrite list_lookup_insert_ne.
  - (* Tick *)
    destruct (bool_decide (f = nf) && flush_idle fl); [|done]. injection Hstep as <-. done.
  - (* FlushShard *)
    destruct fl as [[f pend]|]; [|done]. destruct (ags !! i) as [a|] eqn:Ea; [|done].
    destruct (bool_decide (i ∈ pend)); [|done]. injection Hstep as <-; cbn [st_input st_inflight st_queue st_aggr st_out].
    intros d Hd. destruct (Hk d Hd) as [H|[H|[(i' & a' & Hi & Hh)|(f' & i' & m' & Hin & Hh)]]]; [by left|by right; left| |].
    + destruct (decide (i' = i)) as [->|Hne].
      * right; right; right. exists f, i, (agg_flush a). split; [apply elem_of_app; right; by apply elem_of_list_singleton|].
        rewrite agg_flush_wf by (by destruct (Ha i a Ea)). congruence.
      * right; right; left. exists i', a'. by rewrite list_lookup_insert_ne.
    + right; right; right. exists f', i', m'. split; [apply elem_of_app; by left|done].
Qed.

Lemma kept_run c ls s : cfg_shards c ≠ 0 → run (step c) (init c) ls = Some s → inv c s ∧ kept s.
Proof.
  intros Hn. apply (invariant_run (step c) (λ s, inv c s ∧ kept s)).
  - intros s0 l s1 [Hi Hk] Hs. split; [by eapply inv_step|by eapply kept_step].
  - split; [apply inv_init|apply kept_init].
Qed.

(* ---- after a complete flush, whatever the aggregators hold has been reported ---- *)

Definition reported_by (f : nat) (s : state) : Prop :=
  ∃ pend, st_flushing s = Some (f, pend) ∧
          ∀ i a ty k, st_aggr s !! i = Some a → i ∉ pend → holds a ty k →
                      ∃ m, (f, i, m) ∈ st_out s ∧ holds m ty k.

Lemma reported_tick c s f s' :
  length (st_aggr s) = cfg_shards c → step c s (Tick f) = Some s' → reported_by f s'.
Proof.
  intros Hlen E. destruct s as [inp infl qs ags nf fl out]; cbn in *.
  destruct (bool_decide (f = nf) && flush_idle fl); [|done]. injection E as <-.
  exists (seq 0 (cfg_shards c)). split; [done|]. cbn. intros i a ty k Hi Hnot. exfalso. apply Hnot.
  apply elem_of_seq. apply lookup_lt_Some in Hi. lia.
Qed.

Lemma reported_shards c f s ls s' :
  Forall is_shard_label ls →
  inv c s → reported_by f s → run (step c) s ls = Some s' → reported_by f s'.
Proof.
  intros Hf. revert s. induction Hf as [|l ls Hl _ IH]; intros s Hinv Hd Hr; cbn in Hr; [by injection Hr as <-|].
  destruct (step c s l) as [s1|] eqn:E; [|done]. apply (IH s1); [by eapply inv_step| |done]. clear IH Hr.
  destruct Hd as (pend & Hfl & Hz). destruct Hinv as [_ _ _ _ Ha _].
  destruct s as [inp infl qs ags nf fl out]. destruct l as [ds|j|i|f'|i now]; cbn in Hl, E, Hfl, Hz, Ha; try done.
  subst fl. destruct (ags !! i) as [a|] eqn:Ea; [|done].
  destruct (bool_decide (i ∈ pend)); [|done]. injection E as <-.
  exists (base.filter (λ x, x ≠ i) pend). split; [done|]. cbn. intros i' a' ty k Hi' Hnot Hh.
  destruct (decide (i' = i)) as [->|Hne].
  - rewrite list_lookup_insert in Hi' by (by eapply lookup_lt_Some). injection Hi' as <-.
    exists (agg_flush a). split; [apply elem_of_app; right; by apply elem_of_list_singleton|].
    by eapply holds_reset.
  - rewrite list_lookup_insert_ne in Hi' by done.
    destruct (Hz i' a' ty k Hi') as (m & Hm & Hhm); [|done|].
    + intros Hin. apply Hnot. apply elem_of_list_filter. done.
    + exists m. split; [apply elem_of_app; by left|done].
Qed.

Lemma all_reported c ls s ls' s' f :
  cfg_shards c ≠ 0 →
  run (step c) (init c) ls = Some s → quiescent s →
  run (step c) s ls' = Some s' → flush_follows f ls' → flush_complete f s' →
  ∀ d, d ∈ st_input s → ∃ f' i m, (f', i, m) ∈ st_out s' ∧ holds m (dp_type d) (dp_key d).
Proof.
  intros Hn Hr [Hq1 Hq2] Hr' (pre & post & -> & Hpre & Hpost) Hcomp d Hd.
  assert (Hreach : run (step c) (init c) (ls ++ pre ++ Tick f :: post) = Some s') by (by rewrite run_app, Hr).
  destruct (kept_run c _ s' Hn Hreach) as [Hinv' Hkept'].
  rewrite run_app in Hr'. destruct (run (step c) s pre) as [s1|] eqn:E1; [|done].
  change (run (step c) s1 (Tick f :: post))
    with (match step c s1 (Tick f) with Some s2 => run (step c) s2 post | None => None end) in Hr'.
  destruct (step c s1 (Tick f)) as [s2|] eqn:E2; [|done].
  destruct (flush_labels_frame c s pre s1 Hpre E1) as (Hi1 & Hf1 & Hqs1).
  assert (F2 : Forall is_flush_label [Tick f]) by (repeat constructor).
  assert (R2 : run (step c) s1 [Tick f] = Some s2).
  { change (match step c s1 (Tick f) with Some x => Some x | None => None end = Some s2). by rewrite E2. }
  destruct (flush_labels_frame c s1 [Tick f] s2 F2 R2) as (Hi2 & Hf2 & Hqs2).
  assert (F3 : Forall is_flush_label post).
  { apply Forall_forall. intros l Hl. rewrite Forall_forall in Hpost. specialize (Hpost l Hl). by destruct l. }
  destruct (flush_labels_frame c s2 post s' F3 Hr') as (Hi3 & Hf3 & Hqs3).
  assert (R1 : run (step c) (init c) (ls ++ pre) = Some s1) by (by rewrite run_app, Hr).
  pose proof (inv_run c _ s1 R1) as Hinv1.
  assert (Hinv2 : inv c s2) by (by eapply inv_step).
  pose proof (reported_shards c f s2 post s' Hpost Hinv2
                (reported_tick c s1 f s2 (inv_alen c s1 Hinv1) E2) Hr') as (pend & Hfl & Hz).
  unfold flush_complete in Hcomp. rewrite Hcomp in Hfl. injection Hfl as <-.
  assert (Hd' : d ∈ st_input s') by (by rewrite Hi3, Hi2, Hi1).
  destruct (Hkept' d Hd') as [(i & m & Hin & _)|[(i & q & m & Hq & Hm & _)|[(i & a & Hi & Hh)|H]]].
  - rewrite Hf3, Hf2, Hf1, Hq1 in Hin. by apply elem_of_nil in Hin.
  - rewrite Hqs3, Hqs2, Hqs1 in Hq. rewrite (Hq2 q) in Hm by (by eapply elem_of_list_lookup_2).
    by apply elem_of_nil in Hm.
  - destruct (Hz i a _ _ Hi (not_elem_of_nil _) Hh) as (m & Hm & Hhm). eauto.
  - done.
Qed.

(* ---------------------------------------------------------------------------------------- *)
(* the model does not block: whatever the implementation can do next is an enabled label *)

Lemma inflight_shard_lt c ls s i m :
  run (step c) (init c) ls = Some s → (i, m) ∈ st_inflight s → i < cfg_shards c.
Proof.
  intros Hr. revert i m.
  refine (invariant_run (step c) (λ s, ∀ i m, (i, m) ∈ st_inflight s → i < cfg_shards c) _ ls (init c) s _ Hr).
  - intros s0 l s1 H E. destruct s0 as [inp infl qs ags nf fl out]; cbn in *.
    destruct l as [ds|j|i|f|i now]; cbn in E.
    + injection E as <-; cbn. intros i m Hin. apply elem_of_app in Hin as [Hin|Hin]; [by eapply H|].
      apply in_nonempty_splits in Hin. by apply split_lookup_inv in Hin as [? _].
    + destruct (infl !! j) as [[i m]|]; [|done]. destruct (qs !! i); [|done]. injection E as <-; cbn.
      intros i' m' Hin. eapply H. by eapply elem_of_delete.
    + destruct (qs !! i) as [[|m q]|]; try done. destruct (ags !! i); [|done]. by injection E as <-.
    + destruct (bool_decide (f = nf) && flush_idle fl); [|done]. by injection E as <-.
    + destruct fl as [[f pend]|]; [|done]. destruct (ags !! i); [|done].
      destruct (bool_decide (i ∈ pend)); [|done]. by injection E as <-.
  - intros i m H. by apply elem_of_nil in H.
Qed.

Lemma enabled c ls s :
  run (step c) (init c) ls = Some s →
  (∀ j, j < length (st_inflight s) → is_Some (step c s (Enq j)))
  ∧ (∀ i m q, st_queue s !! i = Some (m :: q) → is_Some (step c s (Merge i)))
  ∧ (flush_idle (st_flushing s) = true → is_Some (step c s (Tick (st_nflush s))))
  ∧ (∀ f pend i now, st_flushing s = Some (f, pend) → i ∈ pend → i < cfg_shards c →
       is_Some (step c s (FlushShard i now))).
Proof.
  intros Hr. pose proof (inv_run c ls s Hr) as [Hql Hal _ _ _ _].
  pose proof (λ i m, inflight_shard_lt c ls s i m Hr) as Hlt.
  destruct s as [inp infl qs ags nf fl out]; cbn in *. repeat split.
  - intros j Hj. destruct (lookup_lt_is_Some_2 infl j Hj) as [[i m] Hjm]. cbn. rewrite Hjm.
    destruct (lookup_lt_is_Some_2 qs i) as [q Hq]; [rewrite Hql; eapply Hlt; by eapply elem_of_list_lookup_2|].
    rewrite Hq. eauto.
  - intros i m q Hq. cbn. rewrite Hq.
    destruct (lookup_lt_is_Some_2 ags i) as [a Ha]; [rewrite Hal, <- Hql; by eapply lookup_lt_Some|].
    rewrite Ha. eauto.
  - intros Hidle. cbn. rewrite Hidle, bool_decide_eq_true_2 by done. cbn. eauto.
  - intros f pend i now -> Hi Hlt'. cbn.
    destruct (lookup_lt_is_Some_2 ags i) as [a Ha]; [by rewrite Hal|].
    rewrite Ha, bool_decide_eq_true_2 by done. eauto.
Qed.
