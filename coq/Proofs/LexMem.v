(* Lemmas about Model/LexMem.v: the in-place key normalisation stays inside the line and refines
   [Lexer.lex_key_sep]; lexing a buffer line by line with the writes applied gives, for every
   line, [Lexer.lex] of that line alone. *)
From Coq Require Import Lia.
From GS Require Import Base.Bytes Model.Lexer Model.Datagram Model.LexMem Proofs.Datagram.
Local Open Scope N_scope.

(* ---------------------------------------------------------------------------------------- *)
(* memory primitives on a decomposed array  P ++ W ++ R *)

Lemma mem_get_mid (P : mem) b R : mem_get (P ++ b :: R) (N.of_nat (length P)) = Some b.
Proof. unfold mem_get. rewrite Nat2N.id, nth_error_app2, Nat.sub_diag by lia. reflexivity. Qed.

Lemma mem_write_mid (P W R : mem) (v : str) :
  (length v <= length W)%nat ->
  mem_write (P ++ W ++ R) (N.of_nat (length P)) v = Some (P ++ v ++ skipn (length v) W ++ R).
Proof.
  intros Hle. unfold mem_write. rewrite !app_length.
  replace (N.of_nat (length P) + N.of_nat (length v) <=? N.of_nat (length P + (length W + length R)))
    with true by (symmetry; apply N.leb_le; lia).
  rewrite Nat2N.id. f_equal.
  rewrite firstn_app, Nat.sub_diag, firstn_all. cbn [firstn]. rewrite app_nil_r. f_equal. f_equal.
  rewrite skipn_app, skipn_all2 by lia. cbn [app].
  replace (length P + length v - length P)%nat with (length v) by lia.
  rewrite skipn_app. replace (length v - length W)%nat with 0%nat by lia. reflexivity.
Qed.

Lemma mem_write_same (P W R : mem) (v : str) :
  length v = length W ->
  mem_write (P ++ W ++ R) (N.of_nat (length P)) v = Some (P ++ v ++ R).
Proof.
  intros He. rewrite mem_write_mid by lia. rewrite He, skipn_all. reflexivity.
Qed.

Lemma mem_read_mid (P W R : mem) :
  mem_read (P ++ W ++ R) (N.of_nat (length P)) (N.of_nat (length W)) = Some W.
Proof.
  unfold mem_read. rewrite !app_length.
  replace (N.of_nat (length P) + N.of_nat (length W) <=? N.of_nat (length P + (length W + length R)))
    with true by (symmetry; apply N.leb_le; lia).
  rewrite !Nat2N.id. f_equal.
  rewrite skipn_app, skipn_all, Nat.sub_diag, skipn_O. cbn [app].
  rewrite firstn_app, Nat.sub_diag, firstn_all. cbn [firstn]. rewrite app_nil_r. reflexivity.
Qed.

Lemma view_mid (P W R : mem) s :
  s_off s = N.of_nat (length P) -> s_len s = N.of_nat (length W) -> view (P ++ W ++ R) s = W.
Proof.
  intros Ho Hl. unfold view. rewrite Ho, Hl, !Nat2N.id.
  rewrite skipn_app, skipn_all, Nat.sub_diag, skipn_O. cbn [app].
  rewrite firstn_app, Nat.sub_diag, firstn_all. cbn [firstn]. rewrite app_nil_r. reflexivity.
Qed.

(* ---------------------------------------------------------------------------------------- *)
(* lexKeySep *)

Lemma norm_byte_other b :
  (b =? c_slash) = false -> ((b =? c_space) || (b =? c_tab)) = false ->
  norm_byte b = if key_byte_kept b then Some b else None.
Proof.
  intros E1 E2. unfold norm_byte, key_byte_kept. rewrite E1, E2.
  destruct ((b =? c_dot) || (b =? c_dash) || (b =? c_us)); [reflexivity|].
  cbn [orb]. destruct (is_alnum b); reflexivity.
Qed.

(* The state of the loop: the array is A ++ pre ++ suf ++ R where A is everything in front of
   the line, pre the bytes already normalised (the lexer's position is behind them), suf the
   unread bytes of the line, R everything behind the line's current end.  The result array is
   A ++ pre ++ (key ++ ':' ++ rest) ++ G ++ R where G are the |suf| - |key ++ ':' ++ rest| stale
   bytes that the deletions left behind the shortened line -- all inside the original line. *)
Lemma key_sep_mem_spec (A : mem) cap : forall fuel (pre suf R : mem),
  (length suf < fuel)%nat ->
  N.of_nat (length pre + length suf) <= cap ->
  let m := A ++ pre ++ suf ++ R in
  let s := Sl (N.of_nat (length A)) (N.of_nat (length pre + length suf)) cap in
  match lex_key_sep suf with
  | Ok (k, r) =>
      exists G, (length k + 1 + length r + length G = length suf)%nat /\
        key_sep_mem fuel m s (N.of_nat (length pre)) =
        KSColon (A ++ pre ++ (k ++ c_colon :: r) ++ G ++ R)
                (Sl (N.of_nat (length A)) (N.of_nat (length pre + (length k + 1 + length r))) cap)
                (N.of_nat (length pre + length k + 1))
  | Rej e =>
      exists v' len', length v' = length suf /\
        key_sep_mem fuel m s (N.of_nat (length pre)) =
        KSReject (A ++ pre ++ v' ++ R) (Sl (N.of_nat (length A)) len' cap) e
  | Pan => False
  end.
Proof.
  induction fuel as [|f IH]; intros pre suf R Hf Hcap; [lia|].
  destruct suf as [|b suf'].
  - (* end of the line *)
    cbn [lex_key_sep]. exists [], (N.of_nat (length pre + 0)). split; [reflexivity|].
    cbn [key_sep_mem s_len length]. rewrite Nat.add_0_r, N.leb_refl. reflexivity.
  - cbn [length] in Hf, Hcap. cbn zeta. cbn [length].
    assert (Hget : sl_index (A ++ pre ++ (b :: suf') ++ R)
                     (Sl (N.of_nat (length A)) (N.of_nat (length pre + S (length suf'))) cap)
                     (N.of_nat (length pre)) = Some b).
    { unfold sl_index. cbn [s_len s_off].
      replace (N.of_nat (length pre) <? N.of_nat (length pre + S (length suf'))) with true
        by (symmetry; apply N.ltb_lt; lia).
      rewrite app_assoc. cbn [app].
      replace (N.of_nat (length A) + N.of_nat (length pre)) with (N.of_nat (length (A ++ pre)))
        by (rewrite app_length; lia).
      apply mem_get_mid. }
    assert (Hstore : forall c,
               sl_store (A ++ pre ++ (b :: suf') ++ R)
                        (Sl (N.of_nat (length A)) (N.of_nat (length pre + S (length suf'))) cap)
                        (N.of_nat (length pre) + 1 - 1) c
               = Some (A ++ (pre ++ [c]) ++ suf' ++ R)).
    { intros c. unfold sl_store. cbn [s_len s_off]. rewrite N.add_sub.
      replace (N.of_nat (length pre) <? N.of_nat (length pre + S (length suf'))) with true
        by (symmetry; apply N.ltb_lt; lia).
      replace (A ++ pre ++ (b :: suf') ++ R) with ((A ++ pre) ++ [b] ++ (suf' ++ R))
        by (rewrite <- !app_assoc; reflexivity).
      replace (N.of_nat (length A) + N.of_nat (length pre)) with (N.of_nat (length (A ++ pre)))
        by (rewrite app_length; lia).
      rewrite mem_write_same by reflexivity. rewrite <- !app_assoc. reflexivity. }
    cbn [key_sep_mem s_len].
    replace (N.of_nat (length pre + S (length suf')) <=? N.of_nat (length pre)) with false
      by (symmetry; apply N.leb_gt; lia).
    rewrite Hget.
    (* the IH after a byte has been kept / replaced: pre grows by one byte *)
    assert (Hkeep : forall c,
      match lex_key_sep suf' with
      | Ok (k, r) =>
          exists G, (length (c :: k) + 1 + length r + length G = S (length suf'))%nat /\
            key_sep_mem f (A ++ (pre ++ [c]) ++ suf' ++ R)
                        (Sl (N.of_nat (length A)) (N.of_nat (length pre + S (length suf'))) cap)
                        (N.of_nat (length pre) + 1) =
            KSColon (A ++ pre ++ ((c :: k) ++ c_colon :: r) ++ G ++ R)
                    (Sl (N.of_nat (length A)) (N.of_nat (length pre + (length (c :: k) + 1 + length r))) cap)
                    (N.of_nat (length pre + length (c :: k) + 1))
      | Rej e =>
          exists v' len', length v' = S (length suf') /\
            key_sep_mem f (A ++ (pre ++ [c]) ++ suf' ++ R)
                        (Sl (N.of_nat (length A)) (N.of_nat (length pre + S (length suf'))) cap)
                        (N.of_nat (length pre) + 1) =
            KSReject (A ++ pre ++ v' ++ R) (Sl (N.of_nat (length A)) len' cap) e
      | Pan => False
      end).
    { intros c. specialize (IH (pre ++ [c]) suf' R).
      rewrite app_length in IH. cbn [length] in IH.
      replace (length pre + 1 + length suf')%nat with (length pre + S (length suf'))%nat in IH by lia.
      replace (N.of_nat (length pre + 1)) with (N.of_nat (length pre) + 1) in IH by lia.
      specialize (IH ltac:(lia) Hcap). cbn zeta in IH.
      destruct (lex_key_sep suf') as [[k r]|e|]; [| |exact IH].
      - destruct IH as (G & HG & IH). exists G. split; [cbn [length]; lia|].
        rewrite IH. cbn [length]. f_equal.
        + rewrite <- !app_assoc. reflexivity.
        + f_equal. lia.
        + lia.
      - destruct IH as (v' & len' & Hv & IH). exists (c :: v'), len'. split; [cbn [length]; lia|].
        rewrite IH. f_equal. rewrite <- !app_assoc. reflexivity. }
    destruct (b =? c_slash) eqn:E1.
    { apply N.eqb_eq in E1. subst b. rewrite Hstore.
      change (lex_key_sep (c_slash :: suf')) with
        (match lex_key_sep suf' with Ok (k, r') => Ok (c_dash :: k, r') | e => e end).
      specialize (Hkeep c_dash). destruct (lex_key_sep suf') as [[k r]|e|]; exact Hkeep. }
    destruct ((b =? c_space) || (b =? c_tab)) eqn:E2.
    { rewrite Hstore.
      assert (Hlk : lex_key_sep (b :: suf') =
                    match lex_key_sep suf' with Ok (k, r') => Ok (c_us :: k, r') | e => e end).
      { apply Bool.orb_true_iff in E2. destruct E2 as [E2|E2]; apply N.eqb_eq in E2; subst b; reflexivity. }
      rewrite Hlk. specialize (Hkeep c_us). destruct (lex_key_sep suf') as [[k r]|e|]; exact Hkeep. }
    cbn [lex_key_sep].
    destruct (b =? c_colon) eqn:E3.
    { cbv iota. exists []. split; [cbn [length]; lia|]. apply N.eqb_eq in E3. subst b.
      cbn [app length]. f_equal. lia. }
    destruct (b =? c_nul) eqn:E4.
    { cbv iota. exists (b :: suf'), (N.of_nat (length pre + S (length suf'))). split; reflexivity. }
    rewrite (norm_byte_other b E1 E2).
    destruct (key_byte_kept b) eqn:E5.
    { (* kept: memory unchanged *)
      specialize (Hkeep b).
      replace (A ++ (pre ++ [b]) ++ suf' ++ R) with (A ++ pre ++ (b :: suf') ++ R) in Hkeep
        by (rewrite <- !app_assoc; reflexivity).
      destruct (lex_key_sep suf') as [[k r]|e|]; exact Hkeep. }
    (* deleted: append(l.input[0:pos-1], l.input[pos:]...) *)
    unfold reslice, reslice_from. cbn [s_len s_off s_cap]. rewrite N.add_sub.
    replace ((0 <=? N.of_nat (length pre)) && (N.of_nat (length pre) <=? cap)) with true
      by (symmetry; apply Bool.andb_true_iff; split; apply N.leb_le; lia).
    replace (N.of_nat (length pre) + 1 <=? N.of_nat (length pre + S (length suf'))) with true
      by (symmetry; apply N.leb_le; lia).
    unfold sl_read. cbn [s_off s_len].
    replace (N.of_nat (length pre + S (length suf')) - (N.of_nat (length pre) + 1))
      with (N.of_nat (length suf')) by lia.
    replace (A ++ pre ++ (b :: suf') ++ R) with ((A ++ pre ++ [b]) ++ suf' ++ R)
      by (rewrite <- !app_assoc; reflexivity).
    replace (N.of_nat (length A) + (N.of_nat (length pre) + 1)) with (N.of_nat (length (A ++ pre ++ [b])))
      by (rewrite !app_length; cbn [length]; lia).
    rewrite mem_read_mid.
    unfold go_append. cbn [s_len s_off s_cap]. rewrite !N.sub_0_r, !N.add_0_r.
    replace (N.of_nat (length pre) + N.of_nat (length suf') <=? cap) with true
      by (symmetry; apply N.leb_le; lia).
    replace ((A ++ pre ++ [b]) ++ suf' ++ R) with ((A ++ pre) ++ (b :: suf') ++ R)
      by (rewrite <- !app_assoc; reflexivity).
    replace (N.of_nat (length A) + N.of_nat (length pre)) with (N.of_nat (length (A ++ pre)))
      by (rewrite app_length; lia).
    rewrite mem_write_mid by (cbn [length]; lia).
    set (X := skipn (length suf') (b :: suf')).
    assert (HX : length X = 1%nat) by (unfold X; rewrite skipn_length; cbn [length]; lia).
    specialize (IH pre suf' (X ++ R) ltac:(lia) ltac:(lia)). cbn zeta in IH.
    replace ((A ++ pre) ++ suf' ++ X ++ R) with (A ++ pre ++ suf' ++ X ++ R)
      by (rewrite <- !app_assoc; reflexivity).
    replace (N.of_nat (length pre) + N.of_nat (length suf')) with (N.of_nat (length pre + length suf')) by lia.
    destruct (lex_key_sep suf') as [[k r]|e|]; [| |exact IH].
    + destruct IH as (G & HG & IH). exists (G ++ X). split; [rewrite app_length; cbn [length]; lia|].
      rewrite IH. rewrite <- !app_assoc. reflexivity.
    + destruct IH as (v' & len' & Hv & IH). exists (v' ++ X), len'.
      split; [rewrite app_length; cbn [length]; lia|]. rewrite IH. rewrite <- !app_assoc. reflexivity.
Qed.

(* ---------------------------------------------------------------------------------------- *)
(* one line *)

Lemma lex_metric_split pf ns l :
  lex_metric pf ns l =
  match lex_key_sep l with
  | Rej e => OReject e | Pan => OPanic
  | Ok (key, r1) => lex_after_key pf ns key r1
  end.
Proof.
  unfold lex_metric, lex_after_key. destruct (lex_key_sep l) as [[key r1]| |]; reflexivity.
Qed.

Lemma lex_line_mem_spec pf ns (A v R : mem) cap :
  N.of_nat (length v) <= cap ->
  exists v', length v' = length v /\
    lex_line_mem pf ns (A ++ v ++ R) (Sl (N.of_nat (length A)) (N.of_nat (length v)) cap)
    = LMOk (A ++ v' ++ R) (lex pf ns v).
Proof.
  intros Hcap. unfold lex_line_mem. rewrite view_mid by reflexivity.
  destruct v as [|b r]; [exists []; split; reflexivity|].
  unfold lex, lex_gen. fold lex_event.
  destruct (b =? c_us); [exists (b :: r); split; reflexivity|].
  destruct (b =? c_nul); [exists (b :: r); split; reflexivity|].
  rewrite lex_metric_split. cbn [s_len]. rewrite Nat2N.id.
  pose proof (key_sep_mem_spec A cap (S (length (b :: r))) [] (b :: r) R ltac:(lia)) as H.
  cbn [length Nat.add app] in H. cbn [length app]. specialize (H Hcap). cbn zeta in H.
  change (N.of_nat 0) with 0 in H.
  destruct (lex_key_sep (b :: r)) as [[k r']|e|]; [| |contradiction].
  - destruct H as (G & HG & H). rewrite H. exists ((k ++ c_colon :: r') ++ G).
    split; [rewrite !app_length; cbn [length]; lia|].
    rewrite <- !app_assoc. f_equal.
    replace (A ++ k ++ (c_colon :: r') ++ G ++ R) with (A ++ (k ++ c_colon :: r') ++ (G ++ R))
      by (rewrite <- !app_assoc; reflexivity).
    rewrite (view_mid A (k ++ c_colon :: r') (G ++ R))
      by (cbn [s_off s_len]; rewrite ?app_length; cbn [length]; lia || reflexivity).
    replace (N.to_nat (N.of_nat (length k + 1) - 1)) with (length k) by lia.
    replace (N.to_nat (N.of_nat (length k + 1))) with (length k + 1)%nat by lia.
    rewrite firstn_app, Nat.sub_diag, firstn_all. cbn [firstn]. rewrite app_nil_r.
    rewrite skipn_app, skipn_all2 by lia. replace (length k + 1 - length k)%nat with 1%nat by lia.
    reflexivity.
  - destruct H as (v' & len' & Hv & H). rewrite H. exists v'. split; [exact Hv|reflexivity].
Qed.

(* ---------------------------------------------------------------------------------------- *)
(* the datagram loop over the shared buffer *)

Lemma parse_mem_spec pf ns : forall fuel (A d R : mem) cap,
  (length d < fuel)%nat -> N.of_nat (length d) <= cap ->
  exists d', length d' = length d /\
    parse_mem pf ns fuel (A ++ d ++ R) (Sl (N.of_nat (length A)) (N.of_nat (length d)) cap)
    = PMOk (map (lex pf ns) (lines d)) (A ++ d' ++ R).
Proof.
  induction fuel as [|f IH]; intros A d R cap Hf Hcap; [lia|].
  cbn [parse_mem]. unfold sl_read. cbn [s_off s_len]. rewrite mem_read_mid.
  destruct (index_byte c_nl d) as [i|] eqn:E.
  - destruct (index_byte_some _ _ _ E) as (u & r & -> & Hnin & ->).
    rewrite app_length in Hf, Hcap. cbn [length] in Hf, Hcap.
    unfold reslice, reslice_from. cbn [s_off s_len s_cap].
    replace ((0 <=? N.of_nat (length u)) && (N.of_nat (length u) <=? cap)) with true
      by (symmetry; apply Bool.andb_true_iff; split; apply N.leb_le; lia).
    rewrite app_length. cbn [length].
    replace (N.of_nat (length u) + 1 <=? N.of_nat (length u + S (length r))) with true
      by (symmetry; apply N.leb_le; lia).
    rewrite N.add_0_r, !N.sub_0_r.
    destruct (lex_line_mem_spec pf ns A u ((c_nl :: r) ++ R) cap ltac:(lia)) as (u' & Hu' & Hl).
    replace (A ++ (u ++ c_nl :: r) ++ R) with (A ++ u ++ (c_nl :: r) ++ R)
      by (rewrite <- !app_assoc; reflexivity).
    rewrite Hl.
    specialize (IH (A ++ u' ++ [c_nl]) r R (cap - (N.of_nat (length u) + 1)) ltac:(lia) ltac:(lia)).
    destruct IH as (r' & Hr' & IH).
    replace (A ++ u' ++ (c_nl :: r) ++ R) with ((A ++ u' ++ [c_nl]) ++ r ++ R)
      by (rewrite <- !app_assoc; reflexivity).
    replace (N.of_nat (length A) + (N.of_nat (length u) + 1)) with (N.of_nat (length (A ++ u' ++ [c_nl])))
      by (rewrite !app_length; cbn [length]; lia).
    replace (N.of_nat (length u + S (length r)) - (N.of_nat (length u) + 1)) with (N.of_nat (length r)) by lia.
    rewrite IH. exists (u' ++ c_nl :: r'). split; [rewrite !app_length; cbn [length]; lia|].
    rewrite lines_cons by exact Hnin. cbn [map]. f_equal. rewrite <- !app_assoc. reflexivity.
  - apply index_byte_none in E. rewrite lines_last by exact E.
    destruct d as [|b d0]; [exists []; split; reflexivity|].
    replace (N.of_nat (length (b :: d0)) =? 0) with false by (symmetry; apply N.eqb_neq; cbn [length]; lia).
    destruct (lex_line_mem_spec pf ns A (b :: d0) R cap Hcap) as (v' & Hv' & Hl). rewrite Hl.
    specialize (IH [] [] (A ++ v' ++ R) 0 ltac:(cbn [length] in *; lia) ltac:(cbn; lia)).
    destruct IH as (e & He & IH). destruct e; [|discriminate]. cbn [app length] in IH.
    change (Sl (N.of_nat 0) (N.of_nat 0) 0) with nil_slice in IH. rewrite IH.
    exists v'. split; [exact Hv'|reflexivity].
Qed.

(* ---------------------------------------------------------------------------------------- *)
(* the same, stated on an arbitrary array and slice (frame in terms of addresses) *)

Lemma skipn_add {A} (a l : nat) (m : list A) : skipn l (skipn a m) = skipn (a + l) m.
Proof.
  revert m; induction a as [|a IH]; intros m; [reflexivity|].
  destruct m as [|x m]; [rewrite !skipn_nil; reflexivity|]. cbn [skipn Nat.add]. apply IH.
Qed.

Lemma decompose (m : mem) s :
  wf_slice m s ->
  m = firstn (N.to_nat (s_off s)) m ++ view m s ++ skipn (N.to_nat (s_off s + s_len s)) m /\
  length (firstn (N.to_nat (s_off s)) m) = N.to_nat (s_off s) /\
  length (view m s) = N.to_nat (s_len s).
Proof.
  intros [Hl Hc]. unfold view.
  assert (H1 : length (firstn (N.to_nat (s_off s)) m) = N.to_nat (s_off s)) by (rewrite firstn_length; lia).
  assert (H2 : length (firstn (N.to_nat (s_len s)) (skipn (N.to_nat (s_off s)) m)) = N.to_nat (s_len s))
    by (rewrite firstn_length, skipn_length; lia).
  split; [|split; assumption].
  replace (N.to_nat (s_off s + s_len s)) with (N.to_nat (s_off s) + N.to_nat (s_len s))%nat by lia.
  rewrite <- skipn_add. rewrite firstn_skipn. rewrite firstn_skipn. reflexivity.
Qed.

Lemma frame_of_decomposition (P W W' R : mem) off len :
  off = N.of_nat (length P) -> len = N.of_nat (length W) -> length W' = length W ->
  length (P ++ W' ++ R) = length (P ++ W ++ R) /\
  forall i, i < off \/ off + len <= i -> mem_get (P ++ W' ++ R) i = mem_get (P ++ W ++ R) i.
Proof.
  intros -> -> He. split; [rewrite !app_length; lia|].
  intros i [Hi|Hi]; unfold mem_get.
  - rewrite !nth_error_app1 by lia. reflexivity.
  - rewrite !(nth_error_app2 P) by lia. rewrite !nth_error_app2 by lia. rewrite He. reflexivity.
Qed.

(* what [lex_key_sep] computes, in terms of [normalise] *)
Lemma lex_key_sep_normalise l k r :
  lex_key_sep l = Ok (k, r) ->
  exists raw, l = raw ++ c_colon :: r /\ ~ In c_colon raw /\ ~ In c_nul raw /\ k = normalise raw.
Proof.
  revert k; induction l as [|b l IH]; intros k; cbn [lex_key_sep]; [discriminate|].
  destruct (N.eqb_spec b c_colon) as [->|Hc].
  - intros H; injection H as <- <-. exists []. repeat split; intros [].
  - destruct (N.eqb_spec b c_nul) as [->|Hn]; [discriminate|].
    destruct (lex_key_sep l) as [[k' r']| |]; [|discriminate|discriminate].
    intros H; injection H as <- <-. destruct (IH k' eq_refl) as (raw & -> & H1 & H2 & ->).
    exists (b :: raw). repeat split.
    + intros [E|Hin]; [congruence|exact (H1 Hin)].
    + intros [E|Hin]; [congruence|exact (H2 Hin)].
Qed.

Lemma key_sep_mem_frame (m : mem) s :
  wf_slice m s ->
  lex_key_sep (view m s) <> Pan /\
  exists m' s',
    key_sep_mem (S (N.to_nat (s_len s))) m s 0 =
      match lex_key_sep (view m s) with
      | Ok (k, r) => KSColon m' s' (N.of_nat (length k) + 1)
      | Rej e => KSReject m' s' e
      | Pan => KSPanic
      end /\
    length m' = length m /\
    (forall i, i < s_off s \/ s_off s + s_len s <= i -> mem_get m' i = mem_get m i) /\
    s_off s' = s_off s /\ s_cap s' = s_cap s /\
    (forall k r, lex_key_sep (view m s) = Ok (k, r) ->
       s_len s' + N.of_nat (length (view m s)) = s_len s + N.of_nat (length (k ++ c_colon :: r)) /\
       view m' s' = k ++ c_colon :: r /\
       exists raw, view m s = raw ++ c_colon :: r /\ k = normalise raw).
Proof.
  intros Hwf. destruct (decompose m s Hwf) as (Hm & HP & HW). destruct Hwf as [Hlen Hcap].
  remember (firstn (N.to_nat (s_off s)) m) as P eqn:HeqP. remember (view m s) as W eqn:HeqW.
  remember (skipn (N.to_nat (s_off s + s_len s)) m) as R eqn:HeqR.
  assert (Hs : Sl (N.of_nat (length P)) (N.of_nat (length W)) (s_cap s) = s)
    by (rewrite HP, HW, !N2Nat.id; destruct s; reflexivity).
  pose proof (key_sep_mem_spec P (s_cap s) (S (N.to_nat (s_len s))) [] W R ltac:(lia) ltac:(cbn [length]; lia)) as H.
  cbn zeta in H. cbn [app length Nat.add] in H. change (N.of_nat 0) with 0 in H.
  rewrite Hs in H.
  rewrite <- Hm in H.
  destruct (lex_key_sep W) as [[k r]|e|] eqn:EW; [| |contradiction]; (split; [discriminate|]).
  - destruct H as (G & HG & H). eexists _, _. split; [rewrite H; f_equal; lia|].
    replace (P ++ (k ++ c_colon :: r) ++ G ++ R) with (P ++ ((k ++ c_colon :: r) ++ G) ++ R)
      by (rewrite <- !app_assoc; reflexivity).
    assert (HWl : length ((k ++ c_colon :: r) ++ G) = length W)
      by (rewrite !app_length; cbn [length]; lia).
    destruct (frame_of_decomposition P W ((k ++ c_colon :: r) ++ G) R (s_off s) (s_len s)
                ltac:(lia) ltac:(lia) HWl) as [HL HF].
    rewrite <- Hm in HL, HF. split; [exact HL|]. split; [exact HF|].
    cbn [s_off s_cap s_len]. split; [lia|]. split; [reflexivity|].
    intros k0 r0 Hk. injection Hk as <- <-. split; [rewrite app_length; cbn [length]; lia|]. split.
    + rewrite <- app_assoc. apply view_mid; cbn [s_off s_len]; [reflexivity|].
      rewrite app_length. cbn [length]. lia.
    + destruct (lex_key_sep_normalise _ _ _ EW) as (raw & Hr & _ & _ & Hn). exists raw. split; assumption.
  - destruct H as (v' & len' & Hv & H). eexists _, _. split; [exact H|].
    destruct (frame_of_decomposition P W v' R (s_off s) (s_len s) ltac:(lia) ltac:(lia) Hv) as [HL HF].
    rewrite <- Hm in HL, HF. split; [exact HL|]. split; [exact HF|].
    cbn [s_off s_cap]. split; [lia|]. split; [reflexivity|]. intros k r Hk. discriminate.
Qed.

Lemma parse_buffer_spec pf ns (m : mem) s :
  wf_slice m s ->
  exists m',
    parse_buffer pf ns m s = PMOk (map (lex pf ns) (lines (view m s))) m' /\
    length m' = length m /\
    (forall i, i < s_off s \/ s_off s + s_len s <= i -> mem_get m' i = mem_get m i).
Proof.
  intros Hwf. destruct (decompose m s Hwf) as (Hm & HP & HW). destruct Hwf as [Hlen Hcap].
  remember (firstn (N.to_nat (s_off s)) m) as P eqn:HeqP. remember (view m s) as W eqn:HeqW.
  remember (skipn (N.to_nat (s_off s + s_len s)) m) as R eqn:HeqR.
  assert (Hs : Sl (N.of_nat (length P)) (N.of_nat (length W)) (s_cap s) = s)
    by (rewrite HP, HW, !N2Nat.id; destruct s; reflexivity).
  destruct (parse_mem_spec pf ns (S (N.to_nat (s_len s))) P W R (s_cap s) ltac:(lia) ltac:(lia))
    as (W' & HW' & H).
  rewrite Hs in H.
  rewrite <- Hm in H. exists (P ++ W' ++ R). split; [exact H|].
  destruct (frame_of_decomposition P W W' R (s_off s) (s_len s) ltac:(lia) ltac:(lia) HW') as [HL HF].
  rewrite <- Hm in HL, HF. split; assumption.
Qed.

(* non-vacuity: two lines in a buffer with bytes in front and behind; the first line loses two
   bytes in place, its stale tail stays inside the line, the second line is lexed untouched *)
Example parse_buffer_example :
  let pf := fun _ : str => PFVal f64_one in
  (* 7 7 | "a!b?:1|c\n/x:2|g" | 9 9 *)
  let m := [7;7; 97;33;98;63;58;49;124;99;10; 47;120;58;50;124;103; 9;9] in
  let s := Sl 2 15 17 in
  wf_slice m s /\
  parse_buffer pf [] m s =
  PMOk [OMetric {| m_name := [97;98]; m_type := Counter; m_value := f64_one; m_strval := []; m_rate := f64_one; m_tags := [] |};
        OMetric {| m_name := [45;120]; m_type := Gauge; m_value := f64_one; m_strval := []; m_rate := f64_one; m_tags := [] |}]
       [7;7; 97;98;58;49;124;99;99;99;10; 45;120;58;50;124;103; 9;9].
Proof. split; [split; vm_compute; discriminate|vm_compute; reflexivity]. Qed.

(* what a parse yields depends on the bytes of the datagram only: not on where the slice lies,
   its capacity, the bytes around it or what earlier parses left in the buffer *)
Lemma parse_buffer_view_only pf ns (m1 m2 : mem) s1 s2 :
  wf_slice m1 s1 -> wf_slice m2 s2 -> view m1 s1 = view m2 s2 ->
  exists outs m1' m2',
    parse_buffer pf ns m1 s1 = PMOk outs m1' /\ parse_buffer pf ns m2 s2 = PMOk outs m2' /\
    outs = map (lex pf ns) (lines (view m1 s1)).
Proof.
  intros H1 H2 Hv.
  destruct (parse_buffer_spec pf ns m1 s1 H1) as (m1' & E1 & _).
  destruct (parse_buffer_spec pf ns m2 s2 H2) as (m2' & E2 & _).
  rewrite <- Hv in E2. eexists _, m1', m2'. repeat split; eassumption.
Qed.
