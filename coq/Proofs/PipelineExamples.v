(* Non-vacuity of the C01 theorems: a concrete run with 3 shards, two parses whose enqueues are
   interleaved, a flush that starts between two enqueues (so one batch is split over two
   flushes), then quiescence and a complete final flush.  The hypotheses of
   C01_exact_at_quiescence, C01_once_per_flush and C01_no_phantom are all satisfied on it, with
   non-trivial content. *)
From stdpp Require Import gmap gmultiset.
From Coq Require Import QArith Qcanon.
From GS Require Import Base.Bytes Base.LTS Model.Lexer Model.Series Model.MetricMap Model.Content Model.Pipeline.
From GS Require Import Proofs.PipelineAlgebra Proofs.Pipeline.
Local Open Scope nat_scope.

Definition f_one : Z := 4607182418800017408.    (* 1.0 *)
Definition f_half : Z := 4602678819172646912.   (* 0.5 *)
Definition f_two : Z := 4611686018427387904.    (* 2.0 *)

Definition ex_cfg : config := MkCfg 3 0 60 0 0.
Definition ka : skey := ([97%N], []).   (* bucket 2 of 3 *)
Definition kb : skey := ([98%N], []).   (* bucket 1 *)
Definition kc : skey := ([99%N], []).   (* bucket 0 *)
Definition kd : skey := ([100%N], []).  (* bucket 2 *)

Definition dp (name : N) (ty : mtype) (v : Z) (sv : str) (rate : Z) (ts : Z) : datapoint :=
  MkDp [name] ty v sv rate [] [] ts.

(* a:2|c|@0.5   b:2|ms|@0.5   c:x|s *)
Definition batch1 := [dp 97 Counter f_two [] f_half 10; dp 98 Timer f_two [] f_half 10; dp 99 MSet 0 [120%N] f_one 10].
(* a:1|c   d:1|g   b:1|ms   a:2|c *)
Definition batch2 := [dp 97 Counter f_one [] f_one 11; dp 100 Gauge f_one [] f_one 11; dp 98 Timer f_one [] f_one 11;
                      dp 97 Counter f_two [] f_one 11].

Definition ex_ls : list label :=
  [ Parse batch1;        (* parser 1 holds splits for shards 0, 1, 2 *)
    Enq 0;               (* shard 0 <- {c} *)
    Parse batch2;        (* parser 2 holds splits for shards 1, 2: in flight = (1,b) (2,a) (1,b') (2,a'd) *)
    Enq 1;               (* shard 2 <- {a} of batch 1 *)
    Merge 2;
    Tick 0;              (* a flush starts while three splits are still held by the parsers *)
    FlushShard 2 100;    (* reports a = 4 *)
    Enq 0;               (* shard 1 <- {b} of batch 1, between the flush commands *)
    FlushShard 0 100;    (* shard 0 has not merged {c} yet: reports nothing *)
    Merge 0;
    Merge 1;
    FlushShard 1 100;    (* reports b = {2} *)
    Enq 0; Enq 0;        (* the splits of batch 2 *)
    Merge 1; Merge 2 ].
Definition ex_final : list label := [ Tick 1; FlushShard 1 200; FlushShard 0 200; FlushShard 2 200 ].

(* the two runs, evaluated once; every fact below is a projection computed by vm_compute *)
Definition ex_s : option state := run (step ex_cfg) (init ex_cfg) ex_ls.
Definition ex_s' : option state := ex_s ≫= λ s, run (step ex_cfg) s ex_final.
(* conversion must unfold these names rather than start evaluating the runs *)
Local Strategy expand [ex_s ex_s'].

Example ex_quiet : (λ s, (st_inflight s, st_queue s)) <$> ex_s = Some ([], [[]; []; []]).
Proof. vm_compute. reflexivity. Qed.
Example ex_complete : st_flushing <$> ex_s' = Some (Some (1, [])).
Proof. vm_compute. reflexivity. Qed.
(* the counter a: 4 in flush 0, 1 + 2 in flush 1; int64(2/0.5) + 1 + 2 were sent *)
Example ex_counter_a :
  (λ s, (λ x : nat * nat * mmap, (x.1, counter_at x.2 ka)) <$> st_out s) <$> ex_s'
  = Some [(0, 2, 4%Z); (0, 0, 0%Z); (0, 1, 0%Z); (1, 1, 0%Z); (1, 0, 0%Z); (1, 2, 3%Z)].
Proof. vm_compute. reflexivity. Qed.
Example ex_input_a : (λ s, ctr (input_total s ka)) <$> ex_s = Some 7%Z.
Proof. vm_compute. reflexivity. Qed.
(* the timer b: value 2.0 with weight 2 in flush 0, value 1.0 with weight 1 in flush 1 *)
Example ex_timer_b :
  (λ s, (λ x : nat * nat * mmap, Qnum (this (sampled_at x.2 kb))) <$> st_out s) <$> ex_s' = Some [0; 0; 2; 1; 0; 0]%Z.
Proof. vm_compute. reflexivity. Qed.
(* two entries of flush 1, each with a series of its own *)
Example ex_two_entries :
  (λ s, ((λ x : nat * nat * mmap, (x.1, holdsb x.2 Timer kb)) <$> st_out s !! 3,
         (λ x : nat * nat * mmap, (x.1, holdsb x.2 MSet kc)) <$> st_out s !! 4)) <$> ex_s'
  = Some (Some ((1, 1), true), Some ((1, 0), true)).
Proof. vm_compute. reflexivity. Qed.

(* the hypotheses of C01_exact_at_quiescence (and of once_per_flush / no_phantom) hold on it *)
Example C01_example_run :
  ∃ s s',
    run (step ex_cfg) (init ex_cfg) ex_ls = Some s
    ∧ quiescent s
    ∧ run (step ex_cfg) s ex_final = Some s'
    ∧ flush_follows 1 ex_final
    ∧ flush_complete 1 s'
    ∧ (∃ m1 m2, st_out s' !! 3 = Some (1, 1, m1) ∧ st_out s' !! 4 = Some (1, 0, m2)
                ∧ holds m1 Timer kb ∧ holds m2 MSet kc).
Proof.
  pose proof ex_quiet as Hq. pose proof ex_complete as Hc. pose proof ex_two_entries as Ht.
  unfold ex_s' in Hc, Ht. destruct ex_s as [s|] eqn:Es; [|discriminate Hq].
  cbn [mbind option_bind] in Hc, Ht.
  destruct (run (step ex_cfg) s ex_final) as [s'|] eqn:Er; [|discriminate Hc].
  cbn [fmap option_fmap option_map] in Hq, Hc, Ht.
  injection Hq as Hq1 Hq2. injection Hc as Hc. injection Ht as Ht1 Ht2.
  exists s, s'. unfold ex_s in Es. split; [exact Es|]. split; [|split; [exact Er|]]; clear Es Er.
  - (* quiescent: no `done` here, it would try to convert the runs *)
    split; [exact Hq1|]. rewrite Hq2. intros q Hq.
    repeat (apply elem_of_cons in Hq as [->|Hq]; [reflexivity|]). apply elem_of_nil in Hq. destruct Hq.
  - split.
    { exists [], [FlushShard 1 200; FlushShard 0 200; FlushShard 2 200]. split; [reflexivity|]. split; repeat constructor. }
    split; [exact Hc|].
    destruct (st_out s' !! 3) as [[[f1 i1] m1]|]; [|discriminate Ht1].
    destruct (st_out s' !! 4) as [[[f2 i2] m2]|]; [|discriminate Ht2].
    cbn in Ht1, Ht2. injection Ht1 as -> -> H1. injection Ht2 as -> -> H2.
    exists m1, m2. split; [reflexivity|]. split; [reflexivity|].
    split; [apply bool_decide_eq_true in H1; exact H1|apply bool_decide_eq_true in H2; exact H2].
Qed.

(* ... and its conclusion *)
Example C01_example_exact :
  ∃ s s', run (step ex_cfg) (init ex_cfg) ex_ls = Some s
          ∧ run (step ex_cfg) s ex_final = Some s'
          ∧ ∀ k, input_total s k = out_total s' k.
Proof.
  destruct C01_example_run as (s & s' & Hr & Hq & Hr' & Hff & Hfc & _).
  exists s, s'. split; [exact Hr|]. split; [exact Hr'|].
  apply (exact_at_quiescence ex_cfg ex_ls s ex_final s' 1); [discriminate|exact Hr|exact Hq|exact Hr'|exact Hff|exact Hfc].
Qed.

(* ---------------------------------------------------------------------------------------- *)
(* The configured pipeline (Model/PipelineBounded.v): 2 parsers, 3 shards, queue capacity 1, and
   the same batches with capacity 0 (rendezvous).  Parser 1 is blocked behind the full queue of
   shard 2 until worker 2 merges; a flush command is handed over while splits are still held. *)
From GS Require Import Model.PipelineBounded Proofs.PipelineBounded.

Definition ex_bc (q : nat) : bconfig := MkBCfg ex_cfg 2 q.
Definition ex_bls1 : list blabel :=
  [ BParse 0 batch1;     (* parser 0 holds (0,c) (1,b) (2,a) *)
    BParse 1 batch2;     (* parser 1 holds (1,b') (2,a'd) *)
    BEnq 0;              (* shard 0 <- c *)
    BEnq 1;              (* shard 1 <- b' : parser 0's next split now waits for room in queue 1 *)
    BTick 0; BCmd 0;     (* worker 0 takes the command with its queue non-empty *)
    BMerge 1;            (* room in queue 1 *)
    BEnq 0;              (* shard 1 <- b *)
    BExec 0 100;         (* reports nothing: c is still queued *)
    BEnq 1;              (* shard 2 <- a'd *)
    BCmd 1; BCmd 2; BExec 2 100; BExec 1 100;
    BMerge 2; BEnq 0; BMerge 0; BMerge 1; BMerge 2 ].
Definition ex_bfinal : list blabel := [ BTick 1; BCmd 0; BCmd 1; BExec 1 200; BCmd 2; BExec 0 200; BExec 2 200 ].
Definition ex_b1 : option bstate := run (bstep (ex_bc 1)) (binit (ex_bc 1)) ex_bls1.
Definition ex_b1' : option bstate := ex_b1 ≫= λ b, run (bstep (ex_bc 1)) b ex_bfinal.
Local Strategy expand [ex_b1 ex_b1'].

Example ex_b1_quiet : (λ b, (bs_pending b, bs_queue b, bs_busy b)) <$> ex_b1 = Some ([[]; []], [[]; []; []], [false; false; false]).
Proof. vm_compute. reflexivity. Qed.
Example ex_b1_complete : (λ b, (bs_flush b, bs_busy b)) <$> ex_b1' = Some (Some (1, 3), [false; false; false]).
Proof. vm_compute. reflexivity. Qed.
Example ex_b1_counter_a :
  (λ b, (λ x : nat * nat * mmap, (x.1, counter_at x.2 ka)) <$> bs_out b) <$> ex_b1'
  = Some [(0, 0, 0%Z); (0, 2, 0%Z); (0, 1, 0%Z); (1, 1, 0%Z); (1, 0, 0%Z); (1, 2, 7%Z)].
Proof. vm_compute. reflexivity. Qed.

(* capacity 0: every send is a rendezvous with a worker that is not executing a command *)
Definition ex_bls0 : list blabel :=
  [ BParse 0 batch1; BParse 1 batch2; BRdv 0; BTick 0; BCmd 0; BRdv 1; BRdv 0; BCmd 1; BExec 0 100;
    BCmd 2; BExec 2 100; BRdv 0; BExec 1 100; BRdv 1 ].
Example ex_b0_run :
  (λ b, (bs_pending b, bs_queue b, (λ m, counter_at m ka) <$> bs_aggr b)) <$> run (bstep (ex_bc 0)) (binit (ex_bc 0)) ex_bls0
  = Some ([[]; []], [[]; []; []], [0%Z; 0%Z; 7%Z]).
Proof. vm_compute. reflexivity. Qed.

(* the hypotheses of C01_bounded_exact_at_quiescence hold on the capacity-1 run *)
Example C01_bounded_example :
  ∃ b b', run (bstep (ex_bc 1)) (binit (ex_bc 1)) ex_bls1 = Some b
          ∧ bquiescent (ex_bc 1) b
          ∧ run (bstep (ex_bc 1)) b ex_bfinal = Some b'
          ∧ bflush_complete (ex_bc 1) 1 b'
          ∧ ∀ k, total dp_cnt (bs_input b) k = total cnt ((λ x, x.2) <$> bs_out b') k.
Proof.
  pose proof ex_b1_quiet as Hq. pose proof ex_b1_complete as Hc. unfold ex_b1' in Hc.
  destruct ex_b1 as [b|] eqn:Eb; [|discriminate Hq]. cbn [mbind option_bind] in Hc.
  destruct (run (bstep (ex_bc 1)) b ex_bfinal) as [b'|] eqn:Er; [|discriminate Hc].
  cbn [fmap option_fmap option_map] in Hq, Hc. injection Hq as Hq1 Hq2 Hq3. injection Hc as Hc1 Hc2.
  unfold ex_b1 in Eb.
  assert (HQ : bquiescent (ex_bc 1) b).
  { clear Eb Er. split.
    - rewrite Hq1. intros l Hl. repeat (apply elem_of_cons in Hl as [->|Hl]; [reflexivity|]). apply elem_of_nil in Hl. destruct Hl.
    - rewrite Hq2. intros l Hl. repeat (apply elem_of_cons in Hl as [->|Hl]; [reflexivity|]). apply elem_of_nil in Hl. destruct Hl. }
  assert (HC : bflush_complete (ex_bc 1) 1 b').
  { clear Eb Er. exists 3. split; [exact Hc1|]. split; [cbn; lia|]. rewrite Hc2. intros x Hx.
    repeat (apply elem_of_cons in Hx as [->|Hx]; [reflexivity|]). apply elem_of_nil in Hx. destruct Hx. }
  exists b, b'. split; [exact Eb|]. split; [exact HQ|]. split; [exact Er|]. split; [exact HC|].
  apply (bounded_exact_at_quiescence (ex_bc 1) ex_bls1 b ex_bfinal b' 1); [discriminate|exact Eb|exact HQ|exact Er| |exact HC].
  exists [], [BCmd 0; BCmd 1; BExec 1 200; BCmd 2; BExec 0 200; BExec 2 200]. split; [reflexivity|]. split; repeat constructor.
Qed.
