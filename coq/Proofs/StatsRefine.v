(* C08: the implementation-shaped [flush_timer] over exact rationals equals [timer_spec]; the
   properties of the specification (order independence, "the k lowest", population variance,
   sampled count). *)
From Coq Require Import List ZArith QArith Qcanon Lia Permutation Sorted.
From GS Require Import Base.Bytes Model.GoPartial Model.Histogram Model.Stats.
From GS Require Import Proofs.StatsSort Proofs.Histogram.
Import ListNotations.
Local Open Scope Z_scope.
Arguments Z.mul : simpl never.
Arguments Z.add : simpl never.
Arguments Z.sub : simpl never.
Arguments Z.div : simpl never.
Arguments Z.modulo : simpl never.

(* ---------------------------------------------------------------------------------------- *)
(* checked indexing, positions *)

Lemma idx_ok {A} (l : list A) (i : Z) (a : A) :
  0 <= i -> nth_error l (Z.to_nat i) = Some a -> idx l i = Ok a.
Proof.
  intros Hi H. unfold idx. destruct (i <? 0) eqn:E; [lia|]. rewrite H. reflexivity.
Qed.

Lemma nth_error_firstn_lt {A} (l : list A) k i :
  (i < k)%nat -> nth_error (firstn k l) i = nth_error l i.
Proof.
  revert l i. induction k as [|k IH]; intros l i Hi; [lia|].
  destruct l as [|x l]; [destruct i; reflexivity|].
  destruct i as [|i]; cbn [firstn nth_error]; [reflexivity | apply IH; lia].
Qed.

Lemma nth_error_skipn_add {A} (l : list A) k i :
  nth_error (skipn k l) i = nth_error l (k + i).
Proof.
  revert l. induction k as [|k IH]; intros l; [reflexivity|].
  destruct l as [|x l]; cbn [skipn Nat.add nth_error]; [destruct i; reflexivity | apply IH].
Qed.

(* ---------------------------------------------------------------------------------------- *)
(* the cumulative arrays are prefix sums *)

Local Open Scope Qc_scope.

Lemma nth_error_cum_from f acc l i :
  (i < length l)%nat ->
  nth_error (cum_from qc_ops f acc l) i = Some (acc + qsum (map f (firstn (S i) l))).
Proof.
  revert acc i. induction l as [|x l IH]; intros acc i Hi; cbn [length] in Hi; [lia|].
  cbn [cum_from vadd qc_ops]. destruct i as [|i]; cbn [nth_error].
  - f_equal; unfold qsum; cbn [firstn map fold_right]; try ring.
  - rewrite IH by lia. f_equal; unfold qsum; cbn [firstn map fold_right]; try ring.
Qed.

Lemma nth_error_cumulative f l i :
  (i < length l)%nat ->
  nth_error (cumulative qc_ops f l) i = Some (qsum (map f (firstn (S i) l))).
Proof.
  destruct l as [|x l]; intros Hi; cbn [length] in Hi; [lia|].
  cbn [cumulative]. destruct i as [|i]; cbn [nth_error].
  - f_equal; unfold qsum; cbn [firstn map fold_right]; try ring.
  - rewrite nth_error_cum_from by lia. f_equal; unfold qsum; cbn [firstn map fold_right]; try ring.
Qed.

(* cum[j-1] for 1 <= j <= n is the sum of the first j values *)
Lemma idx_cumulative f l (j : Z) :
  (1 <= j <= len l)%Z ->
  idx (cumulative qc_ops f l) (j - 1) = Ok (qsum (map f (firstn (Z.to_nat j) l))).
Proof.
  intros Hj. unfold len in Hj. apply idx_ok; [lia|].
  rewrite nth_error_cumulative by lia.
  replace (S (Z.to_nat (j - 1))) with (Z.to_nat j) by lia. reflexivity.
Qed.

Lemma idx_nth (l : list Qc) (i : Z) :
  (0 <= i < len l)%Z -> idx l i = Ok (nth (Z.to_nat i) l 0).
Proof.
  intros Hi. unfold len in Hi. apply idx_ok; [lia|]. apply nth_error_nth'. lia.
Qed.

Lemma qsum_firstn_skipn k (l : list Qc) : qsum l = qsum (firstn k l) + qsum (skipn k l).
Proof. rewrite <- qsum_app, firstn_skipn. reflexivity. Qed.

Lemma firstn_len_all {A} (l : list A) : firstn (Z.to_nat (len l)) l = l.
Proof. unfold len. rewrite Nat2Z.id. apply firstn_all. Qed.

Lemma map_id_eq (l : list Qc) : map (fun x => x) l = l.
Proof. apply map_id. Qed.

Lemma qnat_1 : qnat 1 = 1.
Proof. apply Qc_is_canon. reflexivity. Qed.
Lemma Qc_of_Z_2 : Qc_of_Z 2 = 1 + 1.
Proof. apply Qc_is_canon. reflexivity. Qed.

(* ---------------------------------------------------------------------------------------- *)
(* one percentile *)

Definition pv_of (sel : list Qc) (b : Qc) : pvars :=
  {| pv_sumsq := qsumsq sel; pv_mean := qmean sel; pv_sum := qsum sel; pv_bound := b |}.

Section Refine.
  Variable rank : Z -> Z -> Z.

  Lemma pct_spec_emit m p xs y r :
    selected rank p xs = y :: r ->
    pct_spec rank m p xs =
    emit qc_ops m p (len (y :: r))
         (pv_of (y :: r) (if (0 <? p)%Z then fold_right qmax y r else fold_right qmin y r)).
  Proof.
    intros H. unfold pct_spec. rewrite H. unfold emit, opt, pv_of.
    cbn [pv_sumsq pv_mean pv_sum pv_bound vofZ qc_ops].
    destruct (0 <? p)%Z; reflexivity.
  Qed.

  Lemma pct_spec_nil m p xs : selected rank p xs = [] -> pct_spec rank m p xs = [].
  Proof. intros H. unfold pct_spec. rewrite H. reflexivity. Qed.

  (* greatest of the first k of a sorted list: the element at position k-1 *)
  Lemma max_firstn_sorted (vs : list Qc) (k : nat) y r :
    StronglySorted Qcle vs -> (1 <= k <= length vs)%nat -> firstn k vs = y :: r ->
    fold_right qmax y r = nth (k - 1) vs 0.
  Proof.
    intros Hs Hk Hf. eapply is_max_unique; [apply fold_qmax_is_max|]. rewrite <- Hf.
    apply sorted_last_is_max.
    - apply (sorted_app_l _ (skipn k vs)). rewrite firstn_skipn. exact Hs.
    - rewrite firstn_length_le by lia. rewrite nth_error_firstn_lt by lia.
      apply nth_error_nth'. lia.
  Qed.

  (* least of the last k of a sorted list: the element at position n-k *)
  Lemma min_skipn_sorted (vs : list Qc) (j : nat) y r :
    StronglySorted Qcle vs -> skipn j vs = y :: r ->
    fold_right qmin y r = nth j vs 0 /\ (j < length vs)%nat.
  Proof.
    intros Hs Hf.
    assert (j < length vs)%nat as Hj.
    { destruct (Nat.lt_ge_cases j (length vs)) as [H|H]; [exact H|].
      rewrite skipn_all2 in Hf by exact H. discriminate. }
    split; [|exact Hj].
    assert (nth j vs 0 = y) as ->.
    { apply nth_error_nth. rewrite <- (Nat.add_0_r j), <- nth_error_skipn_add, Hf. reflexivity. }
    eapply is_min_unique; [apply fold_qmin_is_min|]. apply sorted_head_is_min.
    rewrite <- Hf. apply (sorted_app_r (firstn j vs)). rewrite firstn_skipn. exact Hs.
  Qed.

  Variable m : pmask.
  Variable xs : list Qc.
  Let vs := qsort xs.
  Let n := len xs.
  Let cum := cumulative qc_ops (fun x => x) vs.
  Let cumsq := cumulative qc_ops (fun x => x * x) vs.

  Lemma len_vs : len vs = n.
  Proof. unfold len, vs, n, len. rewrite qsort_length. reflexivity. Qed.

  (* n > 1: whatever the loop-carried variables hold, the iteration reports the specification *)
  Lemma pct_step_many s out p :
    (1 < n)%Z -> (0 <= rank p n <= n)%Z ->
    exists s', pct_step qc_ops rank false m vs cum cumsq n (s, out) p
               = Ok (s', out ++ pct_spec rank m p xs).
  Proof.
    intros Hn Hk. pose proof len_vs as Hlen. pose proof (qsort_sorted xs) as Hs. fold vs in Hs.
    assert (length vs = length xs) as HL by apply qsort_length.
    assert (n = Z.of_nat (length xs)) as Hnn by reflexivity.
    unfold pct_step. destruct (1 <? n)%Z eqn:E1; [|lia].
    set (k := rank p n) in *.
    assert (selected rank p xs =
            if (0 <? p)%Z then firstn (Z.to_nat k) vs else skipn (length xs - Z.to_nat k) vs) as Hsel.
    { unfold selected. destruct (length xs =? 1)%nat eqn:E; [apply Nat.eqb_eq in E; lia|].
      reflexivity. }
    destruct (k =? 0)%Z eqn:Ek.
    - (* no value selected: the percentile is omitted *)
      apply Z.eqb_eq in Ek. exists s. rewrite pct_spec_nil; [rewrite app_nil_r; reflexivity|].
      rewrite Hsel, Ek. destruct (0 <? p)%Z; [reflexivity|].
      apply skipn_all2. cbn. lia.
    - apply Z.eqb_neq in Ek.
      destruct (0 <? p)%Z eqn:Ep.
      + (* the k lowest *)
        try rewrite Ep in Hsel.
        destruct (firstn (Z.to_nat k) vs) as [|y r] eqn:Hf.
        { apply (f_equal (@length _)) in Hf. rewrite firstn_length_le in Hf by lia. cbn in Hf. lia. }
        rewrite (idx_nth vs (k - 1)) by lia.
        unfold cum, cumsq. rewrite !idx_cumulative by lia. cbn [bind].
        eexists. f_equal. f_equal. f_equal.
        rewrite (pct_spec_emit _ _ _ _ _ Hsel). rewrite Ep.
        cbn [pv_sumsq pv_mean pv_sum pv_bound vdiv vofZ qc_ops].
        assert (len (y :: r) = k) as Hlk.
        { rewrite <- Hf. unfold len. rewrite firstn_length_le by lia. lia. }
        rewrite Hlk. f_equal. unfold pv_of. rewrite map_id_eq, Hf.
        f_equal.
        * unfold qmean, qnat. fold (len (y :: r)). rewrite Hlk. reflexivity.
        * rewrite (max_firstn_sorted vs (Z.to_nat k) y r Hs) by (lia || exact Hf).
          f_equal. lia.
      + (* the k highest *)
        try rewrite Ep in Hsel.
        assert (length xs - Z.to_nat k = Z.to_nat (n - k))%nat as Hj by lia.
        rewrite Hj in Hsel.
        destruct (skipn (Z.to_nat (n - k)) vs) as [|y r] eqn:Hf.
        { apply (f_equal (@length _)) in Hf. rewrite skipn_length in Hf. cbn in Hf. lia. }
        destruct (min_skipn_sorted vs _ y r Hs Hf) as [Hmin _].
        assert (len (y :: r) = k) as Hlk.
        { rewrite <- Hf. unfold len. rewrite skipn_length. lia. }
        rewrite (idx_nth vs (n - k)) by lia.
        unfold cum, cumsq.
        replace (n - 1)%Z with (len vs - 1)%Z by lia.
        rewrite !idx_cumulative by lia. cbn [bind orb].
        rewrite !firstn_len_all.
        destruct (k <? n)%Z eqn:Ekn.
        * replace (n - k - 1)%Z with ((n - k) - 1)%Z by lia.
          rewrite !idx_cumulative by lia. cbn [bind].
          eexists. f_equal. f_equal. f_equal.
          rewrite (pct_spec_emit _ _ _ _ _ Hsel). rewrite Ep.
          cbn [pv_sumsq pv_mean pv_sum pv_bound vdiv vofZ vsub qc_ops].
          rewrite Hlk. f_equal. unfold pv_of. rewrite !map_id_eq.
          assert (qsum vs - qsum (firstn (Z.to_nat (n - k)) vs) = qsum (y :: r)) as Hsum.
          { rewrite (qsum_firstn_skipn (Z.to_nat (n - k)) vs), Hf. ring. }
          assert (qsum (map (fun x => x * x) vs)
                  - qsum (map (fun x => x * x) (firstn (Z.to_nat (n - k)) vs)) = qsumsq (y :: r)) as Hsq.
          { unfold qsumsq. rewrite <- Hf.
            rewrite <- (firstn_skipn (Z.to_nat (n - k)) vs) at 1. rewrite map_app, qsum_app. ring. }
          rewrite Hsum, Hsq. f_equal.
          -- unfold qmean, qnat. fold (len (y :: r)). rewrite Hlk. reflexivity.
          -- exact (eq_sym Hmin).
        * (* k = n: every value *)
          assert (k = n) as Hkn by lia.
          assert (vs = y :: r) as Hall.
          { rewrite <- Hf. replace (Z.to_nat (n - k)) with 0%nat by lia. reflexivity. }
          cbn [bind]. eexists. f_equal. f_equal. f_equal.
          rewrite (pct_spec_emit _ _ _ _ _ Hsel). rewrite Ep.
          cbn [pv_sumsq pv_mean pv_sum pv_bound vdiv vofZ vsub qc_ops].
          rewrite Hlk. f_equal. unfold pv_of. rewrite !map_id_eq. rewrite <- Hall.
          f_equal.
          -- unfold qmean, qnat. fold (len vs). rewrite Hlen, Hkn. reflexivity.
          -- rewrite Hmin. reflexivity.
  Qed.

  (* n = 1: the loop-carried variables keep their initial values (those of the one value) *)
  Lemma pct_step_one x s out p :
    xs = [x] -> s = {| pv_sumsq := x * x; pv_mean := x; pv_sum := x; pv_bound := x |} ->
    pct_step qc_ops rank false m vs cum cumsq n (s, out) p = Ok (s, out ++ pct_spec rank m p xs).
  Proof.
    intros Hx Hs. unfold pct_step, n. rewrite Hx. cbn [len length Z.of_nat Z.ltb Z.compare Pos.compare].
    cbn. f_equal. f_equal. f_equal.
    assert (selected rank p [x] = [x]) as Hsel.
    { unfold selected. cbn [length Nat.eqb qsort insert_sorted]. destruct (0 <? p)%Z; reflexivity. }
    rewrite (pct_spec_emit _ _ _ _ _ Hsel). cbn [len length Z.of_nat Pos.of_succ_nat fold_right].
    f_equal. rewrite Hs. unfold pv_of, qmean, qsumsq, qsum. cbn [map fold_right length].
    rewrite qnat_1. destruct (0 <? p)%Z; f_equal; field; discriminate.
  Qed.

  Lemma In_dedupZ p l : In p (dedupZ l) -> In p l.
  Proof.
    revert p. induction l as [|x l IH]; intros p; cbn [dedupZ]; [auto|].
    intros [<-|H]; [left; reflexivity|]. right. apply IH.
    apply filter_In in H. apply H.
  Qed.

  Lemma foldM_pct_many ps : forall s out,
    (1 < n)%Z -> (forall p, In p ps -> 0 <= rank p n <= n)%Z ->
    exists s', foldM (pct_step qc_ops rank false m vs cum cumsq n) (s, out) ps
               = Ok (s', out ++ flat_map (fun p => pct_spec rank m p xs) ps).
  Proof.
    induction ps as [|p ps IH]; intros s out Hn Hr; cbn [foldM flat_map].
    - exists s. rewrite app_nil_r. reflexivity.
    - destruct (pct_step_many s out p Hn (Hr p (or_introl eq_refl))) as [s1 ->]. cbn [bind].
      destruct (IH s1 (out ++ pct_spec rank m p xs) Hn (fun q Hq => Hr q (or_intror Hq))) as [s2 ->].
      exists s2. rewrite app_assoc. reflexivity.
  Qed.

  Lemma foldM_pct_one x ps : forall s out,
    xs = [x] -> s = {| pv_sumsq := x * x; pv_mean := x; pv_sum := x; pv_bound := x |} ->
    foldM (pct_step qc_ops rank false m vs cum cumsq n) (s, out) ps
    = Ok (s, out ++ flat_map (fun p => pct_spec rank m p xs) ps).
  Proof.
    induction ps as [|p ps IH]; intros s out Hx Hs; cbn [foldM flat_map].
    - rewrite app_nil_r. reflexivity.
    - rewrite (pct_step_one x s out p Hx Hs). cbn [bind]. rewrite (IH _ _ Hx Hs).
      rewrite app_assoc. reflexivity.
  Qed.
End Refine.

(* ---------------------------------------------------------------------------------------- *)
(* the whole flush *)

Lemma skipn_nth_cons (l : list Qc) j :
  (j < length l)%nat -> skipn j l = nth j l 0 :: skipn (S j) l.
Proof.
  revert l. induction j as [|j IH]; intros l Hj; destruct l as [|x l]; cbn [length] in Hj; try lia.
  - reflexivity.
  - cbn [skipn nth]. apply IH. lia.
Qed.

Lemma sum_of_diffs_qsum mean l :
  sum_of_diffs qc_ops mean l = qsum (map (fun x => (x - mean) * (x - mean)) l).
Proof.
  unfold sum_of_diffs. cbn [vadd vmul vsub v0 qc_ops].
  rewrite (fold_left_qsum (fun v => (v - mean) * (v - mean))). ring.
Qed.

Lemma median_even (vs : list Qc) j :
  length vs = (2 * j)%nat -> (1 <= j)%nat ->
  qmean (firstn 2 (skipn ((length vs - 1) / 2) vs)) = (nth (j - 1) vs 0 + nth j vs 0) / Qc_of_Z 2.
Proof.
  intros HN Hj. replace ((length vs - 1) / 2)%nat with (j - 1)%nat.
  2:{ rewrite HN. apply Nat.div_unique with (r := 1%nat); lia. }
  rewrite (skipn_nth_cons vs (j - 1)) by lia. rewrite (skipn_nth_cons vs (S (j - 1))) by lia.
  replace (S (j - 1)) with j by lia. cbn [firstn]. unfold qmean, qsum. cbn [fold_right length].
  unfold qnat. cbn [Z.of_nat Pos.of_succ_nat Pos.succ]. f_equal. ring.
Qed.

Lemma median_odd (vs : list Qc) j :
  length vs = (2 * j + 1)%nat ->
  qmean (firstn 1 (skipn ((length vs - 1) / 2) vs)) = nth j vs 0.
Proof.
  intros HN. replace ((length vs - 1) / 2)%nat with j.
  2:{ rewrite HN. apply Nat.div_unique with (r := 0%nat); lia. }
  rewrite (skipn_nth_cons vs j) by lia. cbn [firstn]. unfold qmean, qsum. cbn [fold_right length].
  rewrite qnat_1. field. discriminate.
Qed.

Lemma qsort_nonempty x r : qsort (x :: r) <> [].
Proof.
  intros H. apply (f_equal (@length _)) in H. rewrite qsort_length in H. discriminate.
Qed.

Theorem flush_timer_refines_spec :
  forall (rank : Z -> Z -> Z) (pf : str -> option bound) (c : config Qc)
         (xs : list Qc) (sampled : Qc) (tags : list str) (h : hist),
    (forall p, In p (c_pcts c) -> 0 <= rank p (len xs) <= len xs)%Z ->
    (0 <= c_limit c)%Z ->
    (forall tag, In tag tags -> len tag < 2^32)%Z ->
    flush_timer qc_ops pf rank false c (fresh qc_ops xs sampled tags h)
    = Ok (timer_spec rank pf c xs sampled tags h).
Proof.
  intros rank pf c xs sampled tags h Hrank Hlim Htags.
  unfold flush_timer, timer_spec.
  cbn [fresh t_tags t_values t_count t_sampled t_persec t_mean t_median t_min t_max t_var t_sum
       t_sumsq t_pcts t_hist v0 qc_ops].
  destruct (has_histogram_tag tags) eqn:Eh.
  - (* histogram timer: buckets only *)
    rewrite latency_histogram_spec; [reflexivity | exact Hlim |].
    intros tag Hf. apply Htags. apply (find_tag_Some _ _ Hf).
  - destruct xs as [|x r]; [reflexivity|].
    set (xs := x :: r) in *. set (n := len xs) in *.
    assert (1 <= n)%Z as Hn1 by (unfold n, xs; rewrite len_cons; pose proof (len_nonneg r); lia).
    destruct (0 <? n)%Z eqn:E0; [|lia].
    set (vs := qsort xs).
    pose proof (qsort_sorted xs) as Hs. fold vs in Hs.
    pose proof (qsort_perm xs) as Hp. fold vs in Hp.
    assert (length vs = length xs) as HL by apply qsort_length.
    assert (len vs = n) as Hlen by (unfold len, n, len; rewrite HL; reflexivity).
    assert (n = Z.of_nat (length xs)) as Hnn by reflexivity.
    change (vsort qc_ops xs) with vs.
    rewrite (idx_nth vs 0) by lia. rewrite (idx_nth vs (n - 1)) by lia. cbn [bind].
    set (mn := nth (Z.to_nat 0) vs 0). set (mx := nth (Z.to_nat (n - 1)) vs 0).
    (* min and max *)
    assert (mn = fold_right qmin x r) as Hmn.
    { eapply is_min_unique; [|apply fold_qmin_is_min]. eapply is_min_perm; [exact Hp|].
      destruct vs as [|y vs'] eqn:Hvs; [cbn in HL; discriminate|].
      apply sorted_head_is_min. exact Hs. }
    assert (mx = fold_right qmax x r) as Hmx.
    { eapply is_max_unique; [|apply fold_qmax_is_max]. eapply is_max_perm; [exact Hp|].
      apply sorted_last_is_max; [exact Hs|]. unfold mx.
      replace (length vs - 1)%nat with (Z.to_nat (n - 1)) by lia. apply nth_error_nth'. lia. }
    (* the percentile loop *)
    assert (exists s', foldM (pct_step qc_ops rank false (c_mask c) vs
                                (cumulative qc_ops (fun x => x) vs)
                                (cumulative qc_ops (fun x => vmul qc_ops x x) vs) n)
                             ({| pv_sumsq := vmul qc_ops mn mn; pv_mean := mn; pv_sum := mn; pv_bound := mx |}, [])
                             (dedupZ (c_pcts c))
                       = Ok (s', flat_map (fun p => pct_spec rank (c_mask c) p xs) (dedupZ (c_pcts c)))) as [s' Hfold].
    { destruct (Z.eq_dec n 1) as [H1|H1].
      - assert (r = []) as Hr.
        { destruct r; [reflexivity|]. unfold n, xs in H1. rewrite !len_cons in H1.
          pose proof (len_nonneg r). lia. }
        eexists. cbn [vmul qc_ops]. unfold vs, n.
        rewrite (foldM_pct_one rank (c_mask c) xs x); [reflexivity | unfold xs; rewrite Hr; reflexivity|].
        unfold mn, mx. replace (Z.to_nat (n - 1)) with 0%nat by lia. unfold vs, xs. rewrite Hr. reflexivity.
      - cbn [vmul qc_ops]. unfold vs, n.
        destruct (foldM_pct_many rank (c_mask c) xs (dedupZ (c_pcts c))
                   {| pv_sumsq := mn * mn; pv_mean := mn; pv_sum := mn; pv_bound := mx |} []) as [s' Hs'].
        + fold n. lia.
        + intros p Hin. apply Hrank, In_dedupZ, Hin.
        + exists s'. exact Hs'. }
    rewrite Hfold. cbn [bind snd].
    (* sums *)
    replace (n - 1)%Z with (len vs - 1)%Z by lia.
    rewrite !idx_cumulative by lia. cbn [bind]. rewrite !firstn_len_all, map_id_eq.
    cbn [vmul vdiv vadd vofZ vround qc_ops].
    
    (* median *)
    assert ((if (n mod 2 =? 0)%Z
             then let! a := idx vs (n / 2 - 1) in let! b := idx vs (n / 2) in Ok ((a + b) / Qc_of_Z 2)
             else idx vs (n / 2)) = Ok (qmedian xs)) as Hmed.
    { unfold qmedian. fold vs. rewrite <- HL.
      destruct (Nat.even (length vs)) eqn:Ev.
      - apply Nat.even_spec in Ev as [j Hj].
        assert (n = 2 * Z.of_nat j)%Z as Hnj by lia.
        assert (n mod 2 = 0)%Z as -> by (rewrite Hnj, Z.mul_comm; apply Z.mod_mul; lia).
        assert (n / 2 = Z.of_nat j)%Z as -> by (rewrite Hnj, Z.mul_comm; apply Z.div_mul; lia).
        cbn [Z.eqb]. rewrite !idx_nth by lia. cbn [bind].
        rewrite (median_even vs j) by lia.
        replace (Z.to_nat (Z.of_nat j - 1)) with (j - 1)%nat by lia. rewrite Nat2Z.id. reflexivity.
      - rewrite <- Nat.negb_odd in Ev. apply Bool.negb_false_iff, Nat.odd_spec in Ev as [j Hj].
        assert (n = Z.of_nat j * 2 + 1)%Z as Hnj by lia.
        assert (n mod 2 = 1)%Z as ->.
        { rewrite Hnj, Z.add_comm, Z.mod_add by lia. reflexivity. }
        assert (n / 2 = Z.of_nat j)%Z as ->.
        { rewrite Hnj, Z.add_comm, Z.div_add by lia. reflexivity. }
        cbn [Z.eqb]. rewrite idx_nth by lia. rewrite (median_odd vs j) by lia.
        rewrite Nat2Z.id. reflexivity. }
    rewrite Hmed. cbn [bind]. f_equal.
    rewrite sum_of_diffs_qsum.
    assert (qsum vs = qsum xs) as Hsum by (apply qsum_perm, Hp).
    assert (qsum vs / Qc_of_Z n = qmean xs) as Hmean by (unfold qmean, qnat; rewrite Hsum; reflexivity).
    rewrite Hmean, Hsum.
    f_equal; try assumption.
    + unfold qvariance, qnat. fold n. f_equal. apply qsum_perm, Permutation_map, Hp.
    + apply qsumsq_perm, Hp.
Qed.
