(* Lemmas about Model/Expiry.v (C09), part 3: values of persisted series, independence of the
   metric types, configuration precedence, and satisfiability examples. *)
From stdpp Require Import gmap.
From Coq Require Import QArith Qcanon Qround Sorted Lia.
From GS Require Import Base.Bytes Model.Lexer Model.Series Model.MetricMap Model.Expiry
  Proofs.Expiry Proofs.ExpiryHistory.
Local Open Scope Z_scope.

(* ---- a series without data since the last Reset is zeroed ---------------------------------- *)

Definition idle (ty : mtype) (k : skey) (a : mmap) : Prop :=
  match ty with
  | Counter => forall c, counters a !! k = Some c -> c_val c = 0
  | Timer => forall t, timers a !! k = Some t -> t_vals t = [] /\ t_samp t = 0%Qc
  | MSet => forall s, sets a !! k = Some s -> s_vals s = ∅
  | Gauge => True
  end.

Lemma idle_reset ty k cfg now a : idle ty k (agg_reset cfg now a).
Proof.
  destruct ty; cbn [idle agg_reset counters timers sets]; [|exact I| |];
    intros x; rewrite lookup_omap; intros H;
    [destruct (counters a !! k) as [y|]|destruct (timers a !! k) as [y|]|destruct (sets a !! k) as [y|]];
    try discriminate; cbn in H; unfold keep in H; destruct (is_expired _ _ _); try discriminate;
    injection H as <-; cbn; auto.
Qed.

Lemma quiet_batch_lookup ty k ds :
  (forall d, In d ds -> ~ of_series ty k d) -> ts_of ty k (batch_map ds) = None.
Proof. intros Hq. rewrite ts_of_batch. apply fold_ts_quiet. exact Hq. Qed.

Lemma idle_step ty k cfg a o : ~ mentions ty k o -> idle ty k a -> idle ty k (agg_step cfg a o).
Proof.
  intros Hq Hi. destruct o as [ds|now dt]; [|apply idle_reset].
  pose proof (quiet_batch_lookup ty k ds (quiet_data ty k ds Hq)) as Hb.
  destruct ty; cbn [idle agg_step agg_receive merge counters timers sets ts_of] in *; [|exact I| |];
    intros x; rewrite lookup_union_with; apply fmap_None in Hb; rewrite Hb;
    [destruct (counters a !! k) as [y|] eqn:E|destruct (timers a !! k) as [y|] eqn:E|destruct (sets a !! k) as [y|] eqn:E];
    cbn; intros H; try discriminate; injection H as <-; apply Hi; reflexivity.
Qed.

Lemma idle_from ty k cfg h : forall a,
  (forall o, In o h -> ~ mentions ty k o) -> idle ty k a -> idle ty k (agg_from cfg a h).
Proof.
  induction h as [|o r IH]; intros a Hq Hi; [exact Hi|].
  cbn. apply IH; [intros o' Hin; apply Hq; right; exact Hin|].
  apply idle_step; [apply Hq; left; reflexivity|exact Hi].
Qed.

Lemma per_second_zero dt : per_second (Qc_of_Z 0) dt = 0%Qc.
Proof. unfold per_second. change (Qc_of_Z 0) with 0%Qc. ring. Qed.
Lemma per_second_zero' dt : per_second 0%Qc dt = 0%Qc.
Proof. unfold per_second. ring. Qed.

Definition idle_reported (ty : mtype) (k : skey) (r : report) : Prop :=
  match ty with
  | Counter => forall c, r_counters r !! k = Some c -> rc_val c = 0 /\ rc_per_second c = 0%Qc
  | MSet => forall s, r_sets r !! k = Some s -> rs_vals s = ∅
  | Timer => forall t, r_timers r !! k = Some t ->
      rt_vals t = [] /\ rt_count t = 0 /\ rt_samp t = 0%Qc /\ rt_per_second t = 0%Qc /\
      rt_has_pct t = false /\ (rt_hist_inf t = None \/ rt_hist_inf t = Some 0)
  | Gauge => True
  end.

Lemma idle_report ty k lim dt a : idle ty k a -> idle_reported ty k (flush_report lim dt a).
Proof.
  destruct ty; cbn [idle idle_reported flush_report r_counters r_timers r_sets]; intros Hi; [|exact I| |];
    intros x; rewrite lookup_fmap; intros H.
  - destruct (counters a !! k) as [c|] eqn:E; [|discriminate]. injection H as <-.
    cbn. rewrite (Hi c eq_refl). split; [reflexivity|apply per_second_zero].
  - destruct (timers a !! k) as [t|] eqn:E; [|discriminate]. injection H as <-.
    destruct (Hi t eq_refl) as [Hv Hs]. unfold flush_timer. rewrite Hv, Hs.
    change (Z.of_nat (length (@nil Z))) with 0. change (0 <? 0) with false.
    destruct (has_histogram_tag t); cbn [rt_vals rt_count rt_samp rt_per_second rt_has_pct rt_hist_inf].
    + repeat split; try reflexivity. destruct (lim =? 0)%N; auto.
    + repeat split; try reflexivity. left; reflexivity.
  - destruct (sets a !! k) as [s|] eqn:E; [|discriminate]. injection H as <-.
    cbn. exact (Hi s eq_refl).
Qed.

Lemma idle_after_flush ty k cfg lim hA f1 dt1 hB dt :
  (forall o, In o hB -> ~ mentions ty k o) ->
  idle_reported ty k (flush_at cfg lim (hA ++ OFlush f1 dt1 :: hB) dt).
Proof.
  intros Hq. unfold flush_at. apply idle_report. rewrite agg_after_app. cbn [agg_from fold_left].
  apply (idle_from ty k cfg hB _ Hq). apply idle_reset.
Qed.

(* ---- gauges carry the value of a datapoint with the newest timestamp ---------------------- *)

Definition same_gauge (g g0 : gauge) : Prop := g_val g = g_val g0 /\ g_ts g = g_ts g0.
Definition gauge_of (k : skey) (d : datapoint) (g : gauge) : Prop :=
  of_series Gauge k d /\ g_val g = dp_value d /\ g_ts g = dp_ts d.

Lemma gauge_receive k m d g :
  gauges (receive m d) !! k = Some g ->
  (exists g0, gauges m !! k = Some g0 /\ same_gauge g g0) \/ gauge_of k d g.
Proof.
  unfold receive, gauge_of, of_series.
  destruct (dp_type d) eqn:Et; cbn [gauges]; intros H;
    try (left; exists g; split; [exact H|split; reflexivity]).
  destruct (decide (dp_key d = k)) as [<-|Hn].
  - rewrite lookup_insert in H. injection H as <-.
    destruct (gauges m !! dp_key d) as [g0|] eqn:E.
    + destruct (g_ts g0 <=? dp_ts d).
      * right. cbn. auto.
      * left. exists g0. split; [reflexivity|split; reflexivity].
    + right. cbn. auto.
  - rewrite lookup_insert_ne in H by exact Hn. left. exists g. split; [exact H|split; reflexivity].
Qed.

Lemma gauge_receive_all k ds : forall m g,
  gauges (receive_all m ds) !! k = Some g ->
  (exists g0, gauges m !! k = Some g0 /\ same_gauge g g0) \/ exists d, In d ds /\ gauge_of k d g.
Proof.
  unfold receive_all. induction ds as [|d r IH]; intros m g H; cbn in H.
  - left. exists g. split; [exact H|split; reflexivity].
  - apply IH in H. destruct H as [(g1 & H1 & Hs1)|(d' & Hin & Hg)].
    + apply gauge_receive in H1. destruct H1 as [(g0 & H0 & Hs0)|Hg].
      * left. exists g0. split; [exact H0|]. destruct Hs1, Hs0. split; congruence.
      * right. exists d. split; [left; reflexivity|]. destruct Hs1, Hg as (? & ? & ?).
        split; [assumption|split; congruence].
    + right. exists d'. split; [right; exact Hin|exact Hg].
Qed.

Lemma gauge_step k cfg a o g :
  gauges (agg_step cfg a o) !! k = Some g ->
  (exists g0, gauges a !! k = Some g0 /\ same_gauge g g0) \/
  exists ds d, o = OData ds /\ In d ds /\ gauge_of k d g.
Proof.
  destruct o as [ds|now dt]; cbn [agg_step agg_receive merge agg_reset gauges].
  - rewrite lookup_union_with. intros H.
    assert (Hb : forall y, gauges (batch_map ds) !! k = Some y -> exists d, In d ds /\ gauge_of k d y).
    { intros y Hy. apply gauge_receive_all in Hy. destruct Hy as [(g0 & H0 & _)|Hy]; [|exact Hy].
      cbn in H0. rewrite lookup_empty in H0. discriminate. }
    destruct (gauges a !! k) as [x|] eqn:Ea, (gauges (batch_map ds) !! k) as [y|] eqn:Eb; cbn in H;
      try discriminate; injection H as <-.
    + unfold merge_gauge. destruct (g_ts x <? g_ts y).
      * right. destruct (Hb y eq_refl) as (d & Hin & Hs & Hv & Ht).
        exists ds, d. split; [reflexivity|split; [exact Hin|]]. split; [exact Hs|split; cbn; assumption].
      * left. exists x. split; [reflexivity|split; reflexivity].
    + left. exists x. split; [reflexivity|split; reflexivity].
    + right. destruct (Hb y eq_refl) as (d & Hin & Hg). exists ds, d. auto.
  - rewrite lookup_omap. intros H. destruct (gauges a !! k) as [x|]; [|discriminate].
    cbn in H. unfold keep in H. destruct (is_expired _ _ _); [discriminate|]. injection H as <-.
    left. exists x. split; [reflexivity|split; reflexivity].
Qed.

Lemma in_datapoints d h : In d (datapoints h) <-> exists ds, In (OData ds) h /\ In d ds.
Proof.
  unfold datapoints. rewrite in_flat_map. split.
  - intros (o & Hin & Hd). destruct o as [ds|]; [|destruct Hd]. exists ds. auto.
  - intros (ds & Hin & Hd). exists (OData ds). auto.
Qed.

Lemma gauge_from_history k cfg h : forall a g,
  gauges (agg_from cfg a h) !! k = Some g ->
  (exists g0, gauges a !! k = Some g0 /\ same_gauge g g0) \/
  exists d, In d (datapoints h) /\ gauge_of k d g.
Proof.
  induction h as [|o r IH]; intros a g H.
  - left. exists g. split; [exact H|split; reflexivity].
  - cbn in H. apply IH in H. destruct H as [(g1 & H1 & Hs1)|(d & Hin & Hg)].
    + apply gauge_step in H1. destruct H1 as [(g0 & H0 & Hs0)|(ds & d & -> & Hin & Hs & Hv & Ht)].
      * left. exists g0. split; [exact H0|]. destruct Hs1, Hs0. split; congruence.
      * right. exists d. split; [cbn; apply in_or_app; left; exact Hin|].
        destruct Hs1. split; [exact Hs|split; congruence].
    + right. exists d. split; [|exact Hg]. cbn. apply in_or_app. right; exact Hin.
Qed.

(* the last operation, and in it the last datapoint, that carries data of a series *)
Lemma last_sat {A} (P : A -> Prop) (l : list A) :
  (forall x, P x \/ ~ P x) -> (exists x, In x l /\ P x) ->
  exists l1 x l2, l = l1 ++ x :: l2 /\ P x /\ forall y, In y l2 -> ~ P y.
Proof.
  intros Hdec. induction l as [|a r IH] using rev_ind; intros (x & Hin & Hx); [destruct Hin|].
  destruct (Hdec a) as [Ha|Hna].
  - exists r, a, []. split; [reflexivity|split; [exact Ha|intros y []]].
  - apply in_app_or in Hin. destruct Hin as [Hin|[<-|[]]]; [|contradiction].
    destruct IH as (l1 & z & l2 & -> & Hz & Hq); [exists x; auto|].
    exists l1, z, (l2 ++ [a]). split; [rewrite <- app_assoc; reflexivity|split; [exact Hz|]].
    intros y Hy. apply in_app_or in Hy. destruct Hy as [Hy|[<-|[]]]; [apply Hq; exact Hy|exact Hna].
Qed.

Lemma mentions_dec ty k o : mentions ty k o \/ ~ mentions ty k o.
Proof.
  destruct o as [ds|]; [|right; intros []]. cbn.
  induction ds as [|d r IH].
  - right. intros (d & [] & _).
  - destruct (decide (of_series ty k d)) as [Hs|Hn].
    + left. exists d. split; [left; reflexivity|exact Hs].
    + destruct IH as [(d' & Hin & Hs)|Hno].
      * left. exists d'. split; [right; exact Hin|exact Hs].
      * right. intros (d' & [<-|Hin] & Hs); [contradiction|]. apply Hno. exists d'. auto.
Qed.

Lemma last_mention ty k h :
  (exists d, In d (datapoints h) /\ of_series ty k d) ->
  exists h0 ds1 d ds2 h1,
    h = h0 ++ OData (ds1 ++ d :: ds2) :: h1 /\ of_series ty k d /\
    (forall d', In d' ds2 -> ~ of_series ty k d') /\ (forall o, In o h1 -> ~ mentions ty k o).
Proof.
  intros (d & Hin & Hs). apply in_datapoints in Hin. destruct Hin as (ds & Hop & Hd).
  destruct (last_sat (mentions ty k) h (mentions_dec ty k)) as (h0 & o & h1 & -> & Ho & Hq1).
  { exists (OData ds). split; [exact Hop|]. exists d. auto. }
  destruct o as [ds'|]; [|destruct Ho].
  destruct (last_sat (of_series ty k) ds') as (ds1 & dl & ds2 & -> & Hl & Hq2).
  { intros x. destruct (decide (of_series ty k x)); auto. }
  { exact Ho. }
  exists h0, ds1, dl, ds2, h1. auto.
Qed.

Lemma in_datapoints_times d h : In d (datapoints h) -> In (dp_ts d) (times h).
Proof.
  intros H. apply in_datapoints in H. destruct H as (ds & Hop & Hd).
  apply (in_times_op (OData ds)); [exact Hop|]. cbn. rewrite app_nil_r. apply in_map. exact Hd.
Qed.

Lemma gauge_latest cfg lim h dt k g :
  monotone h ->
  r_gauges (flush_at cfg lim h dt) !! k = Some g ->
  exists d, In d (datapoints h) /\ of_series Gauge k d /\ rg_val g = dp_value d /\ rg_ts g = dp_ts d /\
            forall d', In d' (datapoints h) -> of_series Gauge k d' -> dp_ts d' <= dp_ts d.
Proof.
  intros Hm H. unfold flush_at in H. cbn [flush_report r_gauges] in H. rewrite lookup_fmap in H.
  destruct (gauges (agg_after cfg h) !! k) as [g0|] eqn:E; [|discriminate]. injection H as <-. cbn.
  pose proof E as E'. apply gauge_from_history in E'.
  destruct E' as [(gx & Hx & _)|(d & Hin & Hs & Hv & Ht)]; [cbn in Hx; rewrite lookup_empty in Hx; discriminate|].
  exists d. split; [exact Hin|split; [exact Hs|split; [exact Hv|split; [exact Ht|]]]].
  destruct (last_mention Gauge k h) as (h0 & ds1 & dl & ds2 & h1 & -> & Hl & Hq2 & Hq1); [exists d; auto|].
  pose proof (ts_at_flush Gauge k cfg h0 ds1 dl ds2 h1 Hm Hl Hq2 Hq1) as Hts.
  cbn [ts_of] in Hts. rewrite E in Hts. cbn in Hts.
  destruct (existsb _ h1); [discriminate|]. injection Hts as Hts. rewrite <- Ht, Hts.
  intros d' Hin' Hs'. rewrite datapoints_app in Hin'. cbn in Hin'.
  unfold monotone in Hm. rewrite times_app in Hm. cbn in Hm. rewrite map_app in Hm. cbn in Hm.
  apply in_app_or in Hin'. destruct Hin' as [Hin'|Hin'].
  - apply (ss_app_le _ _ Hm); [apply in_datapoints_times; exact Hin'|].
    apply in_or_app. left. apply in_or_app. right. left; reflexivity.
  - apply in_app_or in Hin'. destruct Hin' as [Hin'|Hin'].
    + apply in_app_or in Hin'. destruct Hin' as [Hin'|[<-|Hin']]; [|lia|exfalso; exact (Hq2 _ Hin' Hs')].
      apply ss_app_r in Hm. rewrite <- app_assoc in Hm.
      apply (ss_app_le _ _ Hm); [apply in_map; exact Hin'|]. cbn. left; reflexivity.
    + exfalso. apply in_datapoints in Hin'. destruct Hin' as (ds & Hop & Hd).
      apply (Hq1 _ Hop). exists d'. auto.
Qed.

(* ---- C09_idle_values --------------------------------------------------------------------- *)

Lemma idle_values cfg lim hA f1 dt1 hB dt ty k :
  (forall o, In o hB -> ~ mentions ty k o) ->
  let r := flush_at cfg lim (hA ++ OFlush f1 dt1 :: hB) dt in
  match ty with
  | Counter => forall c, r_counters r !! k = Some c -> rc_val c = 0 /\ rc_per_second c = 0%Qc
  | MSet => forall s, r_sets r !! k = Some s -> rs_vals s = ∅
  | Timer => forall t, r_timers r !! k = Some t ->
      rt_vals t = [] /\ rt_count t = 0 /\ rt_samp t = 0%Qc /\ rt_per_second t = 0%Qc /\
      rt_has_pct t = false /\ (rt_hist_inf t = None \/ rt_hist_inf t = Some 0)
  | Gauge => monotone (hA ++ OFlush f1 dt1 :: hB) -> forall g, r_gauges r !! k = Some g ->
      exists d, In d (datapoints hA) /\ of_series Gauge k d /\ rg_val g = dp_value d /\ rg_ts g = dp_ts d /\
                forall d', In d' (datapoints hA) -> of_series Gauge k d' -> dp_ts d' <= dp_ts d
  end.
Proof.
  intros Hq r. pose proof (idle_after_flush ty k cfg lim hA f1 dt1 hB dt Hq) as Hi. fold r in Hi.
  destruct ty; try exact Hi.
  intros Hm g Hg. destruct (gauge_latest cfg lim _ dt k g Hm Hg) as (d & Hin & Hs & Hv & Ht & Hmax).
  assert (Hin_A : forall d', In d' (datapoints (hA ++ OFlush f1 dt1 :: hB)) -> of_series Gauge k d' -> In d' (datapoints hA)).
  { intros d' Hd' Hs'. rewrite datapoints_app in Hd'. apply in_app_or in Hd'. destruct Hd' as [Hd'|Hd']; [exact Hd'|].
    cbn in Hd'. exfalso. apply in_datapoints in Hd'. destruct Hd' as (ds & Hop & Hd). apply (Hq _ Hop). exists d'. auto. }
  exists d. split; [exact (Hin_A d Hin Hs)|split; [exact Hs|split; [exact Hv|split; [exact Ht|]]]].
  intros d' Hd' Hs'. apply Hmax; [|exact Hs']. rewrite datapoints_app. apply in_or_app. left; exact Hd'.
Qed.

(* ---- C09_per_type ------------------------------------------------------------------------ *)

Definition same_type_reports (ty : mtype) (r r' : report) : Prop :=
  match ty with
  | Counter => r_counters r = r_counters r'
  | Gauge => r_gauges r = r_gauges r'
  | Timer => r_timers r = r_timers r'
  | MSet => r_sets r = r_sets r'
  end.

Definition same_type_maps (ty : mtype) (a a' : mmap) : Prop :=
  match ty with
  | Counter => counters a = counters a'
  | Gauge => gauges a = gauges a'
  | Timer => timers a = timers a'
  | MSet => sets a = sets a'
  end.

Lemma per_type_step ty cfg cfg' a a' o :
  interval cfg ty = interval cfg' ty -> same_type_maps ty a a' ->
  same_type_maps ty (agg_step cfg a o) (agg_step cfg' a' o).
Proof.
  destruct ty, o; cbn; intros Hi Ha; rewrite ?Hi, Ha; reflexivity.
Qed.

Lemma per_type_from ty cfg cfg' h : forall a a',
  interval cfg ty = interval cfg' ty -> same_type_maps ty a a' ->
  same_type_maps ty (agg_from cfg a h) (agg_from cfg' a' h).
Proof.
  induction h as [|o r IH]; intros a a' Hi Ha; [exact Ha|].
  cbn. apply IH; [exact Hi|]. apply per_type_step; assumption.
Qed.

Lemma per_type cfg cfg' lim h dt ty :
  interval cfg ty = interval cfg' ty ->
  same_type_reports ty (flush_at cfg lim h dt) (flush_at cfg' lim h dt).
Proof.
  intros Hi. unfold flush_at.
  assert (H : same_type_maps ty (agg_after cfg h) (agg_after cfg' h)).
  { apply (per_type_from ty cfg cfg' h empty_map empty_map Hi). destruct ty; reflexivity. }
  destruct ty; cbn [same_type_maps same_type_reports flush_report r_counters r_timers r_gauges r_sets] in *;
    rewrite H; reflexivity.
Qed.

(* ---- configuration precedence ------------------------------------------------------------ *)

Definition param_of (p : expiry_params) (ty : mtype) : option Z :=
  match ty with Counter => p_counter p | Gauge => p_gauge p | MSet => p_set p | Timer => p_timer p end.

Lemma resolve_precedence p ty :
  interval (resolve p) ty =
  match param_of p ty, p_all p with
  | Some v, _ => v
  | None, Some v => v
  | None, None => default_expiry
  end.
Proof. destruct ty; reflexivity. Qed.

(* ---- the hypotheses of the history theorems are satisfiable (non-vacuity) ------------------ *)

Module Examples.
  Definition one : Z := 4607182418800017408.   (* 1.0 *)
  Definition three : Z := 4613937818241073152. (* 3.0 *)
  Definition s5 : Z := 5 * 10 ^ 9.
  Definition name : str := [97]%N.
  Definition k : skey := (name, []).
  Definition dp (ty : mtype) (v : Z) (ts : Z) : datapoint := MkDp name ty v [120]%N one [] [] ts.
  (* counters 5 s, gauges for ever, sets not persisted, timers 1 ns *)
  Definition cfg : config := MkCfg s5 0 (-1) 1.
  Definition h0 : list op := [OData [dp Counter one 50]; OFlush 60 1].
  Definition batch1 : list datapoint := [dp Gauge one 100].
  Definition other (ty : mtype) (ts : Z) : datapoint := MkDp [98]%N ty three [120]%N one [] [] ts.
  Definition batch2 : list datapoint := [other MSet 100; other Timer 100].
  Definition dlast (ty : mtype) : datapoint := dp ty three 100.
  Definition h1 : list op := [OFlush 100 1; OData [dp Gauge one 101]; OFlush (100 + s5) 1; OFlush (101 + s5) 1].
  Definition hist (ty : mtype) : list op := h0 ++ OData (batch1 ++ dlast ty :: batch2) :: h1.

  Lemma hyps ty : ty <> Gauge ->
    monotone (hist ty ++ [OFlush (102 + s5) 1]) /\ of_series ty k (dlast ty) /\
    (forall d', In d' batch2 -> ~ of_series ty k d') /\ (forall o, In o h1 -> ~ mentions ty k o).
  Proof.
    intros Hty. split; [|split; [|split]].
    - unfold monotone. cbn. repeat constructor; vm_compute; discriminate.
    - split; reflexivity.
    - intros d' [<-|[<-|[]]] [_ Hk]; vm_compute in Hk; discriminate.
    - intros o [<-|[<-|[<-|[<-|[]]]]]; cbn; try tauto.
      intros (d & [<-|[]] & Ht & _). cbn in Ht. congruence.
  Qed.

  (* the counter (5 s) is still reported by the first flush later than T + 5 s, not afterwards *)
  Example counter_reported_at_boundary :
    reported Counter k (flush_at cfg 3 (h0 ++ OData (batch1 ++ dlast Counter :: batch2) :: firstn 3 h1) 1).
  Proof. vm_compute. eexists. reflexivity. Qed.
  Example counter_gone_afterwards : ~ reported Counter k (flush_at cfg 3 (hist Counter) 1).
  Proof. intros [x Hx]. vm_compute in Hx. discriminate. Qed.
  (* the set (-1) is reported by the flush that carries its data only *)
  Example set_reported_once :
    reported MSet k (flush_at cfg 3 (h0 ++ [OData (batch1 ++ dlast MSet :: batch2)]) 1) /\
    ~ reported MSet k (flush_at cfg 3 (h0 ++ OData (batch1 ++ dlast MSet :: batch2) :: firstn 1 h1) 1).
  Proof. split; [vm_compute; eexists; reflexivity|intros [x Hx]; vm_compute in Hx; discriminate]. Qed.
  (* the gauge (0) persists with its newest value (set at 101) *)
  Example gauge_persists : exists g,
    r_gauges (flush_at cfg 3 (hist Counter) 1) !! k = Some g /\ rg_val g = one /\ rg_ts g = 101.
  Proof. eexists. split; [vm_compute; reflexivity|split; reflexivity]. Qed.
  (* an idle counter is reported as 0 *)
  Example idle_counter : exists c,
    r_counters (flush_at cfg 3 (h0 ++ OData (batch1 ++ dlast Counter :: batch2) :: firstn 1 h1) 1) !! k = Some c
    /\ rc_val c = 0.
  Proof. eexists. split; [vm_compute; reflexivity|reflexivity]. Qed.
End Examples.
