(* Forward error bounds for the float64 accumulation loops of MetricAggregator.Flush
   (Model/FloatSum.v), for ALL lists of finite doubles whose partial sums stay finite:
       |go_sum xs   - SUM x_i  | <= ((1+u)^(n-1) - 1) * SUM |x_i|        u = 2^-53
       |go_sumsq xs - SUM x_i^2| <= ((1+u)^n     - 1) * SUM x_i^2        (squares do not underflow)
   and the same for every prefix (cumulativeValues[k]), the difference of two prefixes (percentile
   sums for pct < 0) and the mean.  One generic induction over the list ([accumulate_bound]). *)
From Coq Require Import List ZArith Reals Floats Lia Lra.
From Flocq Require Import Core.Core IEEE754.BinarySingleNaN IEEE754.PrimFloat.
From GS Require Import Model.FloatSum.
From GS Require Import Proofs.FloatSumReal.
From GS Require Import Proofs.FloatSumOps.
Import ListNotations.
Local Open Scope R_scope.

Definition rsum (l : list R) : R := fold_right Rplus 0 l.
(* exact sum, sum of magnitudes, sum of squares of the real values of a list of floats *)
Definition Rsum (xs : list PrimFloat.float) : R := rsum (map FR xs).
Definition Rsumabs (xs : list PrimFloat.float) : R := rsum (map (fun x => Rabs (FR x)) xs).
Definition Rsumsq (xs : list PrimFloat.float) : R := rsum (map (fun x => FR x * FR x) xs).

(* a value whose square does not underflow: zero, or at least 2^-511 in magnitude *)
Definition sq_normal (x : PrimFloat.float) : Prop := FR x = 0 \/ bpow radix2 (-511) <= Rabs (FR x).

Section Generic.
  Variable term : PrimFloat.float -> PrimFloat.float.   (* the term added for a value *)
  Variable ex : PrimFloat.float -> R.                   (* its exact value *)
  Variable ab : PrimFloat.float -> R.                   (* its weight *)
  Variable good : PrimFloat.float -> Prop.
  Variable d : R.
  Hypothesis d_pos : 0 <= d.
  Hypothesis term_ok : forall x, good x ->
    fin (term x) /\ Rabs (ex x) <= ab x /\ Rabs (FR (term x) - ex x) <= d * ab x.

  Lemma accumulate_bound : forall r acc T A Q,
    fin acc -> 1 + d <= Q -> Rabs T <= A -> Rabs (FR acc - T) <= (Q - 1) * A ->
    Forall good r -> Forall fin (partials term acc r) ->
    Rabs (FR (accumulate term acc r) - (T + rsum (map ex r)))
      <= (Q * (1 + u) ^ length r - 1) * (A + rsum (map ab r)).
  Proof.
    induction r as [|x r IH]; intros acc T A Q Fa HQ HT Hacc Hg Hf.
    - cbn. rewrite !Rplus_0_r, Rmult_1_r. exact Hacc.
    - inversion Hg as [|? ? Gx Gr]; subst. cbn [partials] in Hf. inversion Hf as [|? ? Fs Fr]; subst.
      destruct (term_ok x Gx) as (Ft & Hex & Hy).
      destruct (add_err (term x) acc Ft Fa Fs) as (eps & He & Hv).
      cbn [accumulate fold_left map length pow].
      change (rsum (ex x :: map ex r)) with (ex x + rsum (map ex r)).
      change (rsum (ab x :: map ab r)) with (ab x + rsum (map ab r)).
      change (fold_left (fun a x0 => (term x0 + a)%float) r (term x + acc)%float) with (accumulate term (term x + acc)%float r).
      replace (T + (ex x + rsum (map ex r))) with ((ex x + T) + rsum (map ex r)) by ring.
      replace (A + (ab x + rsum (map ab r))) with ((ab x + A) + rsum (map ab r)) by ring.
      replace (Q * ((1 + u) * (1 + u) ^ length r)) with ((Q * (1 + u)) * (1 + u) ^ length r) by ring.
      pose proof u_pos as Hu.
      apply IH; try assumption.
      + nra.
      + eapply Rle_trans; [apply Rabs_triang|]. apply Rplus_le_compat; assumption.
      + rewrite Hv. replace (Q * (1 + u) - 1) with (Q * (1 + u) - 1) by ring.
        apply (acc_step u d Q (ab x) A (FR (term x)) (ex x) (FR acc) T eps); assumption.
  Qed.
End Generic.

(* ---- the plain sum: cumulativeValues[n-1] *)
Theorem go_sum_bound x r :
  Forall fin (x :: r) -> Forall fin (go_cumulative (x :: r)) ->
  Rabs (FR (go_sum (x :: r)) - Rsum (x :: r)) <= ((1 + u) ^ length r - 1) * Rsumabs (x :: r).
Proof.
  intros Hf Hc. inversion Hf as [|? ? Fx Fr]; subst. cbn [go_cumulative] in Hc. inversion Hc as [|? ? _ Hp]; subst.
  pose proof (accumulate_bound ident FR (fun y => Rabs (FR y)) fin 0 (Rle_refl 0)) as G.
  specialize (G ltac:(intros y Hy; unfold ident; split; [exact Hy|]; split; [apply Rle_refl|]; rewrite Rminus_diag_eq by reflexivity; rewrite Rabs_R0; lra)).
  specialize (G r x (FR x) (Rabs (FR x)) 1 Fx ltac:(lra) (Rle_refl _)).
  rewrite Rminus_diag_eq, Rabs_R0 in G by reflexivity. specialize (G ltac:(lra) Fr Hp).
  rewrite Rmult_1_l in G. exact G.
Qed.

(* ---- the sum of squares: cumulSumSquaresValues[n-1] *)
Lemma square_ok x : fin x /\ fin (square x) /\ sq_normal x ->
  fin (square x) /\ Rabs (FR x * FR x) <= FR x * FR x /\ Rabs (FR (square x) - FR x * FR x) <= u * (FR x * FR x).
Proof.
  intros (Fx & Fs & Hn). split; [exact Fs|].
  assert (P : 0 <= FR x * FR x) by nra. split; [rewrite Rabs_pos_eq by exact P; apply Rle_refl|].
  destruct (mul_err x x Fx Fx Fs) as (eps & He & Hv).
  { destruct Hn as [H0|H]; [left; rewrite H0; ring|right].
    rewrite Rabs_mult. change (-1022)%Z with (-511 + -511)%Z. rewrite bpow_plus.
    apply Rmult_le_compat; try apply bpow_ge_0; exact H. }
  unfold square in *. rewrite Hv. replace (FR x * FR x * (1 + eps) - FR x * FR x) with (FR x * FR x * eps) by ring.
  rewrite Rabs_mult, (Rabs_pos_eq _ P), Rmult_comm. apply Rmult_le_compat_r; assumption.
Qed.

Theorem go_sumsq_bound x r :
  Forall (fun y => fin y /\ fin (square y) /\ sq_normal y) (x :: r) -> Forall fin (go_cumul_squares (x :: r)) ->
  Rabs (FR (go_sumsq (x :: r)) - Rsumsq (x :: r)) <= ((1 + u) ^ length (x :: r) - 1) * Rsumsq (x :: r).
Proof.
  intros Hg Hc. inversion Hg as [|? ? Gx Gr]; subst. cbn [go_cumul_squares] in Hc. inversion Hc as [|? ? _ Hp]; subst.
  pose proof u_pos as Hu.
  pose proof (accumulate_bound square (fun y => FR y * FR y) (fun y => FR y * FR y) _ u Hu square_ok) as G.
  destruct (square_ok x Gx) as (Fs & Hab & Hy).
  specialize (G r (square x) (FR x * FR x) (FR x * FR x) (1 + u) Fs (Rle_refl _) Hab).
  replace (1 + u - 1) with u in G by ring. specialize (G Hy Gr Hp).
  cbn [length pow]. exact G.
Qed.

(* ---- mean = sum / float64(n): one more rounding *)
Theorem go_mean_bound xs count :
  fin (go_sum xs) -> fin count -> fin (go_mean xs count) -> FR count <> 0 ->
  FR (go_sum xs) / FR count = 0 \/ bpow radix2 (-1022) <= Rabs (FR (go_sum xs) / FR count) ->
  Rabs (FR (go_mean xs count) - FR (go_sum xs) / FR count) <= u * Rabs (FR (go_sum xs) / FR count).
Proof.
  intros Fs Fc Fm Hc Hn. destruct (div_err _ _ Fs Fc Fm Hc Hn) as (eps & He & Hv).
  unfold go_mean in *. rewrite Hv.
  replace (FR (go_sum xs) / FR count * (1 + eps) - FR (go_sum xs) / FR count) with (FR (go_sum xs) / FR count * eps) by ring.
  rewrite Rabs_mult, Rmult_comm. apply Rmult_le_compat_r; [apply Rabs_pos|exact He].
Qed.

(* ---- prefixes: cumulativeValues[k] is the go_sum of the first k+1 values *)
Lemma partials_firstn term acc r j : partials term acc (firstn j r) = firstn j (partials term acc r).
Proof. revert acc j; induction r as [|x r IH]; intros acc [|j]; cbn; try reflexivity. f_equal. apply IH. Qed.

Lemma cumulative_firstn xs j : go_cumulative (firstn j xs) = firstn j (go_cumulative xs).
Proof. destruct xs as [|x r], j as [|j]; cbn; try reflexivity. f_equal. apply partials_firstn. Qed.

Lemma partials_nth term : forall r acc k, (k < length r)%nat ->
  nth_error (partials term acc r) k = Some (accumulate term acc (firstn (S k) r)).
Proof.
  induction r as [|x r IH]; intros acc k Hk; [cbn in Hk; lia|].
  destruct k as [|k]; [destruct r; reflexivity|]. cbn [partials nth_error]. rewrite IH by (cbn in Hk; lia). reflexivity.
Qed.

(* what Flush reads at cumulativeValues[k] *)
Lemma cumulative_nth xs k : (k < length xs)%nat ->
  nth_error (go_cumulative xs) k = Some (go_sum (firstn (S k) xs)).
Proof.
  destruct xs as [|x r]; [cbn; lia|]. intros Hk. destruct k as [|k]; [reflexivity|].
  cbn [go_cumulative nth_error]. rewrite partials_nth by (cbn in Hk; lia). reflexivity.
Qed.

Lemma Forall_firstn {A} (P : A -> Prop) l j : Forall P l -> Forall P (firstn j l).
Proof. revert j; induction l as [|a l IH]; intros [|j] H; cbn; try constructor; inversion H; subst; auto. Qed.

Lemma rsum_app l1 l2 : rsum (l1 ++ l2) = rsum l1 + rsum l2.
Proof. unfold rsum. induction l1 as [|a l IH]; cbn; [lra|]. rewrite IH. lra. Qed.
Lemma Rsumabs_pos xs : 0 <= Rsumabs xs.
Proof. unfold Rsumabs, rsum. induction xs as [|x r IH]; cbn [map fold_right]; [lra|]. pose proof (Rabs_pos (FR x)). lra. Qed.
Lemma Rsum_le_abs xs : Rabs (Rsum xs) <= Rsumabs xs.
Proof.
  unfold Rsum, Rsumabs, rsum. induction xs as [|x r IH]; cbn [map fold_right]; [rewrite Rabs_R0; lra|].
  eapply Rle_trans; [apply Rabs_triang|lra].
Qed.
Lemma Rsum_split xs j : Rsum xs = Rsum (firstn j xs) + Rsum (skipn j xs).
Proof. unfold Rsum. rewrite <- rsum_app, <- map_app, firstn_skipn. reflexivity. Qed.
Lemma Rsumabs_split xs j : Rsumabs xs = Rsumabs (firstn j xs) + Rsumabs (skipn j xs).
Proof. unfold Rsumabs. rewrite <- rsum_app, <- map_app, firstn_skipn. reflexivity. Qed.

(* the bound in terms of the whole list, for every non-empty prefix *)
Theorem go_sum_prefix_bound xs j :
  (0 < j <= length xs)%nat -> Forall fin xs -> Forall fin (go_cumulative xs) ->
  Rabs (FR (go_sum (firstn j xs)) - Rsum (firstn j xs)) <= ((1 + u) ^ (length xs - 1) - 1) * Rsumabs xs.
Proof.
  intros Hj Hf Hc.
  assert (Hl : length (firstn j xs) = j) by (rewrite firstn_length; lia).
  pose proof (Forall_firstn fin xs j Hf) as Hf'.
  assert (Hc' : Forall fin (go_cumulative (firstn j xs))) by (rewrite cumulative_firstn; apply Forall_firstn; exact Hc).
  assert (Hs : Rsumabs (firstn j xs) <= Rsumabs xs).
  { rewrite (Rsumabs_split xs j). pose proof (Rsumabs_pos (skipn j xs)). lra. }
  remember (firstn j xs) as l eqn:E. destruct l as [|x r]; [cbn in Hl; lia|].
  eapply Rle_trans; [apply go_sum_bound; assumption|].
  pose proof u_pos as Hu. cbn [length] in Hl.
  apply Rmult_le_compat.
  - pose proof (pow1p_ge1 u (length r) Hu). lra.
  - apply Rsumabs_pos.
  - pose proof (pow1p_mono u (length r) (length xs - 1) Hu ltac:(lia)). lra.
  - exact Hs.
Qed.

(* ---- pct < 0: the sum of the k highest values, cumulative[n-1] - cumulative[n-k-1] *)
Theorem go_sum_top_bound xs k :
  (0 < k < length xs)%nat -> Forall fin xs -> Forall fin (go_cumulative xs) -> fin (go_sum_top xs k) ->
  Rabs (FR (go_sum_top xs k) - Rsum (skipn (length xs - k) xs))
    <= (u + 2 * (1 + u) * ((1 + u) ^ (length xs - 1) - 1)) * Rsumabs xs.
Proof.
  intros Hk Hf Hc Ft.
  pose proof (go_sum_prefix_bound xs (length xs) ltac:(lia) Hf Hc) as Ga. rewrite firstn_all in Ga.
  assert (Fa : fin (go_sum xs)).
  { pose proof (cumulative_nth xs (length xs - 1) ltac:(lia)) as N. replace (S (length xs - 1)) with (length xs) in N by lia. rewrite firstn_all in N.
    apply nth_error_In in N. rewrite Forall_forall in Hc. apply Hc; exact N. }
  set (n := length xs) in *. set (g := (1 + u) ^ (n - 1) - 1) in *.
  pose proof (go_sum_prefix_bound xs (n - k) ltac:(lia) Hf Hc) as Gb. fold n g in Gb.
  assert (Fb : fin (go_sum (firstn (n - k) xs))).
  { pose proof (cumulative_nth xs (n - k - 1) ltac:(lia)) as N. replace (S (n - k - 1)) with (n - k)%nat in N by lia.
    apply nth_error_In in N. rewrite Forall_forall in Hc. apply Hc; exact N. }
  unfold go_sum_top in *. fold n in Ft |- *. destruct (sub_err _ _ Fa Fb Ft) as (eps & He & Hv). rewrite Hv.
  pose proof (Rsum_split xs (n - k)) as Sp. pose proof (Rsum_le_abs (skipn (n - k) xs)) as Sk.
  pose proof (Rsumabs_split xs (n - k)) as Sa. pose proof (Rsumabs_pos (firstn (n - k) xs)) as P1.
  pose proof (Rsumabs_pos xs) as P0. pose proof u_pos as Hu.
  assert (Hg : 0 <= g) by (unfold g; pose proof (pow1p_ge1 u (n - 1) Hu); lra).
  set (a := FR (go_sum xs)) in *. set (b := FR (go_sum (firstn (n - k) xs))) in *.
  set (A := Rsum xs) in *. set (B := Rsum (firstn (n - k) xs)) in *. set (C := Rsum (skipn (n - k) xs)) in *. set (S := Rsumabs xs) in *.
  assert (HC : Rabs C <= S) by lra.
  replace ((a - b) * (1 + eps) - C) with ((a - A) - (b - B) + (a - b) * eps) by lra.
  assert (Hab : Rabs (a - b) <= S + 2 * g * S).
  { replace (a - b) with ((a - A) - (b - B) + C) by lra.
    eapply Rle_trans; [apply Rabs_triang|]. eapply Rle_trans; [apply Rplus_le_compat_r, Rabs_triang|]. rewrite Rabs_Ropp. lra. }
  pose proof (Rabs_prod_le _ _ _ _ Hab He) as Hp.
  eapply Rle_trans; [apply Rabs_triang|]. eapply Rle_trans; [apply Rplus_le_compat_r, Rabs_triang|]. rewrite Rabs_Ropp.
  nra.
Qed.

(* ---- the tolerance of the general-regime comparison of Corr/C08.v: 1e-9 times the conditioning
   quantity (SUM |x| for sums, SUM x^2 for squares) dominates the proved bounds up to 10^6 values *)
Definition tol : R := / 1000000000.

Lemma u_val : u = / 9007199254740992.
Proof.
  assert (H : u * 9007199254740992 = 1).
  { unfold u. change 9007199254740992 with (IZR (radix2 ^ 53)). rewrite IZR_Zpower by lia. rewrite <- bpow_plus. reflexivity. }
  apply Rmult_eq_reg_r with 9007199254740992; [|lra]. rewrite H. field.
Qed.

Lemma gamma_small k : (Z.of_nat k <= 1000000)%Z -> 0 <= (1 + u) ^ k - 1 <= 2 * 1000000 * u.
Proof.
  intros Hk. pose proof u_pos as Hu. apply IZR_le in Hk. rewrite <- INR_IZR_INZ in Hk. pose proof (pos_INR k) as Pk.
  split; [pose proof (pow1p_ge1 u k Hu); lra|].
  eapply Rle_trans; [apply pow1p_le; [exact Hu|]|]; rewrite u_val in *; nra.
Qed.

Lemma gamma_tol : 3 * (2 * 1000000 * u) <= tol /\ u <= 2 * 1000000 * u.
Proof. unfold tol. rewrite u_val. lra. Qed.

Lemma FR_zero : FR 0%float = 0.
Proof. unfold FR, Prim2B. rewrite B2R_SF2B. reflexivity. Qed.

Theorem tolerance_sound_sum xs :
  (Z.of_nat (length xs) <= 1000000)%Z -> Forall fin xs -> Forall fin (go_cumulative xs) ->
  Rabs (FR (go_sum xs) - Rsum xs) <= tol * Rsumabs xs.
Proof.
  intros Hn Hf Hc. destruct xs as [|x r].
  - cbn [go_sum go_sumsq]. rewrite FR_zero. cbn. rewrite Rminus_diag_eq, Rabs_R0 by reflexivity. unfold tol; lra.
  - eapply Rle_trans; [apply go_sum_bound; assumption|]. apply Rmult_le_compat_r; [apply Rsumabs_pos|].
    cbn [length] in Hn. destruct (gamma_small (length r) ltac:(lia)) as [_ G]. pose proof gamma_tol. pose proof u_pos. lra.
Qed.

Theorem tolerance_sound_sumsq xs :
  (Z.of_nat (length xs) <= 1000000)%Z -> Forall (fun y => fin y /\ fin (square y) /\ sq_normal y) xs ->
  Forall fin (go_cumul_squares xs) ->
  Rabs (FR (go_sumsq xs) - Rsumsq xs) <= tol * Rsumsq xs.
Proof.
  intros Hn Hf Hc. destruct xs as [|x r].
  - cbn [go_sum go_sumsq]. rewrite FR_zero. cbn. rewrite Rminus_diag_eq, Rabs_R0 by reflexivity. unfold tol; lra.
  - eapply Rle_trans; [apply go_sumsq_bound; assumption|]. apply Rmult_le_compat_r.
    + clear. unfold Rsumsq, rsum. induction (x :: r) as [|y l IH]; cbn [map fold_right]; [lra|]. nra.
    + destruct (gamma_small (length (x :: r)) Hn) as [_ G]. pose proof gamma_tol. pose proof u_pos. lra.
Qed.

(* the percentile sums (both signs) against the same tolerance, scaled by SUM |x| of the whole timer *)
Theorem tolerance_sound_sum_prefix xs j :
  (Z.of_nat (length xs) <= 1000000)%Z -> (0 < j <= length xs)%nat -> Forall fin xs -> Forall fin (go_cumulative xs) ->
  Rabs (FR (go_sum (firstn j xs)) - Rsum (firstn j xs)) <= tol * Rsumabs xs.
Proof.
  intros Hn Hj Hf Hc. eapply Rle_trans; [apply go_sum_prefix_bound; assumption|].
  apply Rmult_le_compat_r; [apply Rsumabs_pos|].
  destruct (gamma_small (length xs - 1) ltac:(lia)) as [_ G]. pose proof gamma_tol. pose proof u_pos. lra.
Qed.

Theorem tolerance_sound_sum_top xs k :
  (Z.of_nat (length xs) <= 1000000)%Z -> (0 < k < length xs)%nat -> Forall fin xs -> Forall fin (go_cumulative xs) ->
  fin (go_sum_top xs k) ->
  Rabs (FR (go_sum_top xs k) - Rsum (skipn (length xs - k) xs)) <= tol * Rsumabs xs.
Proof.
  intros Hn Hk Hf Hc Ft. eapply Rle_trans; [apply go_sum_top_bound; assumption|].
  apply Rmult_le_compat_r; [apply Rsumabs_pos|].
  destruct (gamma_small (length xs - 1) ltac:(lia)) as [G0 G]. pose proof gamma_tol as [T1 T2]. pose proof u_pos as Hu. rewrite u_val in *. unfold tol in *. nra.
Qed.

(* ---- the mean against the exact mean: the error of the sum divided by the count, plus one rounding *)
Theorem go_mean_total_bound x r count :
  Forall fin (x :: r) -> Forall fin (go_cumulative (x :: r)) -> fin (go_sum (x :: r)) -> fin count ->
  fin (go_mean (x :: r) count) -> FR count <> 0 ->
  FR (go_sum (x :: r)) / FR count = 0 \/ bpow radix2 (-1022) <= Rabs (FR (go_sum (x :: r)) / FR count) ->
  let g := (1 + u) ^ length r - 1 in
  Rabs (FR (go_mean (x :: r) count) - Rsum (x :: r) / FR count)
    <= (g + u * (1 + g)) * (Rsumabs (x :: r) / Rabs (FR count)).
Proof.
  intros Hf Hc Fs Fc Fm Hc0 Hn g.
  pose proof (go_sum_bound x r Hf Hc) as Gs. fold g in Gs.
  destruct (div_err _ _ Fs Fc Fm Hc0 Hn) as (eps & He & Hv). unfold go_mean in *. rewrite Hv.
  set (s := FR (go_sum (x :: r))) in *. set (c := FR count) in *. set (T := Rsum (x :: r)) in *. set (S := Rsumabs (x :: r)) in *.
  pose proof (Rsum_le_abs (x :: r)) as HT. fold T S in HT. pose proof (Rsumabs_pos (x :: r)) as PS. fold S in PS.
  pose proof u_pos as Hu. assert (Hg : 0 <= g) by (unfold g; pose proof (pow1p_ge1 u (length r) Hu); lra).
  assert (Pc : 0 < Rabs c) by (apply Rabs_pos_lt; exact Hc0).
  assert (Hs : Rabs s <= (1 + g) * S).
  { replace s with ((s - T) + T) by ring. eapply Rle_trans; [apply Rabs_triang|]. lra. }
  replace (s / c * (1 + eps) - T / c) with ((s - T) / c + (s / c) * eps) by (field; exact Hc0).
  eapply Rle_trans; [apply Rabs_triang|].
  assert (H1 : Rabs ((s - T) / c) <= g * S / Rabs c).
  { unfold Rdiv. rewrite Rabs_mult, Rabs_inv. apply Rmult_le_compat_r; [apply Rlt_le, Rinv_0_lt_compat; exact Pc|exact Gs]. }
  assert (H2 : Rabs (s / c * eps) <= (1 + g) * S / Rabs c * u).
  { apply Rabs_prod_le; [|exact He]. unfold Rdiv. rewrite Rabs_mult, Rabs_inv.
    apply Rmult_le_compat_r; [apply Rlt_le, Rinv_0_lt_compat; exact Pc|exact Hs]. }
  eapply Rle_trans; [apply Rplus_le_compat; [exact H1|exact H2]|]. right. field. lra.
Qed.

(* sanity of the model's operation order on a classic: ((0.1 + 0.2) + 0.3) in binary64 *)
Set Warnings "-inexact-float".
Example go_sum_example :
  go_sum [0.1; 0.2; 0.3]%float = 0.6000000000000001%float /\ go_sumsq [3; 4]%float = 25%float.
Proof. split; vm_compute; reflexivity. Qed.
