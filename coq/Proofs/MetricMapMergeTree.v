(* C07: merge trees.  The result of any tree of Merge / Receive over a family of batches is
   determined, under the C07 projection, by the multiset of leaves. *)
From stdpp Require Import gmap gmultiset.
From Coq Require Import QArith Qcanon Lia.
From GS Require Import Base.Bytes Base.LTS Model.Lexer Model.Series Model.MetricMap Model.Content
  Proofs.MetricMapMerge.

Arguments Z.add : simpl never.
Arguments Z.max : simpl never.

Lemma held_fmap {A B} (p : A → B) (xs : list (option A)) : held ((λ x : option A, p <$> x) <$> xs) = p <$> held xs.
Proof. unfold held. induction xs as [|[a|] xs IH]; cbn; [reflexivity| |exact IH]. by rewrite IH. Qed.

Lemma series_at_app {V} (fld : mmap → gmap skey V) l1 l2 k :
  series_at fld (l1 ++ l2) k = series_at fld l1 k ++ series_at fld l2 k.
Proof. unfold series_at. by rewrite fmap_app, held_app. Qed.
Lemma series_at_perm {V} (fld : mmap → gmap skey V) l1 l2 k :
  l1 ≡ₚ l2 → series_at fld l1 k ≡ₚ series_at fld l2 k.
Proof. intros H. unfold series_at. apply held_perm. by rewrite H. Qed.
Lemma elem_of_series_at {V} (fld : mmap → gmap skey V) ms k v :
  v ∈ series_at fld ms k ↔ ∃ m, m ∈ ms ∧ fld m !! k = Some v.
Proof.
  unfold series_at, held. rewrite elem_of_list_omap. split.
  - intros (x & Hx & Hv). apply elem_of_list_fmap in Hx as (m & -> & Hm). cbn in Hv. eauto.
  - intros (m & Hm & Hv). exists (fld m !! k). split; [|by rewrite Hv].
    apply elem_of_list_fmap. eauto.
Qed.

(* ---------------------------------------------------------------------------------------- *)
(* one field of the map, projected into a commutative semigroup *)
Section tree_projection.
  Context {V A : Type} (fld : mmap → gmap skey V) (f f' : V → V → V) (p : V → A) (op : A → A → A).
  Context (Hmerge : ∀ a b k, fld (merge a b) !! k = oplus f (fld a !! k) (fld b !! k)).
  Context (Hrecv : ∀ m d k, fld (receive m d) !! k = oplus f' (fld m !! k) (fld (singleton d) !! k)).
  Context (Hp : ∀ a b, p (f a b) = op (p a) (p b)) (Hp' : ∀ a b, p (f' a b) = op (p a) (p b)).
  Context (Hc : ∀ a b, op a b = op b a) (Ha : ∀ a b c, op a (op b c) = op (op a b) c).

  Definition at_leaves (ms : list mmap) (k : skey) : list (option A) := (λ m, p <$> fld m !! k) <$> ms.

  Lemma tree_fold t k : p <$> fld (eval t) !! k = ofold op (at_leaves (leaves t) k).
  Proof using Hmerge Hrecv Hp Hp' Ha.
    induction t as [m|l IHl r IHr|t IH d]; cbn [eval leaves].
    - unfold at_leaves, ofold; cbn. by rewrite oplus_None_r.
    - rewrite Hmerge, (fmap_oplus p f op _ _ Hp), IHl, IHr.
      unfold at_leaves. by rewrite fmap_app, (ofold_app op Ha).
    - rewrite Hrecv, (fmap_oplus p f' op _ _ Hp'), IH.
      unfold at_leaves. rewrite fmap_app, (ofold_app op Ha). unfold ofold at 3; cbn.
      by rewrite oplus_None_r.
  Qed.

  Lemma tree_perm t1 t2 k :
    leaves t1 ≡ₚ leaves t2 → p <$> fld (eval t1) !! k = p <$> fld (eval t2) !! k.
  Proof using Hmerge Hrecv Hp Hp' Hc Ha.
    intros H. rewrite !tree_fold. apply (ofold_perm op Hc Ha). unfold at_leaves. by rewrite H.
  Qed.

  (* with a unit: the merged entry is the fold over the holders *)
  Lemma tree_spec (u : A) t k :
    (∀ a, op a u = a) →
    merged_as (λ hs v, p v = foldr op u (p <$> hs)) (series_at fld (leaves t) k) (fld (eval t) !! k).
  Proof using Hmerge Hrecv Hp Hp' Ha.
    intros Hu. pose proof (tree_fold t k) as H.
    rewrite (ofold_combined op u _ Hu) in H. unfold combined, at_leaves in H.
    replace ((λ m, p <$> fld m !! k) <$> leaves t) with ((λ x : option V, p <$> x) <$> ((λ m, fld m !! k) <$> leaves t)) in H
      by (rewrite <- list_fmap_compose; reflexivity).
    rewrite held_fmap in H. fold (series_at fld (leaves t) k) in H.
    unfold merged_as. destruct (fld (eval t) !! k), (series_at fld (leaves t) k); cbn in H; try discriminate.
    - split; [discriminate|]. injection H as ->. reflexivity.
    - reflexivity.
  Qed.
End tree_projection.

(* ---------------------------------------------------------------------------------------- *)
(* per-series projections *)
Lemma Zadd_comm' (a b : Z) : (a + b = b + a)%Z. Proof. lia. Qed.
Lemma Zadd_assoc' (a b c : Z) : (a + (b + c) = a + b + c)%Z. Proof. lia. Qed.
Lemma Zmax_comm' (a b : Z) : Z.max a b = Z.max b a. Proof. lia. Qed.
Lemma Zmax_assoc' (a b c : Z) : Z.max a (Z.max b c) = Z.max (Z.max a b) c. Proof. lia. Qed.
Lemma munion_comm (a b : gmultiset Z) : a ⊎ b = b ⊎ a. Proof. apply (comm_L (⊎)). Qed.
Lemma munion_assoc (a b c : gmultiset Z) : a ⊎ (b ⊎ c) = a ⊎ b ⊎ c. Proof. apply (assoc_L (⊎)). Qed.
Lemma sunion_comm (a b : gset str) : a ∪ b = b ∪ a. Proof. apply (comm_L (∪)). Qed.
Lemma sunion_assoc (a b c : gset str) : a ∪ (b ∪ c) = a ∪ b ∪ c. Proof. apply (assoc_L (∪)). Qed.

Lemma recv_gauge_ts a b : g_ts (recv_gauge a b) = Z.max (g_ts a) (g_ts b).
Proof. unfold recv_gauge. destruct (g_ts a <=? g_ts b)%Z eqn:E; cbn; lia. Qed.
Lemma merge_gauge_ts a b : g_ts (merge_gauge a b) = Z.max (g_ts a) (g_ts b).
Proof. unfold merge_gauge. destruct (g_ts a <? g_ts b)%Z eqn:E; cbn; lia. Qed.

Definition tvals (t : timer) : gmultiset Z := list_to_set_disj (t_vals t).
Lemma tvals_merge a b : tvals (merge_timer a b) = tvals a ⊎ tvals b.
Proof. apply list_to_set_disj_app. Qed.

Lemma elements_list_to_set_disj (l : list Z) : elements (list_to_set_disj l : gmultiset Z) ≡ₚ l.
Proof.
  induction l as [|x l IH]; [by rewrite list_to_set_disj_nil, gmultiset_elements_empty|].
  rewrite list_to_set_disj_cons, gmultiset_elements_disj_union, gmultiset_elements_singleton, IH.
  reflexivity.
Qed.
Lemma list_to_set_disj_inj_perm (l1 l2 : list Z) :
  (list_to_set_disj l1 : gmultiset Z) = list_to_set_disj l2 → l1 ≡ₚ l2.
Proof. intros H. by rewrite <- (elements_list_to_set_disj l1), H, elements_list_to_set_disj. Qed.
Lemma foldr_tvals hs : foldr (⊎) ∅ (tvals <$> hs) = list_to_set_disj (concat (t_vals <$> hs)).
Proof.
  induction hs as [|h hs IH]; cbn; [reflexivity|].
  by rewrite IH, list_to_set_disj_app.
Qed.

(* counters *)
Lemma tree_counter_value t k :
  merged_as (λ hs c, c_val c = zsum (c_val <$> hs)) (series_at counters (leaves t) k) (counters (eval t) !! k).
Proof.
  apply (tree_spec counters merge_counter merge_counter c_val Z.add counters_merge_lookup
           counters_receive_lookup); try reflexivity; intros; lia.
Qed.
Lemma tree_counter_value_perm t1 t2 k :
  leaves t1 ≡ₚ leaves t2 → c_val <$> counters (eval t1) !! k = c_val <$> counters (eval t2) !! k.
Proof.
  apply (tree_perm counters merge_counter merge_counter c_val Z.add counters_merge_lookup
           counters_receive_lookup); try reflexivity; intros; lia.
Qed.

(* timers *)
Lemma tree_timer_spec t k :
  merged_as (λ hs r, t_vals r ≡ₚ concat (t_vals <$> hs) ∧ t_samp r = qsum (t_samp <$> hs))
    (series_at timers (leaves t) k) (timers (eval t) !! k).
Proof.
  pose proof (tree_spec timers merge_timer merge_timer tvals (⊎) timers_merge_lookup
    timers_receive_lookup tvals_merge tvals_merge munion_assoc ∅ t k) as Hv.
  pose proof (tree_spec timers merge_timer merge_timer t_samp Qcplus timers_merge_lookup
    timers_receive_lookup (λ _ _, eq_refl) (λ _ _, eq_refl) Qcplus_assoc 0%Qc t k Qcplus_0_r) as Hs.
  specialize (Hv (right_id_L ∅ (⊎))).
  unfold merged_as in *. destruct (timers (eval t) !! k) as [r|]; [|exact Hv].
  destruct Hv as [Hne Hv], Hs as [_ Hs]. split; [exact Hne|]. split; [|exact Hs].
  apply list_to_set_disj_inj_perm. unfold tvals in Hv at 1. by rewrite Hv, foldr_tvals.
Qed.
Lemma tree_timer_perm t1 t2 k :
  leaves t1 ≡ₚ leaves t2 →
  match timers (eval t1) !! k, timers (eval t2) !! k with
  | Some a, Some b => t_vals a ≡ₚ t_vals b ∧ t_samp a = t_samp b
  | None, None => True
  | _, _ => False
  end.
Proof.
  intros H.
  pose proof (tree_perm timers merge_timer merge_timer tvals (⊎) timers_merge_lookup
    timers_receive_lookup tvals_merge tvals_merge munion_comm munion_assoc t1 t2 k H) as Hv.
  pose proof (tree_perm timers merge_timer merge_timer t_samp Qcplus timers_merge_lookup
    timers_receive_lookup (λ _ _, eq_refl) (λ _ _, eq_refl) Qcplus_comm Qcplus_assoc t1 t2 k H) as Hs.
  destruct (timers (eval t1) !! k), (timers (eval t2) !! k);
    cbn [fmap option_fmap option_map] in *; try discriminate; [|exact I].
  injection Hv as Hv. injection Hs as Hs. split; [apply list_to_set_disj_inj_perm; exact Hv|exact Hs].
Qed.

(* sets *)
Lemma tree_set_spec t k :
  merged_as (λ hs r, s_vals r = ⋃ (s_vals <$> hs)) (series_at sets (leaves t) k) (sets (eval t) !! k).
Proof.
  apply (tree_spec sets merge_set merge_set s_vals (∪) sets_merge_lookup sets_receive_lookup
    (λ _ _, eq_refl) (λ _ _, eq_refl) sunion_assoc ∅). intros a. apply union_empty_r_L.
Qed.
Lemma tree_set_perm t1 t2 k :
  leaves t1 ≡ₚ leaves t2 → s_vals <$> sets (eval t1) !! k = s_vals <$> sets (eval t2) !! k.
Proof.
  apply (tree_perm sets merge_set merge_set s_vals (∪) sets_merge_lookup sets_receive_lookup
    (λ _ _, eq_refl) (λ _ _, eq_refl) sunion_comm sunion_assoc).
Qed.

(* timestamps *)
Lemma ofold_max_is_newest xs : is_newest xs (ofold Z.max xs).
Proof.
  unfold ofold. induction xs as [|x xs IH]; cbn [foldr]; [intros x []|].
  destruct x as [a|], (foldr (oplus Z.max) None xs) as [b|]; cbn in *.
  - destruct IH as [Hin Hle]. split.
    + destruct (Z.max_spec a b) as [[_ ->]|[_ ->]]; [right; exact Hin|by left].
    + intros ts' [E|Hin']; [injection E as <-; lia|]. specialize (Hle _ Hin'). lia.
  - split; [by left|]. intros ts' [E|Hin']; [injection E as <-; lia|].
    specialize (IH _ Hin'). discriminate.
  - destruct IH as [Hin Hle]. split; [by right|]. intros ts' [E|Hin']; [discriminate|auto].
  - intros x [<-|Hin]; [reflexivity|auto].
Qed.

Lemma is_newest_unique xs r1 r2 : is_newest xs r1 → is_newest xs r2 → r1 = r2.
Proof.
  destruct r1 as [a|], r2 as [b|]; cbn.
  - intros [Ha1 Ha2] [Hb1 Hb2]. specialize (Ha2 _ Hb1). specialize (Hb2 _ Ha1). f_equal; lia.
  - intros [Ha1 _] Hb. specialize (Hb _ Ha1). discriminate.
  - intros Ha [Hb1 _]. specialize (Ha _ Hb1). discriminate.
  - reflexivity.
Qed.

Lemma tree_ts_fold ty t k : ts_at ty (eval t) k = ofold Z.max ((λ m, ts_at ty m k) <$> leaves t).
Proof.
  destruct ty; unfold ts_at.
  - apply (tree_fold counters merge_counter merge_counter c_ts Z.max counters_merge_lookup
      counters_receive_lookup (λ _ _, eq_refl) (λ _ _, eq_refl) Zmax_assoc').
  - apply (tree_fold gauges merge_gauge recv_gauge g_ts Z.max gauges_merge_lookup
      gauges_receive_lookup merge_gauge_ts recv_gauge_ts Zmax_assoc').
  - apply (tree_fold timers merge_timer merge_timer t_ts Z.max timers_merge_lookup
      timers_receive_lookup (λ _ _, eq_refl) (λ _ _, eq_refl) Zmax_assoc').
  - apply (tree_fold sets merge_set merge_set s_ts Z.max sets_merge_lookup
      sets_receive_lookup (λ _ _, eq_refl) (λ _ _, eq_refl) Zmax_assoc').
Qed.

Lemma tree_timestamps t ty k : is_newest ((λ m, ts_at ty m k) <$> leaves t) (ts_at ty (eval t) k).
Proof. rewrite tree_ts_fold. apply ofold_max_is_newest. Qed.

Lemma tree_timestamps_perm t1 t2 ty k :
  leaves t1 ≡ₚ leaves t2 → ts_at ty (eval t1) k = ts_at ty (eval t2) k.
Proof.
  intros H. rewrite !tree_ts_fold. apply (ofold_perm Z.max Zmax_comm' Zmax_assoc'). by rewrite H.
Qed.

(* ---------------------------------------------------------------------------------------- *)
(* gauges: not a homomorphism (ties), but the winner always is a newest leaf datapoint *)
Definition picks_newest (f : gauge → gauge → gauge) : Prop :=
  ∀ a b, (g_ts (f a b) = g_ts a ∧ g_val (f a b) = g_val a ∧ (g_ts b ≤ g_ts a)%Z)
       ∨ (g_ts (f a b) = g_ts b ∧ g_val (f a b) = g_val b ∧ (g_ts a ≤ g_ts b)%Z).

Lemma merge_gauge_picks : picks_newest merge_gauge.
Proof. intros a b. unfold merge_gauge. destruct (g_ts a <? g_ts b)%Z eqn:E; cbn; [right|left]; lia. Qed.
Lemma recv_gauge_picks : picks_newest recv_gauge.
Proof. intros a b. unfold recv_gauge. destruct (g_ts a <=? g_ts b)%Z eqn:E; cbn; [right|left]; lia. Qed.

Lemma gauge_newest_leaf m k : gauge_newest [m] k (gauges m !! k).
Proof.
  unfold gauge_newest. destruct (gauges m !! k) as [g|] eqn:E.
  - split; [exists m, g; repeat split; auto; by left|].
    intros m' g' [<-|[]] H. rewrite E in H. injection H as <-. lia.
  - intros m' [<-|[]]. exact E.
Qed.

Lemma gauge_newest_combine f l1 l2 k x y :
  picks_newest f → gauge_newest l1 k x → gauge_newest l2 k y → gauge_newest (l1 ++ l2) k (oplus f x y).
Proof.
  intros Hf Hx Hy. unfold gauge_newest in *. destruct x as [a|], y as [b|]; cbn.
  - destruct Hx as [(ma & ga & Hma & Hga & Hta & Hva) Hxle], Hy as [(mb & gb & Hmb & Hgb & Htb & Hvb) Hyle].
    destruct (Hf a b) as [(Ht & Hv & Hle)|(Ht & Hv & Hle)]; rewrite Ht, Hv.
    + split; [exists ma, ga; repeat split; auto; apply in_or_app; by left|].
      intros m g' [Hin|Hin]%in_app_or Hg; [eauto|]. specialize (Hyle _ _ Hin Hg). lia.
    + split; [exists mb, gb; repeat split; auto; apply in_or_app; by right|].
      intros m g' [Hin|Hin]%in_app_or Hg; [|eauto]. specialize (Hxle _ _ Hin Hg). lia.
  - destruct Hx as [(ma & ga & Hma & Hga & Hta & Hva) Hxle].
    split; [exists ma, ga; repeat split; auto; apply in_or_app; by left|].
    intros m g' [Hin|Hin]%in_app_or Hg; [eauto|]. rewrite (Hy _ Hin) in Hg. discriminate.
  - destruct Hy as [(mb & gb & Hmb & Hgb & Htb & Hvb) Hyle].
    split; [exists mb, gb; repeat split; auto; apply in_or_app; by right|].
    intros m g' [Hin|Hin]%in_app_or Hg; [|eauto]. rewrite (Hx _ Hin) in Hg. discriminate.
  - intros m [Hin|Hin]%in_app_or; auto.
Qed.

Lemma tree_gauges t k : gauge_newest (leaves t) k (gauges (eval t) !! k).
Proof.
  induction t as [m|l IHl r IHr|t IH d]; cbn [eval leaves].
  - apply gauge_newest_leaf.
  - rewrite gauges_merge_lookup. apply gauge_newest_combine; auto using merge_gauge_picks.
  - rewrite gauges_receive_lookup.
    apply gauge_newest_combine; auto using recv_gauge_picks, gauge_newest_leaf.
Qed.

Lemma gauge_newest_perm l1 l2 k r : l1 ≡ₚ l2 → gauge_newest l1 k r → gauge_newest l2 k r.
Proof.
  intros HP. unfold gauge_newest. destruct r as [g|].
  - intros [(m & g' & Hin & H) Hle]. split.
    + exists m, g'. split; [|exact H]. eapply Permutation_in; eauto.
    + intros m' g'' Hin'. apply Hle. eapply Permutation_in; [symmetry|]; eauto.
  - intros H m Hin. apply H. eapply Permutation_in; [symmetry|]; eauto.
Qed.

(* two orders of the same batches: same timestamp; same value unless two leaf datapoints tie
   for the newest timestamp with different values *)
Lemma tree_gauges_perm t1 t2 k :
  leaves t1 ≡ₚ leaves t2 →
  match gauges (eval t1) !! k, gauges (eval t2) !! k with
  | Some g1, Some g2 =>
      g_ts g1 = g_ts g2 ∧
      ((∀ m m' a b, In m (leaves t1) → In m' (leaves t1) → gauges m !! k = Some a →
          gauges m' !! k = Some b → g_ts a = g_ts b → g_val a = g_val b) → g_val g1 = g_val g2)
  | None, None => True
  | _, _ => False
  end.
Proof.
  intros HP. pose proof (tree_gauges t1 k) as H1. pose proof (tree_gauges t2 k) as H2.
  apply (gauge_newest_perm _ _ _ _ (Permutation_sym HP)) in H2.
  unfold gauge_newest in *.
  destruct (gauges (eval t1) !! k) as [g1|], (gauges (eval t2) !! k) as [g2|]; auto.
  - destruct H1 as [(m1 & a & Hm1 & Ha & Hta & Hva) Hle1], H2 as [(m2 & b & Hm2 & Hb & Htb & Hvb) Hle2].
    pose proof (Hle1 _ _ Hm2 Hb). pose proof (Hle2 _ _ Hm1 Ha).
    split; [lia|]. intros Hu. rewrite <- Hva, <- Hvb. apply (Hu m1 m2 a b Hm1 Hm2 Ha Hb). lia.
  - destruct H1 as [(m1 & a & Hm1 & Ha & _) _]. rewrite (H2 _ Hm1) in Ha. discriminate.
  - destruct H2 as [(m2 & b & Hm2 & Hb & _) _]. rewrite (H1 _ Hm2) in Hb. discriminate.
Qed.

(* ---------------------------------------------------------------------------------------- *)
(* Receive versus Merge of the one-datapoint map *)
Lemma receive_vs_merge m d :
  counters (receive m d) = counters (merge m (singleton d)) ∧
  timers (receive m d) = timers (merge m (singleton d)) ∧
  sets (receive m d) = sets (merge m (singleton d)) ∧
  ∀ k, match gauges (receive m d) !! k, gauges (merge m (singleton d)) !! k with
       | Some g1, Some g2 =>
           g_ts g1 = g_ts g2 ∧ g_src g1 = g_src g2 ∧ g_tags g1 = g_tags g2 ∧
           (g_val g1 = g_val g2 ∨
            (* the only difference: a tie, which Receive gives to the datapoint, Merge to the map *)
            ∃ g, gauges m !! k = Some g ∧ dp_type d = Gauge ∧ dp_key d = k ∧ g_ts g = dp_ts d ∧
                 g_val g1 = dp_value d ∧ g_val g2 = g_val g)
       | None, None => True
       | _, _ => False
       end.
Proof.
  split; [|split; [|split]].
  - apply map_eq; intros k. by rewrite counters_receive_lookup, counters_merge_lookup.
  - apply map_eq; intros k. by rewrite timers_receive_lookup, timers_merge_lookup.
  - apply map_eq; intros k. by rewrite sets_receive_lookup, sets_merge_lookup.
  - intros k. rewrite gauges_receive_lookup, gauges_merge_lookup.
    destruct (gauges m !! k) as [g|] eqn:Eg; [|destruct (gauges (singleton d) !! k); cbn; auto 10].
    unfold singleton, receive, empty_map.
    destruct (dp_type d) eqn:Ety; cbn [gauges]; rewrite ?lookup_empty; cbn; auto 10.
    destruct (decide (dp_key d = k)) as [Hk|Hne].
    + rewrite Hk, lookup_insert; cbn.
      unfold recv_gauge, merge_gauge; cbn.
      destruct (g_ts g <=? dp_ts d)%Z eqn:E1, (g_ts g <? dp_ts d)%Z eqn:E2; cbn; try lia; auto 10.
      repeat split; try lia. right. exists g. repeat split; auto. lia.
    + rewrite lookup_insert_ne, lookup_empty by exact Hne; cbn. auto 10.
Qed.

(* ---------------------------------------------------------------------------------------- *)
(* content of a tree (for the properties that reuse abs) *)
Lemma abs_eval t : abs (eval t) = cmap_sum (abs <$> leaves t).
Proof.
  induction t as [m|l IHl r IHr|t IH d]; cbn [eval leaves].
  - unfold cmap_sum; cbn. by rewrite cmap_op_empty_r.
  - by rewrite abs_merge, IHl, IHr, fmap_app, cmap_sum_app.
  - rewrite abs_receive, IH, fmap_app, cmap_sum_app. f_equal.
    unfold cmap_sum; cbn [fmap list_fmap foldr]. by rewrite abs_singleton, cmap_op_empty_r.
Qed.
Lemma abs_eval_perm t1 t2 : leaves t1 ≡ₚ leaves t2 → abs (eval t1) = abs (eval t2).
Proof. intros H. rewrite !abs_eval. apply cmap_sum_perm. by rewrite H. Qed.

(* ---------------------------------------------------------------------------------------- *)
(* consolidator slots *)
Definition recv_chain (t : mtree) (ds : list datapoint) : mtree := fold_left Recv ds t.
Lemma eval_recv_chain ds t : eval (recv_chain t ds) = receive_all (eval t) ds.
Proof. unfold recv_chain, receive_all. revert t; induction ds as [|d ds IH]; intros t; cbn; [reflexivity|]. by rewrite IH. Qed.
Lemma leaves_recv_chain ds t : leaves (recv_chain t ds) = leaves t ++ (singleton <$> ds).
Proof.
  unfold recv_chain. revert t; induction ds as [|d ds IH]; intros t; cbn; [by rewrite app_nil_r|].
  rewrite IH; cbn. by rewrite <- app_assoc.
Qed.

Definition all_leaves (ts : list mtree) : list mmap := concat (leaves <$> ts).

Lemma all_leaves_insert ts i ti t' extra :
  ts !! i = Some ti → leaves t' = leaves ti ++ extra →
  all_leaves (<[i := t']> ts) ≡ₚ all_leaves ts ++ extra.
Proof.
  intros Hi Hl. unfold all_leaves.
  revert i Hi; induction ts as [|x ts IH]; intros [|i] Hi; cbn in *; try discriminate.
  - injection Hi as ->. rewrite Hl. rewrite <- !app_assoc. apply Permutation_app_head, Permutation_app_comm.
  - rewrite (IH _ Hi). by rewrite app_assoc.
Qed.

Lemma slot_step_trees ts s o s' :
  eval <$> ts = s → slot_step s o = Some s' →
  ∃ ts', eval <$> ts' = s' ∧ all_leaves ts' ≡ₚ all_leaves ts ++ slot_batches o.
Proof.
  intros <- Hstep. destruct o as [i m|i ds]; cbn in Hstep.
  - rewrite list_lookup_fmap in Hstep. destruct (ts !! i) as [ti|] eqn:Ei; [|discriminate].
    cbn in Hstep. injection Hstep as <-.
    exists (<[i := Node ti (Leaf m)]> ts). split; [by rewrite list_fmap_insert|].
    by apply (all_leaves_insert _ _ ti).
  - rewrite list_lookup_fmap in Hstep. destruct (ts !! i) as [ti|] eqn:Ei; [|discriminate].
    cbn in Hstep. injection Hstep as <-.
    exists (<[i := recv_chain ti ds]> ts). split; [by rewrite list_fmap_insert, eval_recv_chain|].
    apply (all_leaves_insert _ _ ti); [exact Ei|apply leaves_recv_chain].
Qed.

Lemma slot_run_trees ops : ∀ ts s s',
  eval <$> ts = s → run slot_step s ops = Some s' →
  ∃ ts', eval <$> ts' = s' ∧ all_leaves ts' ≡ₚ all_leaves ts ++ concat (slot_batches <$> ops).
Proof.
  induction ops as [|o ops IH]; intros ts s s' Hts Hrun; cbn in Hrun.
  - injection Hrun as <-. exists ts. split; [exact Hts|]. cbn. by rewrite app_nil_r.
  - destruct (slot_step s o) as [s1|] eqn:Es; [|discriminate].
    destruct (slot_step_trees _ _ _ _ Hts Es) as (ts1 & Hts1 & Hl1).
    destruct (IH _ _ _ Hts1 Hrun) as (ts' & Hts' & Hl').
    exists ts'. split; [exact Hts'|]. rewrite Hl', Hl1; cbn. by rewrite <- app_assoc.
Qed.

Lemma eval_fold_node ts t0 : eval (fold_left Node ts t0) = fold_left merge (eval <$> ts) (eval t0).
Proof. revert t0; induction ts as [|t ts IH]; intros t0; cbn; [reflexivity|]. by rewrite IH. Qed.
Lemma leaves_fold_node ts t0 : leaves (fold_left Node ts t0) = leaves t0 ++ all_leaves ts.
Proof.
  unfold all_leaves. revert t0; induction ts as [|t ts IH]; intros t0; cbn; [by rewrite app_nil_r|].
  rewrite IH; cbn. by rewrite <- app_assoc.
Qed.

(* MergeMaps is the left-nested tree over a fresh empty map *)
Definition merge_maps_tree (ms : list mmap) : mtree := fold_left Node (Leaf <$> ms) (Leaf empty_map).
Lemma eval_leaf_list (ms : list mmap) : eval <$> (Leaf <$> ms) = ms.
Proof. induction ms as [|m ms IH]; cbn; [done|by rewrite IH]. Qed.
Lemma all_leaves_leaf_list (ms : list mmap) : all_leaves (Leaf <$> ms) = ms.
Proof. unfold all_leaves. induction ms as [|m ms IH]; cbn; [done|by rewrite IH]. Qed.
Lemma merge_maps_is_tree ms :
  eval (merge_maps_tree ms) = merge_maps ms ∧ leaves (merge_maps_tree ms) = empty_map :: ms.
Proof.
  unfold merge_maps_tree. rewrite eval_fold_node, leaves_fold_node, eval_leaf_list, all_leaves_leaf_list.
  split; reflexivity.
Qed.

Lemma init_trees n : eval <$> replicate n (Leaf empty_map) = slots_init n
  ∧ all_leaves (replicate n (Leaf empty_map)) = replicate n empty_map.
Proof.
  unfold slots_init, all_leaves. induction n as [|n [IH1 IH2]]; cbn; [done|]. by rewrite IH1, IH2.
Qed.

Lemma slots_tree n ops slots drained :
  run slot_step (slots_init n) ops = Some slots → drained ≡ₚ slots →
  ∃ t, eval t = merge_maps drained
     ∧ leaves t ≡ₚ replicate (S n) empty_map ++ concat (slot_batches <$> ops).
Proof.
  intros Hrun HP. destruct (init_trees n) as [Hi1 Hi2].
  destruct (slot_run_trees _ _ _ _ Hi1 Hrun) as (ts & Hts & Hl). rewrite Hi2 in Hl.
  rewrite <- Hts in HP. apply Permutation_map_inv in HP as (ts' & Hd & HP').
  exists (fold_left Node ts' (Leaf empty_map)). split.
  - rewrite eval_fold_node. unfold merge_maps. by rewrite Hd.
  - rewrite leaves_fold_node; cbn. apply perm_skip. rewrite <- Hl. unfold all_leaves. by rewrite HP'.
Qed.

(* what the forwarder sends after a flush is exactly the content of the batches received *)
Lemma cmap_sum_empties n xs : cmap_sum (abs <$> replicate n empty_map ++ xs) = cmap_sum (abs <$> xs).
Proof.
  induction n as [|n IH]; cbn; [reflexivity|].
  unfold cmap_sum in *; cbn. by rewrite IH, abs_empty, cmap_op_empty_l.
Qed.
Lemma slots_content n ops slots drained :
  run slot_step (slots_init n) ops = Some slots → drained ≡ₚ slots →
  abs (merge_maps drained) = cmap_sum (abs <$> concat (slot_batches <$> ops)).
Proof.
  intros Hrun HP. destruct (slots_tree _ _ _ _ Hrun HP) as (t & <- & Hl).
  rewrite abs_eval. rewrite (cmap_sum_perm _ (abs <$> (replicate (S n) empty_map ++ concat (slot_batches <$> ops)))) by (by rewrite Hl).
  apply cmap_sum_empties.
Qed.
