(* C02, metric half: the lexer model (Model/Lexer.v) on lines rendered from the documented
   grammar (Model/LexGrammar.v), rejection of lines lacking a mandatory part, well-formedness of
   whatever is accepted, and the specification of name normalisation. *)
From Coq Require Import Lia.
From GS Require Import Base.Bytes Model.Lexer Model.LexGrammar Proofs.Lexer.
Local Open Scope N_scope.

(* ---------------------------------------------------------------------------------------- *)
(* small list facts *)

Lemma not_in_cons_inv {A} (c b : A) l : ~ In c (b :: l) -> b <> c /\ ~ In c l.
Proof. intros H; split; [intros ->; apply H; left; reflexivity|intro; apply H; right; assumption]. Qed.

Lemma join_cons2 sep x y r : join sep (x :: y :: r) = x ++ sep :: join sep (y :: r).
Proof. reflexivity. Qed.

Lemma last_cons {A} (x : A) vs cur : last (x :: vs) cur = last vs x.
Proof.
  revert x cur; induction vs as [|y vs IH]; intros x cur; [reflexivity|].
  change (last (x :: y :: vs) cur) with (last (y :: vs) cur). rewrite !IH. reflexivity.
Qed.

Definition pipe_or_end (k : str) : Prop := k = [] \/ exists k', k = c_pipe :: k'.

Lemma render_attrs_poe l : pipe_or_end (render_attrs l).
Proof. destruct l; [left|right; eexists]; reflexivity. Qed.

(* ---------------------------------------------------------------------------------------- *)
(* normalisation *)

Lemma norm_byte_spec b :
  norm_spec_byte b = match norm_byte b with Some b' => [b'] | None => [] end.
Proof.
  unfold norm_spec_byte, norm_byte, allowed_byte.
  destruct (b =? c_slash); [reflexivity|].
  destruct ((b =? c_space) || (b =? c_tab)); [reflexivity|].
  destruct (b =? c_dot), (b =? c_dash), (b =? c_us), (is_alnum b); reflexivity.
Qed.

(* normalise = per-byte map-and-filter *)
Lemma normalise_flat_map l : normalise l = flat_map norm_spec_byte l.
Proof.
  induction l as [|b l IH]; [reflexivity|].
  cbn [normalise flat_map]. rewrite norm_byte_spec, <- IH. destruct (norm_byte b); reflexivity.
Qed.

Lemma norm_byte_allowed b b' : norm_byte b = Some b' -> allowed_byte b' = true.
Proof.
  unfold norm_byte, allowed_byte.
  destruct (b =? c_slash); [intros [= <-]; reflexivity|].
  destruct ((b =? c_space) || (b =? c_tab)); [intros [= <-]; reflexivity|].
  destruct (b =? c_dot) eqn:E1; [intros [= <-]; rewrite E1, ?orb_true_r; reflexivity|].
  destruct (b =? c_dash) eqn:E2; [intros [= <-]; rewrite E2, ?orb_true_r; reflexivity|].
  destruct (b =? c_us) eqn:E3; [intros [= <-]; rewrite E3, ?orb_true_r; reflexivity|].
  cbn [orb]. destruct (is_alnum b) eqn:Ea; [intros [= <-]; rewrite Ea; reflexivity|discriminate].
Qed.

Lemma normalise_allowed l : Forall (fun b => allowed_byte b = true) (normalise l).
Proof.
  induction l as [|b l IH]; cbn [normalise]; [constructor|].
  destruct (norm_byte b) eqn:E; [constructor; [eapply norm_byte_allowed; eassumption|assumption]|assumption].
Qed.

Lemma allowed_norm_byte b : allowed_byte b = true -> norm_byte b = Some b.
Proof.
  intros H. unfold norm_byte.
  destruct (N.eqb_spec b c_slash) as [->|_]; [discriminate H|].
  destruct (N.eqb_spec b c_space) as [->|_]; [discriminate H|].
  destruct (N.eqb_spec b c_tab) as [->|_]; [discriminate H|].
  cbn [orb]. unfold allowed_byte in H.
  destruct (b =? c_dot); [reflexivity|]. destruct (b =? c_dash); [reflexivity|].
  destruct (b =? c_us); [reflexivity|]. cbn [orb].
  rewrite !orb_false_r in H. rewrite H. reflexivity.
Qed.

Lemma normalise_fixed l : Forall (fun b => allowed_byte b = true) l -> normalise l = l.
Proof.
  induction 1 as [|b l Hb _ IH]; [reflexivity|].
  cbn [normalise]. rewrite (allowed_norm_byte b Hb), IH. reflexivity.
Qed.

Lemma normalise_idem l : normalise (normalise l) = normalise l.
Proof. apply normalise_fixed, normalise_allowed. Qed.

(* the whole specification in one statement *)
Lemma normalise_spec :
  (forall l, normalise l = flat_map norm_spec_byte l) /\
  (forall l, Forall (fun b => allowed_byte b = true) (normalise l)) /\
  (forall l, Forall (fun b => allowed_byte b = true) l -> normalise l = l) /\
  (forall l, normalise (normalise l) = normalise l) /\
  (forall a b, normalise (a ++ b) = normalise a ++ normalise b).
Proof.
  repeat split; [apply normalise_flat_map|apply normalise_allowed|apply normalise_fixed
                 |apply normalise_idem|apply normalise_app].
Qed.

(* ---------------------------------------------------------------------------------------- *)
(* key, value, type *)

Lemma lex_key_sep_spec raw r : ~ In c_colon raw -> ~ In c_nul raw ->
  lex_key_sep (raw ++ c_colon :: r) = Ok (normalise raw, r).
Proof.
  induction raw as [|b raw IH]; intros Hc Hn; cbn [app lex_key_sep normalise].
  - rewrite N.eqb_refl. reflexivity.
  - apply not_in_cons_inv in Hc as [Hc1 Hc]. apply not_in_cons_inv in Hn as [Hn1 Hn].
    destruct (N.eqb_spec b c_colon) as [?|_]; [contradiction|].
    destruct (N.eqb_spec b c_nul) as [?|_]; [contradiction|].
    rewrite (IH Hc Hn). destruct (norm_byte b); reflexivity.
Qed.

(* inversion: whatever lex_key_sep accepts is "raw:rest" with a colon- and NUL-free raw *)
Lemma lex_key_sep_inv l k r : lex_key_sep l = Ok (k, r) ->
  exists raw, l = raw ++ c_colon :: r /\ ~ In c_colon raw /\ ~ In c_nul raw /\ k = normalise raw.
Proof.
  revert k; induction l as [|b l IH]; intros k; cbn [lex_key_sep]; [discriminate|].
  destruct (N.eqb_spec b c_colon) as [->|Hc].
  - intros [= <- <-]. exists []. repeat split; auto.
  - destruct (N.eqb_spec b c_nul) as [->|Hn]; [discriminate|].
    destruct (lex_key_sep l) as [[k' r']| |]; [|discriminate..].
    intros [= <- <-]. destruct (IH k' eq_refl) as (raw & -> & H1 & H2 & ->).
    exists (b :: raw). cbn [app normalise In]. repeat split; auto.
    + intros [?|?]; [congruence|contradiction].
    + intros [?|?]; [congruence|contradiction].
Qed.

Lemma lex_key_sep_no_pan l : lex_key_sep l <> Pan.
Proof.
  induction l as [|b l IH]; cbn [lex_key_sep]; [discriminate|].
  destruct (b =? c_colon); [discriminate|]. destruct (b =? c_nul); [discriminate|].
  destruct (lex_key_sep l) as [[? ?]| |]; [discriminate|discriminate|contradiction].
Qed.

Lemma lex_key_sep_nocolon l : ~ In c_colon l -> lex_key_sep l = Rej EMissingKeySep.
Proof.
  induction l as [|b l IH]; intros H; cbn [lex_key_sep]; [reflexivity|].
  apply not_in_cons_inv in H as [H1 H].
  destruct (N.eqb_spec b c_colon); [contradiction|].
  destruct (b =? c_nul); [reflexivity|]. rewrite (IH H). reflexivity.
Qed.

Lemma lex_value_sep_spec val r : ~ In c_pipe val -> ~ In c_nul val ->
  lex_value_sep (val ++ c_pipe :: r) = Ok (val, r).
Proof.
  induction val as [|b val IH]; intros Hc Hn; cbn [app lex_value_sep].
  - rewrite N.eqb_refl. reflexivity.
  - apply not_in_cons_inv in Hc as [Hc1 Hc]. apply not_in_cons_inv in Hn as [Hn1 Hn].
    destruct (N.eqb_spec b c_pipe) as [?|_]; [contradiction|].
    destruct (N.eqb_spec b c_nul) as [?|_]; [contradiction|].
    rewrite (IH Hc Hn). reflexivity.
Qed.

Lemma lex_value_sep_nopipe l : ~ In c_pipe l -> lex_value_sep l = Rej EMissingValueSep.
Proof.
  induction l as [|b l IH]; intros H; cbn [lex_value_sep]; [reflexivity|].
  apply not_in_cons_inv in H as [H1 H].
  destruct (N.eqb_spec b c_pipe); [contradiction|].
  destruct (b =? c_nul); [reflexivity|]. rewrite (IH H). reflexivity.
Qed.

Lemma lex_value_sep_no_pan l : lex_value_sep l <> Pan.
Proof.
  induction l as [|b l IH]; cbn [lex_value_sep]; [discriminate|].
  destruct (b =? c_pipe); [discriminate|]. destruct (b =? c_nul); [discriminate|].
  destruct (lex_value_sep l) as [[? ?]| |]; [discriminate|discriminate|contradiction].
Qed.

Lemma lex_type_spec ty r : lex_type (tytok_str ty ++ r) = Ok (tytok_type ty, r).
Proof. destruct ty; reflexivity. Qed.

(* ---------------------------------------------------------------------------------------- *)
(* attributes *)

Lemma add_tag_rev x tags : add_tag (rev x) tags = if nonempty x then x :: tags else tags.
Proof.
  destruct x as [|b x]; [reflexivity|]. cbn [nonempty]. unfold add_tag.
  destruct (rev (b :: x)) eqn:E.
  - apply (f_equal (@length _)) in E. rewrite rev_length in E. discriminate.
  - rewrite <- E, rev_involutive. reflexivity.
Qed.

Section WithOracle.
  Variable pf : str -> pfres.

  Lemma mattrs_other s k rate tags : ~ In c_pipe s -> pipe_or_end k ->
    lex_mattrs pf MOther rate tags (s ++ k) = lex_mattrs pf MAttrs rate tags k.
  Proof.
    intros Hs Hk. induction s as [|b s IH]; cbn [app].
    - destruct Hk as [->|[k' ->]]; reflexivity.
    - apply not_in_cons_inv in Hs as [Hb Hs]. cbn [lex_mattrs].
      destruct (N.eqb_spec b c_pipe); [contradiction|]. apply IH, Hs.
  Qed.

  Lemma mattrs_rate s k acc rate tags : ~ In c_pipe s -> pipe_or_end k ->
    lex_mattrs pf (MRate acc) rate tags (s ++ k) =
    match parse_rate pf (rev acc ++ s) with
    | Ok v => lex_mattrs pf MAttrs v tags k | Rej e => Rej e | Pan => Pan
    end.
  Proof.
    intros Hs Hk. revert acc. induction s as [|b s IH]; intros acc; cbn [app].
    - rewrite app_nil_r. destruct Hk as [->|[k' ->]]; cbn [lex_mattrs].
      + destruct (parse_rate pf (rev acc)); reflexivity.
      + change (c_pipe =? c_pipe) with true. cbv iota.
        destruct (parse_rate pf (rev acc)); reflexivity.
    - apply not_in_cons_inv in Hs as [Hb Hs]. cbn [lex_mattrs].
      destruct (N.eqb_spec b c_pipe); [contradiction|].
      rewrite (IH Hs). cbn [rev]. rewrite <- app_assoc. reflexivity.
  Qed.

  Lemma mattrs_tag t cur rate tags k : wf_tag t ->
    lex_mattrs pf (MTags cur) rate tags (t ++ k) = lex_mattrs pf (MTags (rev t ++ cur)) rate tags k.
  Proof.
    intros (H1 & H2 & H3). revert cur. induction t as [|b t IH]; intros cur; [reflexivity|].
    apply not_in_cons_inv in H1 as [B1 H1]. apply not_in_cons_inv in H2 as [B2 H2].
    apply not_in_cons_inv in H3 as [B3 H3]. cbn [app lex_mattrs].
    destruct (N.eqb_spec b c_comma); [contradiction|].
    destruct (N.eqb_spec b c_pipe); [contradiction|].
    destruct (N.eqb_spec b c_nul); [contradiction|].
    rewrite (IH H1 H2 H3). cbn [rev]. rewrite <- app_assoc. reflexivity.
  Qed.

  Lemma mattrs_tags_end cur k rate tags : pipe_or_end k ->
    lex_mattrs pf (MTags cur) rate tags k = lex_mattrs pf MAttrs rate (add_tag cur tags) k.
  Proof. intros [->|[k' ->]]; reflexivity. Qed.

  Lemma mattrs_tags ts : Forall wf_tag ts -> forall k rate tags, pipe_or_end k ->
    lex_mattrs pf (MTags []) rate tags (join c_comma ts ++ k) =
    lex_mattrs pf MAttrs rate (rev (filter nonempty ts) ++ tags) k.
  Proof.
    induction 1 as [|x ts Hx Hts IH]; intros k rate tags Hk.
    - cbn [join filter rev app]. apply (mattrs_tags_end [] k rate tags Hk).
    - destruct ts as [|y ts].
      + cbn [join filter]. rewrite (mattrs_tag x [] rate tags k Hx), app_nil_r.
        rewrite (mattrs_tags_end _ k rate tags Hk), add_tag_rev.
        destruct (nonempty x); reflexivity.
      + rewrite join_cons2, <- app_assoc. cbn [app].
        rewrite (mattrs_tag x [] rate tags _ Hx), app_nil_r. cbn [lex_mattrs].
        change (c_comma =? c_comma) with true. cbv iota.
        rewrite (IH k rate _ Hk), add_tag_rev.
        change (filter nonempty (x :: y :: ts)) with
          (if nonempty x then x :: filter nonempty (y :: ts) else filter nonempty (y :: ts)).
        destruct (nonempty x); [|reflexivity].
        cbn [rev]. rewrite <- app_assoc. reflexivity.
  Qed.

  (* the attribute loop on a rendered attribute list, accumulators generalised *)
  Lemma mattrs_render attrs : Forall wf_attr attrs -> forall rate tags,
    lex_mattrs pf MAttrs rate tags (render_attrs attrs) =
    match attrs_rate pf rate attrs with
    | RateOk v => Ok (v, rev (attrs_tags attrs) ++ tags)
    | RateBad e => Rej e
    end.
  Proof.
    induction 1 as [|a attrs Ha _ IH]; intros rate tags; [reflexivity|].
    cbn [render_attrs].
    change (lex_mattrs pf MAttrs rate tags (c_pipe :: render_attr a ++ render_attrs attrs))
      with (lex_mattrs pf MAttr rate tags (render_attr a ++ render_attrs attrs)).
    pose proof (render_attrs_poe attrs) as Hk.
    destruct a as [s|ts|s]; cbn [render_attr wf_attr attrs_rate attrs_tags app] in *.
    - change (lex_mattrs pf MAttr rate tags (c_at :: s ++ render_attrs attrs))
        with (lex_mattrs pf (MRate []) rate tags (s ++ render_attrs attrs)).
      rewrite (mattrs_rate s _ [] rate tags Ha Hk). cbn [rev app]. unfold parse_rate.
      destruct (pf s); [reflexivity|apply IH|reflexivity].
    - change (lex_mattrs pf MAttr rate tags (c_hash :: join c_comma ts ++ render_attrs attrs))
        with (lex_mattrs pf (MTags []) rate tags (join c_comma ts ++ render_attrs attrs)).
      rewrite (mattrs_tags ts Ha _ rate tags Hk), IH.
      destruct (attrs_rate pf rate attrs); [|reflexivity].
      rewrite rev_app_distr, app_assoc. reflexivity.
    - destruct Ha as (Hp & b & r & -> & Hat & Hh). apply not_in_cons_inv in Hp as [_ Hp].
      cbn [app lex_mattrs].
      destruct (N.eqb_spec b c_at); [contradiction|]. destruct (N.eqb_spec b c_hash); [contradiction|].
      rewrite (mattrs_other r _ rate tags Hp Hk). apply IH.
  Qed.

  (* an empty field makes the lexer skip the field that follows it, whatever that is *)
  Lemma swallow f k rate tags : ~ In c_pipe f -> pipe_or_end k ->
    lex_mattrs pf MAttrs rate tags (c_pipe :: c_pipe :: f ++ k) = lex_mattrs pf MAttrs rate tags k.
  Proof.
    intros Hf Hk.
    change (lex_mattrs pf MAttrs rate tags (c_pipe :: c_pipe :: f ++ k))
      with (lex_mattrs pf MOther rate tags (f ++ k)).
    apply mattrs_other; assumption.
  Qed.

  (* ------------------------------------------------------------------------------------ *)
  (* the metric grammar theorem *)

  Lemma lex_metric_dispatch ns raw rest : wf_raw_name raw ->
    lex pf ns (raw ++ c_colon :: rest) = lex_metric pf ns (raw ++ c_colon :: rest).
  Proof.
    intros (Hc & Hn & Hu). destruct raw as [|b raw]; [reflexivity|].
    apply not_in_cons_inv in Hn as [Hn _].
    unfold lex, lex_gen. cbn [app].
    destruct (N.eqb_spec b c_us) as [->|_]; [exfalso; eapply Hu; reflexivity|].
    destruct (N.eqb_spec b c_nul); [contradiction|]. reflexivity.
  Qed.

  Theorem grammar_metric ns raw val ty attrs :
    wf_raw_name raw -> wf_value val -> Forall wf_attr attrs ->
    lex pf ns (render_metric raw val ty attrs) = expected_metric pf ns raw val ty attrs.
  Proof.
    intros Hraw [Hv1 Hv2] Hattrs. unfold render_metric.
    rewrite (lex_metric_dispatch ns raw _ Hraw). destruct Hraw as (Hc & Hn & _).
    unfold lex_metric, expected_metric. rewrite (lex_key_sep_spec raw _ Hc Hn).
    destruct (normalise raw) as [|kb key]; [reflexivity|].
    rewrite (lex_value_sep_spec val _ Hv1 Hv2), lex_type_spec, (mattrs_render attrs Hattrs).
    destruct (attrs_rate pf f64_one attrs); [|reflexivity].
    rewrite app_nil_r, rev_involutive. reflexivity.
  Qed.

  (* the sample rate in words: every '@' string converts and the LAST one is the rate *)
  Lemma attrs_rate_spec attrs : forall cur v,
    attrs_rate pf cur attrs = RateOk v <->
    exists vs, Forall2 (fun s x => pf s = PFVal x) (rate_strings attrs) vs /\ v = last vs cur.
  Proof.
    induction attrs as [|a attrs IH]; intros cur v; cbn [attrs_rate rate_strings].
    - split; [intros [= <-]; exists []; split; [constructor|reflexivity]|].
      intros (vs & H & ->). inversion H. reflexivity.
    - destruct a as [s|ts|s]; [|apply IH..].
      split.
      + destruct (pf s) as [|x|] eqn:E; [discriminate| |discriminate].
        intros H. apply IH in H as (vs & H & ->). exists (x :: vs). split; [constructor; assumption|].
        symmetry; apply last_cons.
      + intros (vs & H & ->). inversion H as [|s' x ss vs' Hx Hrest]; subst. rewrite Hx.
        apply IH. exists vs'. split; [assumption|]. apply last_cons.
  Qed.

  Lemma attrs_rate_bad attrs s : In (ARate s) attrs -> (forall x, pf s <> PFVal x) ->
    forall cur, exists e, attrs_rate pf cur attrs = RateBad e.
  Proof.
    intros Hin Hs. induction attrs as [|a attrs IH]; [contradiction|].
    intros cur. destruct Hin as [->|Hin]; cbn [attrs_rate].
    - destruct (pf s) as [|x|] eqn:E; [eexists; reflexivity| |eexists; reflexivity].
      exfalso. eapply Hs. reflexivity.
    - destruct a as [s'|ts|s']; [|apply IH, Hin..].
      destruct (pf s'); [eexists; reflexivity|apply IH, Hin|eexists; reflexivity].
  Qed.

  (* finish_metric, inverted *)
  Lemma finish_metric_inv name ty val rate tags m :
    finish_metric pf name ty val rate tags = OMetric m ->
    f64_finite_pos rate = true /\
    m_name m = name /\ m_type m = ty /\ m_rate m = rate /\ m_tags m = tags /\
    ((ty = MSet /\ m_strval m = val /\ m_value m = 0%Z) \/
     (ty <> MSet /\ m_strval m = [] /\ pf val = PFVal (m_value m) /\ f64_is_nan (m_value m) = false)).
  Proof.
    unfold finish_metric. destruct (f64_finite_pos rate); cbn [negb]; [|discriminate].
    destruct ty.
    1-3: destruct (pf val) as [|v|]; [discriminate| |discriminate];
         destruct (f64_is_nan v) eqn:En; [discriminate|]; intros [= <-]; cbn;
         repeat split; right; repeat split; [discriminate|assumption].
    intros [= <-]; cbn. repeat split. left. repeat split.
  Qed.

  Lemma finish_metric_ok name ty val rate tags :
    f64_finite_pos rate = true ->
    (ty = MSet \/ exists v, pf val = PFVal v /\ f64_is_nan v = false) ->
    exists m, finish_metric pf name ty val rate tags = OMetric m.
  Proof.
    intros Hr H. unfold finish_metric. rewrite Hr. cbn [negb].
    destruct H as [->|(v & Hv & Hn)]; [eexists; reflexivity|].
    destruct ty; [rewrite Hv, Hn; eexists; reflexivity..|eexists; reflexivity].
  Qed.

  (* The grammar theorem with every definition unfolded: acceptance condition and fields. *)
  Theorem grammar_metric_fields ns raw val ty attrs m :
    wf_raw_name raw -> wf_value val -> Forall wf_attr attrs ->
    (lex pf ns (render_metric raw val ty attrs) = OMetric m <->
     normalise raw <> [] /\
     (exists vs, Forall2 (fun s x => pf s = PFVal x) (rate_strings attrs) vs /\
                 m_rate m = last vs f64_one) /\
     f64_finite_pos (m_rate m) = true /\
     m_name m = with_ns ns (normalise raw) /\
     m_type m = tytok_type ty /\
     m_tags m = attrs_tags attrs /\
     ((ty = TokS /\ m_strval m = val /\ m_value m = 0%Z) \/
      (ty <> TokS /\ m_strval m = [] /\ pf val = PFVal (m_value m) /\ f64_is_nan (m_value m) = false))).
  Proof.
    intros Hraw Hval Hattrs. rewrite (grammar_metric ns raw val ty attrs Hraw Hval Hattrs).
    unfold expected_metric. split.
    - destruct (normalise raw) as [|kb key] eqn:Ek; [discriminate|].
      destruct (attrs_rate pf f64_one attrs) as [rate|e] eqn:Er; [|discriminate].
      intros H. apply finish_metric_inv in H as (Hfp & Hn & Ht & Hrt & Htg & Hv).
      apply attrs_rate_spec in Er. rewrite <- Hrt in Er, Hfp.
      repeat split; try assumption; [discriminate|].
      destruct Hv as [(Hs & ? & ?)|(Hs & ? & ? & ?)]; [left|right]; repeat split; try assumption.
      + destruct ty; try discriminate; reflexivity.
      + intros ->. apply Hs. reflexivity.
    - intros (Hk & Hr & Hfp & Hn & Ht & Htg & Hv).
      destruct (normalise raw) as [|kb key] eqn:Ek; [contradiction|].
      apply attrs_rate_spec in Hr. rewrite Hr.
      destruct m as [mn mt mv ms mr mtags]. cbn [m_name m_type m_value m_strval m_rate m_tags] in *.
      subst mn mt mtags. unfold finish_metric. rewrite Hfp. cbn [negb].
      destruct Hv as [(-> & -> & ->)|(Hs & -> & Hpv & Hnan)]; [reflexivity|].
      rewrite Hpv, Hnan. destruct ty; try reflexivity. contradiction.
  Qed.

  (* ------------------------------------------------------------------------------------ *)
  (* rejection *)

  Definition rejected (o : outcome) : Prop := exists e, o = OReject e.

  Lemma lex_metric_nocolon ns l : ~ In c_colon l -> rejected (lex_metric pf ns l).
  Proof. intros H. unfold lex_metric. rewrite (lex_key_sep_nocolon l H). eexists; reflexivity. Qed.

  (* after the key there is no '|' *)
  Lemma lex_metric_nopipe ns l : (forall k r, lex_key_sep l = Ok (k, r) -> ~ In c_pipe r) ->
    rejected (lex_metric pf ns l).
  Proof.
    intros H. unfold lex_metric.
    destruct (lex_key_sep l) as [[k r]| |] eqn:E; [|eexists; reflexivity|destruct (lex_key_sep_no_pan l E)].
    destruct k; [eexists; reflexivity|].
    rewrite (lex_value_sep_nopipe r (H _ _ eq_refl)). eexists; reflexivity.
  Qed.

  Lemma reject_no_value_sep ns raw rest :
    ~ In c_colon raw -> (forall r, raw <> c_us :: r) -> ~ In c_pipe rest ->
    rejected (lex pf ns (raw ++ c_colon :: rest)).
  Proof.
    intros Hc Hu Hp.
    assert (Hm : rejected (lex_metric pf ns (raw ++ c_colon :: rest))).
    { apply lex_metric_nopipe. intros k r E.
      apply lex_key_sep_inv in E as (raw' & E & Hc' & _ & _).
      assert (raw' = raw /\ r = rest) as [_ ->]; [|assumption].
      clear -E Hc Hc'. revert raw' E Hc'. induction raw as [|b raw IH]; intros [|b' raw'] E Hc'; cbn [app] in E.
      - injection E as <-. split; reflexivity.
      - injection E as <- _. exfalso. apply Hc'. left; reflexivity.
      - injection E as -> _. exfalso. apply Hc. left; reflexivity.
      - injection E as -> E. apply not_in_cons_inv in Hc as [_ Hc]. apply not_in_cons_inv in Hc' as [_ Hc'].
        destruct (IH Hc raw' E Hc') as [-> ->]. split; reflexivity. }
    destruct raw as [|b raw]; [exact Hm|].
    unfold lex, lex_gen. cbn [app] in *.
    destruct (N.eqb_spec b c_us) as [->|_]; [exfalso; eapply Hu; reflexivity|].
    destruct (b =? c_nul); [eexists; reflexivity|exact Hm].
  Qed.

  (* a type token that is none of c g ms h s *)
  Lemma reject_bad_type ns raw val tok k :
    wf_raw_name raw -> wf_value val ->
    ~ In c_pipe tok -> ~ In c_nul tok -> pipe_or_end k ->
    (forall ty, tok <> tytok_str ty) ->
    rejected (lex pf ns (raw ++ c_colon :: val ++ c_pipe :: tok ++ k)).
  Proof.
    intros Hraw [Hv1 Hv2] Hp Hn Hk Hty.
    rewrite (lex_metric_dispatch ns raw _ Hraw). destruct Hraw as (Hc & Hn' & _).
    unfold lex_metric. rewrite (lex_key_sep_spec raw _ Hc Hn').
    destruct (normalise raw) as [|kb key]; [eexists; reflexivity|].
    rewrite (lex_value_sep_spec val _ Hv1 Hv2).
    assert (Hbad : forall b t, ~ In c_pipe (b :: t) -> ~ In c_nul (b :: t) -> forall rate tags,
              lex_mattrs pf MAttrs rate tags ((b :: t) ++ k) = Rej EInvalidType).
    { intros b t Hb1 Hb2 rate tags. apply not_in_cons_inv in Hb1 as [Hb1 _].
      apply not_in_cons_inv in Hb2 as [Hb2 _]. cbn [app lex_mattrs].
      destruct (N.eqb_spec b c_pipe); [contradiction|]. destruct (N.eqb_spec b c_nul); [contradiction|].
      reflexivity. }
    assert (Hone : forall c t, tok = c :: t -> (exists ty, tytok_str ty = [c]) -> t <> []).
    { intros c t -> [ty E] ->. apply (Hty ty). symmetry; exact E. }
    destruct tok as [|b t].
    - cbn [app]. destruct Hk as [->|[k' ->]]; eexists; reflexivity.
    - apply not_in_cons_inv in Hp as [Hp1 Hp]. apply not_in_cons_inv in Hn as [Hn1 Hn].
      cbn [app lex_type].
      destruct (N.eqb_spec b c_c) as [->|_].
      { destruct t as [|b2 t2]; [destruct (Hone _ _ eq_refl (ex_intro _ TokC eq_refl) eq_refl)|].
        rewrite (Hbad b2 t2 Hp Hn). eexists; reflexivity. }
      destruct (N.eqb_spec b c_g) as [->|_].
      { destruct t as [|b2 t2]; [destruct (Hone _ _ eq_refl (ex_intro _ TokG eq_refl) eq_refl)|].
        rewrite (Hbad b2 t2 Hp Hn). eexists; reflexivity. }
      destruct (N.eqb_spec b c_m) as [->|_].
      { destruct t as [|b2 t2]; cbn [app].
        - destruct Hk as [->|[k' ->]]; eexists; reflexivity.
        - destruct (N.eqb_spec b2 c_s) as [->|_]; [|eexists; reflexivity].
          destruct t2 as [|b3 t3]; [destruct (Hty TokMs eq_refl)|].
          apply not_in_cons_inv in Hp as [_ Hp]. apply not_in_cons_inv in Hn as [_ Hn].
          rewrite (Hbad b3 t3 Hp Hn). eexists; reflexivity. }
      destruct (N.eqb_spec b c_h) as [->|_].
      { destruct t as [|b2 t2]; [destruct (Hone _ _ eq_refl (ex_intro _ TokH eq_refl) eq_refl)|].
        rewrite (Hbad b2 t2 Hp Hn). eexists; reflexivity. }
      destruct (N.eqb_spec b c_s) as [->|_].
      { destruct t as [|b2 t2]; [destruct (Hone _ _ eq_refl (ex_intro _ TokS eq_refl) eq_refl)|].
        rewrite (Hbad b2 t2 Hp Hn). eexists; reflexivity. }
      eexists; reflexivity.
  Qed.

  (* an '@' field that does not convert (anywhere in the attribute list) *)
  Lemma reject_bad_rate ns raw val ty attrs s :
    wf_raw_name raw -> wf_value val -> Forall wf_attr attrs ->
    In (ARate s) attrs -> (forall x, pf s <> PFVal x) ->
    rejected (lex pf ns (render_metric raw val ty attrs)).
  Proof.
    intros Hraw Hval Hattrs Hin Hs. rewrite (grammar_metric ns raw val ty attrs Hraw Hval Hattrs).
    unfold expected_metric. destruct (normalise raw); [eexists; reflexivity|].
    destruct (attrs_rate_bad attrs s Hin Hs f64_one) as [e ->]. eexists; reflexivity.
  Qed.

  Lemma finish_rejected name ty val rate tags :
    f64_finite_pos rate = false \/
    (ty <> MSet /\ ((forall x, pf val <> PFVal x) \/ exists x, pf val = PFVal x /\ f64_is_nan x = true)) ->
    rejected (finish_metric pf name ty val rate tags).
  Proof.
    unfold finish_metric. intros [->|(Hty & H)]; [eexists; reflexivity|].
    destruct (f64_finite_pos rate); cbn [negb]; [|eexists; reflexivity].
    destruct ty; try contradiction;
      (destruct H as [H|(x & -> & ->)]; [|eexists; reflexivity];
       destruct (pf val) as [|x|] eqn:E; [eexists; reflexivity|destruct (H x eq_refl)|eexists; reflexivity]).
  Qed.

  (* a value that does not convert, or converts to NaN, for a type other than set *)
  Lemma reject_bad_value ns raw val ty attrs :
    wf_raw_name raw -> wf_value val -> Forall wf_attr attrs -> ty <> TokS ->
    ((forall x, pf val <> PFVal x) \/ exists x, pf val = PFVal x /\ f64_is_nan x = true) ->
    rejected (lex pf ns (render_metric raw val ty attrs)).
  Proof.
    intros Hraw Hval Hattrs Hty Hv. rewrite (grammar_metric ns raw val ty attrs Hraw Hval Hattrs).
    unfold expected_metric. destruct (normalise raw); [eexists; reflexivity|].
    destruct (attrs_rate pf f64_one attrs); [|eexists; reflexivity].
    apply finish_rejected. right. split; [|exact Hv]. destruct ty; try discriminate. contradiction.
  Qed.

  (* the (last) sample rate is not a finite number > 0 (defect D2, repaired) *)
  Lemma reject_bad_rate_value ns raw val ty attrs rate :
    wf_raw_name raw -> wf_value val -> Forall wf_attr attrs ->
    attrs_rate pf f64_one attrs = RateOk rate -> f64_finite_pos rate = false ->
    rejected (lex pf ns (render_metric raw val ty attrs)).
  Proof.
    intros Hraw Hval Hattrs Hr Hfp. rewrite (grammar_metric ns raw val ty attrs Hraw Hval Hattrs).
    unfold expected_metric. destruct (normalise raw); [eexists; reflexivity|].
    rewrite Hr. apply finish_rejected. left; exact Hfp.
  Qed.

End WithOracle.
