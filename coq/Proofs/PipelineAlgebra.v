(* Algebra used by the pipeline invariants (C01): the content of a map read at one series,
   per operation of the pipeline (receive, split, merge, flush, reset), which series a map holds
   after each operation, and sums over lists with one element replaced.

   Built on Proofs/MetricMapMerge.v (abs is a monoid homomorphism) and Proofs/MetricMapSplit.v
   (split is a partition by bucket); everything C01 needs from them is re-stated here at one key
   so that Proofs/Pipeline.v depends on this file only. *)
From stdpp Require Import gmap gmultiset.
From Coq Require Import QArith Qcanon Lia.
From GS Require Import Base.Bytes Model.Lexer Model.Series Model.MetricMap Model.Content Model.Pipeline.
From GS Require Import Proofs.MetricMapMerge Proofs.MetricMapSplit.

Arguments Z.add : simpl never.
Arguments Z.max : simpl never.

(* ---------------------------------------------------------------------------------------- *)
(* content: equality by components, and an AC solver *)

Lemma content_eq (a b : content) :
  ctr a = ctr b → vals a = vals b → samp a = samp b → mem a = mem b → a = b.
Proof. destruct a, b; cbn; congruence. Qed.

Lemma ctr_op a b : ctr (a ⊕ b) = (ctr a + ctr b)%Z. Proof. reflexivity. Qed.
Lemma vals_op a b : vals (a ⊕ b) = vals a ⊎ vals b. Proof. reflexivity. Qed.
Lemma samp_op a b : samp (a ⊕ b) = (samp a + samp b)%Qc. Proof. reflexivity. Qed.
Lemma mem_op a b : mem (a ⊕ b) = mem a ∪ mem b. Proof. reflexivity. Qed.
Lemma ctr_unit : ctr content_unit = 0%Z. Proof. reflexivity. Qed.
Lemma vals_unit : vals content_unit = ∅. Proof. reflexivity. Qed.
Lemma samp_unit : samp content_unit = 0%Qc. Proof. reflexivity. Qed.
Lemma mem_unit : mem content_unit = ∅. Proof. reflexivity. Qed.

(* equalities between ⊕-expressions over opaque contents *)
Ltac content_ac :=
  apply content_eq;
  rewrite ?ctr_op, ?vals_op, ?samp_op, ?mem_op, ?ctr_unit, ?vals_unit, ?samp_unit, ?mem_unit;
  [lia | multiset_solver | ring | set_solver].

(* ---------------------------------------------------------------------------------------- *)
(* sums *)

Lemma csum_app l1 l2 : csum (l1 ++ l2) = csum l1 ⊕ csum l2.
Proof.
  unfold csum. induction l1 as [|x l IH]; cbn [app foldr]; [by rewrite content_unit_l|].
  by rewrite IH, content_op_assoc.
Qed.

Section total.
  Context {A : Type} (f : A → skey → content).

  Lemma total_nil k : total f [] k = content_unit.
  Proof. reflexivity. Qed.
  Lemma total_cons x l k : total f (x :: l) k = f x k ⊕ total f l k.
  Proof. reflexivity. Qed.
  Lemma total_app l1 l2 k : total f (l1 ++ l2) k = total f l1 k ⊕ total f l2 k.
  Proof. unfold total. by rewrite fmap_app, csum_app. Qed.
  Lemma total_snoc l x k : total f (l ++ [x]) k = total f l k ⊕ f x k.
  Proof. by rewrite total_app, total_cons, total_nil, content_unit_r. Qed.

  (* taking one element out *)
  Lemma total_delete l i x k : l !! i = Some x → total f l k = total f (delete i l) k ⊕ f x k.
  Proof.
    revert i; induction l as [|y l IH]; intros [|i] H; try discriminate.
    - injection H as ->. cbn [delete list_delete]. rewrite total_cons. apply content_op_comm.
    - cbn [delete list_delete]. rewrite !total_cons, (IH i H). apply content_op_assoc.
  Qed.
  (* replacing one element *)
  Lemma total_insert l i x y k :
    l !! i = Some x → total f (<[i := y]> l) k = total f (delete i l) k ⊕ f y k.
  Proof.
    revert i; induction l as [|z l IH]; intros [|i] H; try discriminate.
    - change (<[0%nat := y]> (z :: l)) with (y :: l). cbn [delete list_delete].
      rewrite total_cons. apply content_op_comm.
    - change (<[S i := y]> (z :: l)) with (z :: <[i := y]> l). cbn [delete list_delete].
      rewrite !total_cons, (IH i H). apply content_op_assoc.
  Qed.

  (* dropping elements that contribute nothing *)
  Lemma total_filter (P : A → Prop) `{∀ x, Decision (P x)} l k :
    (∀ x, ¬ P x → f x k = content_unit) → total f (base.filter P l) k = total f l k.
  Proof.
    intros Hz. induction l as [|x l IH]; [reflexivity|].
    rewrite filter_cons. destruct (decide (P x)) as [Hp|Hp].
    - by rewrite !total_cons, IH.
    - by rewrite total_cons, IH, (Hz x Hp), content_unit_l.
  Qed.
End total.

Lemma total_fmap {A B} (g : A → B) (f : B → skey → content) l k :
  total f (g <$> l) k = total (λ x, f (g x)) l k.
Proof. unfold total. by rewrite <- list_fmap_compose. Qed.

Lemma total_concat (ls : list (list mmap)) k :
  total cnt (concat ls) k = total (λ q, total cnt q) ls k.
Proof.
  induction ls as [|q ls IH]; [reflexivity|].
  cbn [concat]. by rewrite total_app, total_cons, IH.
Qed.

(* ---------------------------------------------------------------------------------------- *)
(* reading a content map at a key *)

Lemma content_at_empty k : content_at ∅ k = content_unit.
Proof. unfold content_at. by rewrite lookup_empty. Qed.
Lemma content_at_op x y k : content_at (x ⊕ₘ y) k = content_at x k ⊕ content_at y k.
Proof.
  unfold content_at. rewrite cmap_op_lookup.
  destruct (x !! k), (y !! k); cbn; by rewrite ?content_unit_l, ?content_unit_r.
Qed.
Lemma content_at_sum l k : content_at (cmap_sum l) k = csum ((λ x, content_at x k) <$> l).
Proof.
  induction l as [|x l IH]; [apply content_at_empty|].
  change (cmap_sum (x :: l)) with (x ⊕ₘ cmap_sum l).
  rewrite content_at_op, IH. reflexivity.
Qed.

Lemma content_at_abs_dp d k : content_at (abs_dp d) k = dp_cnt d k.
Proof.
  unfold content_at, abs_dp, dp_cnt, content_of_dp.
  destruct (dp_type d); cbv iota; destruct (decide (dp_key d = k)) as [<-|Hne];
    rewrite ?lookup_singleton, ?lookup_singleton_ne, ?lookup_empty by done; reflexivity.
Qed.

(* ---------------------------------------------------------------------------------------- *)
(* content per operation *)

Lemma cnt_empty_map k : cnt empty_map k = content_unit.
Proof. unfold cnt. by rewrite abs_empty, content_at_empty. Qed.

Lemma cnt_merge a b k : cnt (merge a b) k = cnt a k ⊕ cnt b k.
Proof. unfold cnt. by rewrite abs_merge, content_at_op. Qed.

Lemma cnt_receive_all m ds k : cnt (receive_all m ds) k = cnt m k ⊕ total dp_cnt ds k.
Proof.
  unfold cnt, total. rewrite abs_receive_all, content_at_op, content_at_sum. f_equal.
  rewrite <- list_fmap_compose. f_equal. apply list_fmap_ext.
  intros i d _; cbn. apply content_at_abs_dp.
Qed.

(* Split is a partition: the shards together hold what the batch holds *)
Lemma cnt_split n m k : n ≠ 0%nat → total cnt (split n m) k = cnt m k.
Proof.
  intros Hn. unfold total, cnt at 2.
  rewrite <- (merge_maps_split n m Hn) at 2.
  rewrite abs_merge_maps, content_at_sum, <- list_fmap_compose. reflexivity.
Qed.

Lemma mm_is_empty_cnt m k : mm_is_empty m = true → cnt m k = content_unit.
Proof.
  unfold mm_is_empty. rewrite !andb_true_iff, !bool_decide_eq_true. intros [[[Hc Ht] Hg] Hs].
  unfold cnt, content_at. rewrite abs_lookup, Hc, Ht, Hs, !lookup_empty. reflexivity.
Qed.

Lemma nonempty_splits_snd_gen (g : nat → nat) (l : list mmap) :
  (λ x : nat * mmap, x.2) <$> base.filter (λ p : nat * mmap, mm_is_empty p.2 = false) (imap (λ i s, (g i, s)) l)
  = base.filter (λ s, mm_is_empty s = false) l.
Proof.
  revert g; induction l as [|x l IH]; intros g; [reflexivity|].
  rewrite imap_cons, !filter_cons. cbn [snd].
  change ((λ (i : nat) (s : mmap), (g i, s)) ∘ S) with (λ (i : nat) (s : mmap), ((g ∘ S) i, s)).
  destruct (decide (mm_is_empty x = false)); rewrite ?fmap_cons; by rewrite (IH (g ∘ S)).
Qed.

Lemma cnt_nonempty_splits n m k :
  n ≠ 0%nat → total cnt ((λ x, x.2) <$> nonempty_splits n m) k = cnt m k.
Proof.
  intros Hn. unfold nonempty_splits.
  rewrite (nonempty_splits_snd_gen (λ i, i)), total_filter; [by apply cnt_split|].
  intros x Hx. apply mm_is_empty_cnt. by destruct (mm_is_empty x).
Qed.

(* ---- well-formed timers: no sampled count without values.  Every map the pipeline builds
   satisfies it, and on such maps Flush leaves the reported content alone. *)
Definition wf (m : mmap) : Prop :=
  ∀ k t, timers m !! k = Some t → t_vals t = [] → t_samp t = 0%Qc.

Lemma flush_timer_wf t : (t_vals t = [] → t_samp t = 0%Qc) → flush_timer t = t.
Proof.
  destruct t as [vs sp ts src tg]; unfold flush_timer; cbn [t_vals t_samp t_ts t_src t_tags].
  destruct (has_histogram_tag tg); [done|]. destruct vs; [|done]. intros ->; done.
Qed.

Lemma agg_flush_wf m : wf m → agg_flush m = m.
Proof.
  intros Hw. unfold agg_flush. destruct m as [c t g s]; cbn in *. f_equal.
  apply map_eq; intros k. rewrite lookup_fmap.
  destruct (t !! k) as [x|] eqn:E; cbn; [|done]. f_equal. apply flush_timer_wf. by apply (Hw k).
Qed.

Lemma wf_empty : wf empty_map.
Proof. intros k t H; cbn in H. by rewrite lookup_empty in H. Qed.

Lemma wf_receive m d : wf m → wf (receive m d).
Proof.
  intros Hw k t. unfold receive. destruct (dp_type d); cbn [timers]; try apply Hw.
  destruct (decide (dp_key d = k)) as [<-|Hne].
  - rewrite lookup_insert. intros [= <-]. destruct (timers m !! dp_key d); cbn; [|done].
    intros Hv. by apply app_eq_nil in Hv as [_ ?].
  - rewrite lookup_insert_ne by done. apply Hw.
Qed.
Lemma wf_receive_all m ds : wf m → wf (receive_all m ds).
Proof. unfold receive_all. revert m; induction ds as [|d ds IH]; intros m Hw; cbn; [done|]. by apply IH, wf_receive. Qed.

Lemma wf_merge a b : wf a → wf b → wf (merge a b).
Proof.
  intros Ha Hb k t. rewrite timers_merge_lookup.
  destruct (timers a !! k) as [x|] eqn:Ea, (timers b !! k) as [y|] eqn:Eb; cbn; try done.
  - intros [= <-]; cbn. intros Hv. apply app_eq_nil in Hv as [Hx Hy].
    rewrite (Ha k x Ea Hx), (Hb k y Eb Hy). ring.
  - intros [= <-]. by apply (Ha k).
  - intros [= <-]. by apply (Hb k).
Qed.

Lemma split_timers_lookup n m i s k t :
  split n m !! i = Some s → timers s !! k = Some t → timers m !! k = Some t.
Proof.
  intros Hs Ht. pose proof (split_cells n m i s k Hs) as Hc. unfold cells, no_cells in Hc.
  destruct (bool_decide _); [|congruence]. congruence.
Qed.
Lemma wf_split n m i s : wf m → split n m !! i = Some s → wf s.
Proof. intros Hw Hs k t Ht. apply (Hw k). by eapply split_timers_lookup. Qed.

Lemma wf_reset c now m : wf (agg_reset c now m).
Proof.
  intros k t. unfold agg_reset; cbn [timers]. rewrite lookup_fmap.
  destruct (live _ _ _ _ !! k); cbn; [|done]. by intros [= <-].
Qed.

Lemma cnt_flush m k : wf m → cnt (agg_flush m) k = cnt m k.
Proof. intros Hw. by rewrite agg_flush_wf. Qed.

(* Reset leaves nothing behind (gauges are not content) *)
Lemma cnt_reset c now m k : cnt (agg_reset c now m) k = content_unit.
Proof.
  unfold cnt, content_at. rewrite abs_lookup. unfold agg_reset; cbn [counters timers sets].
  rewrite !lookup_fmap.
  destruct (live c_ts _ _ _ !! k), (live t_ts _ _ _ !! k), (live s_ts _ _ _ !! k); cbn;
    apply content_eq; cbn; first [lia | multiset_solver | ring | set_solver].
Qed.

(* ---------------------------------------------------------------------------------------- *)
(* which series a map holds, per operation *)

Lemma holdsb_holds m ty k : holdsb m ty k = true ↔ holds m ty k.
Proof. destruct ty; cbn; apply bool_decide_eq_true. Qed.

Lemma holds_empty ty k : ¬ holds empty_map ty k.
Proof. destruct ty; cbn; rewrite lookup_empty; by intros [? ?]. Qed.

Lemma holds_receive m d ty k : holds (receive m d) ty k → holds m ty k ∨ dp_of_series ty k d.
Proof.
  unfold dp_of_series, receive.
  destruct (dp_type d) eqn:Ed, ty; cbn; try (by left);
    (destruct (decide (dp_key d = k)) as [<-|Hne];
     [by right|rewrite lookup_insert_ne by done; by left]).
Qed.
Lemma holds_receive_all m ds ty k :
  holds (receive_all m ds) ty k → holds m ty k ∨ ∃ d, d ∈ ds ∧ dp_of_series ty k d.
Proof.
  unfold receive_all. revert m; induction ds as [|d ds IH]; intros m; cbn; [by left|].
  intros H. destruct (IH _ H) as [H'|(d' & Hin & Hd)].
  - destruct (holds_receive _ _ _ _ H') as [?|?]; [by left|]. right; exists d; split; [left|done].
  - right; exists d'; split; [by right|done].
Qed.

Lemma holds_merge a b ty k : holds (merge a b) ty k → holds a ty k ∨ holds b ty k.
Proof.
  destruct ty; unfold holds;
    rewrite ?counters_merge_lookup, ?timers_merge_lookup, ?gauges_merge_lookup, ?sets_merge_lookup;
    match goal with |- context [oplus _ ?x ?y] => destruct x, y end; cbn; intros [? H]; try discriminate; eauto.
Qed.

Lemma holds_split n m i s ty k :
  split n m !! i = Some s → holds s ty k → holds m ty k ∧ shard_index n k = i.
Proof.
  intros Hs Hh. pose proof (split_cells n m i s k Hs) as Hc. unfold cells, no_cells in Hc.
  destruct (bool_decide_reflect (shard_index n k = i)) as [E|E].
  - split; [|done]. destruct ty; cbn in *; congruence.
  - exfalso. destruct ty; cbn in Hh; destruct Hh as [? Hh]; congruence.
Qed.

Lemma holds_reset c now m ty k : holds (agg_reset c now m) ty k → holds m ty k.
Proof.
  unfold agg_reset, live. destruct ty; cbn; rewrite ?lookup_fmap; intros [x Hx].
  - apply fmap_Some in Hx as (y & Hy & _). apply map_filter_lookup_Some in Hy as [Hy _]. eauto.
  - apply map_filter_lookup_Some in Hx as [Hx _]. eauto.
  - apply fmap_Some in Hx as (y & Hy & _). apply map_filter_lookup_Some in Hy as [Hy _]. eauto.
  - apply fmap_Some in Hx as (y & Hy & _). apply map_filter_lookup_Some in Hy as [Hy _]. eauto.
Qed.

Lemma in_nonempty_splits n m i s :
  (i, s) ∈ nonempty_splits n m → split n m !! i = Some s.
Proof.
  unfold nonempty_splits. intros H. apply elem_of_list_filter in H as [_ H].
  apply elem_of_lookup_imap in H as (j & y & Heq & Hl). by injection Heq as -> ->.
Qed.
