(* Lemmas about Model/Histogram.v: [latency_histogram] (zeroed buckets, then one pass per value
   bumping every bucket the value fits) never panics for tags shorter than 2^32 bytes and equals
   [hist_spec]; what the buckets of [hist_spec] hold. *)
From Coq Require Import List ZArith Lia Bool ZifyBool Permutation.
From GS Require Import Base.Bytes Model.GoPartial Model.Histogram.
Import ListNotations.
Local Open Scope Z_scope.

Lemma len_cons {A} (x : A) l : len (x :: l) = len l + 1.
Proof. unfold len. cbn [length]. lia. Qed.
Lemma len_nonneg {A} (l : list A) : 0 <= len l.
Proof. unfold len. lia. Qed.

(* ---------------------------------------------------------------------------------------- *)
(* Go's float == on keys: symmetric and transitive, reflexive except at NaN *)

Lemma bound_eqb_sym a b : bound_eqb a b = bound_eqb b a.
Proof.
  destruct a, b; cbn [bound_eqb]; try reflexivity.
  rewrite (Z.eqb_sym bits bits0), (andb_comm (f64_is_zero bits)). reflexivity.
Qed.

Lemma f64_is_zero_eqb x y : (x =? y) = true -> f64_is_zero x = f64_is_zero y.
Proof. intros H. apply Z.eqb_eq in H. congruence. Qed.

Lemma bound_eqb_trans a b c : bound_eqb a b = true -> bound_eqb b c = true -> bound_eqb a c = true.
Proof.
  destruct a as [| | |x], b as [| | |y], c as [| | |z]; cbn [bound_eqb]; try congruence.
  intros H1 H2. apply orb_true_iff in H1, H2. apply orb_true_iff.
  destruct H1 as [H1|H1], H2 as [H2|H2].
  - left. apply Z.eqb_eq in H1, H2. apply Z.eqb_eq. congruence.
  - right. rewrite (f64_is_zero_eqb _ _ H1). exact H2.
  - right. rewrite <- (f64_is_zero_eqb _ _ H2). exact H1.
  - right. apply andb_true_iff in H1, H2. apply andb_true_iff. tauto.
Qed.

Lemma bound_eqb_refl b : b <> BNaN -> bound_eqb b b = true.
Proof. destruct b; cbn [bound_eqb]; try congruence. intros _. rewrite Z.eqb_refl. reflexivity. Qed.

(* ---------------------------------------------------------------------------------------- *)
(* the association list *)

Lemma hset_nonempty k v h : hset k v h <> [].
Proof. destruct h as [|[k' v'] r]; cbn [hset]; [|destruct (bound_eqb k' k)]; discriminate. Qed.

Lemma hset_hset k v v' h : bound_eqb k k = true -> hset k v (hset k v' h) = hset k v h.
Proof.
  intros Hk. induction h as [|[k' w] r IH]; cbn [hset].
  - rewrite Hk. reflexivity.
  - destruct (bound_eqb k' k) eqn:E; cbn [hset]; [rewrite Hk | rewrite E, IH]; reflexivity.
Qed.

Lemma hset_length k v h : (length (hset k v h) <= S (length h))%nat.
Proof.
  induction h as [|[k' w] r IH]; cbn [hset length]; [lia|].
  destruct (bound_eqb k' k); cbn [length]; lia.
Qed.

Lemma hset_Forall (P : bound * Z -> Prop) k v h : P (k, v) -> Forall P h -> Forall P (hset k v h).
Proof.
  intros Hk. induction 1 as [|[k' w] r Hx Hr IH]; cbn [hset]; [repeat constructor; exact Hk|].
  destruct (bound_eqb k' k); constructor; assumption.
Qed.

Lemma hget_hset b k v h :
  hget b (hset k v h) = if bound_eqb k b then Some v else hget b h.
Proof.
  induction h as [|[k' w] r IH]; cbn [hset hget]; [reflexivity|].
  destruct (bound_eqb k' k) eqn:E; cbn [hget].
  - destruct (bound_eqb k b) eqn:E1; [reflexivity|].
    destruct (bound_eqb k' b) eqn:E2; [|reflexivity].
    rewrite bound_eqb_sym in E. rewrite (bound_eqb_trans _ _ _ E E2) in E1. discriminate.
  - rewrite IH. destruct (bound_eqb k' b) eqn:E2; [|reflexivity].
    destruct (bound_eqb k b) eqn:E1; [|reflexivity].
    rewrite (bound_eqb_sym k b) in E1. rewrite (bound_eqb_trans _ _ _ E2 E1) in E. discriminate.
Qed.

Section Fold.
  Variable g : bound -> Z.

  Definition set_all (bs : list bound) (h : list (bound * Z)) : list (bound * Z) :=
    fold_left (fun h b => hset b (g b) h) bs h.

  Lemma set_all_length bs h : (length (set_all bs h) <= length h + length bs)%nat.
  Proof.
    revert h. induction bs as [|b bs IH]; intros h; cbn [set_all fold_left length]; [lia|].
    fold (set_all bs (hset b (g b) h)). specialize (IH (hset b (g b) h)).
    pose proof (hset_length b (g b) h). lia.
  Qed.

  Lemma set_all_Forall (P : bound * Z -> Prop) bs h :
    (forall b, In b bs -> P (b, g b)) -> Forall P h -> Forall P (set_all bs h).
  Proof.
    revert h. induction bs as [|b bs IH]; intros h Hb Hh; cbn [set_all fold_left]; [exact Hh|].
    apply IH; [intros x Hx; apply Hb; right; exact Hx|].
    apply hset_Forall; [apply Hb; left; reflexivity | exact Hh].
  Qed.

  Lemma set_all_ext g' bs h : (forall b, g b = g' b) -> set_all bs h = fold_left (fun h b => hset b (g' b) h) bs h.
  Proof.
    intros H. revert h. induction bs as [|b bs IH]; intros h; cbn [set_all fold_left]; [reflexivity|].
    rewrite <- H. apply IH.
  Qed.

  Lemma hget_set_all b bs h :
    (forall x, bound_eqb x b = true -> g x = g b) ->
    hget b (set_all bs h) = if existsb (fun x => bound_eqb x b) bs then Some (g b) else hget b h.
  Proof.
    intros Hg. revert h. induction bs as [|x bs IH]; intros h; cbn [set_all fold_left existsb]; [reflexivity|].
    fold (set_all bs (hset x (g x) h)). rewrite IH, hget_hset.
    destruct (bound_eqb x b) eqn:E; cbn [orb].
    - rewrite (Hg x E). destruct (existsb _ bs); reflexivity.
    - reflexivity.
  Qed.
End Fold.

(* ---------------------------------------------------------------------------------------- *)
(* tag items *)

Lemma has_prefix_len p s : has_prefix p s = true -> len p <= len s.
Proof.
  revert s. induction p as [|a p IH]; intros s H; [apply len_nonneg|].
  destruct s as [|b s]; cbn [has_prefix] in H; [discriminate|].
  apply andb_true_iff in H as [_ H]. rewrite !len_cons. specialize (IH s H). lia.
Qed.

Lemma find_tag_Some tags tag : find_tag tags = Some tag -> In tag tags /\ has_prefix hist_prefix tag = true.
Proof.
  induction tags as [|t r IH]; cbn [find_tag]; [discriminate|].
  destruct (has_prefix hist_prefix t) eqn:E.
  - intros [= <-]. split; [left; reflexivity | exact E].
  - intros H. destruct (IH H). split; [right|]; assumption.
Qed.

Lemma split_acc_length sep cur s : (length (split_acc sep cur s) <= length s + 1)%nat.
Proof.
  revert cur. induction s as [|c r IH]; intros cur; cbn [split_acc length]; [lia|].
  destruct (c =? sep)%N; cbn [length]; [specialize (IH []) | specialize (IH (c :: cur))]; lia.
Qed.

Lemma firstn_min_length {A} (l : list A) k : firstn (Nat.min (length l) k) l = firstn k l.
Proof.
  destruct (Nat.le_ge_cases k (length l)) as [H|H].
  - rewrite Nat.min_r by exact H. reflexivity.
  - rewrite Nat.min_l by exact H. rewrite firstn_all, firstn_all2 by exact H. reflexivity.
Qed.

Section Hist.
  Variable pf : str -> option bound.

  Lemma map_to_thresholds_length items : (length (map_to_thresholds pf items) <= length items)%nat.
  Proof.
    induction items as [|s r IH]; cbn [map_to_thresholds length]; [lia|].
    destruct (pf s); cbn [length]; lia.
  Qed.

  Lemma spec_bounds_length tags limit : (length (spec_bounds pf tags limit) <= Z.to_nat limit)%nat.
  Proof.
    unfold spec_bounds. destruct (find_tag tags); cbn [length]; [apply firstn_le_length | lia].
  Qed.

  (* retrieveThresholds on a tagged timer: the first [limit] parsable items; no panic *)
  Lemma retrieve_thresholds_spec tags limit tag :
    0 <= limit -> find_tag tags = Some tag -> len tag < 2^32 ->
    retrieve_thresholds pf tags limit = Ok (Some (spec_bounds pf tags limit)).
  Proof.
    intros Hl Hf Ht. unfold retrieve_thresholds, spec_bounds. rewrite Hf.
    destruct (find_tag_Some _ _ Hf) as [_ Hp]. apply has_prefix_len in Hp.
    unfold tag_items, slice_from.
    destruct ((len hist_prefix <? 0) || (len tag <? len hist_prefix)) eqn:E.
    { pose proof (len_nonneg hist_prefix). apply orb_true_iff in E as [E|E]; lia. }
    cbn [bind].
    replace (Z.to_nat (len hist_prefix)) with (length hist_prefix) by (unfold len; rewrite Nat2Z.id; reflexivity).
    set (fl := map_to_thresholds pf (split_on c_us (skipn (length hist_prefix) tag))).
    assert (len fl < 2^32) as Hfl.
    { unfold fl, split_on, len.
      pose proof (map_to_thresholds_length (split_acc c_us [] (skipn (length hist_prefix) tag))).
      pose proof (split_acc_length c_us [] (skipn (length hist_prefix) tag)).
      rewrite skipn_length in *. unfold len in Ht, Hp.
      assert (0 < length hist_prefix)%nat by (cbn; lia). lia. }
    pose proof (len_nonneg fl) as Hfl0.
    rewrite Z.mod_small by lia.
    unfold slice_to.
    destruct ((Z.min (len fl) limit <? 0) || (len fl <? Z.min (len fl) limit)) eqn:E2.
    { apply orb_true_iff in E2 as [E2|E2]; lia. }
    cbn [bind]. do 2 f_equal. unfold len. rewrite Z2Nat.inj_min, Nat2Z.id.
    apply firstn_min_length.
  Qed.

  Context {V : Type}.
  Variable le_bound : V -> bound -> bool.

  Lemma count_le_nil b : count_le le_bound b [] = 0.
  Proof. reflexivity. Qed.

  Lemma count_le_cons b v xs :
    count_le le_bound b (v :: xs) = (if le_bound v b then 1 else 0) + count_le le_bound b xs.
  Proof.
    unfold count_le. cbn [filter]. destruct (le_bound v b); [rewrite len_cons|]; lia.
  Qed.

  Lemma count_le_bounds b xs : 0 <= count_le le_bound b xs <= len xs.
  Proof.
    unfold count_le, len.
    assert (length (filter (fun v => le_bound v b) xs) <= length xs)%nat; [|lia].
    induction xs as [|x r IH]; cbn [filter length]; [lia|]. destruct (le_bound x b); cbn [length]; lia.
  Qed.

  Lemma count_le_perm b xs ys : Permutation xs ys -> count_le le_bound b xs = count_le le_bound b ys.
  Proof.
    induction 1 as [|x l l' P IH|x y l|l l' l'' P1 IH1 P2 IH2]; rewrite ?count_le_cons; lia.
  Qed.

  (* add to every bucket the number of values that fit it *)
  Definition addc (xs : list V) (e : bound * Z) : bound * Z :=
    (fst e, snd e + count_le le_bound (fst e) xs).

  Lemma fold_bump xs h :
    fold_left (fun h v => map (bump le_bound v) h) xs h = map (addc xs) h.
  Proof.
    revert h. induction xs as [|v xs IH]; intros h; cbn [fold_left].
    - rewrite <- (map_id h) at 1. apply map_ext. intros [b c]. unfold addc. cbn [fst snd].
      rewrite count_le_nil, Z.add_0_r. reflexivity.
    - rewrite IH, map_map. apply map_ext. intros [b c]. unfold addc, bump. cbn [fst snd].
      rewrite count_le_cons. destruct (le_bound v b); cbn [fst snd]; f_equal; lia.
  Qed.

  Lemma map_addc_hset xs k v h :
    map (addc xs) (hset k v h) = hset k (v + count_le le_bound k xs) (map (addc xs) h).
  Proof.
    induction h as [|[k' w] r IH]; cbn [hset map]; [reflexivity|].
    unfold addc at 2. cbn [fst snd]. destruct (bound_eqb k' k); cbn [map]; [reflexivity|].
    rewrite IH. reflexivity.
  Qed.

  Lemma map_addc_zero xs tr h :
    map (addc xs) (fold_left (fun h b => hset b 0 h) tr h)
    = set_all (fun b => count_le le_bound b xs) tr (map (addc xs) h).
  Proof.
    revert h. induction tr as [|b tr IH]; intros h; cbn [fold_left set_all]; [reflexivity|].
    rewrite IH, map_addc_hset. reflexivity.
  Qed.

  (* the implementation computes the specification and never panics *)
  Lemma latency_histogram_spec tags limit xs :
    0 <= limit -> (forall tag, find_tag tags = Some tag -> len tag < 2^32) ->
    latency_histogram pf le_bound tags limit xs = Ok (hist_spec pf le_bound tags limit xs).
  Proof.
    intros Hl Ht. unfold latency_histogram, hist_spec, empty_histogram, has_histogram_tag.
    destruct (limit =? 0) eqn:E0; [reflexivity|].
    destruct (find_tag tags) as [tag|] eqn:Hf.
    - rewrite (retrieve_thresholds_spec tags limit tag Hl Hf (Ht tag eq_refl)). cbn [bind].
      set (tr := spec_bounds pf tags limit).
      destruct (hset BPInf 0 (fold_left (fun h b => hset b 0 h) tr [])) as [|e l] eqn:Hz.
      { exfalso. exact (hset_nonempty _ _ _ Hz). }
      rewrite <- Hz. rewrite fold_bump, map_addc_hset, hset_hset by reflexivity.
      rewrite map_addc_zero. reflexivity.
    - unfold retrieve_thresholds. rewrite Hf. reflexivity.
  Qed.

  (* ---- what the buckets hold *)

  Lemma hist_spec_limit0 tags xs : hist_spec pf le_bound tags 0 xs = HMap [].
  Proof. reflexivity. Qed.

  Lemma hist_spec_untagged tags limit xs :
    limit <> 0 -> has_histogram_tag tags = false -> hist_spec pf le_bound tags limit xs = HNil.
  Proof. intros Hl Ht. unfold hist_spec. rewrite Ht. destruct (limit =? 0) eqn:E; [lia | reflexivity]. Qed.

  Lemma hist_spec_perm tags limit xs ys :
    Permutation xs ys -> hist_spec pf le_bound tags limit xs = hist_spec pf le_bound tags limit ys.
  Proof.
    intros P. unfold hist_spec. destruct (limit =? 0); [reflexivity|].
    destruct (has_histogram_tag tags); [|reflexivity].
    unfold len. rewrite (Permutation_length P). do 2 f_equal.
    apply (set_all_ext (fun b => count_le le_bound b xs) (fun b => count_le le_bound b ys)).
    intros b. apply count_le_perm, P.
  Qed.

  Lemma hist_spec_buckets tags limit xs :
    0 < limit -> has_histogram_tag tags = true ->
    (forall b b', bound_eqb b' b = true -> forall v, le_bound v b' = le_bound v b) ->
    (forall v, le_bound v BPInf = true) ->
    let bounds := spec_bounds pf tags limit in
    exists l, hist_spec pf le_bound tags limit xs = HMap l /\
      (length l <= Z.to_nat limit + 1)%nat /\
      (forall b c, In (b, c) l -> c = count_le le_bound b xs /\ (b = BPInf \/ In b bounds)) /\
      hget BPInf l = Some (len xs) /\
      (forall b, In b bounds -> b <> BNaN -> hget b l = Some (count_le le_bound b xs)).
  Proof.
    intros Hl Ht Hcompat Hinf bounds. unfold hist_spec. rewrite Ht.
    destruct (limit =? 0) eqn:E; [lia|]. fold bounds.
    set (g := fun b => count_le le_bound b xs). fold (set_all g bounds []).
    assert (forall b b', bound_eqb b' b = true -> g b' = g b) as Hg.
    { intros b b' Hb. unfold g, count_le. f_equal. apply filter_ext. intros v. apply Hcompat, Hb. }
    assert (g BPInf = len xs) as Hginf.
    { unfold g, count_le. f_equal. rewrite <- (filter_ext (fun _ => true)) by (intros v; rewrite Hinf; reflexivity).
      clear. induction xs as [|x r IH]; cbn [filter]; congruence. }
    exists (hset BPInf (len xs) (set_all g bounds [])). split; [reflexivity|]. split; [|split; [|split]].
    - pose proof (hset_length BPInf (len xs) (set_all g bounds [])) as L1.
      pose proof (set_all_length g bounds []) as L2. pose proof (spec_bounds_length tags limit) as L3.
      fold bounds in L3. cbn [length] in L2. lia.
    - intros b c Hin.
      assert (Forall (fun e => snd e = g (fst e) /\ (fst e = BPInf \/ In (fst e) bounds))
                     (hset BPInf (len xs) (set_all g bounds []))) as HF.
      { apply hset_Forall; [cbn [fst snd]; split; [symmetry; exact Hginf | left; reflexivity]|].
        apply set_all_Forall; [|constructor]. intros x Hx. cbn [fst snd]. split; [reflexivity | right; exact Hx]. }
      exact (proj1 (Forall_forall _ _) HF (b, c) Hin).
    - rewrite hget_hset. reflexivity.
    - intros b Hb Hnan. rewrite hget_hset.
      destruct (bound_eqb BPInf b) eqn:Eb.
      + destruct b; cbn [bound_eqb] in Eb; try discriminate. f_equal. symmetry. exact Hginf.
      + rewrite (hget_set_all g b bounds []) by (intros x Hx; apply Hg, Hx).
        assert (existsb (fun x => bound_eqb x b) bounds = true) as ->; [|reflexivity].
        apply existsb_exists. exists b. split; [exact Hb | apply bound_eqb_refl, Hnan].
  Qed.
End Hist.
