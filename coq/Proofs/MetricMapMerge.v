(* Lemmas about Model/MetricMap.v merge / receive and the content abstraction of
   Model/Content.v.

   EXPORTED FOR REUSE (C01, C10, C11, C15 import this file):
     content_op_comm / content_op_assoc / content_unit_l / content_unit_r     (⊕ is a commutative monoid)
     cmap_op_comm / cmap_op_assoc / cmap_op_empty_l / cmap_op_empty_r         (⊕ₘ is a commutative monoid)
     cmap_sum_app / cmap_sum_perm
     abs_empty      : abs empty_map = ∅
     abs_merge      : abs (merge a b) = abs a ⊕ₘ abs b
     abs_receive    : abs (receive m d) = abs m ⊕ₘ abs_dp d
     abs_singleton  : abs (singleton d) = abs_dp d
     abs_receive_all: abs (receive_all m ds) = abs m ⊕ₘ cmap_sum (abs_dp <$> ds)
     abs_merge_maps : abs (merge_maps ms) = cmap_sum (abs <$> ms)
     abs_lookup     : abs m !! k in terms of the three lookups
     receive_is_merge (non-gauge datapoints: receive m d = merge m (singleton d)) and the
     per-field lookup lemmas *_merge_lookup / *_receive_lookup. *)
From stdpp Require Import gmap gmultiset.
From Coq Require Import QArith Qcanon Lia.
From GS Require Import Base.Bytes Model.Lexer Model.Series Model.MetricMap Model.Content.

Arguments Z.add : simpl never.
Arguments Z.max : simpl never.

(* ---------------------------------------------------------------------------------------- *)
(* option over a (commutative) semigroup: absent is the unit *)
Section oplus.
  Context {A : Type} (op : A → A → A).
  Definition oplus (x y : option A) : option A := union_with (λ a b, Some (op a b)) x y.
  Definition ofold (xs : list (option A)) : option A := foldr oplus None xs.

  Lemma oplus_None_l x : oplus None x = x.
  Proof. by destruct x. Qed.
  Lemma oplus_None_r x : oplus x None = x.
  Proof. by destruct x. Qed.

  Context (Hc : ∀ a b, op a b = op b a) (Ha : ∀ a b c, op a (op b c) = op (op a b) c).

  Lemma oplus_comm x y : oplus x y = oplus y x.
  Proof. destruct x, y; cbn; try reflexivity. by rewrite Hc. Qed.
  Lemma oplus_assoc x y z : oplus x (oplus y z) = oplus (oplus x y) z.
  Proof. destruct x, y, z; cbn; try reflexivity. by rewrite Ha. Qed.
  Lemma oplus_interchange a b c d : oplus (oplus a b) (oplus c d) = oplus (oplus a c) (oplus b d).
  Proof.
    rewrite <- (oplus_assoc a b), (oplus_assoc b c d), (oplus_comm b c),
      <- (oplus_assoc c b d), (oplus_assoc a c). reflexivity.
  Qed.

  Lemma ofold_app xs ys : ofold (xs ++ ys) = oplus (ofold xs) (ofold ys).
  Proof.
    unfold ofold. induction xs as [|x xs IH]; cbn; [by rewrite oplus_None_l|].
    by rewrite IH, oplus_assoc.
  Qed.
  Lemma ofold_perm xs ys : xs ≡ₚ ys → ofold xs = ofold ys.
  Proof.
    unfold ofold. induction 1 as [|x xs ys _ IH|x y xs|xs ys zs _ IH1 _ IH2]; cbn.
    - reflexivity.
    - by rewrite IH.
    - by rewrite !oplus_assoc, (oplus_comm y x).
    - by rewrite IH1.
  Qed.
End oplus.

Lemma fmap_oplus {A B} (p : A → B) (f : A → A → A) (op : B → B → B) x y :
  (∀ a b, p (f a b) = op (p a) (p b)) → p <$> oplus f x y = oplus op (p <$> x) (p <$> y).
Proof. intros H; destruct x, y; cbn; try reflexivity. by rewrite H. Qed.

(* with a unit, the fold is the plain fold over the present elements *)
Lemma ofold_combined {A} (op : A → A → A) (u : A) xs :
  (∀ a, op a u = a) → ofold op xs = combined (foldr op u) xs.
Proof.
  intros Hu. unfold ofold, combined, held. induction xs as [|[a|] xs IH]; cbn; [reflexivity| |].
  - rewrite IH. destruct (omap id xs); cbn; [by rewrite Hu|reflexivity].
  - by rewrite IH, oplus_None_l.
Qed.

Lemma held_app {A} (xs ys : list (option A)) : held (xs ++ ys) = held xs ++ held ys.
Proof. apply omap_app. Qed.
Lemma held_perm {A} (xs ys : list (option A)) : xs ≡ₚ ys → held xs ≡ₚ held ys.
Proof. unfold held. by intros ->. Qed.

(* ---------------------------------------------------------------------------------------- *)
(* content is a commutative monoid *)
Lemma content_op_comm a b : a ⊕ b = b ⊕ a.
Proof.
  destruct a, b; unfold content_op; cbn. f_equal.
  - lia.
  - apply (comm_L (⊎)).
  - apply Qcplus_comm.
  - apply (comm_L (∪)).
Qed.
Lemma content_op_assoc a b c : a ⊕ (b ⊕ c) = (a ⊕ b) ⊕ c.
Proof.
  destruct a, b, c; unfold content_op; cbn. f_equal.
  - lia.
  - apply (assoc_L (⊎)).
  - apply Qcplus_assoc.
  - apply (assoc_L (∪)).
Qed.
Lemma content_unit_r a : a ⊕ content_unit = a.
Proof.
  destruct a; unfold content_op, content_unit; cbn. f_equal.
  - lia.
  - apply (right_id_L ∅ (⊎)).
  - apply Qcplus_0_r.
  - apply (right_id_L ∅ (∪)).
Qed.
Lemma content_unit_l a : content_unit ⊕ a = a.
Proof. by rewrite content_op_comm, content_unit_r. Qed.

Notation "x ⊕? y" := (oplus content_op x y) (at level 50, left associativity).

Lemma cmap_op_lookup x y k : (x ⊕ₘ y) !! k = (x !! k) ⊕? (y !! k).
Proof. unfold cmap_op. apply lookup_union_with. Qed.

Lemma cmap_op_comm x y : x ⊕ₘ y = y ⊕ₘ x.
Proof. apply map_eq; intros k. rewrite !cmap_op_lookup. apply oplus_comm, content_op_comm. Qed.
Lemma cmap_op_assoc x y z : x ⊕ₘ (y ⊕ₘ z) = (x ⊕ₘ y) ⊕ₘ z.
Proof. apply map_eq; intros k. rewrite !cmap_op_lookup. apply oplus_assoc, content_op_assoc. Qed.
Lemma cmap_op_empty_l x : ∅ ⊕ₘ x = x.
Proof. apply map_eq; intros k. by rewrite cmap_op_lookup, lookup_empty, oplus_None_l. Qed.
Lemma cmap_op_empty_r x : x ⊕ₘ ∅ = x.
Proof. apply map_eq; intros k. by rewrite cmap_op_lookup, lookup_empty, oplus_None_r. Qed.
Lemma cmap_op_interchange a b c d : (a ⊕ₘ b) ⊕ₘ (c ⊕ₘ d) = (a ⊕ₘ c) ⊕ₘ (b ⊕ₘ d).
Proof.
  apply map_eq; intros k. rewrite !cmap_op_lookup.
  apply oplus_interchange; [apply content_op_comm|apply content_op_assoc].
Qed.

Lemma cmap_sum_app xs ys : cmap_sum (xs ++ ys) = cmap_sum xs ⊕ₘ cmap_sum ys.
Proof.
  unfold cmap_sum. induction xs as [|x xs IH]; cbn; [by rewrite cmap_op_empty_l|].
  by rewrite IH, cmap_op_assoc.
Qed.
Lemma cmap_sum_perm xs ys : xs ≡ₚ ys → cmap_sum xs = cmap_sum ys.
Proof.
  unfold cmap_sum. induction 1 as [|x xs ys _ IH|x y xs|xs ys zs _ IH1 _ IH2]; cbn.
  - reflexivity.
  - by rewrite IH.
  - by rewrite !cmap_op_assoc, (cmap_op_comm y x).
  - by rewrite IH1.
Qed.

(* ---------------------------------------------------------------------------------------- *)
(* the four per-series merges are homomorphisms into content *)
Lemma of_counter_merge a b : of_counter (merge_counter a b) = of_counter a ⊕ of_counter b.
Proof.
  unfold of_counter, merge_counter, content_op; cbn [ctr vals samp mem c_val t_vals t_samp s_vals]. f_equal.
  - symmetry. apply (left_id_L ∅ (⊎)).
  - symmetry. apply (left_id_L ∅ (∪)).
Qed.
Lemma of_timer_merge a b : of_timer (merge_timer a b) = of_timer a ⊕ of_timer b.
Proof.
  unfold of_timer, merge_timer, content_op; cbn [ctr vals samp mem c_val t_vals t_samp s_vals]. f_equal.
  - apply list_to_set_disj_app.
  - symmetry. apply (left_id_L ∅ (∪)).
Qed.
Lemma of_set_merge a b : of_set (merge_set a b) = of_set a ⊕ of_set b.
Proof.
  unfold of_set, merge_set, content_op; cbn [ctr vals samp mem c_val t_vals t_samp s_vals]. f_equal.
  symmetry. apply (left_id_L ∅ (⊎)).
Qed.

(* lookups in a merged map *)
Lemma counters_merge_lookup a b k :
  counters (merge a b) !! k = oplus merge_counter (counters a !! k) (counters b !! k).
Proof. apply lookup_union_with. Qed.
Lemma timers_merge_lookup a b k :
  timers (merge a b) !! k = oplus merge_timer (timers a !! k) (timers b !! k).
Proof. apply lookup_union_with. Qed.
Lemma gauges_merge_lookup a b k :
  gauges (merge a b) !! k = oplus merge_gauge (gauges a !! k) (gauges b !! k).
Proof. apply lookup_union_with. Qed.
Lemma sets_merge_lookup a b k :
  sets (merge a b) !! k = oplus merge_set (sets a !! k) (sets b !! k).
Proof. apply lookup_union_with. Qed.

Lemma abs_lookup m k :
  abs m !! k = (of_counter <$> counters m !! k) ⊕? (of_timer <$> timers m !! k) ⊕? (of_set <$> sets m !! k).
Proof. unfold abs. by rewrite !cmap_op_lookup, !lookup_fmap. Qed.

Lemma abs_empty : abs empty_map = ∅.
Proof. apply map_eq; intros k. rewrite abs_lookup; cbn. by rewrite !lookup_empty. Qed.

(* THE homomorphism: merging maps adds contents *)
Lemma abs_merge a b : abs (merge a b) = abs a ⊕ₘ abs b.
Proof.
  apply map_eq; intros k.
  rewrite cmap_op_lookup, !abs_lookup, counters_merge_lookup, timers_merge_lookup, sets_merge_lookup.
  rewrite (fmap_oplus _ _ content_op _ _ of_counter_merge),
    (fmap_oplus _ _ content_op _ _ of_timer_merge), (fmap_oplus _ _ content_op _ _ of_set_merge).
  rewrite (oplus_interchange _ content_op_comm content_op_assoc (of_counter <$> _)).
  apply (oplus_interchange _ content_op_comm content_op_assoc).
Qed.

Lemma abs_merge_fold ms m : abs (fold_left merge ms m) = abs m ⊕ₘ cmap_sum (abs <$> ms).
Proof.
  revert m; induction ms as [|x ms IH]; intros m; cbn; [by rewrite cmap_op_empty_r|].
  by rewrite IH, abs_merge, cmap_op_assoc.
Qed.
Lemma abs_merge_maps ms : abs (merge_maps ms) = cmap_sum (abs <$> ms).
Proof. unfold merge_maps. by rewrite abs_merge_fold, abs_empty, cmap_op_empty_l. Qed.

(* ---------------------------------------------------------------------------------------- *)
(* Receive: per field, receiving a datapoint is merging the one-datapoint map, except that the
   gauge rule is [<=] (receive: the datapoint wins a tie) where Merge has [<] (into wins). *)
Definition recv_gauge (into from : gauge) : gauge :=
  if (g_ts into <=? g_ts from)%Z then MkGauge (g_val from) (g_ts from) (g_src into) (g_tags into) else into.

Ltac recv_other := cbn [counters timers gauges sets]; rewrite ?lookup_empty, ?oplus_None_r; reflexivity.
Ltac recv_same d k :=
  cbn [counters timers gauges sets];
  destruct (decide (dp_key d = k)) as [<-|Hne];
  [rewrite !lookup_insert, lookup_empty; cbn;
   match goal with |- context [?m !! dp_key d] => destruct (m !! dp_key d) end; reflexivity
  |rewrite !lookup_insert_ne, lookup_empty, oplus_None_r by exact Hne; reflexivity].

Lemma counters_receive_lookup m d k :
  counters (receive m d) !! k = oplus merge_counter (counters m !! k) (counters (singleton d) !! k).
Proof. unfold singleton, receive, empty_map. destruct (dp_type d); [recv_same d k|recv_other..]. Qed.
Lemma timers_receive_lookup m d k :
  timers (receive m d) !! k = oplus merge_timer (timers m !! k) (timers (singleton d) !! k).
Proof. unfold singleton, receive, empty_map. destruct (dp_type d); [recv_other..|recv_same d k|recv_other]. Qed.
Lemma sets_receive_lookup m d k :
  sets (receive m d) !! k = oplus merge_set (sets m !! k) (sets (singleton d) !! k).
Proof.
  unfold singleton, receive, empty_map. destruct (dp_type d); [recv_other..|].
  cbn [counters timers gauges sets].
  destruct (decide (dp_key d = k)) as [<-|Hne].
  - rewrite !lookup_insert, lookup_empty; cbn. by destruct (sets m !! dp_key d).
  - by rewrite !lookup_insert_ne, lookup_empty, oplus_None_r by exact Hne.
Qed.
Lemma gauges_receive_lookup m d k :
  gauges (receive m d) !! k = oplus recv_gauge (gauges m !! k) (gauges (singleton d) !! k).
Proof.
  unfold singleton, receive, empty_map. destruct (dp_type d); [recv_other| |recv_other..].
  cbn [counters timers gauges sets].
  destruct (decide (dp_key d = k)) as [<-|Hne].
  - rewrite !lookup_insert, lookup_empty; cbn. by destruct (gauges m !! dp_key d).
  - by rewrite !lookup_insert_ne, lookup_empty, oplus_None_r by exact Hne.
Qed.

(* the one-datapoint map *)
Lemma singleton_gauges_nongauge d : dp_type d ≠ Gauge → gauges (singleton d) = ∅.
Proof. unfold singleton, receive, empty_map. by destruct (dp_type d). Qed.

(* for everything but gauges Receive IS Merge of the one-datapoint map *)
Lemma receive_is_merge m d : dp_type d ≠ Gauge → receive m d = merge m (singleton d).
Proof.
  intros Hg.
  assert (Hc : counters (receive m d) = counters (merge m (singleton d)))
    by (apply map_eq; intros k; by rewrite counters_receive_lookup, counters_merge_lookup).
  assert (Ht : timers (receive m d) = timers (merge m (singleton d)))
    by (apply map_eq; intros k; by rewrite timers_receive_lookup, timers_merge_lookup).
  assert (Hs : sets (receive m d) = sets (merge m (singleton d)))
    by (apply map_eq; intros k; by rewrite sets_receive_lookup, sets_merge_lookup).
  assert (Hga : gauges (receive m d) = gauges (merge m (singleton d))).
  { apply map_eq; intros k.
    rewrite gauges_receive_lookup, gauges_merge_lookup, singleton_gauges_nongauge, lookup_empty by exact Hg.
    by rewrite !oplus_None_r. }
  destruct (receive m d), (merge m (singleton d)); cbn in *. by subst.
Qed.

Lemma abs_receive_merge m d : abs (receive m d) = abs (merge m (singleton d)).
Proof.
  apply map_eq; intros k.
  by rewrite !abs_lookup, counters_receive_lookup, timers_receive_lookup, sets_receive_lookup,
    counters_merge_lookup, timers_merge_lookup, sets_merge_lookup.
Qed.

Lemma abs_singleton d : abs (singleton d) = abs_dp d.
Proof.
  apply map_eq; intros k. rewrite abs_lookup.
  unfold singleton, receive, empty_map, abs_dp, content_of_dp.
  destruct (dp_type d); cbn [counters timers gauges sets];
    rewrite ?lookup_empty; cbn; try reflexivity.
  all: destruct (decide (dp_key d = k)) as [<-|Hne];
    [rewrite !lookup_insert|rewrite !lookup_insert_ne, !lookup_empty by exact Hne];
    cbn; try reflexivity.
  f_equal. unfold of_timer. cbn [t_vals t_samp]. f_equal.
  rewrite list_to_set_disj_cons, list_to_set_disj_nil. apply (right_id_L ∅ (⊎)).
Qed.

Lemma abs_receive m d : abs (receive m d) = abs m ⊕ₘ abs_dp d.
Proof. by rewrite abs_receive_merge, abs_merge, abs_singleton. Qed.

Lemma abs_receive_all m ds : abs (receive_all m ds) = abs m ⊕ₘ cmap_sum (abs_dp <$> ds).
Proof.
  unfold receive_all. revert m; induction ds as [|d ds IH]; intros m; cbn; [by rewrite cmap_op_empty_r|].
  by rewrite IH, abs_receive, cmap_op_assoc.
Qed.
