(* C04: MetricAggregator.Flush / Reset / ReceiveMap never panic - lemmas about Model/Stats.v,
   Model/Histogram.v (owned by C08, imported) and Model/FlushPartial.v.

   Everything is proved for an ARBITRARY carrier of timer values of which only one fact is used:
   sorting preserves the length.  The rank is a parameter constrained by 0 <= rank p n <= n on
   the counts that occur (Proofs/RankSweep.v / RankUnbounded.v discharge it for the Go code's
   float64 computation). *)
From Coq Require Import String.
From Coq Require Import List ZArith Lia Bool.
From GS Require Import Base.Bytes.
From GS Require Import Model.GoPartial.
From GS Require Import Model.Histogram.
From GS Require Import Model.Stats.
From GS Require Import Model.FlushPartial.
From GS Require Import Model.PayloadPartial.
Import ListNotations.
Local Open Scope Z_scope.

(* ---------------------------------------------------------------------------------------- *)
(* outcomes *)

Definition is_ok {A} (o : outcome A) : Prop := exists a, o = Ok a.

Lemma is_ok_not_panic {A} (o : outcome A) : is_ok o <-> o <> Panic.
Proof. split; [intros [a ->]; discriminate|]. destruct o; [eexists; reflexivity|congruence]. Qed.

Lemma ok_is_ok {A} (a : A) : is_ok (Ok a).
Proof. eexists; reflexivity. Qed.

Lemma bind_ok {A B} (o : outcome A) (f : A -> outcome B) :
  is_ok o -> (forall a, o = Ok a -> is_ok (f a)) -> is_ok (bind o f).
Proof. intros [a ->] H. cbn. apply H; reflexivity. Qed.

Lemma bind_inv {A B} (o : outcome A) (f : A -> outcome B) b :
  bind o f = Ok b -> exists a, o = Ok a /\ f a = Ok b.
Proof. destruct o; cbn; [eauto|discriminate]. Qed.

Lemma len_nonneg {A} (l : list A) : 0 <= len l.
Proof. unfold len; lia. Qed.
Lemma len_app {A} (l1 l2 : list A) : len (l1 ++ l2) = len l1 + len l2.
Proof. unfold len; rewrite app_length; lia. Qed.
Lemma len_cons {A} (a : A) l : len (a :: l) = 1 + len l.
Proof. unfold len; cbn [length]; lia. Qed.
Lemma len_nil {A} : len (@nil A) = 0.
Proof. reflexivity. Qed.

Lemma idx_ok {A} (l : list A) i : 0 <= i < len l -> is_ok (idx l i).
Proof.
  unfold idx, len. intros H. destruct (i <? 0) eqn:E; [lia|].
  destruct (nth_error l (Z.to_nat i)) eqn:N; [apply ok_is_ok|].
  apply nth_error_None in N. lia.
Qed.

Lemma slice_to_ok {A} (l : list A) k : 0 <= k <= len l -> is_ok (slice_to l k).
Proof.
  unfold slice_to. intros H.
  destruct (k <? 0) eqn:E1; [lia|]. destruct (len l <? k) eqn:E2; [lia|]. apply ok_is_ok.
Qed.
Lemma slice_from_ok {A} (l : list A) k : 0 <= k <= len l -> is_ok (slice_from l k).
Proof.
  unfold slice_from. intros H.
  destruct (k <? 0) eqn:E1; [lia|]. destruct (len l <? k) eqn:E2; [lia|]. apply ok_is_ok.
Qed.

Lemma mapM_ok {A B} (f : A -> outcome B) l : (forall a, In a l -> is_ok (f a)) -> is_ok (mapM f l).
Proof.
  induction l as [|a r IH]; intros H; cbn [mapM]; [apply ok_is_ok|].
  apply bind_ok; [apply H; left; reflexivity|]. intros b _.
  apply bind_ok; [apply IH; intros; apply H; right; assumption|]. intros; apply ok_is_ok.
Qed.

Lemma mapM_inv {A B} (f : A -> outcome B) l l' :
  mapM f l = Ok l' -> Forall2 (fun a b => f a = Ok b) l l'.
Proof.
  revert l'; induction l as [|a r IH]; intros l' H; cbn [mapM] in H.
  - injection H as <-. constructor.
  - apply bind_inv in H as (b & Hb & H). apply bind_inv in H as (bs' & Hbs & H). injection H as <-.
    constructor; [exact Hb|apply IH; exact Hbs].
Qed.

(* foldM with an invariant *)
Lemma foldM_inv {A S} (f : S -> A -> outcome S) (I : S -> Prop) l :
  (forall s a, In a l -> I s -> exists s', f s a = Ok s' /\ I s') ->
  forall s, I s -> exists s', foldM f s l = Ok s' /\ I s'.
Proof.
  induction l as [|a r IH]; intros H s Hs; cbn [foldM]; [eauto|].
  destruct (H s a (or_introl eq_refl) Hs) as (s1 & -> & H1). cbn [bind].
  apply IH; [|exact H1]. intros; apply H; [right|]; assumption.
Qed.

(* ---------------------------------------------------------------------------------------- *)
(* names of percentiles contain '_' *)

Lemma last_index_from_best c s i best : 0 <= i -> 0 <= best -> 0 <= last_index_from c s i best.
Proof.
  revert i best; induction s as [|x r IH]; intros i best Hi Hb; cbn [last_index_from]; [exact Hb|].
  apply IH; [lia|]. destruct (x =? c)%N; lia.
Qed.
Lemma last_index_from_in c s i best : In c s -> 0 <= i -> 0 <= last_index_from c s i best.
Proof.
  revert i best; induction s as [|x r IH]; intros i best Hin Hi; [destruct Hin|].
  cbn [last_index_from]. destruct (N.eqb_spec x c) as [->|Hne].
  - apply last_index_from_best; lia.
  - destruct Hin as [->|Hin]; [congruence|]. apply IH; [exact Hin|lia].
Qed.
Lemma has_us_in s : In c_us s -> has_us s.
Proof. intros H. unfold has_us, last_index. apply last_index_from_in; [exact H|lia]. Qed.

Lemma has_us_nm (prefix : String.string) p : In c_us (bs prefix) -> has_us (nm prefix p).
Proof. intros H. apply has_us_in. unfold nm. apply in_or_app; left; exact H. Qed.

Lemma last_index_upper c s i best : best < i -> last_index_from c s i best < i + len s.
Proof.
  revert i best; induction s as [|x r IH]; intros i best Hb; cbn [last_index_from].
  - rewrite len_nil; lia.
  - rewrite len_cons. specialize (IH (i + 1) (if (x =? c)%N then i else best)).
    destruct (x =? c)%N; lia.
Qed.

(* ---------------------------------------------------------------------------------------- *)
(* histograms: at most one +Inf key *)

Lemma bound_eqb_pinf_l k : bound_eqb BPInf k = true -> k = BPInf.
Proof. destruct k; cbn; congruence. Qed.
Lemma bound_eqb_pinf_r k : bound_eqb k BPInf = true -> k = BPInf.
Proof. destruct k; cbn; congruence. Qed.

Lemma pinf_count_hset k v l :
  pinf_count (hset k v l) = if is_pinf k then Nat.max 1 (pinf_count l) else pinf_count l.
Proof.
  unfold pinf_count. induction l as [|[k' v'] r IH]; cbn [hset].
  - cbn. destruct (is_pinf k); reflexivity.
  - destruct (bound_eqb k' k) eqn:E; cbn [filter fst length].
    + destruct (is_pinf k) eqn:Ek.
      * destruct k; try discriminate. apply bound_eqb_pinf_r in E as ->. cbn. lia.
      * destruct (is_pinf k') eqn:Ek'; [|reflexivity].
        destruct k'; try discriminate. apply bound_eqb_pinf_l in E as ->. discriminate.
    + destruct (is_pinf k') eqn:Ek'; cbn [length]; rewrite IH; destruct (is_pinf k) eqn:Ek; try reflexivity.
      destruct k, k'; try discriminate.
Qed.

Lemma pinf_count_bump {V} (le : V -> bound -> bool) v l : pinf_count (map (bump le v) l) = pinf_count l.
Proof.
  unfold pinf_count. induction l as [|e r IH]; [reflexivity|]. cbn [map filter].
  assert (fst (bump le v e) = fst e) as -> by (unfold bump; destruct (le v (fst e)); reflexivity).
  destruct (is_pinf (fst e)); cbn [length]; rewrite IH; reflexivity.
Qed.

Lemma pinf_count_bumps {V} (le : V -> bound -> bool) vs l :
  pinf_count (fold_left (fun h v => map (bump le v) h) vs l) = pinf_count l.
Proof. revert l; induction vs as [|v r IH]; intros l; cbn [fold_left]; [reflexivity|]. rewrite IH. apply pinf_count_bump. Qed.

Lemma pinf_count_sets tr l :
  (pinf_count (fold_left (fun h b => hset b 0 h) tr l) <= Nat.max 1 (pinf_count l))%nat.
Proof.
  revert l; induction tr as [|b r IH]; intros l; cbn [fold_left]; [lia|].
  etransitivity; [apply IH|]. rewrite pinf_count_hset. destruct (is_pinf b); lia.
Qed.

(* ---------------------------------------------------------------------------------------- *)
(* latency_histogram.go *)

Section Hist.
  Variable pf : str -> option bound.

  Lemma has_prefix_len p s : has_prefix p s = true -> len p <= len s.
  Proof.
    revert s; induction p as [|a p IH]; intros s H; [rewrite len_nil; apply len_nonneg|].
    destruct s as [|b s]; [discriminate|]. cbn [has_prefix] in H. apply andb_prop in H as [_ H].
    rewrite !len_cons. specialize (IH s H). lia.
  Qed.

  Lemma find_tag_prefix tags tag : find_tag tags = Some tag -> has_prefix hist_prefix tag = true.
  Proof.
    induction tags as [|t r IH]; cbn [find_tag]; [discriminate|].
    destruct (has_prefix hist_prefix t) eqn:E; [intros [= <-]; exact E|exact IH].
  Qed.

  Lemma retrieve_thresholds_ok tags limit : 0 <= limit -> is_ok (retrieve_thresholds pf tags limit).
  Proof.
    intros Hl. unfold retrieve_thresholds. destruct (find_tag tags) as [tag|] eqn:E; [|apply ok_is_ok].
    apply find_tag_prefix, has_prefix_len in E.
    apply bind_ok.
    - unfold tag_items. apply bind_ok; [apply slice_from_ok; pose proof (len_nonneg hist_prefix); lia|].
      intros; apply ok_is_ok.
    - intros items _. apply bind_ok; [|intros; apply ok_is_ok].
      apply slice_to_ok. pose proof (len_nonneg (map_to_thresholds pf items)) as Hn.
      pose proof (Z.mod_pos_bound (len (map_to_thresholds pf items)) (2^32) ltac:(lia)).
      pose proof (Z.mod_le (len (map_to_thresholds pf items)) (2^32) Hn ltac:(lia)). lia.
  Qed.

  Lemma empty_histogram_ok tags limit : 0 <= limit -> is_ok (empty_histogram pf tags limit).
  Proof.
    intros Hl. unfold empty_histogram. destruct (limit =? 0); [apply ok_is_ok|].
    apply bind_ok; [apply retrieve_thresholds_ok; exact Hl|]. intros [tr|] _; apply ok_is_ok.
  Qed.

  Lemma empty_histogram_hist_ok tags limit h : empty_histogram pf tags limit = Ok h -> hist_ok h.
  Proof.
    unfold empty_histogram. destruct (limit =? 0); [intros [= <-]; left; reflexivity|].
    intros H. apply bind_inv in H as ([tr|] & _ & H); injection H as <-; [|exact I].
    right. rewrite pinf_count_hset. cbn [is_pinf].
    pose proof (pinf_count_sets tr []) as Hc. change (pinf_count []) with 0%nat in Hc. lia.
  Qed.

  Context {V : Type}.
  Variable le : V -> bound -> bool.

  Lemma latency_histogram_ok tags limit (vs : list V) :
    0 <= limit -> is_ok (latency_histogram pf le tags limit vs).
  Proof.
    intros Hl. unfold latency_histogram. apply bind_ok; [apply empty_histogram_ok; exact Hl|].
    intros [|[|e l]] _; apply ok_is_ok.
  Qed.

  Lemma latency_histogram_hist_ok tags limit (vs : list V) h :
    latency_histogram pf le tags limit vs = Ok h -> hist_ok h.
  Proof.
    unfold latency_histogram. intros H. apply bind_inv in H as (e & He & H).
    apply empty_histogram_hist_ok in He.
    destruct e as [|[|e l]]; injection H as <-; [exact I|left; reflexivity|].
    right. rewrite pinf_count_hset. cbn [is_pinf]. rewrite pinf_count_bumps.
    destruct He as [He|He]; [discriminate|]. rewrite He. reflexivity.
  Qed.
End Hist.

(* ---------------------------------------------------------------------------------------- *)
(* flush_timer *)

Section Flush.
  Context {V : Type}.
  Variable O : vops V.
  Variable pf : str -> option bound.
  Variable rank : Z -> Z -> Z.
  Hypothesis sort_length : forall l, length (vsort O l) = length l.

  (* the rank is an index for the counts up to a bound *)
  Definition rank_ok (bound : Z) : Prop :=
    forall p n, -100 <= p <= 100 -> 0 <= n < bound -> 0 <= rank p n <= n.

  Lemma len_cum_from f acc l : len (cum_from O f acc l) = len l.
  Proof. revert acc; induction l as [|x r IH]; intros acc; cbn [cum_from]; [reflexivity|]. rewrite !len_cons, IH; reflexivity. Qed.
  Lemma len_cumulative f l : len (cumulative O f l) = len l.
  Proof. destruct l as [|x r]; cbn [cumulative]; [reflexivity|]. rewrite !len_cons, len_cum_from; reflexivity. Qed.

  Lemma In_dedupZ x l : In x (dedupZ l) -> In x l.
  Proof.
    revert x; induction l as [|y r IH]; intros x; cbn [dedupZ]; [tauto|].
    intros [->|H]; [left; reflexivity|]. right. apply filter_In in H as [H _]. apply IH; exact H.
  Qed.

  Lemma has_us_opt d name (v : V) : has_us name -> Forall has_us (map fst (opt d name v)).
  Proof. intros H. unfold opt. destruct d; cbn [map fst]; repeat constructor; exact H. Qed.

  Lemma has_us_emit m p k s : Forall has_us (map fst (emit O m p k s)).
  Proof.
    unfold emit. rewrite !map_app. rewrite !Forall_app.
    assert (U : forall q : String.string, In c_us (bs q) -> has_us (nm q p)) by (intros; apply has_us_nm; assumption).
    repeat split; try (destruct (0 <? p)); apply has_us_opt; apply U; cbn; tauto.
  Qed.

  (* one iteration of the percentile loop: in range, and the new names contain '_' *)
  Lemma pct_step_ok m (vs cum cumsq : list V) n st p :
    len vs = n -> len cum = n -> len cumsq = n -> 1 <= n ->
    (1 < n -> 0 <= rank p n <= n) ->
    Forall has_us (map fst (snd st)) ->
    exists st', pct_step O rank false m vs cum cumsq n st p = Ok st' /\ Forall has_us (map fst (snd st')).
  Proof.
    intros Hvs Hcum Hsq Hn Hr Hst. destruct st as [s out]. unfold pct_step.
    destruct (1 <? n) eqn:E1.
    2:{ eexists; split; [reflexivity|]. cbn [snd] in *. rewrite map_app. apply Forall_app; split; [exact Hst|apply has_us_emit]. }
    specialize (Hr ltac:(lia)). set (k := rank p n) in *.
    destruct (k =? 0) eqn:E0; [eexists; split; [reflexivity|exact Hst]|].
    assert (Hk : 1 <= k <= n) by lia.
    destruct (0 <? p) eqn:Ep.
    - destruct (idx_ok vs (k - 1)) as [b ->]; [lia|]. destruct (idx_ok cum (k - 1)) as [sm ->]; [lia|].
      destruct (idx_ok cumsq (k - 1)) as [sq ->]; [lia|]. cbn [bind].
      eexists; split; [reflexivity|]. cbn [snd] in *. rewrite map_app. apply Forall_app; split; [exact Hst|apply has_us_emit].
    - destruct (idx_ok vs (n - k)) as [b ->]; [lia|]. destruct (idx_ok cum (n - 1)) as [sm ->]; [lia|].
      destruct (idx_ok cumsq (n - 1)) as [sq ->]; [lia|]. cbn [bind orb].
      destruct (k <? n) eqn:Ekn.
      + destruct (idx_ok cum (n - k - 1)) as [sm' ->]; [lia|]. destruct (idx_ok cumsq (n - k - 1)) as [sq' ->]; [lia|].
        cbn [bind]. eexists; split; [reflexivity|]. cbn [snd] in *. rewrite map_app. apply Forall_app; split; [exact Hst|apply has_us_emit].
      + cbn [bind]. eexists; split; [reflexivity|]. cbn [snd] in *. rewrite map_app. apply Forall_app; split; [exact Hst|apply has_us_emit].
  Qed.

  (* what Flush keeps of a timer, and the invariant of what it reports *)
  Definition timer_ok (t : timer V) : Prop := Forall has_us (map fst (t_pcts t)) /\ hist_ok (t_hist t).

  Lemma flush_timer_ok bound c t :
    rank_ok bound -> config_ok c -> len (t_values t) < bound -> timer_ok t ->
    exists t', flush_timer O pf rank false c t = Ok t'
               /\ t_tags t' = t_tags t /\ len (t_values t') = len (t_values t) /\ timer_ok t'.
  Proof.
    intros Hrank [Hp Hl] Hb [Hpc Hh]. unfold flush_timer.
    destruct (has_histogram_tag (t_tags t)) eqn:Eh.
    - destruct (latency_histogram_ok pf (vle_bound O) (t_tags t) (c_limit c) (t_values t) Hl) as [h Hlh].
      rewrite Hlh. cbn [bind]. eexists; split; [reflexivity|]. cbn. repeat split; [exact Hpc|].
      eapply latency_histogram_hist_ok; exact Hlh.
    - cbv zeta. set (n := len (t_values t)) in *.
      destruct (0 <? n) eqn:En.
      2:{ eexists; split; [reflexivity|]. cbn. repeat split; assumption. }
      set (vs := vsort O (t_values t)).
      assert (Hvs : len vs = n) by (unfold vs, n, len; rewrite sort_length; reflexivity).
      destruct (idx_ok vs 0) as [mn ->]; [lia|]. destruct (idx_ok vs (n - 1)) as [mx ->]; [lia|]. cbn [bind].
      set (cum := cumulative O (fun x => x) vs). set (cumsq := cumulative O (fun x => vmul O x x) vs).
      assert (Hc1 : len cum = n) by (unfold cum; rewrite len_cumulative; exact Hvs).
      assert (Hc2 : len cumsq = n) by (unfold cumsq; rewrite len_cumulative; exact Hvs).
      match goal with |- context [foldM ?f ?s0 ?l] =>
        assert (exists r, foldM f s0 l = Ok r /\ Forall has_us (map fst (snd r))) as (r & Hr & Hrp);
          [apply (foldM_inv f (fun st => Forall has_us (map fst (snd st))) l)|] end.
      { intros st p Hin Hst. apply pct_step_ok; try assumption; [lia|].
        intros _. apply Hrank; [|pose proof (len_nonneg (t_values t)); lia].
        apply In_dedupZ in Hin. rewrite Forall_forall in Hp. apply Hp; exact Hin. }
      { exact Hpc. }
      rewrite Hr. cbn [bind].
      destruct (idx_ok cum (n - 1)) as [sum ->]; [lia|]. destruct (idx_ok cumsq (n - 1)) as [sumsq ->]; [lia|].
      cbn [bind].
      assert (Hdiv : 0 <= n / 2 < n) by (split; [apply Z.div_pos; lia|apply Z.div_lt_upper_bound; lia]).
      destruct (n mod 2 =? 0) eqn:Em.
      + assert (2 <= n) by (destruct (Z.eq_dec n 1) as [->|]; [discriminate Em|lia]).
        assert (1 <= n / 2) by (apply Z.div_le_lower_bound; lia).
        destruct (idx_ok vs (n / 2 - 1)) as [a ->]; [lia|]. destruct (idx_ok vs (n / 2)) as [b ->]; [lia|].
        cbn [bind]. eexists; split; [reflexivity|]. cbn. repeat split; assumption.
      + destruct (idx_ok vs (n / 2)) as [a ->]; [lia|].
        cbn [bind]. eexists; split; [reflexivity|]. cbn. repeat split; assumption.
  Qed.
End Flush.
