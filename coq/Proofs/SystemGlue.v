(* Glue between the component models for Model/System.v (stdlib style, like Proofs/Datagram.v):
   the metrics and the bad-line count of a batch of datagrams, line by line. *)
From Coq Require Import Lia List.
From GS Require Import Base.Bytes Model.Lexer Model.MetricMap Model.Datagram Proofs.Datagram.
Import ListNotations.
Local Open Scope N_scope.

Definition metric_of_line pf cfg ip ts (line : str) : option datapoint :=
  match lex pf (cf_ns cfg) line with OMetric m => Some (stamp cfg ip ts m) | _ => None end.

Fixpoint omap_list {A B} (f : A -> option B) (l : list A) : list B :=
  match l with
  | [] => []
  | x :: r => match f x with Some y => y :: omap_list f r | None => omap_list f r end
  end.

Lemma metrics_concat pf cfg ip ts ls rs :
  Forall2 (fun line r => parse_line pf cfg ip ts line = Some r) ls rs ->
  dg_metrics (dg_concat rs) = omap_list (metric_of_line pf cfg ip ts) ls.
Proof.
  induction 1 as [|l r ls rs H1 H2 IH]; [reflexivity|].
  cbn [dg_concat fold_right omap_list]. fold (dg_concat rs). unfold dg_app. cbn [dg_metrics]. rewrite IH.
  unfold parse_line, line_result in H1. unfold metric_of_line.
  destruct (lex pf (cf_ns cfg) l); inversion H1; subst; reflexivity.
Qed.

Lemma parse_datagram_metrics pf cfg ip ts msg r :
  parse_datagram pf cfg ip ts msg = DgOk r ->
  dg_metrics r = omap_list (metric_of_line pf cfg ip ts) (lines msg).
Proof.
  destruct (parse_datagram_spec pf cfg ip ts msg) as (rs & HF & Hp). rewrite Hp.
  intros H; inversion H; subst. exact (metrics_concat _ _ _ _ _ _ HF).
Qed.

(* a batch: datagram after datagram *)
Lemma parse_all_spec pf cfg dgs r :
  parse_all pf cfg dgs = DgOk r ->
  dg_metrics r = concat (map (fun d => omap_list (metric_of_line pf cfg (d_ip d) (d_ts d)) (lines (d_msg d))) dgs)
  /\ dg_bad r = N.of_nat (length (concat (map (fun d => filter (fun l => is_reject (lex pf (cf_ns cfg) l)) (lines (d_msg d))) dgs))).
Proof.
  revert r; induction dgs as [|d dgs IH]; intros r H; cbn [parse_all] in H.
  - inversion H; subst. split; reflexivity.
  - destruct (parse_datagram pf cfg (d_ip d) (d_ts d) (d_msg d)) as [r1| |] eqn:E1; try discriminate.
    destruct (parse_all pf cfg dgs) as [r2| |] eqn:E2; try discriminate.
    inversion H; subst. destruct (IH r2 eq_refl) as [IHm IHb].
    cbn [map concat]. unfold dg_app. cbn [dg_metrics dg_bad].
    rewrite (parse_datagram_metrics _ _ _ _ _ _ E1), (parse_datagram_bad _ _ _ _ _ _ E1), IHm, IHb.
    split; [reflexivity|]. rewrite app_length. lia.
Qed.

Lemma parse_all_total pf cfg dgs : exists r, parse_all pf cfg dgs = DgOk r.
Proof.
  induction dgs as [|d dgs [r2 IH]]; cbn [parse_all]; [eexists; reflexivity|].
  destruct (parse_datagram_total pf cfg (d_ip d) (d_ts d) (d_msg d)) as (r1 & -> & _). rewrite IH.
  eexists; reflexivity.
Qed.
