(* Model/Aggregator.v against the partial models, part 2: the aggregate projected to a plain
   MetricMap ([to_mmap]) moves exactly as Model/Pipeline.v (C01) and Model/Expiry.v (C09) say,
   and what a flush reports is Expiry's report. *)
From stdpp Require Import gmap.
From Coq Require Import QArith Qcanon Qround.
From GS Require Import Base.Bytes Base.GoFloat Model.Lexer Model.Series Model.MetricMap.
From GS Require Model.Pipeline Model.Expiry.
From GS Require Import Model.GoPartial Model.Histogram Model.Stats Model.Aggregator.
From GS Require Proofs.Histogram Proofs.StatsSort.
From GS Require Import Proofs.FlushSafety Proofs.AggregatorRefine.
Local Open Scope Z_scope.

(* ---- what Stats.flush_timer does to the fields the partial models keep ---- *)

Lemma flush_timer_inv pf rank c (t t' : Stats.timer Qc) :
  Stats.flush_timer qc_ops pf rank false c t = Ok t' ->
  Stats.t_tags t' = Stats.t_tags t /\
  (if has_histogram_tag (Stats.t_tags t) then
     t_values t' = t_values t /\ t_sampled t' = t_sampled t /\ t_count t' = t_count t /\
     t_persec t' = t_persec t /\ t_pcts t' = t_pcts t /\
     latency_histogram pf qc_le_bound (Stats.t_tags t) (c_limit c) (t_values t) = Ok (t_hist t')
   else match t_values t with
        | [] => t_values t' = [] /\ t_sampled t' = 0%Qc /\ t_count t' = 0 /\ t_persec t' = 0%Qc /\
                t_pcts t' = t_pcts t /\ t_hist t' = t_hist t
        | _ :: _ => t_values t' = qsort (t_values t) /\ t_sampled t' = t_sampled t /\
                    t_count t' = Qcfloor (t_sampled t + qhalf) /\
                    t_persec t' = (t_sampled t / c_interval c)%Qc /\ t_hist t' = t_hist t
        end).
Proof.
  unfold Stats.flush_timer. destruct (has_histogram_tag (Stats.t_tags t)) eqn:Eh.
  - intros H. apply bind_inv in H as (h & Hh & H). injection H as <-. cbn. try rewrite Eh. auto 10.
  - cbv zeta. destruct (t_values t) as [|x r] eqn:Ev.
    + cbn. intros [= <-]. cbn. try rewrite Eh. try rewrite Ev. auto 10.
    + assert (0 <? len (x :: r) = true) as -> by (apply Z.ltb_lt; unfold len; cbn [length]; lia).
      intros H.
      apply bind_inv in H as (mn & _ & H). apply bind_inv in H as (mx & _ & H).
      apply bind_inv in H as (rr & _ & H). apply bind_inv in H as (sm & _ & H).
      apply bind_inv in H as (sq & _ & H). apply bind_inv in H as (md & _ & H).
      injection H as <-. cbn. try rewrite Eh. auto 10.
Qed.

(* ---- the three readings of hasHistogramTag agree ---- *)

Lemma has_prefix_eq p s : has_prefix p s = Pipeline.str_has_prefix p s.
Proof. revert s. induction p as [|a p IH]; intros [|b s]; cbn [has_prefix Pipeline.str_has_prefix]; try reflexivity; rewrite IH; reflexivity. Qed.

Lemma has_histogram_tag_pipeline tags : has_histogram_tag tags = Pipeline.has_histogram_tag tags.
Proof.
  unfold has_histogram_tag, Pipeline.has_histogram_tag.
  induction tags as [|t r IH]; cbn [find_tag existsb]; [reflexivity|].
  change Pipeline.histogram_prefix with hist_prefix. rewrite <- (has_prefix_eq hist_prefix t).
  destruct (has_prefix hist_prefix t); [reflexivity | exact IH].
Qed.

Lemma str_has_prefix_eq p s : Expiry.str_has_prefix p s = Pipeline.str_has_prefix p s.
Proof.
  revert s. induction p as [|a p IH]; intros [|b s]; cbn [Pipeline.str_has_prefix Expiry.str_has_prefix];
    try reflexivity; rewrite IH; reflexivity.
Qed.

Lemma has_histogram_tag_expiry (t : MetricMap.timer) :
  Expiry.has_histogram_tag t = has_histogram_tag (MetricMap.t_tags t).
Proof.
  rewrite has_histogram_tag_pipeline. unfold Expiry.has_histogram_tag, Pipeline.has_histogram_tag.
  change Expiry.hist_prefix with Pipeline.histogram_prefix.
  induction (MetricMap.t_tags t) as [|x r IH]; cbn [existsb]; [reflexivity|].
  rewrite IH, str_has_prefix_eq. reflexivity.
Qed.

(* ---- well-formed aggregates: the ghost bit patterns shadow Values; a timer without histogram
   tag has no Histogram.  Every operation preserves it. ---- *)

Definition wf_timer (t : atimer) : Prop :=
  length (at_bits t) = length (t_values (at_t t)) /\
  (has_histogram_tag (Stats.t_tags (at_t t)) = false -> t_hist (at_t t) = HNil) /\
  (has_histogram_tag (Stats.t_tags (at_t t)) = true -> t_count (at_t t) = 0 /\ t_persec (at_t t) = 0%Qc).
Definition wf (a : agg) : Prop := forall k t, a_timers a !! k = Some t -> wf_timer t.

Lemma wf_empty : wf agg_empty.
Proof. intros k t Hk. cbn in Hk. rewrite lookup_empty in Hk. discriminate. Qed.

Lemma wf_receive a m : wf a -> wf (receive_map a m).
Proof.
  intros Ha k t Hk. rewrite merge_atimer_lookup in Hk.
  destruct (a_timers a !! k) as [x|] eqn:Ex, (timers m !! k) as [y|] eqn:Ey; cbn in Hk; try discriminate; injection Hk as <-.
  - destruct (Ha k x Ex) as (H1 & H2 & H3). split; [|split]; cbn; [|exact H2|exact H3].
    rewrite !app_length. unfold qvals. rewrite fmap_length. lia.
  - exact (Ha k x Ex).
  - split; [|split]; cbn; [unfold qvals; rewrite fmap_length; reflexivity | reflexivity | auto].
Qed.

Lemma wf_flush pf rank cfg dt a a' : flush pf rank cfg dt a = Ok a' -> wf a -> wf a'.
Proof.
  intros H Ha k t' Hk. apply (flush_timer_part pf rank cfg dt a a' k t' H) in Hk as (t & Ht & Hf & Hb & _).
  destruct (Ha k t Ht) as (H1 & H2 & H3). apply flush_timer_inv in Hf as [Htags Hf]. unfold wf_timer. rewrite Hb, Htags.
  destruct (has_histogram_tag (Stats.t_tags (at_t t))) eqn:Eh.
  - destruct Hf as (-> & _ & -> & -> & _). split; [exact H1|]. split; [discriminate | exact H3].
  - destruct (t_values (at_t t)) as [|x r] eqn:Ev.
    + destruct Hf as (-> & _ & _ & _ & _ & ->). split; [exact H1|]. split; [exact H2 | discriminate].
    + destruct Hf as (-> & _ & _ & _ & ->). split; [|split; [exact H2 | discriminate]].
      rewrite H1. symmetry. apply (StatsSort.qsort_length (x :: r)).
Qed.

Lemma wf_reset pf cfg now a a' : reset pf cfg now a = Ok a' -> wf a'.
Proof.
  intros H k t' Hk. apply (reset_timer_part pf cfg now a a' k t' H) in Hk as (t & _ & _ & Hr).
  rewrite reset_atimer_shape in Hr. apply bind_inv in Hr as (h & Hh & Hr). injection Hr as <-.
  split; [|split]; cbn; [reflexivity | | auto]. intros E. rewrite E in Hh. injection Hh as <-. reflexivity.
Qed.

Lemma wf_run pf rank cfg ops : forall a a', wf a -> foldM (astep pf rank cfg) a ops = Ok a' -> wf a'.
Proof.
  induction ops as [|o r IH]; intros a a' Ha H; cbn [foldM] in H; [injection H as <-; exact Ha|].
  apply bind_inv in H as (a1 & H1 & H). apply (IH a1 a'); [|exact H].
  destruct o; cbn [astep] in H1; [injection H1 as <-; apply wf_receive, Ha | eapply wf_flush; eauto | eapply wf_reset; eauto].
Qed.

(* ---- C01 / C09: ReceiveMap is MetricMap.merge ---- *)

Theorem to_mmap_receive a m : to_mmap (receive_map a m) = MetricMap.merge (to_mmap a) m.
Proof.
  unfold to_mmap, MetricMap.merge. cbn [counters timers gauges sets a_gauges a_sets receive_map]. f_equal.
  - apply map_eq. intros k. rewrite lookup_fmap, merge_acounter_lookup, lookup_union_with, lookup_fmap.
    destruct (a_counters a !! k) as [x|], (counters m !! k) as [[v ts src tg]|]; reflexivity.
  - apply map_eq. intros k. rewrite lookup_fmap, merge_atimer_lookup, lookup_union_with, lookup_fmap.
    destruct (a_timers a !! k) as [x|], (timers m !! k) as [[vs s ts src tg]|]; reflexivity.
Qed.

(* ---- C01: Flush, as far as content goes, is Pipeline.agg_flush ---- *)

Theorem to_mmap_flush pf rank cfg dt a a' :
  flush pf rank cfg dt a = Ok a' -> wf a -> to_mmap a' = Pipeline.agg_flush (to_mmap a).
Proof.
  intros H Ha. destruct (flush_rest pf rank cfg dt a a' H) as [Hg Hs].
  unfold to_mmap, Pipeline.agg_flush. cbn [counters timers gauges sets]. rewrite Hg, Hs. f_equal.
  - apply map_eq. intros k. rewrite !lookup_fmap, (flush_counter_part pf rank cfg dt a a' k H).
    destruct (a_counters a !! k); reflexivity.
  - apply map_eq. intros k. rewrite !lookup_fmap.
    destruct (a_timers a' !! k) as [t'|] eqn:E'.
    + apply (flush_timer_part pf rank cfg dt a a' k t' H) in E' as (t & Ht & Hf & Hb & Hts & Hsrc).
      rewrite Ht. cbn. f_equal. destruct (Ha k t Ht) as [Hlen _].
      apply flush_timer_inv in Hf as [Htags Hf]. unfold to_timer, Pipeline.flush_timer. cbn [MetricMap.t_tags t_vals].
      rewrite <- has_histogram_tag_pipeline, Hb, Hts, Hsrc, Htags.
      destruct (has_histogram_tag (Stats.t_tags (at_t t))).
      * destruct Hf as (_ & -> & _). reflexivity.
      * destruct (t_values (at_t t)) as [|x r] eqn:Ev.
        -- destruct Hf as (_ & -> & _). destruct (at_bits t); [reflexivity | discriminate].
        -- destruct Hf as (_ & -> & _). destruct (at_bits t); [discriminate | reflexivity].
    + destruct (a_timers a !! k) as [t|] eqn:E; [|reflexivity]. exfalso.
      destruct (Stats.flush_timer qc_ops pf rank false (stats_config cfg dt) (at_t t)) as [s|] eqn:Ef.
      * assert (a_timers a' !! k = Some (MkAT s (at_bits t) (at_ts t) (at_src t))) as Hk; [|congruence].
        apply (flush_timer_part pf rank cfg dt a a' k _ H). exists t. cbn. auto.
      * assert (flush pf rank cfg dt a = Panic) as Hp; [|congruence]. apply flush_panic_iff. eauto.
Qed.

(* ---- C01 / C09: Reset is Pipeline.agg_reset and Expiry.agg_reset ---- *)

Definition pipeline_cfg (shards : nat) (cfg : aconfig) : Pipeline.config :=
  Pipeline.MkCfg shards (ak_exp_counter cfg) (ak_exp_timer cfg) (ak_exp_gauge cfg) (ak_exp_set cfg).
Definition expiry_cfg (cfg : aconfig) : Expiry.config :=
  Expiry.MkCfg (ak_exp_counter cfg) (ak_exp_gauge cfg) (ak_exp_set cfg) (ak_exp_timer cfg).

Lemma to_mmap_reset_lookup pf cfg now a a' :
  reset pf cfg now a = Ok a' ->
  (forall k, (to_counter <$> a_counters a') !! k =
             (a_counters a !! k) ≫= λ c, if is_expired (ak_exp_counter cfg) now (ac_ts c) then None
                                          else Some (MkCounter 0 (ac_ts c) (ac_src c) (ac_tags c))) /\
  (forall k, (to_timer <$> a_timers a') !! k =
             (a_timers a !! k) ≫= λ t, if is_expired (ak_exp_timer cfg) now (at_ts t) then None
                                        else Some (MkTimer [] 0%Qc (at_ts t) (at_src t) (Stats.t_tags (at_t t)))).
Proof.
  intros H. destruct (reset_other_parts pf cfg now a a' H) as (Hc & _). split; intros k.
  - rewrite Hc, lookup_fmap, lookup_omap. destruct (a_counters a !! k) as [c|]; [|reflexivity]. cbn.
    unfold reset_acounter. destruct (is_expired _ _ _); reflexivity.
  - rewrite lookup_fmap. destruct (a_timers a' !! k) as [t'|] eqn:E'.
    + apply (reset_timer_part pf cfg now a a' k t' H) in E' as (t & -> & He & Hr). cbn. rewrite He.
      rewrite reset_atimer_shape in Hr. apply bind_inv in Hr as (h & _ & Hr). injection Hr as <-. reflexivity.
    + destruct (a_timers a !! k) as [t|] eqn:E; [|reflexivity]. cbn.
      destruct (is_expired (ak_exp_timer cfg) now (at_ts t)) eqn:He; [reflexivity|]. exfalso.
      destruct (reset_atimer pf cfg t) as [s|] eqn:Er.
      * assert (a_timers a' !! k = Some s) as Hk; [|congruence].
        apply (reset_timer_part pf cfg now a a' k s H). eauto.
      * unfold reset in H. destruct (seq_map _) as [ts|] eqn:Es; [|discriminate].
        apply seq_map_Ok in Es as [Hok _]. apply (Hok k Panic); [|reflexivity].
        rewrite lookup_fmap, lookup_omap, E. cbn. unfold live_timer. rewrite He. cbn. rewrite Er. reflexivity.
Qed.

Theorem to_mmap_reset_pipeline pf cfg shards now a a' :
  reset pf cfg now a = Ok a' -> to_mmap a' = Pipeline.agg_reset (pipeline_cfg shards cfg) now (to_mmap a).
Proof.
  intros H. destruct (to_mmap_reset_lookup pf cfg now a a' H) as [Hc Ht].
  destruct (reset_other_parts pf cfg now a a' H) as (_ & Hg & Hs).
  unfold to_mmap, Pipeline.agg_reset, Pipeline.live. cbn [counters timers gauges sets pipeline_cfg
    Pipeline.cfg_exp_counter Pipeline.cfg_exp_timer Pipeline.cfg_exp_gauge Pipeline.cfg_exp_set]. f_equal.
  - apply map_eq. intros k. rewrite Hc, lookup_fmap. 
    destruct (a_counters a !! k) as [c|] eqn:E; cbn.
    + change (Pipeline.is_expired) with is_expired.
      destruct (is_expired (ak_exp_counter cfg) now (ac_ts c)) eqn:He.
      * rewrite map_filter_lookup_None_2; [reflexivity|]. right. intros x Hx. rewrite lookup_fmap, E in Hx.
        injection Hx as <-. cbn. rewrite He. discriminate.
      * rewrite (map_filter_lookup_Some_2 _ _ k (to_counter c)); [reflexivity | rewrite lookup_fmap, E; reflexivity | cbn; exact He].
    + rewrite map_filter_lookup_None_2; [reflexivity|]. left. rewrite lookup_fmap, E. reflexivity.
  - apply map_eq. intros k. rewrite Ht, lookup_fmap.
    destruct (a_timers a !! k) as [t|] eqn:E; cbn.
    + change (Pipeline.is_expired) with is_expired.
      destruct (is_expired (ak_exp_timer cfg) now (at_ts t)) eqn:He.
      * rewrite map_filter_lookup_None_2; [reflexivity|]. right. intros x Hx. rewrite lookup_fmap, E in Hx.
        injection Hx as <-. cbn. rewrite He. discriminate.
      * rewrite (map_filter_lookup_Some_2 _ _ k (to_timer t)); [reflexivity | rewrite lookup_fmap, E; reflexivity | cbn; exact He].
    + rewrite map_filter_lookup_None_2; [reflexivity|]. left. rewrite lookup_fmap, E. reflexivity.
  - rewrite Hg. apply map_eq. intros k. rewrite lookup_omap. change (Pipeline.is_expired) with is_expired.
    destruct (a_gauges a !! k) as [g|] eqn:E; cbn.
    + unfold reset_gauge. destruct (is_expired (ak_exp_gauge cfg) now (g_ts g)) eqn:He.
      * rewrite map_filter_lookup_None_2; [reflexivity|]. right. intros x Hx. rewrite E in Hx.
        injection Hx as <-. cbn. rewrite He. discriminate.
      * rewrite (map_filter_lookup_Some_2 _ _ k g); [reflexivity | exact E | cbn; exact He].
    + rewrite map_filter_lookup_None_2; [reflexivity|]. left. exact E.
  - rewrite Hs. apply map_eq. intros k. rewrite lookup_omap, lookup_fmap. change (Pipeline.is_expired) with is_expired.
    destruct (a_sets a !! k) as [s|] eqn:E; cbn.
    + unfold reset_set. destruct (is_expired (ak_exp_set cfg) now (s_ts s)) eqn:He.
      * rewrite map_filter_lookup_None_2; [reflexivity|]. right. intros x Hx. rewrite E in Hx.
        injection Hx as <-. cbn. rewrite He. discriminate.
      * rewrite (map_filter_lookup_Some_2 _ _ k s); [reflexivity | exact E | cbn; exact He].
    + rewrite map_filter_lookup_None_2; [reflexivity|]. left. exact E.
Qed.

Theorem to_mmap_reset_expiry pf cfg now a a' :
  reset pf cfg now a = Ok a' -> to_mmap a' = Expiry.agg_reset (expiry_cfg cfg) now (to_mmap a).
Proof.
  intros H. destruct (to_mmap_reset_lookup pf cfg now a a' H) as [Hc Ht].
  destruct (reset_other_parts pf cfg now a a' H) as (_ & Hg & Hs).
  unfold to_mmap, Expiry.agg_reset, Expiry.keep. cbn [counters timers gauges sets expiry_cfg
    Expiry.exp_counter Expiry.exp_timer Expiry.exp_gauge Expiry.exp_set].
  change Expiry.is_expired with is_expired. f_equal.
  - apply map_eq. intros k. rewrite Hc, lookup_omap, lookup_fmap. destruct (a_counters a !! k); reflexivity.
  - apply map_eq. intros k. rewrite Ht, lookup_omap, lookup_fmap. destruct (a_timers a !! k); reflexivity.
  - rewrite Hg. reflexivity.
  - rewrite Hs. reflexivity.
Qed.

(* ---- C09: what a flush hands to the backends is Expiry.flush_report ---- *)

Definition hist_inf (h : hist) : option Z := match h with HMap l => hget BPInf l | HNil => None end.

Definition report_counter (c : acounter) : Expiry.rcounter := Expiry.MkRC (ac_val c) (ac_persec c) (ac_ts c).
(* everything Expiry keeps of a reported timer except [rt_has_pct] (see [report_timers] below) *)
Definition report_timer (has_pct : bool) (t : atimer) : Expiry.rtimer :=
  Expiry.MkRT (at_bits t) (t_count (at_t t)) (t_sampled (at_t t)) (t_persec (at_t t)) has_pct
              (hist_inf (t_hist (at_t t))) (at_ts t).

Lemma Qc_of_Z_pos p : Qc_of_Z (Zpos p) <> 0%Qc.
Proof. unfold Qc_of_Z. intros E. apply Q2Qc_eq_iff in E. unfold Qeq in E. cbn in E. lia. Qed.

Lemma per_second_eq (x : Qc) (p : positive) :
  Expiry.per_second x p = (x / seconds (Zpos p))%Qc.
Proof.
  unfold Expiry.per_second, seconds.
  assert (Q2Qc (Expiry.nanos_per_second # p) = (Qc_of_Z 1000000000 / Qc_of_Z (Zpos p))%Qc) as ->.
  { apply Qc_is_canon. unfold Qc_of_Z, Qcdiv, Qcmult, Qcinv. cbn [this Q2Qc].
    rewrite !Qred_correct. unfold Expiry.nanos_per_second. rewrite Qmake_Qdiv. reflexivity. }
  field. split; apply Qc_of_Z_pos.
Qed.

Lemma round_half_up_eq (x : Qc) : Expiry.round_half_up x = Qcfloor (x + qhalf).
Proof.
  unfold Expiry.round_half_up, Qcfloor. apply Qfloor_comp. unfold qhalf. cbn [this Qcplus Q2Qc].
  rewrite !Qred_correct. reflexivity.
Qed.

Lemma latency_histogram_inf pf tags limit (vs : list Qc) h :
  has_histogram_tag tags = true ->
  latency_histogram pf qc_le_bound tags limit vs = Ok h ->
  hist_inf h = if limit =? 0 then None else Some (len vs).
Proof.
  unfold has_histogram_tag, latency_histogram, empty_histogram. intros Ht H.
  destruct (limit =? 0); [cbn in H; injection H as <-; reflexivity|].
  apply bind_inv in H as (e & He & H). apply bind_inv in He as (th & Hth & He).
  unfold retrieve_thresholds in Hth. destruct (find_tag tags) as [tag|]; [|discriminate].
  apply bind_inv in Hth as (items & _ & Hth). apply bind_inv in Hth as (tr & _ & Hth). injection Hth as <-.
  injection He as <-.
  destruct (hset BPInf 0 (fold_left (λ h b, hset b 0 h) tr [])) as [|x l] eqn:Ez.
  { exfalso. exact (Proofs.Histogram.hset_nonempty _ _ _ Ez). }
  injection H as <-. cbn [hist_inf]. rewrite Proofs.Histogram.hget_hset. reflexivity.
Qed.

Section Report.
  Variable pf : str -> option bound.
  Variable rank : Z -> Z -> Z.
  Variable cfg : aconfig.
  Variable lim : N.
  Hypothesis Hlim : ak_limit cfg = Z.of_N lim.

  Theorem report_counters dt a a' :
    flush pf rank cfg (Zpos dt) a = Ok a' ->
    report_counter <$> a_counters a' = Expiry.r_counters (Expiry.flush_report lim dt (to_mmap a)).
  Proof.
    intros H. cbn. apply map_eq. intros k.
    rewrite !lookup_fmap, (flush_counter_part pf rank cfg _ a a' k H).
    destruct (a_counters a !! k) as [c|]; [|reflexivity]. cbn.
    unfold report_counter, Expiry.flush_counter, flush_acounter. cbn. f_equal. f_equal.
    symmetry. apply per_second_eq.
  Qed.

  Theorem report_gauges_sets dt a a' :
    flush pf rank cfg (Zpos dt) a = Ok a' ->
    Expiry.flush_gauge <$> a_gauges a' = Expiry.r_gauges (Expiry.flush_report lim dt (to_mmap a)) /\
    Expiry.flush_set <$> a_sets a' = Expiry.r_sets (Expiry.flush_report lim dt (to_mmap a)).
  Proof. intros H. destruct (flush_rest pf rank cfg _ a a' H) as [-> ->]. split; reflexivity. Qed.

  (* timers: the same series, and for each the fields C09 fixes.  [rt_has_pct] is the one field
     where Expiry.v is coarser than the code: it says "true" for every timer with values, while the
     code (and Aggregator.v) writes percentiles only if a threshold is configured, its rank is
     not 0 and a sub-type is enabled; what transfers is: no values / histogram => the flush
     writes no percentile. *)
  Theorem report_timers dt a a' k :
    flush pf rank cfg (Zpos dt) a = Ok a' -> wf a ->
    match a_timers a !! k with
    | None => Expiry.r_timers (Expiry.flush_report lim dt (to_mmap a)) !! k = None /\ a_timers a' !! k = None
    | Some t =>
        exists t' rt, a_timers a' !! k = Some t' /\
          Expiry.r_timers (Expiry.flush_report lim dt (to_mmap a)) !! k = Some rt /\
          rt = report_timer (Expiry.rt_has_pct rt) t' /\
          (Expiry.rt_has_pct rt = false -> t_pcts (at_t t') = t_pcts (at_t t))
    end.
  Proof.
    intros H Ha. cbn [Expiry.flush_report Expiry.r_timers to_mmap timers]. rewrite !lookup_fmap.
    destruct (a_timers a !! k) as [t|] eqn:E; cbn.
    - destruct (a_timers a' !! k) as [t'|] eqn:E'.
      2:{ exfalso. destruct (Stats.flush_timer qc_ops pf rank false (stats_config cfg (Zpos dt)) (at_t t)) as [s|] eqn:Ef.
          - assert (a_timers a' !! k = Some (MkAT s (at_bits t) (at_ts t) (at_src t))) as Hk; [|congruence].
            apply (flush_timer_part pf rank cfg _ a a' k _ H). exists t. cbn. auto.
          - assert (flush pf rank cfg (Zpos dt) a = Panic) as Hp; [|congruence]. apply flush_panic_iff. eauto. }
      exists t'. eexists. split; [reflexivity|]. split; [reflexivity|].
      apply (flush_timer_part pf rank cfg _ a a' k t' H) in E' as (t0 & Ht0 & Hf & Hb & Hts & _).
      rewrite E in Ht0. injection Ht0 as <-. destruct (Ha k t E) as (Hlen & Hnil & Hzero).
      apply flush_timer_inv in Hf as [Htags Hf].
      unfold Expiry.flush_timer, report_timer. rewrite has_histogram_tag_expiry. cbn [to_timer MetricMap.t_tags t_vals t_samp MetricMap.t_ts].
      rewrite Hb, Hts.
      destruct (has_histogram_tag (Stats.t_tags (at_t t))) eqn:Eh.
      + destruct Hf as (Hv & -> & Hc & Hp & Hpc & Hh). cbn [Expiry.rt_has_pct]. split; [|intros _; exact Hpc].
        rewrite (latency_histogram_inf _ _ _ _ _ Eh Hh). cbn [stats_config c_limit]. rewrite Hlim.
        destruct (Hzero eq_refl) as [Hz1 Hz2]. rewrite Hc, Hp, Hz1, Hz2. f_equal.
        unfold len. rewrite <- Hlen. destruct lim; reflexivity.
      + destruct (t_values (at_t t)) as [|x r] eqn:Ev.
        * destruct Hf as (_ & -> & -> & -> & Hpc & ->). rewrite (Hnil eq_refl).
          destruct (at_bits t); [|discriminate]. cbn. split; [reflexivity | intros _; exact Hpc].
        * destruct Hf as (_ & -> & -> & -> & ->). rewrite (Hnil eq_refl).
          destruct (at_bits t) as [|b bs]; [discriminate|]. cbn [length].
          assert (0 <? Z.of_nat (S (length bs)) = true) as -> by (apply Z.ltb_lt; lia).
          cbn [Expiry.rt_has_pct]. split; [|discriminate].
          rewrite round_half_up_eq, per_second_eq. reflexivity.
    - split; [reflexivity|]. destruct (a_timers a' !! k) as [t'|] eqn:E'; [|reflexivity].
      apply (flush_timer_part pf rank cfg _ a a' k t' H) in E' as (t0 & Ht0 & _). congruence.
  Qed.
End Report.
