(* The content equations of Proofs/Pipeline.v read component by component: counter sums, timer
   value multisets, sampled-count sums, set members. *)
From stdpp Require Import gmap gmultiset.
From Coq Require Import QArith Qcanon Lia.
From GS Require Import Base.Bytes Base.LTS Model.Lexer Model.Series Model.MetricMap Model.Content Model.Pipeline.
From GS Require Import Proofs.MetricMapMerge Proofs.PipelineAlgebra Proofs.Pipeline.

Arguments Z.add : simpl never.
Local Open Scope nat_scope.

(* ---- components of what a map holds ---- *)
Lemma cnt_components m k :
  cnt m k = MkContent (counter_at m k) (timer_values_at m k) (sampled_at m k) (members_at m k).
Proof.
  unfold cnt, content_at, counter_at, timer_values_at, sampled_at, members_at. rewrite abs_lookup.
  destruct (counters m !! k), (timers m !! k), (sets m !! k);
    apply content_eq; cbn -[disj_union union Qcplus Z.add];
    first [lia | multiset_solver | ring | set_solver].
Qed.

(* ---- components of a sum ---- *)
Section sums.
  Context {A : Type} (f : A → skey → content).
  Lemma ctr_total l k : ctr (total f l k) = zsum ((λ x, ctr (f x k)) <$> l).
  Proof. induction l as [|x l IH]; [done|]. rewrite total_cons, ctr_op, IH. reflexivity. Qed.
  Lemma vals_total l k : vals (total f l k) = msum ((λ x, vals (f x k)) <$> l).
  Proof. induction l as [|x l IH]; [done|]. rewrite total_cons, vals_op, IH. reflexivity. Qed.
  Lemma samp_total l k : samp (total f l k) = qsum ((λ x, samp (f x k)) <$> l).
  Proof. induction l as [|x l IH]; [done|]. rewrite total_cons, samp_op, IH. reflexivity. Qed.
  Lemma mem_total l k : mem (total f l k) = ⋃ ((λ x, mem (f x k)) <$> l).
  Proof. induction l as [|x l IH]; [done|]. rewrite total_cons, mem_op, IH. reflexivity. Qed.
End sums.

(* ---- components of the input ---- *)
Lemma mtype_eqb_eq a b : mtype_eqb a b = true ↔ a = b.
Proof. destruct a, b; cbn; split; congruence. Qed.

Lemma elem_of_samples_of ty k ds d : d ∈ samples_of ty k ds ↔ d ∈ ds ∧ dp_of_series ty k d.
Proof.
  unfold samples_of, dp_of_series. rewrite elem_of_list_In, filter_In, <- elem_of_list_In.
  rewrite andb_true_iff, mtype_eqb_eq, bool_decide_eq_true. tauto.
Qed.

Lemma samples_of_cons ty k d ds :
  samples_of ty k (d :: ds)
  = if mtype_eqb (dp_type d) ty && bool_decide (dp_key d = k) then d :: samples_of ty k ds else samples_of ty k ds.
Proof. reflexivity. Qed.

Ltac dp_case d k :=
  rewrite !samples_of_cons; unfold dp_cnt, content_of_dp;
  destruct (decide (dp_key d = k)) as [Hk|Hk];
  [rewrite (bool_decide_eq_true_2 _ Hk)|rewrite (bool_decide_eq_false_2 _ Hk)];
  destruct (dp_type d); cbn [mtype_eqb andb ctr vals samp mem content_unit fmap list_fmap].

Lemma input_ctr ds k : zsum ((λ d, ctr (dp_cnt d k)) <$> ds) = zsum (counter_increment <$> samples_of Counter k ds).
Proof.
  unfold zsum. induction ds as [|d ds IH]; [done|]. rewrite fmap_cons. cbn [foldr].
  rewrite IH. dp_case d k; cbn [foldr]; lia.
Qed.
Lemma input_vals ds k :
  msum ((λ d, vals (dp_cnt d k)) <$> ds) = list_to_set_disj (dp_value <$> samples_of Timer k ds).
Proof.
  unfold msum. induction ds as [|d ds IH]; [done|]. rewrite fmap_cons. cbn [foldr].
  rewrite IH. dp_case d k; rewrite ?list_to_set_disj_cons; multiset_solver.
Qed.
Lemma input_samp ds k : qsum ((λ d, samp (dp_cnt d k)) <$> ds) = qsum (sample_weight <$> samples_of Timer k ds).
Proof.
  unfold qsum. induction ds as [|d ds IH]; [done|]. rewrite fmap_cons. cbn [foldr].
  rewrite IH. dp_case d k; cbn [foldr]; ring.
Qed.
Lemma input_mem ds k : ⋃ ((λ d, mem (dp_cnt d k)) <$> ds) = list_to_set (dp_strval <$> samples_of MSet k ds).
Proof.
  induction ds as [|d ds IH]; [done|]. rewrite fmap_cons, union_list_cons.
  rewrite IH. dp_case d k; rewrite ?list_to_set_cons; set_solver.
Qed.

Lemma exact_at_quiescence_explicit c ls s ls' s' f :
  cfg_shards c ≠ 0 →
  run (step c) (init c) ls = Some s → quiescent s →
  run (step c) s ls' = Some s' → flush_follows f ls' → flush_complete f s' →
  ∀ k,
    let flushed := (λ x : nat * nat * mmap, x.2) <$> st_out s' in
    zsum ((λ m, counter_at m k) <$> flushed) = zsum (counter_increment <$> samples_of Counter k (st_input s))
    ∧ msum ((λ m, timer_values_at m k) <$> flushed) = list_to_set_disj (dp_value <$> samples_of Timer k (st_input s))
    ∧ qsum ((λ m, sampled_at m k) <$> flushed) = qsum (sample_weight <$> samples_of Timer k (st_input s))
    ∧ ⋃ ((λ m, members_at m k) <$> flushed) = list_to_set (dp_strval <$> samples_of MSet k (st_input s)).
Proof.
  intros Hn Hr Hq Hr' Hff Hfc k flushed.
  pose proof (exact_at_quiescence c ls s ls' s' f Hn Hr Hq Hr' Hff Hfc k) as E.
  unfold input_total, out_total in E. fold flushed in E.
  rewrite <- input_ctr, <- input_vals, <- input_samp, <- input_mem.
  rewrite <- ctr_total, <- vals_total, <- samp_total, <- mem_total, E.
  rewrite ctr_total, vals_total, samp_total, mem_total.
  repeat split; f_equal; apply list_fmap_ext; intros i m _; by rewrite cnt_components.
Qed.

(* ---- what Corr/C01.v computes: the input content as one sequentially built map, the flushed
   total as the model's MergeMaps of the captured maps ---- *)
Lemma corr_input_content ds k : cnt (receive_all empty_map ds) k = total dp_cnt ds k.
Proof. by rewrite cnt_receive_all, cnt_empty_map, content_unit_l. Qed.

Lemma corr_flushed_content ms k : cnt (merge_maps ms) k = total cnt ms k.
Proof.
  unfold cnt at 1, total. rewrite abs_merge_maps, content_at_sum, <- list_fmap_compose. reflexivity.
Qed.
