(* Lemmas about Model/Tags.v, part 3: the configuration layer (pattern spellings, config ->
   filters) and the regex-free fragment (oracle-free specification). *)
From Coq Require Import Permutation.
From GS Require Import Base.Bytes Model.Lexer Model.Series Model.MetricMap Model.Tags Proofs.Series Proofs.Tags.
From stdpp Require Import gmap.

(* ---------------------------------------------------------------------------------------- *)
(* C10_config_semantics: the matcher built from a pattern string is its spelling's meaning *)
Section Spelling.
  Variable re_ok : str → bool.
  Variable re_match : str → str → bool.
  Notation nsm := (new_string_match re_ok).
  Notation sm_match := (sm_match re_match).

  Lemma nsm_spelling p :
    match spelling_of p with
    | SpRegex neg q =>
        if re_ok q then ∃ sm, nsm p = Done sm ∧ sm_regex sm = true ∧ ∀ s, sm_match sm s = xorb (re_match q s) neg
        else nsm p = GoPanic
    | sp => ∃ sm, nsm p = Done sm ∧ sm_regex sm = false ∧ ∀ s, sm_match sm s = spelling_matches re_match sp s
    end.
  Proof.
    unfold new_string_match, spelling_of.
    destruct (str_has_prefix regex_marker _).
    - destruct (re_ok _); [|done]. eexists; split; [done|]. split; done.
    - destruct (ends_with_star _); (eexists; split; [done|]; split; done).
  Qed.

  Lemma spelling_regex neg q : spelling_of (bang neg ++ regex_marker ++ q) = SpRegex neg q.
  Proof. by destruct neg. Qed.

  Lemma spelling_prefix neg q :
    (neg = false → str_has_prefix [c_bang] (q ++ [c_star]) = false) →
    str_has_prefix regex_marker (q ++ [c_star]) = false →
    spelling_of (bang neg ++ q ++ [c_star]) = SpPrefix neg q.
  Proof.
    intros Hb Hr. unfold spelling_of. destruct neg; cbn [bang app].
    - cbn [str_has_prefix drop]. rewrite N.eqb_refl. cbn [andb]. rewrite drop_0, Hr, ends_with_star_snoc.
      by rewrite removelast_last.
    - rewrite Hb, Hr, ends_with_star_snoc by done. by rewrite removelast_last.
  Qed.

  Lemma spelling_exact neg x :
    (neg = false → str_has_prefix [c_bang] x = false) →
    str_has_prefix regex_marker x = false → ends_with_star x = false →
    spelling_of (bang neg ++ x) = SpExact neg x.
  Proof.
    intros Hb Hr Hs. unfold spelling_of. destruct neg; cbn [bang app].
    - cbn [str_has_prefix drop]. rewrite N.eqb_refl. cbn [andb]. by rewrite drop_0, Hr, Hs.
    - by rewrite Hb, Hr, Hs.
  Qed.

  (* every pattern string is an optional '!' followed by a body that does not itself start
     with '!' unless the '!' was there *)
  Lemma spelling_total p : ∃ neg x, p = bang neg ++ x ∧ (neg = false → str_has_prefix [c_bang] x = false).
  Proof.
    destruct (str_has_prefix [c_bang] p) eqn:Hb.
    - apply str_has_prefix_spec in Hb as [r ->]. by exists true, r.
    - by exists false, p.
  Qed.

  Lemma config_semantics neg x :
    (neg = false → str_has_prefix [c_bang] x = false) →
    let p := bang neg ++ x in
    (∀ q, x = regex_marker ++ q →
       if re_ok q then ∃ sm, nsm p = Done sm ∧ ∀ s, sm_match sm s = xorb (re_match q s) neg
       else nsm p = GoPanic)
    ∧ (str_has_prefix regex_marker x = false → ∀ q, x = q ++ [c_star] →
       ∃ sm, nsm p = Done sm ∧ ∀ s, sm_match sm s = xorb (str_has_prefix q s) neg)
    ∧ (str_has_prefix regex_marker x = false → ends_with_star x = false →
       ∃ sm, nsm p = Done sm ∧ ∀ s, sm_match sm s = xorb (str_eqb s x) neg).
  Proof.
    intros Hb p. split; [|split].
    - intros q ->. pose proof (nsm_spelling p) as H. unfold p in *. rewrite spelling_regex in H.
      destruct (re_ok q); [|done]. destruct H as (sm & ? & _ & ?). by exists sm.
    - intros Hr q ->. pose proof (nsm_spelling p) as H. unfold p in *. rewrite spelling_prefix in H by done.
      destruct H as (sm & ? & _ & ?). by exists sm.
    - intros Hr Hs. pose proof (nsm_spelling p) as H. unfold p in *. rewrite spelling_exact in H by done.
      destruct H as (sm & ? & _ & ?). by exists sm.
  Qed.

  (* the odd spellings *)
  Lemma odd_spellings :
    let means p (m : str → bool) := ∃ sm, nsm p = Done sm ∧ ∀ s, sm_match sm s = m s in
    means [] (λ s, str_eqb s [])                                        (* ""    : only the empty string *)
    ∧ means [c_bang] (λ s, negb (str_eqb s []))                         (* "!"   : every non-empty string *)
    ∧ means [c_star] (λ _, true)                                        (* "*"   : everything *)
    ∧ means [c_bang; c_star] (λ _, false)                               (* "!*"  : nothing *)
    ∧ means [c_bang; c_bang; 97%N] (λ s, negb (str_eqb s [c_bang; 97%N]))  (* "!!a" : everything but "!a" *)
    ∧ means [c_star; 97%N] (λ s, str_eqb s [c_star; 97%N])              (* "*a"  : exactly "*a" *)
    ∧ means [97%N; c_star; c_star] (λ s, str_has_prefix [97%N; c_star] s)  (* "a**" : prefix "a*" *)
    ∧ means [32%N; 97%N] (λ s, str_eqb s [32%N; 97%N])                  (* " a"  : exactly " a" *)
    ∧ (re_ok [c_bang; 97%N] = true →
       means (regex_marker ++ [c_bang; 97%N]) (λ s, re_match [c_bang; 97%N] s))   (* "regex:!a": expression "!a" *)
    ∧ (re_ok [97%N] = true →
       means (c_bang :: regex_marker ++ [97%N]) (λ s, negb (re_match [97%N] s))). (* "!regex:a" *)
  Proof.
    cbn zeta. unfold new_string_match. cbn.
    repeat split; try (intros ->); eexists; (split; [reflexivity|]); intros s; unfold Tags.sm_match; cbn;
      rewrite ?xorb_false_r, ?xorb_true_r; try done; by destruct s.
  Qed.
End Spelling.

(* ---------------------------------------------------------------------------------------- *)
(* C10_config_total *)

Lemma rmapM_all_or_panic {A B} (f : A → res B) (bad : A → bool) (R : A → B → Prop) :
  (∀ a, if bad a then f a = GoPanic else ∃ b, f a = Done b ∧ R a b) →
  ∀ l, if existsb bad l then rmapM f l = GoPanic else ∃ bs, rmapM f l = Done bs ∧ Forall2 R l bs.
Proof.
  intros Hf. induction l as [|a l IH]; cbn; [by exists []|].
  specialize (Hf a). destruct (bad a); cbn; [by rewrite Hf|].
  destruct Hf as (b & -> & HR). cbn. destruct (existsb bad l); [by rewrite IH|].
  destruct IH as (bs & -> & HF). cbn. exists (b :: bs). by split; [|constructor].
Qed.

Lemma existsb_concat_map {A B} (p : B → bool) (g : A → list B) l :
  existsb p (concat (map g l)) = existsb (λ x, existsb p (g x)) l.
Proof. induction l as [|a l IH]; cbn; [done|]. by rewrite existsb_app, IH. Qed.

Section ConfigTotal.
  Variable re_ok : str → bool.

  Lemma nsm_ok_or_panic p :
    if pattern_invalid re_ok p then new_string_match re_ok p = GoPanic
    else ∃ sm, new_string_match re_ok p = Done sm ∧ new_string_match re_ok p = Done sm.
  Proof.
    pose proof (nsm_spelling re_ok (λ _ _, false) p) as H. unfold pattern_invalid.
    destruct (spelling_of p) as [neg q|neg q|neg q].
    - destruct (re_ok q); cbn; [|done]. destruct H as (sm & ? & _). by exists sm.
    - destruct H as (sm & ? & _). by exists sm.
    - destruct H as (sm & ? & _). by exists sm.
  Qed.

  Lemma new_filter_ok_or_panic r :
    if existsb (pattern_invalid re_ok) (patterns_of_raw r) then new_filter re_ok r = GoPanic
    else ∃ f, new_filter re_ok r = Done f ∧ filter_of_raw re_ok r f.
  Proof.
    unfold patterns_of_raw, new_filter. rewrite !existsb_app.
    pose proof (rmapM_all_or_panic _ _ (λ p sm, new_string_match re_ok p = Done sm) nsm_ok_or_panic) as H.
    pose proof (H (r_match_metrics r)) as H1. destruct (existsb _ (r_match_metrics r)); cbn; [by rewrite H1|].
    destruct H1 as (mm & -> & F1). cbn.
    pose proof (H (r_exclude_metrics r)) as H2. destruct (existsb _ (r_exclude_metrics r)); cbn; [by rewrite H2|].
    destruct H2 as (em & -> & F2). cbn.
    pose proof (H (r_match_tags r)) as H3. destruct (existsb _ (r_match_tags r)); cbn; [by rewrite H3|].
    destruct H3 as (mt & -> & F3). cbn.
    pose proof (H (r_drop_tags r)) as H4. destruct (existsb _ (r_drop_tags r)); cbn; [by rewrite H4|].
    destruct H4 as (dt & -> & F4). cbn. eexists; split; [done|]. by repeat split.
  Qed.

  (* a configuration yields the panic of regexp.MustCompile iff one of the patterns of its
     (existing) filter blocks spells a regular expression that does not compile; otherwise it
     yields a handler with exactly one filter per existing named block, in order, every pattern
     string turned into its matcher, and the de-duplicated static tags *)
  Lemma config_total tags c :
    if existsb (pattern_invalid re_ok) (config_patterns c) then handler_of_config re_ok tags c = GoPanic
    else ∃ th, handler_of_config re_ok tags c = Done th
         ∧ Forall2 (filter_of_raw re_ok) (raws_of_config c) (th_filters th)
         ∧ NoDup (th_tags th) ∧ ∀ x, x ∈ th_tags th ↔ x ∈ tags.
  Proof.
    unfold handler_of_config, build_handler, config_patterns. rewrite existsb_concat_map.
    pose proof (rmapM_all_or_panic _ _ _ new_filter_ok_or_panic (raws_of_config c)) as H.
    destruct (existsb _ (raws_of_config c)); [by rewrite H|].
    destruct H as (fs & -> & HF). cbn.
    destruct (new_tag_handler_spec tags fs) as (th & -> & Hfs & Hnd & Hx).
    exists th. rewrite Hfs. done.
  Qed.

  (* no `regex:` spelling in the configuration: the handler is regex-free *)
  Lemma config_regex_free tags c th :
    (∀ p, p ∈ config_patterns c → ∀ neg q, spelling_of p ≠ SpRegex neg q) →
    handler_of_config re_ok tags c = Done th → regex_free th.
  Proof.
    intros Hno Hth. pose proof (config_total tags c) as H.
    destruct (existsb _ (config_patterns c)); [congruence|].
    destruct H as (th' & Hth' & HF & _). assert (th' = th) as -> by congruence. clear Hth Hth'.
    assert (Hsm : ∀ l sms, (∀ p, p ∈ l → ∀ neg q, spelling_of p ≠ SpRegex neg q) →
                           Forall2 (λ p sm, new_string_match re_ok p = Done sm) l sms → ∀ sm, sm ∈ sms → sm_regex sm = false).
    { intros l sms Hl HF2. induction HF2 as [|p sm l sms Hp _ IH]; intros sm' Hin; [by apply elem_of_nil in Hin|].
      apply elem_of_cons in Hin as [->|Hin].
      - pose proof (nsm_spelling re_ok (λ _ _, false) p) as Hs. specialize (Hl p (elem_of_list_here _ _)).
        destruct (spelling_of p) as [neg q|neg q|neg q]; [by destruct (Hl neg q)|..];
          destruct Hs as (sm2 & Hs & Hr & _); congruence.
      - apply IH; [|done]. intros p' Hp'. apply Hl. by right. }
    unfold config_patterns in Hno. intros f Hf. revert Hno HF Hf.
    generalize (raws_of_config c) as raws, (th_filters th) as fs. intros raws fs Hno HF.
    induction HF as [|r f' raws' fs' Hrf _ IH]; intros Hf; [by apply elem_of_nil in Hf|].
    assert (Hr : ∀ p, p ∈ patterns_of_raw r → ∀ neg q, spelling_of p ≠ SpRegex neg q).
    { intros p Hp. apply Hno. cbn. apply elem_of_app. by left. }
    apply elem_of_cons in Hf as [->|Hf].
    - destruct Hrf as (F1 & F2 & F3 & F4 & _). unfold patterns_of_raw in Hr.
      intros sm Hsmin. rewrite !elem_of_app in Hsmin.
      destruct Hsmin as [?|[?|[?|?]]]; [eapply (Hsm _ _ _ F1) | eapply (Hsm _ _ _ F2) | eapply (Hsm _ _ _ F3) | eapply (Hsm _ _ _ F4)]; try done.
      Unshelve. all: intros p Hp; apply Hr; rewrite !elem_of_app; tauto.
    - apply IH; [|done]. intros p Hp. apply Hno. cbn. apply elem_of_app. by right.
  Qed.
End ConfigTotal.

(* The part of "never a silent default" that the code does NOT satisfy: a name in `filters`
   without a [filter.<name>] table is skipped (a warning is logged), the server starts and
   filters nothing. *)
Lemma config_missing_block_skipped :
  ∃ c, cfg_filters c = Some (VList [[97%N]]) ∧
       ∀ re_ok tags, ∃ th, handler_of_config re_ok tags c = Done th ∧ th_filters th = [].
Proof.
  exists (MkCfg (Some (VList [[97%N]])) []). split; [done|]. intros re_ok tags.
  unfold handler_of_config, build_handler. cbn.
  destruct (new_tag_handler_spec tags []) as (th & -> & Hfs & _). by exists th.
Qed.

(* ---------------------------------------------------------------------------------------- *)
(* C10_decidable_spec: without regex patterns the oracle plays no role *)
Section Plain.
  Variable re_match : str → str → bool.

  Lemma sm_match_plain sm s : sm_regex sm = false → sm_match re_match sm s = plain_match sm s.
  Proof. unfold sm_match, plain_match. by intros ->. Qed.

  Lemma existsb_ext_in {A} (f g : A → bool) l : (∀ x, x ∈ l → f x = g x) → existsb f l = existsb g l.
  Proof.
    induction l as [|a l IH]; intros H; cbn; [done|]. rewrite (H a) by by left. f_equal. apply IH.
    intros x Hx. apply H. by right.
  Qed.

  Lemma match_any_existsb l s : match_any re_match l s = existsb (λ p, sm_match re_match p s) l.
  Proof. induction l as [|a l IH]; cbn; [done|]. by destruct (sm_match re_match a s). Qed.

  Lemma match_any_multiple_existsb l ts :
    match_any_multiple re_match l ts = existsb (λ t, existsb (λ p, sm_match re_match p t) l) ts.
  Proof. induction ts as [|t ts IH]; cbn; [done|]. rewrite match_any_existsb. by destruct (existsb _ l). Qed.

  Lemma sat_b_plain f name tags : regex_free_filter f → sat_b re_match f name tags = plain_satisfied f name tags.
  Proof.
    intros Hrf. unfold sat_b, plain_satisfied.
    rewrite !match_any_existsb, match_any_multiple_existsb.
    assert (Hp : ∀ l s, (∀ sm, sm ∈ l → sm ∈ f_match_metrics f ++ f_exclude_metrics f ++ f_match_tags f ++ f_drop_tags f) →
                        existsb (λ p, sm_match re_match p s) l = existsb (λ p, plain_match p s) l).
    { intros l s Hl. apply existsb_ext_in. intros sm Hsm. apply sm_match_plain, Hrf, Hl, Hsm. }
    rewrite (Hp (f_match_metrics f)) by (intros; rewrite !elem_of_app; tauto).
    rewrite (Hp (f_exclude_metrics f)) by (intros; rewrite !elem_of_app; tauto).
    assert (Ht : existsb (λ t, existsb (λ p, sm_match re_match p t) (f_match_tags f)) tags
                 = existsb (λ t, existsb (λ p, plain_match p t) (f_match_tags f)) tags).
    { apply existsb_ext_in. intros t _. apply Hp. intros; rewrite !elem_of_app; tauto. }
    rewrite Ht. destruct (f_match_metrics f), (f_match_tags f); cbn [length Nat.ltb Nat.leb andb negb];
      rewrite ?negb_involutive; done.
  Qed.

  Lemma removed_plain fs name tags t :
    (∀ f, f ∈ fs → regex_free_filter f) →
    removed re_match fs name tags t ↔ t ∈ tags ∧ plain_removed fs name tags t = true.
  Proof.
    intros Hrf. unfold removed, plain_removed. rewrite existsb_exists. split.
    - intros (Ht & f & p & Hf & Hsat & Hp & Hm). split; [done|]. exists f. split; [by apply elem_of_list_In|].
      apply sat_b_spec in Hsat. rewrite sat_b_plain in Hsat by by apply Hrf. rewrite Hsat. cbn.
      apply existsb_exists. exists p. split; [by apply elem_of_list_In|].
      rewrite <- sm_match_plain; [done|]. apply (Hrf f Hf). rewrite !elem_of_app. tauto.
    - intros (Ht & f & Hf & Hb). apply elem_of_list_In in Hf. apply andb_true_iff in Hb as [Hsat Hd].
      apply existsb_exists in Hd as (p & Hp & Hm). apply elem_of_list_In in Hp.
      split; [done|]. exists f, p. split; [done|]. split; [|split; [done|]].
      + apply sat_b_spec. by rewrite sat_b_plain by by apply Hrf.
      + rewrite sm_match_plain; [done|]. apply (Hrf f Hf). rewrite !elem_of_app. tauto.
  Qed.

  Lemma decidable_spec th name src tags :
    regex_free th → NoDup (th_tags th) →
    match plain_output th name src tags with
    | None => unique_filter_add re_match th name src tags = Done None
    | Some (src', stags) => ∃ r, unique_filter_add re_match th name src tags = Done (Some (src', r))
                                 ∧ sort_tags r = stags
    end.
  Proof.
    intros Hrf Hnd. pose proof (unique_filter_add_spec re_match th name src tags) as H. cbn in H.
    unfold plain_output, dropped_b, host_dropped_b in *.
    assert (He : ∀ g : Tags.filter → bool,
               existsb (λ f, sat_b re_match f name tags && g f) (th_filters th)
               = existsb (λ f, plain_satisfied f name tags && g f) (th_filters th)).
    { intros g. apply existsb_ext_in. intros f Hf. by rewrite sat_b_plain by by apply Hrf. }
    rewrite !He in H. destruct (existsb _ (th_filters th)); [done|].
    destruct H as (r & -> & Hx & Hndr). exists r. split; [done|].
    apply sort_tags_perm. specialize (Hndr Hnd).
    match goal with |- _ ≡ₚ first_occ [] ?L => destruct (first_occ_spec L []) as [HndL HxL] end.
    apply NoDup_Permutation; [done..|]. intros x. rewrite Hx, HxL, removed_plain by done.
    rewrite elem_of_app, !elem_of_list_In, !filter_In, <- !elem_of_list_In.
    destruct (plain_removed (th_filters th) name tags x); destruct (mem_str x tags) eqn:Hm;
      [apply mem_str_spec in Hm | apply mem_str_false in Hm | apply mem_str_spec in Hm | apply mem_str_false in Hm];
      cbn [negb andb]; pose proof (not_elem_of_nil x); intuition congruence.
  Qed.

  (* the same at the level of the Each callback: new key and stored series *)
  Lemma decidable_spec_rekey {V} (src_of : V → str) (tags_of : V → list str) (retag : V → str → list str → V) th e :
    regex_free th → NoDup (th_tags th) →
    rekey re_match src_of tags_of retag th e = Done (plain_rekey src_of tags_of retag th e).
  Proof.
    intros Hrf Hnd. destruct e as [[name k0] v]. unfold rekey, plain_rekey. cbn [fst snd].
    pose proof (decidable_spec th name (src_of v) (tags_of v) Hrf Hnd) as H.
    destruct (plain_output th name (src_of v) (tags_of v)) as [[src' stags]|].
    - destruct H as (r & -> & <-). cbn.
      by rewrite (tags_key_perm src' r (sort_tags r)) by (symmetry; apply sort_tags_permutation).
    - by rewrite H.
  Qed.
End Plain.

(* Non-vacuity (config layer + regex-free fragment): FILTERING.md's make-global example written the
   "space separated" way, with mixed-case names / keys, a bool given as the string "T" and a name
   without a table.  The handler is regex-free and the oracle-free specification gives the result. *)
From Coq Require Strings.String.
From GS Require Model.GoPartial.
Module ConfigExample.
  Import Coq.Strings.String GoPartial.
  Import ListNotations.
  Definition cfg : tag_config :=
    MkCfg (Some (VStr (bs "make-global  ghost")))
          [(bs "Make-Global", [(bs "match-metrics", VStr (bs "global.*")); (bs "DROP-HOST", VStr (bs "T"));
                               (bs "drop-tags", VList [bs "host:*"])])].
  Example config_example :
    ∃ th, handler_of_config (λ _, true) [bs "host:b"; bs "env"] cfg = Done th
          ∧ regex_free th ∧ NoDup (th_tags th)
          ∧ plain_output th (bs "global.x") (bs "h") [bs "host:a"; bs "host:b"; bs "host:a"; bs "x"]
            = Some ([], [bs "env"; bs "x"]).
  Proof.
    pose proof (config_total (λ _, true) [bs "host:b"; bs "env"] cfg) as H.
    assert (He : existsb (pattern_invalid (λ _, true)) (config_patterns cfg) = false) by reflexivity.
    rewrite He in H. destruct H as (th & Hth & _ & Hnd & _). exists th. split; [done|].
    split; [|split; [done|]].
    - eapply config_regex_free; [|exact Hth]. intros p Hp neg q Hs.
      apply elem_of_list_In in Hp. vm_compute in Hp. destruct Hp as [<-|[<-|[]]]; vm_compute in Hs; discriminate.
    - assert (Hth' : handler_of_config (λ _, true) [bs "host:b"; bs "env"] cfg
                     = Done (MkTH [bs "host:b"; bs "env"] [MkFilter [MkSM (bs "global.") false true false] [] []
                                                                    [MkSM (bs "host:") false true false] false true])) by reflexivity.
      rewrite Hth' in Hth. injection Hth as <-. reflexivity.
  Qed.
End ConfigExample.
