(* The variance comparison of the C08 correspondence, literally:
     var_close n smax (qvariance xs) (Qc_of_bits stddev * Qc_of_bits stddev)
   i.e. |Var - stddev^2| <= 1e-9 * Var + 5 * (n u)^2 * smax^2  (Corr/C08Single.v, check_single;
   Corr/C08Full.v, timer_matches) holds for an implementation that computes the deviation as the Go
   code does (Model/FloatSum.go_stddev), by Proofs/FloatVar.tolerance_sound_variance. *)
From Coq Require Import List ZArith QArith Qcanon Qreals Reals Floats Lia Lra Permutation.
From Flocq Require Import Core.Core.
From GS Require Import Base.GoFloat.
From GS Require Import Model.Stats.
From GS Require Import Model.FloatSum.
From GS Require Import Corr.C08Single.
From GS Require Import Proofs.FloatSumReal.
From GS Require Import Proofs.FloatSumOps.
From GS Require Import Proofs.FloatSum.
From GS Require Import Proofs.FloatSumQc.
From GS Require Import Proofs.FloatVar.
Import ListNotations.
Local Open Scope R_scope.

Lemma QR_qnat k : QR (qnat k) = INR k.
Proof. unfold qnat, Qc_of_Z. rewrite QR_Q2Qc. unfold Q2R. cbn. rewrite INR_IZR_INZ. lra. Qed.

Lemma QR_div a b : QR b <> 0 -> QR (a / b)%Qc = QR a / QR b.
Proof.
  intros Hb. unfold Qcdiv. rewrite QR_mult. unfold Qcinv. rewrite QR_Q2Qc, Q2R_inv; [reflexivity|].
  intros E. apply Hb. unfold QR. rewrite (Qeq_eqR _ _ E). unfold Q2R. cbn. lra.
Qed.

Lemma QR_qmean l : (0 < length l)%nat -> QR (qmean l) = rsum (map QR l) / INR (length l).
Proof.
  intros Hl. unfold qmean. rewrite QR_div, QR_qsum, QR_qnat; [reflexivity|].
  rewrite QR_qnat. apply not_0_INR. lia.
Qed.

Lemma QR_qvariance l : (0 < length l)%nat ->
  QR (qvariance l) = rdev (rsum (map QR l) / INR (length l)) (map QR l) / INR (length l).
Proof.
  intros Hl. unfold qvariance. rewrite QR_div, QR_qsum, QR_qnat; [|rewrite QR_qnat; apply not_0_INR; lia].
  f_equal. unfold rdev. rewrite !map_map. f_equal. apply map_ext. intros x.
  rewrite QR_mult, QR_minus, QR_qmean by exact Hl. reflexivity.
Qed.

Lemma QR_qmax_l a b : QR a <= QR (qmax a b).
Proof.
  unfold qmax. destruct (Qcleb a b) eqn:E; [apply Qcleb_QR; exact E|apply Rle_refl].
Qed.
Lemma QR_qmax_r a b : QR b <= QR (qmax a b).
Proof.
  unfold qmax. destruct (Qcleb a b) eqn:E; [apply Rle_refl|].
  destruct (Rle_or_lt (QR a) (QR b)) as [H|H]; [apply Qcleb_QR in H; congruence|lra].
Qed.

Lemma scale_max_ge l q : In q l -> Rabs (QR q) <= QR (scale_max l).
Proof.
  unfold scale_max. induction l as [|a l IH]; intros Hin; [destruct Hin|].
  cbn [map fold_right]. destruct Hin as [->|Hin].
  - rewrite <- QR_qabs. apply QR_qmax_l.
  - eapply Rle_trans; [apply IH; exact Hin|apply QR_qmax_r].
Qed.

Lemma QR_u53 : QR u53 = u.
Proof. unfold u53. rewrite QR_Q2Qc, u_val. unfold Q2R. cbn. lra. Qed.
Lemma QR_of_Z5 : QR (Qc_of_Z 5) = 5.
Proof. unfold Qc_of_Z. rewrite QR_Q2Qc. unfold Q2R. cbn. lra. Qed.

Lemma var_close_QR k smax var obs2 :
  var_close k smax var obs2 = true <->
  Rabs (QR var - QR obs2) <= / 1000000000 * QR var + 5 * ((INR k * u) * (INR k * u)) * (QR smax * QR smax).
Proof.
  unfold var_close, var_tol. rewrite Qcleb_QR, QR_qabs, QR_minus, QR_plus, !QR_mult, QR_tol, QR_of_Z5, QR_qnat, QR_u53. tauto.
Qed.

Lemma rdev_perm c l l' : Permutation l l' -> rdev c l = rdev c l'.
Proof. intros H. unfold rdev. apply rsum_perm, Permutation_map, H. Qed.

Section VarianceQc.
  Variables bs bs' : list Z.
  Hypothesis Hperm : Permutation bs bs'.
  Let xs := map float_of_bits bs'.
  Variable count : PrimFloat.float.
  Variable o : Z.                                   (* the bit pattern of the reported StdDev *)

  Hypothesis Hn0 : (0 < length bs)%nat.
  Hypothesis Hn : (Z.of_nat (length bs) <= 1000000)%Z.
  Hypothesis Fcount : FloatSumOps.fin count.
  Hypothesis Hcount : FR count = INR (length bs).
  Hypothesis Hf : Forall FloatSumOps.fin xs.
  Hypothesis Hcum : Forall FloatSumOps.fin (go_cumulative xs).
  Hypothesis Fmh : FloatSumOps.fin (go_mean xs count).
  Hypothesis Hmq : FR (go_sum xs) / FR count = 0 \/ bpow radix2 (-1022) <= Rabs (FR (go_sum xs) / FR count).
  Hypothesis Hgood : Forall (dev_good (go_mean xs count)) xs.
  Hypothesis Hpart : Forall FloatSumOps.fin (partials (dev_term (go_mean xs count)) 0%float xs).
  Hypothesis Fvar : FloatSumOps.fin (go_variance xs count).
  Hypothesis Hvq : FR (go_sum_of_diffs xs (go_mean xs count)) / FR count = 0
                   \/ bpow radix2 (-1022) <= Rabs (FR (go_sum_of_diffs xs (go_mean xs count)) / FR count).
  Hypothesis Ho : float_of_bits o = go_stddev xs count.

  Theorem tolerance_sound_variance_qc :
    var_close (length bs) (scale_max (map Qc_of_bits bs))
              (qvariance (map Qc_of_bits bs)) (Qc_of_bits o * Qc_of_bits o) = true.
  Proof.
    apply var_close_QR. rewrite !QR_mult, QR_of_bits, Ho.
    assert (Hlen : length xs = length bs) by (unfold xs; rewrite map_length; symmetry; apply Permutation_length, Hperm).
    rewrite QR_qvariance by (rewrite map_length; exact Hn0).
    rewrite map_QR_bits, !map_length.
    assert (Hp : Permutation (map FR (map float_of_bits bs)) (map FR xs)) by (unfold xs; apply Permutation_map, Permutation_map, Hperm).
    rewrite (rsum_perm _ _ Hp), (rdev_perm _ _ _ Hp). rewrite <- Hlen.
    change (rsum (map FR xs)) with (Rsum xs). fold (exact_variance xs).
    rewrite Rabs_minus_sym.
    apply (tolerance_sound_variance xs count (QR (scale_max (map Qc_of_bits bs)))); try assumption; try (rewrite Hlen; assumption).
    rewrite Forall_forall. intros x Hx. unfold xs in Hx. apply in_map_iff in Hx as (b & <- & Hb).
    rewrite <- QR_of_bits. apply scale_max_ge. apply in_map. apply Permutation_sym in Hperm. eapply Permutation_in; eassumption.
  Qed.
End VarianceQc.
