(* The three InfluxDB escapers of Model/InfluxEsc.v have left inverses, hence are injective. *)
From Coq Require Import Lia ZifyBool ZifyN.
From GS Require Import Base.Bytes Model.Batching Model.InfluxEsc.
Local Open Scope N_scope.

Lemma unescape_escape_with (special : N -> bool) :
  special c_bslash = true ->
  (forall ch, special ch = true -> ch <> c_n /\ ch <> c_r /\ ch <> c_t) ->
  forall s, unescape_nt (escape_with special s) = s.
Proof.
  intros Hb Hs. induction s as [|ch r IH]; [reflexivity|].
  cbn [escape_with].
  destruct (N.eqb_spec ch c_nl) as [->|Hnl]; [cbn; now rewrite IH|].
  destruct (N.eqb_spec ch c_cr) as [->|Hcr]; [cbn; now rewrite IH|].
  destruct (N.eqb_spec ch c_tab) as [->|Htab]; [cbn; now rewrite IH|].
  destruct (special ch) eqn:E.
  - destruct (Hs ch E) as (Hn & Hr & Ht).
    cbn [unescape_nt]. change (c_bslash =? c_bslash) with true. cbn iota.
    destruct (N.eqb_spec ch c_n); [contradiction|].
    destruct (N.eqb_spec ch c_r); [contradiction|].
    destruct (N.eqb_spec ch c_t); [contradiction|]. now rewrite IH.
  - cbn [unescape_nt]. destruct (N.eqb_spec ch c_bslash) as [->|_]; [congruence|]. now rewrite IH.
Qed.

Lemma tag_special_ok ch : tag_special ch = true -> ch <> c_n /\ ch <> c_r /\ ch <> c_t.
Proof. unfold tag_special, c_space, c_comma, c_bslash, c_eq, c_n, c_r, c_t. lia. Qed.
Lemma name_special_ok ch : name_special ch = true -> ch <> c_n /\ ch <> c_r /\ ch <> c_t.
Proof. unfold name_special, c_space, c_comma, c_bslash, c_n, c_r, c_t. lia. Qed.

Lemma unescape_escape_tag s : unescape_tag (escape_tag s) = s.
Proof. apply unescape_escape_with; [reflexivity | exact tag_special_ok]. Qed.
Lemma unescape_escape_name s : unescape_name (escape_name s) = s.
Proof. apply unescape_escape_with; [reflexivity | exact name_special_ok]. Qed.

Lemma unescape_escape_string_body s : unescape_string_body (escape_string_body s) = s.
Proof.
  induction s as [|ch r IH]; [reflexivity|]. cbn [escape_string_body].
  destruct ((ch =? c_bslash) || (ch =? c_dq)) eqn:E.
  - cbn [unescape_string_body]. change (c_bslash =? c_bslash) with true. cbn iota. now rewrite IH.
  - cbn [unescape_string_body]. destruct (N.eqb_spec ch c_bslash) as [->|_]; [discriminate|]. now rewrite IH.
Qed.
Lemma unescape_escape_string s : unescape_string (escape_string s) = s.
Proof.
  unfold escape_string, unescape_string. rewrite removelast_last. apply unescape_escape_string_body.
Qed.

Lemma influx_escape_injective :
  (forall s, unescape_tag (escape_tag s) = s)
  /\ (forall s, unescape_name (escape_name s) = s)
  /\ (forall s, unescape_string (escape_string s) = s)
  /\ (forall a b, escape_tag a = escape_tag b -> a = b)
  /\ (forall a b, escape_name a = escape_name b -> a = b)
  /\ (forall a b, escape_string a = escape_string b -> a = b).
Proof.
  repeat split; try apply unescape_escape_tag; try apply unescape_escape_name; try apply unescape_escape_string;
    intros a b H.
  - rewrite <- (unescape_escape_tag a), <- (unescape_escape_tag b). now rewrite H.
  - rewrite <- (unescape_escape_name a), <- (unescape_escape_name b). now rewrite H.
  - rewrite <- (unescape_escape_string a), <- (unescape_escape_string b). now rewrite H.
Qed.

(* the escaped forms contain no unescaped separator: in an escaped tag every ',' '=' ' ' is
   preceded by a backslash that is itself not escaped -- stated through the scanner a line reader
   uses: scanning the escaped text for an unescaped separator finds none *)
Fixpoint scan_unescaped (stop : N -> bool) (s : str) : bool :=
  match s with
  | [] => false
  | ch :: r =>
      if ch =? c_bslash then match r with [] => false | _ :: r' => scan_unescaped stop r' end
      else stop ch || scan_unescaped stop r
  end.
Lemma escape_no_unescaped_sep (special : N -> bool) (stop : N -> bool) :
  special c_bslash = true ->
  (forall ch, stop ch = true -> special ch = true) ->
  stop c_nl = false -> stop c_cr = false -> stop c_tab = false ->
  forall s, scan_unescaped stop (escape_with special s) = false.
Proof.
  intros Hb Hstop H1 H2 H3. induction s as [|ch r IH]; [reflexivity|].
  cbn [escape_with].
  destruct (N.eqb_spec ch c_nl) as [->|Hnl]; [cbn; exact IH|].
  destruct (N.eqb_spec ch c_cr) as [->|Hcr]; [cbn; exact IH|].
  destruct (N.eqb_spec ch c_tab) as [->|Htab]; [cbn; exact IH|].
  destruct (special ch) eqn:E.
  - cbn [scan_unescaped]. change (c_bslash =? c_bslash) with true. cbn iota. exact IH.
  - cbn [scan_unescaped]. destruct (N.eqb_spec ch c_bslash) as [->|_]; [congruence|].
    destruct (stop ch) eqn:S; [rewrite (Hstop ch S) in E; discriminate|]. exact IH.
Qed.

Lemma influx_tag_splits s :
  scan_unescaped (fun ch => (ch =? c_comma) || (ch =? c_eq) || (ch =? c_space)) (escape_tag s) = false.
Proof.
  apply escape_no_unescaped_sep; try reflexivity.
  intros ch H. unfold tag_special. unfold c_comma, c_eq, c_space, c_bslash in *. lia.
Qed.
Lemma influx_name_splits s :
  scan_unescaped (fun ch => (ch =? c_comma) || (ch =? c_space)) (escape_name s) = false.
Proof.
  apply escape_no_unescaped_sep; try reflexivity.
  intros ch H. unfold name_special. unfold c_comma, c_space, c_bslash in *. lia.
Qed.

Example escape_tag_sample :
  escape_tag [97; 61; 98; 32; 44; 92; 10] = [97; 92; 61; 98; 92; 32; 92; 44; 92; 92; 92; 110].
Proof. reflexivity. Qed.
