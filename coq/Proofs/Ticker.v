(* Proofs about Model/Ticker.v: the rounding arithmetic of aligned_ticker.go.  The invariant of
   the LTS and the theorems about every label sequence are in Proofs/TickerLTS.v. *)
From Coq Require Import ZArith List Bool Lia Sorted.
From GS Require Import Base.LTS Model.Ticker.
Import ListNotations.
Local Open Scope Z_scope.

Arguments Z.mul : simpl never.
Arguments Z.add : simpl never.
Arguments Z.sub : simpl never.
Arguments Z.modulo : simpl never.
Arguments Z.div : simpl never.

(* ---------------------------------------------------------------------------------------- *)
(* Rounding arithmetic *)

Lemma truncate_pos t i : 0 < i -> truncate t i = t - t mod i.
Proof. intros Hi; unfold truncate; destruct (Z.leb_spec i 0); [lia|reflexivity]. Qed.

Lemma sat_dur_id d : min_dur <= d <= max_dur -> sat_dur d = d.
Proof.
  unfold sat_dur; intros H.
  destruct (Z.ltb_spec max_dur d); [lia|]. destruct (Z.ltb_spec d min_dur); [lia|reflexivity].
Qed.

(* period index of an instant: number of whole intervals between the offset and t *)
Definition idx (i o t : Z) : Z := (t - o) / i.

Lemma round_tick_idx t i o : 0 < i -> round_tick t i o = o + i * idx i o t.
Proof.
  intros Hi; unfold round_tick, idx; rewrite truncate_pos by exact Hi.
  pose proof (Z.div_mod (t - o) i ltac:(lia)); lia.
Qed.

Lemma idx_shift i o t k : 0 < i -> idx i o (t + k * i) = idx i o t + k.
Proof.
  intros Hi; unfold idx. replace (t + k * i - o) with (t - o + k * i) by lia.
  apply Z.div_add; lia.
Qed.

Lemma idx_mono i o t u : 0 < i -> t <= u -> idx i o t <= idx i o u.
Proof. intros Hi H; unfold idx; apply Z.div_le_mono; lia. Qed.

Lemma idx_bounds i o t : 0 < i -> o + i * idx i o t <= t < o + i * idx i o t + i.
Proof.
  intros Hi; unfold idx.
  pose proof (Z.div_mod (t - o) i ltac:(lia)); pose proof (Z.mod_pos_bound (t - o) i Hi); lia.
Qed.

Lemma idx_of_boundary i o k : 0 < i -> idx i o (o + i * k) = k.
Proof.
  intros Hi; unfold idx. replace (o + i * k - o) with (k * i) by lia. apply Z.div_mul; lia.
Qed.

Lemma on_boundary_iff i o t : 0 < i -> on_boundary i o t <-> t = o + i * idx i o t.
Proof.
  intros Hi; unfold on_boundary, idx.
  pose proof (Z.div_mod (t - o) i ltac:(lia)); lia.
Qed.

Lemma on_boundary_mul i o k : 0 < i -> on_boundary i o (o + i * k).
Proof.
  intros Hi; unfold on_boundary. replace (o + i * k - o) with (k * i) by lia. apply Z.mod_mul; lia.
Qed.

Lemma round_tick_aligned t i o :
  0 < i ->
  on_boundary i o (round_tick t i o) /\ round_tick t i o <= t < round_tick t i o + i.
Proof.
  intros Hi; rewrite round_tick_idx by exact Hi; split.
  - apply on_boundary_mul; exact Hi.
  - apply idx_bounds; exact Hi.
Qed.

(* the rounded value is the only boundary in (t - i, t] *)
Lemma round_tick_unique t i o b :
  0 < i -> on_boundary i o b -> b <= t < b + i -> b = round_tick t i o.
Proof.
  intros Hi Hb Ht. rewrite round_tick_idx by exact Hi.
  apply on_boundary_iff in Hb; [|exact Hi].
  pose proof (idx_bounds i o t Hi) as Hq.
  assert (idx i o b = idx i o t) by nia.
  lia.
Qed.

Lemma initial_wait_eq start i o :
  0 < i <= max_dur -> initial_wait start i o = i - (start - o) mod i.
Proof.
  intros Hi; unfold initial_wait, time_sub, roundup; rewrite truncate_pos by lia.
  pose proof (Z.mod_pos_bound (start - o) i ltac:(lia)).
  rewrite sat_dur_id; [lia|]. unfold min_dur, max_dur in *; lia.
Qed.

Lemma initial_wait_spec start i o :
  0 < i <= max_dur ->
  0 < initial_wait start i o <= i /\ on_boundary i o (start + initial_wait start i o).
Proof.
  intros Hi; rewrite initial_wait_eq by exact Hi.
  pose proof (Z.mod_pos_bound (start - o) i ltac:(lia)) as Hm; split; [lia|].
  unfold on_boundary.
  pose proof (Z.div_mod (start - o) i ltac:(lia)) as Hd.
  replace (start + (i - (start - o) mod i) - o) with (((start - o) / i + 1) * i) by lia.
  apply Z.mod_mul; lia.
Qed.

(* start + wait is the first boundary strictly after start *)
Lemma initial_wait_first start i o b :
  0 < i <= max_dur -> on_boundary i o b -> start < b -> start + initial_wait start i o <= b.
Proof.
  intros Hi Hb Hlt.
  destruct (initial_wait_spec start i o Hi) as [Hw Hbw].
  apply on_boundary_iff in Hb; [|lia]. apply on_boundary_iff in Hbw; [|lia].
  set (w := initial_wait start i o) in *.
  assert (idx i o (start + w) <= idx i o b); [|nia].
  assert (idx i o start < idx i o b).
  { pose proof (idx_bounds i o start ltac:(lia)). nia. }
  assert (idx i o (start + w) <= idx i o start + 1); [|lia].
  replace (idx i o start + 1) with (idx i o (start + 1 * i)) by (rewrite idx_shift; lia).
  apply idx_mono; lia.
Qed.
