(* Lemmas about Model/Expiry.v (C09), part 1: every aggregator operation acts pointwise on the
   series, so the life of one series (type, key) is a small state machine over its timestamp
   ([ts_of]); the history theorems are proved on that machine. *)
From stdpp Require Import gmap.
From Coq Require Import QArith Qcanon Qround Sorted Lia.
From GS Require Import Base.Bytes Model.Lexer Model.Series Model.MetricMap Model.Expiry.
Local Open Scope Z_scope.

Lemma is_expired_spec i now ts : is_expired i now ts = true <-> i <> 0 /\ now - ts > i.
Proof. unfold is_expired. rewrite andb_true_iff, negb_true_iff, Z.eqb_neq, Z.ltb_lt. lia. Qed.

Global Instance mtype_eq_dec : EqDecision mtype.
Proof. solve_decision. Defined.
Global Instance of_series_dec ty k d : Decision (of_series ty k d).
Proof. unfold of_series. apply _. Defined.

(* ---- the timestamp of a series in a metric map ----------------------------------------- *)

Definition ts_of (ty : mtype) (k : skey) (m : mmap) : option Z :=
  match ty with
  | Counter => c_ts <$> counters m !! k
  | Gauge => g_ts <$> gauges m !! k
  | Timer => t_ts <$> timers m !! k
  | MSet => s_ts <$> sets m !! k
  end.

Definition ts_join (a b : option Z) : option Z :=
  match a, b with
  | Some x, Some y => Some (Z.max x y)
  | Some x, None => Some x
  | None, y => y
  end.

Definition ts_add (acc : option Z) (t : Z) : option Z :=
  Some (match acc with Some t0 => Z.max t0 t | None => t end).

Lemma ts_of_empty ty k : ts_of ty k empty_map = None.
Proof. destruct ty; reflexivity. Qed.

Lemma ts_of_receive ty k m d :
  ts_of ty k (receive m d) = if decide (of_series ty k d) then ts_add (ts_of ty k m) (dp_ts d) else ts_of ty k m.
Proof.
  unfold of_series, receive, ts_add.
  destruct (decide _) as [[Ht Hk]|Hn].
  - subst ty k. destruct (dp_type d); cbn [ts_of counters timers gauges sets];
      rewrite lookup_insert; cbn.
    + destruct (counters m !! dp_key d); reflexivity.
    + destruct (gauges m !! dp_key d) as [g|]; cbn; [|reflexivity].
      destruct (Z.leb_spec (g_ts g) (dp_ts d)); cbn; f_equal; lia.
    + destruct (timers m !! dp_key d); reflexivity.
    + destruct (sets m !! dp_key d); reflexivity.
  - destruct ty, (dp_type d) eqn:E; cbn [ts_of counters timers gauges sets]; try reflexivity;
      (rewrite lookup_insert_ne; [reflexivity|]); intros Hk; apply Hn; split; congruence.
Qed.

Lemma ts_of_merge ty k a b : ts_of ty k (merge a b) = ts_join (ts_of ty k a) (ts_of ty k b).
Proof.
  destruct ty; cbn [ts_of merge counters timers gauges sets]; rewrite lookup_union_with.
  - destruct (counters a !! k), (counters b !! k); reflexivity.
  - destruct (gauges a !! k) as [x|], (gauges b !! k) as [y|]; cbn; try reflexivity.
    unfold merge_gauge. destruct (Z.ltb_spec (g_ts x) (g_ts y)); cbn; f_equal; lia.
  - destruct (timers a !! k), (timers b !! k); reflexivity.
  - destruct (sets a !! k), (sets b !! k); reflexivity.
Qed.

Definition expire (i now : Z) (t : Z) : option Z := if is_expired i now t then None else Some t.

Lemma ts_of_reset ty k cfg now a :
  ts_of ty k (agg_reset cfg now a) = ts_of ty k a ≫= expire (interval cfg ty) now.
Proof.
  destruct ty; cbn [ts_of agg_reset counters timers gauges sets interval]; rewrite lookup_omap.
  - destruct (counters a !! k) as [x|]; cbn; [|reflexivity]. unfold keep, expire.
    destruct (is_expired _ _ _); reflexivity.
  - destruct (gauges a !! k) as [x|]; cbn; [|reflexivity]. unfold keep, expire.
    destruct (is_expired _ _ _); reflexivity.
  - destruct (timers a !! k) as [x|]; cbn; [|reflexivity]. unfold keep, expire.
    destruct (is_expired _ _ _); reflexivity.
  - destruct (sets a !! k) as [x|]; cbn; [|reflexivity]. unfold keep, expire.
    destruct (is_expired _ _ _); reflexivity.
Qed.

Lemma reported_ts_of ty k lim dt a : reported ty k (flush_report lim dt a) <-> is_Some (ts_of ty k a).
Proof.
  destruct ty; cbn [reported ts_of flush_report r_counters r_timers r_gauges r_sets];
    rewrite lookup_fmap, !fmap_is_Some; reflexivity.
Qed.

(* ---- the timestamp of a series in a batch ------------------------------------------------ *)

Definition fold_ts (ty : mtype) (k : skey) (acc : option Z) (ds : list datapoint) : option Z :=
  fold_left (fun acc d => if decide (of_series ty k d) then ts_add acc (dp_ts d) else acc) ds acc.

Lemma ts_of_receive_all ty k ds : forall m, ts_of ty k (receive_all m ds) = fold_ts ty k (ts_of ty k m) ds.
Proof.
  unfold receive_all, fold_ts. induction ds as [|d r IH]; intros m; cbn; [reflexivity|].
  rewrite IH, ts_of_receive. reflexivity.
Qed.

Lemma ts_of_batch ty k ds : ts_of ty k (batch_map ds) = fold_ts ty k None ds.
Proof. unfold batch_map. rewrite ts_of_receive_all, ts_of_empty. reflexivity. Qed.

Lemma fold_ts_quiet ty k ds : forall acc,
  (forall d, In d ds -> ~ of_series ty k d) -> fold_ts ty k acc ds = acc.
Proof.
  unfold fold_ts. induction ds as [|d r IH]; intros acc Hq; cbn; [reflexivity|].
  destruct (decide _) as [Hs|_]; [exfalso; apply (Hq d); [left; reflexivity|exact Hs]|].
  apply IH. intros d' Hin. apply Hq. right; exact Hin.
Qed.

Lemma fold_ts_in ty k ds : forall acc t,
  fold_ts ty k acc ds = Some t -> acc = Some t \/ exists d, In d ds /\ of_series ty k d /\ dp_ts d = t.
Proof.
  unfold fold_ts. induction ds as [|d r IH]; intros acc t H; cbn in H; [left; exact H|].
  apply IH in H. destruct H as [H|(d' & Hin & Hs & Ht)].
  - destruct (decide _) as [Hs|_]; [|left; exact H].
    unfold ts_add in H. injection H as H. destruct acc as [t0|].
    + destruct (Z.max_spec t0 (dp_ts d)) as [[_ E]|[_ E]]; rewrite E in H.
      * right. exists d. split; [left; reflexivity|split; [exact Hs|exact H]].
      * left. f_equal. exact H.
    + right. exists d. split; [left; reflexivity|split; [exact Hs|exact H]].
  - right. exists d'. split; [right; exact Hin|split; assumption].
Qed.

Lemma fold_ts_is_Some ty k ds : forall acc, is_Some acc -> is_Some (fold_ts ty k acc ds).
Proof.
  unfold fold_ts. induction ds as [|d r IH]; intros acc H; cbn; [exact H|].
  apply IH. destruct (decide _); [unfold ts_add; eexists; reflexivity|exact H].
Qed.

(* the last datapoint of the series in a time-ordered batch gives the batch timestamp *)
Lemma fold_ts_last ty k ds1 d ds2 acc :
  of_series ty k d ->
  (forall d', In d' ds2 -> ~ of_series ty k d') ->
  (forall t, acc = Some t -> t <= dp_ts d) ->
  (forall d', In d' ds1 -> dp_ts d' <= dp_ts d) ->
  fold_ts ty k acc (ds1 ++ d :: ds2) = Some (dp_ts d).
Proof.
  intros Hs Hq Hacc Hle. unfold fold_ts. rewrite fold_left_app. cbn.
  destruct (decide _) as [_|Hn]; [|contradiction].
  fold (fold_ts ty k acc ds1). fold (fold_ts ty k (ts_add (fold_ts ty k acc ds1) (dp_ts d)) ds2).
  rewrite fold_ts_quiet by exact Hq. unfold ts_add. f_equal.
  destruct (fold_ts ty k acc ds1) as [t1|] eqn:E; [|reflexivity].
  apply fold_ts_in in E. destruct E as [E|(d' & Hin & _ & Ht)].
  - specialize (Hacc _ E). lia.
  - specialize (Hle _ Hin). lia.
Qed.
