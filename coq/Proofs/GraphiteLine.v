(* The reference Graphite plaintext reader (Model/GraphiteLine.v) reads every line the Graphite
   backend model prints, in its three modes, back to the entry it was printed from -- under
   [gentry_ok]. *)
From Coq Require Import Lia ZifyBool ZifyNat ZifyN.
From GS Require Import Base.Bytes Model.Batching Model.InfluxEsc Model.InfluxLine Model.GraphiteLine.
From GS Require Import Proofs.Relay Proofs.InfluxLine.
Local Open Scope N_scope.

(* ---- segments *)
Lemma seg_ok_app a b : seg_ok (a ++ b) = seg_ok a && seg_ok b.
Proof. unfold seg_ok. apply forallb_app. Qed.
Lemma keep_seg b : keep_byte b = true -> seg_byte b = true.
Proof.
  unfold keep_byte, seg_byte, is_alnum, is_lower, is_upper, is_digit, c_us, c_dot, c_dash, c_space, c_semi, c_nl, c_0, c_9. lia.
Qed.
Lemma seg_ok_normalize s : seg_ok (normalize_metric_name s) = true.
Proof.
  unfold normalize_metric_name, seg_ok. generalize (replace_all c_slash c_dash (collapse_ws false s)).
  intros l. induction l as [|b l IH]; [reflexivity|]. cbn [filter]. destruct (keep_byte b) eqn:E; [|exact IH].
  cbn [forallb]. now rewrite (keep_seg _ E).
Qed.
Lemma seg_ok_base c ns name suffix :
  seg_ok ns = true -> seg_ok suffix = true -> seg_ok (g_suffix c) = true -> seg_ok (base_path c ns name suffix) = true.
Proof.
  intros H1 H2 H3. unfold base_path. rewrite !seg_ok_app, seg_ok_normalize.
  destruct ns; destruct suffix; destruct (g_suffix c); cbn [andb seg_ok forallb] in *;
    rewrite ?seg_ok_app; cbn [seg_ok forallb]; unfold seg_ok in *; rewrite ?H1, ?H2, ?H3; reflexivity.
Qed.

Lemma seg_ok_replace_first t : seg_ok t = true -> seg_ok (replace_first c_colon 61 t) = true.
Proof.
  unfold seg_ok. induction t as [|b t IH]; [reflexivity|]. cbn [forallb replace_first]. intros H.
  apply andb_prop in H. destruct H as [Hb Ht]. destruct (b =? c_colon); cbn [forallb]; [now rewrite Ht | now rewrite Hb, IH].
Qed.
Lemma seg_ok_graphite_tag t : seg_ok t = true -> seg_ok (as_graphite_tag t) = true.
Proof.
  intros H. unfold as_graphite_tag. destruct (existsb (N.eqb c_colon) t); [now apply seg_ok_replace_first|].
  rewrite seg_ok_app. cbn [seg_ok forallb] in *. unfold seg_ok in H. now rewrite H.
Qed.

(* the rendered tag segments of a path *)
Definition rendered (c : gcfg) (src : str) (tags : list str) : list str :=
  if g_tags c then
    map as_graphite_tag tags
    ++ (if existsb (has_prefix s_host_colon) tags then []
        else match src with [] => [] | _ => [n_host ++ 61 :: src] end)
  else [].
Lemma prepare_name_eq c ns name suffix src tags :
  prepare_name c ns name suffix src tags
  = base_path c ns name suffix ++ concat (map (cons c_semi) (rendered c src tags)).
Proof.
  unfold prepare_name, base_path, rendered. rewrite <- !app_assoc. do 4 f_equal.
  destruct (g_tags c); [|reflexivity]. rewrite map_app, concat_app, map_map. f_equal.
  destruct (existsb (has_prefix s_host_colon) tags); [reflexivity|]. destruct src; [reflexivity|].
  cbn [map concat]. now rewrite app_nil_r.
Qed.

Lemma split_on_bytes x : seg_ok x = true -> forall cur rest,
  split_on c_semi cur (x ++ rest) = split_on c_semi (rev x ++ cur) rest.
Proof.
  unfold seg_ok. induction x as [|b x IH]; intros H cur rest; [reflexivity|].
  cbn [forallb] in H. apply andb_prop in H. destruct H as [Hb Hx].
  cbn [app split_on]. assert ((b =? c_semi) = false) as -> by (unfold seg_byte in Hb; lia).
  rewrite (IH Hx). cbn [rev]. now rewrite <- app_assoc.
Qed.
Lemma split_on_segments segs : forallb seg_ok segs = true -> forall x cur, seg_ok x = true ->
  split_on c_semi cur (x ++ concat (map (cons c_semi) segs)) = (rev cur ++ x) :: segs.
Proof.
  induction segs as [|s segs IH]; intros H x cur Hx.
  - cbn [map concat]. rewrite (split_on_bytes x Hx). cbn [split_on]. now rewrite rev_app_distr, rev_involutive.
  - cbn [forallb] in H. apply andb_prop in H. destruct H as [Hs Hsegs].
    cbn [map concat]. rewrite (split_on_bytes x Hx). cbn [app split_on]. change (c_semi =? c_semi) with true. cbn iota.
    rewrite rev_app_distr, rev_involutive. f_equal. exact (IH Hsegs s [] Hs).
Qed.

(* ---- tags *)
Lemma split_colon_exists t : existsb (N.eqb c_colon) t = true -> exists k v, split_colon t = Some (k, v).
Proof.
  induction t as [|b t IH]; [discriminate|]. cbn [existsb split_colon]. rewrite (N.eqb_sym c_colon b).
  destruct (b =? c_colon); [intros _; eexists; eexists; reflexivity|]. cbn [orb]. intros H.
  destruct (IH H) as (k & v & E). rewrite E. eexists; eexists; reflexivity.
Qed.
Lemma split_colon_none t : existsb (N.eqb c_colon) t = false -> split_colon t = None.
Proof.
  induction t as [|b t IH]; [reflexivity|]. cbn [existsb split_colon]. rewrite (N.eqb_sym c_colon b).
  destruct (b =? c_colon); [discriminate|]. cbn [orb]. intros H. now rewrite (IH H).
Qed.
Lemma split_eq_replaced t : forall k v, split_colon t = Some (k, v) ->
  forallb (fun b => negb (b =? c_eq)) k = true -> split_eq (replace_first c_colon 61 t) = Some (k, v).
Proof.
  induction t as [|b t IH]; intros k v H Hk; [discriminate|]. cbn [split_colon replace_first] in *.
  destruct (b =? c_colon).
  - injection H as <- <-. reflexivity.
  - destruct (split_colon t) as [[k' v']|] eqn:E; [|discriminate]. injection H as <- <-.
    cbn [forallb] in Hk. apply andb_prop in Hk. destruct Hk as [Hb Hk'].
    cbn [split_eq]. destruct (b =? c_eq); [discriminate|]. now rewrite (IH k' v' eq_refl Hk').
Qed.
Lemma tag_name_no_eq k : forallb tag_name_byte_ok k = true -> forallb (fun b => negb (b =? c_eq)) k = true.
Proof.
  apply forallb_impl. intros b. unfold tag_name_byte_ok. destruct (b =? c_eq); [|reflexivity].
  now rewrite !orb_true_r.
Qed.
Lemma split_eq_graphite_tag t : gtag_ok t = true ->
  split_eq (as_graphite_tag t) = Some (gtag_of t) /\ (let (k, v) := gtag_of t in tag_parts_ok k v) = true.
Proof.
  unfold gtag_ok. intros H. apply andb_prop in H. destruct H as [_ Hp]. split; [|exact Hp].
  unfold as_graphite_tag, gtag_of in *. destruct (existsb (N.eqb c_colon) t) eqn:E.
  - destruct (split_colon_exists t E) as (k & v & Ec). rewrite Ec in *.
    apply split_eq_replaced; [exact Ec|]. unfold tag_parts_ok in Hp.
    apply andb_prop in Hp. destruct Hp as [Hp _]. apply andb_prop in Hp. destruct Hp as [Hp _].
    apply andb_prop in Hp. destruct Hp as [_ Hk]. apply tag_name_no_eq. exact Hk.
  - rewrite (split_colon_none t E). reflexivity.
Qed.

Lemma parse_gtags_rendered tags : forallb gtag_ok tags = true -> forall extra ets,
  parse_gtags true extra = Some ets ->
  parse_gtags true (map as_graphite_tag tags ++ extra) = Some (map gtag_of tags ++ ets).
Proof.
  induction tags as [|t tags IH]; intros H extra ets He; [exact He|].
  cbn [forallb] in H. apply andb_prop in H. destruct H as [Ht Hts].
  destruct (split_eq_graphite_tag t Ht) as [S P]. cbn [map app parse_gtags]. rewrite S.
  destruct (gtag_of t) as [k v]. rewrite P. cbn [negb andb]. now rewrite (IH Hts extra ets He).
Qed.

(* ---- the whole line *)
Lemma no_space_seg s : seg_ok s = true -> forallb (fun b => negb (is_space_b b)) s = true.
Proof.
  apply forallb_impl. intros b. unfold seg_byte, is_space_b. destruct (b =? c_space); [discriminate | reflexivity].
Qed.
Lemma no_space_path base segs : seg_ok base = true -> forallb seg_ok segs = true ->
  forallb (fun b => negb (is_space_b b)) (base ++ concat (map (cons c_semi) segs)) = true.
Proof.
  intros Hb Hs. rewrite forallb_app, (no_space_seg base Hb). cbn [andb].
  induction segs as [|s segs IH]; [reflexivity|]. cbn [forallb] in Hs. apply andb_prop in Hs. destruct Hs as [H1 H2].
  cbn [map concat]. cbn [app forallb]. rewrite forallb_app, (no_space_seg s H1), (IH H2). reflexivity.
Qed.

Lemma graphite_line_roundtrip fmt_f c now e :
  gentry_ok c (prv fmt_f (ge_val e)) e ->
  graphite_parse (gr_print fmt_f c now e) = Some (gl_of fmt_f c now e).
Proof.
  intros (Hns & Hnsok & Hsfx & Hgsfx & Hval & Htags).
  unfold gr_print, text_bytes, gl_of. rewrite prepare_name_eq.
  set (base := base_path c (ge_ns e) (ge_name e) (ge_suffix e)).
  set (segs := rendered c (ge_src e) (ge_tags e)).
  assert (Hbase : seg_ok base = true) by (apply seg_ok_base; assumption).
  assert (Hsegs : forallb seg_ok segs = true /\ parse_gtags true segs = Some (gtags_of c (ge_src e) (ge_tags e))).
  { unfold segs, rendered, gtags_of. destruct (g_tags c) eqn:G; [|split; reflexivity].
    destruct (Htags eq_refl) as (Ht & Hsrc & Hsrc1). split.
    - rewrite forallb_app. apply andb_true_intro. split.
      + clear -Ht. induction (ge_tags e) as [|t l IH]; [reflexivity|]. cbn [forallb map] in *.
        apply andb_prop in Ht. destruct Ht as [H1 H2]. unfold gtag_ok in H1. apply andb_prop in H1.
        rewrite (seg_ok_graphite_tag t (proj1 H1)), (IH H2). reflexivity.
      + destruct (existsb (has_prefix s_host_colon) (ge_tags e)); [reflexivity|]. destruct (ge_src e) eqn:Es; [reflexivity|].
        cbn [forallb]. rewrite seg_ok_app. cbn [seg_ok forallb] in *. unfold seg_ok in Hsrc. now rewrite Hsrc.
    - apply parse_gtags_rendered; [exact Ht|].
      destruct (existsb (has_prefix s_host_colon) (ge_tags e)); [reflexivity|]. destruct (ge_src e) as [|s0 src'] eqn:Es; [reflexivity|].
      cbn [parse_gtags]. change (split_eq (n_host ++ 61 :: s0 :: src')) with (Some (n_host, s0 :: src')).
      unfold tag_parts_ok. cbn [is_nil negb andb]. change (forallb tag_name_byte_ok n_host) with true. cbn [andb].
      destruct (N.eqb_spec s0 c_tilde); [contradiction | reflexivity]. }
  destruct Hsegs as [Hsegok Hparse].
  set (path := base ++ concat (map (cons c_semi) segs)).
  set (val := prv fmt_f (ge_val e)) in *.
  unfold graphite_parse, graphite_parse_gen.
  rewrite (scan_plain_ok is_space_b path c_space _ (no_space_path base segs Hbase Hsegok) eq_refl).
  assert (Hvs : forallb (fun b => negb (is_space_b b)) val = true).
  { pose proof (num_run_no_stop val NStart Hval) as H. revert H. apply forallb_impl. intros b.
    unfold stop_meas, is_space_b. destruct (b =? c_space); [now rewrite orb_true_r | reflexivity]. }
  rewrite (scan_plain_ok is_space_b val c_space _ Hvs eq_refl).
  rewrite (scan_plain_ok (N.eqb c_nl) (dec_Z now) c_nl [] (dec_Z_no_nl now) eq_refl).
  unfold path. rewrite (split_on_segments segs Hsegok base [] Hbase). cbn [rev app]. rewrite read_int_dec.
  assert (is_nil base = false) as ->.
  { unfold base, base_path. destruct (ge_ns e); [congruence | reflexivity]. }
  rewrite Hval. cbn [negb andb]. rewrite Hparse. reflexivity.
Qed.

(* the analogue of F5 for Graphite: `;k=` is not a tag *)
Example graphite_empty_tag_value_rejected :
  let c := MkG false true [] in
  graphite_parse (gr_print (fun _ => []) c 1 (MkGE ns_gauges [97] [] [] [[107; 58]] (VI 5))) = None
  /\ graphite_parse (gr_print (fun _ => []) c 1 (MkGE ns_gauges [97] [] [] [[107; 58; 118]] (VI 5)))
     = Some (MkGL (ns_gauges ++ [46; 97]) [([107], [118])] [53] 1).
Proof. split; vm_compute; reflexivity. Qed.
Example graphite_roundtrip_sample :
  let c := MkG false true [115; 102; 120] in
  let e := MkGE ns_gauges [97; 47; 98; 32; 33] [] [49; 46; 50] [[107; 58; 118; 58; 119]; [122]] (VI 5) in
  gentry_ok c (dec_Z 5) e /\ graphite_parse (gr_print (fun _ => []) c 17 e) = Some (gl_of (fun _ => []) c 17 e).
Proof.
  cbn zeta. split; [|vm_compute; reflexivity].
  repeat split; try reflexivity; try discriminate.
Qed.
