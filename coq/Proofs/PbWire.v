(* Proofs about Model/PbWire.v: the protobuf codec of pb/gostatsd.proto round-trips on every
   well-formed message (decode (encode x) = Some x), the fuel of the parser is never exhausted,
   the wire message / Go struct conversion is lossless, and hence the concrete codec satisfies
   the serialisation laws that Proofs/Wire.v assumes: the end-to-end theorem down to bytes,
   with only the compression codecs left abstract. *)
From stdpp Require Import gmap.
From Coq Require Import Lia ZifyBool ZifyNat ZifyN.
From Coq Require Import QArith Qcanon String.
From GS Require Import Base.Bytes Base.GoFloat Model.Series Model.MetricMap Model.Wire Model.PbWire Proofs.Wire.
Local Open Scope N_scope.
Arguments N.mul : simpl never.
Arguments N.add : simpl never.
Arguments N.div : simpl never.
Arguments N.modulo : simpl never.
Arguments N.pow : simpl never.
Arguments Z.pow : simpl never.
Arguments Z.mul : simpl never.
Arguments Z.add : simpl never.

(* ---- varints *)
Fixpoint vbound (k : nat) : N := match k with O => 2 | S k' => 128 * vbound k' end.

Lemma varint_roundtrip k n rest :
  n < vbound k -> varint_dec k (varint_enc k n ++ rest) = Some (n, rest).
Proof.
  revert n. induction k as [|k IH]; intros n Hn; cbn [varint_enc varint_dec vbound app] in *.
  - destruct (N.ltb_spec n 128); [|lia]. destruct (N.ltb_spec n 2); [reflexivity|lia].
  - destruct (N.ltb_spec n 128) as [Hs|Hs]; cbn [app varint_dec].
    + destruct (N.ltb_spec n 128); [reflexivity|lia].
    + destruct (N.ltb_spec (n mod 128 + 128) 128) as [Hx|Hx]; [lia|].
      rewrite IH by (apply N.div_lt_upper_bound; lia).
      f_equal. f_equal. pose proof (N.div_mod n 128). lia.
Qed.

Lemma varint_enc_nonempty k n : varint_enc k n <> [].
Proof. destruct k; cbn; [discriminate|]. destruct (n <? 128); discriminate. Qed.

Lemma vbound9 : vbound 9 = 2 ^ 64.
Proof. vm_compute. reflexivity. Qed.

Lemma decode_encode_varint n rest :
  n < 2 ^ 64 -> decode_varint (encode_varint n ++ rest) = Some (n, rest).
Proof.
  intros Hn. unfold decode_varint, encode_varint. rewrite N.mod_small by exact Hn.
  apply varint_roundtrip. rewrite vbound9. exact Hn.
Qed.

Lemma encode_varint_nonempty n : encode_varint n <> [].
Proof. apply varint_enc_nonempty. Qed.

(* ---- little endian *)
Lemma le_enc_length k v : length (le_enc k v) = k.
Proof. revert v; induction k; intros v; cbn; [reflexivity|]. rewrite IHk. reflexivity. Qed.

Lemma le_dec_enc k v : le_dec (le_enc k v) = v mod 256 ^ N.of_nat k.
Proof.
  revert v; induction k as [|k IH]; intros v; cbn [le_enc le_dec].
  - cbn. rewrite N.mod_1_r. reflexivity.
  - rewrite IH. replace (N.of_nat (S k)) with (N.succ (N.of_nat k)) by lia.
    rewrite N.pow_succ_r'. rewrite N.mod_mul_r by (try apply N.pow_nonzero; lia). lia.
Qed.

Lemma take_n_app n (a rest : str) : length a = n -> take_n n (a ++ rest) = Some (a, rest).
Proof.
  intros <-. unfold take_n. rewrite app_length.
  destruct (Nat.ltb_spec (length a + length rest) (length a)); [lia|].
  rewrite take_app, drop_app. reflexivity.
Qed.

(* ---- one field *)
Definition value_ok (v : wval) : bool :=
  match v with
  | VVarint n | VFixed64 n => n <? 2 ^ 64
  | VFixed32 n => n <? 2 ^ 32
  | VBytes s => len_ok s
  end.
Definition field_ok (f : field) : bool :=
  (1 <=? fst f) && (fst f <=? max_field_number) && value_ok (snd f).

Lemma emit_field_nonempty f : emit_field f <> [].
Proof.
  unfold emit_field. destruct (encode_varint (fst f * 8 + wtype (snd f))) eqn:E.
  - exfalso. exact (encode_varint_nonempty _ E).
  - discriminate.
Qed.

Lemma parse_emit_field f rest :
  field_ok f = true -> parse_field (emit_field f ++ rest) = Some (f, rest).
Proof.
  destruct f as [num v]. unfold field_ok, emit_field, parse_field, max_field_number. cbn [fst snd].
  intros H. apply andb_prop in H as [H Hv]. apply andb_prop in H as [H1 H2].
  assert (Hw : wtype v < 8) by (destruct v; cbn; lia).
  rewrite <- app_assoc.
  rewrite decode_encode_varint by (change (2 ^ 64) with 18446744073709551616; lia).
  replace ((num * 8 + wtype v) / 8) with num by (apply N.div_unique with (wtype v); lia).
  replace ((num * 8 + wtype v) mod 8) with (wtype v) by (apply N.mod_unique with num; lia).
  destruct (N.ltb_spec num 1); [lia|]. destruct (N.ltb_spec 536870911 num); [lia|]. cbn [orb].
  destruct v as [n|n|s|n]; cbn [wtype value_ok] in *.
  - rewrite decode_encode_varint by lia. reflexivity.
  - rewrite take_n_app by apply le_enc_length. rewrite le_dec_enc.
    rewrite N.mod_small by (change (256 ^ N.of_nat 8) with (2 ^ 64); lia). reflexivity.
  - unfold len_ok in Hv. rewrite <- app_assoc. rewrite decode_encode_varint by lia.
    rewrite app_length. destruct (N.ltb_spec (N.of_nat (length s + length rest)) (N.of_nat (length s))); [lia|].
    rewrite Nat2N.id, take_app, drop_app. reflexivity.
  - rewrite take_n_app by apply le_enc_length. rewrite le_dec_enc.
    rewrite N.mod_small by (change (256 ^ N.of_nat 4) with (2 ^ 32); lia). reflexivity.
Qed.

(* ---- field lists *)
Lemma emit_fields_cons f fs : emit_fields (f :: fs) = emit_field f ++ emit_fields fs.
Proof. reflexivity. Qed.

Lemma emit_fields_app a b : emit_fields (a ++ b) = emit_fields a ++ emit_fields b.
Proof. unfold emit_fields. rewrite map_app, concat_app. reflexivity. Qed.

Lemma emit_fields_length fs : (length fs <= length (emit_fields fs))%nat.
Proof.
  induction fs as [|f fs IH]; [cbn; lia|]. rewrite emit_fields_cons, app_length. cbn [length].
  pose proof (emit_field_nonempty f). destruct (emit_field f); [congruence|]. cbn [length]. lia.
Qed.

Lemma parse_fuel_emit fs fuel :
  (length fs <= fuel)%nat -> forallb field_ok fs = true -> parse_fuel fuel (emit_fields fs) = Some fs.
Proof.
  revert fuel. induction fs as [|f fs IH]; intros fuel Hf Hok.
  - destruct fuel; reflexivity.
  - cbn [forallb] in Hok. apply andb_prop in Hok as [Hf1 Hfs].
    rewrite emit_fields_cons. cbn [length] in Hf. destruct fuel as [|fuel]; [lia|].
    pose proof (emit_field_nonempty f) as Hne.
    destruct (emit_field f ++ emit_fields fs) as [|x r] eqn:E.
    { destruct (emit_field f); [congruence|discriminate]. }
    cbn [parse_fuel]. rewrite <- E. rewrite parse_emit_field by exact Hf1.
    rewrite IH by (try lia; exact Hfs). reflexivity.
Qed.

Lemma parse_emit fs : forallb field_ok fs = true -> parse (emit_fields fs) = Some fs.
Proof. intros H. unfold parse. apply parse_fuel_emit; [apply emit_fields_length|exact H]. Qed.

Lemma fold_fields_app {A} (step : A -> field -> option A) acc l1 l2 :
  fold_fields step acc (l1 ++ l2) =
  match fold_fields step acc l1 with Some a => fold_fields step a l2 | None => None end.
Proof.
  revert acc; induction l1 as [|f l1 IH]; intros acc; cbn [app fold_fields]; [reflexivity|].
  destruct (step acc f); [apply IH|reflexivity].
Qed.

(* ---- integer casts *)
Ltac Zify.zify_post_hook ::= Z.div_mod_to_equations.

Lemma of_int64_lt z : of_int64 z < 2 ^ 64.
Proof. unfold of_int64. change (2 ^ 64) with 18446744073709551616. change (2 ^ 64)%Z with 18446744073709551616%Z. lia. Qed.

Lemma to_of_int64 z : int64_ok z = true -> to_int64 (of_int64 z) = z.
Proof.
  unfold int64_ok, to_int64, of_int64.
  change (2 ^ 63)%Z with 9223372036854775808%Z. change (2 ^ 64)%Z with 18446744073709551616%Z.
  change (2 ^ 64) with 18446744073709551616. change (2 ^ 63) with 9223372036854775808.
  intros H. destruct (N.ltb_spec (Z.to_N (z mod 18446744073709551616) mod 18446744073709551616) 9223372036854775808); lia.
Qed.

Lemma to_int32_of_int64 z : int32_ok z = true -> to_int32 (of_int64 z) = z.
Proof.
  unfold int32_ok, to_int32, of_int64.
  change (2 ^ 31)%Z with 2147483648%Z. change (2 ^ 32)%Z with 4294967296%Z. change (2 ^ 64)%Z with 18446744073709551616%Z.
  change (2 ^ 32) with 4294967296. change (2 ^ 31) with 2147483648.
  intros H. destruct (N.ltb_spec (Z.to_N (z mod 18446744073709551616) mod 4294967296) 2147483648); lia.
Qed.

Lemma f64_to_N_lt z : f64_ok z = true -> Z.to_N z < 2 ^ 64 /\ Z.of_N (Z.to_N z) = z.
Proof.
  unfold f64_ok. change (2 ^ 64)%Z with 18446744073709551616%Z. change (2 ^ 64) with 18446744073709551616. lia.
Qed.

(* ---- packed doubles *)
Lemma pack_doubles_cons v vs : pack_doubles (v :: vs) = le_enc 8 (Z.to_N v) ++ pack_doubles vs.
Proof. reflexivity. Qed.

Lemma chunks8_pack vs fuel :
  (length vs <= fuel)%nat -> forallb f64_ok vs = true ->
  chunks8 fuel (pack_doubles vs) = Some (map Z.to_N vs).
Proof.
  revert fuel; induction vs as [|v vs IH]; intros fuel Hf Hok.
  - destruct fuel; reflexivity.
  - cbn [forallb] in Hok. apply andb_prop in Hok as [Hv Hvs]. cbn [length] in Hf.
    destruct fuel as [|fuel]; [lia|]. rewrite pack_doubles_cons.
    destruct (le_enc 8 (Z.to_N v) ++ pack_doubles vs) as [|x r] eqn:E.
    { apply (f_equal (@length N)) in E. rewrite app_length, le_enc_length in E. cbn in E. lia. }
    cbn [chunks8]. rewrite <- E. rewrite take_n_app by apply le_enc_length.
    rewrite IH by (try lia; exact Hvs). rewrite le_dec_enc.
    rewrite N.mod_small by (change (256 ^ N.of_nat 8) with (2 ^ 64); apply f64_to_N_lt, Hv). reflexivity.
Qed.

Lemma pack_doubles_length vs : length (pack_doubles vs) = (8 * length vs)%nat.
Proof.
  induction vs as [|v vs IH]; [reflexivity|]. rewrite pack_doubles_cons, app_length, le_enc_length, IH. cbn [length]. lia.
Qed.

Lemma unpack_pack vs : forallb f64_ok vs = true -> unpack_doubles (pack_doubles vs) = Some (map Z.to_N vs).
Proof.
  intros H. unfold unpack_doubles. apply chunks8_pack; [|exact H]. rewrite pack_doubles_length. lia.
Qed.

Lemma map_of_to_N vs : forallb f64_ok vs = true -> map Z.of_N (map Z.to_N vs) = vs.
Proof.
  induction vs as [|v vs IH]; [reflexivity|]. cbn [forallb map]. intros H. apply andb_prop in H as [Hv Hvs].
  rewrite IH by exact Hvs. f_equal. apply f64_to_N_lt, Hv.
Qed.

(* ---- folding over the field groups Go's marshaller writes *)
Section Groups.
  Context {A : Type} (step : A -> field -> option A).

  Lemma step_opt_str acc acc' num s rest :
    (s <> [] -> step acc (num, VBytes s) = Some acc') -> (s = [] -> acc' = acc) ->
    fold_fields step acc (f_opt_str num s ++ rest) = fold_fields step acc' rest.
  Proof.
    intros H1 H2. destruct s as [|b s]; unfold f_opt_str, f_str; cbn [app fold_fields].
    - rewrite H2; reflexivity.
    - rewrite H1 by discriminate. reflexivity.
  Qed.

  Lemma step_opt_int64 acc acc' num z rest :
    (z <> 0%Z -> step acc (num, VVarint (of_int64 z)) = Some acc') -> (z = 0%Z -> acc' = acc) ->
    fold_fields step acc (f_opt_int64 num z ++ rest) = fold_fields step acc' rest.
  Proof.
    intros H1 H2. unfold f_opt_int64. destruct (Z.eqb_spec z 0) as [E|E]; cbn [app fold_fields].
    - rewrite H2; [reflexivity|exact E].
    - rewrite H1 by exact E. reflexivity.
  Qed.

  Lemma step_opt_double acc acc' num z rest :
    (z <> 0%Z -> step acc (num, VFixed64 (Z.to_N z)) = Some acc') -> (z = 0%Z -> acc' = acc) ->
    fold_fields step acc (f_opt_double num z ++ rest) = fold_fields step acc' rest.
  Proof.
    intros H1 H2. unfold f_opt_double. destruct (Z.eqb_spec z 0) as [E|E]; cbn [app fold_fields].
    - rewrite H2; [reflexivity|exact E].
    - rewrite H1 by exact E. reflexivity.
  Qed.

  Lemma step_rep_str (upd : A -> str -> A) num l : forall acc rest,
    (forall a s, In s l -> step a (num, VBytes s) = Some (upd a s)) ->
    fold_fields step acc (map (f_str num) l ++ rest) = fold_fields step (fold_left upd l acc) rest.
  Proof.
    induction l as [|s l IH]; intros acc rest H; cbn [map app fold_fields fold_left]; [reflexivity|]. unfold f_str at 1.
    rewrite H by (left; reflexivity). apply IH. intros a s' Hin. apply H. right. exact Hin.
  Qed.
End Groups.

Lemma fold_left_snoc {A B} (get : A -> list B) (upd : A -> B -> A) l :
  (forall a b, get (upd a b) = get a ++ [b]) -> forall acc, get (fold_left upd l acc) = get acc ++ l.
Proof.
  intros H. induction l as [|b l IH]; intros acc; cbn [fold_left]; [rewrite app_nil_r; reflexivity|].
  rewrite IH, H, <- app_assoc. reflexivity.
Qed.

(* field_ok of the groups *)
Lemma str_ok_utf8 s : str_ok s = true -> utf8_valid s = true /\ len_ok s = true.
Proof. unfold str_ok. intros H. apply andb_prop in H. exact H. Qed.

Lemma ok_rep_str num l :
  (1 <=? num) && (num <=? max_field_number) = true -> forallb str_ok l = true ->
  forallb field_ok (map (f_str num) l) = true.
Proof.
  intros Hn. induction l as [|s l IH]; [reflexivity|]. cbn [forallb map]. intros H. apply andb_prop in H as [Hs Hl].
  rewrite IH by exact Hl. unfold field_ok, f_str. cbn [fst snd value_ok]. rewrite Hn.
  destruct (str_ok_utf8 s Hs) as [_ ->]. reflexivity.
Qed.

Lemma ok_opt_str num s :
  (1 <=? num) && (num <=? max_field_number) = true -> str_ok s = true -> forallb field_ok (f_opt_str num s) = true.
Proof.
  intros Hn Hs. destruct s as [|b s]; [reflexivity|]. cbn [f_opt_str forallb]. unfold field_ok, f_str. cbn [fst snd value_ok].
  rewrite Hn. destruct (str_ok_utf8 _ Hs) as [_ ->]. reflexivity.
Qed.

Lemma ok_opt_int64 num z :
  (1 <=? num) && (num <=? max_field_number) = true -> forallb field_ok (f_opt_int64 num z) = true.
Proof.
  intros Hn. unfold f_opt_int64. destruct (z =? 0)%Z; [reflexivity|]. cbn [forallb]. unfold field_ok. cbn [fst snd value_ok].
  rewrite Hn. pose proof (of_int64_lt z). destruct (N.ltb_spec (of_int64 z) (2 ^ 64)); [reflexivity|lia].
Qed.

Lemma ok_opt_double num z :
  (1 <=? num) && (num <=? max_field_number) = true -> f64_ok z = true -> forallb field_ok (f_opt_double num z) = true.
Proof.
  intros Hn Hz. unfold f_opt_double. destruct (z =? 0)%Z; [reflexivity|]. cbn [forallb]. unfold field_ok. cbn [fst snd value_ok].
  rewrite Hn. destruct (f64_to_N_lt z Hz) as [H _]. destruct (N.ltb_spec (Z.to_N z) (2 ^ 64)); [reflexivity|lia].
Qed.

(* ---- leaf messages *)
Lemma in_str_ok l s : forallb str_ok l = true -> In s l -> utf8_valid s = true.
Proof. intros H Hin. rewrite forallb_forall in H. apply str_ok_utf8, H, Hin. Qed.

Ltac numok := reflexivity.

Lemma counter_tags_fold l acc :
  fold_left (fun a s => MkPbC (pc_tags a ++ [s]) (pc_host a) (pc_val a)) l acc
  = MkPbC (pc_tags acc ++ l) (pc_host acc) (pc_val acc).
Proof.
  revert acc; induction l as [|s l IH]; intros acc; cbn [fold_left].
  - rewrite app_nil_r. destruct acc; reflexivity.
  - rewrite IH. cbn. rewrite <- app_assoc. reflexivity.
Qed.

Lemma counter_codec c : counter_ok c = true ->
  forallb field_ok (counter_fields c) = true
  /\ fold_fields counter_step zero_counter (counter_fields c) = Some c.
Proof.
  destruct c as [tags host val]. unfold counter_ok, counter_fields. cbn [pc_tags pc_host pc_val].
  intros H. apply andb_prop in H as [H Hv]. apply andb_prop in H as [Ht Hh]. split.
  - rewrite !forallb_app, ok_rep_str, ok_opt_str, ok_opt_int64 by (try numok; assumption). reflexivity.
  - rewrite (step_rep_str counter_step (fun a s => MkPbC (pc_tags a ++ [s]) (pc_host a) (pc_val a))).
    2:{ intros a s Hin. cbn. rewrite (in_str_ok _ _ Ht Hin). reflexivity. }
    rewrite counter_tags_fold. cbn [zero_counter pc_tags pc_host pc_val app].
    rewrite (step_opt_str counter_step _ (MkPbC tags host 0)).
    2:{ intros _. cbn. destruct (str_ok_utf8 _ Hh) as [-> _]. reflexivity. }
    2:{ intros ->. reflexivity. }
    rewrite <- (app_nil_r (f_opt_int64 3 val)).
    rewrite (step_opt_int64 counter_step _ (MkPbC tags host val)).
    2:{ intros _. cbn. rewrite to_of_int64 by exact Hv. reflexivity. }
    2:{ intros ->. reflexivity. }
    reflexivity.
Qed.

Lemma gauge_tags_fold l acc :
  fold_left (fun a s => MkPbG (pg_tags a ++ [s]) (pg_host a) (pg_val a)) l acc
  = MkPbG (pg_tags acc ++ l) (pg_host acc) (pg_val acc).
Proof.
  revert acc; induction l as [|s l IH]; intros acc; cbn [fold_left].
  - rewrite app_nil_r. destruct acc; reflexivity.
  - rewrite IH. cbn. rewrite <- app_assoc. reflexivity.
Qed.

Lemma gauge_codec g : gauge_ok g = true ->
  forallb field_ok (gauge_fields g) = true
  /\ fold_fields gauge_step zero_gauge (gauge_fields g) = Some g.
Proof.
  destruct g as [tags host val]. unfold gauge_ok, gauge_fields. cbn [pg_tags pg_host pg_val].
  intros H. apply andb_prop in H as [H Hv]. apply andb_prop in H as [Ht Hh]. split.
  - rewrite !forallb_app, ok_rep_str, ok_opt_str, ok_opt_double by (try numok; assumption). reflexivity.
  - rewrite (step_rep_str gauge_step (fun a s => MkPbG (pg_tags a ++ [s]) (pg_host a) (pg_val a))).
    2:{ intros a s Hin. cbn. rewrite (in_str_ok _ _ Ht Hin). reflexivity. }
    rewrite gauge_tags_fold. cbn [zero_gauge pg_tags pg_host pg_val app].
    rewrite (step_opt_str gauge_step _ (MkPbG tags host 0)).
    2:{ intros _. cbn. destruct (str_ok_utf8 _ Hh) as [-> _]. reflexivity. }
    2:{ intros ->. reflexivity. }
    rewrite <- (app_nil_r (f_opt_double 3 val)).
    rewrite (step_opt_double gauge_step _ (MkPbG tags host val)).
    2:{ intros _. cbn. destruct (f64_to_N_lt _ Hv) as [_ ->]. reflexivity. }
    2:{ intros ->. reflexivity. }
    reflexivity.
Qed.

Lemma set_tags_fold l acc :
  fold_left (fun a s => MkPbS (ps_tags a ++ [s]) (ps_host a) (ps_vals a)) l acc
  = MkPbS (ps_tags acc ++ l) (ps_host acc) (ps_vals acc).
Proof.
  revert acc; induction l as [|s l IH]; intros acc; cbn [fold_left].
  - rewrite app_nil_r. destruct acc; reflexivity.
  - rewrite IH. cbn. rewrite <- app_assoc. reflexivity.
Qed.
Lemma set_vals_fold l acc :
  fold_left (fun a s => MkPbS (ps_tags a) (ps_host a) (ps_vals a ++ [s])) l acc
  = MkPbS (ps_tags acc) (ps_host acc) (ps_vals acc ++ l).
Proof.
  revert acc; induction l as [|s l IH]; intros acc; cbn [fold_left].
  - rewrite app_nil_r. destruct acc; reflexivity.
  - rewrite IH. cbn. rewrite <- app_assoc. reflexivity.
Qed.

Lemma set_codec x : set_ok x = true ->
  forallb field_ok (set_fields x) = true
  /\ fold_fields set_step zero_set (set_fields x) = Some x.
Proof.
  destruct x as [tags host vals]. unfold set_ok, set_fields. cbn [ps_tags ps_host ps_vals].
  intros H. apply andb_prop in H as [H Hv]. apply andb_prop in H as [Ht Hh]. split.
  - rewrite !forallb_app, !ok_rep_str, ok_opt_str by (try numok; assumption). reflexivity.
  - rewrite (step_rep_str set_step (fun a s => MkPbS (ps_tags a ++ [s]) (ps_host a) (ps_vals a))).
    2:{ intros a s Hin. cbn. rewrite (in_str_ok _ _ Ht Hin). reflexivity. }
    rewrite set_tags_fold. cbn [zero_set ps_tags ps_host ps_vals app].
    rewrite (step_opt_str set_step _ (MkPbS tags host [])).
    2:{ intros _. cbn. destruct (str_ok_utf8 _ Hh) as [-> _]. reflexivity. }
    2:{ intros ->. reflexivity. }
    rewrite <- (app_nil_r (map (f_str 3) vals)).
    rewrite (step_rep_str set_step (fun a s => MkPbS (ps_tags a) (ps_host a) (ps_vals a ++ [s]))).
    2:{ intros a s Hin. cbn. rewrite (in_str_ok _ _ Hv Hin). reflexivity. }
    rewrite set_vals_fold. reflexivity.
Qed.

Lemma timer_tags_fold l acc :
  fold_left (fun a s => MkPbT (pt_tags a ++ [s]) (pt_host a) (pt_samp a) (pt_vals a)) l acc
  = MkPbT (pt_tags acc ++ l) (pt_host acc) (pt_samp acc) (pt_vals acc).
Proof.
  revert acc; induction l as [|s l IH]; intros acc; cbn [fold_left].
  - rewrite app_nil_r. destruct acc; reflexivity.
  - rewrite IH. cbn. rewrite <- app_assoc. reflexivity.
Qed.

Lemma timer_codec t : timer_ok t = true ->
  forallb field_ok (timer_fields t) = true
  /\ fold_fields timer_step zero_timer (timer_fields t) = Some t.
Proof.
  destruct t as [tags host samp vals]. unfold timer_ok, timer_fields. cbn [pt_tags pt_host pt_samp pt_vals].
  intros H. apply andb_prop in H as [H Hl]. apply andb_prop in H as [H Hv]. apply andb_prop in H as [H Hs].
  apply andb_prop in H as [Ht Hh]. split.
  - rewrite !forallb_app, ok_rep_str, ok_opt_str, ok_opt_double by (try numok; assumption).
    destruct vals as [|v vals]; [reflexivity|]. cbn [f_packed forallb]. unfold field_ok. cbn [fst snd value_ok].
    rewrite Hl. reflexivity.
  - rewrite (step_rep_str timer_step (fun a s => MkPbT (pt_tags a ++ [s]) (pt_host a) (pt_samp a) (pt_vals a))).
    2:{ intros a s Hin. cbn. rewrite (in_str_ok _ _ Ht Hin). reflexivity. }
    rewrite timer_tags_fold. cbn [zero_timer pt_tags pt_host pt_samp pt_vals app].
    rewrite (step_opt_str timer_step _ (MkPbT tags host 0 [])).
    2:{ intros _. cbn. destruct (str_ok_utf8 _ Hh) as [-> _]. reflexivity. }
    2:{ intros ->. reflexivity. }
    rewrite (step_opt_double timer_step _ (MkPbT tags host samp [])).
    2:{ intros _. cbn. destruct (f64_to_N_lt _ Hs) as [_ ->]. reflexivity. }
    2:{ intros ->. reflexivity. }
    destruct vals as [|v vals]; [reflexivity|]. cbn [f_packed fold_fields timer_step].
    rewrite unpack_pack by exact Hv. rewrite map_of_to_N by exact Hv. reflexivity.
Qed.

Lemma event_tags_fold l acc :
  fold_left (fun e s => MkPbE (pe_title e) (pe_text e) (pe_date e) (pe_hostname e) (pe_aggkey e) (pe_srctype e)
                              (pe_tags e ++ [s]) (pe_sourceip e) (pe_priority e) (pe_type e)) l acc
  = MkPbE (pe_title acc) (pe_text acc) (pe_date acc) (pe_hostname acc) (pe_aggkey acc) (pe_srctype acc)
          (pe_tags acc ++ l) (pe_sourceip acc) (pe_priority acc) (pe_type acc).
Proof.
  revert acc; induction l as [|s l IH]; intros acc; cbn [fold_left].
  - rewrite app_nil_r. destruct acc; reflexivity.
  - rewrite IH. cbn. rewrite <- app_assoc. reflexivity.
Qed.

Lemma event_codec e : event_ok e = true ->
  forallb field_ok (event_fields e) = true
  /\ fold_fields event_step zero_event (event_fields e) = Some e.
Proof.
  destruct e as [title text date host agg srct tags sip pri typ]. unfold event_ok, event_fields.
  cbn [pe_title pe_text pe_date pe_hostname pe_aggkey pe_srctype pe_tags pe_sourceip pe_priority pe_type].
  intros H. do 9 (apply andb_prop in H as [H ?]). split.
  - rewrite !forallb_app, ok_rep_str, !ok_opt_str, !ok_opt_int64 by (try numok; assumption). reflexivity.
  - unfold zero_event.
    rewrite (step_opt_str event_step _ (MkPbE title [] 0 [] [] [] [] [] 0 0)).
    2:{ intros _. cbn. destruct (str_ok_utf8 title) as [-> _]; [assumption|reflexivity]. }
    2:{ intros ->. reflexivity. }
    rewrite (step_opt_str event_step _ (MkPbE title text 0 [] [] [] [] [] 0 0)).
    2:{ intros _. cbn. destruct (str_ok_utf8 text) as [-> _]; [assumption|reflexivity]. }
    2:{ intros ->. reflexivity. }
    rewrite (step_opt_int64 event_step _ (MkPbE title text date [] [] [] [] [] 0 0)).
    2:{ intros _. cbn. rewrite to_of_int64 by assumption. reflexivity. }
    2:{ intros ->. reflexivity. }
    rewrite (step_opt_str event_step _ (MkPbE title text date host [] [] [] [] 0 0)).
    2:{ intros _. cbn. destruct (str_ok_utf8 host) as [-> _]; [assumption|reflexivity]. }
    2:{ intros ->. reflexivity. }
    rewrite (step_opt_str event_step _ (MkPbE title text date host agg [] [] [] 0 0)).
    2:{ intros _. cbn. destruct (str_ok_utf8 agg) as [-> _]; [assumption|reflexivity]. }
    2:{ intros ->. reflexivity. }
    rewrite (step_opt_str event_step _ (MkPbE title text date host agg srct [] [] 0 0)).
    2:{ intros _. cbn. destruct (str_ok_utf8 srct) as [-> _]; [assumption|reflexivity]. }
    2:{ intros ->. reflexivity. }
    rewrite (step_rep_str event_step (fun e s => MkPbE (pe_title e) (pe_text e) (pe_date e) (pe_hostname e) (pe_aggkey e) (pe_srctype e)
                              (pe_tags e ++ [s]) (pe_sourceip e) (pe_priority e) (pe_type e))).
    2:{ intros a s Hin. cbn. rewrite (in_str_ok tags s) by assumption. reflexivity. }
    rewrite event_tags_fold.
    cbn [pe_title pe_text pe_date pe_hostname pe_aggkey pe_srctype pe_tags pe_sourceip pe_priority pe_type app].
    rewrite (step_opt_str event_step _ (MkPbE title text date host agg srct tags sip 0 0)).
    2:{ intros _. cbn. destruct (str_ok_utf8 sip) as [-> _]; [assumption|reflexivity]. }
    2:{ intros ->. reflexivity. }
    rewrite (step_opt_int64 event_step _ (MkPbE title text date host agg srct tags sip pri 0)).
    2:{ intros _. cbn. rewrite to_int32_of_int64 by assumption. reflexivity. }
    2:{ intros ->. reflexivity. }
    rewrite <- (app_nil_r (f_opt_int64 10 typ)).
    rewrite (step_opt_int64 event_step _ (MkPbE title text date host agg srct tags sip pri typ)).
    2:{ intros _. cbn. rewrite to_int32_of_int64 by assumption. reflexivity. }
    2:{ intros ->. reflexivity. }
    reflexivity.
Qed.

Theorem event_wire_roundtrip e : event_ok e = true -> decode_event (encode_event e) = Some e.
Proof.
  intros H. destruct (event_codec e H) as [Hf Hd]. unfold decode_event, encode_event.
  rewrite parse_emit by exact Hf. exact Hd.
Qed.

(* ---- map<string, V> fields, generically in the value codec *)
Section MapCodec.
  Context {V : Type} (vzero : V) (vstep : V -> field -> option V) (vfields : V -> list field) (vok : V -> bool).
  Hypothesis leaf : forall v, vok v = true ->
    forallb field_ok (vfields v) = true /\ fold_fields vstep vzero (vfields v) = Some v.

  Lemma entry_codec e : entry_ok vok vfields e = true ->
    forallb field_ok (entry_fields vfields e) = true
    /\ fold_fields (entry_step vstep) ([], vzero) (entry_fields vfields e) = Some e.
  Proof.
    destruct e as [k v]. unfold entry_ok, entry_fields. cbn [fst snd].
    intros H. apply andb_prop in H as [H _]. apply andb_prop in H as [H Hlen]. apply andb_prop in H as [Hk Hv].
    destruct (leaf v Hv) as [Hf Hd]. destruct (str_ok_utf8 k Hk) as [Hu Hkl]. split.
    - cbn [forallb]. unfold field_ok, f_str. cbn [fst snd value_ok]. rewrite Hkl, Hlen. reflexivity.
    - cbn [fold_fields entry_step f_str]. unfold f_str. cbn [entry_step]. rewrite Hu. cbn [snd fst].
      rewrite parse_emit by exact Hf. rewrite Hd. reflexivity.
  Qed.

  Lemma map_entry_codec acc e : entry_ok vok vfields e = true ->
    map_entry vzero vstep acc (emit_fields (entry_fields vfields e)) = Some (acc ++ [e]).
  Proof.
    intros H. destruct (entry_codec e H) as [Hf Hd]. unfold map_entry.
    rewrite parse_emit by exact Hf. rewrite Hd. reflexivity.
  Qed.

  Lemma map_fields_ok num l :
    (1 <=? num) && (num <=? max_field_number) = true -> entries_ok vok vfields l = true ->
    forallb field_ok (map_fields vfields num l) = true.
  Proof.
    intros Hn. unfold entries_ok, map_fields. induction l as [|e l IH]; [reflexivity|].
    cbn [forallb map]. intros H. apply andb_prop in H as [He Hl]. rewrite IH by exact Hl.
    unfold field_ok. cbn [fst snd value_ok]. rewrite Hn.
    unfold entry_ok in He. apply andb_prop in He as [_ ->]. reflexivity.
  Qed.

  (* the XTagV2 wrapper message is itself a value codec *)
  Lemma tagmap_fold l : forall acc rest, entries_ok vok vfields l = true ->
    fold_fields (tagmap_step vzero vstep) acc (tagmap_fields vfields l ++ rest)
    = fold_fields (tagmap_step vzero vstep) (acc ++ l) rest.
  Proof.
    unfold tagmap_fields, map_fields, entries_ok. induction l as [|e l IH]; intros acc rest H.
    - rewrite app_nil_r. reflexivity.
    - cbn [forallb] in H. apply andb_prop in H as [He Hl]. cbn [map app fold_fields tagmap_step].
      rewrite map_entry_codec by exact He. rewrite IH by exact Hl. rewrite <- app_assoc. reflexivity.
  Qed.

  Lemma tagmap_codec l : entries_ok vok vfields l = true ->
    forallb field_ok (tagmap_fields vfields l) = true
    /\ fold_fields (tagmap_step vzero vstep) [] (tagmap_fields vfields l) = Some l.
  Proof.
    intros H. split; [apply map_fields_ok; [reflexivity|exact H]|].
    rewrite <- (app_nil_r (tagmap_fields vfields l)). rewrite tagmap_fold by exact H. reflexivity.
  Qed.
End MapCodec.

(* ---- RawMessageV2 *)
Definition ctm_ok := entries_ok counter_ok counter_fields.
Definition gtm_ok := entries_ok gauge_ok gauge_fields.
Definition stm_ok := entries_ok set_ok set_fields.
Definition ttm_ok := entries_ok timer_ok timer_fields.

Lemma msg_counters_fold l : forall w rest,
  entries_ok ctm_ok (tagmap_fields counter_fields) l = true ->
  fold_fields msg_step w (map_fields (tagmap_fields counter_fields) 1 l ++ rest)
  = fold_fields msg_step (MkW (w_counters w ++ l) (w_gauges w) (w_sets w) (w_timers w)) rest.
Proof.
  unfold map_fields, entries_ok. induction l as [|e l IH]; intros w rest H.
  - rewrite app_nil_r. destruct w; reflexivity.
  - cbn [forallb] in H. apply andb_prop in H as [He Hl]. cbn [map app fold_fields msg_step].
    rewrite (map_entry_codec [] (tagmap_step zero_counter counter_step) (tagmap_fields counter_fields) ctm_ok
               (tagmap_codec zero_counter counter_step counter_fields counter_ok counter_codec)) by exact He.
    rewrite IH by exact Hl. cbn [w_counters w_gauges w_sets w_timers]. rewrite <- app_assoc. reflexivity.
Qed.

Lemma msg_gauges_fold l : forall w rest,
  entries_ok gtm_ok (tagmap_fields gauge_fields) l = true ->
  fold_fields msg_step w (map_fields (tagmap_fields gauge_fields) 2 l ++ rest)
  = fold_fields msg_step (MkW (w_counters w) (w_gauges w ++ l) (w_sets w) (w_timers w)) rest.
Proof.
  unfold map_fields, entries_ok. induction l as [|e l IH]; intros w rest H.
  - rewrite app_nil_r. destruct w; reflexivity.
  - cbn [forallb] in H. apply andb_prop in H as [He Hl]. cbn [map app fold_fields msg_step].
    rewrite (map_entry_codec [] (tagmap_step zero_gauge gauge_step) (tagmap_fields gauge_fields) gtm_ok
               (tagmap_codec zero_gauge gauge_step gauge_fields gauge_ok gauge_codec)) by exact He.
    rewrite IH by exact Hl. cbn [w_counters w_gauges w_sets w_timers]. rewrite <- app_assoc. reflexivity.
Qed.

Lemma msg_sets_fold l : forall w rest,
  entries_ok stm_ok (tagmap_fields set_fields) l = true ->
  fold_fields msg_step w (map_fields (tagmap_fields set_fields) 3 l ++ rest)
  = fold_fields msg_step (MkW (w_counters w) (w_gauges w) (w_sets w ++ l) (w_timers w)) rest.
Proof.
  unfold map_fields, entries_ok. induction l as [|e l IH]; intros w rest H.
  - rewrite app_nil_r. destruct w; reflexivity.
  - cbn [forallb] in H. apply andb_prop in H as [He Hl]. cbn [map app fold_fields msg_step].
    rewrite (map_entry_codec [] (tagmap_step zero_set set_step) (tagmap_fields set_fields) stm_ok
               (tagmap_codec zero_set set_step set_fields set_ok set_codec)) by exact He.
    rewrite IH by exact Hl. cbn [w_counters w_gauges w_sets w_timers]. rewrite <- app_assoc. reflexivity.
Qed.

Lemma msg_timers_fold l : forall w rest,
  entries_ok ttm_ok (tagmap_fields timer_fields) l = true ->
  fold_fields msg_step w (map_fields (tagmap_fields timer_fields) 4 l ++ rest)
  = fold_fields msg_step (MkW (w_counters w) (w_gauges w) (w_sets w) (w_timers w ++ l)) rest.
Proof.
  unfold map_fields, entries_ok. induction l as [|e l IH]; intros w rest H.
  - rewrite app_nil_r. destruct w; reflexivity.
  - cbn [forallb] in H. apply andb_prop in H as [He Hl]. cbn [map app fold_fields msg_step].
    rewrite (map_entry_codec [] (tagmap_step zero_timer timer_step) (tagmap_fields timer_fields) ttm_ok
               (tagmap_codec zero_timer timer_step timer_fields timer_ok timer_codec)) by exact He.
    rewrite IH by exact Hl. cbn [w_counters w_gauges w_sets w_timers]. rewrite <- app_assoc. reflexivity.
Qed.

Theorem msg_wire_roundtrip w : msg_ok w = true -> decode_msg (encode_msg w) = Some w.
Proof.
  destruct w as [cs gs ss ts]. unfold msg_ok. cbn [w_counters w_gauges w_sets w_timers].
  intros H. apply andb_prop in H as [H Ht]. apply andb_prop in H as [H Hs]. apply andb_prop in H as [Hc Hg].
  unfold decode_msg, encode_msg, msg_fields. cbn [w_counters w_gauges w_sets w_timers].
  rewrite parse_emit.
  2:{ rewrite !forallb_app.
      rewrite (map_fields_ok (tagmap_fields counter_fields) ctm_ok 1 cs) by (try reflexivity; exact Hc).
      rewrite (map_fields_ok (tagmap_fields gauge_fields) gtm_ok 2 gs) by (try reflexivity; exact Hg).
      rewrite (map_fields_ok (tagmap_fields set_fields) stm_ok 3 ss) by (try reflexivity; exact Hs).
      rewrite (map_fields_ok (tagmap_fields timer_fields) ttm_ok 4 ts) by (try reflexivity; exact Ht).
      reflexivity. }
  rewrite msg_counters_fold by exact Hc. rewrite msg_gauges_fold by exact Hg. rewrite msg_sets_fold by exact Hs.
  rewrite <- (app_nil_r (map_fields (tagmap_fields timer_fields) 4 ts)). rewrite msg_timers_fold by exact Ht.
  reflexivity.
Qed.

(* ---- wire message <-> Go structs *)
Lemma lw_union {V} (l : list (str * V)) : forall m0 : gmap str V,
  base.NoDup (l.*1) -> fold_left (fun m e => <[fst e := snd e]> m) l m0 = list_to_map l ∪ m0.
Proof.
  induction l as [|[k v] l IH]; intros m0 Hnd; cbn [fold_left list_to_map foldr fst snd].
  - rewrite map_empty_union. reflexivity.
  - rewrite fmap_cons in Hnd. cbn [fst] in Hnd. pose proof (NoDup_cons_1_1 _ _ Hnd) as Hk. apply NoDup_cons_1_2 in Hnd.
    rewrite IH by exact Hnd.
    change (foldr (fun p => <[p.1:=p.2]>) ∅ l) with (list_to_map l : gmap str V).
    rewrite <- insert_union_l. rewrite insert_union_r; [reflexivity|].
    apply not_elem_of_list_to_map_1. exact Hk.
Qed.

Lemma lw_to_list {V} (m : gmap str V) : map_of_entries_lw (map_to_list m) = m.
Proof.
  unfold map_of_entries_lw. rewrite lw_union by apply NoDup_fst_map_to_list.
  rewrite map_union_empty. apply list_to_map_to_list.
Qed.

Lemma nested_wire_roundtrip {V} (m : gmap str (gmap str V)) : nested_of_wire (wire_of_nested m) = m.
Proof.
  unfold nested_of_wire, wire_of_nested. rewrite map_map. cbn [fst snd].
  rewrite (map_ext _ id); [rewrite map_id; apply lw_to_list|].
  intros [k v]. cbn. rewrite lw_to_list. reflexivity.
Qed.

Lemma pb_wire_roundtrip p : pb_of_wire (wire_of_pb p) = p.
Proof.
  destruct p. unfold pb_of_wire, wire_of_pb.
  cbn -[nested_of_wire wire_of_nested].
  rewrite !nested_wire_roundtrip. reflexivity.
Qed.

(* ---- the serialisation laws Proofs/Wire.v assumes, for the concrete codec *)
Lemma pb_marshal_law p raw : pb_marshal p = Some raw -> pb_unmarshal raw = Some p.
Proof.
  unfold pb_marshal, pb_unmarshal. destruct (msg_ok (wire_of_pb p)) eqn:Hok; [|discriminate].
  intros [= <-]. rewrite msg_wire_roundtrip by exact Hok. rewrite pb_wire_roundtrip. reflexivity.
Qed.

Lemma event_marshal_law e raw : event_marshal e = Some raw -> event_unmarshal raw = Some e.
Proof.
  unfold event_marshal, event_unmarshal. destruct (event_ok e) eqn:Hok; [|discriminate].
  intros [= <-]. apply event_wire_roundtrip. exact Hok.
Qed.

(* ---- the fuel of [parse] is never exhausted: every field consumes at least one byte *)
Lemma varint_dec_shrinks k : forall b v r, varint_dec k b = Some (v, r) -> (length r < length b)%nat.
Proof.
  induction k as [|k IH]; intros b v r; destruct b as [|x b]; cbn [varint_dec length]; try discriminate.
  - destruct (x <? 128); [|discriminate]. destruct (x <? 2); [|discriminate]. intros [= _ <-]. lia.
  - destruct (x <? 128); [intros [= _ <-]; lia|].
    destruct (varint_dec k b) as [[v' r']|] eqn:E; [|discriminate]. intros [= _ <-].
    apply IH in E. lia.
Qed.

Lemma take_n_shrinks n b x r : take_n n b = Some (x, r) -> (length r <= length b)%nat.
Proof.
  unfold take_n. destruct (length b <? n)%nat; [discriminate|]. intros [= _ <-]. rewrite drop_length. lia.
Qed.

Lemma parse_field_shrinks b f r : parse_field b = Some (f, r) -> (length r < length b)%nat.
Proof.
  unfold parse_field, decode_varint. destruct (varint_dec 9 b) as [[tag r0]|] eqn:E; [|discriminate].
  apply varint_dec_shrinks in E.
  destruct ((tag / 8 <? 1) || (max_field_number <? tag / 8)); [discriminate|].
  destruct (tag mod 8) as [|[[p|p|]|[p|p|]|]]; try (destruct p; discriminate); try discriminate;
    repeat match goal with
    | |- context [varint_dec 9 r0] => destruct (varint_dec 9 r0) as [[? ?]|] eqn:E2; [apply varint_dec_shrinks in E2|discriminate]
    | |- context [take_n ?n r0] => destruct (take_n n r0) as [[? ?]|] eqn:E2; [apply take_n_shrinks in E2|discriminate]
    | |- context [N.of_nat ?a <? ?b] => destruct (N.of_nat a <? b); [discriminate|]
    | p : positive |- _ => destruct p; try discriminate
    end; intros [= _ <-]; try rewrite drop_length; lia.
Qed.

Lemma parse_fuel_enough fuel : forall b fuel',
  (length b <= fuel)%nat -> (length b <= fuel')%nat -> parse_fuel fuel b = parse_fuel fuel' b.
Proof.
  induction fuel as [|fuel IH]; intros b fuel' H1 H2.
  - destruct b; [|cbn in H1; lia]. destruct fuel'; reflexivity.
  - destruct b as [|x b]; [destruct fuel'; reflexivity|].
    destruct fuel' as [|fuel']; [cbn in H2; lia|]. cbn [parse_fuel].
    destruct (parse_field (x :: b)) as [[f r]|] eqn:E; [|reflexivity].
    apply parse_field_shrinks in E. cbn [length] in *.
    rewrite (IH r fuel') by lia. reflexivity.
Qed.

Corollary parse_any_fuel b k : parse_fuel (length b + k) b = parse b.
Proof. unfold parse. apply parse_fuel_enough; lia. Qed.

(* ---------------------------------------------------------------------------------------- *)
(* the two halves composed, down to the protobuf bytes *)
Local Open Scope Z_scope.

Theorem end_to_end_bytes
    (compress : codec -> Z -> str -> str) (decompress : codec -> str -> option str) :
  (forall k level raw, (0 <= level <= 9)%Z -> decompress k (compress k level raw) = Some raw) ->
  forall (flag : bool) (ctype : str) (level : Z) (c : fwd_cfg) (hdr body : str),
    new_forwarder flag ctype level = Some c ->
    (forall (m : mmap) (now : Z),
        (forall k t, timers m !! k = Some t -> Qc_of_bits (bits_of_Qc (t_samp t)) = t_samp t) ->
        post_metrics compress pb_marshal c m = Some (hdr, body) ->
        metric_handler decompress pb_unmarshal now hdr (Some body) = (202%Z, Some (retime now m)))
    /\ (forall e : event,
        post_event compress event_marshal c e = Some (hdr, body) ->
        event_handler decompress event_unmarshal hdr (Some body) = (202%Z, Some (normalise_event e))).
Proof.
  intros L. exact (end_to_end_full compress decompress pb_marshal pb_unmarshal event_marshal event_unmarshal
                     L pb_marshal_law event_marshal_law).
Qed.

(* non-vacuity: a map with all four types marshals; one string that is not UTF-8 anywhere makes
   Marshal fail, so the forwarder creates no request at all for the batch (known finding D8) *)
Definition ex_map (tag : str) : mmap :=
  MkMap {[ (bs "c"%string, bs "a"%string) := MkCounter (-5) 1 (bs "h"%string) [tag] ]}
        {[ (bs "t"%string, []) := MkTimer [4607182418800017408; 9218868437227405312] (Q2Qc (5 # 2)%Q) 2 [] [] ]}
        {[ (bs "g"%string, bs "a"%string) := MkGauge 9221120237041090560 3 [] [bs "a"%string] ]}
        {[ (bs "s"%string, []) := MkSet {[ bs "x"%string; [] ]} 4 [] [] ]}.

Example ex_marshals :
  match pb_marshal (to_pb (ex_map (bs "a"%string))) with
  | Some raw => option_map (from_pb 9) (pb_unmarshal raw) = Some (retime 9 (ex_map (bs "a"%string)))
  | None => False
  end.
Proof.
  destruct (pb_marshal (to_pb (ex_map (bs "a"%string)))) as [raw|] eqn:E; [|vm_compute in E; discriminate].
  rewrite (pb_marshal_law _ _ E). cbn [option_map]. f_equal. apply metrics_roundtrip.
  intros k t H. unfold ex_map in H. cbn [timers] in H. apply lookup_singleton_Some in H as [_ <-].
  apply Qc_is_canon. vm_compute. reflexivity.
Qed.

Example d8_invalid_utf8_blocks_batch :
  pb_marshal (to_pb (ex_map [255%N])) = None
  /\ forall compress c, post_metrics compress pb_marshal c (ex_map [255%N]) = None.
Proof.
  assert (H : pb_marshal (to_pb (ex_map [255%N])) = None) by (vm_compute; reflexivity).
  split; [exact H|]. intros compress c. unfold post_metrics. rewrite H. reflexivity.
Qed.

Lemma wire_roundtrip_full :
  (forall w : wmsg, msg_ok w = true -> decode_msg (encode_msg w) = Some w)
  /\ (forall e : pb_event, event_ok e = true -> decode_event (encode_event e) = Some e)
  /\ (forall p : pbmsg, pb_of_wire (wire_of_pb p) = p)
  /\ (forall (b : str) (k : nat), parse_fuel (length b + k) b = parse b).
Proof.
  split; [exact msg_wire_roundtrip|]. split; [exact event_wire_roundtrip|].
  split; [exact pb_wire_roundtrip|exact parse_any_fuel].
Qed.
