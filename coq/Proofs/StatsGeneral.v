(* Stats.flush_timer on ANY timer (not only one as Receive / Reset build it): a Flush recomputes
   every statistic from Values and SampledCount and appends its percentiles to those already
   there. *)
From Coq Require Import List ZArith QArith Qcanon Lia Permutation.
From GS Require Import Base.Bytes Model.GoPartial Model.Histogram Model.Stats.
From GS Require Import Proofs.FlushSafety Proofs.Histogram Proofs.Stats.
Import ListNotations.
Local Open Scope Z_scope.

Section General.
  Variable pf : str -> option bound.
  Variable rank : Z -> Z -> Z.

  Lemma pct_step_prefix m (vs cum cumsq : list Qc) n s out p s' out' (P : list (str * Qc)) :
    pct_step qc_ops rank false m vs cum cumsq n (s, out) p = Ok (s', out') ->
    pct_step qc_ops rank false m vs cum cumsq n (s, P ++ out) p = Ok (s', P ++ out').
  Proof.
    unfold pct_step. destruct (1 <? n); [|intros [= <- <-]; rewrite app_assoc; reflexivity].
    destruct (rank p n =? 0); [intros [= <- <-]; reflexivity|].
    destruct (0 <? p).
    - destruct (idx vs (rank p n - 1)); [|discriminate]. destruct (idx cum (rank p n - 1)); [|discriminate].
      destruct (idx cumsq (rank p n - 1)); [|discriminate]. cbn [bind].
      intros [= <- <-]. rewrite app_assoc. reflexivity.
    - destruct (idx vs (n - rank p n)); [|discriminate]. destruct (idx cum (n - 1)); [|discriminate].
      destruct (idx cumsq (n - 1)); [|discriminate]. cbn [bind orb].
      destruct (rank p n <? n).
      + destruct (idx cum (n - rank p n - 1)); [|discriminate]. destruct (idx cumsq (n - rank p n - 1)); [|discriminate].
        cbn [bind]. intros [= <- <-]. rewrite app_assoc. reflexivity.
      + cbn [bind]. intros [= <- <-]. rewrite app_assoc. reflexivity.
  Qed.

  Lemma foldM_pct_prefix m (vs cum cumsq : list Qc) n ps : forall s out s' out' (P : list (str * Qc)),
    foldM (pct_step qc_ops rank false m vs cum cumsq n) (s, out) ps = Ok (s', out') ->
    foldM (pct_step qc_ops rank false m vs cum cumsq n) (s, P ++ out) ps = Ok (s', P ++ out').
  Proof.
    induction ps as [|p ps IH]; intros s out s' out' P; cbn [foldM].
    - intros [= <- <-]. reflexivity.
    - intros H. apply bind_inv in H as ([s1 out1] & H1 & H).
      rewrite (pct_step_prefix _ _ _ _ _ _ _ _ _ _ P H1). cbn [bind]. apply IH, H.
  Qed.

  (* a timer without histogram tag and with values: the flush of the timer is the flush of the
     fresh timer with the same Values, SampledCount, Tags and Histogram, behind the old percentiles *)
  Lemma flush_timer_any c (t s : timer Qc) x r :
    has_histogram_tag (t_tags t) = false -> t_values t = x :: r ->
    flush_timer qc_ops pf rank false c (fresh qc_ops (t_values t) (t_sampled t) (t_tags t) (t_hist t)) = Ok s ->
    flush_timer qc_ops pf rank false c t = Ok (with_pcts s (t_pcts t ++ t_pcts s)).
  Proof.
    intros Eh Ev. unfold flush_timer.
    cbn [fresh t_tags t_values t_count t_sampled t_persec t_mean t_median t_min t_max t_var t_sum
         t_sumsq t_pcts t_hist]. rewrite Eh. cbv zeta.
    assert (0 <? len (t_values t) = true) as -> by (rewrite Ev; apply Z.ltb_lt; unfold len; cbn [length]; lia).
    intros H.
    apply bind_inv in H as (mn & -> & H). apply bind_inv in H as (mx & -> & H). cbn [bind].
    apply bind_inv in H as ([s1 out1] & Hf & H).
    rewrite <- (app_nil_r (t_pcts t)) at 1.
    rewrite (foldM_pct_prefix _ _ _ _ _ _ _ _ _ _ (t_pcts t) Hf). cbn [bind].
    apply bind_inv in H as (sm & -> & H). apply bind_inv in H as (sq & -> & H). cbn [bind].
    apply bind_inv in H as (md & -> & H). cbn [bind]. injection H as <-. reflexivity.
  Qed.
End General.
