(* Lemmas about Model/InstanceDispatcher.v (property C12): the dispatcher loop on its own, and the loop
   composed with the Run side of Model/InstanceCache.v *)
From GS Require Import Base.Bytes Base.LTS Model.InstanceCache Model.InstanceDispatcher Proofs.InstanceCache.
From stdpp Require Import gmap.
Local Open Scope Z_scope.

Global Arguments after_lookup : simpl never.

(* ---- the loop on its own ---------------------------------------------------------------------------- *)

Definition size_ok (lim : Z) (ips : list source) : Prop := 1 <= Z.of_nat (length ips) <= Z.max 1 lim.

(* what the program counter implies about the data *)
Definition phase_ok (lim : Z) (d : dstate) : Prop :=
  match d_phase d with
  | DSelect => d_tosend d = [] /\ (d_armed d = true <-> d_ips d <> []) /\
               (d_ips d <> [] -> Z.of_nat (length (d_ips d)) < lim)
  | DLimiter | DCalling => d_tosend d = [] /\ size_ok lim (d_ips d) /\ d_armed d = false
  | DSending => d_tosend d <> [] /\ d_ips d = [] /\ d_armed d = false
  | DStopped => d_tosend d = [] /\ d_ips d = []
  | DPanicked => d_tosend d = [] /\ d_ips d = [] /\ d_received d = [] /\ d_calls d = []
  end.

Record DInv (lim : Z) (d : dstate) : Prop := {
  di_phase : phase_ok lim d;
  di_bound : Forall (λ b, size_ok lim b.1.1) (d_calls d);
  di_sources : d_received d ≡ₚ d_queried d ++ d_ips d ++ d_dropped d;
  di_answers : d_due d ≡ₚ d_sent d ++ d_tosend d ++ d_abandoned d;
  di_dropped : d_dropped d <> [] -> d_phase d = DStopped;
  di_abandoned : d_abandoned d <> [] -> d_cancelled d = true
}.

Lemma dinv_init lim : DInv lim (d_init lim).
Proof.
  unfold d_init. split; cbn; try done.
  unfold phase_ok; cbn. destruct (lim <? 0); cbn; repeat split; try done.
Qed.

Lemma after_lookup_nil : after_lookup [] = DSelect.
Proof. done. Qed.
Lemma after_lookup_cons i r : after_lookup (i :: r) = DSending.
Proof. done. Qed.

Lemma answers_nil_inv ips res : answers ips res = [] -> ips = [].
Proof. destruct ips; [done|discriminate]. Qed.

Ltac fin_with Hd := split; cbn -[answers]; try done; try (let Hx := fresh in intros Hx; by specialize (Hd Hx)).
Lemma dinv_step lim d l d' : DInv lim d -> dstep lim d l = Some d' -> DInv lim d'.
Proof.
  destruct d as [ph ips armed ts can rcv calls sent drop aband].
  intros [Hph Hb Hs Ha Hd Hab]. unfold phase_ok, d_queried, d_due in *. cbn in *.
  destruct l as [ip| | | |res err| | | |], ph; cbn; try done.
  - (* DRecv *) destruct Hph as (-> & Harm & Hlt).
    destruct (Z.of_nat (length (ips ++ [ip])) >=? lim) eqn:E; intros [= <-]; fin_with Hd.
    + split; [done|]. split; [|done]. unfold size_ok. rewrite app_length in *; cbn [length] in *.
      destruct ips as [|p ips]; cbn [length] in *; [lia|]. specialize (Hlt ltac:(done)). lia.
    + rewrite Hs. solve_Permutation.
    + split; [done|]. split; [split; [by destruct ips|done]|]. intros _. lia.
    + rewrite Hs. solve_Permutation.
  - (* DTimer *) destruct Hph as (-> & Harm & Hlt). destruct armed; [|done]. intros [= <-]; fin_with Hd.
    assert (ips <> []) as Hne by by apply Harm. specialize (Hlt Hne).
    split; [done|]. split; [|done]. unfold size_ok. destruct ips; [done|]. cbn [length] in *. lia.
  - (* DLimit *) intros [= <-]; by fin_with Hd.
  - (* DLimitErr *) destruct Hph as (-> & Hsz & ->). intros [= <-]; by fin_with Hd.
  - (* DCall *) destruct Hph as (-> & Hsz & ->). intros [= <-]; fin_with Hd.
    + destruct (answers ips res) as [|i r] eqn:E.
      * apply answers_nil_inv in E. subst ips. unfold size_ok in Hsz; cbn in Hsz; lia.
      * rewrite after_lookup_cons. done.
    + by constructor.
    + rewrite Hs. solve_Permutation.
    + cbn -[answers] in Ha. rewrite Ha. solve_Permutation.
  - (* DSend *) destruct Hph as (Hne & -> & ->). destruct ts as [|i ts]; [done|]. intros [= <-]; fin_with Hd.
    + destruct ts; [rewrite after_lookup_nil|rewrite after_lookup_cons]; cbn; done.
    + rewrite Ha. solve_Permutation.
  - (* DAbandon *) destruct Hph as (Hne & -> & ->). destruct can; [|done]. intros [= <-]; by fin_with Hd.
  - (* DCancel *) intros [= <-]; by fin_with Hd.
  - intros [= <-]; by fin_with Hd.
  - intros [= <-]; by fin_with Hd.
  - intros [= <-]; by fin_with Hd.
  - intros [= <-]; by fin_with Hd.
  - intros [= <-]; by fin_with Hd.
  - (* DStop *) destruct Hph as (-> & Harm & Hlt). destruct can; [|done]. intros [= <-]; by fin_with Hd.
Qed.

Lemma dinv_reachable lim ls d : run (dstep lim) (d_init lim) ls = Some d -> DInv lim d.
Proof. apply (invariant_run (dstep lim) (DInv lim) (dinv_step lim)), dinv_init. Qed.

(* a history without cancellation and limiter failure *)
Definition fault_free (d : dstate) : Prop :=
  d_cancelled d = false /\ d_dropped d = [] /\ d_abandoned d = [] /\ d_phase d <> DStopped.

Lemma fault_free_run lim ls d d' :
  fault_free d -> Forall (λ l, d_fault l = false) ls -> run (dstep lim) d ls = Some d' -> fault_free d'.
Proof.
  revert d. induction ls as [|l ls IH]; intros d Hf Hls Hrun; cbn in Hrun.
  - by injection Hrun as <-.
  - destruct (dstep lim d l) as [d1|] eqn:E; [|done]. inversion_clear Hls as [|? ? Hl Hls'].
    apply (IH d1); [|done|done]. clear IH Hrun Hls'.
    destruct d as [ph ips armed ts can rcv calls sent drop aband].
    destruct Hf as (Hc & Hd & Ha & Hp); cbn in *.
    destruct l, ph; cbn in *; try done; try (injection E as <-; by repeat split).
    + destruct (_ >=? _); injection E as <-; by repeat split.
    + destruct armed; [|done]. injection E as <-; by repeat split.
    + injection E as <-. repeat split; try done. cbn. unfold after_lookup. by destruct (answers ips res).
    + destruct ts; [done|]. injection E as <-. repeat split; try done. cbn. unfold after_lookup. by destruct ts.
Qed.

Lemma dispatcher_batch_bound lim ls d :
  run (dstep lim) (d_init lim) ls = Some d ->
  Forall (λ b, 1 <= Z.of_nat (length b.1.1) <= Z.max 1 lim) (d_calls d) /\
  (1 <= lim -> Forall (λ b, 1 <= Z.of_nat (length b.1.1) <= lim) (d_calls d)) /\
  (lim < 0 -> d_calls d = [] /\ d_received d = []).
Proof.
  intros Hrun. destruct (dinv_reachable lim ls d Hrun) as [Hph Hb _ _ _ _].
  split; [exact Hb|]. split.
  - intros Hl. eapply Forall_impl; [exact Hb|]. unfold size_ok; cbn. intros; lia.
  - intros Hl. clear Hb. revert Hrun Hph.
    assert (forall ls d0, d_phase d0 = DPanicked -> run (dstep lim) d0 ls = Some d -> d_phase d = DPanicked) as Hstay.
    { clear. induction ls as [|l ls IH]; intros d0 Hp Hrun; cbn in Hrun; [by injection Hrun as <-|].
      destruct (dstep lim d0 l) as [d1|] eqn:E; [|done]. apply (IH d1); [|done].
      destruct d0; cbn in *; subst. destruct l; cbn in E; try done. by injection E as <-. }
    intros Hrun Hph. assert (d_phase d = DPanicked) as Hp.
    { apply (Hstay ls (d_init lim)); [|done]. unfold d_init; cbn. by rewrite (proj2 (Z.ltb_lt lim 0) Hl). }
    unfold phase_ok in Hph. rewrite Hp in Hph. tauto.
Qed.

Lemma stopped_terminal lim d l : d_phase d = DStopped -> l <> DCancel -> dstep lim d l = None.
Proof. destruct d; cbn; intros ->. by destruct l. Qed.

Lemma dispatcher_cancel lim ls d :
  run (dstep lim) (d_init lim) ls = Some d ->
  d_received d ≡ₚ d_queried d ++ d_ips d ++ d_dropped d /\
  d_due d ≡ₚ d_sent d ++ d_tosend d ++ d_abandoned d /\
  (d_dropped d <> [] -> d_phase d = DStopped) /\
  (d_abandoned d <> [] -> d_cancelled d = true) /\
  (d_phase d = DStopped -> d_ips d = [] /\ d_tosend d = [] /\ forall l, l <> DCancel -> dstep lim d l = None) /\
  (Forall (λ l, d_fault l = false) ls ->
   d_dropped d = [] /\ d_abandoned d = [] /\ d_cancelled d = false /\ d_phase d <> DStopped).
Proof.
  intros Hrun. destruct (dinv_reachable lim ls d Hrun) as [Hph _ Hs Ha Hd Hab].
  split; [done|]. split; [done|]. split; [done|]. split; [done|]. split.
  - intros Hp. unfold phase_ok in Hph. rewrite Hp in Hph. destruct Hph as [-> ->].
    split; [done|]. split; [done|]. intros l Hl. by apply stopped_terminal.
  - intros Hls. assert (fault_free (d_init lim)) as H0.
    { unfold fault_free, d_init; cbn. repeat split; try done. by destruct (lim <? 0). }
    destruct (fault_free_run lim ls _ d H0 Hls Hrun) as (? & ? & ? & ?). done.
Qed.

(* the limiter of golang.org/x/time/rate with a bucket of at least one token: as the loop asks for ONE token per
   provider call whatever the batch size, Wait never fails without a cancellation, so the loop never returns and
   every received source is queried or still being collected -- for every batch limit, also above the burst *)
Lemma dstep_b_nofault lim burst d l d' :
  1 <= burst -> d_cancelled d = false -> l <> DCancel -> dstep_b lim burst d l = Some d' ->
  dstep lim d l = Some d' /\ d_fault l = false.
Proof.
  intros Hb Hc Hl. unfold dstep_b. destruct (limiter_ok burst d l) eqn:Ok; [|done]. intros E. split; [done|].
  destruct d as [ph ips armed ts can rcv calls sent drop aband]; cbn in *; subst can.
  destruct l; try done.
  - exfalso. cbn in Ok. unfold limiter_request in Ok. apply Z.ltb_lt in Ok. lia.
  - exfalso. by destruct ph.
  - exfalso. by destruct ph.
Qed.

Lemma dispatcher_limiter_run lim burst ls d d' :
  1 <= burst -> fault_free d -> DCancel ∉ ls -> run (dstep_b lim burst) d ls = Some d' ->
  run (dstep lim) d ls = Some d' /\ Forall (λ l, d_fault l = false) ls.
Proof.
  intros Hb. revert d. induction ls as [|l ls IH]; intros d Hf Hn Hrun; cbn in *.
  - by injection Hrun as <-.
  - destruct (dstep_b lim burst d l) as [d1|] eqn:E; [|done].
    assert (l <> DCancel) as Hl by (intros ->; apply Hn; left).
    destruct (dstep_b_nofault lim burst d l d1 Hb (proj1 Hf) Hl E) as [E' Hfl]. rewrite E'.
    assert (fault_free d1) as Hf1.
    { apply (fault_free_run lim [l] d d1 Hf); [by constructor|]. cbn. by rewrite E'. }
    destruct (IH d1 Hf1) as [Hr Hall]; [intros Hin; apply Hn; by right|done|]. split; [done|by constructor].
Qed.

Lemma dispatcher_limiter lim burst ls d :
  1 <= burst -> DCancel ∉ ls -> run (dstep_b lim burst) (d_init lim) ls = Some d ->
  Forall (λ l, d_fault l = false) ls /\
  d_phase d <> DStopped /\ d_dropped d = [] /\ d_abandoned d = [] /\
  d_received d ≡ₚ d_queried d ++ d_ips d /\
  Forall (λ b, 1 <= Z.of_nat (length b.1.1) <= Z.max 1 lim) (d_calls d).
Proof.
  intros Hb Hn Hrun. assert (fault_free (d_init lim)) as H0.
  { unfold fault_free, d_init; cbn. repeat split; try done. by destruct (lim <? 0). }
  destruct (dispatcher_limiter_run lim burst ls _ d Hb H0 Hn Hrun) as [Hr Hall].
  destruct (dispatcher_cancel lim ls d Hr) as (Hs & _ & _ & _ & _ & Hff).
  destruct (Hff Hall) as (Hd & Ha & _ & Hp). split; [done|]. split; [done|]. split; [done|]. split; [done|].
  split; [by rewrite Hs, Hd, app_nil_r|]. apply (dispatcher_batch_bound lim ls d Hr).
Qed.

(* ... while a request of more tokens than the bucket holds fails at once (here: one token, empty bucket) *)
Example ex_limiter_too_small :
  exists d, run (dstep_b 1 0) (d_init 1) [DRecv x_a; DLimitErr] = Some d /\ d_phase d = DStopped /\
            d_dropped d = [x_a] /\ dstep_b 1 0 (DState DLimiter [x_a] false [] false [x_a] [] [] [] []) DLimit = None.
Proof. eexists. by repeat split. Qed.

(* shutdown boundary: sources the dispatcher had accepted are neither queried nor answered; answers of a
   provider call are never sent *)
Lemma dispatcher_cancel_boundary :
  (forall lim s, 1 < lim -> exists d,
     run (dstep lim) (d_init lim) [DRecv s; DCancel; DStop] = Some d /\
     d_phase d = DStopped /\ d_received d = [s] /\ d_calls d = [] /\ d_dropped d = [s]) /\
  (forall s, exists d,
     run (dstep 1) (d_init 1) [DRecv s; DCancel; DLimitErr] = Some d /\
     d_phase d = DStopped /\ d_received d = [s] /\ d_calls d = [] /\ d_dropped d = [s]) /\
  (forall s, exists d,
     run (dstep 1) (d_init 1) [DRecv s; DLimit; DCall [] false; DCancel; DAbandon; DStop] = Some d /\
     d_phase d = DStopped /\ d_queried d = [s] /\ d_sent d = [] /\ d_abandoned d = [(s, None)]).
Proof.
  split; [|split].
  - intros lim s Hl. eexists. split.
    { unfold d_init. rewrite (proj2 (Z.ltb_ge lim 0)) by lia. cbn.
      assert ((Z.of_nat 1 >=? lim) = false) as E by (rewrite Z.geb_leb; apply Z.leb_gt; lia).
      rewrite E. reflexivity. }
    by repeat split.
  - intros s. eexists. split; [reflexivity|by repeat split].
  - intros s. eexists. split; [reflexivity|by repeat split].
Qed.

(* ---- Run + the loop ------------------------------------------------------------------------------------ *)

(* what a step of Model/InstanceCache.v does to the component that stands for the dispatcher *)
Lemma step_dispatcher_view c st l st' :
  step c st l = Some st' ->
  (pending st', inflight st', batches st') =
  match l with
  | Submit s => (pending st ++ [s], inflight st, batches st)
  | SendLookup => (pending st ++ opt_list (lookup_reg st), inflight st, batches st)
  | Batch res err => ([], answers (pending st) res, (pending st, res, err) :: batches st)
  | HandleInfo _ => (pending st, tail (inflight st), batches st)
  | _ => (pending st, inflight st, batches st)
  end.
Proof.
  destruct st as [k tl lr tr rr pe inf sub req bat han evi del pk].
  destruct l as [s0| |res err|now| |t order|s0 now]; cbn [step].
  - destruct (can_receive c pe inf); [|done]. by intros [= <-].
  - destruct lr as [s1|]; [|done]. destruct (can_receive c pe inf); [|done]. intros [= <-]. by rewrite loop_tail_eq.
  - destruct inf as [|i1 inf]; [|done]. destruct pe as [|p1 pe]; [done|]. by intros [= <-].
  - destruct inf as [|i1 inf]; [done|]. intros [= <-]. by rewrite loop_tail_eq.
  - destruct rr as [i1|]; [|done]. intros [= <-]. by rewrite loop_tail_eq.
  - destruct (do_refresh c t k) as [[k' ev] rq]. case_decide; [|done]. intros [= <-]. by rewrite loop_tail_eq.
  - by intros [= <-].
Qed.

Definition coupled (st : state) (d : dstate) : Prop :=
  pending st = d_ips d /\ inflight st = d_tosend d /\ batches st = d_calls d.

Definition CInv (c : config) (sd : state * dstate) : Prop := coupled sd.1 sd.2 /\ DInv (c_limit c) sd.2.

Lemma cinv_init c : CInv c (init, d_init (c_limit c)).
Proof. split; [done|apply dinv_init]. Qed.

Lemma cinv_step c sd cl sd' : CInv c sd -> cstep c sd cl = Some sd' -> CInv c sd'.
Proof.
  destruct sd as [st d], sd' as [st2 d2]. intros [(Hp & Hi & Hb) HD]. unfold cstep. cbn [fst snd] in *.
  destruct (match cproj cl with Some l => step c st l | None => Some st end) as [st1|] eqn:Es; [|done].
  destruct (match dpart st cl with Some dl => dstep (c_limit c) d dl | None => Some d end) as [d1|] eqn:Ed; [|done].
  intros [= <- <-]. split; cbn [fst snd].
  - (* the views stay equal *)
    destruct d as [ph ips armed ts can rcv calls sent drop aband]. cbn in Hp, Hi, Hb. unfold coupled.
    destruct cl as [s| | | |res err|now| |t o|s now]; cbn [cproj dpart] in Es, Ed.
    + pose proof (step_dispatcher_view _ _ _ _ Es) as [= -> -> ->].
      destruct ph; cbn in Ed; try done. destruct (_ >=? _); injection Ed as <-; cbn; by rewrite Hp.
    + pose proof (step_dispatcher_view _ _ _ _ Es) as [= -> -> ->].
      destruct (lookup_reg st) as [s|]; cbn in Ed |- *.
      * destruct ph; cbn in Ed; try done. destruct (_ >=? _); injection Ed as <-; cbn; by rewrite Hp.
      * injection Ed as <-; cbn. by rewrite app_nil_r.
    + injection Es as <-. destruct ph; cbn in Ed; try done. destruct armed; [|done]. by injection Ed as <-.
    + injection Es as <-. destruct ph; cbn in Ed; try done. by injection Ed as <-.
    + pose proof (step_dispatcher_view _ _ _ _ Es) as [= -> -> ->].
      destruct ph; cbn -[answers] in Ed; try done. injection Ed as <-; cbn -[answers]. by rewrite Hp, Hb.
    + pose proof (step_dispatcher_view _ _ _ _ Es) as [= -> -> ->].
      destruct ph; cbn in Ed; try done. destruct ts as [|i ts]; [done|]. injection Ed as <-; cbn. by rewrite Hi.
    + pose proof (step_dispatcher_view _ _ _ _ Es) as [= -> -> ->]. by injection Ed as <-.
    + pose proof (step_dispatcher_view _ _ _ _ Es) as [= -> -> ->]. by injection Ed as <-.
    + pose proof (step_dispatcher_view _ _ _ _ Es) as [= -> -> ->]. by injection Ed as <-.
  - destruct (dpart st cl) as [dl|]; [by eapply dinv_step|by injection Ed as <-].
Qed.

Lemma cinv_reachable c cls sd : run (cstep c) (init, d_init (c_limit c)) cls = Some sd -> CInv c sd.
Proof. apply (invariant_run (cstep c) (CInv c) (cinv_step c)), cinv_init. Qed.

Lemma cstep_projects c cls sd sd' :
  run (cstep c) sd cls = Some sd' -> run (step c) sd.1 (omap cproj cls) = Some sd'.1.
Proof.
  revert sd. induction cls as [|cl cls IH]; intros sd Hrun; cbn in Hrun.
  - by injection Hrun as <-.
  - destruct (cstep c sd cl) as [sd1|] eqn:E; [|done]. specialize (IH _ Hrun).
    destruct sd as [st d]. unfold cstep in E. cbn [omap list_omap].
    destruct (cproj cl) as [l|]; cbn.
    + destruct (step c st l) as [st1|]; [|done]. destruct (match dpart st cl with Some _ => _ | None => _ end); [|done].
      by injection E as <-.
    + destruct (match dpart st cl with Some _ => _ | None => _ end); [|done]. by injection E as <-.
Qed.

(* the loop composed with Run behaves as the abstract model says, with batches of 1..limit sources *)
Lemma dispatcher_refines c cls st d :
  run (cstep c) (init, d_init (c_limit c)) cls = Some (st, d) ->
  run (step c) init (omap cproj cls) = Some st /\
  pending st = d_ips d /\ inflight st = d_tosend d /\ batches st = d_calls d /\
  Forall (λ b, 1 <= Z.of_nat (length b.1.1) <= Z.max 1 (c_limit c)) (batches st).
Proof.
  intros Hrun. split; [exact (cstep_projects c cls _ _ Hrun)|].
  destruct (cinv_reachable c cls _ Hrun) as [(Hp & Hi & Hb) HD]. cbn [fst snd] in *.
  repeat split; try done. rewrite Hb. apply (di_bound _ _ HD).
Qed.

(* ... and the abstract model never is the one that refuses a joint step: whenever the loop can take its
   part (and, for SendLookup, Run has something in its register), the joint step exists *)
Lemma dispatcher_never_blocked c cls st d cl dl d' :
  run (cstep c) (init, d_init (c_limit c)) cls = Some (st, d) ->
  dpart st cl = Some dl -> dstep (c_limit c) d dl = Some d' ->
  exists st', cstep c (st, d) cl = Some (st', d').
Proof.
  intros Hrun Hdl Hd. destruct (cinv_reachable c cls _ Hrun) as [(Hp & Hi & Hb) [Hph _ _ _ _ _]].
  cbn [fst snd] in *. unfold cstep. rewrite Hdl, Hd.
  enough (exists st', match cproj cl with Some l => step c st l | None => Some st end = Some st') as [st' ->] by eauto.
  destruct st as [k tl lr tr rr pe inf sub req bat han evi del pk].
  destruct d as [ph ips armed ts can rcv calls sent drop aband]. unfold phase_ok in Hph. cbn in *. subst pe inf bat.
  assert (ph = DSelect -> can_receive c ips ts = true) as Hrecv.
  { intros ->. destruct Hph as (-> & _ & Hlt). unfold can_receive. destruct ips as [|p ips]; [done|].
    apply bool_decide_eq_true. by apply Hlt. }
  destruct cl as [s| | | |res err|now| |t o|s now]; cbn [cproj dpart] in *; try done; try by eauto.
  - injection Hdl as <-. destruct ph; cbn in Hd; try done. rewrite Hrecv by done. eauto.
  - destruct lr as [s|]; [|done]. injection Hdl as <-. destruct ph; cbn in Hd; try done.
    rewrite Hrecv by done. eauto.
  - injection Hdl as <-. destruct ph; cbn in Hd; try done. destruct Hph as (-> & Hsz & _).
    destruct ips; [unfold size_ok in Hsz; cbn in Hsz; lia|]. eauto.
  - injection Hdl as <-. destruct ph; cbn in Hd; try done. destruct ts; [done|]. eauto.
Qed.

(* ---- non-vacuity ---------------------------------------------------------------------------------------- *)

(* limit 2: one source flushed by the timer, then two sources flushed because the batch is full; while the
   limiter / provider / doLookup are busy a further source is not accepted *)
Definition x_loop : list clabel :=
  [CSubmit x_a; CTimer; CLimit; CCall [(x_a, Some x_i1)] false; CHandle 100;
   CSubmit x_a; CSubmit x_b; CLimit; CCall [] true; CHandle 101; CHandle 101; CReturn].

Example ex_loop :
  exists st d, run (cstep x_cfg) (init, d_init 2) x_loop = Some (st, d) /\
    map (λ b, b.1.1) (batches st) = [[x_a; x_b]; [x_a]] /\ d_phase d = DSelect /\ d_armed d = false /\
    d_received d = [x_b; x_a; x_a] /\ d_sent d = [(x_b, None); (x_a, None); (x_a, Some x_i1)] /\
    serves st x_a x_i1.
Proof. eexists _, _. split; [vm_compute; reflexivity|]. vm_compute. repeat split; reflexivity. Qed.

Example ex_loop_full_batch_refuses :
  exists sd, run (cstep x_cfg) (init, d_init 2) [CSubmit x_a; CSubmit x_b] = Some sd /\
    d_phase sd.2 = DLimiter /\ cstep x_cfg sd (CSubmit x_a) = None /\ cstep x_cfg sd CTimer = None /\
    is_Some (cstep x_cfg sd CLimit).
Proof.
  eexists. split; [vm_compute; reflexivity|]. split; [reflexivity|]. split; [vm_compute; reflexivity|].
  split; [vm_compute; reflexivity|]. vm_compute. eauto.
Qed.

(* a fault-free history of the loop alone, and one with a cancellation during doLookup *)
Example ex_loop_alone :
  exists d, run (dstep 3) (d_init 3) [DRecv x_a; DRecv x_b; DTimer; DLimit; DCall [] false; DSend; DSend] = Some d /\
    d_phase d = DSelect /\ d_queried d = [x_a; x_b] /\ d_sent d = [(x_b, None); (x_a, None)] /\ d_dropped d = [].
Proof. eexists. split; [vm_compute; reflexivity|]. by repeat split. Qed.

Example ex_negative_limit_panics : d_phase (d_init (-1)) = DPanicked /\ dstep (-1) (d_init (-1)) (DRecv x_a) = None.
Proof. by split. Qed.
