(* Proofs about Model/K8s.v (property C13). *)
From stdpp Require Import gmap.
From GS Require Import Base.Bytes Model.K8s.

(* ---------------------------------------------------------------- the pod index *)

Lemma candidates_holds st ip p : In p (candidates st ip) <-> holds st ip p.
Proof.
  unfold candidates, holds. rewrite filter_In, <- elem_of_list_In, elem_of_list_fmap.
  split.
  - intros [[[k q] [Hq Hin]] Hf]. cbn in Hq. subst q.
    apply elem_of_map_to_list in Hin.
    apply andb_true_iff in Hf as [Hi He]. apply str_eqb_eq in He.
    exists k. auto.
  - intros [k [Hk [Hi He]]]. split.
    + exists (k, p). split; [reflexivity|]. apply elem_of_map_to_list. exact Hk.
    + rewrite Hi. cbn. apply str_eqb_eq. exact He.
Qed.

Lemma candidates_nil st ip : candidates st ip = [] -> forall p, ~ holds st ip p.
Proof. intros E p Hp. apply candidates_holds in Hp. rewrite E in Hp. destruct Hp. Qed.

Lemma candidates_head st ip p r : candidates st ip = p :: r -> holds st ip p.
Proof. intros E. apply candidates_holds. rewrite E. left. reflexivity. Qed.

(* ---------------------------------------------------------------- the memo invariant *)

Lemma invalidate_lookup p m ip v :
  invalidate p m !! ip = Some v -> m !! ip = Some v /\ (indexable p = true -> p_ip p <> ip).
Proof.
  unfold invalidate. destruct (indexable p) eqn:Hi.
  - intros H. apply lookup_delete_Some in H as [Hne H]. split; [exact H|]. intros _. exact Hne.
  - intros H. split; [exact H|]. intros C. discriminate C.
Qed.

Lemma coherent_init cfg : coherent cfg init.
Proof. intros ip i H. cbn in H. rewrite lookup_empty in H. discriminate H. Qed.

Lemma lookup_state_coherent cfg s ip : coherent cfg s -> coherent cfg (snd (lookup cfg s ip)).
Proof.
  intros Hc. unfold lookup.
  destruct (memo s !! ip) as [[i|]|] eqn:Em; cbn [snd]; [exact Hc| |].
  all: intros ip' i' H; cbn [memo store] in *;
    destruct (decide (ip' = ip)) as [->|Hne];
    [ rewrite lookup_insert in H
    | rewrite lookup_insert_ne in H by congruence; exact (Hc _ _ H) ].
  all: destruct (candidates (store s) ip) as [|p r] eqn:Ec; [discriminate H|];
    injection H as <-; exists p; split; [eapply candidates_head; exact Ec|reflexivity].
Qed.

Lemma step_coherent cfg s l :
  coherent cfg s -> informer_ok (store s) l -> coherent cfg (step cfg s l).
Proof.
  intros Hc Hok. destruct l as [p|old new|p|ip]; cbn [step].
  - (* Add *)
    cbn in Hok. intros ip i H. cbn [memo store] in *.
    destruct (Hc _ _ H) as [q [[k [Hk Hq]] ->]].
    exists q. split; [|reflexivity]. exists k. split; [|exact Hq].
    rewrite lookup_insert_ne; [exact Hk|]. intros <-. rewrite Hok in Hk. discriminate Hk.
  - (* Update *)
    destruct Hok as [Hkey Hold]. intros ip i H. cbn [memo store] in *.
    apply invalidate_lookup in H as [H Hne].
    destruct (Hc _ _ H) as [q [[k [Hk [Hqi Hqip]]] ->]].
    exists q. split; [|reflexivity]. exists k. split; [|auto].
    rewrite lookup_insert_ne; [exact Hk|]. intros <-.
    rewrite Hold in Hk. injection Hk as ->. exact (Hne Hqi Hqip).
  - (* Delete *)
    cbn in Hok. intros ip i H. cbn [memo store] in *.
    apply invalidate_lookup in H as [H Hne].
    destruct (Hc _ _ H) as [q [[k [Hk [Hqi Hqip]]] ->]].
    exists q. split; [|reflexivity]. exists k. split; [|auto].
    rewrite lookup_delete_ne; [exact Hk|]. intros <-.
    rewrite Hok in Hk. injection Hk as ->. exact (Hne Hqi Hqip).
  - apply lookup_state_coherent. exact Hc.
Qed.

Lemma run_coherent cfg ls : forall s,
  coherent cfg s -> history_ok cfg s ls -> coherent cfg (run cfg s ls).
Proof.
  induction ls as [|l r IH]; intros s Hc Hh; cbn in *; [exact Hc|].
  destruct Hh as [Hok Hr]. apply IH; [apply step_coherent; assumption|exact Hr].
Qed.

Lemma memo_coherent cfg ls : history_ok cfg init ls -> coherent cfg (run cfg init ls).
Proof. apply run_coherent, coherent_init. Qed.

Lemma history_ok_app cfg ls1 : forall s ls2,
  history_ok cfg s (ls1 ++ ls2) <-> history_ok cfg s ls1 /\ history_ok cfg (run cfg s ls1) ls2.
Proof.
  induction ls1 as [|l r IH]; intros s ls2; cbn; [tauto|]. rewrite IH. tauto.
Qed.

(* ---------------------------------------------------------------- lookups *)

(* whatever a lookup answers is derived from a pod version that is stored now and holds the IP *)
Lemma lookup_from_current cfg s ip i :
  coherent cfg s -> fst (lookup cfg s ip) = Some i ->
  exists p, holds (store s) ip p /\ i = derive cfg p.
Proof.
  intros Hc. unfold lookup.
  destruct (memo s !! ip) as [[j|]|] eqn:Em; cbn [fst].
  1: intros [= ->]; exact (Hc _ _ Em).
  all: destruct (candidates (store s) ip) as [|p r] eqn:Ec; [discriminate|];
    intros [= <-]; exists p; split; [eapply candidates_head; exact Ec|reflexivity].
Qed.

(* a lookup answers nothing only when no pod holds the IP *)
Lemma lookup_none cfg s ip :
  fst (lookup cfg s ip) = None -> forall p, ~ holds (store s) ip p.
Proof.
  unfold lookup.
  destruct (memo s !! ip) as [[j|]|] eqn:Em; cbn [fst]; [discriminate| |].
  all: destruct (candidates (store s) ip) as [|p r] eqn:Ec; [|discriminate];
    intros _; apply candidates_nil; exact Ec.
Qed.

Lemma lookup_current_state cfg s ip :
  coherent cfg s -> unique_holder (store s) ip ->
  (forall p, holds (store s) ip p -> fst (lookup cfg s ip) = Some (derive cfg p)) /\
  ((forall p, ~ holds (store s) ip p) -> fst (lookup cfg s ip) = None).
Proof.
  intros Hc Hu. split.
  - intros p Hp. destruct (fst (lookup cfg s ip)) as [i|] eqn:E.
    + destruct (lookup_from_current _ _ _ _ Hc E) as [q [Hq ->]]. rewrite (Hu _ _ Hp Hq). reflexivity.
    + exfalso. exact (lookup_none _ _ _ E p Hp).
  - intros Hn. destruct (fst (lookup cfg s ip)) as [i|] eqn:E; [|reflexivity].
    destruct (lookup_from_current _ _ _ _ Hc E) as [q [Hq _]]. exfalso. exact (Hn q Hq).
Qed.

Lemma lookup_current cfg ls ip :
  history_ok cfg init ls ->
  let s := run cfg init ls in
  unique_holder (store s) ip ->
  (forall p, holds (store s) ip p -> fst (lookup cfg s ip) = Some (derive cfg p)) /\
  ((forall p, ~ holds (store s) ip p) -> fst (lookup cfg s ip) = None).
Proof. intros Hh s Hu. apply lookup_current_state; [apply memo_coherent; exact Hh|exact Hu]. Qed.

Lemma answer_from_current_version cfg ls ip i :
  history_ok cfg init ls ->
  let s := run cfg init ls in
  fst (lookup cfg s ip) = Some i -> exists p, holds (store s) ip p /\ i = derive cfg p.
Proof. intros Hh s. apply lookup_from_current, memo_coherent, Hh. Qed.

(* the same for a lookup in the middle of a history *)
Lemma lookup_current_interleaved cfg before ip after :
  history_ok cfg init (before ++ Lookup ip :: after) ->
  let s := run cfg init before in
  unique_holder (store s) ip ->
  (forall p, holds (store s) ip p -> fst (lookup cfg s ip) = Some (derive cfg p)) /\
  ((forall p, ~ holds (store s) ip p) -> fst (lookup cfg s ip) = None).
Proof. intros Hh. apply history_ok_app in Hh as [Hb _]. apply lookup_current. exact Hb. Qed.

(* ---------------------------------------------------------------- the tag-name rule *)

Lemma is_empty_true s : is_empty s = true <-> s = [].
Proof. destruct s; cbn; split; congruence. Qed.
Lemma is_empty_false s : is_empty s = false <-> s <> [].
Proof. destruct s; cbn; split; congruence. Qed.

Lemma first_tag_Some groups t : first_tag groups = Some t <-> tag_capture groups t.
Proof.
  unfold tag_capture. induction groups as [|[n x] r IH]; cbn.
  - split; [discriminate|]. intros [pre [post [E _]]]. destruct pre; discriminate E.
  - destruct (str_eqb_spec n tag_group) as [->|Hn]; cbn.
    + destruct x as [|b x]; cbn.
      * rewrite IH. split.
        -- intros [pre [post [-> [Ht Hp]]]]. exists ((tag_group, []) :: pre), post.
           split; [reflexivity|]. split; [exact Ht|]. constructor; [right; reflexivity|exact Hp].
        -- intros [[|g pre] [post [E [Ht Hp]]]]; cbn in E.
           ++ injection E as <- _. congruence.
           ++ injection E as <- ->. exists pre, post. inversion Hp; auto.
      * split.
        -- intros [= <-]. exists [], r. split; [reflexivity|]. split; [discriminate|constructor].
        -- intros [[|g pre] [post [E [Ht Hp]]]]; cbn in E.
           ++ injection E as -> _. reflexivity.
           ++ injection E as <- _. inversion Hp as [|? ? [Hg|Hg] _]; cbn in Hg; congruence.
    + rewrite IH. split.
      * intros [pre [post [-> [Ht Hp]]]]. exists ((n, x) :: pre), post.
        split; [reflexivity|]. split; [exact Ht|]. constructor; [left; exact Hn|exact Hp].
      * intros [[|g pre] [post [E [Ht Hp]]]]; cbn in E.
        -- injection E as -> _. congruence.
        -- injection E as <- ->. exists pre, post. inversion Hp; auto.
Qed.

Lemma first_tag_None groups : first_tag groups = None <-> no_tag_capture groups.
Proof.
  unfold no_tag_capture. induction groups as [|[n x] r IH]; cbn.
  - split; [constructor|reflexivity].
  - destruct (str_eqb_spec n tag_group) as [->|Hn]; cbn.
    + destruct x as [|b x]; cbn.
      * rewrite IH. split; [intros H; constructor; [right; reflexivity|exact H]|intros H; inversion H; auto].
      * split; [discriminate|]. intros H. inversion H as [|? ? [Hg|Hg] _]; cbn in Hg; congruence.
    + rewrite IH. split; [intros H; constructor; [left; exact Hn|exact H]|intros H; inversion H; auto].
Qed.

Lemma tag_capture_total groups : (exists t, tag_capture groups t) \/ no_tag_capture groups.
Proof.
  destruct (first_tag groups) as [t|] eqn:E.
  - left. exists t. apply first_tag_Some. exact E.
  - right. apply first_tag_None. exact E.
Qed.

Lemma tag_rule re key :
  match re_find re key with
  | None => tag_name re key = []
  | Some (whole, groups) =>
      (forall t, tag_capture groups t -> tag_name re key = t) /\
      (no_tag_capture groups -> whole <> [] -> tag_name re key = key) /\
      (no_tag_capture groups -> whole = [] -> tag_name re key = []) /\
      ((exists t, tag_capture groups t) \/ no_tag_capture groups)
  end.
Proof.
  unfold tag_name. destruct (re_find re key) as [[whole groups]|]; [|reflexivity].
  repeat split.
  - intros t Ht. apply first_tag_Some in Ht. rewrite Ht. reflexivity.
  - intros Hn Hw. apply first_tag_None in Hn. rewrite Hn.
    apply is_empty_false in Hw. rewrite Hw. reflexivity.
  - intros Hn ->. apply first_tag_None in Hn. rewrite Hn. reflexivity.
  - apply tag_capture_total.
Qed.

Lemma tags_of_spec re kvs tag :
  In tag (tags_of re kvs) <->
  exists r k v, re = Some r /\ In (k, v) kvs /\ tag_name r k <> [] /\ tag = tag_name r k ++ c_colon :: v.
Proof.
  unfold tags_of. destruct re as [r|].
  - rewrite in_flat_map. split.
    + intros [[k v] [Hin Ht]]. cbn [fst snd] in Ht.
      destruct (is_empty (tag_name r k)) eqn:E; [destruct Ht|].
      destruct Ht as [<-|[]]. exists r, k, v. apply is_empty_false in E. auto.
    + intros [r' [k [v [[= <-] [Hin [Hne ->]]]]]]. exists (k, v). split; [exact Hin|].
      cbn [fst snd]. apply is_empty_false in Hne. rewrite Hne. left. reflexivity.
  - split; [intros []|]. intros [r [k [v [E _]]]]. discriminate E.
Qed.

Lemma derive_spec cfg p :
  i_id (derive cfg p) = p_ns p ++ c_slash :: p_name p /\
  forall tag, In tag (i_tags (derive cfg p)) <->
    (exists r k v, c_label_re cfg = Some r /\ In (k, v) (p_labels p) /\ tag_name r k <> [] /\
                   tag = tag_name r k ++ c_colon :: v) \/
    (exists r k v, c_annot_re cfg = Some r /\ In (k, v) (p_annots p) /\ tag_name r k <> [] /\
                   tag = tag_name r k ++ c_colon :: v).
Proof.
  split; [reflexivity|]. intros tag. cbn [derive i_tags]. rewrite in_app_iff, !tags_of_spec. tauto.
Qed.
