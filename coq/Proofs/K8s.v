(* Proofs about Model/K8s.v (property C13). *)
From stdpp Require Import gmap.
From GS Require Import Base.Bytes Model.K8s.

(* ---------------------------------------------------------------- the pod index *)

Lemma candidates_holds st ip p : In p (candidates st ip) <-> holds st ip p.
Proof.
  unfold candidates, holds. rewrite filter_In, <- elem_of_list_In, elem_of_list_fmap.
  split.
  - intros [[[k q] [Hq Hin]] Hf]. cbn in Hq. subst q.
    apply elem_of_map_to_list in Hin.
    apply andb_true_iff in Hf as [Hi He]. apply str_eqb_eq in He.
    exists k. auto.
  - intros [k [Hk [Hi He]]]. split.
    + exists (k, p). split; [reflexivity|]. apply elem_of_map_to_list. exact Hk.
    + rewrite Hi. cbn. apply str_eqb_eq. exact He.
Qed.

Lemma candidates_nil st ip : candidates st ip = [] -> forall p, ~ holds st ip p.
Proof. intros E p Hp. apply candidates_holds in Hp. rewrite E in Hp. destruct Hp. Qed.

Lemma candidates_head st ip p r : candidates st ip = p :: r -> holds st ip p.
Proof. intros E. apply candidates_holds. rewrite E. left. reflexivity. Qed.

(* ---------------------------------------------------------------- the memo invariant *)

Lemma invalidate_lookup p m ip v :
  invalidate p m !! ip = Some v -> m !! ip = Some v /\ (indexable p = true -> p_ip p <> ip).
Proof.
  unfold invalidate. destruct (indexable p) eqn:Hi.
  - intros H. apply lookup_delete_Some in H as [Hne H]. split; [exact H|]. intros _. exact Hne.
  - intros H. split; [exact H|]. intros C. discriminate C.
Qed.

Lemma coherent_init cfg : coherent cfg init.
Proof. intros ip i H. cbn in H. rewrite lookup_empty in H. discriminate H. Qed.

Lemma lookup_state_coherent cfg s ip : coherent cfg s -> coherent cfg (snd (lookup cfg s ip)).
Proof.
  intros Hc. unfold lookup.
  destruct (memo s !! ip) as [[i|]|] eqn:Em; cbn [snd]; [exact Hc| |].
  all: intros ip' i' H; cbn [memo store] in *;
    destruct (decide (ip' = ip)) as [->|Hne];
    [ rewrite lookup_insert in H
    | rewrite lookup_insert_ne in H by congruence; exact (Hc _ _ H) ].
  all: destruct (candidates (store s) ip) as [|p r] eqn:Ec; [discriminate H|];
    injection H as <-; exists p; split; [eapply candidates_head; exact Ec|reflexivity].
Qed.

Lemma informer_ok_safe st l : informer_ok st l -> delivery_safe st l.
Proof.
  destruct l as [p|old new|p|ip]; cbn; [| | |trivial].
  - intros Hn q Hq. rewrite Hn in Hq. discriminate Hq.
  - intros [_ Hold] q Hq Hi. rewrite Hold in Hq. injection Hq as ->. auto.
  - intros Hp q Hq Hi. rewrite Hp in Hq. injection Hq as ->. auto.
Qed.

(* one step keeps the invariant, under the weak contract *)
Lemma step_coherent_safe cfg s l :
  coherent cfg s -> delivery_safe (store s) l -> coherent cfg (step cfg s l).
Proof.
  intros Hc Hok. destruct l as [p|old new|p|ip]; cbn [step].
  - (* Add *)
    cbn in Hok. intros ip i H. cbn [memo store] in *.
    destruct (Hc _ _ H) as [q [[k [Hk [Hqi Hqip]]] ->]].
    exists q. split; [|reflexivity]. exists k. split; [|auto].
    rewrite lookup_insert_ne; [exact Hk|]. intros <-.
    rewrite (Hok _ Hk) in Hqi. discriminate Hqi.
  - (* Update *)
    cbn in Hok. intros ip i H. cbn [memo store] in *.
    apply invalidate_lookup in H as [H Hne].
    destruct (Hc _ _ H) as [q [[k [Hk [Hqi Hqip]]] ->]].
    exists q. split; [|reflexivity]. exists k. split; [|auto].
    rewrite lookup_insert_ne; [exact Hk|]. intros <-.
    destruct (Hok _ Hk Hqi) as [Hoi Hoip]. apply (Hne Hoi). congruence.
  - (* Delete *)
    cbn in Hok. intros ip i H. cbn [memo store] in *.
    apply invalidate_lookup in H as [H Hne].
    destruct (Hc _ _ H) as [q [[k [Hk [Hqi Hqip]]] ->]].
    exists q. split; [|reflexivity]. exists k. split; [|auto].
    rewrite lookup_delete_ne; [exact Hk|]. intros <-.
    destruct (Hok _ Hk Hqi) as [Hpi Hpip]. apply (Hne Hpi). congruence.
  - apply lookup_state_coherent. exact Hc.
Qed.

Lemma step_coherent cfg s l :
  coherent cfg s -> informer_ok (store s) l -> coherent cfg (step cfg s l).
Proof. intros Hc Hok. apply step_coherent_safe; [exact Hc|apply informer_ok_safe, Hok]. Qed.

Lemma run_coherent_safe cfg ls : forall s,
  coherent cfg s -> history_safe cfg s ls -> coherent cfg (run cfg s ls).
Proof.
  induction ls as [|l r IH]; intros s Hc Hh; cbn in *; [exact Hc|].
  destruct Hh as [Hok Hr]. apply IH; [apply step_coherent_safe; assumption|exact Hr].
Qed.

Lemma history_ok_safe cfg ls : forall s, history_ok cfg s ls -> history_safe cfg s ls.
Proof.
  induction ls as [|l r IH]; intros s H; cbn in *; [exact I|].
  destruct H as [Hok Hr]. split; [apply informer_ok_safe, Hok|apply IH, Hr].
Qed.

Lemma run_coherent cfg ls : forall s,
  coherent cfg s -> history_ok cfg s ls -> coherent cfg (run cfg s ls).
Proof.
  induction ls as [|l r IH]; intros s Hc Hh; cbn in *; [exact Hc|].
  destruct Hh as [Hok Hr]. apply IH; [apply step_coherent; assumption|exact Hr].
Qed.

Lemma memo_coherent cfg ls : history_ok cfg init ls -> coherent cfg (run cfg init ls).
Proof. apply run_coherent, coherent_init. Qed.

Lemma history_ok_app cfg ls1 : forall s ls2,
  history_ok cfg s (ls1 ++ ls2) <-> history_ok cfg s ls1 /\ history_ok cfg (run cfg s ls1) ls2.
Proof.
  induction ls1 as [|l r IH]; intros s ls2; cbn; [tauto|]. rewrite IH. tauto.
Qed.

(* ---------------------------------------------------------------- lookups *)

(* whatever a lookup answers is derived from a pod version that is stored now and holds the IP *)
Lemma lookup_from_current cfg s ip i :
  coherent cfg s -> fst (lookup cfg s ip) = Some i ->
  exists p, holds (store s) ip p /\ i = derive cfg p.
Proof.
  intros Hc. unfold lookup.
  destruct (memo s !! ip) as [[j|]|] eqn:Em; cbn [fst].
  1: intros [= ->]; exact (Hc _ _ Em).
  all: destruct (candidates (store s) ip) as [|p r] eqn:Ec; [discriminate|];
    intros [= <-]; exists p; split; [eapply candidates_head; exact Ec|reflexivity].
Qed.

(* a lookup answers nothing only when no pod holds the IP *)
Lemma lookup_none cfg s ip :
  fst (lookup cfg s ip) = None -> forall p, ~ holds (store s) ip p.
Proof.
  unfold lookup.
  destruct (memo s !! ip) as [[j|]|] eqn:Em; cbn [fst]; [discriminate| |].
  all: destruct (candidates (store s) ip) as [|p r] eqn:Ec; [|discriminate];
    intros _; apply candidates_nil; exact Ec.
Qed.

Lemma lookup_current_state cfg s ip :
  coherent cfg s -> unique_holder (store s) ip ->
  (forall p, holds (store s) ip p -> fst (lookup cfg s ip) = Some (derive cfg p)) /\
  ((forall p, ~ holds (store s) ip p) -> fst (lookup cfg s ip) = None).
Proof.
  intros Hc Hu. split.
  - intros p Hp. destruct (fst (lookup cfg s ip)) as [i|] eqn:E.
    + destruct (lookup_from_current _ _ _ _ Hc E) as [q [Hq ->]]. rewrite (Hu _ _ Hp Hq). reflexivity.
    + exfalso. exact (lookup_none _ _ _ E p Hp).
  - intros Hn. destruct (fst (lookup cfg s ip)) as [i|] eqn:E; [|reflexivity].
    destruct (lookup_from_current _ _ _ _ Hc E) as [q [Hq _]]. exfalso. exact (Hn q Hq).
Qed.

Lemma lookup_current cfg ls ip :
  history_ok cfg init ls ->
  let s := run cfg init ls in
  unique_holder (store s) ip ->
  (forall p, holds (store s) ip p -> fst (lookup cfg s ip) = Some (derive cfg p)) /\
  ((forall p, ~ holds (store s) ip p) -> fst (lookup cfg s ip) = None).
Proof. intros Hh s Hu. apply lookup_current_state; [apply memo_coherent; exact Hh|exact Hu]. Qed.

Lemma answer_from_current_version cfg ls ip i :
  history_ok cfg init ls ->
  let s := run cfg init ls in
  fst (lookup cfg s ip) = Some i -> exists p, holds (store s) ip p /\ i = derive cfg p.
Proof. intros Hh s. apply lookup_from_current, memo_coherent, Hh. Qed.

(* the same for a lookup in the middle of a history *)
Lemma lookup_current_interleaved cfg before ip after :
  history_ok cfg init (before ++ Lookup ip :: after) ->
  let s := run cfg init before in
  unique_holder (store s) ip ->
  (forall p, holds (store s) ip p -> fst (lookup cfg s ip) = Some (derive cfg p)) /\
  ((forall p, ~ holds (store s) ip p) -> fst (lookup cfg s ip) = None).
Proof. intros Hh. apply history_ok_app in Hh as [Hb _]. apply lookup_current. exact Hb. Qed.

(* ---------------------------------------------------------------- the tag-name rule *)

Lemma is_empty_true s : is_empty s = true <-> s = [].
Proof. destruct s; cbn; split; congruence. Qed.
Lemma is_empty_false s : is_empty s = false <-> s <> [].
Proof. destruct s; cbn; split; congruence. Qed.

Lemma first_tag_Some groups t : first_tag groups = Some t <-> tag_capture groups t.
Proof.
  unfold tag_capture. induction groups as [|[n x] r IH]; cbn.
  - split; [discriminate|]. intros [pre [post [E _]]]. destruct pre; discriminate E.
  - destruct (str_eqb_spec n tag_group) as [->|Hn]; cbn.
    + destruct x as [|b x]; cbn.
      * rewrite IH. split.
        -- intros [pre [post [-> [Ht Hp]]]]. exists ((tag_group, []) :: pre), post.
           split; [reflexivity|]. split; [exact Ht|]. constructor; [right; reflexivity|exact Hp].
        -- intros [[|g pre] [post [E [Ht Hp]]]]; cbn in E.
           ++ injection E as <- _. congruence.
           ++ injection E as <- ->. exists pre, post. inversion Hp; auto.
      * split.
        -- intros [= <-]. exists [], r. split; [reflexivity|]. split; [discriminate|constructor].
        -- intros [[|g pre] [post [E [Ht Hp]]]]; cbn in E.
           ++ injection E as -> _. reflexivity.
           ++ injection E as <- _. inversion Hp as [|? ? [Hg|Hg] _]; cbn in Hg; congruence.
    + rewrite IH. split.
      * intros [pre [post [-> [Ht Hp]]]]. exists ((n, x) :: pre), post.
        split; [reflexivity|]. split; [exact Ht|]. constructor; [left; exact Hn|exact Hp].
      * intros [[|g pre] [post [E [Ht Hp]]]]; cbn in E.
        -- injection E as -> _. congruence.
        -- injection E as <- ->. exists pre, post. inversion Hp; auto.
Qed.

Lemma first_tag_None groups : first_tag groups = None <-> no_tag_capture groups.
Proof.
  unfold no_tag_capture. induction groups as [|[n x] r IH]; cbn.
  - split; [constructor|reflexivity].
  - destruct (str_eqb_spec n tag_group) as [->|Hn]; cbn.
    + destruct x as [|b x]; cbn.
      * rewrite IH. split; [intros H; constructor; [right; reflexivity|exact H]|intros H; inversion H; auto].
      * split; [discriminate|]. intros H. inversion H as [|? ? [Hg|Hg] _]; cbn in Hg; congruence.
    + rewrite IH. split; [intros H; constructor; [left; exact Hn|exact H]|intros H; inversion H; auto].
Qed.

Lemma tag_capture_total groups : (exists t, tag_capture groups t) \/ no_tag_capture groups.
Proof.
  destruct (first_tag groups) as [t|] eqn:E.
  - left. exists t. apply first_tag_Some. exact E.
  - right. apply first_tag_None. exact E.
Qed.

Lemma tag_rule re key :
  match re_find re key with
  | None => tag_name re key = []
  | Some (whole, groups) =>
      (forall t, tag_capture groups t -> tag_name re key = t) /\
      (no_tag_capture groups -> whole <> [] -> tag_name re key = key) /\
      (no_tag_capture groups -> whole = [] -> tag_name re key = []) /\
      ((exists t, tag_capture groups t) \/ no_tag_capture groups)
  end.
Proof.
  unfold tag_name. destruct (re_find re key) as [[whole groups]|]; [|reflexivity].
  repeat split.
  - intros t Ht. apply first_tag_Some in Ht. rewrite Ht. reflexivity.
  - intros Hn Hw. apply first_tag_None in Hn. rewrite Hn.
    apply is_empty_false in Hw. rewrite Hw. reflexivity.
  - intros Hn ->. apply first_tag_None in Hn. rewrite Hn. reflexivity.
  - apply tag_capture_total.
Qed.

Lemma tags_of_spec re kvs tag :
  In tag (tags_of re kvs) <->
  exists r k v, re = Some r /\ In (k, v) kvs /\ tag_name r k <> [] /\ tag = tag_name r k ++ c_colon :: v.
Proof.
  unfold tags_of. destruct re as [r|].
  - rewrite in_flat_map. split.
    + intros [[k v] [Hin Ht]]. cbn [fst snd] in Ht.
      destruct (is_empty (tag_name r k)) eqn:E; [destruct Ht|].
      destruct Ht as [<-|[]]. exists r, k, v. apply is_empty_false in E. auto.
    + intros [r' [k [v [[= <-] [Hin [Hne ->]]]]]]. exists (k, v). split; [exact Hin|].
      cbn [fst snd]. apply is_empty_false in Hne. rewrite Hne. left. reflexivity.
  - split; [intros []|]. intros [r [k [v [E _]]]]. discriminate E.
Qed.

Lemma derive_spec cfg p :
  i_id (derive cfg p) = p_ns p ++ c_slash :: p_name p /\
  forall tag, In tag (i_tags (derive cfg p)) <->
    (exists r k v, c_label_re cfg = Some r /\ In (k, v) (p_labels p) /\ tag_name r k <> [] /\
                   tag = tag_name r k ++ c_colon :: v) \/
    (exists r k v, c_annot_re cfg = Some r /\ In (k, v) (p_annots p) /\ tag_name r k <> [] /\
                   tag = tag_name r k ++ c_colon :: v).
Proof.
  split; [reflexivity|]. intros tag. cbn [derive i_tags]. rewrite in_app_iff, !tags_of_spec. tauto.
Qed.

(* ---------------------------------------------------------------- the statements of Props/C13.v *)

(* the memo invariant, in every state reachable by a history of informer deliveries and lookups:
   a memoised instance is derived from a pod version that is stored now, indexable, and holds
   the IP; if at most one indexable pod holds the IP it is derived from *the* pod holding it *)
Lemma memo_coherent_full cfg ls :
  history_ok cfg init ls ->
  let s := run cfg init ls in
  forall ip i, memo s !! ip = Some (Some i) ->
    (exists p, holds (store s) ip p /\ i = derive cfg p) /\
    (unique_holder (store s) ip -> forall p, holds (store s) ip p -> i = derive cfg p).
Proof.
  intros Hh s ip i Hm. pose proof (memo_coherent cfg ls Hh ip i Hm) as [q [Hq ->]].
  split; [exists q; auto|]. intros Hu p Hp. rewrite (Hu _ _ Hp Hq). reflexivity.
Qed.

(* the same under the weak delivery contract *)
Lemma memo_coherent_safe cfg ls :
  history_safe cfg init ls ->
  let s := run cfg init ls in
  forall ip i, memo s !! ip = Some (Some i) ->
    (exists p, holds (store s) ip p /\ i = derive cfg p) /\
    (unique_holder (store s) ip -> forall p, holds (store s) ip p -> i = derive cfg p).
Proof.
  intros Hh s ip i Hm.
  pose proof (run_coherent_safe cfg ls init (coherent_init cfg) Hh ip i Hm) as [q [Hq ->]].
  split; [exists q; auto|]. intros Hu p Hp. rewrite (Hu _ _ Hp Hq). reflexivity.
Qed.

(* every lookup of every history: the answer is the instance of the pod holding the IP at that
   moment, and nothing exactly when no pod holds it *)
Lemma lookup_current_full cfg before ip after :
  history_ok cfg init (before ++ Lookup ip :: after) ->
  let s := run cfg init before in
  unique_holder (store s) ip ->
  match fst (lookup cfg s ip) with
  | Some i => exists p, holds (store s) ip p /\ i = derive cfg p /\
                        forall q, holds (store s) ip q -> q = p
  | None => forall p, ~ holds (store s) ip p
  end.
Proof.
  intros Hh s Hu. apply history_ok_app in Hh as [Hb _].
  pose proof (memo_coherent cfg before Hb) as Hc. fold s in Hc.
  destruct (fst (lookup cfg s ip)) as [i|] eqn:E.
  - destruct (lookup_from_current _ _ _ _ Hc E) as [p [Hp ->]].
    exists p. split; [exact Hp|]. split; [reflexivity|]. intros q Hq. exact (Hu _ _ Hq Hp).
  - apply lookup_none with (cfg := cfg). exact E.
Qed.

(* without any hypothesis on IPs: an answer is never data of a version that is not stored now *)
Lemma lookup_never_stale cfg before ip after i :
  history_ok cfg init (before ++ Lookup ip :: after) ->
  let s := run cfg init before in
  fst (lookup cfg s ip) = Some i ->
  exists k p, store s !! k = Some p /\ indexable p = true /\ p_ip p = ip /\ i = derive cfg p.
Proof.
  intros Hh s E. apply history_ok_app in Hh as [Hb _].
  destruct (answer_from_current_version cfg before ip i Hb E) as [p [[k [Hk [Hi Hip]]] ->]].
  exists k, p. auto.
Qed.

(* memoisation is invisible: the answer is the one computed afresh from the index *)
Lemma memo_transparent cfg before ip after :
  history_ok cfg init (before ++ Lookup ip :: after) ->
  let s := run cfg init before in
  unique_holder (store s) ip ->
  fst (lookup cfg s ip) = fst (lookup cfg (MkSt (store s) ∅) ip).
Proof.
  intros Hh s Hu. apply history_ok_app in Hh as [Hb _].
  destruct (lookup_current cfg before ip Hb Hu) as [Hsome Hnone]. fold s in Hsome, Hnone.
  unfold lookup at 2. cbn [memo store]. rewrite lookup_empty. cbn [fst].
  destruct (candidates (store s) ip) as [|p r] eqn:Ec.
  - apply Hnone. apply candidates_nil. exact Ec.
  - apply Hsome. eapply candidates_head. exact Ec.
Qed.

(* ---------------------------------------------------------------- examples *)

Local Open Scope N_scope.
Definition ex_pod (name : N) (ip : str) (labels : list (str * str)) : pod :=
  MkPod [100] [name] ip [104] Running false false labels [].
(* a regex like ^app : matches the key "app" as a whole, no groups *)
Definition ex_re : regex :=
  MkRe (fun k => if str_eqb k [97; 112; 112] then Some (k, []) else None).
Definition ex_cfg : config := MkCfg (Some ex_re) None.
Definition ex_a1 := ex_pod 97 [49] [([97; 112; 112], [120])].
Definition ex_a2 := ex_pod 97 [49] [([97; 112; 112], [121])].
Definition ex_b := ex_pod 98 [49] [].
(* pod a is looked up, relabelled, looked up, deleted; pod b reuses the IP *)
Definition ex_before := [Add ex_a1; Lookup [49]; Update ex_a1 ex_a2; Lookup [49]; Delete ex_a2; Add ex_b].

(* the hypotheses of the theorems are satisfiable on a history where staleness would show:
   the memo holds a1's instance when a1 is replaced, a2's when a2 is deleted *)
Example hypotheses_satisfiable :
  history_ok ex_cfg init (ex_before ++ [Lookup [49]]) /\
  unique_holder (store (run ex_cfg init ex_before)) [49] /\
  holds (store (run ex_cfg init ex_before)) [49] ex_b /\
  memo (run ex_cfg init [Add ex_a1; Lookup [49]]) !! [49] = Some (Some (derive ex_cfg ex_a1)) /\
  fst (lookup ex_cfg (run ex_cfg init [Add ex_a1; Lookup [49]; Update ex_a1 ex_a2]) [49])
    = Some (MkInst [100; 47; 97] [[97; 112; 112; 58; 121]]) /\
  fst (lookup ex_cfg (run ex_cfg init ex_before) [49]) = Some (MkInst [100; 47; 98] []).
Proof.
  split; [|split; [|split; [|split; [|split]]]].
  - vm_compute. tauto.
  - intros p q Hp Hq. apply candidates_holds in Hp, Hq.
    vm_compute in Hp, Hq. destruct Hp as [<-|[]]. destruct Hq as [<-|[]]. reflexivity.
  - apply candidates_holds. vm_compute. left. reflexivity.
  - vm_compute. reflexivity.
  - vm_compute. reflexivity.
  - vm_compute. reflexivity.
Qed.

(* without "at most one indexable pod per IP" the strong form of the invariant fails: two
   running pods share an IP, a lookup memoises one of them, the other is a current holder whose
   instance differs *)
Definition ex_c := ex_pod 99 [49] [].
Example needs_unique_ip :
  exists cfg ls ip i p,
    history_ok cfg init ls /\
    memo (run cfg init ls) !! ip = Some (Some i) /\
    holds (store (run cfg init ls)) ip p /\
    i <> derive cfg p.
Proof.
  exists ex_cfg, [Add ex_b; Add ex_c; Lookup [49]], [49].
  set (s := run ex_cfg init [Add ex_b; Add ex_c; Lookup [49]]).
  assert (Hb : holds (store s) [49] ex_b).
  { exists [100; 47; 98]. split; [vm_compute; reflexivity|auto]. }
  assert (Hc : holds (store s) [49] ex_c).
  { exists [100; 47; 99]. split; [vm_compute; reflexivity|auto]. }
  assert (Hok : history_ok ex_cfg init [Add ex_b; Add ex_c; Lookup [49]]) by (vm_compute; tauto).
  destruct (memo s !! [49]) as [[i|]|] eqn:Em.
  - exists i. destruct (decide (i_id i = [100; 47; 98])) as [Hid|Hid].
    + exists ex_c. repeat split; try assumption. intros ->. vm_compute in Hid. discriminate Hid.
    + exists ex_b. repeat split; try assumption. intros ->. apply Hid. reflexivity.
  - exfalso. vm_compute in Em. discriminate Em.
  - exfalso. vm_compute in Em. discriminate Em.
Qed.

(* the informer contract is used too: a Delete that announces a version other than the stored one
   (here: already marked finished) leaves the deleted pod's instance memoised *)
Example needs_informer_contract :
  let gone := MkPod [100] [98] [49] [104] Succeeded false false [] [] in
  let ls := [Add ex_b; Lookup [49]; Delete gone] in
  ~ history_safe ex_cfg init ls /\
  fst (lookup ex_cfg (run ex_cfg init ls) [49]) = Some (derive ex_cfg ex_b) /\
  forall p, ~ holds (store (run ex_cfg init ls)) [49] p.
Proof.
  intros gone ls. split; [|split].
  - intros [_ [_ [H _]]]. cbn in H. specialize (H ex_b).
    destruct H as [H _]; [vm_compute; reflexivity|reflexivity|]. vm_compute in H. discriminate H.
  - vm_compute. reflexivity.
  - apply candidates_nil. vm_compute. reflexivity.
Qed.

Lemma needs_informer_contract_ex :
  exists cfg ls ip i,
    ~ history_safe cfg init ls /\
    fst (lookup cfg (run cfg init ls) ip) = Some i /\
    forall p, ~ holds (store (run cfg init ls)) ip p.
Proof.
  destruct needs_informer_contract as [H1 [H2 H3]].
  eexists ex_cfg, _, [49], _. split; [exact H1|]. split; [exact H2|exact H3].
Qed.
