(* C16: (1) from every reachable state of the repaired sender a shutdown script exists that ends in
   Stopped (so the hypotheses of the exactly-once theorem are satisfiable from everywhere and no
   reachable state is a dead end for a stream); (2) witnesses that the code before commit efb4dae
   (legacy = true) loses a callback and can dereference nil. *)
From Coq Require Import List Arith Bool Lia.
From RecordUpdate Require Import RecordSet.
From GS Require Import Base.LTS Model.Sender Proofs.Sender.
Import ListNotations RecordSetNotations.
Local Arguments Nat.ltb : simpl never.
Local Arguments Nat.leb : simpl never.

Section Shutdown.
  Variable legacy : bool.
  Variable maxs : nat.
  Notation stp := (step legacy maxs).

  Lemma drain_all q : forall s, ph s = Draining -> queue s = q ->
    exists s', run stp s (repeat DrainOne (length q) ++ [DrainEnd]) = Some s' /\ ph s' = Stopped.
  Proof.
    induction q as [|i q IH]; intros s Hp Hq; destruct s; cbn in *; subst; cbn.
    - eexists; split; reflexivity.
    - apply IH; reflexivity.
  Qed.

  Lemma from_cleanup s : ph s = Cleanup ->
    exists ls s', run stp s ls = Some s' /\ ph s' = Stopped.
  Proof.
    intros Hp. destruct s as [p c es sv cv n q rd sd nx o lo wf]; cbn in Hp; subst.
    destruct (drain_all q (St Draining c es sv cv n q rd sd nx o lo wf) eq_refl eq_refl) as (s' & R & E).
    exists (CloseSink :: repeat DrainOne (length q) ++ [DrainEnd]), s'. split; [exact R|exact E].
  Qed.

  Lemma from_returning s : ph s = Returning ->
    exists ls s', run stp s ls = Some s' /\ ph s' = Stopped.
  Proof.
    intros Hp. destruct s as [p c es sv cv n q rd sd nx o lo wf]; cbn in Hp; subst.
    destruct c as [i|].
    - destruct (from_cleanup (St Cleanup None es sv cv n q rd sd nx (CB i Shutdown es :: o) lo wf) eq_refl) as (ls & s' & R & E).
      exists (Deferred :: ls), s'; split; [exact R|exact E].
    - destruct (from_cleanup (St Cleanup None es sv cv n q rd sd nx o lo wf) eq_refl) as (ls & s' & R & E).
      exists (Deferred :: ls), s'; split; [exact R|exact E].
  Qed.

  Lemma from_select s : ph s = Waiting \/ ph s = ConnIdle ->
    exists ls s', run stp s ls = Some s' /\ ph s' = Stopped.
  Proof.
    intros Hp. destruct s as [p c es sv cv n q rd sd nx o lo wf]; cbn in Hp.
    destruct (from_returning (St Returning c (es ++ [ERunCtx]) sv cv n q true sd nx o lo wf) eq_refl) as (ls & s' & R & E).
    exists (CtxCancel :: SeeCtxDone :: ls), s'; split; [|exact E].
    destruct Hp; subst; exact R.
  Qed.

  Lemma can_shut_down s : inv legacy s -> ph s <> Panicked ->
    exists ls s', run stp s ls = Some s' /\ ph s' = Stopped.
  Proof.
    intros I NP. destruct (ph s) eqn:Hp; try congruence.
    - (* Connecting *)
      destruct (from_select (enter_wait legacy s)) as (ls & s' & R & E).
      { left. unfold enter_wait. destruct (cur s); reflexivity. }
      exists (ConnFail :: ls), s'; split; [|exact E]. cbn. rewrite Hp. exact R.
    - apply from_select; tauto.
    - apply from_select; tauto.
    - (* ConnStream: the stream's buffers end; the sender is then idle on the connection, or the
         connection has served its maximum of streams and is redialled *)
      destruct (cur s) as [i|] eqn:Hc; [|exfalso; eapply inv_strm; eauto].
      destruct s as [p c es sv cv n q rd sd nx o lo wf]; cbn in Hp, Hc; subst.
      destruct (S n <? maxs) eqn:Hm.
      + destruct (from_select (St ConnIdle None [] sv cv (S n) q rd sd nx (CB i Drained es :: o) lo wf)) as (ls & s' & R & E);
          [right; reflexivity|].
        exists (BufClosed :: ls), s'; split; [|exact E]. cbn. unfold inner_top. cbn. rewrite Hm. exact R.
      + destruct (from_select (enter_wait legacy (St Connecting None [] sv cv (S n) q rd sd nx (CB i Drained es :: o) lo wf)))
          as (ls & s' & R & E); [left; reflexivity|].
        exists (BufClosed :: ConnFail :: ls), s'; split; [|exact E]. cbn. unfold inner_top. cbn. rewrite Hm. exact R.
    - apply from_returning; assumption.
    - apply from_cleanup; assumption.
    - destruct (drain_all (queue s) s Hp eq_refl) as (s' & R & E). eauto.
    - exists [], s. split; [reflexivity|exact Hp].
  Qed.
End Shutdown.

(* every run of the repaired sender can be extended by a shutdown script, after which (by
   sender_exactly_once) every accepted stream has exactly one callback *)
Theorem sender_can_always_shut_down maxs ls s :
  run (step false maxs) init ls = Some s ->
  exists ls' s', run (step false maxs) init (ls ++ ls') = Some s' /\ ph s' = Stopped
                 /\ forall i, i < next s' -> callbacks i s' = 1.
Proof.
  intros R. pose proof (reach_inv _ _ _ _ R) as I.
  destruct (can_shut_down false maxs s I) as (ls' & s' & R' & E).
  { apply (inv_fresh _ _ I eq_refl). }
  exists ls', s'. assert (R2 : run (step false maxs) init (ls ++ ls') = Some s') by (rewrite run_app, R; exact R').
  repeat split; auto.
  intros i Hi. destruct (sender_exactly_once _ _ _ R2) as (_ & H1 & _ & _ & H4 & _).
  apply H1; [exact Hi|apply H4, E].
Qed.

(* ---------------------------------------------------------------------------------------- *)
(* the hypotheses are satisfiable on a non-trivial run: three streams, a failed write, a
   reconnect, a stream cancelled while disconnected, shutdown with one stream still queued *)
Definition sample_script : list label :=
  [Submit; ConnOk; StreamIn; BufWrite WOk; BufWrite WErr; ConnFail; Submit; TimerFires; ConnOk;
   BufWrite WOk; BufClosed; StreamIn; BufWrite WErr; ConnFail; StreamCancel 1; SeeStreamCancel;
   Submit; CtxCancel; SeeCtxDone; Deferred; CloseSink; DrainOne; DrainEnd].

Example sample_run :
  exists s, run (step false 100) init sample_script = Some s /\ ph s = Stopped /\ next s = 3 /\
            rev (out s) = [CB 0 Drained [EWrite]; CB 1 Cancelled [EWrite; EStreamCtx]; CB 2 Shutdown [ERunCtx]].
Proof. eexists. vm_compute. repeat split. Qed.

(* ---------------------------------------------------------------------------------------- *)
(* The code before efb4dae.  A connect fails while no stream is held (sink armed), the timer
   fires, the connection recovers, stream 0 arrives and its write fails, the reconnect fails; the
   wait loop now holds stream 0 but still selects on the stale sink, receives stream 1 and
   overwrites stream 0.  After shutdown stream 0 has no callback: the flusher blocks for ever. *)
Definition stale_sink_script : list label :=
  [ConnFail; TimerFires; ConnOk; Submit; StreamIn; BufWrite WErr; ConnFail; Submit; StreamIn;
   CtxCancel; SeeCtxDone; Deferred; CloseSink; DrainEnd].

Theorem legacy_refuted_stale_sink :
  exists ls s i, run (step true 100) init ls = Some s /\ ph s = Stopped /\ i < next s /\ callbacks i s = 0.
Proof. exists stale_sink_script. eexists. exists 0. vm_compute. repeat split; lia. Qed.

(* the same script is not a run of the repaired sender: the second StreamIn is refused *)
Example stale_sink_script_fixed : run (step false 100) init stale_sink_script = None.
Proof. vm_compute. reflexivity. Qed.

(* Symmetric: a stale cancel channel.  Stream 0 is held during a failed connect (streamCancel
   armed), delivered after the reconnect; the connection serves its 100 streams and is closed with
   no stream held; the next connect fails; the stale channel of the long finished stream 0 fires
   and `stream.Cb` dereferences nil. *)
Definition one_stream : list label := [Submit; StreamIn; BufClosed].
Definition stale_cancel_script : list label :=
  [Submit; ConnFail; StreamIn; TimerFires; ConnOk; BufClosed]
  ++ concat (repeat one_stream 99)
  ++ [ConnFail; StreamCancel 0; SeeStreamCancel].

Theorem legacy_refuted_stale_cancel :
  exists ls s, run (step true 100) init ls = Some s /\ ph s = Panicked.
Proof. exists stale_cancel_script. eexists. vm_compute. split; reflexivity. Qed.

Example stale_cancel_script_fixed : run (step false 100) init stale_cancel_script = None.
Proof. vm_compute. reflexivity. Qed.
