(* C16: invariants of the sender LTS (Model/Sender.v), proved for every label sequence. *)
From Coq Require Import List Arith Bool Lia.
From RecordUpdate Require Import RecordSet.
From GS Require Import Base.LTS Model.Sender.
Import ListNotations RecordSetNotations.
Local Arguments Nat.ltb : simpl never.
Local Arguments Nat.leb : simpl never.
Local Arguments Nat.eq_dec : simpl never.

(* ---------------------------------------------------------------------------------------- *)
(* The inductive invariant.  [legacy = false] adds: no panic, nothing lost, and the two channel
   locals agree with `stream` whenever the sender sits in the disconnected select. *)
Record inv (legacy : bool) (s : state) : Prop := {
  inv_cons : forall i, callbacks i s + held i s + queued i s + lostc i s = if i <? next s then 1 else 0;
  inv_idle : ph s = ConnIdle -> cur s = None;
  inv_strm : ph s = ConnStream -> cur s <> None;
  inv_end : ph s = Cleanup \/ ph s = Draining \/ ph s = Stopped -> cur s = None;
  inv_stop : ph s = Stopped -> queue s = [];
  inv_ret : ph s = Returning -> errs s <> [];
  inv_err : forall i, cur s = Some i -> In i (wfail s) -> errs s <> [];
  inv_wq : forall i, In i (wfail s) -> queued i s = 0 /\ i < next s;
  inv_cbs : Forall (cb_carries_error (wfail s)) (out s);
  inv_fresh : legacy = false ->
              ph s <> Panicked /\ lost s = [] /\
              (ph s = Waiting -> (sinkv s = true -> cur s = None) /\
                                 (forall j, cancelv s = Some j -> cur s = Some j))
}.

Lemma inv_init legacy : inv legacy init.
Proof.
  constructor; cbn; try discriminate; auto; try tauto.
  - intros _. repeat split; discriminate.
Qed.

Lemma app_not_nil {A} (l : list A) x : l ++ [x] <> [].
Proof. destruct l; discriminate. Qed.

Lemma count_occ_snoc (l : list nat) x i :
  count_occ Nat.eq_dec (l ++ [x]) i = count_occ Nat.eq_dec l i + (if Nat.eq_dec x i then 1 else 0).
Proof. rewrite count_occ_app; cbn. destruct (Nat.eq_dec x i); lia. Qed.

Lemma no_callback_yet s i : callbacks i s = 0 -> forall c, In c (out s) -> cb_id c <> i.
Proof.
  unfold callbacks; intros H c Hc E.
  apply (count_occ_not_In Nat.eq_dec) in H. apply H. rewrite <- E. apply in_map, Hc.
Qed.

(* growing the set of failed streams by a stream that has no callback yet keeps [inv_cbs] *)
Lemma cbs_grow (o : list cb) wf i :
  count_occ Nat.eq_dec (map cb_id o) i = 0 -> Forall (cb_carries_error wf) o ->
  Forall (cb_carries_error (i :: wf)) o.
Proof.
  intros H0 H. rewrite Forall_forall in *. intros c Hc. destruct (H c Hc) as [A B].
  split; [exact A|]. intros [E|E]; [|auto].
  exfalso. apply (count_occ_not_In Nat.eq_dec) in H0. apply H0. rewrite E. apply in_map, Hc.
Qed.

Lemma ltb_S i n : (if i <? S n then 1 else 0) = (if i <? n then 1 else 0) + (if Nat.eq_dec n i then 1 else 0).
Proof.
  destruct (Nat.eq_dec n i); destruct (i <? S n) eqn:A; destruct (i <? n) eqn:B;
    rewrite ?Nat.ltb_lt, ?Nat.ltb_ge in *; lia.
Qed.

Lemma count0_notin (l : list nat) i : count_occ Nat.eq_dec l i = 0 <-> ~ In i l.
Proof. symmetry. apply count_occ_not_In. Qed.

Ltac destr_match H :=
  repeat match type of H with
         | context [match ?x with _ => _ end] => destruct x eqn:?; try discriminate H
         | context [if ?x then _ else _] => destruct x eqn:?; try discriminate H
         end.

Ltac eqdec :=
  repeat match goal with
         | |- context [Nat.eq_dec ?a ?b] => destruct (Nat.eq_dec a b); subst
         | H : context [Nat.eq_dec ?a ?b] |- _ => destruct (Nat.eq_dec a b); subst
         end.


Ltac cons_arith Hc :=
  let i0 := fresh "i0" in
  intros i0; try specialize (Hc i0);
  rewrite ?count_occ_snoc, ?ltb_S in *; cbn [count_occ map cb_id] in *; eqdec; try lia.

Lemma step_inv legacy maxs s l s' : inv legacy s -> step legacy maxs s l = Some s' -> inv legacy s'.
Proof.
  intros [Hc Hidle Hstrm Hend Hstop Hret Herr Hwq Hcbs Hfr] H.
  destruct s as [p c es sv cv n q rd sd nx o lo wf].
  unfold callbacks, held, queued, lostc in *. cbn in *.
  destruct l; cbn in H; unfold enter_wait, inner_top in H; cbn in H.
  all: destr_match H; injection H as <-; constructor; unfold callbacks, held, queued, lostc; cbn; auto.
  all: try discriminate; try tauto; try congruence.
  all: try (cons_arith Hc; fail).
  all: try solve [intuition (try discriminate; try congruence)].
  all: try solve [intros E; specialize (Hfr E); intuition (try discriminate; try congruence)].
  all: try solve [intros; apply app_not_nil].
  all: try solve [intros i Hi; destruct (Hwq i Hi); rewrite count_occ_snoc; eqdec; split; lia].
  all: try solve [intros i Hi; destruct (Hwq i Hi) as [Hq ?]; cbn [count_occ] in Hq; eqdec; split; lia].
  all: try solve [intros i [E|Hi]; [subst i; specialize (Hc n0); eqdec; try congruence; destruct (n0 <? nx) eqn:E; [apply Nat.ltb_lt in E|]; lia | apply Hwq, Hi]].
  all: try solve [apply cbs_grow; [specialize (Hc n0); eqdec; try congruence; destruct (n0 <? nx); lia | assumption]].
  all: try solve [intros i [= <-] Hi; destruct (Hwq _ Hi) as [Hq ?]; cbn [count_occ] in Hq; eqdec; try congruence; lia].
  all: try solve [constructor; [split; cbn; intros; try apply app_not_nil; try discriminate; try congruence; eauto|assumption]].
  - intros i. specialize (Hc i). rewrite (Hidle eq_refl) in Hc. cbn [count_occ] in Hc. eqdec; lia.
  - intros E. destruct (Hfr E) as (_ & _ & Hw). destruct (Hw eq_refl) as [_ Hcv].
    specialize (Hcv _ eq_refl). discriminate.
Qed.


Lemma reach_inv legacy maxs ls s : run (step legacy maxs) init ls = Some s -> inv legacy s.
Proof. apply invariant_run; [intros; eapply step_inv; eauto|apply inv_init]. Qed.

(* ---------------------------------------------------------------------------------------- *)
(* C16_sender_exactly_once *)
Theorem sender_exactly_once maxs ls s :
  run (step false maxs) init ls = Some s ->
  ph s <> Panicked
  /\ (forall i, i < next s -> ~ pending i s -> callbacks i s = 1)
  /\ (forall i, pending i s -> i < next s /\ callbacks i s = 0)
  /\ (forall i, next s <= i -> callbacks i s = 0)
  /\ (ph s = Stopped -> forall i, ~ pending i s)
  /\ Forall (cb_carries_error (wfail s)) (out s).
Proof.
  intros R. pose proof (reach_inv _ _ _ _ R) as I. destruct I.
  destruct (inv_fresh0 eq_refl) as (Hp & Hl & _).
  assert (C : forall i, callbacks i s + held i s + queued i s = if i <? next s then 1 else 0).
  { intros i. specialize (inv_cons0 i). unfold lostc in inv_cons0. rewrite Hl in inv_cons0. cbn in inv_cons0. lia. }
  repeat split; auto.
  - intros i Hi Np. specialize (C i). apply Nat.ltb_lt in Hi. rewrite Hi in C.
    assert (held i s = 0).
    { unfold held. destruct (cur s) as [j|] eqn:E; [|reflexivity]. destruct (Nat.eq_dec j i); [|reflexivity].
      subst. exfalso; apply Np; left; exact E. }
    assert (queued i s = 0).
    { apply count0_notin. intros Q. apply Np. right; exact Q. }
    lia.
  - destruct H as [Hc|Hq]; specialize (C i); destruct (i <? next s) eqn:E; try (apply Nat.ltb_lt in E; exact E).
    + unfold held in C. rewrite Hc in C. destruct (Nat.eq_dec i i); [lia|congruence].
    + assert (queued i s > 0) by (apply count_occ_In, Hq). lia.
  - destruct H as [Hc|Hq]; specialize (C i); destruct (i <? next s) eqn:E.
    + unfold held in C. rewrite Hc in C. destruct (Nat.eq_dec i i); [lia|congruence].
    + unfold held in C. rewrite Hc in C. destruct (Nat.eq_dec i i); [lia|congruence].
    + assert (queued i s > 0) by (apply count_occ_In, Hq). lia.
    + assert (queued i s > 0) by (apply count_occ_In, Hq). lia.
  - intros i Hi. specialize (C i). apply Nat.ltb_ge in Hi. rewrite Hi in C. lia.
  - intros St i [Hc|Hq].
    + rewrite inv_end0 in Hc; [discriminate|tauto].
    + rewrite (inv_stop0 St) in Hq. exact Hq.
Qed.

(* a callback is never made twice, in particular *)
Corollary sender_at_most_once maxs ls s i :
  run (step false maxs) init ls = Some s -> callbacks i s <= 1.
Proof.
  intros R. pose proof (reach_inv _ _ _ _ R) as I. destruct I.
  specialize (inv_cons0 i). destruct (i <? next s); lia.
Qed.
