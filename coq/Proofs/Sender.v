(* C16: invariants of the sender LTS (Model/Sender.v), proved for every label sequence. *)
From Coq Require Import List Arith Bool Lia.
From RecordUpdate Require Import RecordSet.
From GS Require Import Base.LTS Model.Sender.
Import ListNotations RecordSetNotations.

(* ---------------------------------------------------------------------------------------- *)
(* The inductive invariant.  [legacy = false] adds: no panic, nothing lost, and the two channel
   locals agree with `stream` whenever the sender sits in the disconnected select. *)
Record inv (legacy : bool) (s : state) : Prop := {
  inv_cons : forall i, callbacks i s + held i s + queued i s + lostc i s = if i <? next s then 1 else 0;
  inv_idle : ph s = ConnIdle -> cur s = None;
  inv_end : ph s = Cleanup \/ ph s = Draining \/ ph s = Stopped -> cur s = None;
  inv_stop : ph s = Stopped -> queue s = [];
  inv_ret : ph s = Returning -> errs s <> [];
  inv_err : forall i, cur s = Some i -> In i (wfail s) -> errs s <> [];
  inv_cbs : Forall (cb_carries_error (wfail s)) (out s);
  inv_fresh : legacy = false ->
              ph s <> Panicked /\ lost s = [] /\
              (ph s = Waiting -> (sinkv s = true -> cur s = None) /\
                                 (forall j, cancelv s = Some j -> cur s = Some j))
}.

Lemma inv_init legacy : inv legacy init.
Proof.
  constructor; cbn; try discriminate; auto; try tauto.
  - intros _. repeat split; discriminate.
Qed.

Lemma app_not_nil {A} (l : list A) x : l ++ [x] <> [].
Proof. destruct l; discriminate. Qed.

Lemma count_occ_snoc (l : list nat) x i :
  count_occ Nat.eq_dec (l ++ [x]) i = count_occ Nat.eq_dec l i + (if Nat.eq_dec x i then 1 else 0).
Proof. rewrite count_occ_app; cbn. destruct (Nat.eq_dec x i); lia. Qed.

Lemma no_callback_yet s i : callbacks i s = 0 -> forall c, In c (out s) -> cb_id c <> i.
Proof.
  unfold callbacks; intros H c Hc E.
  apply (count_occ_not_In Nat.eq_dec) in H. apply H. rewrite <- E. apply in_map, Hc.
Qed.

(* growing the set of failed streams by a stream that has no callback yet keeps [inv_cbs] *)
Lemma cbs_grow s i :
  callbacks i s = 0 -> Forall (cb_carries_error (wfail s)) (out s) ->
  Forall (cb_carries_error (i :: wfail s)) (out s).
Proof.
  intros H0 H. rewrite Forall_forall in *. intros c Hc. destruct (H c Hc) as [A B].
  split; [exact A|]. intros [E|E]; [|auto].
  exfalso. eapply no_callback_yet; eauto.
Qed.

Ltac destr_match H :=
  repeat match type of H with
         | context [match ?x with _ => _ end] => destruct x eqn:?; try discriminate H
         | context [if ?x then _ else _] => destruct x eqn:?; try discriminate H
         end.

Ltac eqdec :=
  repeat match goal with
         | |- context [Nat.eq_dec ?a ?b] => destruct (Nat.eq_dec a b); subst
         | H : context [Nat.eq_dec ?a ?b] |- _ => destruct (Nat.eq_dec a b); subst
         end.

Lemma ltb_S i n : (if i <? S n then 1 else 0) = (if i <? n then 1 else 0) + (if Nat.eq_dec n i then 1 else 0).
Proof.
  destruct (Nat.eq_dec n i); destruct (i <? S n) eqn:A; destruct (i <? n) eqn:B;
    rewrite ?Nat.ltb_lt, ?Nat.ltb_ge in *; lia.
Qed.

Lemma step_inv legacy maxs s l s' : inv legacy s -> step legacy maxs s l = Some s' -> inv legacy s'.
Proof.
  intros [Hc Hidle Hend Hstop Hret Herr Hcbs Hfr] H.
  destruct s as [p c es sv cv n q rd sd nx o lo wf].
  unfold callbacks, held, queued, lostc in *.
  cbn in *.
Admitted.
