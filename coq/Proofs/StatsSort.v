(* Lemmas about the exact-rational carrier of Model/Stats.v: the order on Qc, the insertion
   sort [qsort] (a sorted permutation, unique for a multiset), least / greatest elements, sums. *)
From Coq Require Import List ZArith QArith Qcanon Lia Permutation Sorted.
From GS Require Import Base.Bytes Model.GoPartial Model.Histogram Model.Stats.
Import ListNotations.
Local Open Scope Qc_scope.

(* ---------------------------------------------------------------------------------------- *)
(* order *)

Lemma Qcleb_le a b : Qcleb a b = true <-> a <= b.
Proof. unfold Qcleb, Qcle. apply Qle_bool_iff. Qed.

Lemma Qcleb_gt a b : Qcleb a b = false -> b <= a.
Proof.
  intros H. destruct (Qclt_le_dec a b) as [Hlt|Hle]; [|exact Hle].
  apply Qclt_le_weak, Qcleb_le in Hlt. congruence.
Qed.

Lemma qmin_le_l a b : qmin a b <= a.
Proof. unfold qmin. destruct (Qcleb a b) eqn:E; [apply Qcle_refl | apply Qcleb_gt, E]. Qed.
Lemma qmin_le_r a b : qmin a b <= b.
Proof. unfold qmin. destruct (Qcleb a b) eqn:E; [apply Qcleb_le, E | apply Qcle_refl]. Qed.
Lemma qmin_cases a b : qmin a b = a \/ qmin a b = b.
Proof. unfold qmin. destruct (Qcleb a b); auto. Qed.
Lemma qmax_ge_l a b : a <= qmax a b.
Proof. unfold qmax. destruct (Qcleb a b) eqn:E; [apply Qcleb_le, E | apply Qcle_refl]. Qed.
Lemma qmax_ge_r a b : b <= qmax a b.
Proof. unfold qmax. destruct (Qcleb a b) eqn:E; [apply Qcle_refl | apply Qcleb_gt, E]. Qed.
Lemma qmax_cases a b : qmax a b = a \/ qmax a b = b.
Proof. unfold qmax. destruct (Qcleb a b); auto. Qed.

(* least / greatest element of a list: a member that bounds every member *)
Definition is_min (m : Qc) (l : list Qc) : Prop := In m l /\ forall z, In z l -> m <= z.
Definition is_max (m : Qc) (l : list Qc) : Prop := In m l /\ forall z, In z l -> z <= m.

Lemma is_min_unique m m' l : is_min m l -> is_min m' l -> m = m'.
Proof. intros [I1 L1] [I2 L2]. apply Qcle_antisym; auto. Qed.
Lemma is_max_unique m m' l : is_max m l -> is_max m' l -> m = m'.
Proof. intros [I1 L1] [I2 L2]. apply Qcle_antisym; auto. Qed.

Lemma is_min_perm m l l' : Permutation l l' -> is_min m l -> is_min m l'.
Proof.
  intros P [I L]. split; [eapply Permutation_in; eauto|].
  intros z Hz. apply L. eapply Permutation_in; [apply Permutation_sym|]; eauto.
Qed.
Lemma is_max_perm m l l' : Permutation l l' -> is_max m l -> is_max m l'.
Proof.
  intros P [I L]. split; [eapply Permutation_in; eauto|].
  intros z Hz. apply L. eapply Permutation_in; [apply Permutation_sym|]; eauto.
Qed.

Lemma fold_qmin_is_min x r : is_min (fold_right qmin x r) (x :: r).
Proof.
  induction r as [|y r [I L]]; cbn [fold_right].
  - split; [left; reflexivity|]. intros z [<-|[]]. apply Qcle_refl.
  - split.
    + destruct (qmin_cases y (fold_right qmin x r)) as [->| ->]; [right; left; reflexivity|].
      destruct I as [<-|I]; [left; reflexivity | right; right; exact I].
    + intros z [<-|[<-|Hz]].
      * eapply Qcle_trans; [apply qmin_le_r | apply L; left; reflexivity].
      * apply qmin_le_l.
      * eapply Qcle_trans; [apply qmin_le_r | apply L; right; exact Hz].
Qed.

Lemma fold_qmax_is_max x r : is_max (fold_right qmax x r) (x :: r).
Proof.
  induction r as [|y r [I L]]; cbn [fold_right].
  - split; [left; reflexivity|]. intros z [<-|[]]. apply Qcle_refl.
  - split.
    + destruct (qmax_cases y (fold_right qmax x r)) as [->| ->]; [right; left; reflexivity|].
      destruct I as [<-|I]; [left; reflexivity | right; right; exact I].
    + intros z [<-|[<-|Hz]].
      * eapply Qcle_trans; [apply L; left; reflexivity | apply qmax_ge_r].
      * apply qmax_ge_l.
      * eapply Qcle_trans; [apply L; right; exact Hz | apply qmax_ge_r].
Qed.

(* ---------------------------------------------------------------------------------------- *)
(* insertion sort *)

Lemma insert_sorted_perm x l : Permutation (insert_sorted x l) (x :: l).
Proof.
  induction l as [|y l IH]; cbn [insert_sorted]; [reflexivity|].
  destruct (Qcleb x y); [reflexivity|].
  rewrite IH. apply perm_swap.
Qed.

Lemma qsort_perm l : Permutation (qsort l) l.
Proof.
  induction l as [|x l IH]; cbn [qsort]; [reflexivity|].
  rewrite insert_sorted_perm. constructor. exact IH.
Qed.

Lemma qsort_length l : length (qsort l) = length l.
Proof. apply Permutation_length, qsort_perm. Qed.

Lemma insert_sorted_sorted x l :
  StronglySorted Qcle l -> StronglySorted Qcle (insert_sorted x l).
Proof.
  induction 1 as [|y l Hs IH Hall]; cbn [insert_sorted].
  - constructor; constructor.
  - destruct (Qcleb x y) eqn:E.
    + apply Qcleb_le in E. constructor; [constructor; assumption|].
      constructor; [exact E|]. eapply Forall_impl; [|exact Hall].
      intros z Hz. eapply Qcle_trans; eauto.
    + apply Qcleb_gt in E. constructor; [exact IH|].
      eapply Permutation_Forall; [apply Permutation_sym, insert_sorted_perm|].
      constructor; assumption.
Qed.

Lemma qsort_sorted l : StronglySorted Qcle (qsort l).
Proof.
  induction l as [|x l IH]; cbn [qsort]; [constructor | apply insert_sorted_sorted, IH].
Qed.

(* a multiset has one sorted arrangement *)
Lemma sorted_perm_eq l l' :
  StronglySorted Qcle l -> StronglySorted Qcle l' -> Permutation l l' -> l = l'.
Proof.
  intros Hl. revert l'. induction Hl as [|x l Hs IH Hall]; intros l' Hl' P.
  - apply Permutation_nil in P. congruence.
  - destruct Hl' as [|y l' Hs' Hall'].
    + apply Permutation_sym, Permutation_nil in P. discriminate.
    + assert (x = y) as <-.
      { apply Qcle_antisym.
        - assert (In x (y :: l')) as [->|Hx] by (eapply Permutation_in; [exact P | left; reflexivity]).
          + apply Qcle_refl.
          + pose proof (proj1 (Forall_forall _ _) Hall' _ Hx) as H.
            assert (In y (x :: l)) as [->|Hy]
                by (eapply Permutation_in; [apply Permutation_sym; exact P | left; reflexivity]).
            * apply Qcle_refl.
            * pose proof (proj1 (Forall_forall _ _) Hall _ Hy) as H'.
              assert (x = y) as -> by (apply Qcle_antisym; assumption). apply Qcle_refl.
        - assert (In y (x :: l)) as [->|Hy]
              by (eapply Permutation_in; [apply Permutation_sym; exact P | left; reflexivity]).
          + apply Qcle_refl.
          + pose proof (proj1 (Forall_forall _ _) Hall _ Hy) as H.
            assert (In x (y :: l')) as [->|Hx] by (eapply Permutation_in; [exact P | left; reflexivity]).
            * apply Qcle_refl.
            * pose proof (proj1 (Forall_forall _ _) Hall' _ Hx) as H'.
              assert (x = y) as -> by (apply Qcle_antisym; assumption). apply Qcle_refl. }
      f_equal. apply IH; [exact Hs'|]. eapply Permutation_cons_inv; exact P.
Qed.

Lemma qsort_perm_eq xs ys : Permutation xs ys -> qsort xs = qsort ys.
Proof.
  intros P. apply sorted_perm_eq; try apply qsort_sorted.
  rewrite !qsort_perm. exact P.
Qed.

Lemma qsort_idem l : qsort (qsort l) = qsort l.
Proof.
  apply sorted_perm_eq; try apply qsort_sorted. apply qsort_perm.
Qed.

(* positions in a sorted list are ordered *)
Lemma sorted_nth_le l i j a b :
  StronglySorted Qcle l -> nth_error l i = Some a -> nth_error l j = Some b -> (i <= j)%nat -> a <= b.
Proof.
  intros Hs. revert i j. induction Hs as [|x l Hs IH Hall]; intros i j Hi Hj Hle.
  - destruct i; discriminate.
  - destruct i as [|i], j as [|j]; cbn [nth_error] in *.
    + injection Hi as <-. injection Hj as <-. apply Qcle_refl.
    + injection Hi as <-. apply nth_error_In in Hj.
      exact (proj1 (Forall_forall _ _) Hall _ Hj).
    + lia.
    + eapply IH; eauto. lia.
Qed.

Lemma sorted_app_le (l1 l2 : list Qc) :
  StronglySorted Qcle (l1 ++ l2) -> forall a b, In a l1 -> In b l2 -> a <= b.
Proof.
  induction l1 as [|x l1 IH]; cbn [app]; intros Hs a b Ha Hb; [destruct Ha|].
  inversion Hs as [|? ? Hs' Hall]; subst.
  destruct Ha as [<-|Ha].
  - apply (proj1 (Forall_forall _ _) Hall). apply in_or_app. right. exact Hb.
  - apply IH; assumption.
Qed.

Lemma sorted_app_l (l1 l2 : list Qc) : StronglySorted Qcle (l1 ++ l2) -> StronglySorted Qcle l1.
Proof.
  induction l1 as [|x l1 IH]; cbn [app]; intros Hs; [constructor|].
  inversion Hs as [|? ? Hs' Hall]; subst. constructor; [apply IH, Hs'|].
  apply Forall_app in Hall. apply Hall.
Qed.
Lemma sorted_app_r (l1 l2 : list Qc) : StronglySorted Qcle (l1 ++ l2) -> StronglySorted Qcle l2.
Proof.
  induction l1 as [|x l1 IH]; cbn [app]; intros Hs; [exact Hs|].
  inversion Hs; subst. apply IH. assumption.
Qed.

(* head of a sorted list is its least element, the last position its greatest *)
Lemma sorted_head_is_min x l : StronglySorted Qcle (x :: l) -> is_min x (x :: l).
Proof.
  intros Hs. inversion Hs as [|? ? _ Hall]; subst. split; [left; reflexivity|].
  intros z [<-|Hz]; [apply Qcle_refl | exact (proj1 (Forall_forall _ _) Hall _ Hz)].
Qed.

Lemma sorted_last_is_max l m :
  StronglySorted Qcle l -> nth_error l (length l - 1) = Some m -> is_max m l.
Proof.
  intros Hs Hm. split; [eapply nth_error_In; exact Hm|].
  intros z Hz. apply In_nth_error in Hz as [i Hi].
  eapply sorted_nth_le; eauto.
  assert (i < length l)%nat by (apply nth_error_Some; congruence). lia.
Qed.

(* ---------------------------------------------------------------------------------------- *)
(* sums *)

Lemma qsum_app a b : qsum (a ++ b) = qsum a + qsum b.
Proof.
  unfold qsum. induction a as [|x a IH]; cbn [app fold_right]; [ring | rewrite IH; ring].
Qed.

Lemma qsum_perm a b : Permutation a b -> qsum a = qsum b.
Proof.
  unfold qsum. induction 1 as [|x a b P IH|x y a|a b c P1 IH1 P2 IH2]; cbn [fold_right].
  - reflexivity.
  - rewrite IH. reflexivity.
  - ring.
  - congruence.
Qed.

Lemma qsumsq_perm a b : Permutation a b -> qsumsq a = qsumsq b.
Proof. intros P. unfold qsumsq. apply qsum_perm, Permutation_map, P. Qed.

Lemma qsumsq_app a b : qsumsq (a ++ b) = qsumsq a + qsumsq b.
Proof. unfold qsumsq. rewrite map_app. apply qsum_app. Qed.

Lemma qmean_perm a b : Permutation a b -> qmean a = qmean b.
Proof.
  intros P. unfold qmean. rewrite (qsum_perm _ _ P), (Permutation_length P). reflexivity.
Qed.

Lemma qvariance_perm a b : Permutation a b -> qvariance a = qvariance b.
Proof.
  intros P. unfold qvariance. rewrite (qmean_perm _ _ P), (Permutation_length P).
  f_equal. apply qsum_perm, Permutation_map, P.
Qed.

Lemma qmedian_perm a b : Permutation a b -> qmedian a = qmedian b.
Proof.
  intros P. unfold qmedian. rewrite (qsort_perm_eq _ _ P), (Permutation_length P). reflexivity.
Qed.

(* the running fold of the Go loop is the sum *)
Lemma fold_left_qsum (f : Qc -> Qc) l acc :
  fold_left (fun a v => a + f v) l acc = acc + qsum (map f l).
Proof.
  revert acc. induction l as [|x l IH]; intros acc; cbn [fold_left map].
  - unfold qsum; cbn [fold_right]. ring.
  - rewrite IH. unfold qsum; cbn [fold_right]. ring.
Qed.
