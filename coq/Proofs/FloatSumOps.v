(* One rounding per float64 operation: the (1 + eps) model of +, -, *, / on Coq's primitive
   floats, through Flocq's bridge (IEEE754/PrimFloat.v) and its relative-error theorems
   (Prop/Plus_error.v: additions never lose accuracy to underflow; Prop/Relative.v).
   [FR f] is the real value of a finite float, [fin f] says it is finite, u = 2^-53. *)
From Coq Require Import ZArith Reals Floats Lia Lra.
From Flocq Require Import Core.Core Relative Plus_error IEEE754.BinarySingleNaN IEEE754.PrimFloat.
Local Open Scope R_scope.

Definition FR (f : PrimFloat.float) : R := B2R (Prim2B f).
Definition fin (f : PrimFloat.float) : Prop := is_finite (Prim2B f) = true.
Definition u : R := bpow radix2 (-53).

Notation fx := (SpecFloat.fexp prec emax).
Notation rnd := (round radix2 fx ZnearestE).

Lemma fin_prim f : fin f <-> PrimFloat.is_finite f = true.
Proof. unfold fin. rewrite is_finite_equiv. tauto. Qed.

Lemma u_pos : 0 <= u.
Proof. apply bpow_ge_0. Qed.
Lemma u_ro_u : u_ro radix2 53 = u.
Proof.
  unfold u_ro, u. change (-53 + 1)%Z with (-52)%Z. change (/ 2) with (bpow radix2 (-1)).
  rewrite <- bpow_plus. reflexivity.
Qed.

Lemma overflow_not_finite (z : binary_float prec emax) s :
  B2SF z = binary_overflow prec emax mode_NE s -> is_finite z = false.
Proof. destruct z; cbn; intros H; try reflexivity; discriminate H. Qed.

Lemma format_FR f : generic_format radix2 (FLT_exp (-1074) 53) (FR f).
Proof. apply (generic_format_B2R prec emax). Qed.

(* x + y *)
Lemma add_err x y : fin x -> fin y -> fin (x + y)%float ->
  exists eps, Rabs eps <= u /\ FR (x + y)%float = (FR x + FR y) * (1 + eps).
Proof.
  unfold fin, FR. intros Fx Fy Fs. rewrite add_equiv in *.
  pose proof (Bplus_correct prec emax Hprec Hmax mode_NE (Prim2B x) (Prim2B y) Fx Fy) as H.
  destruct (Rlt_bool _ _) in H.
  - destruct H as (H1 & _). rewrite H1. change (round_mode mode_NE) with ZnearestE.
    destruct (@FLT_plus_error_N_ex radix2 (-1074) 53 Hprec (fun z => negb (Z.even z)) (FR x) (FR y) (format_FR x) (format_FR y)) as (eps & He & Hr).
    exists eps. split; [|exact Hr].
    eapply Rle_trans; [exact He|]. rewrite <- u_ro_u. apply u_rod1pu_ro_le_u_ro.
  - destruct H as (H & _). apply overflow_not_finite in H. congruence.
Qed.

(* x - y *)
Lemma sub_err x y : fin x -> fin y -> fin (x - y)%float ->
  exists eps, Rabs eps <= u /\ FR (x - y)%float = (FR x - FR y) * (1 + eps).
Proof.
  unfold fin, FR. intros Fx Fy Fs. rewrite sub_equiv in *.
  pose proof (Bminus_correct prec emax Hprec Hmax mode_NE (Prim2B x) (Prim2B y) Fx Fy) as H.
  destruct (Rlt_bool _ _) in H.
  - destruct H as (H1 & _). rewrite H1. change (round_mode mode_NE) with ZnearestE.
    assert (Fy' : generic_format radix2 (FLT_exp (-1074) 53) (- FR y)) by (apply generic_format_opp, format_FR).
    destruct (@FLT_plus_error_N_ex radix2 (-1074) 53 Hprec (fun z => negb (Z.even z)) (FR x) (- FR y) (format_FR x) Fy') as (eps & He & Hr).
    exists eps. split; [|exact Hr].
    eapply Rle_trans; [exact He|]. rewrite <- u_ro_u. apply u_rod1pu_ro_le_u_ro.
  - destruct H as (H & _). apply overflow_not_finite in H. congruence.
Qed.

(* a real that is zero or at least 2^-1022 in magnitude is rounded with relative error u *)
Lemma rnd_rel r : r = 0 \/ bpow radix2 (-1022) <= Rabs r -> exists eps, Rabs eps <= u /\ rnd r = r * (1 + eps).
Proof.
  intros [->|H].
  - exists 0. rewrite Rabs_R0. split; [apply u_pos|]. rewrite round_0 by apply valid_rnd_N. ring.
  - destruct (@relative_error_N_FLT_ex radix2 (-1074) 53 Hprec (fun z => negb (Z.even z)) r) as (eps & He & Hr).
    { exact H. }
    exists eps. split; [|exact Hr]. fold (u_ro radix2 53) in He. rewrite u_ro_u in He. exact He.
Qed.

(* x * y, no underflow of the product *)
Lemma mul_err x y : fin x -> fin y -> fin (x * y)%float ->
  FR x * FR y = 0 \/ bpow radix2 (-1022) <= Rabs (FR x * FR y) ->
  exists eps, Rabs eps <= u /\ FR (x * y)%float = (FR x * FR y) * (1 + eps).
Proof.
  unfold fin, FR. intros Fx Fy Fp Hn. rewrite mul_equiv in *.
  pose proof (Bmult_correct prec emax Hprec Hmax mode_NE (Prim2B x) (Prim2B y)) as H.
  destruct (Rlt_bool _ _) in H.
  - destruct H as (H1 & _). rewrite H1. change (round_mode mode_NE) with ZnearestE. apply rnd_rel; exact Hn.
  - apply overflow_not_finite in H. congruence.
Qed.

(* x / y, no underflow of the quotient *)
Lemma div_err x y : fin x -> fin y -> fin (x / y)%float -> FR y <> 0 ->
  FR x / FR y = 0 \/ bpow radix2 (-1022) <= Rabs (FR x / FR y) ->
  exists eps, Rabs eps <= u /\ FR (x / y)%float = (FR x / FR y) * (1 + eps).
Proof.
  unfold fin, FR. intros Fx Fy Fq Hy Hn. rewrite div_equiv in *.
  pose proof (Bdiv_correct prec emax Hprec Hmax mode_NE (Prim2B x) (Prim2B y) Hy) as H.
  destruct (Rlt_bool _ _) in H.
  - destruct H as (H1 & _). rewrite H1. change (round_mode mode_NE) with ZnearestE. apply rnd_rel; exact Hn.
  - apply overflow_not_finite in H. congruence.
Qed.
