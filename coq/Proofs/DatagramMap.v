(* Folding the metrics of one datagram through MetricMap.Receive: a gauge ends with the value of
   its last accepted line (all lines of a datagram carry the same receive time, and Receive
   lets an equal timestamp win -- fix a02b6f9). *)
From stdpp Require Import gmap.
From GS Require Import Base.Bytes Model.Lexer Model.Series Model.MetricMap Model.Datagram Proofs.Datagram.

Lemma skey_eqb_eq (a b : skey) : skey_eqb a b = true <-> a = b.
Proof.
  destruct a as [a1 a2], b as [b1 b2]. unfold skey_eqb. cbn [fst snd].
  rewrite andb_true_iff, !str_eqb_eq. split; [intros [-> ->]; reflexivity|intros H; inversion H; auto].
Qed.

Section Fold.
  Variable ts : Z.
  Variable k : skey.

  (* no gauge of the map is newer than the datagram *)
  Definition not_newer (m : mmap) : Prop := forall k' g, gauges m !! k' = Some g -> (g_ts g <= ts)%Z.

  (* the map's gauge [k] is the one the accumulator of [last_gauge] names *)
  Definition tracks (m : mmap) (acc : option datapoint) : Prop :=
    match acc with
    | Some d => exists g, gauges m !! k = Some g /\ g_val g = dp_value d /\ g_ts g = ts
    | None => True
    end.

  Lemma receive_step m acc d :
    not_newer m -> tracks m acc -> dp_ts d = ts ->
    not_newer (receive m d) /\
    tracks (receive m d) (if is_gauge_of k d then Some d else acc) /\
    (is_gauge_of k d = false -> gauges (receive m d) !! k = gauges m !! k).
  Proof.
    intros Hn Ht Hts. unfold not_newer, tracks in *. unfold receive, is_gauge_of. destruct (dp_type d) eqn:Ety; cbn [gauges].
    1, 3, 4: split; [exact Hn|split; [exact Ht|reflexivity]].
    set (g' := match gauges m !! dp_key d with
               | Some g => if (g_ts g <=? dp_ts d)%Z then MkGauge (dp_value d) (dp_ts d) (g_src g) (g_tags g) else g
               | None => MkGauge (dp_value d) (dp_ts d) (dp_src d) (sort_tags (dp_tags d))
               end).
    assert (Hg' : g_val g' = dp_value d /\ g_ts g' = ts).
    { unfold g'. destruct (gauges m !! dp_key d) as [g|] eqn:El; [|split; [reflexivity|exact Hts]].
      specialize (Hn _ _ El). rewrite Hts.
      replace (g_ts g <=? ts)%Z with true by (symmetry; apply Z.leb_le; exact Hn).
      split; reflexivity. }
    cbn [gauges]. split; [|split].
    - intros k' g. destruct (decide (k' = dp_key d)) as [->|Hne].
      + rewrite lookup_insert. intros H; injection H as <-. destruct Hg' as [_ ->]. reflexivity.
      + rewrite lookup_insert_ne by congruence. apply Hn.
    - destruct (skey_eqb (dp_key d) k) eqn:Ek.
      + apply skey_eqb_eq in Ek. subst k. exists g'. rewrite lookup_insert. destruct Hg'; auto.
      + assert (Hne : dp_key d <> k) by (intros E; apply skey_eqb_eq in E; congruence).
        destruct acc as [d0|]; [|exact I]. destruct Ht as (g & Hl & Hv & Ht). exists g.
        rewrite lookup_insert_ne by exact Hne. auto.
    - intros Ek. assert (Hne : dp_key d <> k) by (intros E; apply skey_eqb_eq in E; congruence).
      rewrite lookup_insert_ne by exact Hne. reflexivity.
  Qed.

  Lemma last_stays_some l : forall a : option datapoint,
    a <> None -> fold_left (fun acc d => if is_gauge_of k d then Some d else acc) l a <> None.
  Proof.
    induction l as [|x l IHl]; intros a Ha; cbn [fold_left]; [exact Ha|].
    apply IHl. destruct (is_gauge_of k x); [discriminate|exact Ha].
  Qed.

  Lemma receive_all_tracks ds : forall m acc,
    not_newer m -> tracks m acc -> Forall (fun d => dp_ts d = ts) ds ->
    let acc' := fold_left (fun acc d => if is_gauge_of k d then Some d else acc) ds acc in
    tracks (receive_all m ds) acc' /\
    (acc' = None -> gauges (receive_all m ds) !! k = gauges m !! k).
  Proof.
    induction ds as [|d ds IH]; intros m acc Hn Ht HF.
    - split; [exact Ht|reflexivity].
    - change (receive_all m (d :: ds)) with (receive_all (receive m d) ds). cbn [fold_left].
      inversion HF as [|? ? Hd HF']; subst.
      destruct (receive_step m acc d Hn Ht Hd) as (Hn' & Ht' & Hk).
      specialize (IH (receive m d) _ Hn' Ht' HF'). cbn zeta in IH. destruct IH as [IH1 IH2].
      split; [exact IH1|]. intros Hnone. rewrite (IH2 Hnone).
      destruct (is_gauge_of k d) eqn:E; [|apply Hk; reflexivity].
      exfalso. exact (last_stays_some ds (Some d) ltac:(discriminate) Hnone).
  Qed.
End Fold.

Lemma not_newer_empty ts : not_newer ts empty_map.
Proof. intros k g H. cbn in H. rewrite lookup_empty in H. discriminate. Qed.

(* all datapoints carry one timestamp: the gauge of series k ends as its last datapoint says *)
Lemma gauge_last_wins ts k ds :
  Forall (fun d => dp_ts d = ts) ds ->
  match last_gauge k ds with
  | Some d => exists g, gauges (receive_all empty_map ds) !! k = Some g /\ g_val g = dp_value d /\ g_ts g = ts
  | None => gauges (receive_all empty_map ds) !! k = None
  end.
Proof.
  intros HF. destruct (receive_all_tracks ts k ds empty_map None (not_newer_empty ts) I HF) as [H1 H2].
  cbn zeta in H1, H2. fold (last_gauge k ds) in H1, H2.
  destruct (last_gauge k ds) as [d|]; [exact H1|]. rewrite (H2 eq_refl). apply lookup_empty.
Qed.

Lemma datagram_metrics_ts pf cfg ip ts msg r :
  parse_datagram pf cfg ip ts msg = DgOk r -> Forall (fun d => dp_ts d = ts) (dg_metrics r).
Proof.
  intros Hp. apply List.Forall_forall. intros d Hin.
  destruct (parse_datagram_source_time pf cfg ip ts msg r d Hp Hin) as (line & m & _ & _ & Hts & _). exact Hts.
Qed.

Lemma datagram_gauge_last_wins pf cfg ip ts msg r k :
  parse_datagram pf cfg ip ts msg = DgOk r ->
  match last_gauge k (dg_metrics r) with
  | Some d => exists g, gauges (receive_all empty_map (dg_metrics r)) !! k = Some g /\
                        g_val g = dp_value d /\ g_ts g = ts
  | None => gauges (receive_all empty_map (dg_metrics r)) !! k = None
  end.
Proof. intros Hp. apply gauge_last_wins. exact (datagram_metrics_ts _ _ _ _ _ _ Hp). Qed.

(* non-vacuity and the regression the fix addressed: "g:1|g\ng:2|g" records 2 *)
Local Open Scope N_scope.
Example gauge_two_lines :
  let pf := fun s : str => match s with [49] => PFVal 4607182418800017408 | _ => PFVal 4611686018427387904 end in
  let msg := [103;58;49;124;103;10;103;58;50;124;103] in
  exists r, parse_datagram pf (Cfg [] false) [49] 7%Z msg = DgOk r /\
    length (dg_metrics r) = 2%nat /\
    option_map g_val (gauges (receive_all empty_map (dg_metrics r)) !! ([103], [44;115;58;49]))
    = Some 4611686018427387904%Z.
Proof. eexists. split; [vm_compute; reflexivity|]. split; [reflexivity|]. vm_compute. reflexivity. Qed.
