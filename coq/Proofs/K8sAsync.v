(* Proofs about Model/K8sAsync.v: where property C13 ends. *)
From stdpp Require Import gmap.
From GS Require Import Base.Bytes Model.K8s Proofs.K8s Model.K8sAsync.

(* ---------------------------------------------------------------- serial runs = the synchronous model *)

Definition embed (ks : state) (out : list (N * str * option instance)) : astate :=
  MkA (store ks) (memo ks) [] ∅ out.

Definition strip (o : N * str * option instance) : str * option instance := (snd (fst o), snd o).

Lemma step_label_of cfg ks d :
  step cfg ks (label_of d) = MkSt (apply_store d (store ks)) (apply_handler d (memo ks)).
Proof. destruct d; reflexivity. Qed.

Lemma sync_answers_label_of cfg ks d r :
  sync_answers cfg ks (label_of d :: r) = sync_answers cfg (step cfg ks (label_of d)) r.
Proof. destruct d; reflexivity. Qed.

Lemma pending_done (t : N) (x : pend) : delete t (<[t := x]> (∅ : gmap N pend)) = ∅.
Proof. apply delete_insert, lookup_empty. Qed.

Lemma serial_refines cfg als ls :
  serial als ls -> forall ks out s',
  arun cfg (embed ks out) als = Some s' ->
  s' = embed (run cfg ks ls) (a_out s') /\
  map strip (a_out s') = map strip out ++ sync_answers cfg ks ls.
Proof.
  induction 1 as [|d r ls _ IH|t ip r ls _ IH|t ip r ls _ IH]; intros ks out s' Hr.
  - cbn in Hr. injection Hr as <-. cbn. rewrite app_nil_r. auto.
  - cbn [arun astep embed a_queue a_store a_memo a_pending a_out app] in Hr.
    specialize (IH (step cfg ks (label_of d)) out s').
    rewrite step_label_of in IH. specialize (IH Hr).
    rewrite sync_answers_label_of, step_label_of.
    change (run cfg ks (label_of d :: ls)) with (run cfg (step cfg ks (label_of d)) ls).
    rewrite step_label_of. exact IH.
  - cbn [arun astep embed a_queue a_store a_memo a_pending a_out] in Hr.
    rewrite lookup_empty in Hr. cbn [arun astep a_pending a_queue a_store a_memo a_out] in Hr.
    rewrite lookup_insert in Hr.
    destruct (memo ks !! ip) as [[i|]|] eqn:Em; [|discriminate Hr|discriminate Hr].
    rewrite pending_done in Hr.
    assert (Hl : lookup cfg ks ip = (Some i, ks)) by (unfold lookup; rewrite Em; reflexivity).
    specialize (IH ks (out ++ [(t, ip, Some i)]) s' Hr).
    change (run cfg ks (Lookup ip :: ls)) with (run cfg (snd (lookup cfg ks ip)) ls).
    cbn [sync_answers step]. rewrite Hl. cbn [fst snd].
    destruct IH as [IH1 IH2]. split; [exact IH1|].
    rewrite IH2, map_app, <- app_assoc. reflexivity.
  - cbn [arun astep embed a_queue a_store a_memo a_pending a_out] in Hr.
    rewrite lookup_empty in Hr. cbn [arun astep a_pending a_queue a_store a_memo a_out] in Hr.
    rewrite lookup_insert in Hr.
    set (rr := index_read cfg (store ks) ip) in *.
    assert (Hl : forall v, memo ks !! ip = v -> (v = None \/ v = Some None) ->
                 lookup cfg ks ip = (rr, MkSt (store ks) (<[ip := rr]> (memo ks)))).
    { intros v Ev Hv. unfold lookup. rewrite Ev. destruct Hv as [->| ->]; reflexivity. }
    destruct (memo ks !! ip) as [[i|]|] eqn:Em; [discriminate Hr| |].
    all: cbn [arun astep a_pending a_queue a_store a_memo a_out] in Hr;
      rewrite insert_insert, lookup_insert in Hr;
      cbn [arun astep a_pending a_queue a_store a_memo a_out] in Hr;
      rewrite pending_done in Hr;
      specialize (Hl _ eq_refl ltac:(auto));
      specialize (IH (MkSt (store ks) (<[ip := rr]> (memo ks))) (out ++ [(t, ip, rr)]) s' Hr);
      change (run cfg ks (Lookup ip :: ls)) with (run cfg (snd (lookup cfg ks ip)) ls);
      cbn [sync_answers step]; rewrite Hl; cbn [fst snd];
      destruct IH as [IH1 IH2]; (split; [exact IH1|]);
      rewrite IH2, map_app, <- app_assoc; reflexivity.
Qed.

(* C13_async_refines_sync *)
Lemma async_refines_sync cfg als ls s' :
  serial als ls -> arun cfg ainit als = Some s' ->
  a_store s' = store (run cfg init ls) /\ a_memo s' = memo (run cfg init ls) /\
  a_queue s' = [] /\ a_pending s' = ∅ /\
  map strip (a_out s') = sync_answers cfg init ls.
Proof.
  intros Hs Hr. destruct (serial_refines cfg als ls Hs init [] s' Hr) as [E1 E2].
  rewrite E1. cbn. auto.
Qed.

(* and every synchronous history has such a run *)
Lemma sync_has_serial_run cfg ls : forall ks out,
  exists als s', serial als ls /\ arun cfg (embed ks out) als = Some s'.
Proof.
  induction ls as [|l r IH]; intros ks out.
  - exists [], (embed ks out). split; [constructor|reflexivity].
  - assert (Hd : forall d, l = label_of d ->
              exists als s', serial als (l :: r) /\ arun cfg (embed ks out) als = Some s').
    { intros d ->. destruct (IH (step cfg ks (label_of d)) out) as [als [s' [Hs Hr]]].
      exists (IndexUpdate d :: HandlerCall :: als), s'. split; [constructor; exact Hs|].
      rewrite step_label_of in Hr. exact Hr. }
    destruct l as [p|o n|p|ip]; [apply (Hd (DAdd p))|apply (Hd (DUpdate o n))|apply (Hd (DDelete p))| ]; try reflexivity.
    destruct (memo ks !! ip) as [[i|]|] eqn:Em.
    + destruct (IH ks (out ++ [(0%N, ip, Some i)])) as [als [s' [Hs Hr]]].
      exists (LookupReadMemo 0 ip :: LookupReturnHit 0 :: als), s'. split; [constructor; exact Hs|].
      cbn [arun astep embed a_queue a_store a_memo a_pending a_out].
      rewrite lookup_empty. cbn [arun astep a_pending a_queue a_store a_memo a_out].
      rewrite lookup_insert, Em, pending_done. exact Hr.
    + set (rr := index_read cfg (store ks) ip).
      destruct (IH (MkSt (store ks) (<[ip := rr]> (memo ks))) (out ++ [(0%N, ip, rr)])) as [als [s' [Hs Hr]]].
      exists (LookupReadMemo 0 ip :: LookupReadIndex 0 :: LookupWriteMemo 0 :: als), s'.
      split; [constructor; exact Hs|].
      cbn [arun astep embed a_queue a_store a_memo a_pending a_out].
      rewrite lookup_empty. cbn [arun astep a_pending a_queue a_store a_memo a_out].
      rewrite lookup_insert, Em. cbn [arun astep a_pending a_queue a_store a_memo a_out].
      rewrite insert_insert, lookup_insert. cbn [arun astep a_pending a_queue a_store a_memo a_out].
      rewrite pending_done. exact Hr.
    + set (rr := index_read cfg (store ks) ip).
      destruct (IH (MkSt (store ks) (<[ip := rr]> (memo ks))) (out ++ [(0%N, ip, rr)])) as [als [s' [Hs Hr]]].
      exists (LookupReadMemo 0 ip :: LookupReadIndex 0 :: LookupWriteMemo 0 :: als), s'.
      split; [constructor; exact Hs|].
      cbn [arun astep embed a_queue a_store a_memo a_pending a_out].
      rewrite lookup_empty. cbn [arun astep a_pending a_queue a_store a_memo a_out].
      rewrite lookup_insert, Em. cbn [arun astep a_pending a_queue a_store a_memo a_out].
      rewrite insert_insert, lookup_insert. cbn [arun astep a_pending a_queue a_store a_memo a_out].
      rewrite pending_done. exact Hr.
Qed.

Lemma sync_is_async cfg ls :
  exists als s', serial als ls /\ arun cfg ainit als = Some s'.
Proof. apply (sync_has_serial_run cfg ls init []). Qed.

(* ---------------------------------------------------------------- the invariant and its exact boundary *)

Lemma apply_handler_lookup d m ip v :
  apply_handler d m !! ip = Some v -> m !! ip = Some v /\ ~ invalidates d ip.
Proof.
  destruct d as [p|old new|p]; cbn [apply_handler invalidates].
  - intros H. split; [exact H|tauto].
  - intros H. apply invalidate_lookup in H as [H Hne]. split; [exact H|]. intros [Hi He]. exact (Hne Hi He).
  - intros H. apply invalidate_lookup in H as [H Hne]. split; [exact H|]. intros [Hi He]. exact (Hne Hi He).
Qed.

Lemma justified_index_update cfg st q d ip i :
  delivery_safe st (label_of d) -> justified cfg st q ip i ->
  justified cfg (apply_store d st) (q ++ [d]) ip i.
Proof.
  intros Hsafe [[p [[k [Hk [Hpi Hpip]]] ->]]|[d' [Hin Hinv]]].
  2: { right. exists d'. split; [apply in_or_app; left; exact Hin|exact Hinv]. }
  destruct d as [p0|old new|p0]; cbn [label_of delivery_safe apply_store] in *.
  - left. exists p. split; [|reflexivity]. exists k. split; [|auto].
    rewrite lookup_insert_ne; [exact Hk|]. intros <-. rewrite (Hsafe _ Hk) in Hpi. discriminate Hpi.
  - destruct (decide (pod_key new = k)) as [<-|Hne].
    + right. exists (DUpdate old new). split; [apply in_or_app; right; left; reflexivity|].
      cbn. destruct (Hsafe _ Hk Hpi) as [Hoi Hoip]. split; [exact Hoi|congruence].
    + left. exists p. split; [|reflexivity]. exists k. split; [|auto].
      rewrite lookup_insert_ne; [exact Hk|exact Hne].
  - destruct (decide (pod_key p0 = k)) as [<-|Hne].
    + right. exists (DDelete p0). split; [apply in_or_app; right; left; reflexivity|].
      cbn. destruct (Hsafe _ Hk Hpi) as [Hoi Hoip]. split; [exact Hoi|congruence].
    + left. exists p. split; [|reflexivity]. exists k. split; [|auto].
      rewrite lookup_delete_ne; [exact Hk|exact Hne].
Qed.

Lemma ainv_init cfg : ainv cfg ainit.
Proof. split; intros *; cbn; rewrite lookup_empty; discriminate. Qed.

(* every label other than HandlerCall keeps the invariant *)
Lemma astep_ainv_other cfg s l s' :
  ainv cfg s ->
  match l with IndexUpdate d => delivery_safe (a_store s) (label_of d) | HandlerCall => False | _ => True end ->
  astep cfg s l = Some s' -> ainv cfg s'.
Proof.
  intros [Hm Hp] Hok Hs. destruct l as [d| |t ip|t|t|t]; cbn [astep] in Hs.
  - injection Hs as <-. split; cbn [a_memo a_store a_queue a_pending].
    + intros ip i H. apply justified_index_update; [exact Hok|exact (Hm _ _ H)].
    + intros t ip i H. apply justified_index_update; [exact Hok|exact (Hp _ _ _ H)].
  - destruct Hok.
  - destruct (a_pending s !! t) eqn:Ep; [discriminate Hs|]. injection Hs as <-.
    split; cbn [a_memo a_store a_queue a_pending]; [exact Hm|].
    intros t' ip' i H. apply lookup_insert_Some in H as [[_ H]|[_ H]]; [|exact (Hp _ _ _ H)].
    destruct (a_memo s !! ip) as [[?|]|]; discriminate H.
  - destruct (a_pending s !! t) as [[ip i| |]|] eqn:Ep; try discriminate Hs. injection Hs as <-.
    split; cbn [a_memo a_store a_queue a_pending]; [exact Hm|].
    intros t' ip' i' H. apply lookup_delete_Some in H as [_ H]. exact (Hp _ _ _ H).
  - destruct (a_pending s !! t) as [[|ip|]|] eqn:Ep; try discriminate Hs. injection Hs as <-.
    split; cbn [a_memo a_store a_queue a_pending]; [exact Hm|].
    intros t' ip' i' H. apply lookup_insert_Some in H as [[_ H]|[_ H]]; [|exact (Hp _ _ _ H)].
    injection H as <- H. unfold index_read in H.
    destruct (candidates (a_store s) ip) as [|p r] eqn:Ec; [discriminate H|]. injection H as <-.
    left. exists p. split; [eapply candidates_head; exact Ec|reflexivity].
  - destruct (a_pending s !! t) as [[| |ip r]|] eqn:Ep; try discriminate Hs. injection Hs as <-.
    split; cbn [a_memo a_store a_queue a_pending].
    + intros ip' i' H. apply lookup_insert_Some in H as [[<- H]|[_ H]]; [|exact (Hm _ _ H)].
      subst r. exact (Hp _ _ _ Ep).
    + intros t' ip' i' H. apply lookup_delete_Some in H as [_ H]. exact (Hp _ _ _ H).
Qed.

(* a HandlerCall keeps it exactly when it is harmless *)
Lemma astep_ainv_handler cfg s s' :
  ainv cfg s -> astep cfg s HandlerCall = Some s' -> (ainv cfg s' <-> handler_safe cfg s).
Proof.
  intros [Hm Hp] Hs. cbn [astep] in Hs. destruct (a_queue s) as [|d q] eqn:Eq; [discriminate Hs|].
  injection Hs as <-. split.
  - intros [_ Hp'] d0 q0 t ip i E Ht. cbn [a_memo a_store a_queue a_pending] in Hp'.
    try rewrite Eq in E. injection E as <- <-. exact (Hp' _ _ _ Ht).
  - intros Hsafe. split; cbn [a_memo a_store a_queue a_pending].
    + intros ip i H. apply apply_handler_lookup in H as [H Hni].
      destruct (Hm _ _ H) as [Hh|[d' [Hin Hinv]]]; [left; exact Hh|].
      try rewrite Eq in Hin. destruct Hin as [<-|Hin]; [destruct (Hni Hinv)|].
      right. exists d'. auto.
    + intros t ip i H. exact (Hsafe d q t ip i Eq H).
Qed.

(* C13_async_coherence_exact: one step, all labels *)
Lemma astep_ainv_exact cfg s l s' :
  ainv cfg s ->
  match l with IndexUpdate d => informer_ok (a_store s) (label_of d) | _ => True end ->
  astep cfg s l = Some s' ->
  (ainv cfg s' <-> match l with HandlerCall => handler_safe cfg s | _ => True end).
Proof.
  intros Hi Hok Hs. destruct l as [d| |t ip|t|t|t].
  2: exact (astep_ainv_handler cfg s s' Hi Hs).
  all: split; [trivial|intros _]; eapply astep_ainv_other; [exact Hi| |exact Hs]; cbn; auto.
  apply informer_ok_safe, Hok.
Qed.

Lemma ainv_run cfg als : forall s s',
  ainv cfg s -> ahistory_ok cfg s als -> handlers_safe cfg s als -> arun cfg s als = Some s' -> ainv cfg s'.
Proof.
  induction als as [|l r IH]; intros s s' Hi Hok Hsafe Hr; cbn in Hr.
  - injection Hr as <-. exact Hi.
  - cbn [ahistory_ok handlers_safe] in Hok, Hsafe. destruct Hok as [Hok1 Hok2], Hsafe as [Hs1 Hs2].
    destruct (astep cfg s l) as [s1|] eqn:Es; [|discriminate Hr].
    apply (IH s1 s'); [|exact Hok2|exact Hs2|exact Hr].
    apply (astep_ainv_exact cfg s l s1 Hi Hok1 Es). destruct l; auto.
Qed.

Lemma calm_safe cfg s : no_computed_pending s -> handler_safe cfg s.
Proof. intros Hn d q t ip i _ Ht. destruct (Hn _ _ _ Ht). Qed.

Lemma handlers_calm_safe cfg als : forall s, handlers_calm cfg s als -> handlers_safe cfg s als.
Proof.
  induction als as [|l r IH]; intros s H; cbn in *; [exact I|]. destruct H as [H1 H2]. split.
  - destruct l; auto. apply calm_safe, H1.
  - destruct (astep cfg s l); [apply IH, H2|exact I].
Qed.

Lemma ainv_quiet_coherent cfg s : ainv cfg s -> a_queue s = [] -> acoherent cfg s.
Proof.
  intros [Hm _] Eq ip i H. destruct (Hm _ _ H) as [Hh|[d [Hin _]]]; [exact Hh|].
  rewrite Eq in Hin. destruct Hin.
Qed.

(* C13_async_safe_schedules / C13_async_bounded_staleness *)
Lemma async_safe_schedules cfg als s' :
  ahistory_ok cfg ainit als -> handlers_safe cfg ainit als -> arun cfg ainit als = Some s' ->
  (forall ip i, a_memo s' !! ip = Some (Some i) ->
     (exists p, holds (a_store s') ip p /\ i = derive cfg p) \/
     (exists d, In d (a_queue s') /\ invalidates d ip)) /\
  (a_queue s' = [] ->
   forall ip i, a_memo s' !! ip = Some (Some i) -> exists p, holds (a_store s') ip p /\ i = derive cfg p).
Proof.
  intros Hok Hsafe Hr. pose proof (ainv_run cfg als ainit s' (ainv_init cfg) Hok Hsafe Hr) as Hi.
  split; [exact (proj1 Hi)|]. intros Eq. exact (ainv_quiet_coherent cfg s' Hi Eq).
Qed.

Lemma async_bounded_staleness cfg als s' :
  ahistory_ok cfg ainit als -> handlers_calm cfg ainit als -> arun cfg ainit als = Some s' ->
  (forall ip i, a_memo s' !! ip = Some (Some i) ->
     (exists p, holds (a_store s') ip p /\ i = derive cfg p) \/
     (exists d, In d (a_queue s') /\ invalidates d ip)) /\
  (a_queue s' = [] ->
   forall ip i, a_memo s' !! ip = Some (Some i) -> exists p, holds (a_store s') ip p /\ i = derive cfg p).
Proof. intros Hok Hc. apply async_safe_schedules; [exact Hok|apply handlers_calm_safe, Hc]. Qed.

(* ---------------------------------------------------------------- stale for ever *)

Definition pend_ip (x : pend) : str :=
  match x with PHit ip _ | PMiss ip | PComputed ip _ => ip end.

Definition stuck (ip : str) (i : instance) (s : astate) : Prop :=
  a_queue s = [] /\ a_memo s !! ip = Some (Some i) /\
  forall t x, a_pending s !! t = Some x -> pend_ip x = ip -> x = PHit ip i.

Lemma stuck_step cfg ip i s l s' :
  stuck ip i s -> match l with IndexUpdate _ => False | _ => True end -> astep cfg s l = Some s' ->
  stuck ip i s' /\ exists new, a_out s' = a_out s ++ new /\
                   Forall (fun o => snd (fst o) = ip -> snd o = Some i) new.
Proof.
  intros [Hq [Hm Hp]] Hl Hs. destruct l as [d| |t ip'|t|t|t]; cbn [astep] in Hs.
  - destruct Hl.
  - rewrite Hq in Hs. discriminate Hs.
  - destruct (a_pending s !! t) eqn:Ep; [discriminate Hs|]. injection Hs as <-.
    split; [|exists []; rewrite app_nil_r; split; [reflexivity|constructor]].
    split; [exact Hq|]. split; [exact Hm|]. cbn [a_pending]. intros t' x H Hx.
    apply lookup_insert_Some in H as [[_ <-]|[_ H]]; [|exact (Hp _ _ H Hx)].
    destruct (decide (ip' = ip)) as [->|Hne].
    + rewrite Hm. reflexivity.
    + destruct (a_memo s !! ip') as [[?|]|]; cbn in Hx; congruence.
  - destruct (a_pending s !! t) as [[ip0 i0| |]|] eqn:Ep; try discriminate Hs. injection Hs as <-.
    split.
    + split; [exact Hq|]. split; [exact Hm|]. cbn [a_pending]. intros t' x H Hx.
      apply lookup_delete_Some in H as [_ H]. exact (Hp _ _ H Hx).
    + exists [(t, ip0, Some i0)]. split; [reflexivity|]. constructor; [|constructor].
      cbn. intros ->. specialize (Hp _ _ Ep eq_refl). injection Hp as ->. reflexivity.
  - destruct (a_pending s !! t) as [[|ip0|]|] eqn:Ep; try discriminate Hs. injection Hs as <-.
    split; [|exists []; rewrite app_nil_r; split; [reflexivity|constructor]].
    split; [exact Hq|]. split; [exact Hm|]. cbn [a_pending]. intros t' x H Hx.
    apply lookup_insert_Some in H as [[_ <-]|[_ H]]; [|exact (Hp _ _ H Hx)].
    cbn in Hx. subst ip0. specialize (Hp _ _ Ep eq_refl). discriminate Hp.
  - destruct (a_pending s !! t) as [[| |ip0 r]|] eqn:Ep; try discriminate Hs. injection Hs as <-.
    assert (Hne : ip0 <> ip).
    { intros ->. specialize (Hp _ _ Ep eq_refl). discriminate Hp. }
    split.
    + split; [exact Hq|]. split; [cbn [a_memo]; rewrite lookup_insert_ne by exact Hne; exact Hm|].
      cbn [a_pending]. intros t' x H Hx. apply lookup_delete_Some in H as [_ H]. exact (Hp _ _ H Hx).
    + exists [(t, ip0, r)]. split; [reflexivity|]. constructor; [|constructor]. cbn. congruence.
Qed.

Lemma stuck_forever cfg ip i more : forall s s',
  stuck ip i s -> no_index_update more -> arun cfg s more = Some s' ->
  stuck ip i s' /\ exists new, a_out s' = a_out s ++ new /\
                   Forall (fun o => snd (fst o) = ip -> snd o = Some i) new.
Proof.
  induction more as [|l r IH]; intros s s' Hst Hn Hr; cbn in Hr.
  - injection Hr as <-. split; [exact Hst|]. exists []. rewrite app_nil_r. split; [reflexivity|constructor].
  - destruct (astep cfg s l) as [s1|] eqn:Es; [|discriminate Hr].
    inversion Hn as [|? ? Hl Hn']; subst.
    destruct (stuck_step cfg ip i s l s1 Hst Hl Es) as [Hst1 [n1 [E1 F1]]].
    destruct (IH s1 s' Hst1 Hn' Hr) as [Hst' [n2 [E2 F2]]].
    split; [exact Hst'|]. exists (n1 ++ n2). split; [rewrite E2, E1, app_assoc; reflexivity|].
    apply Forall_app; auto.
Qed.

(* the schedule: pod b is added and handled; lookup 0 misses the memo and reads the index (b);
   the informer deletes b and the handler runs (nothing to drop yet); lookup 0 memoises b *)
Local Open Scope N_scope.
Definition stale_schedule : list alabel :=
  [IndexUpdate (DAdd ex_b); HandlerCall;
   LookupReadMemo 0 [49]; LookupReadIndex 0;
   IndexUpdate (DDelete ex_b); HandlerCall;
   LookupWriteMemo 0].

Lemma stale_schedule_facts :
  exists s, arun ex_cfg ainit stale_schedule = Some s /\
    a_queue s = [] /\ a_pending s = ∅ /\
    a_memo s !! [49] = Some (Some (derive ex_cfg ex_b)) /\
    (forall p, ~ holds (a_store s) [49] p) /\
    (exists s1, arun ex_cfg s [LookupReadMemo 1 [49]; LookupReturnHit 1] = Some s1 /\
                a_out s1 = a_out s ++ [(1, [49], Some (derive ex_cfg ex_b))]).
Proof.
  destruct (arun ex_cfg ainit stale_schedule) as [s|] eqn:Er; [|vm_compute in Er; discriminate Er].
  exists s. split; [reflexivity|]. vm_compute in Er. injection Er as <-.
  split; [reflexivity|]. split; [apply map_to_list_empty_iff; vm_compute; reflexivity|].
  split; [vm_compute; reflexivity|]. split; [apply candidates_nil; vm_compute; reflexivity|].
  eexists. split; vm_compute; reflexivity.
Qed.

(* C13_async_stale_refuted *)
Lemma async_stale_refuted :
  exists cfg als ip i s,
    ahistory_ok cfg ainit als /\ arun cfg ainit als = Some s /\
    a_queue s = [] /\ a_pending s = ∅ /\
    (forall p, ~ holds (a_store s) ip p) /\
    (exists s1, arun cfg s [LookupReadMemo 1 ip; LookupReturnHit 1] = Some s1 /\
                a_out s1 = a_out s ++ [(1, ip, Some i)]) /\
    forall more s', no_index_update more -> arun cfg s more = Some s' ->
      a_memo s' !! ip = Some (Some i) /\
      exists new, a_out s' = a_out s ++ new /\ Forall (fun o => snd (fst o) = ip -> snd o = Some i) new.
Proof.
  destruct stale_schedule_facts as [s [Er [Hq [Hp [Hm [Hn Hl]]]]]].
  exists ex_cfg, stale_schedule, [49], (derive ex_cfg ex_b), s.
  assert (Hst : stuck [49] (derive ex_cfg ex_b) s).
  { split; [exact Hq|]. split; [exact Hm|]. intros t x H. rewrite Hp, lookup_empty in H. discriminate H. }
  split; [vm_compute; tauto|]. repeat (split; [assumption|]).
  intros more s' Hnu Hr. destruct (stuck_forever ex_cfg _ _ more s s' Hst Hnu Hr) as [[_ [Hm' _]] Hout].
  split; [exact Hm'|exact Hout].
Qed.

(* the same schedule is excluded by the hypothesis of the positive theorems *)
Example stale_schedule_not_safe : ~ handlers_safe ex_cfg ainit stale_schedule.
Proof.
  intros H. destruct stale_schedule_facts as [s [Er [Hq [_ [Hm [Hn _]]]]]].
  assert (Hok : ahistory_ok ex_cfg ainit stale_schedule) by (vm_compute; tauto).
  destruct (async_safe_schedules ex_cfg stale_schedule s Hok H Er) as [_ Hc].
  destruct (Hc Hq _ _ Hm) as [p [Hp _]]. exact (Hn p Hp).
Qed.

Lemma no_computed_by_list s :
  Forall (fun kv => match snd kv with PComputed _ _ => False | _ => True end) (map_to_list (a_pending s)) ->
  no_computed_pending s.
Proof.
  intros H t ip r E. apply elem_of_map_to_list, elem_of_list_In in E.
  rewrite List.Forall_forall in H. exact (H _ E).
Qed.

Ltac calm_step :=
  cbn [handlers_calm]; split;
  [ first [exact I | apply no_computed_by_list; vm_compute; repeat constructor]
  | match goal with
    | |- match astep ?c ?s ?l with _ => _ end =>
        let E := fresh "E" in
        destruct (astep c s l) as [?|] eqn:E; [vm_compute in E; injection E as <-|exact I]
    end ].

(* and the hypotheses of the positive theorems are satisfiable on a schedule with real overlap:
   the delete lands between the two halves of lookup 0, but its handler runs after the write;
   the stale entry lives exactly as long as its notification is queued *)
Example calm_schedule_ok :
  let als := [IndexUpdate (DAdd ex_b); HandlerCall; LookupReadMemo 0 [49]; LookupReadIndex 0;
              IndexUpdate (DDelete ex_b); LookupWriteMemo 0; HandlerCall;
              LookupReadMemo 1 [49]; LookupReadIndex 1; LookupWriteMemo 1] in
  ahistory_ok ex_cfg ainit als /\ handlers_calm ex_cfg ainit als /\
  exists s, arun ex_cfg ainit als = Some s /\
            a_out s = [(0, [49], Some (derive ex_cfg ex_b)); (1, [49], None)].
Proof.
  intros als. split; [vm_compute; tauto|]. split.
  - unfold als. do 10 calm_step. exact I.
  - destruct (arun ex_cfg ainit als) as [s|] eqn:Er; [|vm_compute in Er; discriminate Er].
    exists s. split; [reflexivity|]. vm_compute in Er. injection Er as <-. reflexivity.
Qed.
