(* C04: every history of merge | flush | reset from the empty aggregator runs without Panic, and
   every state it reaches satisfies the invariant that the payload builders rely on
   (Model/PayloadPartial.Reported).  One inductive invariant over the label sequence:
   every timer holds at most as many values as were merged so far, its percentile names contain
   '_', its histogram is nil, empty or has exactly one +Inf key. *)
From Coq Require Import String.
From Coq Require Import List ZArith Lia Bool.
From GS Require Import Base.Bytes.
From GS Require Import Model.GoPartial.
From GS Require Import Model.Histogram.
From GS Require Import Model.Stats.
From GS Require Import Model.FlushPartial.
From GS Require Import Model.PayloadPartial.
From GS Require Import Proofs.FlushSafety.
Import ListNotations.
Local Open Scope Z_scope.

Lemma mapM_Forall {A B} (f : A -> outcome B) (P : B -> Prop) l :
  (forall a, In a l -> exists b, f a = Ok b /\ P b) -> exists l', mapM f l = Ok l' /\ Forall P l'.
Proof.
  induction l as [|a r IH]; intros H; cbn [mapM]; [eauto|].
  destruct (H a (or_introl eq_refl)) as (b & -> & Hb). cbn [bind].
  destruct IH as (l' & -> & Hl'); [intros; apply H; right; assumption|]. cbn [bind]. eauto.
Qed.

Section LTS.
  Context {V : Type}.
  Variable O : vops V.
  Variable pf : str -> option bound.
  Variable rank : Z -> Z -> Z.
  Hypothesis sort_length : forall l, length (vsort O l) = length l.

  Definition entry_ok (b : Z) (e : entry V) : Prop :=
    len (t_values (e_timer e)) <= b /\ timer_ok (e_timer e).
  Definition agg_ok (b : Z) (a : agg V) : Prop := Forall (entry_ok b) (a_timers a).

  Lemma entry_ok_mono b b' e : b <= b' -> entry_ok b e -> entry_ok b' e.
  Proof. intros Hb [H1 H2]; split; [lia|exact H2]. Qed.
  Lemma agg_ok_mono b b' a : b <= b' -> agg_ok b a -> agg_ok b' a.
  Proof. intros Hb. apply Forall_impl. intros e; apply entry_ok_mono; exact Hb. Qed.

  Lemma fresh_ok xs s tags : timer_ok (fresh O xs s tags HNil).
  Proof. split; cbn; [constructor|exact I]. Qed.

  Lemma merge1_ok b l i :
    0 <= b -> Forall (entry_ok b) l -> Forall (entry_ok (b + len (i_values i))) (merge1 O l i).
  Proof.
    intros Hb. pose proof (len_nonneg (i_values i)) as Hi.
    induction l as [|e r IH]; intros H; cbn [merge1].
    - constructor; [|constructor]. split; cbn; [lia|]. apply (fresh_ok (i_values i) (i_sampled i) (i_tags i)).
    - inversion H as [|? ? [He1 He2] Hr]; subst.
      destruct (skey_eqb (e_key e) (i_key i)).
      + constructor.
        * split; cbn; [rewrite len_app; lia|]. destruct He2 as [P1 P2]; split; assumption.
        * eapply Forall_impl; [|exact Hr]. intros e'; apply entry_ok_mono; lia.
      + constructor; [split; [lia|exact He2]|apply IH; exact Hr].
  Qed.

  Lemma merge_ok b a ts os :
    0 <= b -> agg_ok b a -> agg_ok (b + label_values (LMerge ts os)) (merge O a ts os).
  Proof.
    unfold agg_ok, merge; cbn [a_timers label_values]. generalize (a_timers a) as l.
    revert b; induction ts as [|i r IH]; intros b l Hb H; cbn [fold_left fold_right].
    - rewrite Z.add_0_r; exact H.
    - pose proof (len_nonneg (i_values i)).
      replace (b + (len (i_values i) + fold_right (fun i acc => len (i_values i) + acc) 0 r))
        with ((b + len (i_values i)) + fold_right (fun i acc => len (i_values i) + acc) 0 r) by lia.
      apply IH; [lia|]. apply merge1_ok; assumption.
  Qed.

  Lemma label_values_nonneg (l : label V) : 0 <= label_values l.
  Proof.
    destruct l as [ts os| |g]; cbn [label_values]; try lia.
    induction ts as [|i r IH]; cbn [fold_right]; [lia|]. pose proof (len_nonneg (i_values i)). lia.
  Qed.
  Lemma history_values_nonneg (ls : list (label V)) : 0 <= history_values ls.
  Proof. induction ls as [|l r IH]; cbn [history_values fold_right]; [lia|]. pose proof (label_values_nonneg l). unfold history_values in IH. lia. Qed.

  Lemma flush_ok bound c b a :
    rank_ok rank bound -> config_ok c -> b < bound -> agg_ok b a ->
    exists a', flush O pf rank false c a = Ok a' /\ agg_ok b a'.
  Proof.
    intros Hr Hc Hb Ha. unfold flush.
    destruct (mapM_Forall (flush_entry O pf rank false c) (entry_ok b) (a_timers a)) as (ts & -> & Hts).
    - intros e Hin. unfold agg_ok in Ha. rewrite Forall_forall in Ha. destruct (Ha e Hin) as [H1 H2].
      destruct (flush_timer_ok O pf rank sort_length bound c (e_timer e) Hr Hc ltac:(lia) H2) as (t' & Ht' & _ & Hlen & Hok).
      unfold flush_entry. rewrite Ht'. cbn [bind]. eexists; split; [reflexivity|]. split; cbn [e_timer]; [lia|exact Hok].
    - cbn [bind]. eexists; split; [reflexivity|exact Hts].
  Qed.

  Lemma reset_ok c gone a :
    config_ok c -> exists a', reset O pf c gone a = Ok a' /\ agg_ok 0 a'.
  Proof.
    intros [_ Hl]. unfold reset.
    destruct (mapM_Forall (reset_entry O pf c) (entry_ok 0)
                (filter (fun e => negb (gone (e_key e))) (a_timers a))) as (ts & -> & Hts).
    - intros e _. unfold reset_entry. cbv zeta.
      unfold slice_to. pose proof (len_nonneg (t_values (e_timer e))).
      destruct (0 <? 0) eqn:E1; [lia|]. destruct (len (t_values (e_timer e)) <? 0) eqn:E2; [lia|].
      cbn [orb bind Z.to_nat firstn].
      destruct (has_histogram_tag (t_tags (e_timer e))).
      + destruct (empty_histogram_ok pf (t_tags (e_timer e)) (c_limit c) Hl) as [h Hh]. rewrite Hh. cbn [bind].
        eexists; split; [reflexivity|]. split; cbn; [lia|]. split; [constructor|].
        eapply empty_histogram_hist_ok; exact Hh.
      + cbn [bind]. eexists; split; [reflexivity|]. split; cbn; [lia|]. split; [constructor|exact I].
    - cbn [bind]. eexists; split; [reflexivity|exact Hts].
  Qed.

  Lemma step_ok bound c b a l :
    rank_ok rank bound -> config_ok c -> 0 <= b -> b + label_values l < bound -> agg_ok b a ->
    exists a', step O pf rank false c a l = Ok a' /\ agg_ok (b + label_values l) a'.
  Proof.
    intros Hr Hc Hb0 Hb Ha. destruct l as [ts os| |gone]; cbn [step].
    - eexists; split; [reflexivity|]. apply merge_ok; assumption.
    - cbn [label_values] in *. rewrite Z.add_0_r in *. apply (flush_ok bound); assumption.
    - cbn [label_values]. rewrite Z.add_0_r. destruct (reset_ok c gone a Hc) as (a' & -> & H).
      eexists; split; [reflexivity|]. apply (agg_ok_mono 0); [lia|exact H].
  Qed.

  Lemma run_from_ok bound c ls : forall b a,
    rank_ok rank bound -> config_ok c -> 0 <= b -> b + history_values ls < bound -> agg_ok b a ->
    exists a', foldM (step O pf rank false c) a ls = Ok a' /\ agg_ok (b + history_values ls) a'.
  Proof.
    induction ls as [|l r IH]; intros b a Hr Hc Hb0 Hb Ha; cbn [foldM history_values fold_right] in *.
    - rewrite Z.add_0_r. eauto.
    - pose proof (label_values_nonneg l) as Hl. pose proof (history_values_nonneg r) as Hh. unfold history_values in Hh.
      destruct (step_ok bound c b a l Hr Hc Hb0 ltac:(lia) Ha) as (a1 & -> & Ha1). cbn [bind].
      destruct (IH (b + label_values l) a1 Hr Hc ltac:(lia)) as (a' & Ha' & Hok); [unfold history_values; lia|exact Ha1|].
      exists a'. split; [exact Ha'|]. unfold history_values in Hok.
      replace (b + (label_values l + fold_right (fun l acc => label_values l + acc) 0 r))
        with (b + label_values l + fold_right (fun l acc => label_values l + acc) 0 r) by lia. exact Hok.
  Qed.

  Lemma reported_of_agg_ok b a : agg_ok b a -> Reported (report_of a).
  Proof.
    unfold agg_ok, Reported, report_of; cbn [r_timers]. intros H. apply Forall_map.
    eapply Forall_impl; [|exact H]. intros e [_ [H1 H2]]. unfold rtimer_ok, report_entry; cbn.
    repeat split; [exact H1|exact H2|apply len_nonneg].
  Qed.

  (* the theorem: no history panics; in every reached state Flush does not panic and what it
     reports satisfies the builders' invariant *)
  Theorem flush_never_panics bound c ls :
    rank_ok rank bound -> config_ok c -> history_values ls < bound ->
    exists a, run O pf rank false c ls = Ok a
              /\ Reported (report_of a)
              /\ exists a', flush O pf rank false c a = Ok a' /\ Reported (report_of a').
  Proof.
    intros Hr Hc Hb. unfold run. pose proof (history_values_nonneg ls) as Hh.
    assert (H0 : 0 + history_values ls < bound) by lia.
    destruct (run_from_ok bound c ls 0 (agg_empty (V := V)) Hr Hc (Z.le_refl 0) H0) as (a & Ha & Hok).
    { constructor. }
    rewrite Z.add_0_l in Hok.
    exists a. split; [exact Ha|]. split; [eapply reported_of_agg_ok; exact Hok|].
    destruct (flush_ok bound c _ a Hr Hc Hb Hok) as (a' & Ha' & Hok').
    exists a'. split; [exact Ha'|eapply reported_of_agg_ok; exact Hok'].
  Qed.
End LTS.
