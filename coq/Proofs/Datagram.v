(* Lemmas about Model/Datagram.v: the loop of handleDatagram is the per-line parse of [lines msg];
   totality and the counting rule; source / timestamp of every metric. *)
From Coq Require Import Lia.
From GS Require Import Base.Bytes Model.Lexer Model.MetricMap Model.Datagram Proofs.LexerSafety.
Local Open Scope N_scope.

(* ---------------------------------------------------------------------------------------- *)
(* bytes.IndexByte and the two slice expressions *)

Lemma index_byte_none c l : index_byte c l = None -> ~ In c l.
Proof.
  induction l as [|b r IH]; cbn [index_byte]; intros H; [intros []|].
  destruct (N.eqb_spec b c) as [->|Hne]; [discriminate|].
  destruct (index_byte c r); [discriminate|].
  intros [->|Hin]; [congruence|]. exact (IH eq_refl Hin).
Qed.

Lemma index_byte_some c l i :
  index_byte c l = Some i ->
  exists u r, l = u ++ c :: r /\ ~ In c u /\ i = N.of_nat (length u).
Proof.
  revert i; induction l as [|b r IH]; cbn [index_byte]; intros i H; [discriminate|].
  destruct (N.eqb_spec b c) as [->|Hne].
  - injection H as <-. exists [], r. repeat split. intros [].
  - destruct (index_byte c r) as [j|] eqn:E; [|discriminate]. cbn in H. injection H as <-.
    destruct (IH j eq_refl) as (u & r' & -> & Hnin & ->).
    exists (b :: u), r'. repeat split.
    + intros [->|Hin]; [congruence|exact (Hnin Hin)].
    + cbn [length]. lia.
Qed.

Lemma index_byte_app c u r : ~ In c u -> index_byte c (u ++ c :: r) = Some (N.of_nat (length u)).
Proof.
  induction u as [|b u IH]; intros Hn; cbn [app index_byte length].
  - rewrite N.eqb_refl. reflexivity.
  - destruct (N.eqb_spec b c) as [->|Hne]; [exfalso; apply Hn; left; reflexivity|].
    rewrite IH by (intros Hin; apply Hn; right; exact Hin). cbn. f_equal. lia.
Qed.

Lemma slice_checked_prefix (u : str) c r :
  slice_checked (u ++ c :: r) 0 (N.of_nat (length u)) = Some u.
Proof.
  unfold slice_checked. rewrite app_length. cbn [length].
  replace (0 <=? N.of_nat (length u)) with true by (symmetry; apply N.leb_le; lia).
  replace (N.of_nat (length u) <=? N.of_nat (length u + S (length r))) with true
    by (symmetry; apply N.leb_le; lia).
  cbn [andb]. rewrite N.sub_0_r, Nat2N.id. change (N.to_nat 0) with 0%nat. rewrite skipn_O.
  rewrite firstn_app, Nat.sub_diag, firstn_all. cbn [firstn]. rewrite app_nil_r. reflexivity.
Qed.

Lemma slice_checked_suffix (u : str) c r :
  slice_checked (u ++ c :: r) (N.of_nat (length u) + 1) (N.of_nat (length (u ++ c :: r))) = Some r.
Proof.
  unfold slice_checked. rewrite app_length. cbn [length].
  replace (N.of_nat (length u) + 1 <=? N.of_nat (length u + S (length r))) with true
    by (symmetry; apply N.leb_le; lia).
  rewrite N.leb_refl. cbn [andb].
  replace (N.to_nat (N.of_nat (length u) + 1)) with (length u + 1)%nat by lia.
  replace (N.to_nat (N.of_nat (length u + S (length r)) - (N.of_nat (length u) + 1))) with (length r) by lia.
  rewrite skipn_app. replace (length u + 1 - length u)%nat with 1%nat by lia.
  rewrite skipn_all2 by lia. cbn [app skipn]. rewrite firstn_all. reflexivity.
Qed.

(* ---------------------------------------------------------------------------------------- *)
(* the counting rule *)

Lemma lines_from_cons cur u r :
  ~ In c_nl u -> lines_from cur (u ++ c_nl :: r) = (rev cur ++ u) :: lines_from [] r.
Proof.
  revert cur; induction u as [|b u IH]; intros cur Hn; cbn [app lines_from].
  - rewrite N.eqb_refl, app_nil_r. reflexivity.
  - destruct (N.eqb_spec b c_nl) as [->|Hne]; [exfalso; apply Hn; left; reflexivity|].
    rewrite IH by (intros Hin; apply Hn; right; exact Hin).
    cbn [rev]. rewrite <- app_assoc. reflexivity.
Qed.

Lemma lines_from_last cur u :
  ~ In c_nl u -> lines_from cur u = match rev cur ++ u with [] => [] | x => [x] end.
Proof.
  revert cur; induction u as [|b u IH]; intros cur Hn; cbn [lines_from].
  - rewrite app_nil_r. destruct cur as [|x cur]; [reflexivity|].
    cbn [rev]. destruct (rev cur ++ [x]) eqn:E; [|reflexivity].
    apply app_eq_nil in E. destruct E as [_ E]. discriminate.
  - destruct (N.eqb_spec b c_nl) as [->|Hne]; [exfalso; apply Hn; left; reflexivity|].
    rewrite IH by (intros Hin; apply Hn; right; exact Hin).
    cbn [rev]. rewrite <- app_assoc. reflexivity.
Qed.

Lemma lines_cons u r : ~ In c_nl u -> lines (u ++ c_nl :: r) = u :: lines r.
Proof. intros Hn. unfold lines. rewrite lines_from_cons by exact Hn. reflexivity. Qed.

Lemma lines_last u : ~ In c_nl u -> lines u = match u with [] => [] | _ => [u] end.
Proof. intros Hn. unfold lines. rewrite lines_from_last by exact Hn. cbn [rev app]. destruct u; reflexivity. Qed.

(* every byte string is, uniquely, newline-terminated lines followed by a newline-free rest *)
Lemma lines_terminated ls l :
  Forall (fun x => ~ In c_nl x) ls -> ~ In c_nl l ->
  lines (terminated ls ++ l) = ls ++ match l with [] => [] | _ => [l] end.
Proof.
  intros Hls Hl. induction Hls as [|x ls Hx Hls IH]; cbn [terminated map concat app].
  - apply lines_last. exact Hl.
  - rewrite <- !app_assoc. cbn [app]. rewrite lines_cons by exact Hx.
    fold (terminated ls). rewrite IH. reflexivity.
Qed.

Lemma lines_no_nl msg : Forall (fun x => ~ In c_nl x) (lines msg).
Proof.
  remember (length msg) as n eqn:Hn. revert msg Hn.
  induction n as [n IH] using lt_wf_ind. intros msg ->.
  destruct (index_byte c_nl msg) as [i|] eqn:E.
  - destruct (index_byte_some _ _ _ E) as (u & r & -> & Hnin & _).
    rewrite lines_cons by exact Hnin. constructor; [exact Hnin|].
    apply (IH (length r)); [rewrite app_length; cbn [length]; lia|reflexivity].
  - apply index_byte_none in E. rewrite lines_last by exact E.
    destruct msg; constructor; [exact E|constructor].
Qed.

(* ---------------------------------------------------------------------------------------- *)
(* one line *)

Lemma parse_line_some pf cfg ip ts line : exists r, parse_line pf cfg ip ts line = Some r.
Proof.
  unfold parse_line, line_result. pose proof (lex_never_panics pf (cf_ns cfg) line) as Hn.
  destruct (lex pf (cf_ns cfg) line); try (eexists; reflexivity). congruence.
Qed.

Definition dg_count (r : dg_result) : N := N.of_nat (length (dg_metrics r)) + dg_nevents r + dg_bad r.

Lemma parse_line_count pf cfg ip ts line r :
  parse_line pf cfg ip ts line = Some r ->
  dg_count r = 1 /\ dg_nevents r = N.of_nat (length (dg_events r)).
Proof.
  unfold parse_line, line_result. destruct (lex pf (cf_ns cfg) line); intros H; inversion H; subst;
    split; reflexivity.
Qed.

Lemma dg_count_app a b : dg_count (dg_app a b) = dg_count a + dg_count b.
Proof. unfold dg_count, dg_app. cbn. rewrite app_length. lia. Qed.

(* ---------------------------------------------------------------------------------------- *)
(* the loop *)

Fixpoint parse_lines pf cfg ip ts (ls : list str) : option (list dg_result) :=
  match ls with
  | [] => Some []
  | l :: r => match parse_line pf cfg ip ts l, parse_lines pf cfg ip ts r with
              | Some x, Some xs => Some (x :: xs)
              | _, _ => None
              end
  end.

Lemma parse_lines_forall2 pf cfg ip ts ls rs :
  parse_lines pf cfg ip ts ls = Some rs <->
  Forall2 (fun l r => parse_line pf cfg ip ts l = Some r) ls rs.
Proof.
  revert rs; induction ls as [|l ls IH]; intros rs; cbn [parse_lines].
  - split; [intros H; inversion H; constructor|intros H; inversion H; reflexivity].
  - split.
    + destruct (parse_line pf cfg ip ts l) as [x|] eqn:E; [|discriminate].
      destruct (parse_lines pf cfg ip ts ls) as [xs|]; [|discriminate].
      intros H; inversion H; subst. constructor; [exact E|apply IH; reflexivity].
    + intros H; inversion H as [|? r ? rs' H1 H2]; subst. rewrite H1.
      apply IH in H2. rewrite H2. reflexivity.
Qed.

Lemma parse_lines_some pf cfg ip ts ls : exists rs, parse_lines pf cfg ip ts ls = Some rs.
Proof.
  induction ls as [|l ls [rs IH]]; cbn [parse_lines]; [eexists; reflexivity|].
  destruct (parse_line_some pf cfg ip ts l) as [r ->]. rewrite IH. eexists; reflexivity.
Qed.

Lemma handle_loop_spec pf cfg ip ts fuel : forall msg,
  (length msg < fuel)%nat ->
  handle_loop pf cfg ip ts fuel msg =
  match parse_lines pf cfg ip ts (lines msg) with
  | Some rs => DgOk (dg_concat rs)
  | None => DgPanic
  end.
Proof.
  induction fuel as [|f IH]; intros msg Hlt; [lia|].
  cbn [handle_loop].
  destruct (index_byte c_nl msg) as [i|] eqn:E.
  - destruct (index_byte_some _ _ _ E) as (u & r & -> & Hnin & ->).
    rewrite slice_checked_prefix, slice_checked_suffix. rewrite lines_cons by exact Hnin.
    cbn [parse_lines].
    destruct (parse_line pf cfg ip ts u) as [r1|]; [|reflexivity].
    rewrite IH by (rewrite app_length in Hlt; cbn [length] in Hlt; lia).
    destruct (parse_lines pf cfg ip ts (lines r)); reflexivity.
  - apply index_byte_none in E. rewrite lines_last by exact E.
    destruct msg as [|b msg]; [reflexivity|].
    cbn [parse_lines]. destruct (parse_line pf cfg ip ts (b :: msg)) as [r1|]; [|reflexivity].
    destruct f as [|f']; [cbn [length] in Hlt; lia|]. reflexivity.
Qed.

Lemma parse_datagram_spec pf cfg ip ts msg :
  exists rs,
    Forall2 (fun line r => parse_line pf cfg ip ts line = Some r) (lines msg) rs /\
    parse_datagram pf cfg ip ts msg = DgOk (dg_concat rs).
Proof.
  destruct (parse_lines_some pf cfg ip ts (lines msg)) as [rs Hrs].
  exists rs. split; [apply parse_lines_forall2; exact Hrs|].
  unfold parse_datagram. rewrite handle_loop_spec by lia. rewrite Hrs. reflexivity.
Qed.

Lemma count_concat pf cfg ip ts ls rs :
  Forall2 (fun line r => parse_line pf cfg ip ts line = Some r) ls rs ->
  dg_count (dg_concat rs) = N.of_nat (length ls) /\
  dg_nevents (dg_concat rs) = N.of_nat (length (dg_events (dg_concat rs))).
Proof.
  induction 1 as [|l r ls rs H1 H2 [IH1 IH2]]; [split; reflexivity|].
  destruct (parse_line_count _ _ _ _ _ _ H1) as [Hc He].
  cbn [dg_concat fold_right]. fold (dg_concat rs). rewrite dg_count_app, Hc, IH1. cbn [length].
  split; [lia|]. unfold dg_app. cbn [dg_nevents dg_events]. rewrite app_length, He, IH2. lia.
Qed.

(* C05_datagram_total (C03's datagram part) *)
Lemma parse_datagram_total pf cfg ip ts msg :
  exists r, parse_datagram pf cfg ip ts msg = DgOk r /\
            N.of_nat (length (dg_metrics r)) + dg_nevents r + dg_bad r = N.of_nat (length (lines msg)) /\
            dg_nevents r = N.of_nat (length (dg_events r)).
Proof.
  destruct (parse_datagram_spec pf cfg ip ts msg) as (rs & HF & Hp).
  exists (dg_concat rs). split; [exact Hp|]. exact (count_concat _ _ _ _ _ _ HF).
Qed.

(* the bad-line count is the number of rejected lines *)
Definition is_reject (o : outcome) : bool := match o with OReject _ => true | _ => false end.

Lemma bad_concat pf cfg ip ts ls rs :
  Forall2 (fun line r => parse_line pf cfg ip ts line = Some r) ls rs ->
  dg_bad (dg_concat rs) = N.of_nat (length (filter (fun l => is_reject (lex pf (cf_ns cfg) l)) ls)).
Proof.
  induction 1 as [|l r ls rs H1 H2 IH]; [reflexivity|].
  cbn [dg_concat fold_right filter]. fold (dg_concat rs). unfold dg_app. cbn [dg_bad]. rewrite IH.
  unfold parse_line, line_result in H1.
  destruct (lex pf (cf_ns cfg) l); inversion H1; subst; cbn [is_reject dg_bad length]; lia.
Qed.

Lemma parse_datagram_bad pf cfg ip ts msg r :
  parse_datagram pf cfg ip ts msg = DgOk r ->
  dg_bad r = N.of_nat (length (filter (fun l => is_reject (lex pf (cf_ns cfg) l)) (lines msg))).
Proof.
  destruct (parse_datagram_spec pf cfg ip ts msg) as (rs & HF & Hp). rewrite Hp.
  intros H; inversion H; subst. exact (bad_concat _ _ _ _ _ _ HF).
Qed.

(* the statement of the property: a datagram written as lines *)
Lemma parse_datagram_lines pf cfg ip ts ls l :
  Forall (fun x => ~ In c_nl x) ls -> ~ In c_nl l ->
  lines (terminated ls ++ l) = ls ++ match l with [] => [] | _ => [l] end /\
  exists rs,
    Forall2 (fun line r => parse_line pf cfg ip ts line = Some r)
            (ls ++ match l with [] => [] | _ => [l] end) rs /\
    parse_datagram pf cfg ip ts (terminated ls ++ l) = DgOk (dg_concat rs).
Proof.
  intros Hls Hl. split; [apply lines_terminated; assumption|].
  destruct (parse_datagram_spec pf cfg ip ts (terminated ls ++ l)) as (rs & HF & Hp).
  rewrite lines_terminated in HF by assumption. exists rs. split; assumption.
Qed.

Lemma parse_line_unfold pf cfg ip ts line :
  parse_line pf cfg ip ts line =
  match lex pf (cf_ns cfg) line with
  | OMetric m => Some (DgR [stamp cfg ip ts m] [] 0 0)
  | OEvent e => Some (DgR [] [stamp_event ip e] 1 0)
  | OReject _ => Some (DgR [] [] 0 1)
  | OPanic => None
  end.
Proof. reflexivity. Qed.

(* ---------------------------------------------------------------------------------------- *)
(* source and timestamp *)

Lemma has_prefix_spec p s : has_prefix p s = true <-> exists r, s = p ++ r.
Proof.
  revert s; induction p as [|x p IH]; intros s; cbn [has_prefix].
  - split; [exists s; reflexivity|reflexivity].
  - destruct s as [|y s]; [split; [discriminate|intros [r Hr]; discriminate]|].
    rewrite Bool.andb_true_iff, N.eqb_eq, IH. split.
    + intros [-> [r ->]]. exists r. reflexivity.
    + intros [r Hr]. cbn [app] in Hr. injection Hr as -> ->. split; [reflexivity|exists r; reflexivity].
Qed.

Lemma split_host_some tags h rest :
  split_host tags = Some (h, rest) ->
  exists pre post, tags = pre ++ (host_prefix ++ h) :: post /\ rest = pre ++ post /\
                   Forall (fun t => has_prefix host_prefix t = false) pre.
Proof.
  revert h rest; induction tags as [|t r IH]; intros h rest; cbn [split_host]; [discriminate|].
  destruct (has_prefix host_prefix t) eqn:E.
  - intros H; injection H as <- <-. apply has_prefix_spec in E. destruct E as [x ->].
    exists [], r. split; [|split; [reflexivity|constructor]]. reflexivity.
  - destruct (split_host r) as [[h' r']|]; [|discriminate].
    intros H; injection H as <- <-. destruct (IH h' r' eq_refl) as (pre & post & -> & -> & HF).
    exists (t :: pre), post. repeat split. constructor; assumption.
Qed.

Lemma split_host_none tags :
  split_host tags = None -> Forall (fun t => has_prefix host_prefix t = false) tags.
Proof.
  induction tags as [|t r IH]; cbn [split_host]; [constructor|].
  destruct (has_prefix host_prefix t) eqn:E; [discriminate|].
  destruct (split_host r) as [[h' r']|]; [discriminate|]. intros _. constructor; [exact E|apply IH; reflexivity].
Qed.

(* what the property says about source and tags of a stamped metric *)
Definition source_spec (cfg : config) (ip : str) (m : metric) (d : datapoint) : Prop :=
  if cf_ignore_host cfg then
    (exists pre h post,
        m_tags m = pre ++ (host_prefix ++ h) :: post /\
        Forall (fun t => has_prefix host_prefix t = false) pre /\
        dp_src d = h /\ dp_tags d = pre ++ post)
    \/ (Forall (fun t => has_prefix host_prefix t = false) (m_tags m) /\
        dp_src d = [] /\ dp_tags d = m_tags m)
  else dp_src d = ip /\ dp_tags d = m_tags m.

Lemma stamp_spec cfg ip ts m :
  let d := stamp cfg ip ts m in
  dp_ts d = ts /\ source_spec cfg ip m d /\
  dp_name d = m_name m /\ dp_type d = m_type m /\ dp_value d = m_value m /\
  dp_strval d = m_strval m /\ dp_rate d = m_rate m.
Proof.
  unfold stamp, source_spec. destruct (cf_ignore_host cfg); cbn.
  - destruct (split_host (m_tags m)) as [[h rest]|] eqn:E; cbn.
    + destruct (split_host_some _ _ _ E) as (pre & post & Ht & -> & HF).
      repeat split. left. exists pre, h, post. repeat split; assumption.
    + repeat split. right. repeat split. apply split_host_none. exact E.
  - repeat split.
Qed.

Lemma concat_metrics_in pf cfg ip ts ls rs d :
  Forall2 (fun line r => parse_line pf cfg ip ts line = Some r) ls rs ->
  In d (dg_metrics (dg_concat rs)) ->
  exists line m, In line ls /\ lex pf (cf_ns cfg) line = OMetric m /\ d = stamp cfg ip ts m.
Proof.
  induction 1 as [|l r ls rs H1 H2 IH]; [intros []|].
  cbn [dg_concat fold_right]. fold (dg_concat rs). unfold dg_app at 1. cbn [dg_metrics].
  rewrite in_app_iff. intros [Hin|Hin].
  - unfold parse_line, line_result in H1.
    destruct (lex pf (cf_ns cfg) l) as [m| | |] eqn:E; inversion H1; subst; cbn in Hin; try contradiction.
    destruct Hin as [<-|[]]. exists l, m. repeat split; [left; reflexivity|exact E].
  - destruct (IH Hin) as (line & m & Hl & Hm & Hd). exists line, m. repeat split; [right; exact Hl|exact Hm|exact Hd].
Qed.

Lemma parse_datagram_source_time pf cfg ip ts msg r d :
  parse_datagram pf cfg ip ts msg = DgOk r -> In d (dg_metrics r) ->
  exists line m,
    In line (lines msg) /\ lex pf (cf_ns cfg) line = OMetric m /\
    dp_ts d = ts /\ source_spec cfg ip m d /\
    dp_name d = m_name m /\ dp_type d = m_type m /\ dp_value d = m_value m /\
    dp_strval d = m_strval m /\ dp_rate d = m_rate m.
Proof.
  destruct (parse_datagram_spec pf cfg ip ts msg) as (rs & HF & Hp). rewrite Hp.
  intros H Hin; inversion H; subst.
  destruct (concat_metrics_in _ _ _ _ _ _ _ HF Hin) as (line & m & Hl & Hm & ->).
  exists line, m. split; [exact Hl|]. split; [exact Hm|]. apply stamp_spec.
Qed.

(* events: source is the sender, the line's other fields untouched, in line order *)
Lemma concat_events_in pf cfg ip ts ls rs e :
  Forall2 (fun line r => parse_line pf cfg ip ts line = Some r) ls rs ->
  In e (dg_events (dg_concat rs)) ->
  exists line e0, In line ls /\ lex pf (cf_ns cfg) line = OEvent e0 /\ e = stamp_event ip e0.
Proof.
  induction 1 as [|l r ls rs H1 H2 IH]; [intros []|].
  cbn [dg_concat fold_right]. fold (dg_concat rs). unfold dg_app at 1. cbn [dg_events].
  rewrite in_app_iff. intros [Hin|Hin].
  - unfold parse_line, line_result in H1.
    destruct (lex pf (cf_ns cfg) l) as [|e0| |] eqn:E; inversion H1; subst; cbn in Hin; try contradiction.
    destruct Hin as [<-|[]]. exists l, e0. repeat split; [left; reflexivity|exact E].
  - destruct (IH Hin) as (line & e0 & Hl & Hm & Hd). exists line, e0. repeat split; [right; exact Hl|exact Hm|exact Hd].
Qed.

Lemma parse_datagram_event_source pf cfg ip ts msg r e :
  parse_datagram pf cfg ip ts msg = DgOk r -> In e (dg_events r) ->
  exists line e0, In line (lines msg) /\ lex pf (cf_ns cfg) line = OEvent e0 /\ e = stamp_event ip e0.
Proof.
  destruct (parse_datagram_spec pf cfg ip ts msg) as (rs & HF & Hp). rewrite Hp.
  intros H Hin; inversion H; subst. exact (concat_events_in _ _ _ _ _ _ _ HF Hin).
Qed.

(* non-vacuity: a datagram with an accepted, a normalised, an empty and a rejected line *)
Example parse_datagram_example :
  let pf := fun _ : str => PFVal f64_one in
  (* "a!b:1|c\n/x y:2|g|#host:h,k\n\nq" *)
  let msg := [97;33;98;58;49;124;99;10; 47;120;32;121;58;50;124;103;124;35;104;111;115;116;58;104;44;107;10; 10; 113] in
  lines msg = [[97;33;98;58;49;124;99]; [47;120;32;121;58;50;124;103;124;35;104;111;115;116;58;104;44;107]; []; [113]] /\
  parse_datagram pf (Cfg [] true) [49] 7%Z msg =
  DgOk (DgR [MkDp [97;98] Counter f64_one [] f64_one [] [] 7%Z;
             MkDp [45;120;95;121] Gauge f64_one [] f64_one [[107]] [104] 7%Z] [] 0 2).
Proof. vm_compute. split; reflexivity. Qed.
