(* C02, the converse inclusion for events, and the language theorem. *)
From Coq Require Import Lia.
From GS Require Import Base.Bytes Model.Lexer Model.LexGrammar Model.LexerLegacyUint.
From GS Require Import Proofs.LexerGrammar Proofs.LexerGrammarEvent Proofs.LexerGrammarWf Proofs.LexerGrammarExact.
Local Open Scope N_scope.

Definition digits (ds : str) : Prop := Forall (fun b => is_digit b = true) ds.

(* ---------------------------------------------------------------------------------------- *)
(* numerals: uint64 accumulation with the lexer's overflow test *)

Lemma digit_small b : is_digit b = true -> b - c_0 <= 9.
Proof. unfold is_digit, c_0, c_9. intros H. apply andb_prop in H as [H1 H2]. apply N.leb_le in H1, H2. lia. Qed.

(* the accumulation denotes the decimal value ... *)
Lemma uint_acc_value ds : forall v v', uint_acc v ds = Some v' -> v' = fold_left digit_step ds v.
Proof.
  induction ds as [|b ds IH]; intros v v'; cbn [uint_acc fold_left]; [intros [= <-]; reflexivity|].
  destruct (_ <? v); [discriminate|]. apply IH.
Qed.

(* ... succeeds exactly when that value fits in 64 bits ... *)
Lemma uint_acc_exact ds : forall v, fold_left digit_step ds v < two64 ->
  uint_acc v ds = Some (fold_left digit_step ds v).
Proof.
  induction ds as [|b ds IH]; intros v Hlt; cbn [uint_acc fold_left] in *; [reflexivity|].
  pose proof (fold_digit_ge ds (digit_step v b)) as Hge.
  rewrite uint_test_ok by (unfold digit_step, two64, max_uint64 in *; lia). apply IH, Hlt.
Qed.

Lemma uint_acc_bound ds : digits ds -> forall v v', v <= max_uint64 -> uint_acc v ds = Some v' -> v' <= max_uint64.
Proof.
  induction 1 as [|b ds Hb _ IH]; intros v v' Hv; cbn [uint_acc]; [intros [= <-]; exact Hv|].
  destruct (_ <? v) eqn:E; [discriminate|]. apply IH.
  apply uint_test_inv; [exact E|apply digit_small, Hb].
Qed.

Lemma span_digits_spec l : forall ds k, span_digits l = (ds, k) ->
  l = ds ++ k /\ digits ds /\ (k = [] \/ exists b k', k = b :: k' /\ is_digit b = false).
Proof.
  induction l as [|b l IH]; intros ds k; cbn [span_digits].
  - intros [= <- <-]. repeat split; [constructor|left; reflexivity].
  - destruct (is_digit b) eqn:Eb.
    + destruct (span_digits l) as [d k0]. intros [= <- <-]. destruct (IH d k0 eq_refl) as (-> & Hd & Hk).
      repeat split; [constructor; assumption|exact Hk].
    + intros [= <- <-]. repeat split; [constructor|right; eauto].
Qed.

(* lexUint on a NUL-free suffix = maximal digit prefix, accumulated *)
Lemma lex_uint_span l : ~ In c_nul l -> forall v c,
  lex_uint v c l =
  let (ds, k) := span_digits l in
  if nonempty ds || c
  then match uint_acc v ds with Some v' => Ok (v', k) | None => Rej EOverflow end
  else Rej EInvalidFormat.
Proof.
  induction l as [|b l IH]; intros Hn v c; cbn [lex_uint span_digits].
  - destruct c; reflexivity.
  - apply not_in_cons_inv in Hn as [Hb Hn]. destruct (is_digit b) eqn:Eb.
    + specialize (IH Hn (v * 10 + (b - c_0)) true). destruct (span_digits l) as [d k].
      cbn [nonempty orb uint_acc].
      destruct (_ <? v); [reflexivity|]. rewrite IH, orb_true_r. reflexivity.
    + destruct (N.eqb_spec b c_nul); [contradiction|]. cbn [nonempty orb uint_acc]. destruct c; reflexivity.
Qed.

Lemma parse_num_spec bound l ds v k : parse_num bound l = Some (ds, v, k) ->
  l = ds ++ k /\ is_number ds /\ uint_acc 0 ds = Some v /\ v <= bound /\
  (k = [] \/ exists b k', k = b :: k' /\ is_digit b = false).
Proof.
  unfold parse_num. destruct (span_digits l) as [ds' k'] eqn:Es.
  destruct (nonempty ds') eqn:En; [|discriminate].
  destruct (uint_acc 0 ds') as [v'|] eqn:Eu; [|discriminate].
  destruct (N.leb_spec v' bound); [|discriminate]. intros [= <- <- <-].
  apply span_digits_spec in Es as (-> & Hd & Hk). repeat split; try assumption.
  destruct ds'; [discriminate|discriminate].
Qed.

Lemma lex_uint32_parse l v r : ~ In c_nul l -> lex_uint32 l = Ok (v, r) ->
  exists ds, parse_num max_uint32 l = Some (ds, v, r).
Proof.
  intros Hn. unfold lex_uint32, parse_num. rewrite (lex_uint_span l Hn 0 false).
  destruct (span_digits l) as [ds k]. rewrite orb_false_r.
  destruct (nonempty ds); [|discriminate]. destruct (uint_acc 0 ds) as [v'|]; [|discriminate].
  destruct (N.ltb_spec max_uint32 v'); [discriminate|]. intros [= <- <-].
  destruct (N.leb_spec v' max_uint32); [eauto|lia].
Qed.

(* ---------------------------------------------------------------------------------------- *)
(* grammar' for events is accepted with the expected fields *)

Definition atags (a : eattr) : list str := match a with EATags ts => filter nonempty ts | _ => [] end.

Lemma edate_digits ds : digits ds -> forall v c e tags rest,
  lex_eattrs (EDate v c) e tags (ds ++ rest) =
  match uint_acc v ds with
  | None => Rej EOverflow
  | Some v' => lex_eattrs (EDate v' (c || nonempty ds)) e tags rest
  end.
Proof.
  induction 1 as [|b ds Hb _ IH]; intros v c e tags rest; cbn [app uint_acc nonempty].
  - rewrite orb_false_r. reflexivity.
  - cbn [lex_eattrs]. rewrite Hb.
    destruct (_ <? v); [reflexivity|]. rewrite IH, orb_true_r. cbn [orb]. reflexivity.
Qed.

Lemma edate_end v e tags K : pipe_or_end K ->
  lex_eattrs (EDate v true) e tags K =
  match set_date v e with Ok e' => lex_eattrs EAttrs e' tags K | Rej x => Rej x | Pan => Pan end.
Proof.
  intros [->|[k' ->]]; cbn [lex_eattrs].
  - destruct (set_date v e); reflexivity.
  - change (is_digit c_pipe) with false. change (c_pipe =? c_nul) with false.
    change (c_pipe =? c_pipe) with true. cbv iota. destruct (set_date v e); reflexivity.
Qed.

Lemma eattr_step' a last K e tags : wf_eattr' last a -> a <> EAOther [] -> pipe_or_end K ->
  lex_eattrs EAttr e tags (render_eattr a ++ K) =
  lex_eattrs EAttrs (apply_eattr e a) (rev (atags a) ++ tags) K.
Proof.
  intros Ha Hne Hk.
  destruct a as [ds|s|s|low|s|al|ts|s]; cbn [render_eattr wf_eattr' atags apply_eattr rev app] in *.
  - change (lex_eattrs EAttr e tags (c_d :: c_colon :: ds ++ K)) with (lex_eattrs (EDate 0 false) e tags (ds ++ K)).
    destruct Ha as ([Hnz Hd] & Hle). rewrite (edate_digits ds Hd).
    rewrite (uint_acc_exact ds 0) by (fold (digit_value ds); unfold max_int64, two64 in *; lia).
    fold (digit_value ds).
    assert (nonempty ds = true) as -> by (destruct ds; [contradiction|reflexivity]). cbn [orb].
    rewrite (edate_end _ e tags K Hk). unfold set_date. destruct (N.ltb_spec max_int64 (digit_value ds)); [lia|].
    reflexivity.
  - change (lex_eattrs EAttr e tags (c_h :: c_colon :: s ++ K)) with (lex_eattrs (EField c_h []) e tags (s ++ K)).
    rewrite (eattrs_field c_h s _ [] e tags Ha Hk). reflexivity.
  - change (lex_eattrs EAttr e tags (c_k :: c_colon :: s ++ K)) with (lex_eattrs (EField c_k []) e tags (s ++ K)).
    rewrite (eattrs_field c_k s _ [] e tags Ha Hk). reflexivity.
  - change (lex_eattrs EAttr e tags (c_p :: c_colon :: (if low then str_low else str_normal) ++ K))
      with (lex_eattrs (EField c_p []) e tags ((if low then str_low else str_normal) ++ K)).
    destruct low.
    + rewrite (eattrs_field c_p str_low _ [] e tags not_in_closed_low Hk). reflexivity.
    + rewrite (eattrs_field c_p str_normal _ [] e tags not_in_closed_normal Hk). reflexivity.
  - change (lex_eattrs EAttr e tags (c_s :: c_colon :: s ++ K)) with (lex_eattrs (EField c_s []) e tags (s ++ K)).
    rewrite (eattrs_field c_s s _ [] e tags Ha Hk). reflexivity.
  - change (lex_eattrs EAttr e tags (c_t :: c_colon :: alert_str al ++ K))
      with (lex_eattrs (EField c_t []) e tags (alert_str al ++ K)).
    rewrite (eattrs_field c_t (alert_str al) _ [] e tags (not_in_alert al) Hk). destruct al; reflexivity.
  - change (lex_eattrs EAttr e tags (c_hash :: join c_comma ts ++ K))
      with (lex_eattrs (ETags []) e tags (join c_comma ts ++ K)).
    rewrite (eattrs_tags_scan ts Ha _ e tags Hk). reflexivity.
  - destruct s as [|b r]; [contradiction|]. destruct Ha as (Hh & Hd & Hf & Hp).
    cbn [app lex_eattrs]. rewrite Hf.
    destruct (N.eqb_spec b c_d); [contradiction|]. destruct (N.eqb_spec b c_hash); [contradiction|].
    cbn [orb]. apply (eattrs_other r K e tags Hp Hk).
Qed.

Lemma atags_eattrs a attrs : eattrs_tags (a :: attrs) = atags a ++ eattrs_tags attrs.
Proof. destruct a; reflexivity. Qed.

Lemma eattrs_render' attrs : wf_eattrs' attrs -> forall e tags,
  lex_eattrs EAttrs e tags (render_eattrs attrs) =
  Ok (fold_left apply_eattr attrs e, rev (eattrs_tags attrs) ++ tags).
Proof.
  induction attrs as [|a attrs IH]; intros Hwf e tags; [reflexivity|].
  destruct Hwf as [Ha Hwf]. cbn [render_eattrs fold_left].
  change (lex_eattrs EAttrs e tags (c_pipe :: render_eattr a ++ render_eattrs attrs))
    with (lex_eattrs EAttr e tags (render_eattr a ++ render_eattrs attrs)).
  assert (Hcase : a = EAOther [] \/ a <> EAOther []).
  { destruct a as [| | | | | | |[|]]; try (right; discriminate). left; reflexivity. }
  destruct Hcase as [->|Hne].
  - cbn in Ha. destruct attrs; [reflexivity|discriminate Ha].
  - rewrite (eattr_step' a _ _ e tags Ha Hne (render_eattrs_poe attrs)), (IH Hwf), atags_eattrs,
      rev_app_distr, app_assoc. reflexivity.
Qed.

Theorem grammar_event' pf ns dt dx title text attrs :
  wf_event_header dt dx title text -> wf_eattrs' attrs ->
  lex pf ns (render_event' dt dx title text attrs) = OEvent (expected_event title text attrs).
Proof.
  intros (Ht & Hvt & Hlt & Hx & Hvx & Hlx) Hattrs. unfold render_event', render_event_digits.
  rewrite lex_event_unfold. unfold event_res.
  rewrite lex_assert_hit. cbn [bind].
  rewrite (lex_uint32_digits dt _ Ht) by
    (first [exists c_comma; eexists; repeat split; discriminate | rewrite Hvt; exact Hlt]).
  cbn [bind]. rewrite lex_assert_hit. cbn [bind].
  rewrite (lex_uint32_digits dx _ Hx) by
    (first [exists c_rbrace; eexists; repeat split; discriminate | rewrite Hvx; exact Hlx]).
  cbn [bind]. rewrite lex_assert_hit. cbn [bind]. rewrite lex_assert_hit. cbn [bind].
  rewrite Hvt, Hvx, event_body_spec. cbn [bind].
  rewrite (eattrs_render' attrs Hattrs), app_nil_r, rev_involutive. reflexivity.
Qed.

(* the documented sub-grammar: same rendering, weaker side conditions only for ignored fields *)
Lemma wf_eattrs_sub attrs : Forall wf_eattr attrs -> wf_eattrs' attrs.
Proof.
  induction 1 as [|a attrs Ha _ IH]; [exact I|]. split; [|exact IH].
  destruct a as [ds|s|s|low|s|al|ts|s]; cbn in *; try assumption.
  destruct Ha as (Hp & b & r & -> & Hh & Hd & Hf). apply not_in_cons_inv in Hp as [_ Hp]. auto.
Qed.

(* ---------------------------------------------------------------------------------------- *)
(* fields -> event attributes: soundness *)

Lemma alert_of_spec s al : alert_of s = Some al -> s = alert_str al.
Proof.
  unfold alert_of.
  destruct (str_eqb_spec s str_error) as [->|_]; [intros [= <-]; reflexivity|].
  destruct (str_eqb_spec s str_warning) as [->|_]; [intros [= <-]; reflexivity|].
  destruct (str_eqb_spec s str_success) as [->|_]; [intros [= <-]; reflexivity|].
  destruct (str_eqb_spec s str_info) as [->|_]; [intros [= <-]; reflexivity|discriminate].
Qed.

Lemma key_byte_cases b : (b =? c_d) || is_field_key b = true ->
  b = c_d \/ b = c_h \/ b = c_k \/ b = c_p \/ b = c_s \/ b = c_t.
Proof.
  unfold is_field_key.
  destruct (N.eqb_spec b c_d); [auto|]. destruct (N.eqb_spec b c_h); [auto|].
  destruct (N.eqb_spec b c_k); [auto|]. destruct (N.eqb_spec b c_p); [auto 6|].
  destruct (N.eqb_spec b c_s); [auto 6|]. destruct (N.eqb_spec b c_t); [auto 7|discriminate].
Qed.

Lemma split_tags_wf r : ~ In c_pipe r -> ~ In c_nul r -> Forall wf_tag (split_all c_comma r).
Proof.
  intros Hp Hn. pose proof (split_all_parts c_comma r) as Hs. eapply Forall_impl; [|exact Hs].
  intros t [H1 H2]. repeat split; [exact H1|intro; apply Hp|intro; apply Hn]; auto.
Qed.

Lemma field_to_eattr_sound b r a : field_to_eattr b r = Some a ->
  ~ In c_pipe (b :: r) -> ~ In c_nul r ->
  render_eattr a = b :: r /\ wf_eattr' false a /\ a <> EAOther [].
Proof.
  intros H Hp Hn. apply not_in_cons_inv in Hp as [Hbp Hp]. unfold field_to_eattr in H.
  destruct (N.eqb_spec b c_hash) as [->|Hh].
  { injection H as <-. cbn [render_eattr wf_eattr']. rewrite join_split_all.
    repeat split; [apply split_tags_wf; assumption|discriminate]. }
  destruct ((b =? c_d) || is_field_key b) eqn:Ekey.
  2:{ injection H as <-. apply orb_false_elim in Ekey as [Ed Ef]. apply N.eqb_neq in Ed.
      repeat split; auto. discriminate. }
  destruct r as [|c data]; [discriminate|].
  destruct (N.eqb_spec c c_colon) as [->|]; [|discriminate]. cbn [negb] in H.
  apply not_in_cons_inv in Hp as [_ Hp].
  apply key_byte_cases in Ekey as [-> | [-> | [-> | [-> | [-> | -> ]]]]]; cbn in H.
  - destruct (parse_num max_int64 data) as [[[ds v] k]|] eqn:En; [|discriminate].
    destruct k; [|discriminate]. injection H as <-.
    apply parse_num_spec in En as (E & Hnum & Hv & Hle & _). rewrite app_nil_r in E. subst ds.
    apply uint_acc_value in Hv. fold (digit_value data) in Hv. subst v.
    repeat split; try (apply Hnum); [exact Hle|discriminate].
  - injection H as <-. repeat split; [exact Hp|discriminate].
  - injection H as <-. repeat split; [exact Hp|discriminate].
  - destruct (str_eqb_spec data str_low) as [->|_]; [injection H as <-; repeat split; discriminate|].
    destruct (str_eqb_spec data str_normal) as [->|_]; [injection H as <-; repeat split; discriminate|discriminate].
  - injection H as <-. repeat split; [exact Hp|discriminate].
  - destruct (alert_of data) as [al|] eqn:Ea; [|discriminate]. injection H as <-.
    apply alert_of_spec in Ea as ->. repeat split; discriminate.
Qed.

Lemma fields_eattrs_sound fs : forall attrs, fields_to_eattrs fs = Some attrs -> Forall clean_field fs ->
  render_eattrs attrs = concat (map (cons c_pipe) fs) /\ wf_eattrs' attrs.
Proof.
  induction fs as [| |g rest IH|b r rest IH] using fields_ind; intros attrs H Hc.
  - injection H as <-. split; [reflexivity|exact I].
  - injection H as <-. split; [reflexivity|cbn; auto].
  - cbn [fields_to_eattrs] in H. destruct (fields_to_eattrs rest) as [attrs'|]; [|discriminate].
    injection H as <-. inversion Hc as [|? ? _ Hc']; subst. inversion Hc' as [|? ? [Hg _] Hc'']; subst.
    destruct (IH attrs' eq_refl Hc'') as [E Hwf]. split.
    + cbn [render_eattrs render_eattr map concat app]. rewrite E. reflexivity.
    + split; [|exact Hwf]. cbn. repeat split; try discriminate. exact Hg.
  - cbn [fields_to_eattrs] in H. destruct (field_to_eattr b r) as [a|] eqn:Ea; [|discriminate].
    destruct (fields_to_eattrs rest) as [attrs'|]; [|discriminate]. injection H as <-.
    inversion Hc as [|? ? [Hp Hn] Hc']; subst. apply not_in_cons_inv in Hn as [_ Hn].
    destruct (field_to_eattr_sound b r a Ea Hp Hn) as (Er & Hwa & Hne).
    destruct (IH attrs' eq_refl Hc') as [E Hwf]. split.
    + cbn [render_eattrs map concat]. rewrite Er, E. reflexivity.
    + split; [|exact Hwf]. destruct a as [| | | | | | |[|]]; try exact Hwa. contradiction.
Qed.

(* ---------------------------------------------------------------------------------------- *)
(* fields -> event attributes: completeness (whatever the lexer accepts converts) *)

Lemma set_date_no_pan v e : set_date v e <> Pan.
Proof. unfold set_date. destruct (max_int64 <? v); discriminate. Qed.

Lemma edate_junk v e tags b rest : is_digit b = false -> b <> c_nul -> b <> c_pipe -> forall c,
  exists x, lex_eattrs (EDate v c) e tags (b :: rest) = Rej x.
Proof.
  intros Hd Hn Hp c. cbn [lex_eattrs]. rewrite Hd.
  destruct (N.eqb_spec b c_nul); [contradiction|]. destruct c; [|eauto].
  destruct (set_date v e) eqn:E; [|eauto|destruct (set_date_no_pan _ _ E)].
  destruct (N.eqb_spec b c_pipe); [contradiction|eauto].
Qed.

Lemma field_none_rejects b r K e tags : field_to_eattr b r = None ->
  ~ In c_pipe (b :: r) -> ~ In c_nul (b :: r) -> pipe_or_end K ->
  exists x, lex_eattrs EAttr e tags ((b :: r) ++ K) = Rej x.
Proof.
  intros H Hp Hn Hk. apply not_in_cons_inv in Hp as [Hbp Hp]. apply not_in_cons_inv in Hn as [Hbn Hn].
  unfold field_to_eattr in H.
  destruct (N.eqb_spec b c_hash) as [->|Hh]; [discriminate|].
  destruct ((b =? c_d) || is_field_key b) eqn:Ekey; [|discriminate].
  cbn [app lex_eattrs]. rewrite Ekey.
  destruct r as [|c data].
  { cbn [app]. destruct Hk as [->|[k' ->]]; cbn [lex_eattrs]; [eauto|].
    change (c_pipe =? c_colon) with false. cbv iota. eauto. }
  cbn [app lex_eattrs]. destruct (N.eqb_spec c c_colon) as [->|]; [|eauto]. cbn [negb] in H.
  apply not_in_cons_inv in Hp as [_ Hp]. apply not_in_cons_inv in Hn as [_ Hn].
  apply key_byte_cases in Ekey as [-> | [-> | [-> | [-> | [-> | -> ]]]]]; cbn in H; try discriminate.
  - (* d *) change (c_d =? c_d) with true. cbv iota.
    unfold parse_num in H. destruct (span_digits data) as [ds k] eqn:Es.
    apply span_digits_spec in Es as (-> & Hd & Hkk). rewrite <- app_assoc, (edate_digits ds Hd).
    destruct (uint_acc 0 ds) as [v|] eqn:Ev; [|destruct (nonempty ds); eauto].
    cbn [orb].
    assert (Hjunk : forall b' k', k = b' :: k' -> is_digit b' = false ->
              exists x, lex_eattrs (EDate v (nonempty ds)) e tags (k ++ K) = Rej x).
    { intros b' k' -> Hb'. cbn [app]. apply edate_junk; [exact Hb'| |].
      - intros ->. apply Hn. apply in_or_app; right; left; reflexivity.
      - intros ->. apply Hp. apply in_or_app; right; left; reflexivity. }
    destruct (nonempty ds) eqn:Ene.
    + destruct (N.leb_spec v max_int64) as [Hle|Hgt].
      * destruct k as [|b' k']; [discriminate|]. destruct Hkk as [?|(b2 & k2 & [= <- <-] & Hb2)]; [discriminate|].
        eapply Hjunk; [reflexivity|exact Hb2].
      * destruct k as [|b' k'].
        -- cbn [app]. rewrite (edate_end v e tags K Hk). unfold set_date.
           destruct (N.ltb_spec max_int64 v); [eauto|lia].
        -- destruct Hkk as [?|(b2 & k2 & [= <- <-] & Hb2)]; [discriminate|].
           eapply Hjunk; [reflexivity|exact Hb2].
    + destruct ds; [|discriminate]. cbn [app]. destruct k as [|b' k'].
      * cbn [app]. destruct Hk as [->|[k' ->]]; cbn [lex_eattrs]; [eauto|].
        change (is_digit c_pipe) with false. change (c_pipe =? c_nul) with false. cbv iota. eauto.
      * destruct Hkk as [?|(b2 & k2 & [= <- <-] & Hb2)]; [discriminate|].
        eapply Hjunk; [reflexivity|exact Hb2].
  - (* p *) change (c_p =? c_d) with false. cbv iota.
    rewrite (eattrs_field c_p data K [] e tags Hp Hk). cbn [rev app].
    destruct (str_eqb data str_low) eqn:E1; [discriminate|].
    destruct (str_eqb data str_normal) eqn:E2; [discriminate|].
    unfold set_field. change (c_p =? c_h) with false. change (c_p =? c_k) with false.
    change (c_p =? c_s) with false. change (c_p =? c_p) with true. cbv iota. rewrite E1, E2. eauto.
  - (* t *) change (c_t =? c_d) with false. cbv iota.
    rewrite (eattrs_field c_t data K [] e tags Hp Hk). cbn [rev app].
    unfold alert_of in H.
    destruct (str_eqb data str_error) eqn:E1; [discriminate|].
    destruct (str_eqb data str_warning) eqn:E2; [discriminate|].
    destruct (str_eqb data str_success) eqn:E3; [discriminate|].
    destruct (str_eqb data str_info) eqn:E4; [discriminate|].
    unfold set_field. change (c_t =? c_h) with false. change (c_t =? c_k) with false.
    change (c_t =? c_s) with false. change (c_t =? c_p) with false. change (c_t =? c_t) with true.
    cbv iota. rewrite E1, E2, E3, E4. eauto.
Qed.

Lemma concat_fields_poe fs : pipe_or_end (concat (map (cons c_pipe) fs)).
Proof. destruct fs; [left|right; eexists]; reflexivity. Qed.

Lemma fields_eattrs_complete fs : Forall clean_field fs -> forall e tags res,
  lex_eattrs EAttrs e tags (concat (map (cons c_pipe) fs)) = Ok res ->
  exists attrs, fields_to_eattrs fs = Some attrs.
Proof.
  induction fs as [| |g rest IH|b r rest IH] using fields_ind; intros Hc e tags res H.
  - eexists; reflexivity.
  - eexists; reflexivity.
  - inversion Hc as [|? ? _ Hc']; subst. inversion Hc' as [|? ? [Hg _] Hc'']; subst.
    cbn [map concat app] in H.
    change (lex_eattrs EAttrs e tags (c_pipe :: c_pipe :: g ++ concat (map (cons c_pipe) rest)))
      with (lex_eattrs EOther e tags (g ++ concat (map (cons c_pipe) rest))) in H.
    rewrite (eattrs_other g _ e tags Hg (concat_fields_poe rest)) in H.
    destruct (IH Hc'' e tags res H) as [attrs' E]. cbn [fields_to_eattrs]. rewrite E. eexists; reflexivity.
  - inversion Hc as [|? ? [Hp Hn] Hc']; subst. cbn [map concat] in H.
    change (lex_eattrs EAttrs e tags ((c_pipe :: b :: r) ++ concat (map (cons c_pipe) rest)))
      with (lex_eattrs EAttr e tags ((b :: r) ++ concat (map (cons c_pipe) rest))) in H.
    cbn [fields_to_eattrs]. destruct (field_to_eattr b r) as [a|] eqn:Ea.
    + pose proof Hn as Hn'. apply not_in_cons_inv in Hn' as [_ Hn'].
      destruct (field_to_eattr_sound b r a Ea Hp Hn') as (Er & Hwa & Hne).
      rewrite <- Er, (eattr_step' a false _ e tags Hwa Hne (concat_fields_poe rest)) in H.
      destruct (IH Hc' _ _ res H) as [attrs' E]. rewrite E. eexists; reflexivity.
    + destruct (field_none_rejects b r _ e tags Ea Hp Hn (concat_fields_poe rest)) as [x Hx].
      rewrite Hx in H. discriminate.
Qed.

(* ---------------------------------------------------------------------------------------- *)
(* parse_event: sound and complete *)

Lemma expect_spec c l r : expect c l = Some r -> l = c :: r.
Proof. unfold expect. destruct l as [|b l]; [discriminate|]. destruct (N.eqb_spec b c) as [->|]; [intros [= ->]; reflexivity|discriminate]. Qed.

Lemma skipn_nth {A} (l : list A) : forall n b, nth_error l n = Some b -> skipn n l = b :: skipn (S n) l.
Proof.
  induction l as [|x l IH]; intros [|n] b; cbn; try discriminate.
  - intros [= ->]. reflexivity.
  - intros H. apply IH in H. exact H.
Qed.

Lemma skipn_add {A} (l : list A) : forall y x, skipn x (skipn y l) = skipn (y + x) l.
Proof.
  induction l as [|a l IH]; intros y x.
  - rewrite !skipn_nil. reflexivity.
  - destruct y as [|y]; [reflexivity|]. cbn [skipn Nat.add]. apply IH.
Qed.

(* the shape of the body once the length test and the '|' test have passed *)
Lemma body_shape (r6 : str) tl xl : N.of_nat (length r6) >= tl + 1 + xl ->
  nth_error r6 (N.to_nat tl) = Some c_pipe ->
  let title := firstn (N.to_nat tl) r6 in
  let text := firstn (N.to_nat xl) (skipn (N.to_nat (tl + 1)) r6) in
  r6 = title ++ c_pipe :: text ++ skipn (N.to_nat (tl + 1 + xl)) r6 /\
  N.of_nat (length title) = tl /\ N.of_nat (length text) = xl.
Proof.
  intros Hlen Hnth title text.
  assert (E1 : skipn (N.to_nat tl) r6 = c_pipe :: skipn (N.to_nat (tl + 1)) r6).
  { rewrite (skipn_nth r6 _ _ Hnth). f_equal. f_equal. lia. }
  assert (E2 : skipn (N.to_nat (tl + 1 + xl)) r6 = skipn (N.to_nat xl) (skipn (N.to_nat (tl + 1)) r6)).
  { rewrite skipn_add. f_equal. lia. }
  repeat split.
  - rewrite E2. unfold text. rewrite firstn_skipn, <- E1. unfold title. rewrite firstn_skipn. reflexivity.
  - unfold title. rewrite firstn_length. lia.
  - unfold text. rewrite firstn_length, skipn_length. lia.
Qed.

Lemma parse_event_sound r0 dt dx title text attrs :
  parse_event r0 = Some (SEvent dt dx title text attrs) ->
  c_us :: c_e :: r0 = render_event' dt dx title text attrs /\
  wf_event_header dt dx title text /\ (~ In c_nul r0 -> wf_eattrs' attrs).
Proof.
  unfold parse_event.
  destruct (expect c_lbrace r0) as [r1|] eqn:E0; [|discriminate]. apply expect_spec in E0 as ->.
  destruct (parse_num max_uint32 r1) as [[[dt' tl] r2]|] eqn:E1; [|discriminate].
  destruct (expect c_comma r2) as [r3|] eqn:E2; [|discriminate]. apply expect_spec in E2 as ->.
  destruct (parse_num max_uint32 r3) as [[[dx' xl] r4]|] eqn:E3; [|discriminate].
  destruct (expect c_rbrace r4) as [r5|] eqn:E4; [|discriminate]. apply expect_spec in E4 as ->.
  destruct (expect c_colon r5) as [r6|] eqn:E5; [|discriminate]. apply expect_spec in E5 as ->.
  apply parse_num_spec in E1 as (-> & Hdt & Hat & Hlt & _).
  apply parse_num_spec in E3 as (-> & Hdx & Hax & Hlx & _).
  destruct (N.ltb_spec (N.of_nat (length r6)) (tl + 1 + xl)) as [|Hlen]; [discriminate|].
  destruct (nth_error r6 (N.to_nat tl)) as [b|] eqn:Hnth; [|discriminate].
  destruct (N.eqb_spec b c_pipe) as [->|]; [|discriminate]. cbn [negb].
  destruct (body_shape r6 tl xl (proj2 (N.ge_le_iff _ _) Hlen) Hnth) as (Eshape & Et & Ex).
  pose proof (uint_acc_value dt' 0 tl Hat) as Evt. fold (digit_value dt') in Evt.
  pose proof (uint_acc_value dx' 0 xl Hax) as Evx. fold (digit_value dx') in Evx.
  assert (Hhead : forall t x, t = firstn (N.to_nat tl) r6 -> x = firstn (N.to_nat xl) (skipn (N.to_nat (tl + 1)) r6) ->
            wf_event_header dt' dx' t x).
  { intros t x -> ->. unfold wf_event_header. rewrite Et, Ex, <- Evt, <- Evx. auto 10. }
  destruct (skipn (N.to_nat (tl + 1 + xl)) r6) as [|b7 x] eqn:Er7.
  - intros [= <- <- <- <- <-]. split; [|split; [apply Hhead; reflexivity|intros _; exact I]].
    unfold render_event', render_event_digits. rewrite Eshape at 1. cbn [render_eattrs]. reflexivity.
  - destruct (N.eqb_spec b7 c_pipe) as [->|]; [|discriminate].
    destruct (fields_to_eattrs (split_all c_pipe x)) as [attrs'|] eqn:Ef; [|discriminate].
    intros [= <- <- <- <- <-].
    assert (Ex' : c_pipe :: x = concat (map (cons c_pipe) (split_all c_pipe x))).
    { rewrite <- cons_join by apply split_all_nonempty. rewrite join_split_all. reflexivity. }
    split; [|split; [apply Hhead; reflexivity|]].
    + unfold render_event', render_event_digits.
      assert (Er : render_eattrs attrs' = c_pipe :: x); [|rewrite Er, <- Eshape; reflexivity].
      rewrite Ex'.
      (* rendering = the text, needs only that it parsed *)
      clear -Ef. revert attrs' Ef.
      induction (split_all c_pipe x) as [| |g rest IH|b r rest IH] using fields_ind; intros attrs' Ef.
      * injection Ef as <-. reflexivity.
      * injection Ef as <-. reflexivity.
      * cbn [fields_to_eattrs] in Ef. destruct (fields_to_eattrs rest) as [a'|]; [|discriminate].
        injection Ef as <-. cbn [render_eattrs render_eattr map concat app]. rewrite (IH a' eq_refl). reflexivity.
      * cbn [fields_to_eattrs] in Ef. destruct (field_to_eattr b r) as [a|] eqn:Ea; [|discriminate].
        destruct (fields_to_eattrs rest) as [a'|]; [|discriminate]. injection Ef as <-.
        cbn [render_eattrs map concat]. rewrite (IH a' eq_refl). f_equal.
        assert (Er : render_eattr a = b :: r); [|rewrite Er; reflexivity].
        { clear -Ea. unfold field_to_eattr in Ea.
          destruct (N.eqb_spec b c_hash) as [->|Hh]; [injection Ea as <-; cbn; rewrite join_split_all; reflexivity|].
          destruct ((b =? c_d) || is_field_key b) eqn:Ekey; [|injection Ea as <-; reflexivity].
          destruct r as [|c data]; [discriminate|].
          destruct (N.eqb_spec c c_colon) as [->|]; [|discriminate]. cbn [negb] in Ea.
          apply key_byte_cases in Ekey as [-> | [-> | [-> | [-> | [-> | -> ]]]]]; cbn in Ea.
          - destruct (parse_num max_int64 data) as [[[ds v] k]|]; [|discriminate].
            destruct k; [|discriminate]. injection Ea as <-. reflexivity.
          - injection Ea as <-. reflexivity.
          - injection Ea as <-. reflexivity.
          - destruct (str_eqb_spec data str_low) as [->|_]; [injection Ea as <-; reflexivity|].
            destruct (str_eqb_spec data str_normal) as [->|_]; [injection Ea as <-; reflexivity|discriminate].
          - injection Ea as <-. reflexivity.
          - destruct (alert_of data) as [al|] eqn:Eal; [|discriminate]. injection Ea as <-.
            apply alert_of_spec in Eal as ->. reflexivity. }
    + intros Hnul. apply (fields_eattrs_sound _ _ Ef).
      eapply Forall_impl; [|exact (split_all_parts c_pipe x)]. intros f [H1 H2]. split; [exact H1|].
      intros Hf. apply Hnul. right. apply in_or_app; right; right. apply in_or_app; right; right; right.
      assert (Hin : In c_nul (skipn (N.to_nat (tl + 1 + xl)) r6)) by (rewrite Er7; right; auto).
      clear -Hin. revert Hin. generalize (N.to_nat (tl + 1 + xl)). intros n. revert r6.
      induction n as [|n IH]; intros [|y r6]; cbn; auto.
Qed.

Lemma lex_assert_expect c l r : lex_assert c l = Ok r -> expect c l = Some r.
Proof. unfold lex_assert, expect. destruct l as [|b l]; [discriminate|]. destruct (b =? c); [intros [= ->]; reflexivity|discriminate]. Qed.

Lemma skipn_sub {A} (x : A) n : forall l, In x (skipn n l) -> In x l.
Proof. induction n as [|n IH]; intros [|y l]; cbn; auto. Qed.

Lemma lex_assert_ok c l r : lex_assert c l = Ok r -> l = c :: r.
Proof.
  unfold lex_assert. destruct l as [|b l]; [discriminate|].
  destruct (N.eqb_spec b c) as [->|]; [intros [= ->]; reflexivity|discriminate].
Qed.

Lemma parse_event_complete r0 e tags : ~ In c_nul r0 -> event_res r0 = Ok (e, tags) ->
  exists s, parse_event r0 = Some s.
Proof.
  intros Hnul. unfold event_res, parse_event.
  destruct (lex_assert c_lbrace r0) as [r1| |] eqn:E0; [|discriminate..]. cbn [bind].
  rewrite (lex_assert_expect _ _ _ E0). apply lex_assert_ok in E0 as ->.
  assert (Hn1 : ~ In c_nul r1) by (intro; apply Hnul; right; assumption).
  destruct (lex_uint32 r1) as [[tl r2]| |] eqn:E1; [|discriminate..]. cbn [bind].
  destruct (lex_uint32_parse r1 tl r2 Hn1 E1) as [dt Ep1]. rewrite Ep1.
  assert (Hn2 : ~ In c_nul r2).
  { apply parse_num_spec in Ep1 as (-> & _). intro; apply Hn1, in_or_app; right; assumption. }
  destruct (lex_assert c_comma r2) as [r3| |] eqn:E2; [|discriminate..]. cbn [bind].
  rewrite (lex_assert_expect _ _ _ E2). apply lex_assert_ok in E2 as ->.
  assert (Hn3 : ~ In c_nul r3) by (intro; apply Hn2; right; assumption).
  destruct (lex_uint32 r3) as [[xl r4]| |] eqn:E3; [|discriminate..]. cbn [bind].
  destruct (lex_uint32_parse r3 xl r4 Hn3 E3) as [dx Ep3]. rewrite Ep3.
  assert (Hn4 : ~ In c_nul r4).
  { apply parse_num_spec in Ep3 as (-> & _). intro; apply Hn3, in_or_app; right; assumption. }
  destruct (lex_assert c_rbrace r4) as [r5| |] eqn:E4; [|discriminate..]. cbn [bind].
  rewrite (lex_assert_expect _ _ _ E4). apply lex_assert_ok in E4 as ->.
  destruct (lex_assert c_colon r5) as [r6| |] eqn:E5; [|discriminate..]. cbn [bind].
  rewrite (lex_assert_expect _ _ _ E5). apply lex_assert_ok in E5 as ->.
  assert (Hn6 : ~ In c_nul r6) by (intro; apply Hn4; right; right; assumption).
  unfold event_body, index_checked.
  destruct (N.of_nat (length r6) <? tl + 1 + xl); [discriminate|].
  destruct (nth_error r6 (N.to_nat tl)) as [b|]; [|discriminate].
  destruct (negb (b =? c_pipe)); [discriminate|].
  destruct (slice_checked r6 0 tl) as [ttl|]; [|discriminate].
  destruct (slice_checked r6 (tl + 1) (tl + 1 + xl)) as [txt|]; [|discriminate]. cbn [bind].
  assert (Hn7 : ~ In c_nul (skipn (N.to_nat (tl + 1 + xl)) r6)) by (intro H; apply Hn6; eapply skipn_sub; exact H).
  destruct (skipn (N.to_nat (tl + 1 + xl)) r6) as [|b7 x]; [eexists; reflexivity|].
  intros H. cbn [lex_eattrs] in H.
  apply not_in_cons_inv in Hn7 as [Hb7 Hn7].
  destruct (N.eqb_spec b7 c_pipe) as [->|].
  2:{ destruct (N.eqb_spec b7 c_nul); [contradiction|discriminate]. }
  assert (Ex' : c_pipe :: x = concat (map (cons c_pipe) (split_all c_pipe x))).
  { rewrite <- cons_join by apply split_all_nonempty. rewrite join_split_all. reflexivity. }
  change (lex_eattrs EAttr (empty_event ttl (unescape txt)) [] x)
    with (lex_eattrs EAttrs (empty_event ttl (unescape txt)) [] (c_pipe :: x)) in H.
  rewrite Ex' in H.
  destruct (fields_eattrs_complete (split_all c_pipe x)) with (2 := H) as [attrs Ef].
  { eapply Forall_impl; [|exact (split_all_parts c_pipe x)]. intros f [H1 H2]. split; [exact H1|].
    intro; apply Hn7; auto. }
  rewrite Ef. eexists; reflexivity.
Qed.

(* ---------------------------------------------------------------------------------------- *)
(* the converse inclusion for events, and the language theorem *)

Theorem accepted_event_only_grammar pf ns l e : ~ In c_nul l -> lex pf ns l = OEvent e ->
  exists dt dx title text attrs,
    parse_to_spec l = Some (SEvent dt dx title text attrs) /\
    wf_event_header dt dx title text /\ wf_eattrs' attrs /\
    l = render_event' dt dx title text attrs /\
    e = expected_event title text attrs.
Proof.
  intros Hnul Hlex. destruct l as [|b r]; [discriminate|].
  destruct (N.eqb_spec b c_us) as [->|Hu].
  - destruct (lex_event_is pf ns r) as [E|(r0 & -> & E)]; rewrite E in Hlex; [discriminate|].
    destruct (event_res r0) as [[e' tags]| |] eqn:Er; [|discriminate..].
    assert (Hn0 : ~ In c_nul r0) by (intro; apply Hnul; right; right; assumption).
    destruct (parse_event_complete r0 e' tags Hn0 Er) as [s Hs].
    assert (Hshape : exists dt dx title text attrs, s = SEvent dt dx title text attrs).
    { revert Hs. unfold parse_event.
      repeat match goal with
             | |- context [match ?x with _ => _ end] => destruct x; try discriminate
             | |- context [if ?x then _ else _] => destruct x; try discriminate
             end; try (intros [= <-]; eauto 10);
        try (unfold option_map; match goal with |- context [fields_to_eattrs ?y] => destruct (fields_to_eattrs y) end;
             [intros [= <-]; eauto 10|discriminate]). }
    destruct Hshape as (dt & dx & title & text & attrs & ->).
    destruct (parse_event_sound r0 dt dx title text attrs Hs) as (Hr & Hh & Hwf).
    exists dt, dx, title, text, attrs. specialize (Hwf Hn0).
    split; [exact Hs|]. split; [exact Hh|]. split; [exact Hwf|]. split; [exact Hr|].
    assert (E2 : lex pf ns (c_us :: c_e :: r0) = OEvent (expected_event title text attrs)).
    { rewrite Hr. apply grammar_event'; assumption. }
    rewrite E in E2. congruence.
  - exfalso. unfold lex, lex_gen in Hlex. apply N.eqb_neq in Hu. rewrite Hu in Hlex.
    destruct (b =? c_nul); [discriminate|]. unfold lex_metric in Hlex.
    destruct (lex_key_sep (b :: r)) as [[key r1]| |]; [|discriminate..].
    destruct key; [discriminate|].
    destruct (lex_value_sep r1) as [[val r2]| |]; [|discriminate..].
    destruct (lex_type r2) as [[ty r3]| |]; [|discriminate..].
    destruct (lex_mattrs pf MAttrs f64_one [] r3) as [[rate tags]| |]; [|discriminate..].
    unfold finish_metric in Hlex. destruct (negb _); [discriminate|].
    destruct ty; try discriminate;
      (destruct (pf val); [discriminate| |discriminate]; destruct (f64_is_nan _); discriminate).
Qed.

(* parse_to_spec in general: sound for every line, complete for every accepted NUL-free line *)
Theorem parse_to_spec_sound l s : parse_to_spec l = Some s -> render_spec s = l.
Proof.
  unfold parse_to_spec. destruct l as [|b r]; [discriminate|].
  destruct (N.eqb_spec b c_us) as [->|Hu].
  - destruct r as [|b2 r0]; [discriminate|]. destruct (N.eqb_spec b2 c_e) as [->|]; [|discriminate].
    intros H. destruct s as [raw val ty attrs|dt dx title text attrs].
    + exfalso. revert H. unfold parse_event.
      repeat match goal with
             | |- context [match ?x with _ => _ end] => destruct x; try discriminate
             | |- context [if ?x then _ else _] => destruct x; try discriminate
             end;
        try (unfold option_map; match goal with |- context [fields_to_eattrs ?y] => destruct (fields_to_eattrs y) end;
             discriminate).
    + apply parse_event_sound in H as [H _]. symmetry; exact H.
  - intros H. destruct s as [raw val ty attrs|dt dx title text attrs].
    + apply parse_metric_sound in H as [H _]. symmetry; exact H.
    + exfalso. revert H. unfold parse_metric.
      repeat match goal with
             | |- context [match ?x with _ => _ end] => destruct x; try discriminate
             | |- context [if ?x then _ else _] => destruct x; try discriminate
             end.
Qed.

Theorem parse_to_spec_complete pf ns l : ~ In c_nul l ->
  (exists m, lex pf ns l = OMetric m) \/ (exists e, lex pf ns l = OEvent e) ->
  parse_to_spec l <> None.
Proof.
  intros Hn [[m H]|[e H]].
  - destruct (accepted_only_grammar pf ns l m Hn H) as (? & ? & ? & ? & E & _). rewrite E. discriminate.
  - destruct (accepted_event_only_grammar pf ns l e Hn H) as (? & ? & ? & ? & ? & E & _). rewrite E. discriminate.
Qed.

(* {accepted NUL-free lines} = {render_metric' ..} U {render_event' ..}, with the results *)
Theorem language pf ns l : ~ In c_nul l ->
  (forall m, lex pf ns l = OMetric m <->
     exists raw val ty attrs, wf_raw_name raw /\ wf_value val /\ wf_attrs' attrs /\
       l = render_metric' raw val ty attrs /\ expected_metric pf ns raw val ty attrs = OMetric m) /\
  (forall e, lex pf ns l = OEvent e <->
     exists dt dx title text attrs, wf_event_header dt dx title text /\ wf_eattrs' attrs /\
       l = render_event' dt dx title text attrs /\ e = expected_event title text attrs).
Proof.
  intros Hn. split.
  - intros m. split.
    + intros H. destruct (accepted_only_grammar pf ns l m Hn H) as (raw & val & ty & attrs & _ & H1 & H2 & H3 & H4 & H5).
      exists raw, val, ty, attrs. auto.
    + intros (raw & val & ty & attrs & H1 & H2 & H3 & -> & H5).
      rewrite grammar_metric'; assumption.
  - intros e. split.
    + intros H. destruct (accepted_event_only_grammar pf ns l e Hn H) as (dt & dx & title & text & attrs & _ & H1 & H2 & H3 & H4).
      exists dt, dx, title, text, attrs. auto.
    + intros (dt & dx & title & text & attrs & H1 & H2 & -> & ->).
      apply grammar_event'; assumption.
Qed.

(* ---------------------------------------------------------------------------------------- *)
(* quirks of the event grammar *)

(* a numeral is accepted exactly when its decimal value fits in 64 bits, and denotes that value *)
Lemma numeral_value ds : digits ds ->
  (forall v, uint_acc 0 ds = Some v <-> v = digit_value ds /\ digit_value ds <= max_uint64).
Proof.
  intros Hd v. split.
  - intros H. pose proof (uint_acc_value ds 0 v H) as E. fold (digit_value ds) in E. subst v. split; [reflexivity|].
    apply (uint_acc_bound ds Hd 0); [unfold max_uint64; lia|exact H].
  - intros [-> Hle]. apply uint_acc_exact. fold (digit_value ds). unfold max_uint64, two64 in *. lia.
Qed.

(* an empty event field swallows the next one; p:normal and t:info do not reset *)
Lemma quirk_event_empty_field_swallows_next pf ns dt dx title text g attrs :
  wf_event_header dt dx title text -> ~ In c_pipe g -> wf_eattrs' attrs ->
  lex pf ns (render_event' dt dx title text (EAOther (c_pipe :: g) :: attrs)) =
  lex pf ns (render_event' dt dx title text attrs).
Proof.
  intros Hh Hg Hattrs. rewrite !grammar_event'; try assumption; [reflexivity|].
  split; [|exact Hattrs]. cbn. repeat split; try discriminate. exact Hg.
Qed.

Lemma quirk_normal_info_do_not_reset e :
  apply_eattr (apply_eattr e (EAPri true)) (EAPri false) = apply_eattr e (EAPri true) /\
  apply_eattr (apply_eattr e (EAAlert AError)) (EAAlert AInfo) = apply_eattr e (EAAlert AError).
Proof. split; reflexivity. Qed.

(* the quirks in one statement (for Props/C02.v) *)
Theorem quirks (pf : str -> pfres) (ns : str) :
  (forall raw val ty g attrs, wf_raw_name raw -> wf_value val -> ~ In c_pipe g -> wf_attrs' attrs ->
     lex pf ns (render_metric' raw val ty (AOther (c_pipe :: g) :: attrs)) =
     lex pf ns (render_metric' raw val ty attrs)) /\
  (forall raw val ty attrs, wf_raw_name raw -> wf_value val -> Forall wf_attr attrs ->
     lex pf ns (render_metric raw val ty attrs ++ [c_pipe]) = lex pf ns (render_metric raw val ty attrs)) /\
  (forall dt dx title text g attrs, wf_event_header dt dx title text -> ~ In c_pipe g -> wf_eattrs' attrs ->
     lex pf ns (render_event' dt dx title text (EAOther (c_pipe :: g) :: attrs)) =
     lex pf ns (render_event' dt dx title text attrs)) /\
  (forall ds v, Forall (fun b => is_digit b = true) ds ->
     (uint_acc 0 ds = Some v <-> v = digit_value ds /\ digit_value ds <= max_uint64)).
Proof.
  split; [exact (quirk_empty_field_swallows_next pf ns)|]. split; [exact (quirk_trailing_pipe pf ns)|].
  split; [exact (quirk_event_empty_field_swallows_next pf ns)|]. intros ds v Hd. exact (numeral_value ds Hd v).
Qed.

(* Defect D11 (found through the quirk "a date numeral can wrap", repaired in /repo 162b292): the
   lexer before the repair accepts d:21000000000000000000 (2.1e19 > 2^64) as the date
   2553255926290448384 = 2.1e19 - 2^64; the current one rejects the line. *)
Definition d11_line : str :=   (* "_e{1,1}:a|b|d:21000000000000000000" *)
  [95;101;123;49;44;49;125;58;97;124;98;124;100;58;50;49;48;48;48;48;48;48;48;48;48;48;48;48;48;48;48;48;48;48].

Theorem legacy_refuted_uint_wrap (pf : str -> pfres) (ns : str) :
  lex_uint_wrap_legacy pf ns d11_line =
    OEvent {| e_title := [97]; e_text := [98]; e_date := 2553255926290448384; e_host := []; e_key := [];
              e_pri := 0; e_stype := []; e_alert := 0; e_tags := [] |} /\
  lex pf ns d11_line = OReject EOverflow.
Proof. split; vm_compute; reflexivity. Qed.

Theorem documented_subgrammar :
  (forall attrs, Forall wf_attr attrs -> wf_attrs' attrs) /\
  (forall attrs, Forall wf_eattr attrs -> wf_eattrs' attrs) /\
  (forall raw val ty attrs, render_metric' raw val ty attrs = render_metric raw val ty attrs) /\
  (forall dt dx title text attrs, render_event' dt dx title text attrs = render_event_digits dt dx title text attrs).
Proof. split; [exact wf_attrs_sub|]. split; [exact wf_eattrs_sub|]. split; reflexivity. Qed.

Theorem parse_to_spec_correct :
  (forall l s, parse_to_spec l = Some s -> render_spec s = l) /\
  (forall (pf : str -> pfres) (ns l : str), ~ In c_nul l ->
     (exists m, lex pf ns l = OMetric m) \/ (exists e, lex pf ns l = OEvent e) ->
     parse_to_spec l <> None).
Proof. split; [exact parse_to_spec_sound|exact parse_to_spec_complete]. Qed.
