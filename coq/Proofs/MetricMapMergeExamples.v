(* Non-vacuity of the C07 theorems: concrete batches whose merge orders give DIFFERENT maps
   (timer value order, the winner of a gauge tie) that agree under the C07 projection, and a
   consolidator run.  Examples only (vm_compute); nothing here is used by a theorem. *)
From stdpp Require Import gmap gmultiset.
From Coq Require Import QArith Qcanon Lia.
From GS Require Import Base.Bytes Base.LTS Model.Lexer Model.Series Model.MetricMap Model.Content
  Proofs.MetricMapMerge Proofs.MetricMapMergeTree.

Definition one : Z := 4607182418800017408.   (* bits of 1.0 *)
Definition two : Z := 4611686018427387904.   (* bits of 2.0 *)
Definition half : Z := 4602678819172646912.  (* bits of 0.5 *)
Definition nm (c : N) : str := [c].
Definition dp (n : N) (ty : mtype) (v r ts : Z) : datapoint := MkDp (nm n) ty v (nm 120) r [] [] ts.

Definition b1 : mmap := receive_all empty_map [dp 99 Counter two one 100; dp 103 Gauge one one 105; dp 116 Timer one half 100].
Definition b2 : mmap := receive_all empty_map [dp 99 Counter two half 103; dp 103 Gauge two one 105; dp 116 Timer two one 101;
                                               MkDp (nm 115) MSet 0 (nm 121) one [] [] 100].
Definition b3 : mmap := receive_all empty_map [dp 103 Gauge two one 101; dp 116 Timer half one 99; dp 115 MSet 0 one 102].

Definition T1 : mtree := Node (Node (Leaf b1) (Leaf b2)) (Leaf b3).
Definition T2 : mtree := Recv (Node (Leaf b3) (Node (Leaf b2) (Leaf b1))) (dp 103 Gauge one one 90).
Definition T1' : mtree := Recv T1 (dp 103 Gauge one one 90).

Example ex_leaves_perm : leaves T1' ≡ₚ leaves T2.
Proof.
  change (leaves T1') with [b1; b2; b3; singleton (dp 103 Gauge one one 90)].
  change (leaves T2) with [b3; b2; b1; singleton (dp 103 Gauge one one 90)].
  etrans; [apply perm_skip, perm_swap|]. etrans; [apply perm_swap|]. apply perm_skip, perm_swap.
Qed.

Definition kc : skey := (nm 99, []).
Definition kg : skey := (nm 103, []).
Definition kt : skey := (nm 116, []).

(* the two orders give different maps: the gauge tie at timestamp 105 and the timer order *)
Example ex_gauge_differs :
  g_val <$> gauges (eval T1') !! kg = Some one ∧ g_val <$> gauges (eval T2) !! kg = Some two
  ∧ g_ts <$> gauges (eval T1') !! kg = Some 105%Z ∧ g_ts <$> gauges (eval T2) !! kg = Some 105%Z.
Proof. vm_compute. auto. Qed.
Example ex_timer_order_differs :
  t_vals <$> timers (eval T1') !! kt = Some [one; two; half] ∧ t_vals <$> timers (eval T2) !! kt = Some [half; two; one]
  ∧ t_vals <$> timers (eval (Node (Leaf b2) (Leaf b1))) !! kt = Some [two; one].
Proof. vm_compute. auto. Qed.
Example ex_counter_total : c_val <$> counters (eval T2) !! kc = Some 6%Z ∧ series_at counters (leaves T2) kc ≠ [].
Proof. split; [vm_compute; reflexivity|]. vm_compute. discriminate. Qed.
Example ex_timer_samp : t_samp <$> timers (eval T2) !! kt = Some (Q2Qc 4).
Proof. vm_compute. reflexivity. Qed.

(* a consolidator with 2 slots: three deliveries, drained in the other order *)
Definition ex_ops : list slot_op :=
  [SlotMap 1 b1; SlotMetrics 0 [dp 99 Counter two half 103; dp 103 Gauge two one 105]; SlotMap 1 b3; SlotMap 0 b2].
Example ex_slots_run : ∃ s0 s1, run slot_step (slots_init 2) ex_ops = Some [s0; s1] ∧ [s1; s0] ≡ₚ [s0; s1]
  ∧ c_val <$> counters (merge_maps [s1; s0]) !! kc = Some 10%Z.
Proof. eexists _, _. split; [vm_compute; reflexivity|]. split; [apply perm_swap|]. vm_compute. reflexivity. Qed.
(* an index outside the slots is not a step *)
Example ex_slots_stuck : run slot_step (slots_init 2) [SlotMap 2 b1] = None.
Proof. reflexivity. Qed.
