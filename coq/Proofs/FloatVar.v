(* Forward error of the deviation computed by MetricAggregator.Flush (Model/FloatSum.v:
   go_sum_of_diffs, go_variance, go_stddev): a SECOND pass SUM (x_i - mean)^2 with the COMPUTED mean,
   divided by the count, then math.Sqrt.

   (1) |sod - SUM (x_i - c)^2| <= ((1+u)^(n+3) - 1) * SUM (x_i - c)^2,  c = the computed mean:
       relative, because every term is a square of the float that is actually subtracted.
   (2) SUM (x_i - c)^2 = n * Var + n * (m - c)^2  (m the exact mean): the error of the mean enters
       only in second order.
   (3) A bound RELATIVE to the exact variance is impossible ([no_relative_variance_bound]: three equal
       values 0.1 have variance 0 but sumOfDiffs > 0); the bound is absolute, in units of
       max|x|^2 - exactly the scale Corr/C08Single.v uses.
   (4) stddev^2 (what the correspondence compares) is within 1e-9 * Var + 5 * (n u)^2 * max|x|^2 of the
       exact variance for up to 10^6 values ([tolerance_sound_variance]): relative to the variance
       up to the squared error of the mean - the tolerance Corr/C08Single.var_close uses. *)
From Coq Require Import List ZArith Reals Floats Lia Lra.
From Flocq Require Import Core.Core IEEE754.BinarySingleNaN IEEE754.PrimFloat.
From GS Require Import Model.FloatSum.
From GS Require Import Proofs.FloatSumReal.
From GS Require Import Proofs.FloatSumOps.
From GS Require Import Proofs.FloatSum.
Import ListNotations.
Local Open Scope R_scope.

(* ---------------------------------------------------------------------------------------- *)
(* real-number facts about SUM (x - c)^2 *)

Definition rdev (c : R) (l : list R) : R := rsum (map (fun x => (x - c) * (x - c)) l).
Definition rsq (l : list R) : R := rsum (map (fun x => x * x) l).

Lemma rdev_expand c l : rdev c l = rsq l - 2 * c * rsum l + INR (length l) * c * c.
Proof.
  unfold rdev, rsq, rsum. induction l as [|x l IH]; [cbn; lra|].
  cbn [map fold_right length]. rewrite S_INR, IH. ring.
Qed.

Lemma rdev_pos c l : 0 <= rdev c l.
Proof. unfold rdev, rsum. induction l as [|x l IH]; cbn [map fold_right]; [lra|]. pose proof (Rle_0_sqr (x - c)) as H. unfold Rsqr in H. lra. Qed.

(* shifting the centre: the cross term vanishes at the exact mean *)
Lemma rdev_shift c l : (0 < length l)%nat ->
  rdev c l = rdev (rsum l / INR (length l)) l
             + INR (length l) * ((rsum l / INR (length l) - c) * (rsum l / INR (length l) - c)).
Proof.
  intros Hl. rewrite !rdev_expand. assert (Hn : INR (length l) <> 0) by (apply not_0_INR; lia). field. exact Hn.
Qed.

Lemma rdev_mean_le_sq l : (0 < length l)%nat -> rdev (rsum l / INR (length l)) l <= rsq l.
Proof.
  intros Hl. rewrite rdev_expand. assert (Hn : 0 < INR (length l)) by (apply lt_0_INR; lia).
  set (n := INR (length l)) in *. set (s := rsum l).
  replace (rsq l - 2 * (s / n) * s + n * (s / n) * (s / n)) with (rsq l - (s / n) * (s / n) * n) by (field; lra).
  assert (0 <= s / n * (s / n) * n) by (apply Rmult_le_pos; [nra|lra]). lra.
Qed.

Lemma rsq_le M l : Forall (fun x => Rabs x <= M) l -> rsq l <= INR (length l) * (M * M).
Proof.
  unfold rsq, rsum. induction 1 as [|x l Hx _ IH]; [cbn; lra|]. cbn [map fold_right length]. rewrite S_INR.
  assert (x * x <= M * M). { rewrite <- (Rabs_mult_self x) || idtac. pose proof (Rabs_pos x). replace (x * x) with (Rabs x * Rabs x) by (unfold Rabs; destruct (Rcase_abs x); ring). nra. }
  lra.
Qed.

Lemma rabs_sum_le M l : Forall (fun x => Rabs x <= M) l -> rsum (map Rabs l) <= INR (length l) * M.
Proof. unfold rsum. induction 1 as [|x l Hx _ IH]; [cbn; lra|]. cbn [map fold_right length]. rewrite S_INR. lra. Qed.

(* a product of (1 + eps) factors *)
Lemma rel_compose p P e : 1 <= P -> Rabs (p - 1) <= P - 1 -> Rabs e <= u -> Rabs (p * (1 + e) - 1) <= P * (1 + u) - 1.
Proof.
  intros HP Hp He. pose proof u_pos as Hu.
  assert (Hpp : Rabs p <= P). { replace p with ((p - 1) + 1) by ring. eapply Rle_trans; [apply Rabs_triang|]. rewrite Rabs_R1. lra. }
  replace (p * (1 + e) - 1) with ((p - 1) + p * e) by ring.
  eapply Rle_trans; [apply Rabs_triang|]. pose proof (Rabs_prod_le _ _ _ _ Hpp He). lra.
Qed.

(* ---------------------------------------------------------------------------------------- *)
(* sumOfDiffs *)

Definition dev_good (mh x : PrimFloat.float) : Prop :=
  fin x /\ fin (x - mh)%float /\ fin (dev_term mh x) /\ sq_normal (x - mh)%float.

Definition d3 : R := (1 + u) ^ 3 - 1.

Lemma fin_zero : fin 0%float.
Proof. unfold fin, Prim2B. rewrite is_finite_SF2B. reflexivity. Qed.

Lemma dev_term_ok mh : fin mh -> forall x, dev_good mh x ->
  fin (dev_term mh x)
  /\ Rabs ((FR x - FR mh) * (FR x - FR mh)) <= (FR x - FR mh) * (FR x - FR mh)
  /\ Rabs (FR (dev_term mh x) - (FR x - FR mh) * (FR x - FR mh)) <= d3 * ((FR x - FR mh) * (FR x - FR mh)).
Proof.
  intros Fm x (Fx & Fd & Ft & Hn). split; [exact Ft|].
  set (t := FR x - FR mh). assert (Pt : 0 <= t * t) by nra.
  split; [rewrite Rabs_pos_eq by exact Pt; lra|].
  destruct (sub_err x mh Fx Fm Fd) as (e1 & He1 & Hv1). fold t in Hv1.
  unfold dev_term in *. set (dd := (x - mh)%float) in *.
  destruct (mul_err dd dd Fd Fd Ft) as (e2 & He2 & Hv2).
  { destruct Hn as [H0|H]; [left; rewrite H0; ring|right].
    rewrite Rabs_mult. change (-1022)%Z with (-511 + -511)%Z. rewrite bpow_plus.
    apply Rmult_le_compat; try apply bpow_ge_0; exact H. }
  rewrite Hv2, Hv1.
  replace (t * (1 + e1) * (t * (1 + e1)) * (1 + e2) - t * t) with (t * t * ((1 * (1 + e1) * (1 + e1) * (1 + e2)) - 1)) by ring.
  rewrite Rabs_mult, (Rabs_pos_eq _ Pt), Rmult_comm. apply Rmult_le_compat_r; [exact Pt|].
  pose proof u_pos as Hu. unfold d3.
  assert (H0 : Rabs (1 - 1) <= 1 - 1) by (rewrite Rminus_diag_eq, Rabs_R0 by reflexivity; lra).
  pose proof (rel_compose 1 1 e1 (Rle_refl 1) H0 He1) as H1.
  assert (P1 : 1 <= 1 * (1 + u)) by lra.
  pose proof (rel_compose _ _ e1 P1 H1 He1) as H2.
  assert (P2 : 1 <= 1 * (1 + u) * (1 + u)) by nra.
  pose proof (rel_compose _ _ e2 P2 H2 He2) as H3.
  eapply Rle_trans; [exact H3|]. right. ring.
Qed.

Theorem sum_of_diffs_bound xs mh :
  fin mh -> Forall (dev_good mh) xs -> Forall fin (partials (dev_term mh) 0%float xs) ->
  Rabs (FR (go_sum_of_diffs xs mh) - rdev (FR mh) (map FR xs))
    <= ((1 + u) ^ (length xs + 3) - 1) * rdev (FR mh) (map FR xs).
Proof.
  intros Fm Hg Hp. pose proof u_pos as Hu.
  assert (Hd : 0 <= d3) by (unfold d3; pose proof (pow1p_ge1 u 3 Hu); lra).
  pose proof (accumulate_bound (dev_term mh) (fun x => (FR x - FR mh) * (FR x - FR mh))
                (fun x => (FR x - FR mh) * (FR x - FR mh)) (dev_good mh) d3 Hd (dev_term_ok mh Fm)) as G.
  specialize (G xs 0%float 0 0 (1 + d3) fin_zero (Rle_refl _)).
  rewrite FR_zero, Rminus_diag_eq, Rabs_R0 in G by reflexivity.
  specialize (G (Rle_refl 0) ltac:(nra) Hg Hp). rewrite !Rplus_0_l in G.
  unfold go_sum_of_diffs, rdev. rewrite map_map.
  replace ((1 + u) ^ (length xs + 3)) with ((1 + d3) * (1 + u) ^ length xs); [exact G|].
  unfold d3. rewrite pow_add. ring.
Qed.

(* ---------------------------------------------------------------------------------------- *)
(* no bound relative to the exact variance: equal values, variance 0, computed deviation > 0 *)
Set Warnings "-inexact-float".
Example no_relative_variance_bound :
  let xs := [0.1; 0.1; 0.1]%float in
  PrimFloat.eqb (go_mean xs 3) 0.1 = false /\ PrimFloat.ltb 0 (go_sum_of_diffs xs (go_mean xs 3)) = true.
Proof. split; vm_compute; reflexivity. Qed.

(* ---------------------------------------------------------------------------------------- *)
(* variance = sumOfDiffs / count, stddev = sqrt(variance); the correspondence compares stddev^2 *)

Lemma gamma_le k : (Z.of_nat k <= 1000010)%Z -> 0 <= (1 + u) ^ k - 1 <= 2 * 1000010 * u.
Proof.
  intros Hk. pose proof u_pos as Hu. apply IZR_le in Hk. rewrite <- INR_IZR_INZ in Hk. pose proof (pos_INR k) as Pk.
  split; [pose proof (pow1p_ge1 u k Hu); lra|].
  eapply Rle_trans; [apply pow1p_le; [exact Hu|]|]; rewrite u_val in *; nra.
Qed.

Lemma partials_last term : forall r acc, r <> [] -> In (accumulate term acc r) (partials term acc r).
Proof.
  intros r acc Hr. assert (Hl : (length r - 1 < length r)%nat) by (destruct r; [congruence|cbn; lia]).
  pose proof (partials_nth term r acc (length r - 1) Hl) as N.
  replace (S (length r - 1)) with (length r) in N by lia. rewrite firstn_all in N. apply nth_error_In in N. exact N.
Qed.

Lemma fin_go_sum xs : xs <> [] -> Forall fin (go_cumulative xs) -> fin (go_sum xs).
Proof.
  intros Hx Hc. destruct xs as [|x r]; [congruence|]. cbn [go_cumulative go_sum] in *.
  inversion Hc as [|? ? Fx Fr]; subst. destruct r as [|y r]; [exact Fx|].
  rewrite Forall_forall in Fr. apply Fr. apply partials_last. discriminate.
Qed.

Lemma nonempty_in {A} (l : list A) : (0 < length l)%nat -> exists a, In a l.
Proof. destruct l as [|a l]; [cbn; lia|]. exists a. left; reflexivity. Qed.

Lemma go_mean_total_bound' xs count :
  (0 < length xs)%nat -> Forall fin xs -> Forall fin (go_cumulative xs) -> fin count ->
  fin (go_mean xs count) -> FR count <> 0 ->
  FR (go_sum xs) / FR count = 0 \/ bpow radix2 (-1022) <= Rabs (FR (go_sum xs) / FR count) ->
  Rabs (FR (go_mean xs count) - Rsum xs / FR count)
    <= (((1 + u) ^ (length xs - 1) - 1) + u * (1 + ((1 + u) ^ (length xs - 1) - 1))) * (Rsumabs xs / Rabs (FR count)).
Proof.
  intros Hl Hf Hc Fc Fm Hc0 Hq. destruct xs as [|x r]; [cbn in Hl; lia|].
  assert (Fs : fin (go_sum (x :: r))) by (apply fin_go_sum; [discriminate|exact Hc]).
  pose proof (go_mean_total_bound x r count Hf Hc Fs Fc Fm Hc0 Hq) as B. cbv zeta in B.
  cbn [length]. replace (S (length r) - 1)%nat with (length r) by lia. exact B.
Qed.

Section Variance.
  Variable xs : list PrimFloat.float.
  Variable count : PrimFloat.float.                 (* float64(n) *)
  Variable M : R.                                   (* a bound on |x_i|: the scale of the comparison *)
  Local Notation n := (length xs).
  Local Notation mh := (go_mean xs count).            (* the computed mean *)
  Local Notation m := (Rsum xs / INR (length xs)).    (* the exact mean *)
  Definition exact_variance : R := rdev (Rsum xs / INR (length xs)) (map FR xs) / INR (length xs).

  Hypothesis Hn0 : (0 < n)%nat.
  Hypothesis Hn : (Z.of_nat n <= 1000000)%Z.
  Hypothesis Fcount : fin count.
  Hypothesis Hcount : FR count = INR n.
  Hypothesis Hf : Forall fin xs.
  Hypothesis Hcum : Forall fin (go_cumulative xs).
  Hypothesis Fmh : fin mh.
  Hypothesis Hmq : FR (go_sum xs) / FR count = 0 \/ bpow radix2 (-1022) <= Rabs (FR (go_sum xs) / FR count).
  Hypothesis Hgood : Forall (dev_good mh) xs.
  Hypothesis Hpart : Forall fin (partials (dev_term mh) 0%float xs).
  Hypothesis Fvar : fin (go_variance xs count).
  Hypothesis Hvq : FR (go_sum_of_diffs xs mh) / FR count = 0
                   \/ bpow radix2 (-1022) <= Rabs (FR (go_sum_of_diffs xs mh) / FR count).
  Hypothesis HM : Forall (fun x => Rabs (FR x) <= M) xs.

  Local Notation G0 := (2 * 1000010 * u).

  Lemma xs_nonempty : xs <> [].
  Proof. intros E. rewrite E in Hn0. cbn in Hn0. lia. Qed.

  Lemma n_pos : 0 < INR n.
  Proof. apply lt_0_INR. exact Hn0. Qed.

  Lemma M_pos : 0 <= M.
  Proof.
    destruct (nonempty_in xs Hn0) as [x Hx]. rewrite Forall_forall in HM.
    eapply Rle_trans; [apply Rabs_pos|apply (HM x Hx)].
  Qed.

  (* the computed mean is within 2 n u M of the exact one *)
  Lemma mean_close : Rabs (FR mh - m) <= 2 * INR n * u * M.
  Proof.
    pose proof n_pos as Pn. pose proof M_pos as PM. pose proof u_pos as Hu.
    assert (Hc0 : FR count <> 0) by (rewrite Hcount; lra).
    pose proof (go_mean_total_bound' xs count Hn0 Hf Hcum Fcount Fmh Hc0 Hmq) as B.
    rewrite Hcount in B.
    assert (HN : INR n <= 1000000) by (rewrite INR_IZR_INZ; apply IZR_le; exact Hn).
    assert (Hn1 : INR (n - 1) = INR n - 1) by (rewrite minus_INR by lia; reflexivity).
    assert (Hu6 : 2 * 1000000 * u <= 1) by (rewrite u_val; lra).
    pose proof (pow1p_le u (n - 1) Hu ltac:(rewrite Hn1; nra)) as g1. rewrite Hn1 in g1.
    pose proof (pow1p_ge1 u (n - 1) Hu) as g0.
    set (g := (1 + u) ^ (n - 1) - 1) in *.
    assert (HS : Rsumabs xs <= INR n * M).
    { unfold Rsumabs. rewrite <- (map_map FR Rabs). pose proof (rabs_sum_le M (map FR xs)) as Q.
      rewrite map_length in Q. apply Q. rewrite Forall_map. exact HM. }
    rewrite (Rabs_pos_eq (INR n)) in B by lra.
    pose proof (Rsumabs_pos xs) as PS.
    assert (HSn : Rsumabs xs / INR n <= M).
    { apply Rmult_le_reg_r with (INR n); [exact Pn|]. unfold Rdiv. rewrite Rmult_assoc, Rinv_l by lra. lra. }
    assert (PSn : 0 <= Rsumabs xs / INR n) by (apply Rmult_le_pos; [exact PS|apply Rlt_le, Rinv_0_lt_compat; exact Pn]).
    eapply Rle_trans; [exact B|].
    assert (Hg1 : g <= 1) by nra.
    assert (Hc : g + u * (1 + g) <= 2 * INR n * u) by nra.
    apply Rle_trans with ((2 * INR n * u) * (Rsumabs xs / INR n)); [apply Rmult_le_compat_r; assumption|].
    assert (0 <= 2 * INR n * u) by nra. nra.
  Qed.

  Lemma variance_le : 0 <= exact_variance <= M * M.
  Proof.
    pose proof n_pos as Pn. unfold exact_variance.
    assert (Hl : (0 < length (map FR xs))%nat) by (rewrite map_length; exact Hn0).
    pose proof (rdev_mean_le_sq (map FR xs) Hl) as H1. rewrite map_length in H1.
    pose proof (rsq_le M (map FR xs)) as H2. rewrite map_length in H2.
    specialize (H2 ltac:(rewrite Forall_map; exact HM)).
    pose proof (rdev_pos (Rsum xs / INR n) (map FR xs)) as H0.
    unfold Rsum in *. split.
    - apply Rmult_le_pos; [exact H0|apply Rlt_le, Rinv_0_lt_compat; exact Pn].
    - apply Rmult_le_reg_r with (INR n); [exact Pn|]. unfold Rdiv. rewrite Rmult_assoc, Rinv_l by lra. lra.
  Qed.

  Theorem tolerance_sound_variance :
    Rabs (FR (go_stddev xs count) * FR (go_stddev xs count) - exact_variance)
      <= / 1000000000 * exact_variance + 5 * ((INR n * u) * (INR n * u)) * (M * M).
  Proof.
    pose proof n_pos as Pn. pose proof M_pos as PM. pose proof u_pos as Hu. pose proof mean_close as Hm.
    pose proof variance_le as [V0 V1]. pose proof xs_nonempty as Hx.
    assert (Hc0 : FR count <> 0) by (rewrite Hcount; lra).
    (* sumOfDiffs *)
    pose proof (sum_of_diffs_bound xs mh Fmh Hgood Hpart) as Bs.
    destruct (gamma_le (length xs + 3) ltac:(lia)) as [_ Hg3].
    assert (Fsod : fin (go_sum_of_diffs xs mh)).
    { rewrite Forall_forall in Hpart. apply Hpart. apply partials_last. exact Hx. }
    assert (Hl : (0 < length (map FR xs))%nat) by (rewrite map_length; exact Hn0).
    pose proof (rdev_shift (FR mh) (map FR xs) Hl) as Sh. rewrite map_length in Sh.
    change (rsum (map FR xs)) with (Rsum xs) in Sh.
    set (D := rdev (FR mh) (map FR xs)) in *. set (sod := FR (go_sum_of_diffs xs mh)) in *.
    assert (HV : rdev m (map FR xs) = INR n * exact_variance).
    { unfold exact_variance. field. lra. }
    rewrite HV in Sh. set (Var := exact_variance) in *.
    set (e2 := (m - FR mh) * (m - FR mh)) in *.
    assert (He2 : 0 <= e2 <= 4 * ((INR n * u) * (INR n * u)) * (M * M)).
    { unfold e2. split; [apply Rle_0_sqr|]. rewrite Rabs_minus_sym in Hm. assert (0 <= INR n * u) by nra.
      replace ((m - FR mh) * (m - FR mh)) with (Rabs (m - FR mh) * Rabs (m - FR mh)) by (unfold Rabs; destruct (Rcase_abs (m - FR mh)); ring).
      pose proof (Rabs_pos (m - FR mh)). nra. }
    (* variance = sod / count *)
    unfold go_stddev.
    destruct (div_err _ _ Fsod Fcount Fvar Hc0 Hvq) as (ed & Hed & Hvd).
    change (go_sum_of_diffs xs mh / count)%float with (go_variance xs count) in Hvd.
    rewrite Hcount in Hvd, Hvq. fold sod in Hvd, Hvq.
    set (q := sod / INR n) in *. set (W := Var + e2).
    assert (HqW : Rabs (q - W) <= G0 * W).
    { unfold q, W. replace (sod / INR n - (Var + e2)) with ((sod - D) / INR n) by (rewrite Sh; field; lra).
      unfold Rdiv. rewrite Rabs_mult, Rabs_inv, (Rabs_pos_eq (INR n)) by lra.
      apply Rmult_le_reg_r with (INR n); [exact Pn|]. rewrite Rmult_assoc, Rinv_l, Rmult_1_r by lra.
      eapply Rle_trans; [exact Bs|]. rewrite Sh. assert (0 <= INR n * Var + INR n * e2) by nra. nra. }
    assert (G0s : 0 <= G0 <= 23 / 100000000000) by (rewrite u_val; lra).
    assert (us : u <= 12 / 100000000000000000) by (rewrite u_val; lra).
    assert (W0 : 0 <= W) by (unfold W; lra).
    apply Rabs_le_inv in HqW.
    assert (q0 : 0 <= q) by nra.
    set (v := FR (go_variance xs count)) in *.
    assert (Hvq' : Rabs (v - q) <= u * q).
    { rewrite Hvd. replace (q * (1 + ed) - q) with (q * ed) by ring. rewrite Rabs_mult, (Rabs_pos_eq q q0), Rmult_comm.
      apply Rmult_le_compat_r; assumption. }
    apply Rabs_le_inv in Hvq'.
    assert (v0 : 0 <= v) by nra.
    (* stddev = sqrt(variance) *)
    assert (Hsq : exists es, Rabs es <= u /\ FR (PrimFloat.sqrt (go_variance xs count)) = R_sqrt.sqrt v * (1 + es)).
    { unfold FR. rewrite sqrt_equiv. destruct (Bsqrt_correct prec emax Hprec Hmax mode_NE (Prim2B (go_variance xs count))) as (H1 & _).
      rewrite H1. change (round_mode mode_NE) with ZnearestE. fold (FR (go_variance xs count)). fold v.
      apply rnd_rel. destruct Hvq as [Hq0|Hqn].
      - left. assert (v = 0) by (rewrite Hvd; fold q; rewrite Hq0; ring). rewrite H. apply sqrt_0.
      - right. rewrite (Rabs_pos_eq _ (sqrt_pos v)).
        assert (Hb : bpow radix2 (-1022) * bpow radix2 (-1022) <= v).
        { rewrite (Rabs_pos_eq q q0) in Hqn. assert (bpow radix2 (-1022) <= / 2) by (apply (bpow_le radix2 (-1022) (-1)); lia).
          pose proof (bpow_gt_0 radix2 (-1022)). nra. }
        rewrite <- (sqrt_square (bpow radix2 (-1022))) by apply bpow_ge_0. apply sqrt_le_1_alt. exact Hb. }
    destruct Hsq as (es & Hes & Hs). rewrite Hs.
    replace (R_sqrt.sqrt v * (1 + es) * (R_sqrt.sqrt v * (1 + es))) with ((R_sqrt.sqrt v * R_sqrt.sqrt v) * ((1 + es) * (1 + es))) by ring.
    rewrite (sqrt_sqrt v v0).
    assert (Hsv : Rabs (v * ((1 + es) * (1 + es)) - v) <= 3 * u * v).
    { replace (v * ((1 + es) * (1 + es)) - v) with (v * (es * (2 + es))) by ring.
      rewrite Rabs_mult, (Rabs_pos_eq v v0), Rmult_comm. apply Rmult_le_compat_r; [exact v0|].
      rewrite Rabs_mult. apply Rabs_le_inv in Hes.
      assert (Rabs (2 + es) <= 3) by (apply Rabs_le; lra). pose proof (Rabs_pos es). pose proof (Rabs_pos (2 + es)).
      assert (Rabs es <= u) by (apply Rabs_le; lra). nra. }
    apply Rabs_le_inv in Hsv. apply Rabs_le.
    assert (P0 : 0 <= M * M) by nra. unfold W in *.
    destruct He2 as [e20 e21]. destruct G0s as [G00 G01]. destruct HqW as [HqW1 HqW2].
    destruct Hvq' as [Hvq1 Hvq2]. destruct Hsv as [Hsv1 Hsv2].
    set (s2 := v * ((1 + es) * (1 + es))) in *. set (P := M * M) in *. set (GG := 2 * 1000010 * u) in *.
    set (E := (INR n * u) * (INR n * u) * P) in *.
    assert (E0 : 0 <= E) by (unfold E; apply Rmult_le_pos; [apply Rle_0_sqr|exact P0]).
    assert (e2E : e2 <= 4 * E) by (unfold E; lra).
    assert (HW1 : GG * (Var + e2) <= 23 / 100000000000 * (Var + e2)) by nra.
    assert (Hq1 : u * q <= 12 / 100000000000000000 * q) by nra.
    assert (Hv1 : 3 * u * v <= 36 / 100000000000000000 * v) by nra.
    replace (5 * (INR n * u * (INR n * u)) * P) with (5 * E) by (unfold E; ring).
    split; lra.
  Qed.
End Variance.
