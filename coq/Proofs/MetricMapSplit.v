(* MetricMap.split is a deterministic partition of the series of a map (C06).
   Generic part over one typed sub-map [gmap skey V], then the four-typed record. *)
From stdpp Require Import gmap.
From GS Require Import Base.Bytes Model.Lexer Model.Series Model.MetricMap Proofs.Series.

(* ---- spec vocabulary used by the statements of Props/C06.v ---- *)

(* the shard index of a series for [n] shards: a function of (name, tags key, n) only *)
Definition shard_index (n : nat) (k : skey) : nat := N.to_nat (bucket (fst k) (snd k) (N.of_nat n)).

(* a map holds the series [k] (as a counter, timer, gauge or set) *)
Definition series_in (m : mmap) (k : skey) : Prop :=
  is_Some (counters m !! k) ∨ is_Some (timers m !! k) ∨ is_Some (gauges m !! k) ∨ is_Some (sets m !! k).

(* all four typed cells of a series at once *)
Definition cells (m : mmap) (k : skey) : option counter * option timer * option gauge * option mset :=
  (counters m !! k, timers m !! k, gauges m !! k, sets m !! k).
Definition no_cells : option counter * option timer * option gauge * option mset := (None, None, None, None).

Lemma mmap_eq (a b : mmap) :
  counters a = counters b → timers a = timers b → gauges a = gauges b → sets a = sets b → a = b.
Proof. destruct a, b; cbn; congruence. Qed.

Lemma mmap_cells_eq (a b : mmap) : (∀ k, cells a k = cells b k) → a = b.
Proof.
  intros H; apply mmap_eq; apply map_eq; intros k; specialize (H k); unfold cells in H; congruence.
Qed.

Lemma shard_index_lt n k : n ≠ 0%nat → (shard_index n k < n)%nat.
Proof.
  intros Hn; unfold shard_index.
  pose proof (bucket_range (fst k) (snd k) (N.of_nat n)) as H. lia.
Qed.

Lemma in_shard_index n i k : (i < n)%nat → in_shard (N.of_nat n) (N.of_nat i) k = bool_decide (shard_index n k = i).
Proof.
  intros Hi; unfold in_shard, shard_index.
  pose proof (bucket_range (fst k) (snd k) (N.of_nat n)) as H.
  destruct (N.eqb_spec (bucket k.1 k.2 (N.of_nat n)) (N.of_nat i)) as [E|E]; symmetry.
  - apply bool_decide_eq_true; lia.
  - apply bool_decide_eq_false; lia.
Qed.

Lemma split_fmap n m : split n m = (λ i, shard_of (N.of_nat n) (N.of_nat i) m) <$> seq 0 n.
Proof. reflexivity. Qed.

Lemma split_length n m : length (split n m) = n.
Proof. rewrite split_fmap, fmap_length, seq_length; reflexivity. Qed.

Lemma split_lookup_Some n m i :
  (i < n)%nat → split n m !! i = Some (shard_of (N.of_nat n) (N.of_nat i) m).
Proof. intros Hi; rewrite split_fmap, list_lookup_fmap, lookup_seq_lt by exact Hi; reflexivity. Qed.

Lemma split_lookup_inv n m i s :
  split n m !! i = Some s → (i < n)%nat ∧ s = shard_of (N.of_nat n) (N.of_nat i) m.
Proof.
  intros H. assert (Hi : (i < n)%nat).
  { apply lookup_lt_Some in H; rewrite split_length in H; exact H. }
  rewrite split_lookup_Some in H by exact Hi; split; congruence.
Qed.

(* ---------------------------------------------------------------------------------------- *)
Section generic.
  Context {V : Type}.
  Implicit Types (m : gmap skey V) (k : skey).

  Definition gshard (n i : N) m : gmap skey V := base.filter (λ kv, in_shard n i (fst kv) = true) m.

  Lemma gshard_lookup n i m k : gshard n i m !! k = if in_shard n i k then m !! k else None.
  Proof.
    unfold gshard; destruct (in_shard n i k) eqn:E.
    - destruct (m !! k) as [v|] eqn:Hk.
      + apply map_filter_lookup_Some; split; [exact Hk|exact E].
      + apply map_filter_lookup_None; left; exact Hk.
    - apply map_filter_lookup_None; right; intros v _ H; cbn in H; congruence.
  Qed.

  Definition gsplit (n : nat) m : list (gmap skey V) :=
    (λ i, gshard (N.of_nat n) (N.of_nat i) m) <$> seq 0 n.

  Lemma gsplit_lookup n m i k :
    (i < n)%nat →
    (gsplit n m !! i) ≫= (λ s, s !! k) = if bool_decide (shard_index n k = i) then m !! k else None.
  Proof.
    intros Hi; unfold gsplit; rewrite list_lookup_fmap, lookup_seq_lt by exact Hi; cbn.
    rewrite gshard_lookup, in_shard_index by exact Hi; reflexivity.
  Qed.

  (* the column of cells for one key across the shards: None everywhere except at the
     shard index, where it is the cell of [m] *)
  Lemma gsplit_column n m k :
    n ≠ 0%nat →
    (λ s : gmap skey V, s !! k) <$> gsplit n m
    = replicate (shard_index n k) None ++ m !! k :: replicate (n - S (shard_index n k)) None.
  Proof.
    intros Hn. pose proof (shard_index_lt n k Hn) as Hlt.
    apply list_eq; intros i. rewrite list_lookup_fmap.
    destruct (decide (i < n)%nat) as [Hi|Hi].
    - unfold gsplit; rewrite list_lookup_fmap, lookup_seq_lt by exact Hi; cbn.
      rewrite gshard_lookup, in_shard_index by exact Hi.
      destruct (decide (i < shard_index n k)%nat) as [Hl|Hl].
      + rewrite lookup_app_l by (rewrite replicate_length; exact Hl).
        rewrite lookup_replicate_2 by exact Hl. rewrite bool_decide_eq_false_2 by lia; reflexivity.
      + rewrite lookup_app_r by (rewrite replicate_length; lia). rewrite replicate_length.
        destruct (decide (i = shard_index n k)) as [->|Hne].
        * rewrite Nat.sub_diag, bool_decide_eq_true_2 by reflexivity; reflexivity.
        * rewrite bool_decide_eq_false_2 by lia.
          rewrite lookup_cons_ne_0 by lia. rewrite lookup_replicate_2 by lia; reflexivity.
    - rewrite (lookup_ge_None_2 (gsplit n m)) by (unfold gsplit; rewrite fmap_length, seq_length; lia).
      cbn. symmetry; apply lookup_ge_None_2.
      rewrite app_length, replicate_length; cbn; rewrite replicate_length; lia.
  Qed.

  (* folding a pointwise merge over the shards, in any order, gives back the map *)
  Variable f : V → V → option V.

  Lemma ofold_None (os : list (option V)) (acc : option V) :
    Forall (λ o, o = None) os → fold_left (union_with f) os acc = acc.
  Proof.
    intros H; revert acc; induction H as [|o os -> _ IH]; intros acc; cbn; [reflexivity|].
    rewrite IH; destruct acc; reflexivity.
  Qed.

  Lemma ofold_single (os : list (option V)) l1 l2 x :
    os ≡ₚ l1 ++ x :: l2 → Forall (λ o, o = None) l1 → Forall (λ o, o = None) l2 →
    fold_left (union_with f) os None = x.
  Proof.
    intros HP H1 H2. destruct x as [v|].
    - assert (Hin : Some v ∈ os) by (rewrite HP; set_solver).
      apply elem_of_list_split in Hin; destruct Hin as (a & b & ->).
      apply Permutation_app_inv in HP.
      assert (Hab : Forall (λ o, o = None) (a ++ b)).
      { rewrite HP; apply Forall_app; split; assumption. }
      apply Forall_app in Hab; destruct Hab as [Ha Hb].
      rewrite fold_left_app; cbn. rewrite (ofold_None a) by exact Ha; cbn.
      apply ofold_None; exact Hb.
    - apply ofold_None. rewrite HP. apply Forall_app; split; [assumption|constructor; auto].
  Qed.

  Lemma gfold_lookup (l : list (gmap skey V)) (acc : gmap skey V) k :
    fold_left (union_with f) l acc !! k = fold_left (union_with f) ((λ s, s !! k) <$> l) (acc !! k).
  Proof.
    revert acc; induction l as [|s l IH]; intros acc; cbn; [reflexivity|].
    rewrite IH, lookup_union_with; reflexivity.
  Qed.

  Lemma gmerge_split_perm (n : nat) m (l : list (gmap skey V)) :
    n ≠ 0%nat → l ≡ₚ gsplit n m → fold_left (union_with f) l ∅ = m.
  Proof.
    intros Hn HP; apply map_eq; intros k.
    rewrite gfold_lookup, lookup_empty.
    eapply ofold_single.
    - rewrite HP, gsplit_column by exact Hn; reflexivity.
    - apply Forall_replicate; reflexivity.
    - apply Forall_replicate; reflexivity.
  Qed.

End generic.

Section loop.
  Context {V : Type}.
  Implicit Types (m : gmap skey V) (k : skey).
  (* Implementation-shaped Split: Go iterates the map in an unspecified order and stores every
     entry into maps[Bucket(name, key, count)].  [place] is one such store; an index outside
     the slice is the Go index panic (None). *)
  Definition place (n : nat) (acc : list (gmap skey V)) (kv : skey * V) : option (list (gmap skey V)) :=
    let i := shard_index n (fst kv) in
    match acc !! i with
    | Some s => Some (<[i := <[fst kv := snd kv]> s]> acc)
    | None => None
    end.

  Definition gsplit_loop (n : nat) (es : list (skey * V)) : option (list (gmap skey V)) :=
    foldl (λ acc kv, acc ≫= λ a, place n a kv) (Some (replicate n ∅)) es.

  Definition shards_of_list (n : nat) (es : list (skey * V)) (acc : list (gmap skey V)) : Prop :=
    length acc = n ∧
    ∀ i k, (i < n)%nat →
      (acc !! i) ≫= (λ s, s !! k)
      = if bool_decide (shard_index n k = i) then (list_to_map es : gmap skey V) !! k else None.

  Lemma gsplit_loop_spec n es :
    n ≠ 0%nat → base.NoDup (fst <$> es) →
    ∃ acc, gsplit_loop n es = Some acc ∧ shards_of_list n es acc.
  Proof.
    intros Hn. unfold gsplit_loop.
    induction es as [|[k v] es IH] using rev_ind; intros Hnd.
    - exists (replicate n ∅); split; [reflexivity|]. split; [apply replicate_length|].
      intros i k Hi; rewrite lookup_replicate_2 by exact Hi; cbn.
      rewrite !lookup_empty; destruct (bool_decide _); reflexivity.
    - rewrite fmap_app in Hnd; apply NoDup_app in Hnd; destruct Hnd as (Hnd & Hfresh & _).
      destruct (IH Hnd) as (acc & Hacc & Hlen & Hsp).
      rewrite foldl_app; cbn. rewrite Hacc; cbn. unfold place; cbn.
      pose proof (shard_index_lt n k Hn) as Hlt.
      destruct (acc !! shard_index n k) as [s|] eqn:Hs;
        [|apply lookup_ge_None in Hs; lia].
      eexists; split; [reflexivity|]. split; [rewrite insert_length; exact Hlen|].
      intros i k' Hi.
      assert (Hk : (list_to_map (es ++ [(k, v)]) : gmap skey V) !! k'
                   = if decide (k = k') then Some v else (list_to_map es : gmap skey V) !! k').
      { rewrite list_to_map_app. destruct (decide (k = k')) as [<-|Hne].
        - rewrite lookup_union_r.
          + cbn; apply lookup_insert.
          + apply not_elem_of_list_to_map_1. intros Hin; apply (Hfresh k Hin); cbn; set_solver.
        - rewrite lookup_union_l; [reflexivity|].
          cbn; rewrite lookup_insert_ne by exact Hne; apply lookup_empty. }
      rewrite Hk.
      destruct (decide (i = shard_index n k)) as [->|Hne].
      + rewrite list_lookup_insert by lia; cbn.
        destruct (decide (k = k')) as [<-|Hkk].
        * rewrite lookup_insert, bool_decide_eq_true_2 by reflexivity; reflexivity.
        * rewrite lookup_insert_ne by exact Hkk.
          specialize (Hsp (shard_index n k) k' Hlt). rewrite Hs in Hsp; exact Hsp.
      + rewrite list_lookup_insert_ne by congruence.
        rewrite (Hsp i k' Hi).
        destruct (decide (k = k')) as [<-|Hkk]; [|reflexivity].
        rewrite bool_decide_eq_false_2 by congruence; reflexivity.
  Qed.

  (* whatever order Go's map iteration produces, the loop computes [gsplit] *)
  Lemma gsplit_loop_any_order n m (es : list (skey * V)) :
    n ≠ 0%nat → es ≡ₚ map_to_list m → gsplit_loop n es = Some (gsplit n m).
  Proof.
    intros Hn HP.
    assert (Hnd : base.NoDup (fst <$> es)) by (rewrite HP; apply NoDup_fst_map_to_list).
    destruct (gsplit_loop_spec n es Hn Hnd) as (acc & -> & Hlen & Hsp). f_equal.
    assert (Hm : (list_to_map es : gmap skey V) = m).
    { rewrite (list_to_map_proper es (map_to_list m) Hnd HP). apply list_to_map_to_list. }
    apply list_eq_same_length with n; [unfold gsplit; rewrite fmap_length, seq_length; reflexivity|exact Hlen|].
    intros i s s' Hi Hs Hs'. apply map_eq; intros k.
    pose proof (Hsp i k Hi) as H1. pose proof (gsplit_lookup n m i k Hi) as H2.
    rewrite Hs in H1; rewrite Hs' in H2; cbn in H1, H2. rewrite H1, H2, Hm; reflexivity.
  Qed.
End loop.

(* ---------------------------------------------------------------------------------------- *)
(* the four-typed record *)

Lemma shard_of_gshard n i m :
  shard_of n i m = MkMap (gshard n i (counters m)) (gshard n i (timers m)) (gshard n i (gauges m)) (gshard n i (sets m)).
Proof. reflexivity. Qed.

Lemma split_proj_counters n m : counters <$> split n m = gsplit n (counters m).
Proof. rewrite split_fmap; unfold gsplit; rewrite <- list_fmap_compose; reflexivity. Qed.
Lemma split_proj_timers n m : timers <$> split n m = gsplit n (timers m).
Proof. rewrite split_fmap; unfold gsplit; rewrite <- list_fmap_compose; reflexivity. Qed.
Lemma split_proj_gauges n m : gauges <$> split n m = gsplit n (gauges m).
Proof. rewrite split_fmap; unfold gsplit; rewrite <- list_fmap_compose; reflexivity. Qed.
Lemma split_proj_sets n m : sets <$> split n m = gsplit n (sets m).
Proof. rewrite split_fmap; unfold gsplit; rewrite <- list_fmap_compose; reflexivity. Qed.

(* C06_split_lookup *)
Lemma split_lookup n m i k :
  (i < n)%nat →
  ∃ s, split n m !! i = Some s ∧
       cells s k = if bool_decide (shard_index n k = i) then cells m k else no_cells.
Proof.
  intros Hi; eexists; split; [apply split_lookup_Some; exact Hi|].
  rewrite shard_of_gshard; unfold cells; cbn [counters timers gauges sets].
  rewrite !gshard_lookup, in_shard_index by exact Hi.
  destruct (bool_decide _); reflexivity.
Qed.

(* the same with the vocabulary unfolded: one equation per metric type *)
Lemma split_lookup_explicit (n : nat) (m : mmap) (i : nat) (k : skey) :
  (i < n)%nat →
  ∃ s, split n m !! i = Some s ∧
    let here := bool_decide (N.to_nat (bucket (fst k) (snd k) (N.of_nat n)) = i) in
    counters s !! k = (if here then counters m !! k else None) ∧
    timers s !! k = (if here then timers m !! k else None) ∧
    gauges s !! k = (if here then gauges m !! k else None) ∧
    sets s !! k = (if here then sets m !! k else None).
Proof.
  intros Hi. destruct (split_lookup n m i k Hi) as (s & Hs & Hc). exists s; split; [exact Hs|].
  cbn zeta. unfold cells, no_cells, shard_index in Hc.
  destruct (bool_decide _); inversion Hc; auto.
Qed.

Lemma shard_index_unfold n k : shard_index n k = N.to_nat (bucket (fst k) (snd k) (N.of_nat n)).
Proof. reflexivity. Qed.
Lemma series_in_unfold m k :
  series_in m k ↔ is_Some (counters m !! k) ∨ is_Some (timers m !! k) ∨ is_Some (gauges m !! k) ∨ is_Some (sets m !! k).
Proof. reflexivity. Qed.
Lemma cells_unfold m k : cells m k = (counters m !! k, timers m !! k, gauges m !! k, sets m !! k).
Proof. reflexivity. Qed.

Lemma split_cells n m i s k :
  split n m !! i = Some s →
  cells s k = if bool_decide (shard_index n k = i) then cells m k else no_cells.
Proof.
  intros Hs. destruct (split_lookup_inv _ _ _ _ Hs) as [Hi _].
  destruct (split_lookup n m i k Hi) as (s' & Hs' & Hc). congruence.
Qed.

Lemma series_in_cells m k : series_in m k ↔ cells m k ≠ no_cells.
Proof.
  unfold series_in, cells, no_cells; split.
  - intros [[? H]|[[? H]|[[? H]|[? H]]]]; rewrite H; congruence.
  - intros H. destruct (counters m !! k); [left; eauto|]. destruct (timers m !! k); [right; left; eauto|].
    destruct (gauges m !! k); [right; right; left; eauto|]. destruct (sets m !! k); [right; right; right; eauto|].
    congruence.
Qed.

(* every key of shard i has bucket i, and came from m *)
Lemma split_series_in n m i s k :
  split n m !! i = Some s → (series_in s k ↔ series_in m k ∧ shard_index n k = i).
Proof.
  intros Hs. rewrite !series_in_cells, (split_cells _ _ _ _ k Hs).
  destruct (bool_decide_reflect (shard_index n k = i)); intuition congruence.
Qed.

Lemma split_shard_keys n m i s k : split n m !! i = Some s → series_in s k → shard_index n k = i.
Proof. intros Hs Hk; apply (split_series_in _ _ _ _ k Hs) in Hk; tauto. Qed.

(* C06_split_disjoint: a series of the batch is in the shard of its index and in no other *)
Lemma split_exactly_one n m k :
  n ≠ 0%nat → series_in m k →
  ∃ s, split n m !! shard_index n k = Some s ∧ cells s k = cells m k ∧
       ∀ j s', split n m !! j = Some s' → series_in s' k → j = shard_index n k.
Proof.
  intros Hn Hk. pose proof (shard_index_lt n k Hn) as Hlt.
  destruct (split_lookup n m _ k Hlt) as (s & Hs & Hc).
  rewrite bool_decide_eq_true_2 in Hc by reflexivity.
  exists s; repeat split; try assumption.
  intros j s' Hs' Hin; symmetry; eapply split_shard_keys; eassumption.
Qed.

Lemma split_disjoint n m i j si sj k :
  split n m !! i = Some si → split n m !! j = Some sj → series_in si k → series_in sj k → i = j.
Proof.
  intros Hi Hj Ki Kj.
  rewrite <- (split_shard_keys _ _ _ _ _ Hi Ki); eapply split_shard_keys; eassumption.
Qed.

(* C06_stable_across_batches *)
Lemma split_stable n m1 m2 i1 i2 s1 s2 k :
  split n m1 !! i1 = Some s1 → split n m2 !! i2 = Some s2 → series_in s1 k → series_in s2 k → i1 = i2.
Proof.
  intros H1 H2 K1 K2.
  rewrite <- (split_shard_keys _ _ _ _ _ H1 K1); eapply split_shard_keys; eassumption.
Qed.

(* merging the shards (MergeMaps) in any order gives back the batch, every field untouched *)
Lemma fold_merge_proj (l : list mmap) acc :
  counters (fold_left merge l acc) = fold_left (union_with (λ a b, Some (merge_counter a b))) (counters <$> l) (counters acc)
  ∧ timers (fold_left merge l acc) = fold_left (union_with (λ a b, Some (merge_timer a b))) (timers <$> l) (timers acc)
  ∧ gauges (fold_left merge l acc) = fold_left (union_with (λ a b, Some (merge_gauge a b))) (gauges <$> l) (gauges acc)
  ∧ sets (fold_left merge l acc) = fold_left (union_with (λ a b, Some (merge_set a b))) (sets <$> l) (sets acc).
Proof. revert acc; induction l as [|s l IH]; intros acc; cbn; [auto|apply IH]. Qed.

Lemma merge_maps_split_perm n m l : n ≠ 0%nat → l ≡ₚ split n m → merge_maps l = m.
Proof.
  intros Hn HP; unfold merge_maps.
  destruct (fold_merge_proj l empty_map) as (Hc & Ht & Hg & Hs).
  apply mmap_eq; [rewrite Hc|rewrite Ht|rewrite Hg|rewrite Hs]; cbn [empty_map counters timers gauges sets];
    apply (gmerge_split_perm _ n); try exact Hn.
  - rewrite HP, split_proj_counters; reflexivity.
  - rewrite HP, split_proj_timers; reflexivity.
  - rewrite HP, split_proj_gauges; reflexivity.
  - rewrite HP, split_proj_sets; reflexivity.
Qed.

Lemma merge_maps_split n m : n ≠ 0%nat → merge_maps (split n m) = m.
Proof. intros Hn; apply (merge_maps_split_perm n); [exact Hn|reflexivity]. Qed.

(* ---------------------------------------------------------------------------------------- *)
(* datapoints: the shard that ends up holding a datapoint depends on name, tags (as a multiset)
   and source only — not on type, value, rate, timestamp, or on the rest of the batch *)

Lemma receive_series_in m d : series_in (receive m d) (dp_key d).
Proof.
  unfold series_in, receive; destruct (dp_type d); cbn [counters timers gauges sets];
    rewrite lookup_insert; eauto.
Qed.

Lemma dp_key_perm d1 d2 :
  dp_name d1 = dp_name d2 → dp_src d1 = dp_src d2 → dp_tags d1 ≡ₚ dp_tags d2 → dp_key d1 = dp_key d2.
Proof. intros Hn Hs Ht; unfold dp_key; rewrite Hn, Hs, (tags_key_perm _ _ _ Ht); reflexivity. Qed.

Lemma datapoint_shard n m d i s :
  split n (receive m d) !! i = Some s → (series_in s (dp_key d) ↔ i = shard_index n (dp_key d)).
Proof.
  intros Hs. rewrite (split_series_in _ _ _ _ (dp_key d) Hs).
  pose proof (receive_series_in m d); intuition congruence.
Qed.

Lemma datapoint_routing_deterministic n m1 m2 d1 d2 i1 i2 s1 s2 :
  dp_name d1 = dp_name d2 → dp_src d1 = dp_src d2 → dp_tags d1 ≡ₚ dp_tags d2 →
  split n (receive m1 d1) !! i1 = Some s1 → split n (receive m2 d2) !! i2 = Some s2 →
  series_in s1 (dp_key d1) → series_in s2 (dp_key d2) → i1 = i2.
Proof.
  intros Hn Hs Ht H1 H2 K1 K2.
  apply (datapoint_shard _ _ _ _ _ H1) in K1. apply (datapoint_shard _ _ _ _ _ H2) in K2.
  rewrite K1, K2, (dp_key_perm d1 d2) by assumption; reflexivity.
Qed.

(* ---------------------------------------------------------------------------------------- *)
(* the Go loop, for the record: any iteration order of the four Each loops computes [split] *)

Definition split_loop (n : nat) (ec : list (skey * counter)) (et : list (skey * timer))
    (eg : list (skey * gauge)) (es : list (skey * mset)) : option (list mmap) :=
  c ← gsplit_loop n ec; t ← gsplit_loop n et; g ← gsplit_loop n eg; s ← gsplit_loop n es;
  Some ((λ i, MkMap (default ∅ (c !! i)) (default ∅ (t !! i)) (default ∅ (g !! i)) (default ∅ (s !! i))) <$> seq 0 n).

Lemma split_loop_any_order n m ec et eg es :
  n ≠ 0%nat →
  ec ≡ₚ map_to_list (counters m) → et ≡ₚ map_to_list (timers m) →
  eg ≡ₚ map_to_list (gauges m) → es ≡ₚ map_to_list (sets m) →
  split_loop n ec et eg es = Some (split n m).
Proof.
  intros Hn Hc Ht Hg Hs; unfold split_loop.
  rewrite (gsplit_loop_any_order n _ ec Hn Hc), (gsplit_loop_any_order n _ et Hn Ht),
    (gsplit_loop_any_order n _ eg Hn Hg), (gsplit_loop_any_order n _ es Hn Hs); cbn.
  f_equal. rewrite split_fmap. apply list_fmap_ext. intros j i Hin%lookup_seq.
  rewrite shard_of_gshard. unfold gsplit.
  rewrite !list_lookup_fmap, !lookup_seq_lt by lia; reflexivity.
Qed.

(* A cheaper way to compute [split] (one bucket computation per entry instead of one per entry
   and shard), proved equal to it; the correspondence check evaluates this one. *)
Definition split_fast (n : nat) (m : mmap) : list mmap :=
  match split_loop n (map_to_list (counters m)) (map_to_list (timers m))
                     (map_to_list (gauges m)) (map_to_list (sets m)) with
  | Some l => l
  | None => split n m
  end.

Lemma split_fast_eq n m : split_fast n m = split n m.
Proof.
  unfold split_fast. destruct n as [|n].
  - destruct (split_loop 0 _ _ _ _) as [l|] eqn:E; [|reflexivity].
    unfold split_loop in E.
    destruct (gsplit_loop 0 (map_to_list (counters m))); cbn in E; [|discriminate].
    destruct (gsplit_loop 0 (map_to_list (timers m))); cbn in E; [|discriminate].
    destruct (gsplit_loop 0 (map_to_list (gauges m))); cbn in E; [|discriminate].
    destruct (gsplit_loop 0 (map_to_list (sets m))); cbn in E; [|discriminate].
    inversion E; reflexivity.
  - rewrite (split_loop_any_order (S n) m) by (reflexivity || lia); reflexivity.
Qed.

(* with zero shards and a non-empty batch the Go code panics (modulo by zero / index) *)
Lemma gsplit_loop_zero {V} (kv : skey * V) es : gsplit_loop 0 (kv :: es) = None.
Proof.
  unfold gsplit_loop; cbn. unfold place; cbn.
  induction es as [|e es IH]; [reflexivity|exact IH].
Qed.

(* ---------------------------------------------------------------------------------------- *)
(* the hypotheses above are satisfiable on a non-trivial state *)
Local Open Scope N_scope.
Example split_example :
  let d1 := MkDp [97] Counter 0 [] 0 [[98]; [97]] [] 5 in
  let d2 := MkDp [97] Gauge 0 [] 0 [[97]; [98]] [] 6 in
  let d3 := MkDp [122; 122] Timer 0 [] 0 [] [120] 7 in
  let m := receive_all empty_map [d1; d2; d3] in
  dp_key d1 = dp_key d2 ∧ shard_index 4 (dp_key d1) = 2%nat ∧ shard_index 4 (dp_key d3) = 3%nat ∧
  series_in m (dp_key d1) ∧ series_in m (dp_key d3) ∧
  ∃ s2 s3, split 4 m !! 2%nat = Some s2 ∧ split 4 m !! 3%nat = Some s3 ∧
           series_in s2 (dp_key d1) ∧ series_in s3 (dp_key d3).
Proof.
  cbn zeta. split; [reflexivity|]. split; [vm_compute; reflexivity|]. split; [vm_compute; reflexivity|].
  split; [left; vm_compute; eauto|]. split; [right; left; vm_compute; eauto|].
  eexists _, _. split; [reflexivity|]. split; [reflexivity|]. split.
  - left; vm_compute; eauto.
  - right; left; vm_compute; eauto.
Qed.

(* the hypotheses of datapoint_routing_deterministic are satisfiable with datapoints that differ
   in type, value, timestamp, tag order and in the rest of their batches *)
Example routing_example :
  let d1 := MkDp [97] Counter 4607182418800017408 [] 4607182418800017408 [[98]; [97]] [] 5 in
  let d2 := MkDp [97] Gauge 0 [] 4607182418800017408 [[97]; [98]] [] 6 in
  let m2 := receive empty_map (MkDp [122; 122] Timer 0 [] 4607182418800017408 [] [120] 7) in
  dp_name d1 = dp_name d2 ∧ dp_src d1 = dp_src d2 ∧ dp_tags d1 ≡ₚ dp_tags d2 ∧ dp_tags d1 ≠ dp_tags d2 ∧
  ∃ s1 s2, split 4 (receive empty_map d1) !! 2%nat = Some s1 ∧ split 4 (receive m2 d2) !! 2%nat = Some s2 ∧
           series_in s1 (dp_key d1) ∧ series_in s2 (dp_key d2).
Proof.
  cbn zeta. split; [reflexivity|]. split; [reflexivity|]. split; [apply perm_swap|]. split; [discriminate|].
  eexists _, _. split; [reflexivity|]. split; [reflexivity|]. split.
  - left; vm_compute; eauto.
  - right; right; left; vm_compute; eauto.
Qed.
