(* Lemmas about Model/Stats.v *)
From GS Require Import Base.Bytes Model.GoPartial Model.Histogram Model.Stats.
