(* C08: properties of the specification [timer_spec] (order independence, "the k lowest",
   population variance, sampled count, histogram buckets), the rank functions, and examples
   showing that the hypotheses of the theorems are satisfiable.  The refinement theorem itself
   is Proofs/StatsRefine.v. *)
From Coq Require Import String.
From Coq Require Import List ZArith QArith Qcanon Qround Lia Permutation Sorted Floats.
From GS Require Import Base.Bytes Base.GoFloat Model.GoPartial Model.Histogram Model.Stats.
From GS Require Export Proofs.StatsSort Proofs.Histogram Proofs.StatsRefine.
Import ListNotations.
Local Open Scope Z_scope.

(* ---------------------------------------------------------------------------------------- *)
(* rank *)

Lemma exact_rank_range p n : -100 <= p <= 100 -> 0 <= n -> 0 <= exact_rank p n <= n.
Proof.
  intros Hp Hn. unfold exact_rank.
  assert (0 <= Z.abs p * n) as H0 by (apply Z.mul_nonneg_nonneg; lia).
  assert (Z.abs p * n <= 100 * n) as H1 by (apply Z.mul_le_mono_nonneg_r; lia).
  split.
  - apply Z.div_pos; lia.
  - apply Z.lt_succ_r. apply Z.div_lt_upper_bound; lia.
Qed.

Fixpoint upto (n : nat) : list Z := match n with O => [0] | S k => Z.of_nat n :: upto k end.

Lemma In_upto n z : 0 <= z <= Z.of_nat n -> In z (upto n).
Proof.
  induction n as [|n IH]; intros Hz; cbn [upto].
  - left. lia.
  - destruct (Z.eq_dec z (Z.of_nat (S n))) as [->|Hne]; [left; reflexivity | right; apply IH; lia].
Qed.

Definition rank_ok (p n : Z) : bool := let k := go_rank p n in (0 <=? k) && (k <=? n).

Lemma rank_sweep_1000 : forallb (fun p => forallb (rank_ok p) (upto 1000)) (upto 100) = true.
Proof. vm_compute. reflexivity. Qed.

(* the float64 rank of the Go code stays within the slice for every size up to 1000 (finite
   sweep over 101 x 1001 points evaluated on the kernel's binary64 floats; the bound is in the
   statement).  C04 owns the unbounded version. *)
Lemma go_rank_range_sweep p n : -100 <= p <= 100 -> 0 <= n <= 1000 -> 0 <= go_rank p n <= n.
Proof.
  intros Hp Hn.
  assert (In (Z.abs p) (upto 100)) as Hi1 by (apply In_upto; lia).
  assert (In n (upto 1000)) as Hi2 by (apply In_upto; lia).
  pose proof (proj1 (forallb_forall _ _) rank_sweep_1000 (Z.abs p) Hi1) as H.
  pose proof (proj1 (forallb_forall _ _) H n Hi2) as H'. clear H.
  unfold rank_ok in H'. apply andb_prop in H' as [H1 H2].
  assert (go_rank p n = go_rank (Z.abs p) n) as ->.
  { unfold go_rank. rewrite Z.abs_involutive. reflexivity. }
  apply Z.leb_le in H1, H2. lia.
Qed.

(* ---------------------------------------------------------------------------------------- *)
(* order independence *)

Local Open Scope Qc_scope.

Lemma selected_perm rank p xs ys : Permutation xs ys -> selected rank p xs = selected rank p ys.
Proof.
  intros P. unfold selected. rewrite (qsort_perm_eq _ _ P), (Permutation_length P). reflexivity.
Qed.

Lemma pct_spec_perm rank m p xs ys : Permutation xs ys -> pct_spec rank m p xs = pct_spec rank m p ys.
Proof. intros P. unfold pct_spec. rewrite (selected_perm rank p _ _ P). reflexivity. Qed.

Lemma flat_map_ext_in {A B} (f g : A -> list B) l : (forall a, f a = g a) -> flat_map f l = flat_map g l.
Proof. intros H. induction l as [|a l IH]; cbn [flat_map]; [reflexivity | rewrite H, IH; reflexivity]. Qed.

Lemma timer_spec_perm rank pf c xs ys sampled tags h :
  Permutation xs ys ->
  sorted_values (timer_spec rank pf c xs sampled tags h)
  = sorted_values (timer_spec rank pf c ys sampled tags h)
  /\ (has_histogram_tag tags = false ->
      timer_spec rank pf c xs sampled tags h = timer_spec rank pf c ys sampled tags h).
Proof.
  intros P.
  assert (has_histogram_tag tags = false ->
          timer_spec rank pf c xs sampled tags h = timer_spec rank pf c ys sampled tags h) as Hplain.
  { intros Eh. unfold timer_spec. rewrite Eh.
    destruct xs as [|x r].
    { apply Permutation_nil in P. subst ys. reflexivity. }
    destruct ys as [|y r']; [apply Permutation_sym, Permutation_nil in P; discriminate|].
    f_equal.
    - apply qmean_perm, P.
    - apply qmedian_perm, P.
    - eapply is_min_unique; [apply fold_qmin_is_min|].
      eapply is_min_perm; [apply Permutation_sym, P | apply fold_qmin_is_min].
    - eapply is_max_unique; [apply fold_qmax_is_max|].
      eapply is_max_perm; [apply Permutation_sym, P | apply fold_qmax_is_max].
    - apply qvariance_perm, P.
    - apply qsum_perm, P.
    - apply qsumsq_perm, P.
    - apply qsort_perm_eq, P.
    - apply flat_map_ext_in. intros p. apply pct_spec_perm, P. }
  split; [|exact Hplain].
  destruct (has_histogram_tag tags) eqn:Eh; [|rewrite Hplain; reflexivity].
  unfold timer_spec. rewrite Eh. unfold sorted_values.
  cbn [t_count t_sampled t_persec t_mean t_median t_min t_max t_var t_sum t_sumsq t_values t_pcts t_tags t_hist].
  f_equal; [apply qsort_perm_eq, P | apply hist_spec_perm, P].
Qed.

(* ---------------------------------------------------------------------------------------- *)
(* the selected values are literally the k lowest / k highest *)

Lemma selected_k_lowest rank p xs :
  let n := length xs in
  let k := if (n =? 1)%nat then 1%nat else Z.to_nat (rank p (Z.of_nat n)) in
  (k <= n)%nat ->
  exists rest,
    Permutation xs (selected rank p xs ++ rest) /\ length (selected rank p xs) = k /\
    forall a b, In a (selected rank p xs) -> In b rest -> if (0 <? p)%Z then a <= b else b <= a.
Proof.
  intros n k Hk. unfold selected. fold n. fold k.
  pose proof (qsort_sorted xs) as Hs. pose proof (qsort_perm xs) as Hp.
  assert (length (qsort xs) = n) as HL by apply qsort_length.
  destruct (0 <? p)%Z.
  - exists (skipn k (qsort xs)). rewrite firstn_skipn. split; [symmetry; exact Hp|].
    split; [apply firstn_length_le; lia|].
    apply sorted_app_le. rewrite firstn_skipn. exact Hs.
  - exists (firstn (n - k) (qsort xs)). split; [|split].
    + rewrite Permutation_app_comm, firstn_skipn. symmetry. exact Hp.
    + rewrite skipn_length. lia.
    + intros a b Ha Hb. revert b a Hb Ha. apply sorted_app_le. rewrite firstn_skipn. exact Hs.
Qed.

(* ---------------------------------------------------------------------------------------- *)
(* population variance *)

Lemma Qc_of_Z_succ z : Qc_of_Z (z + 1) = Qc_of_Z z + 1.
Proof.
  apply Qc_is_canon. unfold Qc_of_Z. cbn [this Qcplus Q2Qc].
  rewrite !Qred_correct, inject_Z_plus. reflexivity.
Qed.

Lemma qnat_S n : qnat (S n) = qnat n + 1.
Proof. unfold qnat. rewrite Nat2Z.inj_succ. apply Qc_of_Z_succ. Qed.

Lemma Qc_of_Z_0 : Qc_of_Z 0 = 0.
Proof. apply Qc_is_canon. reflexivity. Qed.

Lemma qnat_pos n : (0 < n)%nat -> 0 < qnat n.
Proof.
  intros Hn. unfold qnat, Qc_of_Z, Qclt. cbn [this Q2Qc]. rewrite !Qred_correct.
  change (inject_Z 0 < inject_Z (Z.of_nat n))%Q. rewrite <- Zlt_Qlt. lia.
Qed.

Lemma qnat_nonzero n : (0 < n)%nat -> qnat n <> 0.
Proof. intros Hn E. pose proof (qnat_pos n Hn) as H. rewrite E in H. exact (Qclt_not_eq _ _ H eq_refl). Qed.

(* sum of squared deviations from any m: Konig-Huygens *)
Lemma sum_sq_dev m l :
  qsum (map (fun x => (x - m) * (x - m)) l) = qsumsq l - (1 + 1) * m * qsum l + qnat (length l) * m * m.
Proof.
  unfold qsumsq, qsum. induction l as [|x l IH]; cbn [map fold_right length].
  - unfold qnat. cbn [Z.of_nat]. rewrite Qc_of_Z_0. ring.
  - rewrite IH, qnat_S. ring.
Qed.

Lemma variance_is_population xs :
  xs <> [] ->
  let n := qnat (length xs) in
  qmean xs * n = qsum xs /\
  qvariance xs * n = qsum (map (fun x => (x - qmean xs) * (x - qmean xs)) xs) /\
  qvariance xs = qsumsq xs / n - qmean xs * qmean xs.
Proof.
  intros Hne n.
  assert (n <> 0) as Hn.
  { apply qnat_nonzero. destruct xs; [congruence | cbn; lia]. }
  assert (qmean xs * n = qsum xs) as Hm by (unfold qmean; fold n; field; exact Hn).
  split; [exact Hm|]. split.
  - unfold qvariance. fold n. field. exact Hn.
  - unfold qvariance. fold n. rewrite sum_sq_dev. fold n. rewrite <- Hm. field. exact Hn.
Qed.

(* ---------------------------------------------------------------------------------------- *)
(* sampled count *)

Lemma receive_all_eq pts : receive_all pts = (map fst pts, sampled_count (map snd pts)).
Proof.
  unfold receive_all, sampled_count.
  assert (forall acc, fold_left (fun acc vr => (fst acc ++ [fst vr], snd acc + / snd vr)) pts acc
                      = (fst acc ++ map fst pts, snd acc + qsum (map Qcinv (map snd pts)))) as H.
  { induction pts as [|[v r] pts IH]; intros [vs s]; cbn [fold_left map fst snd].
    - rewrite app_nil_r. unfold qsum. cbn [fold_right]. f_equal. ring.
    - rewrite IH. cbn [fst snd]. rewrite <- app_assoc. unfold qsum. cbn [fold_right app]. f_equal. ring. }
  rewrite H. cbn [fst snd app]. f_equal. ring.
Qed.

Lemma sampled_count_perm r r' : Permutation r r' -> sampled_count r = sampled_count r'.
Proof. intros P. apply qsum_perm, Permutation_map, P. Qed.

Lemma Qcfloor_nat_half n : Qcfloor (qnat n + qhalf) = Z.of_nat n.
Proof.
  unfold Qcfloor. set (z := Z.of_nat n).
  assert (this (qnat n + qhalf) == inject_Z z + (1 # 2))%Q as E.
  { unfold qnat, Qc_of_Z, qhalf. fold z. cbn [this Qcplus Q2Qc]. rewrite !Qred_correct. reflexivity. }
  rewrite E.
  assert (inject_Z z <= inject_Z z + (1 # 2))%Q as H1.
  { rewrite <- (Qplus_0_r (inject_Z z)) at 1. apply Qplus_le_r. discriminate. }
  assert (inject_Z z + (1 # 2) < inject_Z (z + 1))%Q as H2.
  { rewrite inject_Z_plus. apply Qplus_lt_r. reflexivity. }
  apply Z.le_antisymm.
  - apply Z.lt_succ_r. rewrite Zlt_Qlt. eapply Qle_lt_trans; [apply Qfloor_le|]. exact H2.
  - rewrite <- (Qfloor_Z z) at 1. apply Qfloor_resp_le. exact H1.
Qed.

Lemma sampled_count_ones rates : (forall r, In r rates -> r = 1) -> sampled_count rates = qnat (length rates).
Proof.
  unfold sampled_count, qsum. induction rates as [|r rates IH]; intros H; cbn [map fold_right length].
  - unfold qnat. cbn [Z.of_nat]. symmetry. apply Qc_of_Z_0.
  - rewrite IH by (intros q Hq; apply H; right; exact Hq). rewrite (H r (or_introl eq_refl)), qnat_S.
    assert (/ 1 = 1) as -> by (apply Qc_is_canon; reflexivity). ring.
Qed.

(* ---------------------------------------------------------------------------------------- *)
(* exact rationals against bucket bounds *)

Lemma Qc_of_bits_zero : Qc_of_bits (2^63) = Qc_of_bits 0.
Proof. apply Qc_is_canon. vm_compute. reflexivity. Qed.

Lemma qc_le_bound_compat b b' : bound_eqb b' b = true -> forall v, qc_le_bound v b' = qc_le_bound v b.
Proof.
  destruct b' as [| | |x], b as [| | |y]; cbn [bound_eqb]; try discriminate; try reflexivity.
  intros H v. apply Bool.orb_true_iff in H as [H|H].
  - apply Z.eqb_eq in H. subst. reflexivity.
  - apply Bool.andb_true_iff in H as [Hx Hy]. unfold f64_is_zero in Hx, Hy.
    apply Bool.orb_true_iff in Hx, Hy. cbn [qc_le_bound].
    assert (Qc_of_bits x = Qc_of_bits 0) as ->.
    { destruct Hx as [Hx|Hx]; apply Z.eqb_eq in Hx; subst; [reflexivity | apply Qc_of_bits_zero]. }
    assert (Qc_of_bits y = Qc_of_bits 0) as ->.
    { destruct Hy as [Hy|Hy]; apply Z.eqb_eq in Hy; subst; [reflexivity | apply Qc_of_bits_zero]. }
    reflexivity.
Qed.

Lemma qc_le_bound_inf v : qc_le_bound v BPInf = true.
Proof. reflexivity. Qed.

(* ---------------------------------------------------------------------------------------- *)
(* the statements of Props/C08.v *)

Local Open Scope Z_scope.

Definition short_tags (tags : list str) : Prop := forall tag, In tag tags -> len tag < 2^32.

Lemma refines_spec_exact_rank pf c xs sampled tags h :
  (forall p, In p (c_pcts c) -> -100 <= p <= 100) -> 0 <= c_limit c -> short_tags tags ->
  flush_timer qc_ops pf exact_rank false c (fresh qc_ops xs sampled tags h)
  = Ok (timer_spec exact_rank pf c xs sampled tags h).
Proof.
  intros Hp Hl Ht. apply flush_timer_refines_spec; try assumption.
  intros p Hin. apply exact_rank_range; [apply Hp, Hin | apply len_nonneg].
Qed.

Lemma refines_spec_go_rank_1000 pf c xs sampled tags h :
  (forall p, In p (c_pcts c) -> -100 <= p <= 100) -> len xs <= 1000 -> 0 <= c_limit c -> short_tags tags ->
  flush_timer qc_ops pf go_rank false c (fresh qc_ops xs sampled tags h)
  = Ok (timer_spec go_rank pf c xs sampled tags h).
Proof.
  intros Hp Hn Hl Ht. apply flush_timer_refines_spec; try assumption.
  intros p Hin. apply go_rank_range_sweep; [apply Hp, Hin | pose proof (len_nonneg xs); lia].
Qed.

Lemma flush_order_independent rank pf c xs ys sampled tags h :
  (forall p, In p (c_pcts c) -> 0 <= rank p (len xs) <= len xs) -> 0 <= c_limit c -> short_tags tags ->
  Permutation xs ys -> has_histogram_tag tags = false ->
  flush_timer qc_ops pf rank false c (fresh qc_ops xs sampled tags h)
  = flush_timer qc_ops pf rank false c (fresh qc_ops ys sampled tags h).
Proof.
  intros Hr Hl Ht P Eh.
  assert (len ys = len xs) as E by (unfold len; rewrite (Permutation_length P); reflexivity).
  rewrite !flush_timer_refines_spec; try assumption; [|rewrite E; exact Hr].
  f_equal. apply (timer_spec_perm rank pf c xs ys sampled tags h P), Eh.
Qed.

Lemma stddev_is_population rank pf c xs sampled tags h :
  (forall p, In p (c_pcts c) -> 0 <= rank p (len xs) <= len xs) -> 0 <= c_limit c -> short_tags tags ->
  xs <> [] -> has_histogram_tag tags = false ->
  exists t, flush_timer qc_ops pf rank false c (fresh qc_ops xs sampled tags h) = Ok t /\
    let n := qnat (length xs) in
    (t_mean t * n = qsum xs /\
     t_var t * n = qsum (map (fun x => (x - t_mean t) * (x - t_mean t)) xs) /\
     t_var t = t_sumsq t / n - t_mean t * t_mean t)%Qc.
Proof.
  intros Hr Hl Ht Hne Eh. eexists. split; [apply flush_timer_refines_spec; assumption|].
  unfold timer_spec. rewrite Eh. destruct xs as [|x r]; [congruence|].
  cbn [t_mean t_var t_sumsq]. apply variance_is_population. discriminate.
Qed.

(* the reported extremes are members of the multiset that bound every member *)
Lemma spec_min_max rank pf c x r sampled tags h :
  has_histogram_tag tags = false ->
  let xs := x :: r in
  let t := timer_spec rank pf c xs sampled tags h in
  (In (t_min t) xs /\ forall z, In z xs -> (t_min t <= z)%Qc) /\
  (In (t_max t) xs /\ forall z, In z xs -> (z <= t_max t)%Qc).
Proof.
  intros Eh xs t. unfold t, timer_spec. rewrite Eh. cbn [t_min t_max].
  split; [apply fold_qmin_is_min | apply fold_qmax_is_max].
Qed.

Lemma flush_histogram_timer rank pf c xs sampled tags h :
  0 <= c_limit c -> short_tags tags -> has_histogram_tag tags = true ->
  flush_timer qc_ops pf rank false c (fresh qc_ops xs sampled tags h)
  = Ok (timer_spec rank pf c xs sampled tags h).
Proof.
  intros Hl Ht Eh. unfold flush_timer, timer_spec.
  cbn [fresh t_tags t_values t_count t_sampled t_persec t_mean t_median t_min t_max t_var t_sum
       t_sumsq t_pcts t_hist v0 qc_ops].
  rewrite Eh. rewrite latency_histogram_spec; [reflexivity | exact Hl |].
  intros tag Hf. apply Ht. apply (find_tag_Some _ _ Hf).
Qed.

Lemma histogram_spec rank pf c xs sampled tags h :
  0 <= c_limit c -> short_tags tags -> has_histogram_tag tags = true ->
  exists t, flush_timer qc_ops pf rank false c (fresh qc_ops xs sampled tags h) = Ok t /\
    (* none of the summary statistics; values and sampled count kept *)
    (t_count t = 0 /\ t_persec t = 0%Qc /\ t_mean t = 0%Qc /\ t_median t = 0%Qc /\ t_min t = 0%Qc /\
     t_max t = 0%Qc /\ t_var t = 0%Qc /\ t_sum t = 0%Qc /\ t_sumsq t = 0%Qc /\ t_pcts t = [] /\
     t_values t = xs /\ t_sampled t = sampled) /\
    (* nothing at all when the limit is 0 *)
    (c_limit c = 0 -> t_hist t = HMap []) /\
    (* otherwise: +Inf and the first [limit] bounds of the tag that parse, each with the number
       of values not greater than it *)
    (0 < c_limit c ->
     let bounds := spec_bounds pf tags (c_limit c) in
     exists l, t_hist t = HMap l /\
       (length l <= Z.to_nat (c_limit c) + 1)%nat /\
       (forall b n, In (b, n) l -> n = count_le qc_le_bound b xs /\ (b = BPInf \/ In b bounds)) /\
       hget BPInf l = Some (len xs) /\
       (forall b, In b bounds -> b <> BNaN -> hget b l = Some (count_le qc_le_bound b xs))).
Proof.
  intros Hl Ht Eh. eexists. split; [apply flush_histogram_timer; assumption|].
  unfold timer_spec. rewrite Eh.
  cbn [t_count t_sampled t_persec t_mean t_median t_min t_max t_var t_sum t_sumsq t_values t_pcts t_tags t_hist].
  split; [repeat split|]. split.
  - intros E. rewrite E. reflexivity.
  - intros Hpos. apply hist_spec_buckets; [exact Hpos | exact Eh | |exact qc_le_bound_inf].
    intros b b' Hb v. apply qc_le_bound_compat, Hb.
Qed.

Lemma sampled_count_spec rank pf c pts tags h :
  let xs := fst (receive_all pts) in
  let s := snd (receive_all pts) in
  (forall p, In p (c_pcts c) -> 0 <= rank p (len xs) <= len xs) -> 0 <= c_limit c -> short_tags tags ->
  pts <> [] -> has_histogram_tag tags = false ->
  xs = map fst pts /\
  s = qsum (map (fun vr => / snd vr)%Qc pts) /\
  (forall pts', Permutation pts pts' -> snd (receive_all pts') = s) /\
  exists t, flush_timer qc_ops pf rank false c (fresh qc_ops xs s tags h) = Ok t /\
    t_sampled t = s /\
    t_count t = Qcfloor (s + qhalf) /\
    t_persec t = (s / c_interval c)%Qc /\
    ((forall vr, In vr pts -> snd vr = 1%Qc) -> t_count t = len pts).
Proof.
  intros xs s Hr Hl Ht Hne Eh. unfold xs, s in *. rewrite receive_all_eq in *. cbn [fst snd] in *.
  split; [reflexivity|]. split; [unfold sampled_count; rewrite map_map; reflexivity|]. split.
  { intros pts' P. rewrite receive_all_eq. cbn [snd]. symmetry.
    apply sampled_count_perm, Permutation_map, P. }
  eexists. split; [apply flush_timer_refines_spec; assumption|].
  unfold timer_spec. rewrite Eh.
  destruct pts as [|[v r] pts]; [congruence|]. cbn [map fst t_sampled t_count t_persec].
  split; [reflexivity|]. split; [reflexivity|]. split; [reflexivity|].
  intros Hones. rewrite sampled_count_ones.
  - rewrite Qcfloor_nat_half. unfold len. cbn [length]. rewrite map_length. reflexivity.
  - intros q Hq. change (In q (map snd ((v, r) :: pts))) in Hq. apply in_map_iff in Hq as [vr [<- Hvr]]. apply Hones, Hvr.
Qed.

(* ---------------------------------------------------------------------------------------- *)
(* the hypotheses are satisfiable, on a non-trivial timer *)

Definition ex_cfg : config Qc :=
  {| c_pcts := [90; -50; 0; 100]; c_mask := Build_pmask false false false false false false;
     c_limit := 2; c_interval := Qc_of_Z 10 |}.
Definition ex_xs : list Qc := map Qc_of_Z [12; 2; 4; 2; 7].

Example ex_hypotheses :
  (forall p, In p (c_pcts ex_cfg) -> 0 <= go_rank p (len ex_xs) <= len ex_xs) /\
  0 <= c_limit ex_cfg /\ short_tags [bs "a:b"] /\ has_histogram_tag [bs "a:b"] = false.
Proof.
  assert (len ex_xs = 5) as E by reflexivity.
  split; [|split; [|split]].
  - intros p Hp. rewrite E. apply go_rank_range_sweep; [|lia].
    cbn [c_pcts ex_cfg In] in Hp. lia.
  - cbn [c_limit ex_cfg]. lia.
  - intros tag [<-|[]]. reflexivity.
  - reflexivity.
Qed.

Example ex_flush :
  match flush_timer qc_ops (fun _ => None) go_rank false ex_cfg (fresh qc_ops ex_xs (Qc_of_Z 5) [bs "a:b"] HNil) with
  | Ok t => t_min t = Qc_of_Z 2 /\ t_max t = Qc_of_Z 12 /\ t_median t = Qc_of_Z 4 /\ t_sum t = Qc_of_Z 27
            /\ t_count t = 5
            /\ map fst (t_pcts t) = [nm "count_" 90; nm "mean_" 90; nm "sum_" 90; nm "sum_squares_" 90; nm "upper_" 90;
                                    nm "count_" (-50); nm "mean_" (-50); nm "sum_" (-50); nm "sum_squares_" (-50); nm "lower_" (-50);
                                    nm "count_" 100; nm "mean_" 100; nm "sum_" 100; nm "sum_squares_" 100; nm "upper_" 100]
  | Panic => False
  end.
Proof. vm_compute. repeat split. Qed.

(* a histogram timer: "gsd_histogram:10_x_20_30" with limit 2 keeps the bounds 10 and 20 *)
Definition ex_pf (s : str) : option bound :=
  if str_eqb s (bs "10") then Some (BFin 4621819117588971520)
  else if str_eqb s (bs "20") then Some (BFin 4626322717216342016)
  else if str_eqb s (bs "30") then Some (BFin 4629137466983448576)
  else None.

Example ex_histogram :
  let tags := [bs "env:prod"; bs "gsd_histogram:10_x_20_30"] in
  has_histogram_tag tags = true /\ short_tags tags /\
  spec_bounds ex_pf tags 2 = [BFin 4621819117588971520; BFin 4626322717216342016] /\
  match flush_timer qc_ops ex_pf go_rank false ex_cfg (fresh qc_ops (map Qc_of_Z [12; 2; 20; 25; 7]) (Qc_of_Z 5) tags HNil) with
  | Ok t => t_hist t = HMap [(BFin 4621819117588971520, 2); (BFin 4626322717216342016, 4); (BPInf, 5)] /\ t_count t = 0
  | Panic => False
  end.
Proof.
  split; [reflexivity|]. split; [|split; [reflexivity|]].
  - intros tag [<-|[<-|[]]]; reflexivity.
  - vm_compute. split; reflexivity.
Qed.
