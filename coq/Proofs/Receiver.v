(* C03, receiver part: DatagramReceiver.Receive never panics, never hands a nil slot to the
   parser, and hands over exactly what it read; the seeded `continue` variant is refuted. *)
From Coq Require Import Lia Permutation.
From GS Require Import Base.Bytes Base.LTS Model.Lexer Model.DatagramLines Model.Receiver
  Proofs.LexerSafety Proofs.DatagramLines.
Local Open Scope N_scope.

(* ---- the inner loop ---- *)

Definition seen_of (c : config) (now : Z) (m : message) : str * str * Z :=
  (if c_local_unix c then unknown_source else get_ip (mg_addr m), mg_data m, now).

Lemma fill_current u now ms : forall sl p,
  (length ms <= length sl)%nat ->
  Forall (fun m => N.of_nat (length (mg_data m)) <= buf_size) ms ->
  exists ds sl' p',
    fill (current u) now ms sl p = FOk (map Some ds) sl' p'
    /\ length sl' = length sl
    /\ map seen ds = map (seen_of (current u) now) ms.
Proof.
  induction ms as [|m ms IH]; intros sl p Hlen Hsz; cbn [fill].
  - exists [], sl, p. repeat split.
  - destruct sl as [|b sl]; [cbn in Hlen; lia|].
    inversion Hsz as [|x l Hm Hrest]; subst.
    cbn [current c_skip_empty andb].
    destruct (N.ltb_spec buf_size (N.of_nat (length (mg_data m)))) as [Hbad|_]; [lia|].
    destruct (pool_get p) as [b' p1].
    destruct (IH sl p1) as (ds & sl' & p' & -> & Hl & Hs); [cbn in Hlen; lia|exact Hrest|].
    eexists (DG _ (mg_data m) now b :: ds), (b' :: sl'), p'.
    split; [reflexivity|]. split; [cbn; lia|].
    cbn [map]. rewrite Hs. reflexivity.
Qed.

Lemma deref_some ds : deref (map Some ds) = Some ds.
Proof. induction ds as [|d r IH]; cbn; [reflexivity|rewrite IH; reflexivity]. Qed.

Lemma deref_app_some a ds : deref (map Some ds ++ a) = match deref a with Some r => Some (ds ++ r) | None => None end.
Proof.
  induction ds as [|d r IH]; cbn.
  - destruct (deref a); reflexivity.
  - rewrite IH. destruct (deref a); reflexivity.
Qed.

Lemma deref_concat_some dss : deref (concat (map (map Some) dss)) = Some (concat dss).
Proof.
  induction dss as [|ds r IH]; cbn; [reflexivity|].
  rewrite deref_app_some, IH. reflexivity.
Qed.

(* ---- the loop: every label sequence ---- *)

Section Current.
  Variable u : bool.            (* local address is a unix address *)
  Variable B : nat.             (* receive-batch-size *)
  Let c := current u.

  Lemma run_current ls : forall s st,
    Forall (wf_label B) ls ->
    length (r_slots s) = B ->
    run (step c) (Running s) ls = Some st ->
    exists s' dss,
      st = Running s'
      /\ length (r_slots s') = B
      /\ r_handed s' = r_handed s ++ map (map Some) dss
      /\ map (map seen) dss = expected c ls.
  Proof.
    induction ls as [|l ls IH]; intros s st Hwf Hlen Hrun.
    - cbn in Hrun. injection Hrun as <-. exists s, []. cbn. rewrite app_nil_r. auto.
    - inversion Hwf as [|x y Hl Hrest]; subst x y.
      cbn [run] in Hrun. destruct l as [[|now ms]|b]; cbn [step] in Hrun.
      + (* read error: nothing handed over, the loop continues *)
        destruct (IH s st Hrest Hlen Hrun) as (s' & dss & -> & H1 & H2 & H3).
        exists s', dss. cbn [expected expected_of app]. auto.
      + destruct Hl as [Hn Hsz].
        destruct (fill_current u now ms (r_slots s) (r_pool s)) as (ds & sl' & p' & Hf & Hl' & Hs);
          [lia|exact Hsz|].
        fold c in Hf. rewrite Hf in Hrun.
        match type of Hrun with run _ (Running ?s1) _ = _ =>
          destruct (IH s1 st Hrest) as (s' & dss & -> & H1 & H2 & H3); [cbn; lia|exact Hrun|] end.
        cbn [r_handed] in H2.
        exists s', (ds :: dss). split; [reflexivity|]. split; [exact H1|]. split.
        * rewrite H2, <- app_assoc. reflexivity.
        * cbn [map expected expected_of app]. rewrite H3. f_equal. exact Hs.
      + destruct (existsb (N.eqb b) (r_outst s)); [|discriminate].
        match type of Hrun with run _ (Running ?s1) _ = _ =>
          destruct (IH s1 st Hrest) as (s' & dss & -> & H1 & H2 & H3); [exact Hlen|exact Hrun|] end.
        exists s', dss. cbn [expected]. auto.
  Qed.

  Lemma init_slots : length (r_slots (init B)) = B.
  Proof. cbn. rewrite map_length, seq_length. reflexivity. Qed.

  (* no panic in the receiver, no nil slot in anything handed to the parser, and the batches
     are exactly the successful reads, in order, with sender and receive time *)
  Theorem receiver_safe_and_conserving (ls : list label) (st : status) :
    Forall (wf_label B) ls ->
    receive c B ls = Some st ->
    exists s dss,
      st = Running s
      /\ r_handed s = map (map Some) dss
      /\ map (map seen) dss = expected c ls.
  Proof.
    intros Hwf Hrun. unfold receive in Hrun.
    destruct (run_current ls (init B) st Hwf init_slots Hrun) as (s & dss & -> & _ & H2 & H3).
    exists s, dss. cbn in H2. auto.
  Qed.
End Current.

(* read-only label sequences are always runs (non-vacuity of the statements above) *)
Lemma run_reads_some c script : forall st, exists st', run (step c) st (map LRead script) = Some st'.
Proof.
  induction script as [|r rest IH]; intros st; cbn [map run]; [eauto|].
  destruct st as [s|]; cbn [step]; [|apply IH].
  destruct r as [|now ms]; [apply IH|].
  destruct (fill c now ms (r_slots s) (r_pool s)); apply IH.
Qed.

Lemma wf_reads B script : Forall (wf_read B) script -> Forall (wf_label B) (map LRead script).
Proof. intros H. apply Forall_map. exact H. Qed.

Lemma expected_reads_data c script :
  map (fun x => snd (fst x)) (concat (expected c (map LRead script))) = flat_map read_data script.
Proof.
  induction script as [|r rest IH]; [reflexivity|].
  cbn [map expected flat_map]. rewrite concat_app, map_app, IH. f_equal.
  destruct r as [|now ms]; [reflexivity|].
  cbn [expected_of concat read_data]. rewrite app_nil_r, map_map. reflexivity.
Qed.

Lemma seen_msg dss : map d_msg (concat dss) = map (fun x => snd (fst x)) (concat (map (map seen) dss)).
Proof.
  induction dss as [|ds r IH]; [reflexivity|].
  cbn [map concat]. rewrite !map_app, IH, map_map. reflexivity.
Qed.

(* receiver and parser composed: total, every line of every datagram read is accounted for *)
Theorem ingest_total pf ns u B script :
  Forall (wf_read B) script ->
  exists m e b,
    ingest pf ns (current u) B script = DCounts m e b
    /\ m + e + b = total_lines (flat_map read_data script).
Proof.
  intros Hwf. unfold ingest.
  destruct (run_reads_some (current u) script (Running (init B))) as [st Hst].
  fold (receive (current u) B (map LRead script)) in Hst. rewrite Hst.
  destruct (receiver_safe_and_conserving u B _ st (wf_reads B script Hwf) Hst) as (s & dss & -> & Hh & He).
  rewrite Hh, deref_concat_some.
  destruct (parse_stream_total0 pf ns (map d_msg (concat dss))) as (m & e & b & Hp & Hsum).
  exists m, e, b. split; [exact Hp|].
  rewrite Hsum, seen_msg, He, expected_reads_data. reflexivity.
Qed.

(* ---- the seeded variant ---- *)

Definition zero_script : list read_result := [RdOk 0 [RMsg [] (RaUdp [49])]].

Lemma zero_script_wf : Forall (wf_read 1) zero_script.
Proof. repeat constructor. cbn. discriminate. Qed.

Theorem seeded_refuted :
  exists script, Forall (wf_read 1) script
    /\ forall pf ns u, ingest pf ns (seeded u) 1 script = DPanic
                       /\ ingest pf ns (current u) 1 script = DCounts 0 0 0.
Proof.
  exists zero_script. split; [exact zero_script_wf|].
  intros pf ns u. split; destruct u; vm_compute; reflexivity.
Qed.

(* ---- buffers: what the swap `retBuffers[i] = pool.Get()` is for ----
   No buffer is ever in two places: the receiver never reads into a buffer that a datagram
   whose DoneFunc has not run still references, and the pool never holds such a buffer.
   Holds for every label sequence (well-formed or not) and both variants. *)

Fixpoint occ (x : N) (l : list N) : nat :=
  match l with
  | [] => 0
  | y :: r => ((if (y =? x)%N then 1 else 0) + occ x r)%nat
  end.

Lemma occ_app x a b : occ x (a ++ b) = (occ x a + occ x b)%nat.
Proof. induction a as [|y r IH]; cbn; [reflexivity|rewrite IH; lia]. Qed.

Definition below (x next : N) : nat := if (x <? next)%N then 1%nat else 0%nat.

(* the accounting invariant: [extra] = slots already re-filled by the inner loop *)
Definition tidy (extra sl o : list N) (p : pool) : Prop :=
  forall x, (occ x extra + occ x sl + occ x o + occ x (p_free p) <= below x (p_next p))%nat.

Lemma fill_tidy c now ms : forall sl p extra o bt sl' p',
  tidy extra sl o p ->
  fill c now ms sl p = FOk bt sl' p' ->
  tidy extra sl' (o ++ batch_bufs bt) p'.
Proof.
  induction ms as [|m ms IH]; intros sl p extra o bt sl' p' Ht Hf; cbn [fill] in Hf.
  - injection Hf as <- <- <-. cbn [batch_bufs]. rewrite app_nil_r. exact Ht.
  - destruct sl as [|b sl]; [discriminate|].
    destruct (c_skip_empty c && (N.of_nat (length (mg_data m)) =? 0)).
    + destruct (fill c now ms sl p) as [|bt0 sl0 p0] eqn:E; [discriminate|].
      injection Hf as <- <- <-. cbn [batch_bufs].
      assert (Ht' : tidy (extra ++ [b]) sl o p).
      { intros x. specialize (Ht x). rewrite occ_app. cbn [occ] in *. lia. }
      specialize (IH sl p (extra ++ [b]) o bt0 sl0 p0 Ht' E).
      intros x. specialize (IH x). rewrite occ_app in IH. cbn [occ] in *. lia.
    + destruct (buf_size <? N.of_nat (length (mg_data m))); [discriminate|].
      destruct (pool_get p) as [b' p1] eqn:Eg.
      destruct (fill c now ms sl p1) as [|bt0 sl0 p0] eqn:E; [discriminate|].
      injection Hf as <- <- <-. cbn [batch_bufs d_buf].
      assert (Ht' : tidy (extra ++ [b']) sl (o ++ [b]) p1).
      { intros x. specialize (Ht x). rewrite !occ_app. cbn [occ] in *.
        unfold pool_get in Eg. destruct p as [fr nx]. cbn [p_free p_next] in *.
        destruct fr as [|f0 fr]; injection Eg as <- <-; cbn [p_free p_next occ] in *.
        - unfold below in *. pose proof (Ht) as Hx.
          destruct (N.eqb_spec nx x) as [->|Hne].
          + destruct (N.ltb_spec x x); [lia|].
            destruct (N.ltb_spec x (x + 1)); [|lia].
            destruct (b =? x); lia.
          + destruct (N.ltb_spec x nx); destruct (N.ltb_spec x (nx + 1)); try lia.
        - destruct (f0 =? x); destruct (b =? x); lia. }
      specialize (IH sl p1 (extra ++ [b']) (o ++ [b]) bt0 sl0 p0 Ht' E).
      intros x. specialize (IH x). rewrite !occ_app in IH. rewrite occ_app.
      cbn [occ] in *. lia.
Qed.

Lemma existsb_occ b l : existsb (N.eqb b) l = true -> (occ b l >= 1)%nat.
Proof.
  induction l as [|y r IH]; cbn; [discriminate|].
  rewrite N.eqb_sym. destruct (y =? b); cbn; [lia|]. intros H. specialize (IH H). lia.
Qed.

Lemma remove_one_occ b l : (occ b l >= 1)%nat ->
  forall x, (occ x (remove_one b l) + (if (b =? x)%N then 1 else 0) = occ x l)%nat.
Proof.
  induction l as [|y r IH]; cbn [occ remove_one]; [lia|]. intros H x.
  destruct (N.eqb_spec y b) as [->|Hne].
  - destruct (b =? x); lia.
  - cbn [occ]. destruct (N.eqb_spec y b); [congruence|].
    assert (Hr : (occ b r >= 1)%nat) by lia.
    specialize (IH Hr x). lia.
Qed.

Definition tidy_status (st : status) : Prop :=
  match st with
  | Running s => tidy [] (r_slots s) (r_outst s) (r_pool s)
  | Crashed => True
  end.

Lemma step_tidy c st l st' : tidy_status st -> step c st l = Some st' -> tidy_status st'.
Proof.
  destruct st as [s|]; cbn [step]; [|intros _ H; injection H as <-; exact I].
  intros Ht. destruct l as [[|now ms]|b].
  - intros H; injection H as <-. exact Ht.
  - destruct (fill c now ms (r_slots s) (r_pool s)) as [|bt sl p] eqn:E; intros H; injection H as <-; [exact I|].
    cbn [tidy_status r_slots r_outst r_pool]. eapply fill_tidy; eauto.
  - destruct (existsb (N.eqb b) (r_outst s)) eqn:Ex; [|discriminate].
    intros H; injection H as <-. cbn [tidy_status r_slots r_outst r_pool] in *.
    pose proof (remove_one_occ b (r_outst s) (existsb_occ _ _ Ex)) as Hr.
    intros x. specialize (Ht x). specialize (Hr x).
    unfold pool_put. cbn [p_free p_next occ] in *. lia.
Qed.

Lemma init_tidy B : tidy_status (Running (init B)).
Proof.
  cbn. intros x. cbn [occ]. rewrite !Nat.add_0_r.
  assert (H : forall n k, (occ x (map N.of_nat (seq k n)) <= below x (N.of_nat (k + n)))%nat).
  { induction n as [|n IH]; intros k; cbn [seq map occ]; [lia|].
    specialize (IH (S k)). replace (k + S n)%nat with (S k + n)%nat by lia.
    unfold below in *. destruct (N.eqb_spec (N.of_nat k) x) as [<-|Hne]; [|lia].
    assert (Hz : occ (N.of_nat k) (map N.of_nat (seq (S k) n)) = 0%nat).
    { clear. generalize (S k) (Nat.lt_succ_diag_r k). intros j. revert j.
      induction n as [|n IH]; intros j Hj; cbn; [reflexivity|].
      destruct (N.eqb_spec (N.of_nat j) (N.of_nat k)); [lia|]. apply IH. lia. }
    rewrite Hz. destruct (N.ltb_spec (N.of_nat k) (N.of_nat (S k + n))); lia. }
  specialize (H B 0%nat). cbn in H. exact H.
Qed.

Lemma occ_le_one_NoDup l : (forall x, (occ x l <= 1)%nat) -> NoDup l.
Proof.
  induction l as [|y r IH]; intros H; constructor.
  - specialize (H y). cbn in H. rewrite N.eqb_refl in H.
    intros Hin. clear IH. induction r as [|z r IHr]; [destruct Hin|].
    cbn in H. destruct Hin as [->|Hin]; [rewrite N.eqb_refl in H; lia|].
    apply IHr; [|exact Hin]. destruct (z =? y); lia.
  - apply IH. intros x. specialize (H x). cbn in H. lia.
Qed.

Theorem receiver_buffers_disjoint c B ls s :
  receive c B ls = Some (Running s) ->
  NoDup (r_slots s ++ r_outst s ++ p_free (r_pool s)).
Proof.
  intros Hrun. unfold receive in Hrun.
  pose proof (invariant_run (step c) tidy_status (step_tidy c) ls _ _ (init_tidy B) Hrun) as Ht.
  cbn in Ht. apply occ_le_one_NoDup. intros x. specialize (Ht x).
  rewrite !occ_app. cbn [occ] in Ht. unfold below in Ht. destruct (x <? p_next (r_pool s)); lia.
Qed.

(* non-vacuity: a run with a read error, a zero-length datagram, a two-datagram batch and a
   DoneFunc in between *)
Example receive_example :
  exists s, receive (current false) 2
      [LRead RdErr; LRead (RdOk 5 [RMsg [] (RaUdp [49]); RMsg [97] RaOther]); LDone 0; LRead (RdOk 6 [RMsg [98] RaNil])]
    = Some (Running s)
  /\ map (map (option_map seen)) (r_handed s)
     = [[Some ([49], [], 5%Z); Some ([], [97], 5%Z)]; [Some ([], [98], 6%Z)]]
  /\ r_slots s = [0; 3] /\ r_outst s = [1; 2].
Proof. eexists. vm_compute. repeat split. Qed.

(* the no-panic part on its own: the receiver does not crash and everything it hands to the
   parser can be dereferenced slot by slot *)
Theorem receiver_never_panics u B ls st :
  Forall (wf_label B) ls ->
  receive (current u) B ls = Some st ->
  exists s, st = Running s /\ forall bt, In bt (r_handed s) -> exists ds, deref bt = Some ds.
Proof.
  intros Hwf Hrun.
  destruct (receiver_safe_and_conserving u B ls st Hwf Hrun) as (s & dss & -> & Hh & _).
  exists s. split; [reflexivity|]. intros bt Hin. rewrite Hh in Hin.
  apply in_map_iff in Hin as (ds & <- & _). exists ds. apply deref_some.
Qed.
