(* Defect D7 (repaired by fix 0b11cb1): with the gauge accounting as it was, an event from an unknown
   source followed by metrics from the same source and the lookup result drives
   cloudprovider.hosts_queued{type:metric} to 2^64-1 while nothing is waiting. *)
From stdpp Require Import gmap.
From GS Require Import Base.Bytes Base.LTS Model.Series Model.MetricMap Model.Content Model.Cloud Model.CloudMaps.
Local Open Scope Z_scope.

Definition d7_src : source := [49%N].                      (* "1" *)
Definition d7_miss : peekfn := λ _, None.
Definition d7_event : cevent := CEvent [101%N] [] 0 [] [] [] d7_src 0 0.
Definition d7_counter : entry := EC [99%N] (tags_key d7_src []) 1 0 d7_src [].
Definition d7_labels : list label :=
  [ArriveEvent d7_event d7_miss; ArriveMetrics [d7_counter] d7_miss; Info d7_src None].

Lemma legacy_refuted_D7 :
  exists st, run step_legacy init d7_labels = Some st
             /\ parked st = [] /\ hostsM st = 2 ^ 64 - 1.
Proof. eexists; split; [vm_compute; reflexivity|]. split; vm_compute; reflexivity. Qed.

(* the same three labels on the repaired accounting *)
Lemma fixed_D7_witness :
  exists st, run step init d7_labels = Some st /\ hostsM st = 0 /\ hostsE st = 0 /\ itemsE st = 0.
Proof. eexists; split; [vm_compute; reflexivity|]. repeat split; vm_compute; reflexivity. Qed.

(* ---- non-vacuity: the hypotheses of the C11 theorems hold on non-trivial runs ---------------------- *)

Definition ex_inst : instance := Inst [105%N] [[116%N]].           (* id "i", tags ["t"] *)
Definition ex_counter2 : entry := EC [100%N] (tags_key d7_src [[97%N]]) 5 1 d7_src [[97%N]].
Definition ex_nosrc : entry := EG [103%N] (tags_key [] []) 7 2 [] [].
Definition ex_labels : list label :=
  [ArriveMetrics [d7_counter] d7_miss; ArriveEvent d7_event d7_miss; SendLookup d7_src;
   ArriveMetrics [ex_counter2; ex_nosrc] d7_miss; Emit; Info d7_src (Some ex_inst); Emit].

(* a run of the guarded system (so also of the plain one) that parks metrics and an event of one source,
   dispatches a source-less series at once, and releases the three parked items with the instance *)
Lemma ex_run_env :
  exists st, run step_env init ex_labels = Some st
             /\ parked st = [] /\ length (down st) = 4%nat
             /\ emitted st = [(1, 1, 1); (0, 0, 0)]
             /\ map item_src (map delivered (down st)) = [[]; [105%N]; [105%N]; [105%N]].
Proof. eexists; split; [vm_compute; reflexivity|]. repeat split; vm_compute; reflexivity. Qed.

(* in the middle of that run something is parked and exactly one lookup is outstanding *)
Lemma ex_run_env_mid :
  exists st, run step_env init (firstn 4 ex_labels) = Some st
             /\ waiting st d7_src = true /\ count d7_src (pending st ++ sent (lk st)) = 1%nat
             /\ length (parked st) = 3%nat.
Proof. eexists; split; [vm_compute; reflexivity|]. repeat split; vm_compute; reflexivity. Qed.

(* without the environment hypothesis of C11_one_lookup the bound fails: an unsolicited result for a
   source whose lookup has not left yet releases its items, and the next arrival queues a second lookup *)
Lemma one_lookup_needs_env :
  exists st, run step init [ArriveEvent d7_event d7_miss; Info d7_src None; ArriveEvent d7_event d7_miss] = Some st
             /\ count d7_src (pending st ++ sent (lk st)) = 2%nat.
Proof. eexists; split; [vm_compute; reflexivity|]. vm_compute; reflexivity. Qed.

(* ---- collisions after re-keying --------------------------------------------------------------------- *)

(* two addresses of one (tag-less) instance send the same counter in one batch: both are cache hits, both are
   delivered (two records in the log), and the dispatched map holds ONE series with the sum *)
Definition col_src2 : source := [50%N].
Definition col_c1 : entry := EC [99%N] (tags_key d7_src []) 3 1 d7_src [].
Definition col_c2 : entry := EC [99%N] (tags_key col_src2 []) 4 2 col_src2 [].
Definition col_inst : instance := Inst [105%N] [].
Definition col_peek : peekfn := λ _, Some (Some col_inst).
Lemma ex_collision :
  exists st, run step init [ArriveMetrics [col_c1; col_c2] col_peek] = Some st
             /\ length (down st) = 2%nat
             /\ entries (abs_entries (delivered_metrics (down st))) = [EC [99%N] (tags_key [105%N] []) 7 2 [105%N] []]
             /\ dispatch_of (down st) (abs_entries (delivered_metrics (down st))).
Proof.
  eexists; split; [vm_compute; reflexivity|]. repeat split; try (vm_compute; reflexivity).
  eexists; split; reflexivity.
Qed.

(* a stack of two groups: the younger source leaves first *)
Lemma ex_lifo :
  exists st, run step init [ArriveEvent d7_event d7_miss;
                            ArriveEvent (CEvent [102%N] [] 0 [] [] [] col_src2 0 0) d7_miss;
                            ArriveEvent (CEvent [103%N] [] 0 [] [] [] [51%N] 0 0) d7_miss] = Some st
             /\ stack (lk st) = [(false, [[51%N]]); (false, [col_src2]); (true, [d7_src])]
             /\ step st (SendLookup [51%N]) = None
             /\ exists st', step st (SendLookup d7_src) = Some st'
                            /\ stack (lk st') = [(true, [[51%N]]); (false, [col_src2])].
Proof.
  eexists; split; [vm_compute; reflexivity|]. repeat split; try (vm_compute; reflexivity).
  eexists; split; vm_compute; reflexivity.
Qed.
