(* Model/Aggregator.v against Model/FlushPartial.v (C04): on the timers of the aggregate, listed in
   the map's order, Flush and Reset of the whole aggregator panic exactly when FlushPartial's do. *)
From stdpp Require Import gmap.
From Coq Require Import QArith Qcanon.
From GS Require Import Base.Bytes Base.GoFloat Model.Lexer Model.Series Model.MetricMap.
From GS Require Model.FlushPartial.
From GS Require Import Model.GoPartial Model.Histogram Model.Stats Model.Aggregator.
From GS Require Import Proofs.FlushSafety Proofs.AggregatorRefine.
Local Open Scope Z_scope.

Definition to_entry (kv : skey * atimer) : FlushPartial.entry Qc :=
  {| FlushPartial.e_key := kv.1; FlushPartial.e_src := at_src kv.2; FlushPartial.e_timer := at_t kv.2 |}.
Definition to_partial (a : agg) : FlushPartial.agg Qc :=
  {| FlushPartial.a_timers := to_entry <$> map_to_list (a_timers a); FlushPartial.a_others := [] |}.

Lemma mapM_panic {A B} (f : A -> outcome B) l : mapM f l = Panic <-> exists x, x ∈ l /\ f x = Panic.
Proof.
  induction l as [|a l IH]; cbn [mapM].
  - split; [discriminate | intros (x & Hx & _); inversion Hx].
  - destruct (f a) as [b|] eqn:Ea; cbn [bind].
    + destruct (mapM f l) as [bs|] eqn:El; cbn [bind].
      * split; [discriminate|]. intros (x & Hx & Hp). apply elem_of_cons in Hx as [->|Hx]; [congruence|].
        pose proof (proj2 IH (ex_intro _ x (conj Hx Hp))) as C. discriminate C.
      * split; [intros _|reflexivity]. destruct (proj1 IH eq_refl) as (x & Hx & Hp). exists x. split; [right; exact Hx | exact Hp].
    + split; [intros _|reflexivity]. exists a. split; [left | exact Ea].
Qed.

Section Partial.
  Variable pf : str -> option bound.
  Variable rank : Z -> Z -> Z.
  Variable cfg : aconfig.

  Theorem flush_panics_iff_partial dt a :
    flush pf rank cfg dt a = Panic <->
    FlushPartial.flush qc_ops pf rank false (stats_config cfg dt) (to_partial a) = Panic.
  Proof.
    rewrite flush_panic_iff. unfold FlushPartial.flush, to_partial. cbn [FlushPartial.a_timers].
    destruct (mapM _ _) as [ts|] eqn:E; cbn [bind].
    - split; [|discriminate]. intros (k & t & Ht & Hp). exfalso.
      assert (mapM (FlushPartial.flush_entry qc_ops pf rank false (stats_config cfg dt)) (to_entry <$> map_to_list (a_timers a)) = Panic) as Hm; [|congruence].
      apply mapM_panic. exists (to_entry (k, t)). split; [apply elem_of_list_fmap_1, elem_of_map_to_list, Ht|].
      unfold FlushPartial.flush_entry. cbn. rewrite Hp. reflexivity.
    - split; [intros _; reflexivity | intros _].
      apply mapM_panic in E as (e & He & Hp). apply elem_of_list_fmap in He as ([k t] & -> & Hkt).
      apply elem_of_map_to_list in Hkt. exists k, t. split; [exact Hkt|].
      unfold FlushPartial.flush_entry in Hp. cbn in Hp.
      destruct (Stats.flush_timer qc_ops pf rank false (stats_config cfg dt) (at_t t)); [discriminate | reflexivity].
  Qed.

  Lemma reset_panic_iff now a :
    reset pf cfg now a = Panic <->
    exists k t, a_timers a !! k = Some t /\ is_expired (ak_exp_timer cfg) now (at_ts t) = false /\
                reset_atimer pf cfg t = Panic.
  Proof.
    unfold reset. destruct (seq_map (reset_atimer pf cfg <$> omap (live_timer cfg now) (a_timers a))) as [ts|] eqn:E; cbn [bind].
    - split; [discriminate|]. intros (k & t & Ht & He & Hp). exfalso.
      apply seq_map_Ok in E as [Hok _]. apply (Hok k Panic); [|reflexivity].
      rewrite lookup_fmap, lookup_omap, Ht. cbn. unfold live_timer. rewrite He. cbn. rewrite Hp. reflexivity.
    - split; [intros _|reflexivity]. apply seq_map_Panic in E as [k Hk]. rewrite lookup_fmap, lookup_omap in Hk.
      destruct (a_timers a !! k) as [t|] eqn:Ht; [|discriminate]. cbn in Hk. unfold live_timer in Hk.
      destruct (is_expired (ak_exp_timer cfg) now (at_ts t)) eqn:He; [discriminate|]. cbn in Hk.
      exists k, t. split; [exact Ht|]. split; [exact He|].
      destruct (reset_atimer pf cfg t); [discriminate | reflexivity].
  Qed.

  (* the expiry pattern of a Reset at clock [now], as FlushPartial's label wants it *)
  Definition gone (now : Z) (a : agg) (k : skey) : bool :=
    match a_timers a !! k with Some t => is_expired (ak_exp_timer cfg) now (at_ts t) | None => false end.

  Lemma reset_entry_panic dt k t :
    FlushPartial.reset_entry qc_ops pf (stats_config cfg dt) (to_entry (k, t)) = Panic <-> reset_atimer pf cfg t = Panic.
  Proof.
    rewrite reset_atimer_shape. unfold FlushPartial.reset_entry. cbn [to_entry FlushPartial.e_timer snd stats_config c_limit].
    rewrite slice_to_0. cbn [bind].
    destruct (if has_histogram_tag _ then _ else _); cbn [bind]; split; (discriminate || reflexivity).
  Qed.

  Theorem reset_panics_iff_partial dt now a :
    reset pf cfg now a = Panic <->
    FlushPartial.reset qc_ops pf (stats_config cfg dt) (gone now a) (to_partial a) = Panic.
  Proof.
    rewrite reset_panic_iff. unfold FlushPartial.reset, to_partial. cbn [FlushPartial.a_timers].
    destruct (mapM _ _) as [ts|] eqn:E; cbn [bind].
    - split; [|discriminate]. intros (k & t & Ht & He & Hp). exfalso.
      assert (mapM (FlushPartial.reset_entry qc_ops pf (stats_config cfg dt))
                (List.filter (fun e => negb (gone now a (FlushPartial.e_key e))) (to_entry <$> map_to_list (a_timers a))) = Panic) as Hm; [|congruence].
      apply mapM_panic. exists (to_entry (k, t)). split; [|apply reset_entry_panic, Hp].
      apply elem_of_list_In, filter_In. split.
      + apply elem_of_list_In, elem_of_list_fmap_1, elem_of_map_to_list, Ht.
      + cbn. unfold gone. rewrite Ht, He. reflexivity.
    - split; [intros _; reflexivity | intros _].
      apply mapM_panic in E as (e & He & Hp). apply elem_of_list_In, filter_In in He as [He Hg].
      apply elem_of_list_In, elem_of_list_fmap in He as ([k t] & -> & Hkt). apply elem_of_map_to_list in Hkt.
      exists k, t. split; [exact Hkt|]. cbn in Hg. unfold gone in Hg. rewrite Hkt in Hg.
      split; [destruct (is_expired _ _ _); [discriminate | reflexivity] | apply (reset_entry_panic dt k t), Hp].
  Qed.
End Partial.
