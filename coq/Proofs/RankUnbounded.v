(* C04_rank_in_range at full strength: 0 <= rank p n <= n for every integer percentile |p| <= 100
   and EVERY count 0 <= n < 2^52, for the binary64 computation of the Go code
       int(math.Floor(math.Abs(pct) / 100 * float64(n) + 0.5))
   (Model/Rank.v, Coq primitive floats).  Route: Flocq's bridge from primitive floats to its
   formalisation of IEEE-754 (IEEE754/PrimFloat.v: of_int63_equiv, div_equiv, mul_equiv,
   add_equiv) and monotonicity of rounding:
       a = fl(|p| / 100)  in [0, 1]           (0 and 1 are floats)
       m = fl(a * n)      in [0, n]           (n < 2^53 is a float)
       s = fl(m + 1/2)    in [0, n + 1/2]     (n + 1/2 is a float for n < 2^52)
       floor s            in [0, n].
   The same argument gives the statement for ANY float64 threshold with |pct| <= 100
   (rank_float_in_range; the comparison is false for NaN and infinities).
   Axioms: the classical real numbers of the standard library (through Flocq) and the
   specifications of the primitive float operations (Floats.FloatAxioms). *)
From Coq Require Import ZArith Reals Floats Lia Lra Uint63.
From Flocq Require Import Core.Core IEEE754.BinarySingleNaN IEEE754.PrimFloat.
From GS Require Import Base.GoFloat.
From GS Require Import Model.Rank.
Local Open Scope Z_scope.

Notation fx := (SpecFloat.fexp prec emax).
Notation rnd := (round radix2 fx ZnearestE).

(* a finite float with a real value in an interval *)
Definition fin_in (f : PrimFloat.float) (lo hi : R) : Prop :=
  is_finite (Prim2B f) = true /\ (lo <= B2R (Prim2B f) <= hi)%R.

Lemma rnd_le x y : (x <= y)%R -> (rnd x <= rnd y)%R.
Proof. apply round_le; [apply fexp_correct; exact Hprec|apply valid_rnd_N]. Qed.
Lemma rnd_id x : generic_format radix2 fx x -> rnd x = x.
Proof. apply round_generic. apply valid_rnd_N. Qed.
Lemma rnd_0 : rnd 0%R = 0%R.
Proof. apply round_0. apply valid_rnd_N. Qed.

Lemma bpow53 : bpow radix2 53 = IZR (2^53).
Proof. rewrite <- (IZR_Zpower radix2 53) by lia. reflexivity. Qed.

(* integers of at most 53 bits, and halves of odd integers of at most 53 bits, are floats *)
Lemma format_int z : Z.abs z < 2^53 -> generic_format radix2 fx (IZR z).
Proof.
  intros H. apply generic_format_FLT. apply (FLT_spec radix2 _ _ _ (Float radix2 z 0)).
  - unfold F2R; cbn. lra.
  - exact H.
  - cbn. lia.
Qed.
Lemma format_half z : Z.abs (2 * z + 1) < 2^53 -> generic_format radix2 fx (IZR z + / 2)%R.
Proof.
  intros H. apply generic_format_FLT. apply (FLT_spec radix2 _ _ _ (Float radix2 (2 * z + 1) (-1))).
  - unfold F2R, Fnum, Fexp. rewrite plus_IZR, mult_IZR. cbn. lra.
  - exact H.
  - cbn. lia.
Qed.

Lemma no_overflow x : (Rabs x <= IZR (2^53))%R -> Rlt_bool (Rabs x) (bpow radix2 emax) = true.
Proof.
  intros H. apply Rlt_bool_true. eapply Rle_lt_trans; [exact H|]. rewrite <- bpow53. apply bpow_lt. reflexivity.
Qed.

(* float64(z) *)
Lemma of_int_fin z : 0 <= z < 2^53 -> fin_in (f64_of_int z) (IZR z) (IZR z).
Proof.
  intros Hz. unfold fin_in, f64_of_int. rewrite of_int63_equiv, Uint63.of_Z_spec.
  rewrite Z.mod_small by (change wB with (2^63); lia).
  pose proof (binary_normalize_correct prec emax Hprec Hmax mode_NE z 0 false) as H. cbv zeta in H.
  assert (E : F2R (Float radix2 z 0) = IZR z) by (unfold F2R; cbn; lra).
  rewrite E in H. change (round_mode mode_NE) with ZnearestE in H.
  rewrite rnd_id in H by (apply format_int; lia).
  rewrite no_overflow in H by (rewrite Rabs_pos_eq by (apply IZR_le; lia); apply IZR_le; lia).
  destruct H as (H1 & H2 & _). rewrite H1. split; [exact H2|lra].
Qed.

(* math.Abs(pct) / 100 *)
Lemma fraction_fin p : -100 <= p <= 100 -> fin_in (rank_fraction p) 0 1.
Proof.
  intros Hp. unfold rank_fraction.
  destruct (of_int_fin (Z.abs p)) as [F1 [L1 U1]]; [lia|]. destruct (of_int_fin 100) as [F2 [L2 U2]]; [lia|].
  assert (V1 : B2R (Prim2B (f64_of_int (Z.abs p))) = IZR (Z.abs p)) by lra.
  assert (V2 : B2R (Prim2B (f64_of_int 100)) = 100%R) by lra.
  unfold fin_in. rewrite div_equiv.
  pose proof (Bdiv_correct prec emax Hprec Hmax mode_NE (Prim2B (f64_of_int (Z.abs p))) (Prim2B (f64_of_int 100))) as H.
  rewrite V1, V2 in H. specialize (H ltac:(lra)). change (round_mode mode_NE) with ZnearestE in H.
  assert (P0 : (0 <= IZR (Z.abs p) <= 100)%R) by (split; apply IZR_le; lia).
  assert (R0 : (0 <= rnd (IZR (Z.abs p) / 100) <= 1)%R).
  { split.
    - rewrite <- rnd_0. apply rnd_le. lra.
    - rewrite <- (rnd_id 1%R) by (apply (format_int 1); lia). apply rnd_le. lra. }
  rewrite no_overflow in H by (rewrite Rabs_pos_eq by lra; apply Rle_trans with 1%R; [lra|apply IZR_le; lia]).
  destruct H as (H1 & H2 & _). rewrite H1, H2. split; [exact F1|exact R0].
Qed.

(* a * count, for any float a in [0, 1] *)
Lemma scaled_fin_gen a n : fin_in a 0 1 -> 0 <= n < 2^53 -> fin_in (a * f64_of_int n)%float 0 (IZR n).
Proof.
  intros [F1 [L1 U1]] Hn. destruct (of_int_fin n Hn) as [F2 [L2 U2]].
  assert (V2 : B2R (Prim2B (f64_of_int n)) = IZR n) by lra.
  unfold fin_in. rewrite mul_equiv.
  pose proof (Bmult_correct prec emax Hprec Hmax mode_NE (Prim2B a) (Prim2B (f64_of_int n))) as H.
  rewrite V2 in H. change (round_mode mode_NE) with ZnearestE in H.
  assert (N0 : (0 <= IZR n)%R) by (apply IZR_le; lia).
  set (ra := B2R (Prim2B a)) in *.
  assert (R0 : (0 <= rnd (ra * IZR n) <= IZR n)%R).
  { split.
    - rewrite <- rnd_0. apply rnd_le. apply Rmult_le_pos; lra.
    - rewrite <- (rnd_id (IZR n)) at 2 by (apply format_int; lia). apply rnd_le. nra. }
  rewrite no_overflow in H by (rewrite Rabs_pos_eq by lra; apply Rle_trans with (IZR n); [lra|apply IZR_le; lia]).
  destruct H as (H1 & H2 & _). rewrite H1, H2, F1, F2. split; [reflexivity|exact R0].
Qed.

Lemma half_fin : fin_in half (/ 2) (/ 2).
Proof.
  assert (E : half = 0.5%float) by (vm_compute; reflexivity). rewrite E.
  unfold fin_in, Prim2B. rewrite is_finite_SF2B, B2R_SF2B.
  assert (S : Prim2SF 0.5%float = S754_finite false 4503599627370496 (-53)) by (vm_compute; reflexivity).
  rewrite S. split; [reflexivity|]. unfold SF2R, F2R; cbn. lra.
Qed.

(* ... + 0.5, for any float m in [0, n] *)
Lemma shifted_fin_gen m n : fin_in m 0 (IZR n) -> 0 <= n < 2^52 -> fin_in (m + half)%float 0 (IZR n + / 2).
Proof.
  intros [F1 [L1 U1]] Hn. destruct half_fin as [F2 [L2 U2]].
  assert (V2 : B2R (Prim2B half) = (/ 2)%R) by lra.
  unfold fin_in. rewrite add_equiv.
  pose proof (Bplus_correct prec emax Hprec Hmax mode_NE (Prim2B m) (Prim2B half) F1 F2) as H.
  rewrite V2 in H. change (round_mode mode_NE) with ZnearestE in H.
  set (rm := B2R (Prim2B m)) in *.
  assert (R0 : (0 <= rnd (rm + / 2) <= IZR n + / 2)%R).
  { split.
    - rewrite <- rnd_0. apply rnd_le. lra.
    - apply Rle_trans with (rnd (IZR n + / 2)%R); [apply rnd_le; lra|]. rewrite rnd_id by (apply format_half; lia). lra. }
  assert (N1 : (IZR n + / 2 <= IZR (2^53))%R).
  { apply Rle_trans with (IZR (n + 1)); [rewrite plus_IZR; lra|apply IZR_le; lia]. }
  rewrite no_overflow in H by (rewrite Rabs_pos_eq by lra; lra).
  destruct H as (H1 & H2 & _). rewrite H1, H2. split; [reflexivity|exact R0].
Qed.

(* int(math.Floor(...)) of a finite float between 0 and n + 1/2 *)
Lemma floor_int_range f n : 0 <= n -> fin_in f 0 (IZR n + / 2) -> 0 <= floor_int f <= n.
Proof.
  intros Hn [F [L U]]. unfold floor_int. rewrite <- B2SF_Prim2B.
  destruct (Prim2B f) as [s|s| |s m e B]; cbn [B2SF]; try discriminate F; [lia|].
  cbn [B2R] in L, U.
  destruct s.
  - exfalso. pose proof (F2R_lt_0 radix2 (Float radix2 (cond_Zopp true (Zpos m)) e)) as H. cbn in H.
    specialize (H ltac:(lia)). cbn in L. lra.
  - cbn [cond_Zopp] in L, U. unfold F2R in L, U; cbn [Fnum Fexp] in L, U.
    destruct (0 <=? e) eqn:E.
    + assert (He : 0 <= e) by lia. rewrite <- (IZR_Zpower radix2 e He) in U. rewrite <- mult_IZR in U.
      change (Z.pow_pos 2) with (fun k => 2 ^ Zpos k) in U.
      assert (IZR (Z.pos m * radix2 ^ e) < IZR (n + 1))%R as Hlt by (rewrite plus_IZR; lra).
      apply lt_IZR in Hlt. change (radix_val radix2) with 2 in Hlt.
      split; [apply Z.mul_nonneg_nonneg; [lia|apply Z.pow_nonneg; lia]|lia].
    + assert (He : 0 <= - e) by lia.
      assert (Hp : 0 < 2 ^ (- e)) by (apply Z.pow_pos_nonneg; lia).
      split; [apply Z.div_pos; lia|].
      assert (Hb : (bpow radix2 e * IZR (2 ^ (- e)) = 1)%R).
      { change 2 with (radix_val radix2) at 1. rewrite (IZR_Zpower radix2 (- e) He), <- bpow_plus.
        replace (e + - e) with 0 by lia. reflexivity. }
      assert (P2 : (0 < IZR (2 ^ (- e)))%R) by (apply IZR_lt; exact Hp).
      assert (IZR (Z.pos m) < IZR ((n + 1) * 2 ^ (- e)))%R as Hlt.
      { rewrite mult_IZR, plus_IZR.
        assert (IZR (Z.pos m) = IZR (Z.pos m) * bpow radix2 e * IZR (2 ^ (- e)))%R as -> by (rewrite Rmult_assoc, Hb; ring).
        apply Rmult_lt_compat_r; [exact P2|lra]. }
      apply lt_IZR in Hlt. apply Z.lt_succ_r. apply Z.div_lt_upper_bound; lia.
Qed.

Theorem rank_in_range_unbounded p n :
  -100 <= p <= 100 -> 0 <= n < 2^52 -> 0 <= rank p n <= n.
Proof.
  intros Hp Hn. unfold rank, rank_shifted, rank_scaled. apply floor_int_range; [lia|].
  apply shifted_fin_gen; [|exact Hn]. apply scaled_fin_gen; [apply fraction_fin; exact Hp|lia].
Qed.

(* ---- any float64 threshold with |pct| <= 100 (the comparison is false for NaN) *)

Lemma hundred_fin : f64_of_int 100 = 100%float.
Proof. vm_compute. reflexivity. Qed.

Lemma abs_le_100 pct : (abs pct <=? f64_of_int 100)%float = true ->
  is_finite (Prim2B (abs pct)) = true /\ (0 <= B2R (Prim2B (abs pct)) <= 100)%R.
Proof.
  intros H. rewrite leb_equiv, abs_equiv in H. rewrite abs_equiv.
  destruct (of_int_fin 100) as [F2 [L2 U2]]; [lia|].
  assert (V2 : B2R (Prim2B (f64_of_int 100)) = 100%R) by lra.
  assert (Fa : is_finite (Babs (Prim2B pct)) = true).
  { destruct (Prim2B pct) as [s|s| |s m e B]; try reflexivity; exfalso.
    - unfold Bleb in H. cbn [Babs B2SF] in H. rewrite B2SF_Prim2B, hundred_fin in H. vm_compute in H. discriminate H.
    - unfold Bleb in H. cbn [Babs B2SF] in H. discriminate H. }
  split; [exact Fa|]. rewrite (Bleb_correct _ _ _ _ Fa F2), V2 in H.
  destruct (Rle_bool_spec (B2R (Babs (Prim2B pct))) 100) as [H'|H']; [|discriminate H].
  rewrite B2R_Babs in *. split; [apply Rabs_pos|exact H'].
Qed.

Lemma fraction_float_fin pct : (abs pct <=? f64_of_int 100)%float = true -> fin_in (abs pct / f64_of_int 100)%float 0 1.
Proof.
  intros Hle. destruct (abs_le_100 pct Hle) as [F1 [L1 U1]]. destruct (of_int_fin 100) as [F2 [L2 U2]]; [lia|].
  assert (V2 : B2R (Prim2B (f64_of_int 100)) = 100%R) by lra.
  unfold fin_in. rewrite div_equiv.
  pose proof (Bdiv_correct prec emax Hprec Hmax mode_NE (Prim2B (abs pct)) (Prim2B (f64_of_int 100))) as H.
  rewrite V2 in H. specialize (H ltac:(lra)). change (round_mode mode_NE) with ZnearestE in H.
  set (x := B2R (Prim2B (abs pct))) in *.
  assert (R0 : (0 <= rnd (x / 100) <= 1)%R).
  { split.
    - rewrite <- rnd_0. apply rnd_le. lra.
    - rewrite <- (rnd_id 1%R) by (apply (format_int 1); lia). apply rnd_le. lra. }
  rewrite no_overflow in H by (rewrite Rabs_pos_eq by lra; apply Rle_trans with 1%R; [lra|apply IZR_le; lia]).
  destruct H as (H1 & H2 & _). rewrite H1, H2. split; [exact F1|exact R0].
Qed.

Theorem rank_float_in_range pct n :
  (abs pct <=? f64_of_int 100)%float = true -> 0 <= n < 2^52 -> 0 <= rank_float pct n <= n.
Proof.
  intros Hp Hn. unfold rank_float. apply floor_int_range; [lia|].
  apply shifted_fin_gen; [|exact Hn]. apply scaled_fin_gen; [apply fraction_float_fin; exact Hp|lia].
Qed.
