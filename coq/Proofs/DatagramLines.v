(* C03, datagram part: the line loop of handleDatagram is total and accounts for every line. *)
From Coq Require Import Lia.
From GS Require Import Base.Bytes Model.Lexer Model.DatagramLines Proofs.LexerSafety.
Local Open Scope N_scope.

(* ---- how a message is cut into lines ---- *)

Lemma split_nl_no_rest msg cur : split_nl msg = (cur, []) -> cur = msg.
Proof.
  revert cur; induction msg as [|b r IH]; intros cur; cbn [split_nl].
  - congruence.
  - destruct (split_nl r) as [c rest]. destruct (b =? c_nl); [discriminate|].
    intros H. inversion H; subst. f_equal. apply IH. reflexivity.
Qed.

Lemma split_nl_rest_length msg cur rest :
  split_nl msg = (cur, rest) -> N.of_nat (length rest) = count_nl msg.
Proof.
  revert cur rest; induction msg as [|b r IH]; intros cur rest; cbn [split_nl count_nl].
  - intros H; inversion H; reflexivity.
  - destruct (split_nl r) as [c rs]. specialize (IH c rs eq_refl).
    destruct (b =? c_nl); intros H; inversion H; subst; cbn [length];
      rewrite ?Nat2N.inj_succ; lia.
Qed.

Lemma drop_empty_last_cons s t rest :
  drop_empty_last (s :: t :: rest) = s :: drop_empty_last (t :: rest).
Proof. reflexivity. Qed.

(* the number of lines is the code's rule: one per newline, plus one for a non-empty remainder *)
Lemma lines_length msg :
  N.of_nat (length (lines msg)) = count_nl msg + (if open_tail msg then 1 else 0).
Proof.
  unfold lines. induction msg as [|b r IH]; [reflexivity|].
  cbn [split_nl count_nl]. destruct (split_nl r) as [cur rest] eqn:E.
  destruct (N.eqb_spec b c_nl) as [->|Hb].
  - (* a newline: an empty first segment is a line of its own *)
    rewrite drop_empty_last_cons. cbn [length]. rewrite Nat2N.inj_succ, IH.
    replace (open_tail (c_nl :: r)) with (open_tail r); [lia|].
    destruct r; reflexivity.
  - destruct rest as [|t rest].
    + (* no newline in r *)
      pose proof (split_nl_rest_length _ _ _ E) as Hc. cbn [length] in Hc.
      apply split_nl_no_rest in E. subst cur. rewrite <- Hc in *.
      assert (Ho : open_tail (b :: r) = true).
      { destruct r as [|b2 r2].
        - cbn. apply N.eqb_neq in Hb. rewrite Hb. reflexivity.
        - change (open_tail (b :: b2 :: r2)) with (open_tail (b2 :: r2)).
          destruct (open_tail (b2 :: r2)); [reflexivity|]. cbn in IH. lia. }
      rewrite Ho. reflexivity.
    + rewrite !drop_empty_last_cons in *. cbn [length] in *.
      replace (open_tail (b :: r)) with (open_tail r); [lia|].
      destruct r; [discriminate|reflexivity].
Qed.

Lemma split_nl_no_nl msg cur rest :
  split_nl msg = (cur, rest) -> Forall (fun l => ~ In c_nl l) (cur :: rest).
Proof.
  revert cur rest; induction msg as [|b r IH]; intros cur rest; cbn [split_nl].
  - intros H; inversion H; subst. constructor; [intros []|constructor].
  - destruct (split_nl r) as [c rs]. specialize (IH c rs eq_refl).
    destruct (N.eqb_spec b c_nl) as [->|Hb]; intros H; inversion H; subst.
    + constructor; [intros []|exact IH].
    + inversion IH as [|x l Hx Hl]; subst. constructor; [|exact Hl].
      intros [Heq|Hin]; [congruence|tauto].
Qed.

Lemma drop_empty_last_incl segs l : In l (drop_empty_last segs) -> In l segs.
Proof.
  induction segs as [|s r IH]; [intros []|].
  destruct r as [|t r'].
  - cbn. destruct s; [intros []|auto].
  - rewrite drop_empty_last_cons. intros [H|H]; [left; exact H|right; apply IH, H].
Qed.

(* no line contains a newline *)
Lemma lines_no_nl msg : Forall (fun l => ~ In c_nl l) (lines msg).
Proof.
  unfold lines. destruct (split_nl msg) as [cur rest] eqn:E.
  apply split_nl_no_nl in E. rewrite Forall_forall in *.
  intros l Hl. apply E, drop_empty_last_incl, Hl.
Qed.

(* the lines, each terminated by a newline, are the message (plus the newline it may lack) *)
Lemma split_nl_concat msg cur rest :
  split_nl msg = (cur, rest) ->
  msg = cur ++ flat_map (fun l => c_nl :: l) rest.
Proof.
  revert cur rest; induction msg as [|b r IH]; intros cur rest; cbn [split_nl].
  - intros H; inversion H; reflexivity.
  - destruct (split_nl r) as [c rs]. specialize (IH c rs eq_refl).
    destruct (N.eqb_spec b c_nl) as [->|Hb]; intros H; inversion H; subst; cbn; congruence.
Qed.

(* ---- accounting ---- *)

Section Accounting.
  Variable pf : str -> pfres.
  Variable ns : str.

  Lemma count_lines_spec ls : forall m e b,
    count_lines pf ns ls m e b =
    DCounts (m + count_where (fun l => is_metric (lex pf ns l)) ls)
            (e + count_where (fun l => is_event (lex pf ns l)) ls)
            (b + count_where (fun l => is_reject (lex pf ns l)) ls).
  Proof.
    unfold count_where.
    induction ls as [|l r IH]; intros m e b; cbn [count_lines filter].
    - cbn. rewrite !N.add_0_r. reflexivity.
    - pose proof (lex_never_panics pf ns l) as Hnp.
      destruct (lex pf ns l); try congruence; cbn [is_metric is_event is_reject];
        rewrite IH; cbn [length]; rewrite ?Nat2N.inj_succ; f_equal; lia.
  Qed.

  Lemma outcome_partition (ls : list str) :
    count_where (fun l => is_metric (lex pf ns l)) ls
    + count_where (fun l => is_event (lex pf ns l)) ls
    + count_where (fun l => is_reject (lex pf ns l)) ls = N.of_nat (length ls).
  Proof.
    unfold count_where. induction ls as [|l r IH]; [reflexivity|].
    cbn [filter]. pose proof (lex_never_panics pf ns l) as Hnp.
    destruct (lex pf ns l); try congruence; cbn [is_metric is_event is_reject length];
      rewrite ?Nat2N.inj_succ; lia.
  Qed.

  (* every datagram is processed to the end (no panic), each line goes to exactly one of the
     three counters, and the counters add up to the number of lines *)
  Theorem parse_datagram_total (msg : str) :
    exists m e b,
      parse_datagram pf ns msg = DCounts m e b
      /\ m = count_where (fun l => is_metric (lex pf ns l)) (lines msg)
      /\ e = count_where (fun l => is_event (lex pf ns l)) (lines msg)
      /\ b = count_where (fun l => is_reject (lex pf ns l)) (lines msg)
      /\ m + e + b = count_nl msg + (if open_tail msg then 1 else 0).
  Proof.
    unfold parse_datagram. rewrite count_lines_spec. rewrite !N.add_0_l.
    do 3 eexists. split; [reflexivity|]. repeat split.
    rewrite outcome_partition. apply lines_length.
  Qed.

  (* later input is always reached: a stream of datagrams is processed to its end and every
     line of every datagram is accounted for *)
  Theorem parse_stream_total (msgs : list str) : forall m0 e0 b0,
    exists m e b,
      parse_stream pf ns msgs m0 e0 b0 = DCounts m e b
      /\ m + e + b = m0 + e0 + b0 + total_lines msgs.
  Proof.
    induction msgs as [|msg r IH]; intros m0 e0 b0; cbn [parse_stream total_lines].
    - exists m0, e0, b0. split; [reflexivity|lia].
    - destruct (parse_datagram_total msg) as (m1 & e1 & b1 & -> & _ & _ & _ & Hsum).
      destruct (IH (m0 + m1) (e0 + e1) (b0 + b1)) as (m & e & b & -> & H).
      exists m, e, b. split; [reflexivity|]. unfold line_count. lia.
  Qed.

  Corollary parse_stream_total0 (msgs : list str) :
    exists m e b,
      parse_stream pf ns msgs 0 0 0 = DCounts m e b /\ m + e + b = total_lines msgs.
  Proof.
    destruct (parse_stream_total msgs 0 0 0) as (m & e & b & H1 & H2).
    exists m, e, b. split; [exact H1|lia].
  Qed.
End Accounting.

(* non-vacuity / sanity of the counting rule *)
Example lines_example :
  lines [97; 10; 10; 98] = [[97]; []; [98]] /\ lines [97; 10] = [[97]] /\ lines [10] = [[]].
Proof. repeat split. Qed.
