(* C02, statements over ALL lines (not only rendered ones): a line without ':' or without '|' is
   rejected, and whatever is accepted is well formed. *)
From Coq Require Import Lia.
From GS Require Import Base.Bytes Model.Lexer Model.LexGrammar Proofs.LexerGrammar Proofs.LexerGrammarEvent.
Local Open Scope N_scope.

(* ---------------------------------------------------------------------------------------- *)
(* the scanning functions return a suffix of what they were given and never panic *)

Definition sub_ok {A} (res : result (A * str)) (l : str) : Prop :=
  match res with
  | Ok (_, r) => forall x, In x r -> In x l
  | Rej _ => True
  | Pan => False
  end.

Lemma lex_uint_sub l : forall v c, sub_ok (lex_uint v c l) l.
Proof.
  induction l as [|b l IH]; intros v c; cbn [lex_uint].
  - destruct c; cbn; auto.
  - destruct (is_digit b).
    + destruct (_ <? v); [exact I|].
      specialize (IH (v * 10 + (b - c_0)) true).
      destruct (lex_uint _ true l) as [[n r]| |]; cbn in *; auto.
    + destruct (b =? c_nul); [cbn; auto|]. destruct c; cbn; auto.
Qed.

Lemma lex_uint32_sub l : sub_ok (lex_uint32 l) l.
Proof.
  unfold lex_uint32. pose proof (lex_uint_sub l 0 false) as H.
  destruct (lex_uint 0 false l) as [[v r]| |]; [|exact H..].
  destruct (max_uint32 <? v); [exact I|exact H].
Qed.

Lemma lex_assert_inv c l : (exists r, l = c :: r /\ lex_assert c l = Ok r) \/ lex_assert c l = Rej EInvalidFormat.
Proof.
  destruct l as [|b r]; [right; reflexivity|]. cbn [lex_assert].
  destruct (N.eqb_spec b c) as [->|]; [left; eexists; split; reflexivity|right; reflexivity].
Qed.

(* Either the header "{n,m}:" is refused, or it was read up to and including a ':' and the rest
   of the work is the body and the attributes on a suffix [r6] of the input. *)
Lemma event_res_cases r0 :
  (exists e, event_res r0 = Rej e) \/
  (exists tl xl r6, In c_colon r0 /\ (forall x, In x r6 -> In x r0) /\
     event_res r0 = bind (event_body false tl xl r6) (fun '(title, text, r7) =>
                      lex_eattrs EAttrs (empty_event title text) [] r7)).
Proof.
  unfold event_res.
  destruct (lex_assert_inv c_lbrace r0) as [(r1 & -> & ->)| ->]; [|left; eexists; reflexivity].
  cbn [bind]. pose proof (lex_uint32_sub r1) as S1.
  destruct (lex_uint32 r1) as [[tl r2]| |]; [|left; eexists; reflexivity|destruct S1].
  cbn [bind]. destruct (lex_assert_inv c_comma r2) as [(r3 & -> & ->)| ->]; [|left; eexists; reflexivity].
  cbn [bind]. pose proof (lex_uint32_sub r3) as S2.
  destruct (lex_uint32 r3) as [[xl r4]| |]; [|left; eexists; reflexivity|destruct S2].
  cbn [bind]. destruct (lex_assert_inv c_rbrace r4) as [(r5 & -> & ->)| ->]; [|left; eexists; reflexivity].
  cbn [bind]. destruct (lex_assert_inv c_colon r5) as [(r6 & -> & ->)| ->]; [|left; eexists; reflexivity].
  cbn [bind]. right. exists tl, xl, r6. cbn [sub_ok] in S1, S2.
  assert (Hsub : forall x, In x (c_colon :: r6) -> In x (c_lbrace :: r1)).
  { intros x Hx. right. apply S1. right. apply S2. right. exact Hx. }
  split; [apply Hsub; left; reflexivity|]. split; [|reflexivity].
  intros x Hx. apply Hsub. right. exact Hx.
Qed.

Lemma event_body_nopipe tl xl r : ~ In c_pipe r -> exists e, event_body false tl xl r = Rej e.
Proof.
  intros Hp. unfold event_body, index_checked.
  destruct (N.ltb_spec (N.of_nat (length r)) (tl + 1 + xl)) as [|Hle]; [eexists; reflexivity|].
  destruct (nth_error r (N.to_nat tl)) as [b|] eqn:E.
  - apply nth_error_In in E. destruct (N.eqb_spec b c_pipe) as [->|]; [contradiction|].
    eexists; reflexivity.
  - apply nth_error_None in E. lia.
Qed.

Lemma lex_event_is pf ns r :
  lex pf ns (c_us :: r) = OReject EInvalidType \/
  exists r0, r = c_e :: r0 /\
    lex pf ns (c_us :: r) = match event_res r0 with
                            | Ok (e, tags) => OEvent (with_tags e (rev tags))
                            | Rej x => OReject x | Pan => OPanic end.
Proof.
  destruct r as [|b r0]; [left; reflexivity|].
  destruct (N.eqb_spec b c_e) as [->|Hb]; [right; exists r0; split; reflexivity|].
  left. unfold lex, lex_gen. change (c_us =? c_us) with true. cbv iota.
  unfold lex_event_gen. apply N.eqb_neq in Hb. rewrite Hb. reflexivity.
Qed.

Section WithOracle.
  Variable pf : str -> pfres.

  (* ------------------------------------------------------------------------------------ *)
  (* no ':' anywhere / no '|' anywhere: rejected, metric or event *)

  Theorem reject_no_key_sep ns l : ~ In c_colon l -> rejected (lex pf ns l).
  Proof.
    intros Hc. destruct l as [|b r]; [eexists; reflexivity|].
    destruct (N.eqb_spec b c_us) as [->|Hu].
    - destruct (lex_event_is pf ns r) as [->|(r0 & -> & ->)]; [eexists; reflexivity|].
      destruct (event_res_cases r0) as [[e ->]|(tl & xl & r6 & Hin & _)]; [eexists; reflexivity|].
      exfalso. apply Hc. right. right. exact Hin.
    - unfold lex, lex_gen. apply N.eqb_neq in Hu. rewrite Hu.
      destruct (b =? c_nul); [eexists; reflexivity|]. apply lex_metric_nocolon, Hc.
  Qed.

  Theorem reject_no_pipe ns l : ~ In c_pipe l -> rejected (lex pf ns l).
  Proof.
    intros Hp. destruct l as [|b r]; [eexists; reflexivity|].
    destruct (N.eqb_spec b c_us) as [->|Hu].
    - destruct (lex_event_is pf ns r) as [->|(r0 & -> & ->)]; [eexists; reflexivity|].
      destruct (event_res_cases r0) as [[e ->]|(tl & xl & r6 & _ & Hsub & ->)]; [eexists; reflexivity|].
      destruct (event_body_nopipe tl xl r6) as [e ->]; [|eexists; reflexivity].
      intros H. apply Hp. right. right. apply Hsub, H.
    - unfold lex, lex_gen. apply N.eqb_neq in Hu. rewrite Hu.
      destruct (b =? c_nul); [eexists; reflexivity|]. apply lex_metric_nopipe.
      intros k r1 E. apply lex_key_sep_inv in E as (raw & E & _). intros H. apply Hp.
      rewrite E. apply in_or_app. right. right. exact H.
  Qed.

  (* ------------------------------------------------------------------------------------ *)
  (* tags of whatever is accepted *)

  Definition good_cur (cur : str) : Prop := ~ In c_comma cur /\ ~ In c_pipe cur.

  Lemma good_cur_nil : good_cur [].
  Proof. split; intros []. Qed.

  Lemma good_cur_cons b cur : (b =? c_comma) = false -> (b =? c_pipe) = false ->
    good_cur cur -> good_cur (b :: cur).
  Proof.
    intros H1 H2 [G1 G2]. apply N.eqb_neq in H1, H2.
    split; (intros [?|?]; [congruence|contradiction]).
  Qed.

  Lemma good_add_tag cur tags : good_cur cur -> Forall good_tag tags -> Forall good_tag (add_tag cur tags).
  Proof.
    intros [G1 G2] Ht. unfold add_tag. destruct cur as [|b c]; [exact Ht|].
    constructor; [|exact Ht]. repeat split.
    - intros H. apply (f_equal (@length _)) in H. rewrite rev_length in H. discriminate.
    - intros H. rewrite <- in_rev in H. contradiction.
    - intros H. rewrite <- in_rev in H. contradiction.
  Qed.

  Definition mst_ok (st : mstate) : Prop := match st with MTags cur => good_cur cur | _ => True end.

  Lemma mattrs_good l : forall st rate tags rate' tags',
    mst_ok st -> Forall good_tag tags ->
    lex_mattrs pf st rate tags l = Ok (rate', tags') -> Forall good_tag tags'.
  Proof.
    induction l as [|b l IH]; intros st rate tags rate' tags' Hst Ht; cbn [lex_mattrs].
    - destruct st; try (intros [= <- <-]; assumption).
      + destruct (parse_rate pf (rev acc)); [intros [= <- <-]; assumption|discriminate..].
      + intros [= <- <-]. apply good_add_tag; assumption.
    - destruct st; cbn [mst_ok] in Hst.
      + destruct (b =? c_pipe); [apply IH; [exact I|assumption]|].
        destruct (b =? c_nul); [intros [= <- <-]; assumption|discriminate].
      + destruct (b =? c_at); [apply IH; [exact I|assumption]|].
        destruct (b =? c_hash); [apply IH; [exact good_cur_nil|assumption]|].
        apply IH; [exact I|assumption].
      + destruct (b =? c_pipe); [|apply IH; [exact I|assumption]].
        destruct (parse_rate pf (rev acc)); [apply IH; [exact I|assumption]|discriminate..].
      + destruct (b =? c_comma) eqn:E1; [apply IH; [exact good_cur_nil|apply good_add_tag; assumption]|].
        destruct (b =? c_pipe) eqn:E2; [apply IH; [exact I|apply good_add_tag; assumption]|].
        destruct (b =? c_nul).
        * apply IH; [exact I|]. apply good_add_tag; [apply good_cur_cons|]; assumption.
        * apply IH; [apply good_cur_cons|]; assumption.
      + destruct (b =? c_pipe); apply IH; first [exact I|assumption].
  Qed.

  Definition est_ok (st : estate) : Prop := match st with ETags cur => good_cur cur | _ => True end.

  Lemma eattrs_good l : forall st e tags e' tags',
    est_ok st -> Forall good_tag tags ->
    lex_eattrs st e tags l = Ok (e', tags') -> Forall good_tag tags'.
  Proof.
    induction l as [|b l IH]; intros st e tags e' tags' Hst Ht; cbn [lex_eattrs].
    - destruct st; try (intros [= <- <-]; assumption); try discriminate.
      + destruct consumed; [|discriminate].
        destruct (set_date v e); [intros [= <- <-]; assumption|discriminate..].
      + destruct (set_field k (rev acc) e); [intros [= <- <-]; assumption|discriminate..].
      + intros [= <- <-]. apply good_add_tag; assumption.
    - destruct st; cbn [est_ok] in Hst.
      + destruct (b =? c_pipe); [apply IH; [exact I|assumption]|].
        destruct (b =? c_nul); [intros [= <- <-]; assumption|discriminate].
      + destruct ((b =? c_d) || is_field_key b); [apply IH; [exact I|assumption]|].
        destruct (b =? c_hash); [apply IH; [exact good_cur_nil|assumption]|].
        apply IH; [exact I|assumption].
      + destruct (b =? c_colon); [|discriminate].
        destruct (k =? c_d); apply IH; first [exact I|assumption].
      + destruct (is_digit b).
        { destruct (_ <? v); [discriminate|]. apply IH; [exact I|assumption]. }
        destruct (b =? c_nul).
        { destruct (set_date v e); [apply IH; [exact I|assumption]|discriminate..]. }
        destruct consumed; [|discriminate].
        destruct (set_date v e); [|discriminate..].
        destruct (b =? c_pipe); [apply IH; [exact I|assumption]|discriminate].
      + destruct (b =? c_pipe); [|apply IH; [exact I|assumption]].
        destruct (set_field k (rev acc) e); [apply IH; [exact I|assumption]|discriminate..].
      + destruct (b =? c_comma) eqn:E1; [apply IH; [exact good_cur_nil|apply good_add_tag; assumption]|].
        destruct (b =? c_pipe) eqn:E2; [apply IH; [exact I|apply good_add_tag; assumption]|].
        destruct (b =? c_nul).
        * apply IH; [exact I|]. apply good_add_tag; [apply good_cur_cons|]; assumption.
        * apply IH; [apply good_cur_cons|]; assumption.
      + destruct (b =? c_pipe); apply IH; first [exact I|assumption].
  Qed.

  Lemma with_ns_nonempty ns key : key <> [] -> with_ns ns key <> [].
  Proof. intros H. destruct ns; cbn; [exact H|discriminate]. Qed.

  (* ------------------------------------------------------------------------------------ *)
  (* well-formedness of every accepted metric, for EVERY line (NUL bytes included) *)

  Lemma lex_metric_wellformed ns l m : lex_metric pf ns l = OMetric m ->
    (exists key, key <> [] /\ Forall (fun b => allowed_byte b = true) key /\ m_name m = with_ns ns key) /\
    Forall good_tag (m_tags m) /\
    f64_is_nan (m_value m) = false /\
    f64_finite_pos (m_rate m) = true.
  Proof.
    unfold lex_metric.
    destruct (lex_key_sep l) as [[key r1]| |] eqn:Ek; [|discriminate..].
    destruct key as [|kb key]; [discriminate|].
    destruct (lex_value_sep r1) as [[val r2]| |]; [|discriminate..].
    destruct (lex_type r2) as [[ty r3]| |]; [|discriminate..].
    destruct (lex_mattrs pf MAttrs f64_one [] r3) as [[rate tags]| |] eqn:Ea; [|discriminate..].
    intros H. apply finish_metric_inv in H as (Hfp & Hn & _ & Hr & Htg & Hv).
    apply lex_key_sep_inv in Ek as (raw & _ & _ & _ & Ekey).
    split; [|split; [|split]].
    - exists (kb :: key). split; [discriminate|]. split; [|exact Hn].
      rewrite Ekey. apply normalise_allowed.
    - rewrite Htg. apply Forall_rev. apply (mattrs_good r3 MAttrs f64_one [] rate tags I (Forall_nil _) Ea).
    - destruct Hv as [(_ & _ & ->)|(_ & _ & _ & Hnan)]; [reflexivity|exact Hnan].
    - rewrite Hr. exact Hfp.
  Qed.

  Lemma lex_event_not_metric w r m : lex_event_gen w r <> OMetric m.
  Proof.
    unfold lex_event_gen. destruct r as [|b r0]; [discriminate|].
    destruct (negb (b =? c_e)); [discriminate|].
    match goal with |- context [match ?x with _ => _ end] => destruct x as [[? ?]| |] end; discriminate.
  Qed.

  Theorem wellformed_metric ns l m : lex pf ns l = OMetric m ->
    m_name m <> [] /\
    (exists key, key <> [] /\ Forall (fun b => allowed_byte b = true) key /\ m_name m = with_ns ns key) /\
    Forall good_tag (m_tags m) /\
    f64_is_nan (m_value m) = false /\
    f64_finite_pos (m_rate m) = true.
  Proof.
    unfold lex, lex_gen. destruct l as [|b r]; [discriminate|].
    destruct (b =? c_us); [intros H; destruct (lex_event_not_metric _ _ _ H)|].
    destruct (b =? c_nul); [discriminate|].
    intros H. apply lex_metric_wellformed in H as (Hk & Ht & Hv & Hr).
    split; [|auto]. destruct Hk as (key & Hne & _ & ->). apply with_ns_nonempty, Hne.
  Qed.

  Theorem wellformed_event ns l e : lex pf ns l = OEvent e -> Forall good_tag (e_tags e).
  Proof.
    destruct l as [|b r]; [discriminate|].
    destruct (N.eqb_spec b c_us) as [->|Hu].
    - destruct (lex_event_is pf ns r) as [->|(r0 & -> & ->)]; [discriminate|].
      destruct (event_res_cases r0) as [[x ->]|(tl & xl & r6 & _ & _ & E)]; [discriminate|].
      rewrite E. destruct (event_body false tl xl r6) as [[[title text] r7]| |]; cbn [bind]; [|discriminate..].
      destruct (lex_eattrs EAttrs (empty_event title text) [] r7) as [[e' tags]| |] eqn:Ea; [|discriminate..].
      intros [= <-]. cbn [with_tags e_tags]. apply Forall_rev.
      apply (eattrs_good r7 EAttrs (empty_event title text) [] e' tags I (Forall_nil _) Ea).
    - unfold lex, lex_gen. apply N.eqb_neq in Hu. rewrite Hu.
      destruct (b =? c_nul); [discriminate|]. unfold lex_metric.
      destruct (lex_key_sep (b :: r)) as [[key r1]| |]; [|discriminate..].
      destruct key; [discriminate|].
      destruct (lex_value_sep r1) as [[val r2]| |]; [|discriminate..].
      destruct (lex_type r2) as [[ty r3]| |]; [|discriminate..].
      destruct (lex_mattrs pf MAttrs f64_one [] r3) as [[rate tags]| |]; [|discriminate..].
      unfold finish_metric. destruct (negb _); [discriminate|].
      destruct ty; try discriminate;
        (destruct (pf val); [discriminate| |discriminate]; destruct (f64_is_nan _); discriminate).
  Qed.

End WithOracle.

(* ---------------------------------------------------------------------------------------- *)
(* non-vacuity: every hypothesis set used in Props/C02.v is satisfiable on a non-trivial line *)

Definition ex_pf (s : str) : pfres :=
  if str_eqb s [49] then PFVal f64_one                          (* "1" *)
  else if str_eqb s [48;46;53] then PFVal 4602678819172646912   (* "0.5" *)
  else PFErr.

(* " a/b!:1|ms|@0.5|#x,,y:z|c:id|#w|@1" under namespace "ns" *)
Example ex_metric_line :
  let attrs := [ARate [48;46;53]; ATags [[120]; []; [121;58;122]]; AOther [99;58;105;100]; ATags [[119]]; ARate [49]] in
  wf_raw_name [32;97;47;98;33] /\ wf_value [49] /\ Forall wf_attr attrs /\
  lex ex_pf [110;115] (render_metric [32;97;47;98;33] [49] TokMs attrs) =
  OMetric {| m_name := [110;115;46;95;97;45;98]; m_type := Timer; m_value := f64_one; m_strval := [];
             m_rate := f64_one; m_tags := [[120]; [121;58;122]; [119]] |}.
Proof.
  cbv zeta. split; [|split; [|split]]; [| | |vm_compute; reflexivity].
  - repeat split; [cbv; intuition discriminate..|discriminate].
  - split; cbv; intuition discriminate.
  - repeat constructor; try (cbv; intuition discriminate).
    exists 99, [58;105;100]. repeat split; discriminate.
Qed.

(* "_e{2,5}:ab|c\\nde|d:12|p:low|t:error|#x,y|zz|h:h1" *)
Example ex_event_line :
  let attrs := [EADate [49;50]; EAPri true; EAAlert AError; EATags [[120];[121]]; EAOther [122;122]; EAHost [104;49]] in
  Forall wf_eattr attrs /\
  lex ex_pf [] (render_event [97;98] [99;92;110;100;101] attrs) =
  OEvent {| e_title := [97;98]; e_text := [99;10;100;101]; e_date := 12; e_host := [104;49]; e_key := [];
            e_pri := 1; e_stype := []; e_alert := 2; e_tags := [[120];[121]] |}.
Proof.
  cbv zeta. split; [|vm_compute; reflexivity].
  repeat constructor; try (cbv; intuition discriminate).
  exists 122, [122]. repeat split; discriminate.
Qed.

(* rejected lines of every class in [reject]: "ab", "a:1", "a:1|x", "a:1|c|@abc", "a:abc|c" *)
Example ex_rejects :
  lex ex_pf [] [97;98] = OReject EMissingKeySep /\
  lex ex_pf [] [97;58;49] = OReject EMissingValueSep /\
  lex ex_pf [] [97;58;49;124;120] = OReject EInvalidType /\
  lex ex_pf [] [97;58;49;124;99;124;64;97;98;99] = OReject EParseFloat /\
  lex ex_pf [] [97;58;97;98;99;124;99] = OReject EParseFloat.
Proof. repeat split; vm_compute; reflexivity. Qed.

(* what the README does not say: an unparsable '@' field rejects even when a later one is
   fine ("a:1|c|@abc|@1"), an empty field swallows the next one ("a:1|c||@abc" is accepted with
   rate 1), and a type token must be followed by '|' or the end ("a:1|cc") *)
Example ex_grammar_surprises :
  lex ex_pf [] [97;58;49;124;99;124;64;97;98;99;124;64;49] = OReject EParseFloat /\
  (exists m, lex ex_pf [] [97;58;49;124;99;124;124;64;97;98;99] = OMetric m /\ m_rate m = f64_one) /\
  lex ex_pf [] [97;58;49;124;99;99] = OReject EInvalidType.
Proof. split; [vm_compute; reflexivity|split; [eexists; split; vm_compute; reflexivity|vm_compute; reflexivity]]. Qed.

(* ---------------------------------------------------------------------------------------- *)
(* the rejection clauses of C02 in one statement *)

Theorem reject_all (pf : str -> pfres) (ns : str) :
  (forall l, ~ In c_colon l -> exists e, lex pf ns l = OReject e) /\
  (forall l, ~ In c_pipe l -> exists e, lex pf ns l = OReject e) /\
  (forall raw rest, ~ In c_colon raw -> (forall r, raw <> c_us :: r) -> ~ In c_pipe rest ->
     exists e, lex pf ns (raw ++ c_colon :: rest) = OReject e) /\
  (forall raw val tok k, wf_raw_name raw -> wf_value val ->
     ~ In c_pipe tok -> ~ In c_nul tok -> (k = [] \/ exists k', k = c_pipe :: k') ->
     (forall ty, tok <> tytok_str ty) ->
     exists e, lex pf ns (raw ++ c_colon :: val ++ c_pipe :: tok ++ k) = OReject e) /\
  (forall raw val ty attrs s, wf_raw_name raw -> wf_value val -> Forall wf_attr attrs ->
     In (ARate s) attrs -> (forall x, pf s <> PFVal x) ->
     exists e, lex pf ns (render_metric raw val ty attrs) = OReject e) /\
  (forall raw val ty attrs rate, wf_raw_name raw -> wf_value val -> Forall wf_attr attrs ->
     attrs_rate pf f64_one attrs = RateOk rate -> f64_finite_pos rate = false ->
     exists e, lex pf ns (render_metric raw val ty attrs) = OReject e) /\
  (forall raw val ty attrs, wf_raw_name raw -> wf_value val -> Forall wf_attr attrs -> ty <> TokS ->
     ((forall x, pf val <> PFVal x) \/ exists x, pf val = PFVal x /\ f64_is_nan x = true) ->
     exists e, lex pf ns (render_metric raw val ty attrs) = OReject e).
Proof.
  split; [exact (reject_no_key_sep pf ns)|]. split; [exact (reject_no_pipe pf ns)|].
  split; [exact (reject_no_value_sep pf ns)|]. split; [exact (reject_bad_type pf ns)|].
  split; [exact (reject_bad_rate pf ns)|]. split; [exact (reject_bad_rate_value pf ns)|].
  exact (reject_bad_value pf ns).
Qed.

Theorem wellformed_all (pf : str -> pfres) (ns l : str) :
  (forall m, lex pf ns l = OMetric m ->
     m_name m <> [] /\
     (exists key, key <> [] /\ Forall (fun b => allowed_byte b = true) key /\ m_name m = with_ns ns key) /\
     Forall good_tag (m_tags m) /\
     f64_is_nan (m_value m) = false /\
     f64_finite_pos (m_rate m) = true) /\
  (forall e, lex pf ns l = OEvent e -> Forall good_tag (e_tags e)).
Proof. split; [exact (wellformed_metric pf ns l)|exact (wellformed_event pf ns l)]. Qed.

(* hypotheses of the remaining clauses of [reject_all] on "a:1|x|#t", "a:1|c|@abc", "a:1|c|@0.5|@0",
   "a:abc|g", and leading zeros in an event header "_e{01,002}:a|bc|d:007" *)
Definition ex_pf0 (s : str) : pfres := if str_eqb s [48] then PFVal 0 else ex_pf s.

Example ex_reject_hyps :
  (wf_raw_name [97] /\ wf_value [49] /\ ~ In c_pipe [120] /\ ~ In c_nul [120] /\
   (forall ty, [120] <> tytok_str ty) /\
   lex ex_pf [] ([97] ++ c_colon :: [49] ++ c_pipe :: [120] ++ c_pipe :: [35;116]) = OReject EInvalidType) /\
  (Forall wf_attr [ARate [97;98;99]] /\ (forall x, ex_pf [97;98;99] <> PFVal x)) /\
  (Forall wf_attr [ARate [48;46;53]; ARate [48]] /\
   attrs_rate ex_pf0 f64_one [ARate [48;46;53]; ARate [48]] = RateOk 0 /\ f64_finite_pos 0 = false /\
   lex ex_pf0 [] (render_metric [97] [49] TokC [ARate [48;46;53]; ARate [48]]) = OReject EInvalidRate) /\
  (wf_value [97;98;99] /\ TokG <> TokS /\ (forall x, ex_pf [97;98;99] <> PFVal x)).
Proof.
  repeat split; try (cbv; intuition discriminate); try (vm_compute; reflexivity).
  - intros ty; destruct ty; discriminate.
  - repeat constructor. cbv; intuition discriminate.
  - repeat constructor; cbv; intuition discriminate.
Qed.

Example ex_event_digits :
  is_number [48;49] /\ digit_value [48;49] = 1 /\ is_number [48;48;50] /\ digit_value [48;48;50] = 2 /\
  Forall wf_eattr [EADate [48;48;55]] /\
  lex ex_pf [] (render_event_digits [48;49] [48;48;50] [97] [98;99] [EADate [48;48;55]]) =
  OEvent {| e_title := [97]; e_text := [98;99]; e_date := 7; e_host := []; e_key := [];
            e_pri := 0; e_stype := []; e_alert := 0; e_tags := [] |}.
Proof.
  repeat split; try discriminate; try (repeat constructor); try (vm_compute; reflexivity).
  all: try (cbv; discriminate).
Qed.
