(* The configured pipeline (Model/PipelineBounded.v) refines the unrestricted LTS
   (Model/Pipeline.v): every bounded run maps, label by label, to an unbounded run reaching the
   related state.  Hence conservation and exactness for every configuration (parsers >= 0,
   shards >= 1, queue capacity >= 0), and freedom from deadlock. *)
From stdpp Require Import gmap gmultiset.
From Coq Require Import QArith Qcanon Lia.
From GS Require Import Base.Bytes Base.LTS Model.Lexer Model.Series Model.MetricMap Model.Content Model.Pipeline
  Model.PipelineBounded.
From GS Require Import Proofs.MetricMapMerge Proofs.PipelineAlgebra Proofs.Pipeline Proofs.PipelineReported.

Arguments Z.add : simpl never.
Local Open Scope nat_scope.

Ltac content_ac :=
  apply content_eq;
  rewrite ?ctr_op, ?vals_op, ?samp_op, ?mem_op, ?ctr_unit, ?vals_unit, ?samp_unit, ?mem_unit;
  [lia | multiset_solver | ring | set_solver].

(* ---------------------------------------------------------------------------------------- *)
(* lists *)

Lemma concat_lookup_perm {A} (l : list (list A)) p x :
  l !! p = Some x → concat l ≡ₚ x ++ concat (delete p l).
Proof.
  intros H. rewrite <- (take_drop_middle l p x H) at 1. rewrite delete_take_drop, !concat_app, concat_cons.
  apply Permutation_app_swap_app.
Qed.
Lemma concat_insert_perm {A} (l : list (list A)) p x y :
  l !! p = Some x → concat (<[p := y]> l) ≡ₚ y ++ concat (delete p l).
Proof.
  intros H. rewrite insert_take_drop by (by eapply lookup_lt_Some).
  rewrite delete_take_drop, !concat_app, concat_cons. apply Permutation_app_swap_app.
Qed.

Lemma filter_ext_in {A} (P Q : A → Prop) `{∀ x, Decision (P x)} `{∀ x, Decision (Q x)} (l : list A) :
  (∀ x, x ∈ l → P x ↔ Q x) → base.filter P l = base.filter Q l.
Proof.
  induction l as [|x l IH]; intros Hx; [done|]. rewrite !filter_cons.
  assert (Hl : ∀ y, y ∈ l → P y ↔ Q y) by (intros y Hy; apply Hx; by right).
  rewrite (IH Hl). destruct (decide (P x)) as [Hp|Hp], (decide (Q x)) as [Hq|Hq]; try done.
  - exfalso. apply Hq, Hx; [by left|done].
  - exfalso. apply Hp, Hx; [by left|done].
Qed.

Lemma total_perm {A} (f : A → skey → content) l l' k : l ≡ₚ l' → total f l k = total f l' k.
Proof.
  induction 1 as [|x l l' _ IH|x y l|l1 l2 l3 _ IH1 _ IH2].
  - done.
  - by rewrite !total_cons, IH.
  - rewrite !total_cons. content_ac.
  - by rewrite IH1.
Qed.

(* ---------------------------------------------------------------------------------------- *)
(* bounded invariant *)

Record binv (bc : bconfig) (b : bstate) : Prop := {
  bi_busy_len : length (bs_busy b) = cfg_shards (bc_cfg bc);
  bi_pend_len : length (bs_pending b) = bc_parsers bc;
  bi_busy : ∀ i, bs_busy b !! i = Some true → ∃ f nx, bs_flush b = Some (f, nx) ∧ i < nx;
  bi_next : ∀ f nx, bs_flush b = Some (f, nx) → nx ≤ cfg_shards (bc_cfg bc)
}.

Lemma binv_init bc : binv bc (binit bc).
Proof.
  split; cbn.
  - apply replicate_length.
  - apply replicate_length.
  - intros i H. apply lookup_replicate in H as [? _]. done.
  - done.
Qed.

Lemma filter_none {A} (P : A → Prop) `{∀ x, Decision (P x)} (l : list A) :
  (∀ x, x ∈ l → ¬ P x) → base.filter P l = [].
Proof.
  induction l as [|x l IH]; intros Hx; [done|]. rewrite filter_cons.
  destruct (decide (P x)) as [Hp|_]; [exfalso; apply (Hx x); [by left|done]|].
  apply IH. intros y Hy. apply Hx. by right.
Qed.

Lemma filter_all {A} (P : A → Prop) `{∀ x, Decision (P x)} (l : list A) :
  (∀ x, x ∈ l → P x) → base.filter P l = l.
Proof.
  induction l as [|x l IH]; intros Hx; [done|]. rewrite filter_cons.
  destruct (decide (P x)) as [_|Hp]; [|exfalso; apply Hp, Hx; by left].
  f_equal. apply IH. intros y Hy. apply Hx. by right.
Qed.

Lemma forallb_negb_false (l : list bool) : forallb negb l = true ↔ ∀ x, x ∈ l → x = false.
Proof.
  rewrite forallb_forall. split; intros H x Hx.
  - apply elem_of_list_In in Hx. specialize (H x Hx). by destruct x.
  - apply elem_of_list_In in Hx. rewrite (H x Hx). done.
Qed.

Lemma still_pending_idle n nx busy i :
  n ≤ nx → (∀ x, x ∈ busy → x = false) → i < n → still_pending nx busy i = false.
Proof.
  intros Hn Hb Hi. unfold still_pending. apply orb_false_iff. split; [apply Nat.leb_gt; lia|].
  destruct (busy !! i) as [x|] eqn:E; [|done]. cbn. apply Hb. by eapply elem_of_list_lookup_2.
Qed.

Lemma abs_flush_idle n busy fl :
  bflush_idle n busy fl = true → flush_idle (abs_flush n busy fl) = true.
Proof.
  destruct fl as [[f nx]|]; [|done]. cbn. rewrite andb_true_iff, Nat.leb_le, forallb_negb_false. intros [Hn Hb].
  rewrite filter_none; [done|]. intros x Hx. apply elem_of_seq in Hx.
  rewrite (still_pending_idle n nx busy x); [done|done|done|lia].
Qed.

(* ---------------------------------------------------------------------------------------- *)
(* one bounded step is matched by the unbounded steps of its image *)

Lemma bstep_sim bc b l b' s :
  binv bc b → related bc b s → bstep bc b l = Some b' →
  ∃ ls s', label_image l ls ∧ run (step (bc_cfg bc)) s ls = Some s' ∧ related bc b' s' ∧ binv bc b'.
Proof.
  intros [Hbl Hpl Hbusy Hnext] (Ri & Rf & Rq & Ra & Rn & Rfl & Ro) Hstep.
  destruct s as [inp infl qs ags nf fl out]; destruct b as [binp pend bqs bags busy bnf bfl bout].
  cbn [st_input st_inflight st_queue st_aggr st_nflush st_flushing st_out
       bs_input bs_pending bs_queue bs_aggr bs_busy bs_nflush bs_flush bs_out] in *.
  subst inp qs ags nf fl out.
  destruct l as [p ds|p|p|i|f|i|i now];
    cbn [bstep bs_input bs_pending bs_queue bs_aggr bs_busy bs_nflush bs_flush bs_out] in Hstep.
  - (* BParse *)
    destruct (pend !! p) as [[|? ?]|] eqn:Ep; try done. injection Hstep as <-.
    eexists [Parse ds], _. split; [done|]. split; [reflexivity|]. split.
    + repeat split; cbn; try done.
      rewrite (concat_insert_perm _ _ _ _ Ep), Rf, (concat_lookup_perm _ _ _ Ep). cbn.
      apply Permutation_app_comm.
    + split; cbn; try done. by rewrite insert_length.
  - (* BEnq *)
    destruct (pend !! p) as [[|[i m] rest]|] eqn:Ep; try done.
    destruct (bqs !! i) as [q|] eqn:Eq; [|done]. destruct (length q <? bc_qcap bc); [|done]. injection Hstep as <-.
    assert (Hin : (i, m) ∈ infl).
    { rewrite Rf, (concat_lookup_perm _ _ _ Ep). by left. }
    apply elem_of_list_lookup in Hin as [j Hj].
    eexists [Enq j], _. split; [by exists j|]. split; [cbn; rewrite Hj, Eq; reflexivity|]. split.
    + repeat split; cbn; try done.
      rewrite (concat_insert_perm _ _ _ _ Ep).
      apply (Permutation_cons_inv (a := (i, m))).
      rewrite <- (delete_Permutation _ _ _ Hj), Rf, (concat_lookup_perm _ _ _ Ep). done.
    + split; cbn; try done. by rewrite insert_length.
  - (* BRdv *)
    destruct (bc_qcap bc); [|done].
    destruct (pend !! p) as [[|[i m] rest]|] eqn:Ep; try done.
    destruct (bqs !! i) as [[|? ?]|] eqn:Eq; try done.
    destruct (busy !! i) as [[|]|] eqn:Eb; try done.
    destruct (bags !! i) as [a|] eqn:Ea; [|done]. injection Hstep as <-.
    assert (Hin : (i, m) ∈ infl).
    { rewrite Rf, (concat_lookup_perm _ _ _ Ep). by left. }
    apply elem_of_list_lookup in Hin as [j Hj].
    eexists [Enq j; Merge i], _. split; [by exists j, i|]. split.
    { cbn. rewrite Hj, Eq. cbn. rewrite list_lookup_insert by (by eapply lookup_lt_Some). cbn. rewrite Ea. reflexivity. }
    split.
    + repeat split; cbn; try done.
      * rewrite (concat_insert_perm _ _ _ _ Ep).
        apply (Permutation_cons_inv (a := (i, m))).
        rewrite <- (delete_Permutation _ _ _ Hj), Rf, (concat_lookup_perm _ _ _ Ep). done.
      * rewrite list_insert_insert. by apply list_insert_id.
    + split; cbn; try done. by rewrite insert_length.
  - (* BMerge *)
    destruct (bqs !! i) as [[|m q]|] eqn:Eq; try done.
    destruct (busy !! i) as [[|]|] eqn:Eb; try done.
    destruct (bags !! i) as [a|] eqn:Ea; [|done]. injection Hstep as <-.
    eexists [Merge i], _. split; [done|]. split; [cbn; rewrite Eq, Ea; reflexivity|]. split.
    + repeat split; cbn; done.
    + split; cbn; done.
  - (* BTick *)
    destruct (bool_decide_reflect (f = bnf)) as [->|]; [|done].
    destruct (bflush_idle _ busy bfl) eqn:Eidle; [|done]. cbn in Hstep. injection Hstep as <-.
    eexists [Tick bnf], _. split; [done|]. split.
    { cbn. rewrite bool_decide_eq_true_2 by done. rewrite (abs_flush_idle _ _ _ Eidle). reflexivity. }
    assert (Hallf : ∀ x, x ∈ busy → x = false).
    { destruct bfl as [[f nx]|]; cbn in Eidle.
      - apply andb_true_iff in Eidle as [_ E]. by apply forallb_negb_false.
      - intros x Hx. destruct x; [|done]. apply elem_of_list_lookup in Hx as [i Hi].
        by destruct (Hbusy i Hi) as (? & ? & ? & _). }
    split.
    + repeat split; cbn; try done. f_equal. f_equal. symmetry. apply filter_all. intros x Hx. done.
    + split; cbn; try done.
      * intros i Hi. exfalso. apply elem_of_list_lookup_2 in Hi. by apply Hallf in Hi.
      * intros f' nx [= <- <-]. lia.
  - (* BCmd: no unbounded step; the set of shards still to run is unchanged *)
    destruct bfl as [[f nx]|]; [|done]. destruct (busy !! i) as [[|]|] eqn:Eb; try done.
    destruct (bool_decide_reflect (nx = i)) as [->|]; [|done]. injection Hstep as <-.
    exists [], (MkState binp infl bqs bags bnf (abs_flush (cfg_shards (bc_cfg bc)) busy (Some (f, i))) bout).
    split; [done|]. split; [reflexivity|]. split.
    + repeat split; cbn; try done. f_equal. f_equal. apply filter_ext_in. intros x Hx.
      unfold still_pending. destruct (decide (x = i)) as [->|Hne].
      * rewrite list_lookup_insert by (by eapply lookup_lt_Some). cbn.
        rewrite (proj2 (Nat.leb_le i i)) by lia. rewrite orb_true_r. done.
      * rewrite list_lookup_insert_ne by done.
        destruct (Nat.leb_spec i x), (Nat.leb_spec (S i) x); try done; lia.
    + split; cbn; try done.
      * by rewrite insert_length.
      * intros j Hj. destruct (decide (j = i)) as [->|Hne]; [exists f, (S i); split; [done|lia]|].
        rewrite list_lookup_insert_ne in Hj by done. destruct (Hbusy j Hj) as (f' & nx' & [= <- <-] & Hlt).
        exists f, (S i). split; [done|lia].
      * intros f' nx' [= <- <-]. apply lookup_lt_Some in Eb. lia.
  - (* BExec *)
    destruct bfl as [[f nx]|]; [|done]. destruct (busy !! i) as [[|]|] eqn:Eb; try done.
    destruct (bags !! i) as [a|] eqn:Ea; [|done]. injection Hstep as <-.
    destruct (Hbusy i Eb) as (f' & nx' & [= <- <-] & Hlt).
    assert (Hin : i < cfg_shards (bc_cfg bc)) by (apply lookup_lt_Some in Eb; lia).
    eexists [FlushShard i now], _. split; [done|]. split.
    { cbn. rewrite Ea. rewrite bool_decide_eq_true_2; [reflexivity|].
      apply elem_of_list_filter. split; [|apply elem_of_seq; lia].
      unfold still_pending. rewrite Eb. cbn. by rewrite orb_true_r. }
    split.
    + repeat split; cbn; try done. f_equal. f_equal. rewrite list_filter_filter. apply filter_ext_in. intros x Hx.
      unfold still_pending. destruct (decide (x = i)) as [->|Hne].
      * rewrite list_lookup_insert by (by eapply lookup_lt_Some). cbn.
        rewrite (proj2 (Nat.leb_gt nx i)) by lia. cbn. split; [intros [? _]; done|done].
      * rewrite list_lookup_insert_ne by done. split; [by intros [_ ?]|done].
    + split; cbn; try done.
      * by rewrite insert_length.
      * intros j Hj. destruct (decide (j = i)) as [->|Hne].
        -- rewrite list_lookup_insert in Hj by (by eapply lookup_lt_Some). done.
        -- rewrite list_lookup_insert_ne in Hj by done. by apply Hbusy.
Qed.

(* ---------------------------------------------------------------------------------------- *)
(* runs *)

Lemma concat_replicate_nil {A} n : concat (replicate n (@nil A)) = [].
Proof. induction n as [|n IH]; [done|]. cbn. exact IH. Qed.

Lemma concat_all_nil {A} (l : list (list A)) : (∀ x, x ∈ l → x = []) → concat l = [].
Proof.
  induction l as [|x l IH]; intros H; [done|]. cbn. rewrite (H x) by (by left). cbn. apply IH.
  intros y Hy. apply H. by right.
Qed.

Lemma related_init bc : related bc (binit bc) (init (bc_cfg bc)).
Proof. repeat split; cbn; try done. by rewrite concat_replicate_nil. Qed.

Lemma brun_sim bc bls b s b' :
  binv bc b → related bc b s → run (bstep bc) b bls = Some b' →
  ∃ segs s', Forall2 label_image bls segs ∧ run (step (bc_cfg bc)) s (concat segs) = Some s'
             ∧ related bc b' s' ∧ binv bc b'.
Proof.
  revert b s. induction bls as [|l bls IH]; intros b s Hi Hr Hrun.
  - injection Hrun as <-. exists [], s. split; [constructor|]. by split.
  - change (run (bstep bc) b (l :: bls))
      with (match bstep bc b l with Some b1 => run (bstep bc) b1 bls | None => None end) in Hrun.
    destruct (bstep bc b l) as [b1|] eqn:E; [|done].
    destruct (bstep_sim bc b l b1 s Hi Hr E) as (ls & s1 & Him & Hrun1 & Hr1 & Hi1).
    destruct (IH b1 s1 Hi1 Hr1 Hrun) as (segs & s' & Hf & Hrun' & Hr' & Hi').
    exists (ls :: segs), s'. split; [by constructor|]. split; [|done].
    cbn [concat]. by rewrite run_app, Hrun1.
Qed.

(* C01_bounded_refines *)
Lemma bounded_refines bc bls b :
  run (bstep bc) (binit bc) bls = Some b →
  ∃ segs s, Forall2 label_image bls segs
            ∧ run (step (bc_cfg bc)) (init (bc_cfg bc)) (concat segs) = Some s
            ∧ related bc b s.
Proof.
  intros Hrun. destruct (brun_sim bc bls _ _ b (binv_init bc) (related_init bc) Hrun) as (segs & s & ? & ? & ? & _).
  by exists segs, s.
Qed.

Lemma bounded_reach bc bls b :
  run (bstep bc) (binit bc) bls = Some b →
  ∃ ls s, run (step (bc_cfg bc)) (init (bc_cfg bc)) ls = Some s ∧ related bc b s ∧ binv bc b.
Proof.
  intros Hrun. destruct (brun_sim bc bls _ _ b (binv_init bc) (related_init bc) Hrun) as (segs & s & ? & ? & ? & ?).
  by exists (concat segs), s.
Qed.

(* ---- conservation for every configuration ---- *)
Lemma bounded_conservation bc bls b :
  cfg_shards (bc_cfg bc) ≠ 0 → run (bstep bc) (binit bc) bls = Some b →
  ∀ k, total dp_cnt (bs_input b) k
       = total cnt ((λ x, x.2) <$> bs_out b) k ⊕ total cnt (bs_aggr b) k
         ⊕ total cnt (concat (bs_queue b)) k ⊕ total cnt ((λ x, x.2) <$> concat (bs_pending b)) k.
Proof.
  intros Hn Hrun k. destruct (bounded_reach bc bls b Hrun) as (ls & s & Hr & (Ri & Rf & Rq & Ra & _ & _ & Ro) & _).
  pose proof (conservation _ ls s Hn Hr k) as C.
  unfold input_total, out_total, aggr_total, queue_total, inflight_total in C.
  rewrite Ri, Ro, Ra, Rq in C. rewrite C. f_equal. apply total_perm. by apply fmap_Permutation.
Qed.

(* ---- exactness for every configuration ---- *)
Lemma image_flush_labels bls segs :
  Forall is_bflush_label bls → Forall2 label_image bls segs → Forall is_flush_label (concat segs).
Proof.
  intros Hf H2. induction H2 as [|l ls bls segs Him _ IH]; [constructor|].
  apply Forall_cons_1 in Hf as [Hl Hf]. cbn [concat]. apply Forall_app. split; [|by apply IH].
  destruct l; cbn in Hl, Him; try done; subst ls; repeat constructor.
Qed.
Lemma image_shard_labels bls segs :
  Forall is_bshard_label bls → Forall2 label_image bls segs → Forall is_shard_label (concat segs).
Proof.
  intros Hf H2. induction H2 as [|l ls bls segs Him _ IH]; [constructor|].
  apply Forall_cons_1 in Hf as [Hl Hf]. cbn [concat]. apply Forall_app. split; [|by apply IH].
  destruct l; cbn in Hl, Him; try done; subst ls; repeat constructor.
Qed.

Lemma bounded_exact_at_quiescence bc bls b bls' b' f :
  cfg_shards (bc_cfg bc) ≠ 0 →
  run (bstep bc) (binit bc) bls = Some b → bquiescent bc b →
  run (bstep bc) b bls' = Some b' →
  (∃ pre post, bls' = pre ++ BTick f :: post ∧ Forall is_bflush_label pre ∧ Forall is_bshard_label post) →
  bflush_complete bc f b' →
  ∀ k, total dp_cnt (bs_input b) k = total cnt ((λ x, x.2) <$> bs_out b') k.
Proof.
  intros Hn Hrun [Hq1 Hq2] Hrun' (pre & post & -> & Hpre & Hpost) (nx & Hfl & Hnx & Hbusy) k.
  destruct (bounded_reach bc bls b Hrun) as (ls & s & Hr & Hrel & Hbi).
  destruct (brun_sim bc _ b s b' Hbi Hrel Hrun') as (segs & s' & H2 & Hr' & Hrel' & _).
  apply Forall2_app_inv_l in H2 as (segs1 & segs2 & H21 & H22 & ->).
  apply Forall2_cons_inv_l in H22 as (seg & segs3 & Him & H23 & ->). cbn in Him. subst seg.
  destruct Hrel as (Ri & Rf & Rq & _). destruct Hrel' as (_ & _ & _ & _ & _ & Rfl' & Ro').
  rewrite <- Ri, <- Ro'.
  apply (exact_at_quiescence (bc_cfg bc) ls s (concat (segs1 ++ [Tick f] :: segs3)) s' f Hn Hr); [|done| |].
  - split.
    + apply Permutation_nil. rewrite Rf. by rewrite concat_all_nil.
    + rewrite Rq. done.
  - exists (concat segs1), (concat segs3). split; [by rewrite concat_app|].
    split; [by eapply image_flush_labels|by eapply image_shard_labels].
  - unfold flush_complete. rewrite Rfl', Hfl. cbn. f_equal. f_equal. apply filter_none.
    intros x Hx. apply elem_of_seq in Hx. rewrite (still_pending_idle _ nx _ x Hnx Hbusy); [done|lia].
Qed.

(* ---------------------------------------------------------------------------------------- *)
(* no deadlock: unless nothing at all is going on, the pipeline can take a step by itself *)

Lemma all_or_some {A} (P : A → Prop) `{∀ x, Decision (P x)} (l : list A) :
  Forall P l ∨ ∃ x, x ∈ l ∧ ¬ P x.
Proof.
  destruct (decide (Forall P l)) as [?|Hn]; [by left|right].
  apply not_Forall_Exists in Hn; [|intros x; apply _]. apply list.Exists_exists in Hn. exact Hn.
Qed.

Lemma bounded_no_deadlock bc bls b :
  run (bstep bc) (binit bc) bls = Some b →
  bidle bc b ∨ ∃ l b', is_internal l ∧ bstep bc b l = Some b'.
Proof.
  intros Hrun. destruct (bounded_reach bc bls b Hrun) as (ls & s & Hr & (Ri & Rf & Rq & Ra & _ & _ & Ro) & [Hbl Hpl Hbusy Hnext]).
  pose proof (inv_run _ ls s Hr) as [Hql Hal _ _ _ _]. rewrite Rq in Hql. rewrite Ra in Hal.
  pose proof (λ i m, inflight_shard_lt _ ls s i m Hr) as Hlt.
  destruct b as [binp pend bqs bags busy bnf bfl bout].
  cbn [bs_input bs_pending bs_queue bs_aggr bs_busy bs_nflush bs_flush bs_out] in *.
  assert (Hagg : ∀ i, i < cfg_shards (bc_cfg bc) → is_Some (bags !! i)) by (intros i Hi; apply lookup_lt_is_Some_2; lia).
  (* a worker executing a command can finish it *)
  destruct (all_or_some (λ x : bool, x = false) busy) as [Hfree|(x & Hx & Hne)].
  2: { right. destruct x; [|done]. apply elem_of_list_lookup in Hx as [i Hi].
       destruct (Hbusy i Hi) as (f & nx & -> & _). destruct (Hagg i) as [a Ha]; [apply lookup_lt_Some in Hi; lia|].
       exists (BExec i 0). eexists. split; [done|]. cbn. rewrite Hi, Ha. reflexivity. }
  rewrite list.Forall_forall in Hfree.
  assert (Hfree' : ∀ i, i < cfg_shards (bc_cfg bc) → busy !! i = Some false).
  { intros i Hi. destruct (lookup_lt_is_Some_2 busy i) as [x Hx]; [lia|]. rewrite Hx. f_equal. apply Hfree.
    by eapply elem_of_list_lookup_2. }
  (* the flusher can hand the command to the next worker *)
  assert (Hnofl : (∃ f nx, bfl = Some (f, nx) ∧ nx < cfg_shards (bc_cfg bc)) ∨ bflush_idle (cfg_shards (bc_cfg bc)) busy bfl = true).
  { destruct bfl as [[f nx]|]; [|by right]. destruct (decide (nx < cfg_shards (bc_cfg bc))) as [?|Hge]; [left; eauto|right].
    cbn. apply andb_true_iff. split; [apply Nat.leb_le; lia|]. apply forallb_negb_false. exact Hfree. }
  destruct Hnofl as [(f & nx & -> & Hnx)|Hidle].
  { right. exists (BCmd nx). eexists. split; [done|]. cbn. rewrite (Hfree' nx Hnx), bool_decide_eq_true_2 by done. reflexivity. }
  (* a worker can take the head of its queue *)
  destruct (all_or_some (λ q : list mmap, q = []) bqs) as [Hqe|(q & Hq & Hne)].
  2: { right. apply elem_of_list_lookup in Hq as [i Hi].
       destruct q as [|m q]; [done|]. assert (Hi' : i < cfg_shards (bc_cfg bc)) by (apply lookup_lt_Some in Hi; lia).
       destruct (Hagg i Hi') as [a Ha]. exists (BMerge i). eexists. split; [done|]. cbn. rewrite Hi, (Hfree' i Hi'), Ha. reflexivity. }
  rewrite list.Forall_forall in Hqe.
  (* a parser can send its next split *)
  destruct (all_or_some (λ q : list (nat * mmap), q = []) pend) as [Hpe|(l & Hl & Hne)].
  2: { right. apply elem_of_list_lookup in Hl as [p Hp].
       destruct l as [|[i m] rest]; [done|].
       assert (Hi : i < cfg_shards (bc_cfg bc)).
       { apply (Hlt i m). rewrite Rf, (concat_lookup_perm _ _ _ Hp). by left. }
       destruct (lookup_lt_is_Some_2 bqs i) as [q Hq]; [lia|].
       assert (q = []) as -> by (apply Hqe; by eapply elem_of_list_lookup_2).
       destruct (Hagg i Hi) as [a Ha].
       destruct (bc_qcap bc) as [|cap] eqn:Ecap.
       - exists (BRdv p). eexists. split; [done|]. cbn. rewrite Ecap, Hp, Hq, (Hfree' i Hi), Ha. reflexivity.
       - exists (BEnq p). eexists. split; [done|]. cbn. rewrite Hp, Hq, Ecap. cbn. reflexivity. }
  rewrite list.Forall_forall in Hpe.
  left. split; [by split|]. split; [done|]. exact Hidle.
Qed.
