(* The relay's metric lines parse back under the lexer model (Model/Lexer.v) to the series they
   were printed from.  Proved for a weaker side condition than C17's alphabets (no separator
   bytes), then specialised. *)
From Coq Require Import Lia ZifyBool ZifyN.
From GS Require Import Base.Bytes Model.Lexer Model.Series Model.Batching Model.Relay.
Local Open Scope N_scope.

Lemma tag_byte_sep_free b : tag_byte b = true -> sep_free b = true.
Proof.
  unfold tag_byte, sep_free, is_alnum, is_lower, is_upper, is_digit,
    c_us, c_dot, c_colon, c_slash, c_dash, c_comma, c_pipe, c_nul, c_0, c_9. lia.
Qed.
Lemma forallb_impl {A} (p q : A -> bool) l : (forall x, p x = true -> q x = true) ->
  forallb p l = true -> forallb q l = true.
Proof.
  intros H. induction l as [|x l IH]; [reflexivity|]. cbn. intros E.
  apply andb_prop in E. destruct E as [E1 E2]. now rewrite (H _ E1), (IH E2).
Qed.
Lemma tag_ok_good t : tag_ok t -> tag_good t.
Proof. intros [H1 H2]. split; [exact H1 | exact (forallb_impl _ _ _ tag_byte_sep_free H2)]. Qed.

(* ---- key *)
Lemma norm_name_byte b : name_byte b = true ->
  norm_byte b = Some b /\ (b =? c_colon) = false /\ (b =? c_nul) = false.
Proof.
  unfold name_byte, norm_byte. intros H.
  assert ((b =? c_slash) = false) as -> by
    (unfold is_alnum, is_lower, is_upper, is_digit, c_us, c_dot, c_dash, c_slash, c_0, c_9 in *; lia).
  assert ((b =? c_space) || (b =? c_tab) = false) as -> by
    (unfold is_alnum, is_lower, is_upper, is_digit, c_us, c_dot, c_dash, c_space, c_tab, c_0, c_9 in *; lia).
  split; [|unfold is_alnum, is_lower, is_upper, is_digit, c_us, c_dot, c_dash, c_colon, c_nul, c_0, c_9 in *; lia].
  destruct ((b =? c_dot) || (b =? c_dash) || (b =? c_us)) eqn:E; [reflexivity|].
  assert (is_alnum b = true) as -> by lia. reflexivity.
Qed.

Lemma lex_key_sep_name name r : forallb name_byte name = true ->
  lex_key_sep (name ++ c_colon :: r) = Ok (name, r).
Proof.
  induction name as [|b name IH]; intros H.
  - cbn. reflexivity.
  - cbn [forallb] in H. apply andb_prop in H. destruct H as [Hb Hn].
    destruct (norm_name_byte b Hb) as (N1 & N2 & N3).
    cbn [app lex_key_sep]. rewrite N2, N3, (IH Hn), N1. reflexivity.
Qed.

(* ---- value *)
Lemma lex_value_sep_value v r : value_ok v -> lex_value_sep (v ++ c_pipe :: r) = Ok (v, r).
Proof.
  unfold value_ok. induction v as [|b v IH]; intros H.
  - reflexivity.
  - cbn [forallb] in H. apply andb_prop in H. destruct H as [Hb Hv].
    cbn [app lex_value_sep].
    destruct (b =? c_pipe) eqn:E1; [discriminate|]. destruct (b =? c_nul) eqn:E2; [discriminate|].
    now rewrite (IH Hv).
Qed.

Lemma lex_type_token ty r : lex_type (type_token ty ++ r) = Ok (ty, r).
Proof. destruct ty; reflexivity. Qed.

(* ---- tags *)
Lemma join_snoc sep (l : list str) : forall x t,
  join sep ((x :: l) ++ [t]) = join sep (x :: l) ++ sep :: t.
Proof.
  induction l as [|a l IH]; intros x t; [reflexivity|].
  change (join sep ((x :: a :: l) ++ [t])) with (x ++ sep :: join sep ((a :: l) ++ [t])).
  rewrite IH. change (join sep (x :: a :: l)) with (x ++ sep :: join sep (a :: l)).
  now rewrite <- app_assoc.
Qed.

Section Attrs.
  Variable pf : str -> pfres.

  Lemma mtags_bytes t : forallb sep_free t = true -> forall cur rate acc r,
    lex_mattrs pf (MTags cur) rate acc (t ++ r) = lex_mattrs pf (MTags (rev t ++ cur)) rate acc r.
  Proof.
    induction t as [|b t IH]; intros H cur rate acc r; [reflexivity|].
    cbn [forallb] in H. apply andb_prop in H. destruct H as [Hb Ht].
    unfold sep_free in Hb.
    cbn [app lex_mattrs].
    destruct (b =? c_comma) eqn:E1; [discriminate|]. destruct (b =? c_pipe) eqn:E2; [discriminate|].
    destruct (b =? c_nul) eqn:E3; [discriminate|].
    rewrite (IH Ht). cbn [rev]. now rewrite <- app_assoc.
  Qed.

  Lemma add_tag_rev t acc : t <> [] -> add_tag (rev t) acc = t :: acc.
  Proof.
    intros H. unfold add_tag. destruct (rev t) eqn:E.
    - destruct t; [congruence|]. cbn in E. destruct (rev t); discriminate.
    - rewrite <- E, rev_involutive. reflexivity.
  Qed.

  (* a comma-separated list of good tags followed by one more good tag *)
  Lemma mtags_join ts : Forall tag_good ts -> forall t rate acc, tag_good t ->
    lex_mattrs pf (MTags []) rate acc (join c_comma ts ++ c_comma :: t) = Ok (rate, t :: rev ts ++ acc).
  Proof.
    induction ts as [|t0 ts IH]; intros Hts t rate acc [Hne Ht].
    - cbn [join app lex_mattrs]. change (c_comma =? c_comma) with true. cbn iota.
      replace t with (t ++ []) at 1 by apply app_nil_r.
      rewrite (mtags_bytes t Ht). cbn [lex_mattrs]. rewrite app_nil_r, add_tag_rev by assumption. reflexivity.
    - inversion Hts as [|? ? [Hne0 Ht0] Hts']; subst.
      assert (E : join c_comma (t0 :: ts) ++ c_comma :: t
                  = t0 ++ c_comma :: (match ts with [] => t | _ => join c_comma ts ++ c_comma :: t end)).
      { destruct ts; cbn [join]; [reflexivity|]. rewrite <- app_assoc. reflexivity. }
      rewrite E. rewrite (mtags_bytes t0 Ht0). cbn [lex_mattrs].
      change (c_comma =? c_comma) with true. cbn iota. rewrite app_nil_r, add_tag_rev by assumption.
      destruct ts as [|t1 ts].
      + replace t with (t ++ []) at 1 by apply app_nil_r.
        rewrite (mtags_bytes t Ht). cbn [lex_mattrs]. rewrite app_nil_r, add_tag_rev by assumption. reflexivity.
      + refine (eq_trans (IH Hts' t rate (t0 :: acc) (conj Hne Ht)) _). cbn [rev]. now rewrite <- !app_assoc.
  Qed.

  Lemma mtags_join_last ts : Forall tag_good ts -> forall rate acc,
    lex_mattrs pf (MTags []) rate acc (join c_comma ts) = Ok (rate, rev ts ++ acc).
  Proof.
    intros H rate acc. destruct ts as [|t ts] using rev_ind; [reflexivity|].
    apply Forall_app in H. destruct H as [Hts Ht]. inversion Ht; subst.
    destruct ts as [|t0 ts'].
    - cbn [app join]. destruct H1 as [Hne Hb].
      replace t with (t ++ []) at 1 by apply app_nil_r.
      rewrite (mtags_bytes t Hb). cbn [lex_mattrs]. rewrite app_nil_r, add_tag_rev by assumption. reflexivity.
    - assert (E : join c_comma ((t0 :: ts') ++ [t]) = join c_comma (t0 :: ts') ++ c_comma :: t)
        by apply join_snoc.
      rewrite E, (mtags_join _ Hts t rate acc H1). rewrite rev_app_distr. reflexivity.
  Qed.
End Attrs.

Lemma insert_sorted_Forall (P : str -> Prop) x l : P x -> Forall P l -> Forall P (insert_sorted x l).
Proof.
  intros Hx. induction l as [|y l IH]; intros H; cbn.
  - repeat constructor; assumption.
  - inversion H; subst. destruct (str_leb x y); constructor; auto.
Qed.
Lemma sort_tags_Forall (P : str -> Prop) l : Forall P l -> Forall P (sort_tags l).
Proof.
  unfold sort_tags. induction l as [|x l IH]; intros H; [constructor|].
  inversion H; subst. cbn. apply insert_sorted_Forall; auto.
Qed.

Lemma relay_attrs pf src tags : Forall tag_good tags -> forallb sep_free src = true ->
  lex_mattrs pf MAttrs f64_one [] (tag_part false (tags_key src tags))
  = Ok (f64_one, rev (series_tags src tags)).
Proof.
  intros Ht Hs. pose proof (sort_tags_Forall _ _ Ht) as Hst.
  unfold tag_part, tags_key, series_tags, source_tag. set (ts := sort_tags tags) in *.
  destruct src as [|s0 src].
  - rewrite app_nil_r. destruct (join c_comma ts) eqn:E.
    + destruct ts as [|t ts']; [reflexivity|]. exfalso.
      inversion Hst as [|? ? [Hne _] _]; subst. destruct t; [congruence|].
      cbn in E. destruct ts'; discriminate.
    + rewrite <- E. cbn [lex_mattrs]. change (c_pipe =? c_pipe) with true. cbn iota.
      change (c_hash =? c_at) with false. change (c_hash =? c_hash) with true. cbn iota.
      rewrite (mtags_join_last pf ts Hst). now rewrite app_nil_r.
  - destruct (join c_comma ts ++ c_comma :: c_s :: c_colon :: s0 :: src) eqn:E; [destruct (join c_comma ts); discriminate|].
    rewrite <- E. cbn [lex_mattrs]. change (c_pipe =? c_pipe) with true. cbn iota.
    change (c_hash =? c_at) with false. change (c_hash =? c_hash) with true. cbn iota.
    rewrite (mtags_join pf ts Hst).
    + rewrite rev_app_distr, app_nil_r. reflexivity.
    + split; [discriminate|]. change (forallb sep_free (c_s :: c_colon :: s0 :: src)) with (forallb sep_free (s0 :: src)). exact Hs.
Qed.

(* ---- the whole line *)
Lemma relay_line_lex pf name tags src value ty :
  name_ok name -> Forall tag_good tags -> forallb sep_free src = true -> value_ok value ->
  lex pf [] (relay_line false name (tags_key src tags) value ty)
  = finish_metric pf name ty value f64_one (series_tags src tags).
Proof.
  intros [Hn Hfirst] Ht Hs Hv.
  unfold lex, lex_gen, relay_line.
  destruct name as [|b name']; [contradiction|].
  cbn [app]. destruct (N.eqb_spec b c_us) as [->|_]; [congruence|].
  assert (Hb : name_byte b = true) by (cbn [forallb] in Hn; apply andb_prop in Hn; tauto).
  destruct (norm_name_byte b Hb) as (_ & _ & Hnul). rewrite Hnul.
  unfold lex_metric. change (b :: name' ++ c_colon :: ?r) with ((b :: name') ++ c_colon :: r).
  rewrite (lex_key_sep_name (b :: name') _ Hn).
  rewrite (lex_value_sep_value value _ Hv).
  rewrite lex_type_token.
  rewrite (relay_attrs pf src tags Ht Hs). rewrite rev_involutive. reflexivity.
Qed.

(* the statement of C17_relay_roundtrip *)
Lemma relay_roundtrip pf name tags src value ty :
  name_ok name -> Forall tag_ok tags -> forallb tag_byte src = true -> value_ok value ->
  lex pf [] (relay_line false name (tags_key src tags) value ty)
  = match ty with
    | MSet => OMetric {| m_name := name; m_type := MSet; m_value := 0; m_strval := value;
                         m_rate := f64_one; m_tags := series_tags src tags |}
    | _ => match pf value with
           | PFVal v => if f64_is_nan v then OReject ENaN
                        else OMetric {| m_name := name; m_type := ty; m_value := v; m_strval := [];
                                        m_rate := f64_one; m_tags := series_tags src tags |}
           | PFErr => OReject EParseFloat
           | PFMiss => OReject EOracleMiss
           end
    end.
Proof.
  intros Hn Ht Hs Hv.
  rewrite relay_line_lex; try assumption.
  - unfold finish_metric. change (negb (f64_finite_pos f64_one)) with false. cbn iota.
    destruct ty; try reflexivity; destruct (pf value); reflexivity.
  - eapply Forall_impl; [|exact Ht]. exact tag_ok_good.
  - exact (forallb_impl _ _ _ tag_byte_sep_free Hs).
Qed.

(* non-vacuity: a series satisfying the hypotheses, and the line it becomes *)
Example roundtrip_sample :
  let name := [97; 46; 98] in let tags := [[122; 58; 49]; [107]] in let src := [49; 46; 50] in
  name_ok name /\ Forall tag_ok tags /\ forallb tag_byte src = true /\ value_ok [53]
  /\ relay_line false name (tags_key src tags) [53] Counter
     = [97;46;98;58;53;124;99;124;35;107;44;122;58;49;44;115;58;49;46;50].
Proof.
  cbn zeta. repeat split; try reflexivity; try discriminate.
  repeat constructor; discriminate.
Qed.

(* with tags disabled the line carries no tags *)
Lemma relay_line_lex_notags pf name key value ty :
  name_ok name -> value_ok value ->
  lex pf [] (relay_line true name key value ty) = finish_metric pf name ty value f64_one [].
Proof.
  intros Hn Hv.
  assert (E : relay_line true name key value ty = relay_line false name (tags_key [] []) value ty).
  { unfold relay_line, tag_part. destruct key; reflexivity. }
  rewrite E. apply (relay_line_lex pf name [] [] value ty Hn); [constructor | reflexivity | exact Hv].
Qed.
