(* Proofs about the cloud-stage LTS (Model/Cloud.v), part 2: the state invariant (park slots hold only
   items of their source and are never empty; the three gauges equal the true numbers modulo 2^64),
   what each label hands downstream and with which instance, and the tagging facts. *)
From stdpp Require Import gmap.
From GS Require Import Base.Bytes Base.LTS Model.Series Model.MetricMap Model.Cloud Proofs.Cloud.
Local Open Scope Z_scope.

(* ---- uint64 ------------------------------------------------------------------------------------ *)

Lemma inc64_u64 n : inc64 (u64 n) = u64 (n + 1).
Proof. unfold inc64, u64. by rewrite Zplus_mod_idemp_l. Qed.
Lemma dec64_u64 n : dec64 (u64 n) = u64 (n - 1).
Proof. unfold dec64, u64. by rewrite Zminus_mod_idemp_l. Qed.
Lemma sub64_u64 n k : u64 (u64 n - k) = u64 (n - k).
Proof. unfold u64. by rewrite Zminus_mod_idemp_l. Qed.
Lemma u64_small n : 0 ≤ n < 2 ^ 64 → u64 n = n.
Proof. apply Z.mod_small. Qed.

(* ---- sort_tags is a permutation ----------------------------------------------------------------- *)

Lemma insert_sorted_perm x l : insert_sorted x l ≡ₚ x :: l.
Proof.
  induction l as [|y r IH]; cbn; [done|].
  destruct (str_leb x y); [done|]. by rewrite IH, perm_swap.
Qed.
Lemma sort_tags_perm l : sort_tags l ≡ₚ l.
Proof.
  unfold sort_tags. induction l as [|x r IH]; cbn; [done|].
  by rewrite insert_sorted_perm, IH.
Qed.

(* ---- retag / delivered --------------------------------------------------------------------------- *)

Lemma retag_src s t x : item_src (retag s t x) = s.
Proof. by destruct x as [[]|]. Qed.
Lemma retag_tags_event s t e : item_tags (retag s t (IE e)) = t.
Proof. done. Qed.
Lemma retag_tags_perm s t x : item_tags (retag s t x) ≡ₚ t.
Proof. destruct x as [[]|]; cbn; by rewrite ?sort_tags_perm. Qed.
Lemma retag_body s t x : item_body (retag s t x) = item_body x.
Proof. by destruct x as [[]|]. Qed.
Lemma retag_key s t e e' : retag s t (IM e) = IM e' → entry_key e' = tags_key s t.
Proof. destruct e; cbn; intros [= <-]; done. Qed.
Lemma retag_event_id e : retag (ev_src e) (ev_tags e) (IE e) = IE e.
Proof. by destruct e. Qed.

(* ---- the invariant -------------------------------------------------------------------------------- *)

Definition slot_ok {A} (src : A → source) (m : gmap source (list A)) : Prop :=
  ∀ s q, m !! s = Some q → q ≠ [] ∧ Forall (λ x, src x = s) q.

Record Inv (st : state) : Prop := MkInv {
  inv_M : slot_ok entry_src (awaitM st);
  inv_E : slot_ok ev_src (awaitE st);
  inv_hM : hostsM st = u64 (Z.of_nat (size (awaitM st)));
  inv_hE : hostsE st = u64 (Z.of_nat (size (awaitE st)));
  inv_iE : itemsE st = u64 (Z.of_nat (length (slots (awaitE st))))
}.

Lemma Inv_ext st st' :
  awaitM st' = awaitM st → awaitE st' = awaitE st → hostsM st' = hostsM st →
  hostsE st' = hostsE st → itemsE st' = itemsE st → Inv st → Inv st'.
Proof. intros H1 H2 H3 H4 H5 [? ? ? ? ?]. constructor; rewrite ?H1, ?H2, ?H3, ?H4, ?H5; done. Qed.

Lemma Inv_init : Inv init.
Proof.
  constructor; cbn; try (intros s q H; by rewrite lookup_empty in H);
    by rewrite ?map_size_empty, ?slots_empty.
Qed.

Section slot_ok.
  Context {A : Type} (src : A → source).
  Implicit Types m : gmap source (list A).

  Lemma slot_ok_add m x :
    slot_ok src m → slot_ok src (<[src x := default [] (m !! src x) ++ [x]]> m).
  Proof.
    intros H s q. destruct (decide (s = src x)) as [->|Hne].
    - rewrite lookup_insert. intros [= <-]. split; [by destruct (default [] _)|].
      apply Forall_app; split; [|by repeat constructor].
      destruct (m !! src x) as [q0|] eqn:E; cbn; [by apply (H _ _ E)|constructor].
    - rewrite lookup_insert_ne by done. apply H.
  Qed.

  Lemma slot_ok_delete m s : slot_ok src m → slot_ok src (delete s m).
  Proof.
    intros H s' q. destruct (decide (s' = s)) as [->|Hne].
    - by rewrite lookup_delete.
    - rewrite lookup_delete_ne by done. apply H.
  Qed.

  Lemma slot_ok_default_nil m s : slot_ok src m → default [] (m !! s) = [] → m !! s = None.
  Proof.
    intros H. destruct (m !! s) as [q|] eqn:E; cbn; [|done].
    intros ->. by destruct (H _ _ E).
  Qed.

  Lemma length_slots_add m s x :
    length (slots (<[s := default [] (m !! s) ++ [x]]> m)) = S (length (slots m)).
  Proof. by rewrite slots_add. Qed.

  Lemma length_slots_delete m s q :
    m !! s = Some q → (length (slots m) = length q + length (slots (delete s m)))%nat.
  Proof. intros E. by rewrite (slots_delete m s), E, app_length. Qed.

  Lemma size_pos m s q : m !! s = Some q → (0 < size m)%nat.
  Proof.
    intros E. destruct (size m) eqn:Hs; [|lia].
    apply map_size_empty_inv in Hs. subst. by rewrite lookup_empty in E.
  Qed.
End slot_ok.

Lemma park_metric_hostsM st e :
  hostsM (park_metric false st e)
  = match awaitM st !! entry_src e with Some _ => hostsM st | None => inc64 (hostsM st) end.
Proof. unfold park_metric. by destruct (awaitM st !! entry_src e). Qed.
Lemma park_metric_hostsE lg st e : hostsE (park_metric lg st e) = hostsE st.
Proof. unfold park_metric. by destruct (awaitM st !! entry_src e). Qed.
Lemma park_metric_itemsE lg st e : itemsE (park_metric lg st e) = itemsE st.
Proof. unfold park_metric. by destruct (awaitM st !! entry_src e). Qed.

Lemma Inv_park_metric st e : Inv st → Inv (park_metric false st e).
Proof.
  intros [HM HE hM hE iE]. constructor.
  - rewrite park_metric_awaitM. by apply slot_ok_add.
  - by rewrite park_metric_awaitE.
  - rewrite park_metric_hostsM, park_metric_awaitM, map_size_insert.
    destruct (awaitM st !! entry_src e); cbn; [done|].
    by rewrite hM, inc64_u64, Nat2Z.inj_succ.
  - by rewrite park_metric_hostsE, park_metric_awaitE.
  - by rewrite park_metric_itemsE, park_metric_awaitE.
Qed.

Lemma Inv_fold_park_metric es st : Inv st → Inv (fold_left (park_metric false) es st).
Proof. revert st; induction es as [|e r IH]; intros st H; cbn; [done|]. by apply IH, Inv_park_metric. Qed.

Lemma Inv_park_event st e : Inv st → Inv (park_event false st e).
Proof.
  intros [HM HE hM hE iE]. constructor; unfold park_event; cbn.
  - done.
  - by apply (slot_ok_add ev_src).
  - done.
  - rewrite map_size_insert.
    destruct (awaitE st !! ev_src e) as [q|] eqn:E; cbn.
    + destruct (HE _ _ E) as [Hne _]. by destruct q.
    + rewrite orb_true_r. cbn. by rewrite hE, inc64_u64, Nat2Z.inj_succ.
  - by rewrite iE, inc64_u64, length_slots_add, Nat2Z.inj_succ.
Qed.

Lemma Inv_release_metrics st s io : Inv st → Inv (release_metrics st s io).
Proof.
  intros [HM HE hM hE iE]. unfold release_metrics.
  destruct (awaitM st !! s) as [q|] eqn:E; [|by constructor].
  constructor; cbn; try done.
  - by apply slot_ok_delete.
  - rewrite hM, dec64_u64, map_size_delete, E; cbn.
    pose proof (size_pos _ _ _ E). f_equal. lia.
Qed.

Lemma Inv_release_events st s io : Inv st → Inv (release_events st s io).
Proof.
  intros [HM HE hM hE iE]. unfold release_events.
  destruct (awaitE st !! s) as [[|e q]|] eqn:E; [by constructor| |by constructor].
  constructor; cbn -[length]; try done.
  - by apply slot_ok_delete.
  - rewrite hE, dec64_u64, map_size_delete, E; cbn.
    pose proof (size_pos _ _ _ E). f_equal. lia.
  - rewrite iE, sub64_u64, (length_slots_delete _ _ _ E). f_equal. lia.
Qed.

Lemma Inv_with_lk st k : Inv st → Inv (with_lk st k).
Proof. intros H. by eapply Inv_ext; [..|exact H]. Qed.

Lemma Inv_arm st l st' : Inv st → arm false st l = Some st' → Inv st'.
Proof.
  intros H. destruct l as [es peek|e peek|s|s io|]; cbn; intros Hs.
  - injection Hs as <-. unfold arrive_metrics, close_group, open_group.
    apply Inv_with_lk, Inv_fold_park_metric, Inv_with_lk.
    by eapply Inv_ext; [..|exact H].
  - injection Hs as <-. unfold arrive_event. destruct (resolve peek (ev_src e)).
    + by eapply Inv_ext; [..|exact H].
    + by apply Inv_park_event.
  - destruct (lk_send s (lk st)); [|done]. injection Hs as <-. by apply Inv_with_lk.
  - injection Hs as <-. unfold answer. apply Inv_with_lk.
    by apply Inv_release_events, Inv_release_metrics.
  - injection Hs as <-. by eapply Inv_ext; [..|exact H].
Qed.

Lemma Inv_step st l st' : Inv st → step st l = Some st' → Inv st'.
Proof.
  intros H. unfold step, step_gen. destruct (arm false st l) as [s1|] eqn:E; [|done]. intros [= <-].
  unfold refill. apply Inv_with_lk. by eapply Inv_arm.
Qed.

Lemma Inv_run ls st : run step init ls = Some st → Inv st.
Proof. apply (invariant_run step Inv Inv_step), Inv_init. Qed.

(* C11_gauges *)
Lemma gauges_true ls st :
  run step init ls = Some st →
  hostsM st = u64 (Z.of_nat (size (awaitM st)))
  ∧ hostsE st = u64 (Z.of_nat (size (awaitE st)))
  ∧ itemsE st = u64 (Z.of_nat (length (parked_events st))).
Proof. intros H. destruct (Inv_run _ _ H). done. Qed.

Lemma gauges_exact ls st :
  run step init ls = Some st →
  Z.of_nat (size (awaitM st)) < 2 ^ 64 → Z.of_nat (size (awaitE st)) < 2 ^ 64 →
  Z.of_nat (length (parked_events st)) < 2 ^ 64 →
  hostsM st = Z.of_nat (size (awaitM st))
  ∧ hostsE st = Z.of_nat (size (awaitE st))
  ∧ itemsE st = Z.of_nat (length (parked_events st)).
Proof.
  intros H ? ? ?. destruct (gauges_true _ _ H) as (-> & -> & ->).
  rewrite !u64_small by lia. done.
Qed.

Lemma gauges_emit ls st st' :
  run step init ls = Some st → step st Emit = Some st' →
  emitted st' = emitted st ++ [(u64 (Z.of_nat (size (awaitM st))), u64 (Z.of_nat (size (awaitE st))),
                               u64 (Z.of_nat (length (parked_events st))))].
Proof.
  intros H [= <-]. destruct (gauges_true _ _ H) as (<- & <- & <-). done.
Qed.

(* every park slot holds only items of its source *)
Lemma parked_for_src ls st s x :
  run step init ls = Some st → x ∈ parked_for st s → item_src x = s.
Proof.
  intros H. destruct (Inv_run _ _ H) as [HM HE _ _ _]. unfold parked_for.
  rewrite elem_of_app, !elem_of_list_fmap. intros [(e & -> & He)|(e & -> & He)]; cbn.
  - destruct (awaitM st !! s) as [q|] eqn:E; cbn in He; [|by apply elem_of_nil in He].
    destruct (HM _ _ E) as [_ Hall]. rewrite list.Forall_forall in Hall. exact (Hall _ He).
  - destruct (awaitE st !! s) as [q|] eqn:E; cbn in He; [|by apply elem_of_nil in He].
    destruct (HE _ _ E) as [_ Hall]. rewrite list.Forall_forall in Hall. exact (Hall _ He).
Qed.
