(* Proofs about Model/Wire.v: the structural round trip of metric maps and events, the
   agreement of the sender's Content-Encoding with the receiver's decoder, the end-to-end
   composition under the library round-trip laws, and the status discipline of the handlers. *)
From stdpp Require Import gmap.
From Coq Require Import QArith Qcanon String.
From GS Require Import Base.Bytes Base.GoFloat Model.Series Model.MetricMap Model.Wire.
Local Open Scope string_scope.
Local Open Scope Z_scope.

(* ---------------------------------------------------------------------------------------- *)
(* metric maps *)

(* every sampled count is (the exact value of) a double: true of every Go MetricMap *)
Definition samp_ok (m : mmap) : Prop :=
  forall k t, timers m !! k = Some t -> Qc_of_bits (bits_of_Qc (t_samp t)) = t_samp t.

Lemma flatten_nest_fmap {A B} (f : A -> B) (m : gmap (str * str) A) :
  gmap_uncurry (gmap_curry (f <$> m)) = f <$> m.
Proof. apply gmap_uncurry_curry. Qed.

Lemma metrics_roundtrip (m : mmap) (now : Z) :
  samp_ok m -> from_pb now (to_pb m) = retime now m.
Proof.
  intros Hs. destruct m as [cs ts gs ss]. unfold from_pb, to_pb, retime, samp_ok in *. cbn in *.
  rewrite !flatten_nest_fmap, <- !map_fmap_compose. f_equal.
  - apply map_fmap_ext. intros k t Hk. cbn. unfold timer_from_pb, timer_to_pb. cbn.
    rewrite (Hs k t Hk). reflexivity.
  - apply map_fmap_ext. intros k s _. cbn. unfold set_from_pb, set_to_pb. cbn.
    rewrite list_to_set_elements_L. reflexivity.
Qed.

(* the same, series by series: keys (name AND inner tags key) are carried verbatim, every
   field but the timestamp is unchanged, nothing is added *)
Lemma metrics_roundtrip_series (m : mmap) (now : Z) (name key : str) :
  samp_ok m ->
  let m' := from_pb now (to_pb m) in
  counters m' !! (name, key) = (fun c => MkCounter (c_val c) now (c_src c) (c_tags c)) <$> counters m !! (name, key)
  /\ gauges m' !! (name, key) = (fun g => MkGauge (g_val g) now (g_src g) (g_tags g)) <$> gauges m !! (name, key)
  /\ timers m' !! (name, key) = (fun t => MkTimer (t_vals t) (t_samp t) now (t_src t) (t_tags t)) <$> timers m !! (name, key)
  /\ sets m' !! (name, key) = (fun s => MkSet (s_vals s) now (s_src s) (s_tags s)) <$> sets m !! (name, key).
Proof.
  intros Hs m'. subst m'. rewrite (metrics_roundtrip m now Hs). unfold retime. cbn.
  rewrite !lookup_fmap. auto.
Qed.

(* Nested <-> flat.  translateToProtobufV2 never emits a name with an empty TagMap ... *)
Lemma to_pb_inner_nonempty (m : mmap) (name : str) :
  (forall tm, pb_counters (to_pb m) !! name = Some tm -> tm <> ∅)
  /\ (forall tm, pb_gauges (to_pb m) !! name = Some tm -> tm <> ∅)
  /\ (forall tm, pb_sets (to_pb m) !! name = Some tm -> tm <> ∅)
  /\ (forall tm, pb_timers (to_pb m) !! name = Some tm -> tm <> ∅).
Proof. unfold to_pb; cbn; repeat split; intros tm H; eapply gmap_curry_non_empty; exact H. Qed.

(* ... and a name with an empty TagMap in a received message carries no series: the flat map
   model loses exactly that (the Go map keeps an outer key with an empty inner map) *)
Lemma uncurry_insert_empty {A} (p : gmap str (gmap str A)) (name : str) :
  gmap_uncurry (<[name := ∅]> p) = gmap_uncurry (delete name p).
Proof.
  apply map_eq. intros [i j]. rewrite !lookup_gmap_uncurry.
  destruct (decide (i = name)) as [->|Hn].
  - rewrite lookup_insert, lookup_delete. cbn. apply lookup_empty.
  - rewrite lookup_insert_ne, lookup_delete_ne by congruence. reflexivity.
Qed.

Lemma from_pb_empty_inner (now : Z) (p : pbmsg) (name : str) :
  from_pb now (MkPb (<[name := ∅]> (pb_counters p)) (<[name := ∅]> (pb_gauges p))
                    (<[name := ∅]> (pb_sets p)) (<[name := ∅]> (pb_timers p)))
  = from_pb now (MkPb (delete name (pb_counters p)) (delete name (pb_gauges p))
                      (delete name (pb_sets p)) (delete name (pb_timers p))).
Proof. unfold from_pb; cbn. rewrite !uncurry_insert_empty. reflexivity. Qed.

(* Set members travel as a list in Go's (free) map iteration order, possibly with repeats on
   a foreign sender: the receiver depends on the members only *)
Definition same_members (a b : pb_set) : Prop :=
  ps_tags a = ps_tags b /\ ps_host a = ps_host b /\ (forall x, x ∈ ps_vals a <-> x ∈ ps_vals b).

Lemma set_from_pb_members (now : Z) (a b : pb_set) :
  same_members a b -> set_from_pb now a = set_from_pb now b.
Proof.
  intros (Ht & Hh & Hv). unfold set_from_pb. rewrite Ht, Hh. f_equal.
  apply set_eq. intros x. rewrite !elem_of_list_to_set. apply Hv.
Qed.

Lemma from_pb_set_order (now : Z) (p q : pbmsg) :
  pb_counters p = pb_counters q -> pb_gauges p = pb_gauges q -> pb_timers p = pb_timers q ->
  (forall name key, option_Forall2 same_members
       (gmap_uncurry (pb_sets p) !! (name, key)) (gmap_uncurry (pb_sets q) !! (name, key))) ->
  from_pb now p = from_pb now q.
Proof.
  intros Hc Hg Ht Hs. unfold from_pb. rewrite Hc, Hg, Ht. f_equal.
  apply map_eq. intros [n k]. rewrite !lookup_fmap. specialize (Hs n k).
  match goal with |- _ <$> ?a = _ <$> ?b =>
    assert (H : option_Forall2 same_members a b) by apply Hs; destruct H as [x y Hab|] end;
    cbn; [|reflexivity].
  f_equal. apply set_from_pb_members. exact Hab.
Qed.

(* ---------------------------------------------------------------------------------------- *)
(* events *)

Lemma priority_roundtrip (p : N) :
  priority_from_pb (priority_to_pb p) = if valid_priority p then p else pri_normal.
Proof.
  unfold priority_from_pb, priority_to_pb, valid_priority, pri_low, pri_normal.
  destruct (N.eqb_spec p 1) as [->|Hn]; [reflexivity|]. cbn.
  destruct (N.leb_spec p 1); [|reflexivity]. lia.
Qed.

Lemma alert_roundtrip (a : N) :
  alert_from_pb (alert_to_pb a) = if valid_alert a then a else alert_info.
Proof.
  unfold alert_from_pb, alert_to_pb, valid_alert, alert_warning, alert_error, alert_success, alert_info.
  destruct (N.eqb_spec a 1) as [->|H1]; [reflexivity|].
  destruct (N.eqb_spec a 2) as [->|H2]; [reflexivity|].
  destruct (N.eqb_spec a 3) as [->|H3]; [reflexivity|]. cbn.
  destruct (N.leb_spec a 3); [|reflexivity]. lia.
Qed.

Lemma event_roundtrip (e : event) : event_from_pb (event_to_pb e) = normalise_event e.
Proof.
  destruct e. unfold event_from_pb, event_to_pb, normalise_event. cbn.
  rewrite priority_roundtrip, alert_roundtrip. reflexivity.
Qed.

Lemma event_roundtrip_valid (e : event) :
  valid_priority (e_priority e) = true -> valid_alert (e_alert e) = true ->
  event_from_pb (event_to_pb e) = e.
Proof.
  intros Hp Ha. rewrite event_roundtrip. destruct e. unfold normalise_event. cbn in *.
  rewrite Hp, Ha. reflexivity.
Qed.

(* the source travels as Hostname (and, unread, as SourceIP) *)
Lemma event_source_travels_as_hostname (e : event) :
  pe_hostname (event_to_pb e) = e_source e /\ pe_sourceip (event_to_pb e) = e_source e
  /\ forall p, e_source (event_from_pb p) = pe_hostname p.
Proof. destruct e; cbn; auto. Qed.

(* ---------------------------------------------------------------------------------------- *)
(* transport *)

Lemma new_forwarder_level compress ctype level c :
  new_forwarder compress ctype level = Some c ->
  f_compress c = compress /\ read_compression_type ctype = Some (f_ctype c) /\ f_level c = level
  /\ 0 <= level <= 9.
Proof.
  unfold new_forwarder. destruct (read_compression_type ctype) as [ct|]; [|discriminate].
  destruct (valid_level level) eqn:Hl; [|discriminate]. intros [= <-]. cbn.
  unfold valid_level in Hl. repeat split; lia.
Qed.

Lemma receiver_codec_of_sender (c : fwd_cfg) : receiver_codec (sender_header c) = Some (sender_codec c).
Proof.
  unfold sender_header. destruct (sender_codec c) as [[]|]; vm_compute; reflexivity.
Qed.

Section Transport.
  Variable compress : codec -> Z -> str -> str.
  Variable decompress : codec -> str -> option str.
  Variable ser : pbmsg -> option str.
  Variable deser : str -> option pbmsg.
  Variable ser_e : pb_event -> option str.
  Variable deser_e : str -> option pb_event.

  Hypothesis codec_law : forall k level raw, 0 <= level <= 9 -> decompress k (compress k level raw) = Some raw.
  Hypothesis ser_law : forall p raw, ser p = Some raw -> deser raw = Some p.
  Hypothesis ser_e_law : forall p raw, ser_e p = Some raw -> deser_e raw = Some p.

  Lemma encoding_agreement flag ctype level c raw :
    new_forwarder flag ctype level = Some c ->
    let '(hdr, body) := construct_post compress c raw in
    hdr = sender_header c
    /\ receiver_codec hdr = Some (sender_codec c)
    /\ body = match sender_codec c with Some k => compress k level raw | None => raw end
    /\ read_body decompress hdr (Some body) = inl raw.
  Proof.
    intros Hc. destruct (new_forwarder_level _ _ _ _ Hc) as (_ & _ & Hl & Hr).
    unfold construct_post, read_body.
    destruct (sender_codec c) as [k|] eqn:Hk.
    - rewrite receiver_codec_of_sender, Hk, Hl. repeat split; try reflexivity.
      rewrite codec_law by lia. reflexivity.
    - rewrite receiver_codec_of_sender, Hk. repeat split; reflexivity.
  Qed.

  (* which header: compression is used exactly when `compress` is set and the type is not "none" *)
  Lemma sender_header_cases flag ctype level c :
    new_forwarder flag ctype level = Some c ->
    sender_header c =
      if flag && negb (str_eqb ctype (bs "none"))
      then (if str_eqb ctype (bs "lz4") then enc_lz4 else enc_deflate)
      else enc_identity.
  Proof.
    intros Hc. destruct (new_forwarder_level _ _ _ _ Hc) as (Hf & Ht & _ & _).
    unfold sender_header, sender_codec. rewrite Hf. unfold read_compression_type in Ht.
    destruct (str_eqb ctype (bs "none")) eqn:E1.
    { injection Ht as <-. destruct flag; reflexivity. }
    destruct (str_eqb ctype (bs "lz4")) eqn:E2.
    { injection Ht as <-. destruct flag; reflexivity. }
    destruct (str_eqb ctype [] || str_eqb ctype (bs "zlib")); [|discriminate].
    injection Ht as <-. destruct flag; reflexivity.
  Qed.

  Lemma metrics_end_to_end flag ctype level c m hdr body now :
    new_forwarder flag ctype level = Some c -> samp_ok m ->
    post_metrics compress ser c m = Some (hdr, body) ->
    metric_handler decompress deser now hdr (Some body) = (st_accepted, Some (retime now m)).
  Proof.
    intros Hc Hs. unfold post_metrics. destruct (ser (to_pb m)) as [raw|] eqn:Hser; [|discriminate].
    intros [= Hp]. pose proof (encoding_agreement flag ctype level c raw Hc) as Ha.
    rewrite Hp in Ha. destruct Ha as (_ & _ & _ & Hrb).
    unfold metric_handler. rewrite Hrb, (ser_law _ _ Hser), metrics_roundtrip by assumption. reflexivity.
  Qed.

  Lemma event_end_to_end flag ctype level c e hdr body :
    new_forwarder flag ctype level = Some c ->
    post_event compress ser_e c e = Some (hdr, body) ->
    event_handler decompress deser_e hdr (Some body) = (st_accepted, Some (normalise_event e)).
  Proof.
    intros Hc. unfold post_event. destruct (ser_e (event_to_pb e)) as [raw|] eqn:Hser; [|discriminate].
    intros [= Hp]. pose proof (encoding_agreement flag ctype level c raw Hc) as Ha.
    rewrite Hp in Ha. destruct Ha as (_ & _ & _ & Hrb).
    unfold event_handler. rewrite Hrb, (ser_e_law _ _ Hser), event_roundtrip. reflexivity.
  Qed.
End Transport.

(* the status discipline: no law about the codecs is needed *)
Lemma bad_body_metrics decompress deser now enc body :
  let '(st, out) := metric_handler decompress deser now enc body in
  (st = st_accepted /\ exists b raw p, body = Some b /\ read_body decompress enc body = inl raw
                                       /\ deser raw = Some p /\ out = Some (from_pb now p))
  \/ ((st = st_bad_request \/ st = st_internal) /\ out = None
      /\ (body = None \/ receiver_codec enc = None
          \/ (exists b k, body = Some b /\ receiver_codec enc = Some (Some k) /\ decompress k b = None)
          \/ (exists raw, read_body decompress enc body = inl raw /\ deser raw = None))).
Proof.
  unfold metric_handler, read_body. destruct body as [b|]; [|right; auto 6].
  destruct (receiver_codec enc) as [[k|]|] eqn:Hk; [| |right; auto 6].
  - destruct (decompress k b) as [raw|] eqn:Hd.
    + destruct (deser raw) as [p|] eqn:Hp; [left; split; [reflexivity|]; eauto 10|].
      right. split; [auto|]. split; [reflexivity|]. do 3 right. eauto.
    + right. split; [auto|]. split; [reflexivity|]. right; right; left. eauto.
  - destruct (deser b) as [p|] eqn:Hp; [left; split; [reflexivity|]; eauto 10|].
    right. split; [auto|]. split; [reflexivity|]. do 3 right. eauto.
Qed.

Lemma bad_body_event decompress deser_e enc body :
  let '(st, out) := event_handler decompress deser_e enc body in
  (st = st_accepted /\ exists raw p, read_body decompress enc body = inl raw
                                     /\ deser_e raw = Some p /\ out = Some (event_from_pb p))
  \/ ((st = st_bad_request \/ st = st_internal) /\ out = None).
Proof.
  unfold event_handler. destruct (read_body decompress enc body) as [raw|st] eqn:Hr.
  - destruct (deser_e raw) as [p|] eqn:Hp; [left; eauto 10|right; auto].
  - right. unfold read_body in Hr. destruct body; [|injection Hr as <-; auto].
    destruct (receiver_codec enc) as [[k|]|]; try discriminate.
    + destruct (decompress k s); [discriminate|]. injection Hr as <-. auto.
    + injection Hr as <-. auto.
Qed.

(* ---------------------------------------------------------------------------------------- *)
(* the hypotheses are satisfiable on non-trivial data *)

Example samp_ok_example :
  let m := MkMap ∅ {[ (bs "t", bs "a") := MkTimer [4607182418800017408; 0] (Q2Qc (25 # 2)) 7 (bs "h") [bs "a"] ]} ∅ ∅ in
  samp_ok m /\ timers (from_pb 99 (to_pb m)) !! (bs "t", bs "a")
               = Some (MkTimer [4607182418800017408; 0] (Q2Qc (25 # 2)) 99 (bs "h") [bs "a"]).
Proof.
  cbn zeta. assert (Hs : samp_ok (MkMap ∅ {[ (bs "t", bs "a") := MkTimer [4607182418800017408; 0] (Q2Qc (25 # 2)) 7 (bs "h") [bs "a"] ]} ∅ ∅)).
  { intros k t. cbn. intros H. apply lookup_singleton_Some in H as [_ <-]. cbn.
    apply Qc_is_canon. vm_compute. reflexivity. }
  split; [exact Hs|]. rewrite metrics_roundtrip by exact Hs. reflexivity.
Qed.

Example new_forwarder_example :
  new_forwarder true (bs "lz4") 7 = Some (MkCfg true CtLz4 7)
  /\ new_forwarder true (bs "gzip") 7 = None /\ new_forwarder true (bs "zlib") 10 = None
  /\ sender_header (MkCfg true CtLz4 7) = bs "lz4" /\ sender_header (MkCfg true CtNone 7) = bs "identity"
  /\ sender_header (MkCfg false CtZlib 7) = bs "identity" /\ sender_header (MkCfg true CtZlib 0) = bs "deflate".
Proof. vm_compute. repeat split. Qed.

(* codecs satisfying the laws exist: the identity codecs *)
Example laws_satisfiable :
  let compress := fun (_ : codec) (_ : Z) (b : str) => b in
  let decompress := fun (_ : codec) (b : str) => Some b in
  forall k level raw, 0 <= level <= 9 -> decompress k (compress k level raw) = Some raw.
Proof. reflexivity. Qed.

(* ---------------------------------------------------------------------------------------- *)
(* the statements of Props/C14.v, spelled out *)

Lemma event_roundtrip_full (e : event) :
  event_from_pb (event_to_pb e) =
    MkEvent (e_title e) (e_text e) (e_date e) (e_aggkey e) (e_srctype e) (e_tags e) (e_source e)
            (if (e_priority e <=? 1)%N then e_priority e else pri_normal)
            (if (e_alert e <=? 3)%N then e_alert e else alert_info)
  /\ pe_hostname (event_to_pb e) = e_source e
  /\ ((e_priority e <= 1)%N -> (e_alert e <= 3)%N -> event_from_pb (event_to_pb e) = e).
Proof.
  split; [exact (event_roundtrip e)|]. split; [destruct e; reflexivity|].
  intros Hp Ha. apply event_roundtrip_valid; apply N.leb_le; assumption.
Qed.

Lemma encoding_agreement_full
    (compress : codec -> Z -> str -> str) (decompress : codec -> str -> option str) :
  (forall k level raw, 0 <= level <= 9 -> decompress k (compress k level raw) = Some raw) ->
  forall (flag : bool) (ctype : str) (level : Z) (c : fwd_cfg) (raw : str),
    new_forwarder flag ctype level = Some c ->
    let '(hdr, body) := construct_post compress c raw in
    hdr = (if flag && negb (str_eqb ctype (bs "none"))
           then (if str_eqb ctype (bs "lz4") then bs "lz4" else bs "deflate")
           else bs "identity")
    /\ receiver_codec hdr = Some (sender_codec c)
    /\ body = match sender_codec c with Some k => compress k level raw | None => raw end
    /\ read_body decompress hdr (Some body) = inl raw.
Proof.
  intros law flag ctype level c raw Hc.
  pose proof (encoding_agreement compress decompress law flag ctype level c raw Hc) as H.
  destruct (construct_post compress c raw) as [hdr body].
  destruct H as (H1 & H2 & H3 & H4).
  exact (conj (eq_trans H1 (sender_header_cases flag ctype level c Hc)) (conj H2 (conj H3 H4))).
Qed.

Lemma end_to_end_full
    (compress : codec -> Z -> str -> str) (decompress : codec -> str -> option str)
    (ser : pbmsg -> option str) (deser : str -> option pbmsg)
    (ser_e : pb_event -> option str) (deser_e : str -> option pb_event) :
  (forall k level raw, 0 <= level <= 9 -> decompress k (compress k level raw) = Some raw) ->
  (forall p raw, ser p = Some raw -> deser raw = Some p) ->
  (forall p raw, ser_e p = Some raw -> deser_e raw = Some p) ->
  forall (flag : bool) (ctype : str) (level : Z) (c : fwd_cfg) (hdr body : str),
    new_forwarder flag ctype level = Some c ->
    (forall (m : mmap) (now : Z),
        (forall k t, timers m !! k = Some t -> Qc_of_bits (bits_of_Qc (t_samp t)) = t_samp t) ->
        post_metrics compress ser c m = Some (hdr, body) ->
        metric_handler decompress deser now hdr (Some body) = (202, Some (retime now m)))
    /\ (forall e : event,
        post_event compress ser_e c e = Some (hdr, body) ->
        event_handler decompress deser_e hdr (Some body) = (202, Some (normalise_event e))).
Proof.
  intros L1 L2 L3 flag ctype level c hdr body Hc. split.
  - intros m now Hs Hp. exact (metrics_end_to_end compress decompress ser deser L1 L2 flag ctype level c m hdr body now Hc Hs Hp).
  - intros e Hp. exact (event_end_to_end compress decompress ser_e deser_e L1 L3 flag ctype level c e hdr body Hc Hp).
Qed.
