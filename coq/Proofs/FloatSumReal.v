(* Real-number core of the forward error analysis of recursive summation (no floats here).
   One accumulation step  s' = (y + s) * (1 + eps)  where y approximates the exact term t with
   |y - t| <= d * a, |t| <= a, and s approximates the exact partial sum T with
   |s - T| <= (Q - 1) * A, |T| <= A:  then |s' - (t + T)| <= (Q * (1 + u) - 1) * (a + A). *)
From Coq Require Import Reals Lra Lia.
Local Open Scope R_scope.

Lemma Rabs_prod_le x e M u : Rabs x <= M -> Rabs e <= u -> Rabs (x * e) <= M * u.
Proof.
  intros Hx He. rewrite Rabs_mult. apply Rmult_le_compat; try apply Rabs_pos; assumption.
Qed.

Lemma acc_step u d Q a A y t s T eps :
  0 <= u -> 0 <= d -> 1 + d <= Q ->
  Rabs t <= a -> Rabs (y - t) <= d * a -> Rabs T <= A -> Rabs (s - T) <= (Q - 1) * A ->
  Rabs eps <= u ->
  Rabs ((y + s) * (1 + eps) - (t + T)) <= (Q * (1 + u) - 1) * (a + A).
Proof.
  intros Hu Hd HQ Ht Hy HT Hs He.
  assert (Ha : 0 <= a) by (eapply Rle_trans; [apply Rabs_pos|exact Ht]).
  assert (HA : 0 <= A) by (eapply Rle_trans; [apply Rabs_pos|exact HT]).
  replace ((y + s) * (1 + eps) - (t + T)) with ((y - t) + (s - T) + (y + s) * eps) by ring.
  assert (Hys : Rabs (y + s) <= (1 + d) * a + Q * A).
  { replace (y + s) with ((y - t) + t + ((s - T) + T)) by ring.
    eapply Rle_trans; [apply Rabs_triang|]. apply Rle_trans with ((d * a + a) + ((Q - 1) * A + A)); [|lra].
    apply Rplus_le_compat; (eapply Rle_trans; [apply Rabs_triang|lra]). }
  pose proof (Rabs_prod_le _ _ _ _ Hys He) as Hp.
  eapply Rle_trans; [apply Rabs_triang|]. eapply Rle_trans; [apply Rplus_le_compat_r, Rabs_triang|].
  assert (0 <= a * (1 + u) * (Q - 1 - d)) by (apply Rmult_le_pos; [apply Rmult_le_pos|]; lra).
  nra.
Qed.

(* (1+u)^k - 1 <= 2 k u as long as 2 k u <= 1 *)
Lemma pow1p_le u k : 0 <= u -> 2 * INR k * u <= 1 -> (1 + u) ^ k - 1 <= 2 * INR k * u.
Proof.
  intros Hu. induction k as [|k IH]; intros Hk.
  - simpl. lra.
  - rewrite S_INR in *. assert (Hk' : 2 * INR k * u <= 1) by nra. specialize (IH Hk').
    assert (0 <= INR k) by apply pos_INR. simpl. nra.
Qed.

Lemma pow1p_ge1 u k : 0 <= u -> 1 <= (1 + u) ^ k.
Proof. intros Hu. apply pow_R1_Rle. lra. Qed.
Lemma pow1p_mono u j k : 0 <= u -> (j <= k)%nat -> (1 + u) ^ j <= (1 + u) ^ k.
Proof. intros Hu Hjk. apply Rle_pow; [lra|exact Hjk]. Qed.
